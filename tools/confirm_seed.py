#!/usr/bin/env python3
"""Confirm a seeded change independently, in a scratch worktree (never in /repo).

  confirm_seed.py <worktree> <change-dir> [--crates ntp-proto,ntpd]

Steps (all in <worktree>, which must be a clean git worktree of /repo):
  1. demo.sh on the clean tree          -> must exit 0
  2. git apply patch.diff
  3. cargo build + existing tests of the touched crates (guard off) -> must pass except the sandbox's
     known-failing tests (compared with /root/.vp/BASELINE.json stable_pass list: every stable test that ran must pass)
  4. demo.sh with the patch              -> must exit 1
  5. git checkout -- .  (worktree clean again)
Writes <change-dir>/confirm.json and prints CONFIRMED / REJECTED.
"""
import json
import os
import re
import subprocess
import sys


def sh(cmd, cwd=None, timeout=3600):
    p = subprocess.run(cmd, cwd=cwd, capture_output=True, text=True, timeout=timeout,
                       env=dict(os.environ, CARGO_NET_OFFLINE="true"))
    return p.returncode, p.stdout + p.stderr


def touched_crates(patch):
    crates = set()
    for m in re.finditer(r"^\+\+\+ b/([^/\n]+)/", patch, flags=re.M):
        crates.add(m.group(1))
    return sorted(crates)


def main():
    wt, d = os.path.abspath(sys.argv[1]), os.path.abspath(sys.argv[2])
    crates = None
    if "--crates" in sys.argv:
        crates = sys.argv[sys.argv.index("--crates") + 1].split(",")
    res = {"worktree": wt, "steps": {}}
    ok = True
    rc, out = sh(["git", "-C", wt, "status", "--porcelain", "--untracked-files=no"])
    if out.strip():
        sh(["git", "-C", wt, "checkout", "--", "."])
    patch = open(os.path.join(d, "patch.diff")).read()
    if crates is None:
        crates = touched_crates(patch)
    stable = set(json.load(open("/root/.vp/BASELINE.json"))["stable_pass"])
    demo = os.path.join(d, "demo.sh")
    try:
        rc, out = sh(["bash", demo, wt])
        res["steps"]["demo_clean"] = {"rc": rc, "tail": out[-800:]}
        ok &= rc == 0
        rc, out = sh(["git", "-C", wt, "apply", "--whitespace=nowarn", os.path.join(d, "patch.diff")])
        res["steps"]["apply"] = {"rc": rc, "tail": out[-400:]}
        ok &= rc == 0
        if rc == 0:
            failed_stable = []
            ran = 0
            for c in crates:
                cmd = ["cargo", "test", "--offline", "-p", c, "--no-fail-fast"]
                if c == "statime-csptp":   # does not build alone (ntp-proto dep without crypto feature)
                    cmd = ["cargo", "test", "--offline", "-p", "statime-csptp", "-p", "ntp-proto", "--lib", "--no-fail-fast"]
                rc, out = sh(cmd, cwd=wt)
                crate_us = c
                for m in re.finditer(r"^test (\S+) \.\.\. (ok|FAILED)", out, flags=re.M):
                    name = "%s::%s" % (crate_us, m.group(1))
                    ran += 1
                    if m.group(2) == "FAILED" and name in stable:
                        failed_stable.append(name)
                if "could not compile" in out:
                    failed_stable.append("%s: does not compile" % c)
            res["steps"]["existing_tests"] = {"ran": ran, "stable_failed": failed_stable}
            ok &= not failed_stable and ran > 0
            rc, out = sh(["bash", demo, wt])
            res["steps"]["demo_patched"] = {"rc": rc, "tail": out[-800:]}
            ok &= rc == 1
    finally:
        sh(["git", "-C", wt, "checkout", "--", "."])
        rc, out = sh(["git", "-C", wt, "status", "--porcelain", "--untracked-files=no"])
        res["steps"]["clean_after"] = out.strip() == ""
    res["confirmed"] = bool(ok)
    with open(os.path.join(d, "confirm.json"), "w") as f:
        json.dump(res, f, indent=1)
        f.write("\n")
    print(os.path.basename(d), "CONFIRMED" if ok else "REJECTED", json.dumps({k: (v.get("rc") if isinstance(v, dict) and "rc" in v else v) for k, v in res["steps"].items()})[:400])
    return 0 if ok else 1


if __name__ == "__main__":
    sys.exit(main())
