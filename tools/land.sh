#!/bin/bash
# land.sh <cluster> : integrate a builder's scratch pair, commit its fix patches to /repo, fill commit ids
set -e
c="$1"
base="${2:-builders-base}"
cd /verif
plan=$(python3 tools/integrate.py "$c" --base "$base")
if echo "$plan" | grep -q "^CONFLICT" ; then
  echo "$plan" | grep "^CONFLICT"
  echo "!! conflicts (wrong base tag?). Nothing applied. Usage: land.sh <cluster> <base-tag>"
  exit 1
fi
python3 tools/integrate.py "$c" --base "$base" --apply | grep -v "^copy-new" || true
for p in /tmp/w/$c/verif/fixes/*.patch; do
  [ -f "$p" ] || continue
  b=$(basename "$p" .patch)
  if git -C /repo log --format=%s | grep -qF "$(head -1 /tmp/w/$c/verif/fixes/$b.msg)"; then echo "fix $b already committed"; continue; fi
  git -C /repo apply "$p"
  git -C /repo add -A
  git -C /repo commit -qm "$(cat /tmp/w/$c/verif/fixes/$b.msg)"
  sha=$(git -C /repo log --format=%h -1)
  echo "committed fix $b as $sha"
  echo "$b $sha" >> /verif/fixes/COMMITS.txt
done
python3 - <<'PY'
import json,re
k=json.load(open('/verif/known_findings.json'))
commits={}
try:
    for l in open('/verif/fixes/COMMITS.txt'):
        b,s=l.split(); commits[b]=s
except OSError: pass
for e in k:
    if e.get('kind')=='fixed' and (not e.get('commit') or 'filled' in e.get('commit','')):
        # match by property id prefix in the fix file name
        cands=[s for b,s in commits.items() if b.startswith(e['property']+'-')]
        m=re.search(r'fixes/([A-Za-z0-9_.-]+)\.patch', e.get('what',''))
        if m and m.group(1) in commits: e['commit']=commits[m.group(1)]
        elif len(cands)==1: e['commit']=cands[0]
        else: print('!! cannot fill commit for', e['id'], cands)
json.dump(k,open('/verif/known_findings.json','w'),indent=1)
PY
python3 tools/gen_consts.py >/dev/null
echo landed $c
