#!/usr/bin/env python3
"""Run the project's own suite with the guard OFF and compare with /root/.vp/BASELINE.json stable_pass."""
import json, re, subprocess, sys
stable = set(json.load(open("/root/.vp/BASELINE.json"))["stable_pass"])
p = subprocess.run(["cargo", "test", "--workspace", "--no-fail-fast", "--offline"], cwd="/repo",
                   stdout=subprocess.PIPE, stderr=subprocess.STDOUT, text=True)
out = p.stdout
cur = None
res = {}
for line in out.splitlines():
    m = re.match(r"\s+Running (?:unittests )?(\S+) \(target/debug/deps/([a-z_0-9]+)-[0-9a-f]+\)", line)
    if m:
        src, binname = m.group(1), m.group(2)
        crate = binname.replace("_", "-")
        # integration tests: crate is the package; name prefix is the test file stem
        cur = (crate, src)
        continue
    m = re.match(r"test (\S+)(?: - should panic)? \.\.\. (ok|FAILED|ignored)", line)
    if m and cur:
        crate, src = cur
        name = m.group(1)
        if src.startswith("tests/"):
            stem = src[len("tests/"):-3]
            # package name from path is unknown here; BASELINE uses "<pkg>::<stem>::<name>"
            for pkg in ("ntpd", "ntp-proto"):
                res["%s::%s::%s" % (pkg, stem, name)] = m.group(2)
        else:
            res["%s::%s" % (crate, name)] = m.group(2)
missing = sorted(s for s in stable if s not in res)
failed = sorted(s for s in stable if res.get(s) == "FAILED")
print(json.dumps({"stable": len(stable), "seen": sum(1 for s in stable if s in res), "failed": failed, "missing": missing[:20]}, indent=1))
sys.exit(1 if failed or missing else 0)
