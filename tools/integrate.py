#!/usr/bin/env python3
"""Integrate a builder's scratch verif (/tmp/w/<cluster>/verif) into /verif.

  integrate.py <cluster> [--base <git rev of /verif the scratch was copied from>] [--apply]

Three-way logic per file (base = git rev in /verif, default: the commit tagged `builders-base` or HEAD~0):
  new in scratch                       -> copy
  scratch == /verif                    -> skip
  base == /verif  (only builder edited)-> copy
  base == scratch (only /verif edited) -> skip
  both edited                          -> merge for known append-only shared files, else CONFLICT (manual)
Without --apply it only prints the plan.  Repo-side changes are listed (fix patches are applied by hand).
"""
import json
import os
import re
import shutil
import subprocess
import sys

VERIF = "/verif"
SKIP_DIRS = {".git", "work", ".lake", "evidence", "__pycache__"}
SKIP_FILES = {"MANIFEST.json"}


def git_show(rev, rel):
    p = subprocess.run(["git", "-C", VERIF, "show", "%s:%s" % (rev, rel)], capture_output=True)
    return p.stdout if p.returncode == 0 else None


def read(path):
    try:
        return open(path, "rb").read()
    except OSError:
        return None


def merge_lines(cur, scr):
    """append lines/blocks of scr that are missing in cur (order preserved)"""
    cur_t = cur.decode()
    out = cur_t if cur_t.endswith("\n") else cur_t + "\n"
    added = []
    for line in scr.decode().splitlines():
        if line.strip() and line not in cur_t:
            added.append(line)
    return (out + "\n".join(added) + ("\n" if added else "")).encode(), added


def merge_lakefile(cur, scr):
    cur_t, scr_t = cur.decode(), scr.decode()
    blocks = re.findall(r"\[\[lean_exe\]\]\nname = \"([^\"]+)\"\nroot = \"([^\"]+)\"", scr_t)
    added = []
    out = cur_t if cur_t.endswith("\n") else cur_t + "\n"
    for name, root in blocks:
        if 'name = "%s"' % name not in cur_t:
            out += '\n[[lean_exe]]\nname = "%s"\nroot = "%s"\n' % (name, root)
            added.append(name)
    return out.encode(), added


def merge_dispatcher(cur, scr):
    cur_t, scr_t = cur.decode(), scr.decode()
    pairs = re.findall(r"(#\[path = \"[^\"]+\"\]\s*(?:pub(?:\([a-z]+\))? )?mod [a-z0-9_]+;)", scr_t)
    out = cur_t if cur_t.endswith("\n") else cur_t + "\n"
    added = []
    for p in pairs:
        key = re.search(r"#\[path = \"([^\"]+)\"\]", p).group(1)
        if key not in cur_t:
            out += "\n" + p + "\n"
            added.append(key)
    return out.encode(), added


def merge_known(cur, scr):
    a = json.loads(cur.decode() or "[]")
    b = json.loads(scr.decode() or "[]")
    ids = {x.get("id") for x in a}
    added = []
    for x in b:
        if x.get("id") not in ids:
            a.append(x)
            added.append(x.get("id"))
    return (json.dumps(a, indent=1) + "\n").encode(), added


def is_dispatcher(rel, data):
    return rel.startswith("harness/") and b"verification harness dispatcher" in data[:400]


def main():
    args = sys.argv[1:]
    cluster = args[0]
    base = "builders-base"
    apply = "--apply" in args
    if "--base" in args:
        base = args[args.index("--base") + 1]
    scratch = "/tmp/w/%s/verif" % cluster
    plan = []
    for root, dirs, files in os.walk(scratch):
        dirs[:] = [d for d in dirs if d not in SKIP_DIRS]
        for f in files:
            p = os.path.join(root, f)
            rel = os.path.relpath(p, scratch)
            if f in SKIP_FILES or f.endswith(".tmp") or rel.startswith("REPORT-") or rel.startswith("DELIVER-"):
                continue
            s = read(p)
            c = read(os.path.join(VERIF, rel))
            if c is None:
                plan.append(("copy-new", rel, None))
                continue
            if s == c:
                continue
            b = git_show(base, rel)
            if b == s:
                continue  # only /verif changed
            if rel == "lean/lakefile.toml":
                plan.append(("merge-lakefile", rel, merge_lakefile(c, s)))
            elif rel == "lean/NtpVerif.lean":
                plan.append(("merge-lines", rel, merge_lines(c, s)))
            elif rel == "known_findings.json":
                plan.append(("merge-known", rel, merge_known(c, s)))
            elif is_dispatcher(rel, c):
                plan.append(("merge-dispatcher", rel, merge_dispatcher(c, s)))
            elif rel == "lean/NtpVerif/Gen/Consts.lean":
                continue  # regenerated
            elif b == c:
                plan.append(("copy-changed", rel, None))
            else:
                plan.append(("CONFLICT", rel, None))
    for kind, rel, m in plan:
        extra = ""
        if m is not None:
            extra = "  +%s" % (m[1],)
        print("%-18s %s%s" % (kind, rel, extra))
    # repo side
    repo = "/tmp/w/%s/repo" % cluster
    d = subprocess.run(["git", "-C", repo, "status", "--short"], capture_output=True, text=True).stdout
    if d.strip():
        print("--- scratch repo changes (apply fixes by hand as separate commits):")
        print(d)
    if apply:
        for kind, rel, m in plan:
            dst = os.path.join(VERIF, rel)
            os.makedirs(os.path.dirname(dst), exist_ok=True)
            if kind in ("copy-new", "copy-changed"):
                shutil.copy(os.path.join(scratch, rel), dst)
            elif kind.startswith("merge"):
                with open(dst, "wb") as f:
                    f.write(m[0])
        print("applied.")
    return 0


if __name__ == "__main__":
    sys.exit(main())
