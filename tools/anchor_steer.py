#!/usr/bin/env python3
"""Anchor tool for C01/C02 (DESIGN §2.4 b): syntactic facts about `check_offset_steer` / `steer_offset` /
`steer_frequency` in ntp-proto/src/algorithm/kalman/mod.rs that the harness cannot observe because it is
compiled with cfg(test):

  * both threshold-violation arms still are `#[cfg(not(test))] std::process::exit(crate::exitcode::SOFTWARE);`
    followed by `#[cfg(test)] panic!("Threshold exceeded");` (so the `exit` outcome the harness observes as
    that panic is a process exit in the daemon);
  * outside `mod tests`, `step_clock(` is called exactly once, and `check_offset_steer(change)` is the
    statement right before it;
  * outside `mod tests`, `set_frequency(` is called exactly once (in `steer_frequency`, behind the clamp).

Usage: anchor_steer.py --repo /repo      prints one JSON line {"ok":bool,"problems":[...]}
"""
import json
import re
import sys

REL = "ntp-proto/src/algorithm/kalman/mod.rs"

EXIT_ARM = (r'error!\(\s*"[^"]*"\s*\);\s*'
            r'#\[cfg\(not\(test\)\)\]\s*std::process::exit\(crate::exitcode::SOFTWARE\);\s*'
            r'#\[cfg\(test\)\]\s*panic!\("Threshold exceeded"\);')


def main():
    repo = "/repo"
    args = sys.argv[1:]
    while args:
        a = args.pop(0)
        if a == "--repo":
            repo = args.pop(0)
    problems = []
    try:
        src = open("%s/%s" % (repo, REL), encoding="utf-8").read()
    except OSError as e:
        print(json.dumps({"ok": False, "problems": [{"file": REL, "why": str(e)}]}))
        return 0
    cut = src.find("#[cfg(test)]\nmod tests")
    if cut < 0:
        problems.append({"file": REL, "why": "`#[cfg(test)] mod tests` not found (cannot separate test code)"})
        cut = len(src)
    code = src[:cut]
    m = re.search(r"fn check_offset_steer\(&mut self, change: f64\) \{(.*?)\n    \}\n", code, re.S)
    if not m:
        problems.append({"file": REL, "why": "fn check_offset_steer(&mut self, change: f64) not found"})
    else:
        body = m.group(1)
        n = len(re.findall(EXIT_ARM, body))
        if n != 2:
            problems.append({"file": REL, "why": "expected 2 threshold-violation arms of the form "
                             "error!(..); #[cfg(not(test))] std::process::exit(crate::exitcode::SOFTWARE); "
                             "#[cfg(test)] panic!(\"Threshold exceeded\"); in check_offset_steer, found %d" % n})
        if len(re.findall(r"std::process::exit", body)) != 2 or len(re.findall(r"panic!\(", body)) != 2:
            problems.append({"file": REL, "why": "check_offset_steer has other exit/panic statements than the two anchored arms"})
    steps = re.findall(r"step_clock\(", code)
    if len(steps) != 1:
        problems.append({"file": REL, "why": "expected exactly one step_clock( call outside tests, found %d" % len(steps)})
    if not re.search(r"self\.check_offset_steer\(change\);\s*self\.clock\s*\.step_clock\(NtpDuration::from_seconds\(change\)\)", code):
        problems.append({"file": REL, "why": "step_clock(NtpDuration::from_seconds(change)) is no longer directly preceded by self.check_offset_steer(change);"})
    sf = re.findall(r"\.set_frequency\(", code)
    if len(sf) != 1:
        problems.append({"file": REL, "why": "expected exactly one .set_frequency( call outside tests, found %d" % len(sf)})
    print(json.dumps({"ok": not problems, "problems": problems}))
    return 0


if __name__ == "__main__":
    sys.exit(main())
