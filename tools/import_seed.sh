#!/bin/bash
# import_seed.sh <seed worktree> <Id>...  : copy confirmed seeded changes into /verif/seeded/<Id>/
wt="$1"; shift
for id in "$@"; do
  src=$wt/out/$id
  [ -f $src/confirm.json ] || { echo "$id: not confirmed"; continue; }
  grep -q '"confirmed": true' $src/confirm.json || { echo "$id: rejected"; continue; }
  dst=/verif/seeded/$id
  mkdir -p $dst
  cp $src/patch.diff $src/meta.json $src/confirm.json $dst/
  for f in demo.rs demo.md demo.sh; do [ -f $src/$f ] && cp $src/$f $dst/; done
  # any extra demo files
  for f in $src/demo*; do cp -n $f $dst/ 2>/dev/null; done
  rm -f $dst/*.log
  echo "imported $id"
done
