#!/usr/bin/env python3
"""Regenerate /verif/MANIFEST.json from /verif/props/*.json (claimed properties) and
/verif/props/not_claimed.json (reasons for the properties not claimed yet).  Validates against the schema
when jsonschema is importable."""
import glob
import json
import os
import subprocess
import sys

VERIF = os.path.dirname(os.path.dirname(os.path.abspath(__file__)))
BASELINE = ("cd /repo && cargo nextest run --workspace --no-fail-fast --test-threads 8 --offline "
            "|| cargo test --workspace --no-fail-fast --offline")


def main():
    all_ids = [json.loads(l)["id"] for l in open(os.path.join(VERIF, "properties.jsonl"))]
    claimed = {}
    for p in sorted(glob.glob(os.path.join(VERIF, "props", "C*.json"))):
        j = json.load(open(p))
        claimed[j["id"]] = j
    reasons = {}
    nc = os.path.join(VERIF, "props", "not_claimed.json")
    if os.path.exists(nc):
        reasons = json.load(open(nc))
    try:
        commits = subprocess.run(["git", "-C", "/repo", "log", "--format=%H %s"], capture_output=True,
                                 text=True).stdout.splitlines()
        hook_commits = [c.split()[0] for c in commits if " verif hooks:" in c]
    except Exception:
        hook_commits = []
    checks = []
    for pid in all_ids:
        if pid not in claimed:
            continue
        j = claimed[pid]
        full = j.get("full_statement_proved")
        text = j.get("level_text") or (
            "Lean 4 theorems %s over the hand-written executable model (module %s), kernel-checked, axioms audited; "
            "model tied to /repo's current source on every run by differential execution of model and implementation "
            "on the same generated inputs (%s) plus regenerated source constants. %s" % (
                ", ".join(j.get("theorems", [])), j["lean_module"],
                ", ".join(s["name"] for s in j.get("streams", [])) or "no stream",
                "Full statement proved." if full else "Partial: " + j.get("partial_note", "see DESIGN.md")))
        checks.append({
            "property_id": pid,
            "quick_cmd": "./check %s --tier quick" % pid,
            "thorough_cmd": "./check %s --tier thorough" % pid,
            "evidence_file": "/verif/evidence/%s.json" % pid,
            "replay_cmd_template": "./check %s --replay {path}" % pid,
            "engine": "lean-model+rust-harness",
            "level_claimed": {"category": j.get("level", "proof"), "text": text,
                              "design_ref": j.get("design_ref", "DESIGN.md §4 (%s)" % pid)},
            "level_note": "; ".join(j.get("trusted_base", []) + j.get("assumptions", [])) or "see DESIGN.md §1.1",
            "technique": j.get("technique", "Lean 4 machine-checked proof over an executable model + correspondence check"),
        })
    not_applicable = []
    for pid in all_ids:
        if pid not in claimed:
            not_applicable.append({"property_id": pid,
                                   "reason": reasons.get(pid, "not claimed yet: model and theorems under construction (DESIGN.md §7 order of work); no check is registered for it")})
    man = {
        "version": 1,
        "setup_cmd": "./check --setup",
        "hooks": {
            "guard": "cargo feature pendulum_project_ntpd_rs_verif together with cfg(test) (hook modules are `#[cfg(all(test, feature = \"pendulum_project_ntpd_rs_verif\"))] #[path = \"../..../verif/harness/<crate>/<name>.rs\"] mod verif_<name>;`)",
            "enable": "cargo test --offline -p <crate> --lib --features pendulum_project_ntpd_rs_verif --no-run, then the test binary is run with --exact <module>::verif_<name>::entry and VERIF_* environment variables",
            "baseline_off_cmd": BASELINE,
            "source_commits": hook_commits,
            "add_only": True,
        },
        "engines": [
            {"name": "lean-model", "path": "/verif/lean", "serves_properties": sorted(claimed),
             "kind_free_text": "Lean 4 lake project: executable models, proofs, property theorems, compiled model drivers"},
            {"name": "rust-harness", "path": "/verif/harness", "serves_properties": sorted(claimed),
             "kind_free_text": "generators, implementation drivers and property oracles compiled into the repo crates through guarded hooks"},
            {"name": "orchestrator", "path": "/verif/check", "serves_properties": sorted(claimed),
             "kind_free_text": "python3: translator, lake build + axiom audit, harness run, model/impl diff, oracle, failing-input search, verdict, evidence"},
        ],
        "checks": checks,
        "not_applicable": not_applicable,
        "notes": "Technique: machine-checked proof in Lean 4 (see DESIGN.md). Known findings: /verif/known_findings.json.",
    }
    out = os.path.join(VERIF, "MANIFEST.json")
    with open(out, "w") as f:
        json.dump(man, f, indent=1)
        f.write("\n")
    try:
        import jsonschema
        jsonschema.validate(man, json.load(open("/root/.vp/MANIFEST.schema.json")))
        print("MANIFEST.json valid; claimed:", " ".join(sorted(claimed)))
    except ImportError:
        print("MANIFEST.json written (jsonschema not importable; run with python3-vt to validate)")
    return 0


if __name__ == "__main__":
    sys.exit(main())
