#!/usr/bin/env python3
"""Source-text anchors: facts of the source a property relies on but no model covers (e.g. "the daemon
hands the server a send buffer as long as the request").  Each anchor is a regular expression that must match
its file exactly once.

  src_anchor.py --repo R --spec anchors/src/<name>.json
  spec: [{"file": "<path in repo>", "regex": "...", "what": "<the fact>"}]
Last stdout line: {"ok":bool,"problems":[...]}
"""
import argparse, json, os, re, sys
VERIF = os.path.dirname(os.path.dirname(os.path.abspath(__file__)))
ap = argparse.ArgumentParser()
ap.add_argument("--repo", default="/repo")
ap.add_argument("--spec", nargs="+", required=True)
a = ap.parse_args()
problems = []
for sp in a.spec:
    p = sp if os.path.isabs(sp) else os.path.join(VERIF, sp)
    try:
        items = json.load(open(p))
    except Exception as e:
        problems.append({"spec": sp, "why": "cannot read: %s" % e})
        continue
    for it in items:
        try:
            src = open(os.path.join(a.repo, it["file"])).read()
        except OSError:
            problems.append({"file": it["file"], "why": "source file missing", "what": it.get("what", "")})
            continue
        n = len(re.findall(it["regex"], src, re.S))
        if n != 1:
            problems.append({"file": it["file"], "why": "anchor matches %d times (want 1)" % n, "what": it.get("what", ""),
                             "regex": it["regex"]})
print(json.dumps({"ok": not problems, "problems": problems}))
sys.exit(0 if not problems else 1)
