#!/usr/bin/env python3
"""Run the registered checks against a seeded change.

  seedtest.py /verif/seeded/<id> [--tier quick|thorough] [--props C13,C14]

Applies <dir>/patch.diff to /repo (git apply), runs ./check for the property named in meta.json (or --props),
undoes the change (git checkout -- .) and records the outcome in <dir>/result.json.
/repo must be clean before; it is clean afterwards whatever happens.
"""
import json
import os
import subprocess
import sys
import time

VERIF = "/verif"
REPO = "/repo"


def sh(cmd, **kw):
    return subprocess.run(cmd, capture_output=True, text=True, **kw)


def main():
    d = os.path.abspath(sys.argv[1])
    tier = "quick"
    props = None
    a = sys.argv[2:]
    while a:
        x = a.pop(0)
        if x == "--tier":
            tier = a.pop(0)
        elif x == "--props":
            props = a.pop(0).split(",")
    meta = json.load(open(os.path.join(d, "meta.json")))
    if props is None:
        p = meta["property"]
        props = p if isinstance(p, list) else [p]
        import re as _re
        props = [_re.match(r"C\d+", str(x)).group(0) for x in props if _re.match(r"C\d+", str(x))]
    st = sh(["git", "-C", REPO, "status", "--porcelain", "--untracked-files=no"]).stdout.strip()
    if st:
        print("refusing: /repo has uncommitted changes:\n" + st)
        return 2
    r = sh(["git", "-C", REPO, "apply", "--whitespace=nowarn", os.path.join(d, "patch.diff")])
    if r.returncode != 0:
        print("patch does not apply: " + r.stderr)
        return 2
    results = {}
    try:
        for pid in props:
            t0 = time.time()
            r = sh([os.path.join(VERIF, "check"), pid, "--tier", tier], cwd=VERIF,
                   env=dict(os.environ, VERIF_SEED=os.environ.get("VERIF_SEED", "1")))
            vio = [l for l in r.stdout.splitlines() if l.startswith("VIOLATION")]
            replay_summ = []
            for l in vio:
                try:
                    path = l.split("replay=")[1].split()[0]
                    j = json.load(open(path))
                    replay_summ.append({k: j.get(k) for k in ("kind", "stream", "case", "oracle_clause", "what")
                                        if j.get(k) is not None})
                    if j.get("no_longer_checks"):
                        replay_summ[-1]["no_longer_checks"] = [
                            {k: b.get(k) for k in ("kind", "stream", "op", "model_says", "impl_says", "problems", "first_error") if b.get(k)}
                            for b in j["no_longer_checks"]][:2]
                except Exception as e:  # noqa
                    replay_summ.append({"error": str(e)})
            results[pid] = {"rc": r.returncode, "caught": r.returncode == 1 and bool(vio),
                            "violation_lines": vio, "replays": replay_summ,
                            "stderr_tail": r.stderr[-600:], "wall_s": round(time.time() - t0, 1)}
    finally:
        sh(["git", "-C", REPO, "checkout", "--", "."])
    prev = {}
    try:
        prev = json.load(open(os.path.join(d, "result.json"))).get("results", {})
    except Exception:
        pass
    prev.update(results)
    out = {"tier": tier, "ran_at": time.strftime("%Y-%m-%dT%H:%M:%S"), "results": prev}
    with open(os.path.join(d, "result.json"), "w") as f:
        json.dump(out, f, indent=1)
        f.write("\n")
    for pid, r in results.items():
        print("%s %s: %s  %s" % (os.path.basename(d), pid, "CAUGHT" if r["caught"] else "MISSED (rc=%d)" % r["rc"],
                                  "; ".join(r["violation_lines"])[:300]))
    return 0


if __name__ == "__main__":
    sys.exit(main())
