#!/usr/bin/env python3
"""Regenerate the generated blocks of DESIGN.md (status table, per-property record, findings, seeded changes)
from props/*.json, known_findings.json, seeded/*/{meta,confirm,result}.json."""
import glob, json, os, re
V = "/verif"
props = {}
for p in sorted(glob.glob(V + "/props/C*.json")):
    j = json.load(open(p)); props[j["id"]] = j
known = json.load(open(V + "/known_findings.json"))
titles = {json.loads(l)["id"]: json.loads(l)["title"] for l in open(V + "/properties.jsonl")}
seeded = {}
seed_rows = []
for d in sorted(glob.glob(V + "/seeded/*/")):
    sid = os.path.basename(d.rstrip("/"))
    try:
        meta = json.load(open(d + "meta.json"))
    except Exception:
        continue
    pid = re.match(r"C\d+", str(meta["property"] if isinstance(meta["property"], str) else meta["property"][0])).group(0)
    res = {}
    others = []
    try:
        allres = json.load(open(d + "result.json"))["results"]
        res = allres.get(pid, {})
        others = [k for k, v in allres.items() if k != pid and v.get("caught")]
    except Exception:
        pass
    caught = res.get("caught")
    seeded.setdefault(pid, []).append((sid, caught))
    how = ""
    for r in res.get("replays", [])[:1]:
        if r.get("oracle_clause"):
            how = "oracle `%s` on stream %s (concrete failing input)" % (r["oracle_clause"], r.get("stream"))
        elif r.get("kind") == "no-failing-input-found":
            nl = (r.get("no_longer_checks") or [{}])[0]
            how = "%s broken (%s), no failing input found" % (nl.get("kind"), nl.get("stream") or str((nl.get("problems") or [""])[0])[:80])
    st = "caught" if caught else ("MISSED" if caught is False else "not run")
    if others:
        how = (how + "; " if how else "") + "also caught by the check of " + ", ".join(others)
    seed_rows.append("| %s | %s | %s | %s | %s | %s |" % (sid, pid, str(meta.get("breaks", ""))[:150].replace("|", "/"),
                     str(meta.get("needs", ""))[:140].replace("|", "/"), st, how))

def block(name, text, s):
    begin, end = "<!-- %s-BEGIN -->" % name, "<!-- %s-END -->" % name
    b = begin + "\n" + text + "\n" + end
    if begin in s:
        return re.sub(re.escape(begin) + r".*?" + re.escape(end), lambda m: b, s, flags=re.S)
    return s.rstrip("\n") + "\n\n" + b + "\n"

rows = ["| id | claim | theorems | streams (quick cases) | findings | seeded changes (caught/total) |", "|---|---|---|---|---|---|"]
for pid in sorted(titles):
    j = props.get(pid)
    if not j:
        rows.append("| %s | not claimed | | | | |" % pid); continue
    full = "FULL" if j.get("full_statement_proved") else "partial"
    streams = ", ".join("%s (%s)" % (s["name"], s.get("quick_n", "?")) for s in j.get("streams", []))
    ks = "; ".join("%s %s%s" % (k["id"], k["kind"], (" " + k.get("commit", "")) if k["kind"] == "fixed" else "") for k in known if k["property"] == pid)
    sd = seeded.get(pid, [])
    sds = "%d/%d" % (sum(1 for _, c in sd if c), len(sd)) if sd else ""
    rows.append("| %s | %s | %d | %s | %s | %s |" % (pid, full, len(j.get("theorems", [])), streams, ks, sds))

rec = []
for pid in sorted(titles):
    j = props.get(pid)
    if not j: continue
    rec.append("#### %s — %s" % (pid, titles[pid]))
    rec.append("* **Claim**: %s%s" % ("full statement proved on the model" if j.get("full_statement_proved") else "PARTIAL", (" — " + j["partial_note"]) if j.get("partial_note") else ""))
    rec.append("* **Theorems** (`lean/%s.lean`): %s" % (j["lean_module"].replace(".", "/"), ", ".join("`%s`" % t.split(".")[-1] for t in j.get("theorems", []))))
    if j.get("explanation"): rec.append("* **What they say**: %s" % j["explanation"])
    rec.append("* **Tie**: streams %s%s" % (", ".join("`%s`" % s["name"] for s in j.get("streams", [])) or "none",
               ("; anchors: " + ", ".join(t["script"] + " " + " ".join(t.get("args", [])) for t in j["anchor_tools"])) if j.get("anchor_tools") else ""))
    if j.get("trusted_base"): rec.append("* **Trusted / modelled rather than verified**: " + "; ".join(j["trusted_base"]))
    if j.get("assumptions"): rec.append("* **Assumptions**: " + "; ".join(j["assumptions"]))
    rec.append("")

fr = ["| id | property | kind | commit | what |", "|---|---|---|---|---|"]
for k in known:
    fr.append("| %s | %s | %s | %s | %s |" % (k["id"], k["property"], k["kind"], k.get("commit", ""), k["what"][:400].replace("|", "/")))

p = V + "/DESIGN.md"
s = open(p).read()
s = block("STATUS", "\n".join(rows), s)
s = block("RECORD", "### 10.3 Per-property record (generated from props/*.json)\n\n" + "\n".join(rec), s)
s = block("FINDINGS", "### 10.4 Findings (generated from known_findings.json)\n\n" + "\n".join(fr), s)
s = block("SEEDED", "### 10.5 Independently seeded changes and what catches them (generated from seeded/*/)\n\n| change | property | clause broken | needs | result | caught by |\n|---|---|---|---|---|---|\n" + "\n".join(seed_rows), s)
open(p, "w").write(s)
print("status: %d claimed of %d; %d findings; %d seeded changes" % (len(props), len(titles), len(known), len(seed_rows)))
