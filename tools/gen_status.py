#!/usr/bin/env python3
"""Regenerate the per-property status table in DESIGN.md (between the STATUS markers) from props/*.json,
known_findings.json, seeded/*/result.json."""
import glob, json, os, re
V = "/verif"
props = {}
for p in sorted(glob.glob(V + "/props/C*.json")):
    j = json.load(open(p)); props[j["id"]] = j
known = json.load(open(V + "/known_findings.json"))
titles = {json.loads(l)["id"]: json.loads(l)["title"] for l in open(V + "/properties.jsonl")}
seeded = {}
for d in sorted(glob.glob(V + "/seeded/*/")):
    try:
        meta = json.load(open(d + "meta.json")); res = json.load(open(d + "result.json"))
    except Exception:
        continue
    pid = meta["property"] if isinstance(meta["property"], str) else meta["property"][0]
    r = res["results"].get(pid, {})
    seeded.setdefault(pid, []).append((os.path.basename(d.rstrip("/")), r.get("caught"), r))
rows = ["| id | claim | theorems | streams (quick cases) | findings | seeded changes (caught/total) |", "|---|---|---|---|---|---|"]
for pid in sorted(titles):
    j = props.get(pid)
    if not j:
        rows.append("| %s | not claimed yet | | | | |" % pid); continue
    full = "FULL" if j.get("full_statement_proved") else "partial"
    ths = len(j.get("theorems", []))
    streams = ", ".join("%s (%s)" % (s["name"], s.get("quick_n", "?")) for s in j.get("streams", []))
    ks = "; ".join("%s %s%s" % (k["id"], k["kind"], (" " + k.get("commit", "")) if k["kind"] == "fixed" else "") for k in known if k["property"] == pid)
    sd = seeded.get(pid, [])
    sds = "%d/%d" % (sum(1 for _, c, _ in sd if c), len(sd)) if sd else ""
    rows.append("| %s | %s | %d | %s | %s | %s |" % (pid, full, ths, streams, ks, sds))
table = "\n".join(rows)
p = V + "/DESIGN.md"
s = open(p).read()
begin, end = "<!-- STATUS-BEGIN -->", "<!-- STATUS-END -->"
block = begin + "\n" + table + "\n" + end
if begin in s:
    s = re.sub(re.escape(begin) + r".*?" + re.escape(end), lambda m: block, s, flags=re.S)
else:
    s = s.rstrip("\n") + "\n\n" + block + "\n"
open(p, "w").write(s)
print("status table: %d claimed of %d" % (len(props), len(titles)))
