import os,re
FEAT='pendulum_project_ntpd_rs_verif'
hooks = {
 'ntp-proto': ['lib.rs','source.rs','server.rs','cookiestash.rs','keyset.rs','ipfilter.rs','time_types.rs','system.rs','config.rs',
   'algorithm/mod.rs','algorithm/kalman/mod.rs','algorithm/kalman/source.rs','algorithm/kalman/select.rs','algorithm/kalman/combiner.rs',
   'packet/mod.rs','packet/extension_fields.rs','packet/v5/mod.rs','packet/v5/server_reference_id.rs','packet/v5/extension_fields.rs',
   'nts/mod.rs','nts/messages.rs','nts/record.rs'],
 'ntpd': ['lib.rs','daemon/sock_source.rs','daemon/config/mod.rs','daemon/config/ntp_source.rs','daemon/config/server.rs','daemon/spawn/mod.rs','daemon/spawn/pool.rs',
   'daemon/spawn/standard.rs','daemon/spawn/nts_pool.rs','daemon/sockets.rs','daemon/server.rs','daemon/nts_key_provider.rs','daemon/observer.rs','daemon/clock.rs','daemon/keyexchange.rs','daemon/system.rs'],
 'statime-algo': ['lib.rs','estimator.rs','filter.rs'],
 'statime-base': ['lib.rs','time_types.rs'],
 'statime-wire': ['lib.rs','common/tlv.rs','messages/mod.rs'],
 'statime-csptp': ['lib.rs','source.rs','server.rs','messages.rs'],
}
made=[]
for crate, files in hooks.items():
    ct=f'/repo/{crate}/Cargo.toml'
    s=open(ct).read()
    assert '[features]' in s
    if FEAT not in s:
        s=s.replace('[features]\n', f'[features]\n{FEAT} = []\n',1)
        open(ct,'w').write(s)
    hdir=crate.replace('-','_')
    for f in files:
        p=f'/repo/{crate}/src/{f}'
        depth = f.count('/')  # dirs below src
        up = '../'*(depth+3)   # src dir -> crate -> repo -> /
        name = f[:-3].replace('/','_')
        if name.endswith('_mod'): name=name[:-4]
        if name=='lib': name='root'
        rel=f'{up}verif/harness/{hdir}/{name}.rs'
        src=open(p).read()
        if FEAT in src: continue
        if not src.endswith('\n'): src+='\n'
        src+=f'\n#[cfg(all(test, feature = "{FEAT}"))]\n#[path = "{rel}"]\nmod verif_{name};\n'
        open(p,'w').write(src)
        hp=f'/verif/harness/{hdir}/{name}.rs'
        os.makedirs(os.path.dirname(hp),exist_ok=True)
        if not os.path.exists(hp):
            open(hp,'w').write(f'//! verification harness module included into `{crate}/src/{f}` (guarded hook).\n')
        made.append((crate,f,name))
for m in made: print(m)
