#!/bin/sh
# Create a private scratch pair /tmp/w/<name>/{repo,verif} (copies of /repo and /verif incl. build caches).
set -e
name="$1"
[ -n "$name" ] || { echo "usage: mkscratch.sh <name>"; exit 2; }
d=/tmp/w/$name
mkdir -p "$d"
# the lock keeps a seeded change (applied temporarily by tools/seedtest.py) out of the copy
flock /tmp/repo.lock rsync -a --delete --exclude target/debug/incremental /repo/ "$d/repo/"
rsync -a --delete --exclude work --exclude .git /verif/ "$d/verif/"
# cargo's dep-info in the copied target still names /verif/harness files: force the hooked crates to be rebuilt
# against the scratch harness by touching their roots
for c in ntp-proto ntpd statime-algo statime-base statime-wire statime-csptp; do touch "$d/repo/$c/src/lib.rs"; done
# drop what a scratch pair never needs
rm -rf "$d/repo/target/debug/incremental" "$d/repo/target/debug/ntp-ctl" "$d/repo/target/debug/ntp-daemon" "$d/repo/target/debug/ntp-metrics-exporter"
rm -f "$d"/repo/target/debug/deps/ntp_daemon-* "$d"/repo/target/debug/deps/ntp_ctl-* "$d"/repo/target/debug/deps/ntp_metrics_exporter-*
echo "$d"
