#!/bin/sh
# Create a private scratch pair /tmp/w/<name>/{repo,verif} (copies of /repo and /verif incl. build caches).
set -e
name="$1"
[ -n "$name" ] || { echo "usage: mkscratch.sh <name>"; exit 2; }
d=/tmp/w/$name
mkdir -p "$d"
rsync -a --delete /repo/ "$d/repo/"
rsync -a --delete --exclude work --exclude .git /verif/ "$d/verif/"
echo "$d"
