#!/usr/bin/env python3
"""Panic-site inventory (DESIGN §2.4 (c)).

Lists, outside `#[cfg(test)]` / `#[test]` items, every syntactic panic site of a Rust source file and compares
the list with an anchor file that gives each site a disposition.

Site kinds
  unwrap   `.unwrap()`, `.expect(..)`, `.unwrap_err()`, `.expect_err(..)`
  macro    `panic!`, `unreachable!`, `unimplemented!`, `todo!`, `assert*!`, `debug_assert*!`
  index    slice / array / map index expression `e[..]` (not the full range `e[..]`)
  narrow   `<something named *len*> as u8|u16|u32|i8|i16|i32`  (silent truncation of a length)
  call     std calls that panic on bad arguments: copy_from_slice, clone_from_slice, split_at(_mut), swap_remove,
           chunks(_exact), clamp, from_secs_f64/f32, rotate_left/right, step_by
Integer overflow cannot be listed syntactically (covered by checked arithmetic in the models + correspondence).

A site is keyed by  "<scope path>|<kind>|<normalised text>"  where the scope path is the chain of enclosing
`mod` / `impl` / `trait` / `fn` names (`Server::handle_inner`) and the text is the macro call (to its closing
parenthesis) or the source line of the site, comments removed, white space collapsed.  Equal keys are counted.

Anchor file (JSON):
  { "files": { "<path relative to the repo>": {
        "kinds": ["unwrap","macro","index","narrow","call"],          (optional, default all)
        "fn_dispositions": { "<fnmatch pattern on scope path>": "<disposition>" },   whole scopes, sites not tracked
        "sites": { "<key>": {"count": 1, "disposition": "<disposition>"} } } } }
  disposition :=  model:<Lean constructor / definition> [free text]
               |  unreachable-by:<Lean lemma> [free text]
               |  not-on-path:<reason>
  The Lean name after `model:` / `unreachable-by:` must occur (last component, as a word) in some file under
  lean/NtpVerif.

Usage
  panic_sites.py --repo R --anchors anchors/panic_sites/x.json [...]     check; last stdout line is JSON
                                                                          {"ok":bool,"problems":[...],"sites":n}
  panic_sites.py --repo R --list  <file.rs> [...]                         print the inventory (with line numbers)
  panic_sites.py --repo R --init anchors/panic_sites/x.json --files <file.rs> [...]
        create / refresh the anchor file: keeps known dispositions, adds new sites as "TODO", drops vanished ones
Relative anchor paths are resolved against the verif directory (the parent of tools/).
"""
import argparse, fnmatch, json, os, re, sys

VERIF = os.path.dirname(os.path.dirname(os.path.abspath(__file__)))
ALL_KINDS = ["unwrap", "macro", "index", "narrow", "call"]
KEYWORDS_BEFORE_BRACKET = {
    "in", "return", "mut", "const", "static", "let", "else", "match", "if", "while", "as", "dyn", "impl",
    "where", "break", "move", "ref", "box", "yield", "loop", "for", "unsafe", "pub", "fn", "type", "use",
}
MACROS = ("panic", "unreachable", "unimplemented", "todo", "assert", "assert_eq", "assert_ne", "debug_assert",
          "debug_assert_eq", "debug_assert_ne")
CALLS = ("copy_from_slice", "clone_from_slice", "split_at", "split_at_mut", "swap_remove", "chunks",
         "chunks_exact", "clamp", "from_secs_f64", "from_secs_f32", "rotate_left", "rotate_right", "step_by")
DISP_RE = re.compile(r"^(model|unreachable-by|not-on-path):\s*(\S.*)$")


# ------------------------------------------------------------------------------------------------ lexing

def clean(src):
    """Returns (code, nocomment): `code` has comments, string and char literals blanked (same length, newlines
    kept); `nocomment` has only the comments blanked (used for the site texts)."""
    n = len(src)
    code = list(src)
    noc = list(src)
    i = 0

    def blank(a, b, both):
        for k in range(a, b):
            if src[k] != "\n":
                code[k] = " "
                if both:
                    noc[k] = " "

    while i < n:
        c = src[i]
        if c == "/" and i + 1 < n and src[i + 1] == "/":
            j = src.find("\n", i)
            j = n if j < 0 else j
            blank(i, j, True)
            i = j
        elif c == "/" and i + 1 < n and src[i + 1] == "*":
            depth, j = 1, i + 2
            while j < n and depth:
                if src.startswith("/*", j):
                    depth += 1
                    j += 2
                elif src.startswith("*/", j):
                    depth -= 1
                    j += 2
                else:
                    j += 1
            blank(i, j, True)
            i = j
        elif c == '"' or (c in "br" and re.match(r'(b?r#*"|b")', src[i:i + 12]) and (i == 0 or not (src[i - 1].isalnum() or src[i - 1] == "_"))):
            m = re.match(r'b?r(#*)"', src[i:i + 12])
            if m:
                end = '"' + m.group(1)
                j = src.find(end, i + len(m.group(0)))
                j = n if j < 0 else j + len(end)
            else:
                j = i + (2 if c == "b" else 1)
                while j < n and src[j] != '"':
                    j += 2 if src[j] == "\\" else 1
                j = min(n, j + 1)
            blank(i + 1, j - 1, False)          # keep the quotes so that token boundaries survive
            i = j
        elif c == "'":
            # char literal or lifetime
            m = re.match(r"'(\\.[^']*|[^\\'])'", src[i:i + 12])
            if m:
                blank(i + 1, i + len(m.group(0)) - 1, False)
                i += len(m.group(0))
            else:
                i += 1
        else:
            i += 1
    return "".join(code), "".join(noc)


def match_close(code, i):
    """index just after the bracket matching code[i] (one of ([{)"""
    pairs = {"(": ")", "[": "]", "{": "}"}
    stack = []
    n = len(code)
    while i < n:
        c = code[i]
        if c in pairs:
            stack.append(pairs[c])
        elif c in ")]}":
            if not stack:
                return i + 1
            stack.pop()
            if not stack:
                return i + 1
        i += 1
    return n


TEST_ATTR = re.compile(r"#\s*\[\s*(cfg\s*\(\s*test\s*\)|cfg\s*\(\s*all\s*\(\s*test\b|test\s*\]|tokio\s*::\s*test|cfg_attr\s*\(\s*test\b)")


def blank_test_items(code):
    """blank out every item that carries #[cfg(test)], #[cfg(all(test, ..))], #[test] or #[tokio::test]"""
    out = list(code)
    pos = 0
    while True:
        m = TEST_ATTR.search(code, pos)
        if not m:
            break
        start = m.start()
        if m.group(1).startswith("cfg_attr"):
            pos = m.end()
            continue
        i = match_close(code, code.index("[", start))
        # further attributes
        while True:
            k = i
            while k < len(code) and code[k].isspace():
                k += 1
            if code.startswith("#", k):
                kk = k + 1
                while kk < len(code) and code[kk].isspace():
                    kk += 1
                if code.startswith("[", kk):
                    i = match_close(code, kk)
                    continue
            break
        # the item: up to `;` or the matching `}` at bracket depth 0
        depth = 0
        j = i
        end = len(code)
        while j < len(code):
            c = code[j]
            if c in "([":
                depth += 1
            elif c in ")]":
                depth -= 1
            elif c == ";" and depth == 0:
                end = j + 1
                break
            elif c == "{" and depth == 0:
                end = match_close(code, j)
                break
            j += 1
        for k in range(start, end):
            if out[k] != "\n":
                out[k] = " "
        pos = end
        code = "".join(out)
    return "".join(out)


def strip_generics(s):
    out, depth = [], 0
    for ch in s:
        if ch == "<":
            depth += 1
        elif ch == ">":
            depth = max(0, depth - 1)
        elif depth == 0:
            out.append(ch)
    return "".join(out)


def impl_name(header):
    h = " ".join(header.split())
    h = re.sub(r"\bwhere\b.*$", "", h)
    h = strip_generics(h).strip()
    if " for " in h:
        h = h.split(" for ", 1)[1]
    h = h.replace("&", "").replace("mut ", "").replace("dyn ", "").strip()
    return h.split()[0] if h.split() else "?"


def scopes(code):
    """for every offset of an opening brace of a named scope: its name; returns a function offset -> scope path"""
    n = len(code)
    opens = {}                                   # offset of `{` -> name
    for m in re.finditer(r"\b(fn|impl|trait|mod)\b", code):
        kw = m.group(1)
        i = m.end()
        if kw == "fn":
            mm = re.match(r"\s*([A-Za-z_][A-Za-z0-9_]*)", code[i:i + 200])
            if not mm:
                continue                         # `fn(..)` pointer type
            name = mm.group(1)
        elif kw in ("trait", "mod"):
            mm = re.match(r"\s*([A-Za-z_][A-Za-z0-9_]*)", code[i:i + 200])
            if not mm:
                continue
            name = mm.group(1)
        else:
            name = None
        # header runs to `{` or `;` at bracket depth 0
        depth, j = 0, i
        while j < n:
            c = code[j]
            if c in "([":
                depth += 1
            elif c in ")]":
                depth -= 1
                if depth < 0:
                    break                        # `impl Trait` in argument position etc.
            elif depth == 0 and c in "{;":
                break
            elif depth == 0 and c in ",=" and kw == "impl":
                break                            # `-> impl Trait,` / `x: impl T = ..`
            j += 1
        if j < n and code[j] == "{" and depth == 0:
            if kw == "impl":
                name = impl_name(code[i:j])
            opens.setdefault(j, name)
    # walk the braces
    path_at = []                                 # (offset, path) change points
    stack = []
    cur = ""
    for j, c in enumerate(code):
        if c == "{":
            stack.append(opens.get(j))
            cur = "::".join(x for x in stack if x)
            path_at.append((j, cur))
        elif c == "}":
            if stack:
                stack.pop()
            cur = "::".join(x for x in stack if x)
            path_at.append((j, cur))
    offs = [p[0] for p in path_at]
    import bisect

    def path(off):
        k = bisect.bisect_right(offs, off) - 1
        return path_at[k][1] if k >= 0 else ""
    return path


def norm(s, cap=200):
    s = " ".join(s.split())
    return s if len(s) <= cap else s[:cap] + "..."


def line_of(text, off):
    a = text.rfind("\n", 0, off) + 1
    b = text.find("\n", off)
    b = len(text) if b < 0 else b
    return text[a:b]


def inventory(src, kinds=None):
    """list of dicts {scope, kind, text, line}"""
    kinds = set(kinds or ALL_KINDS)
    code, noc = clean(src)
    code = blank_test_items(code)
    path = scopes(code)
    sites = []

    def add(kind, off, text):
        if kind in kinds:
            sites.append({"scope": path(off) or "<top>", "kind": kind, "text": norm(text),
                          "line": src.count("\n", 0, off) + 1})

    for m in re.finditer(r"\.\s*(unwrap|expect|unwrap_err|expect_err)\s*\(", code):
        add("unwrap", m.start(), line_of(noc, m.start()))
    for m in re.finditer(r"\b(%s)\s*!\s*[(\[{]" % "|".join(MACROS), code):
        end = match_close(code, m.end() - 1)
        add("macro", m.start(), noc[m.start():end])
    for m in re.finditer(r"\.\s*(%s)\s*\(|\b(from_secs_f64|from_secs_f32)\s*\(" % "|".join(CALLS), code):
        add("call", m.start(), line_of(noc, m.start()))
    for m in re.finditer(r"\b\w*len\w*(\s*\(\s*\))?\s+as\s+(u8|u16|u32|i8|i16|i32)\b", code):
        add("narrow", m.start(), line_of(noc, m.start()))
    for m in re.finditer(r"\[", code):
        i = m.start()
        k = i - 1
        while k >= 0 and code[k] in " \t":
            k -= 1
        if k < 0:
            continue
        c = code[k]
        if not (c.isalnum() or c in "_)]?"):
            continue
        if c.isalnum() or c == "_":
            a = k
            while a >= 0 and (code[a].isalnum() or code[a] == "_"):
                a -= 1
            tok = code[a + 1:k + 1]
            if tok in KEYWORDS_BEFORE_BRACKET or (a >= 0 and code[a] == "'"):
                continue
            if tok[0].isdigit():
                continue
        end = match_close(code, i)
        inner = "".join(code[i + 1:end - 1].split())
        if inner == "..":
            continue
        # attribute-like `#[..]` and macro `name![..]` were excluded by the previous-character test
        add("index", i, line_of(noc, i))
    sites.sort(key=lambda s: (s["line"], s["kind"]))
    return sites


def keyed(sites):
    out = {}
    for s in sites:
        k = "%s|%s|%s" % (s["scope"], s["kind"], s["text"])
        out.setdefault(k, []).append(s["line"])
    return out


# ------------------------------------------------------------------------------------------------ anchors

def lean_words(lean_dir):
    words = set()
    for root, _, files in os.walk(os.path.join(lean_dir, "NtpVerif")):
        for f in files:
            if f.endswith(".lean"):
                try:
                    words.update(re.findall(r"[A-Za-z_][A-Za-z0-9_']*", open(os.path.join(root, f)).read()))
                except OSError:
                    pass
    return words


def check_disposition(d, words):
    m = DISP_RE.match(d or "")
    if not m:
        return "disposition must be model:<name> | unreachable-by:<lemma> | not-on-path:<reason>"
    if m.group(1) in ("model", "unreachable-by") and words is not None:
        name = m.group(2).split()[0].rstrip(",;.")
        last = name.split(".")[-1]
        if last not in words:
            return "Lean name `%s` not found under lean/NtpVerif" % name
    return None


def scope_covered(scope, fn_disp):
    for pat in fn_disp:
        if fnmatch.fnmatchcase(scope, pat) or fnmatch.fnmatchcase(scope, pat + "::*"):
            return pat
    return None


def check_anchor(anchor_path, repo, words):
    problems = []
    try:
        anchor = json.load(open(anchor_path))
    except Exception as e:
        return [{"anchor": anchor_path, "why": "cannot read anchor file: %s" % e}], 0
    total = 0
    for rel, spec in anchor.get("files", {}).items():
        p = os.path.join(repo, rel)
        if not os.path.exists(p):
            problems.append({"file": rel, "why": "source file missing"})
            continue
        found = keyed(inventory(open(p).read(), spec.get("kinds")))
        fn_disp = spec.get("fn_dispositions", {})
        known = spec.get("sites", {})
        used_pats = set()
        for pat, d in fn_disp.items():
            why = check_disposition(d, words)
            if why:
                problems.append({"file": rel, "scope": pat, "why": why})
        live = {}
        for k, lines in found.items():
            pat = scope_covered(k.split("|", 1)[0], fn_disp)
            if pat:
                used_pats.add(pat)
            else:
                live[k] = lines
        total += sum(len(v) for v in live.values())
        for pat in fn_disp:
            if pat not in used_pats:
                # harmless when the scope simply has no site; an unknown scope name is worth a warning only
                pass
        for k, lines in live.items():
            ent = known.get(k)
            if ent is None:
                scope, kind, text = k.split("|", 2)
                near = [kk for kk in known if kk.startswith(scope + "|" + kind + "|") and kk not in live]
                problems.append({"file": rel, "line": lines[0], "site": k,
                                 "why": ("site text changed (was: %s)" % near[0].split("|", 2)[2]) if len(near) == 1
                                 else "panic site unknown to the anchor file"})
                continue
            if ent.get("count", 1) != len(lines):
                problems.append({"file": rel, "line": lines[0], "site": k,
                                 "why": "site occurs %d times, anchor knows %d" % (len(lines), ent.get("count", 1))})
            why = check_disposition(ent.get("disposition"), words)
            if why:
                problems.append({"file": rel, "line": lines[0], "site": k, "why": why})
        for k in known:
            if k not in live:
                scope, kind, _ = k.split("|", 2)
                if any(p.get("site", "").startswith(scope + "|" + kind + "|") and "text changed" in p["why"] for p in problems):
                    continue
                problems.append({"file": rel, "site": k, "why": "anchored site no longer in the source"})
    return problems, total


def init_anchor(anchor_path, repo, files, kinds):
    anchor = {"files": {}}
    if os.path.exists(anchor_path):
        anchor = json.load(open(anchor_path))
    for rel in files or list(anchor["files"]):
        spec = anchor["files"].setdefault(rel, {"fn_dispositions": {}, "sites": {}})
        if kinds:
            spec["kinds"] = kinds
        found = keyed(inventory(open(os.path.join(repo, rel)).read(), spec.get("kinds")))
        fn_disp = spec.setdefault("fn_dispositions", {})
        old = spec.get("sites", {})
        new = {}
        for k, lines in found.items():
            if scope_covered(k.split("|", 1)[0], fn_disp):
                continue
            new[k] = {"count": len(lines), "disposition": old.get(k, {}).get("disposition", "TODO")}
        for k in old:
            if k not in new:
                print("dropped: %s: %s" % (rel, k), file=sys.stderr)
        spec["sites"] = new
    os.makedirs(os.path.dirname(anchor_path), exist_ok=True)
    with open(anchor_path, "w") as f:
        json.dump(anchor, f, indent=1, sort_keys=False)
        f.write("\n")
    todo = sum(1 for s in anchor["files"].values() for e in s["sites"].values() if e["disposition"] == "TODO")
    print("wrote %s (%d sites to annotate)" % (anchor_path, todo), file=sys.stderr)


def main():
    ap = argparse.ArgumentParser(description=__doc__, formatter_class=argparse.RawDescriptionHelpFormatter)
    ap.add_argument("--repo", default="/repo")
    ap.add_argument("--lean", default=os.path.join(VERIF, "lean"))
    ap.add_argument("--anchors", nargs="*", default=[])
    ap.add_argument("--list", nargs="*", default=[])
    ap.add_argument("--init")
    ap.add_argument("--files", nargs="*", default=[])
    ap.add_argument("--kinds", nargs="*", choices=ALL_KINDS)
    ap.add_argument("--no-lean-names", action="store_true", help="do not check that the Lean names exist")
    a = ap.parse_args()

    def resolve(p):
        return p if os.path.isabs(p) else os.path.join(VERIF, p)

    if a.list:
        for rel in a.list:
            for s in inventory(open(os.path.join(a.repo, rel)).read(), a.kinds):
                print("%s:%d\t%s\t%s\t%s" % (rel, s["line"], s["kind"], s["scope"], s["text"]))
        return 0
    if a.init:
        init_anchor(resolve(a.init), a.repo, a.files, a.kinds)
        return 0
    words = None if a.no_lean_names else lean_words(a.lean)
    problems, total = [], 0
    for p in a.anchors:
        pr, n = check_anchor(resolve(p), a.repo, words)
        problems += pr
        total += n
    if not a.anchors:
        problems.append({"why": "no anchor file given"})
    print(json.dumps({"ok": not problems, "problems": problems, "sites": total}))
    return 0 if not problems else 1


if __name__ == "__main__":
    sys.exit(main())
