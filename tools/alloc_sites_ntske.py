#!/usr/bin/env python3
"""Allocation-site inventory for the NTS-KE parsers (C30; DESIGN §2.4 c) — a complement to the generic
tools/panic_sites.py (which lists unwrap/expect, panic-family macros, asserts, index expressions, narrowing
casts but not allocations).

Interface like tools/panic_sites.py:  alloc_sites_ntske.py [files...] --anchors <json> --repo <path>
(files default to those named in the anchor file); the last stdout line is JSON {"ok":bool,"problems":[...]}.

It lists the ALLOCATION sites whose size comes from the input (`Vec::with_capacity(..)`, `vec![x; n]`),
because for a parser "does not panic" includes "does not abort on a capacity overflow".  Everything from the first
`#[cfg(test)]` to the end of the file is ignored (in both files that is the unit-test module followed by the
verification hook).  A site is keyed "<fn>|<kind>|<normalised source line>"; the anchor file gives each key a
count and a disposition (model:<Lean name> | unreachable-by:<Lean lemma> | not-on-path:<reason>); the Lean
name must occur under lean/NtpVerif.  Unknown, changed, vanished or miscounted sites are problems.
`--init` rewrites the anchor file keeping known dispositions (new sites get "TODO", which fails the check).
"""
import json, os, re, sys

VERIF = os.path.dirname(os.path.dirname(os.path.abspath(__file__)))
PATTERNS = [
    ("alloc", re.compile(r"\bwith_capacity\s*\(|\bvec!\s*\[[^\]]*;")),
]


def strip_comments(line):
    i = line.find("//")
    return line if i < 0 else line[:i]


def inventory(path):
    src = open(path, encoding="utf-8").read()
    cut = src.find("#[cfg(test)]")
    if cut >= 0:
        src = src[:cut]
    sites = {}
    fn = "<top>"
    for ln, raw in enumerate(src.splitlines(), 1):
        line = strip_comments(raw)
        m = re.search(r"\bfn\s+([A-Za-z_][A-Za-z0-9_]*)", line)
        if m:
            fn = m.group(1)
        if line.lstrip().startswith("#["):
            continue
        for kind, rx in PATTERNS:
            if rx.search(line):
                if kind == "index" and re.search(r"\[\s*(u8|0)\s*;", line):
                    continue  # array type / array literal `[0; 512]`
                key = "%s|%s|%s" % (fn, kind, " ".join(line.split()))
                sites.setdefault(key, []).append(ln)
    return sites


def lean_words():
    words = set()
    for root, _, files in os.walk(os.path.join(VERIF, "lean", "NtpVerif")):
        for f in files:
            if f.endswith(".lean"):
                words.update(re.findall(r"[A-Za-z_][A-Za-z0-9_']*", open(os.path.join(root, f), encoding="utf-8").read()))
    return words


def main():
    args = sys.argv[1:]
    repo, anchors, files, init = "/repo", None, [], False
    while args:
        a = args.pop(0)
        if a == "--repo":
            repo = args.pop(0)
        elif a == "--anchors":
            anchors = args.pop(0)
        elif a == "--init":
            init = True
        else:
            files.append(a)
    if not anchors:
        print(json.dumps({"ok": False, "problems": [{"why": "no --anchors file"}]}))
        return 1
    apath = anchors if os.path.isabs(anchors) else os.path.join(VERIF, anchors)
    try:
        anchor = json.load(open(apath))
    except Exception as e:  # noqa
        if not init:
            print(json.dumps({"ok": False, "problems": [{"why": "cannot read %s: %s" % (anchors, e)}]}))
            return 1
        anchor = {"files": {}}
    files = files or list(anchor["files"])
    problems, total = [], 0
    words = lean_words()
    for rel in files:
        p = os.path.join(repo, rel)
        if not os.path.exists(p):
            problems.append({"file": rel, "why": "source file missing"})
            continue
        found = inventory(p)
        known = anchor["files"].setdefault(rel, {"sites": {}})["sites"]
        if init:
            anchor["files"][rel]["sites"] = {k: {"count": len(v), "disposition": known.get(k, {}).get("disposition", "TODO")}
                                             for k, v in found.items()}
            continue
        total += sum(len(v) for v in found.values())
        for k, lines in found.items():
            ent = known.get(k)
            if ent is None:
                problems.append({"file": rel, "line": lines[0], "site": k, "why": "panic/allocation site unknown to the anchor file"})
                continue
            if ent.get("count", 1) != len(lines):
                problems.append({"file": rel, "line": lines[0], "site": k,
                                 "why": "site occurs %d times, anchor knows %d" % (len(lines), ent.get("count", 1))})
            d = ent.get("disposition", "")
            m = re.match(r"^(model|unreachable-by|not-on-path):\s*(\S+)", d)
            if not m:
                problems.append({"file": rel, "site": k, "why": "bad disposition %r" % d})
            elif m.group(1) != "not-on-path" and m.group(2).rstrip(",;.").split(".")[-1] not in words:
                problems.append({"file": rel, "site": k, "why": "Lean name %s not found under lean/NtpVerif" % m.group(2)})
        for k in known:
            if k not in found:
                problems.append({"file": rel, "site": k, "why": "anchored site no longer in the source"})
    if init:
        with open(apath, "w") as f:
            json.dump(anchor, f, indent=1)
            f.write("\n")
        print(json.dumps({"ok": True, "problems": [], "note": "anchor file rewritten"}))
        return 0
    print(json.dumps({"ok": not problems, "problems": problems, "sites": total}))
    return 0 if not problems else 1


if __name__ == "__main__":
    sys.exit(main())
