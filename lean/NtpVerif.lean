-- Root of the `NtpVerif` library: imports every property module so `lake build` checks everything.
import NtpVerif.Props.C13
