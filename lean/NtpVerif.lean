-- Root of the `NtpVerif` library: imports every property module so `lake build` checks everything.
import NtpVerif.Props.C13
import NtpVerif.Props.C42
import NtpVerif.Props.C43
