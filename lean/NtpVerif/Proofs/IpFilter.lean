/- Helper lemmas for C31: bit-level facts about the node bitmaps, nibble arithmetic on 128-bit values,
   the correctness of one `fill_node` level of the tree model and of all levels (`memberT_iff`), and the
   flattening: buckets cut by counts = per-nibble filters (`bucketsF_eq`), the array `fill_node` builds is
   the `desc` layout of the tree (`fillF_layout`, `createF_eq_flatten`), walking a placed layout = walking
   the tree (`lookup_placed`), hence `memberF_eq_memberT`. -/
import NtpVerif.Model.IpFilter

namespace NtpVerif.IpFilter

/-! ### bitmaps -/

theorem testBit_foldl_or {β : Type} (f : β → Nat) (l : List β) (a k : Nat) :
    (l.foldl (fun acc x => acc ||| f x) a).testBit k = (a.testBit k || l.any fun x => (f x).testBit k) := by
  induction l generalizing a with
  | nil => simp
  | cons x xs ih => simp [List.foldl, ih, Nat.testBit_or, Bool.or_assoc]

theorem testBit_one_shl (i k : Nat) : (1 <<< i).testBit k = decide (i = k) := by
  rw [Nat.one_shiftLeft, Nat.testBit_two_pow]

theorem markRange_testBit (i cnt k : Nat) :
    (markRange i cnt).testBit k = decide (i ≤ k ∧ k < i + cnt) := by
  unfold markRange
  rw [testBit_foldl_or]
  rw [Bool.eq_iff_iff]
  simp only [Nat.zero_testBit, Bool.false_or, List.any_eq_true, List.mem_range, testBit_one_shl,
    decide_eq_true_eq]
  constructor
  · rintro ⟨j, hj, rfl⟩; omega
  · rintro ⟨h1, h2⟩; exact ⟨k - i, by omega, by omega⟩

theorem zipIdx_map_range {β : Type} (f : Nat → β) (n : Nat) :
    ((List.range n).map f).zipIdx = (List.range n).map fun i => (f i, i) := by
  apply List.ext_getElem?
  intro i
  simp [List.getElem?_zipIdx, List.getElem?_map]
  by_cases h : i < n <;> simp [h]

theorem insetOf_testBit (data : List Prefix) (k : Nat) :
    (insetOf (bucketsT data)).testBit k =
      (List.range 16).any fun i => (insetContrib i (bucketOf data i)).testBit k := by
  unfold insetOf bucketsT
  rw [zipIdx_map_range, List.foldl_map]
  rw [testBit_foldl_or (fun i => insetContrib i (bucketOf data i))]
  simp

theorem outsetOf_testBit (data : List Prefix) (inset k : Nat) :
    (outsetOf (bucketsT data) inset).testBit k =
      (decide (k < 16) && ((bucketOf data k).isEmpty && !inset.testBit k)) := by
  unfold outsetOf bucketsT
  rw [zipIdx_map_range, List.foldl_map]
  rw [testBit_foldl_or (fun i => if (bucketOf data i).isEmpty && !inset.testBit i then 1 <<< i else 0)]
  rw [Bool.eq_iff_iff]
  simp only [Nat.zero_testBit, Bool.false_or, List.any_eq_true, List.mem_range, Bool.and_eq_true,
    decide_eq_true_eq]
  constructor
  · rintro ⟨i, hi, hb⟩
    split at hb
    · rename_i hc
      rw [testBit_one_shl] at hb
      simp only [decide_eq_true_eq] at hb
      subst hb
      exact ⟨hi, hc⟩
    · simp at hb
  · rintro ⟨hk, hc⟩
    refine ⟨k, hk, ?_⟩
    rw [if_pos hc, testBit_one_shl]
    simp

/-- the children list of one level, bucket by bucket -/
theorem fillWith_eq (child : List Prefix → Tree) (data : List Prefix) :
    fillWith child (bucketsT data) =
      let inset := insetOf (bucketsT data)
      let outset := outsetOf (bucketsT data) inset
      .node inset outset ((List.range 16).filterMap fun i =>
        if decided inset outset i then none else some (child (shiftSeg (bucketOf data i)))) := by
  unfold fillWith
  simp only
  congr 1

theorem length_filterMap_eq {β : Type} (h : Nat → Option β) (l : List Nat) :
    (l.filterMap h).length = (l.filter fun j => (h j).isSome).length := by
  induction l with
  | nil => rfl
  | cons x xs ih =>
    cases hx : h x <;> simp [hx, ih]

/-- `child_offset + popcount(undecided lower symbols)` finds the child of symbol `k` -/
theorem filterMap_range_index {β : Type} (h : Nat → Option β) (n k : Nat) (b : β) (hk : k < n)
    (hb : h k = some b) :
    ((List.range n).filterMap h)[((List.range k).filter fun j => (h j).isSome).length]? = some b := by
  have hsplit : List.range n = List.range k ++ (k :: List.range' (k + 1) (n - k - 1)) := by
    rw [List.range_eq_range', List.range_eq_range']
    have : List.range' 0 n = List.range' 0 k ++ List.range' (0 + k) (n - k) := by
      rw [List.range'_append_1]; congr 1; omega
    rw [this, Nat.zero_add]
    congr 1
    obtain ⟨m, hm⟩ : ∃ m, n - k = m + 1 := ⟨n - k - 1, by omega⟩
    rw [hm, List.range'_succ]
    simp
  rw [hsplit, List.filterMap_append, ← length_filterMap_eq]
  rw [List.getElem?_append_right (Nat.le_refl _), Nat.sub_self, List.filterMap_cons_some hb]
  rfl


/-! ### nibble arithmetic on 128-bit values -/

/-- `v` lies in the prefix `p`: equal after dropping the `128 - len` low bits -/
def covers (p : Prefix) (v : Nat) : Prop := v / 2 ^ (128 - p.2) = p.1 / 2 ^ (128 - p.2)

instance (p : Prefix) (v : Nat) : Decidable (covers p v) := by unfold covers; infer_instance

theorem topNibble_eq (v : Nat) (_h : v < W) : topNibble v = v / 2 ^ 124 := by
  unfold topNibble W at *; omega

theorem shl4_eq (x : Nat) (_h : x < W) : shl4 x = (x % 2 ^ 124) * 16 := by
  unfold shl4 W at *; omega

theorem shl4_lt (x : Nat) : shl4 x < W := by
  unfold shl4 W; omega

theorem pow124 (s : Nat) (hs : s ≤ 124) : (2 : Nat) ^ 124 = 2 ^ s * 2 ^ (124 - s) := by
  rw [← Nat.pow_add]; congr 1; omega

theorem div_split (s i r : Nat) (hs : s ≤ 124) :
    (i * 2 ^ 124 + r) / 2 ^ s = 2 ^ (124 - s) * i + r / 2 ^ s := by
  have h : i * 2 ^ 124 = 2 ^ s * (2 ^ (124 - s) * i) := by
    rw [pow124 s hs]; ac_rfl
  rw [h, Nat.mul_add_div (Nat.pow_pos (by omega))]

/-- dropping `s ≤ 124` low bits of a value with top nibble `i` -/
theorem div_pow_eq (x s : Nat) (hs : s ≤ 124) :
    x / 2 ^ s = 2 ^ (124 - s) * (x / 2 ^ 124) + (x % 2 ^ 124) / 2 ^ s := by
  have := div_split s (x / 2 ^ 124) (x % 2 ^ 124) hs
  rw [← this]
  congr 1
  have := Nat.div_add_mod x (2 ^ 124)
  rw [Nat.mul_comm] at this
  exact this.symm

/-- a prefix longer than a nibble fixes the top nibble -/
theorem covers_top (p : Prefix) (v : Nat) (h : covers p v) (h5 : 5 ≤ p.2) (h128 : p.2 ≤ 128) :
    v / 2 ^ 124 = p.1 / 2 ^ 124 := by
  unfold covers at h
  have e : ∀ x : Nat, x / 2 ^ 124 = x / 2 ^ (128 - p.2) / 2 ^ (p.2 - 4) := by
    intro x
    rw [Nat.div_div_eq_div_mul, ← Nat.pow_add]
    congr 2; omega
  rw [e v, e p.1, h]

/-- one nibble down: the shifted prefix covers the shifted value iff the prefix covers the value -/
theorem covers_shift (p : Prefix) (v : Nat) (hp : p.1 < W) (hv : v < W) (h5 : 5 ≤ p.2) (h128 : p.2 ≤ 128)
    (htop : v / 2 ^ 124 = p.1 / 2 ^ 124) :
    covers (shl4 p.1, p.2 - 4) (shl4 v) ↔ covers p v := by
  unfold covers
  simp only
  have hs : 128 - p.2 ≤ 124 := by omega
  have e4 : 128 - (p.2 - 4) = (128 - p.2) + 4 := by omega
  rw [e4, shl4_eq _ hp, shl4_eq _ hv, Nat.pow_add]
  have h16 : (2 : Nat) ^ 4 = 16 := by decide
  rw [h16, Nat.mul_div_mul_right _ _ (by omega), Nat.mul_div_mul_right _ _ (by omega)]
  rw [div_pow_eq v _ hs, div_pow_eq p.1 _ hs, htop]
  omega

theorem masked_shift (x len : Nat) (hx : x < W) (h5 : 5 ≤ len) (h128 : len ≤ 128)
    (hm : x % 2 ^ (128 - len) = 0) : shl4 x % 2 ^ (128 - (len - 4)) = 0 := by
  have hs : 128 - len ≤ 124 := by omega
  have e4 : 128 - (len - 4) = (128 - len) + 4 := by omega
  have h16 : (2 : Nat) ^ 4 = 16 := by decide
  rw [e4, shl4_eq _ hx, Nat.pow_add, h16, Nat.mul_mod_mul_right]
  have : x % 2 ^ 124 % 2 ^ (128 - len) = x % 2 ^ (128 - len) :=
    Nat.mod_mod_of_dvd _ (Nat.pow_dvd_pow 2 hs)
  rw [this, hm]

/-- a value inside an aligned block lies in the block's prefix -/
theorem covers_of_range (p : Prefix) (v : Nat) (hm : p.1 % 2 ^ (128 - p.2) = 0)
    (lo : p.1 ≤ v) (hi : v < p.1 + 2 ^ (128 - p.2)) : covers p v := by
  unfold covers
  have hpos : 0 < 2 ^ (128 - p.2) := Nat.pow_pos (by omega)
  have hx : p.1 / 2 ^ (128 - p.2) * 2 ^ (128 - p.2) = p.1 := by
    have := Nat.div_add_mod p.1 (2 ^ (128 - p.2))
    rw [hm, Nat.add_zero, Nat.mul_comm] at this
    exact this
  apply Nat.div_eq_of_lt_le
  · rw [hx]; exact lo
  · rw [Nat.add_mul, Nat.one_mul, hx]; exact hi


/-! ### the coverage sweep -/

theorem sweep_sound_aux (offset : Nat) (seg : List Prefix) (acc : Nat) (P : Nat → Prop)
    (h : ∀ w, w < acc → P w) :
    ∀ w, w < seg.foldl (fun last p =>
        if p.1 - offset ≤ last then max last (p.1 - offset + 2 ^ (128 - p.2)) else last) acc →
      P w ∨ ∃ p ∈ seg, p.1 - offset ≤ w ∧ w < p.1 - offset + 2 ^ (128 - p.2) := by
  induction seg generalizing acc P with
  | nil => intro w hw; exact Or.inl (h w hw)
  | cons q rest ih =>
    intro w hw
    simp only [List.foldl_cons] at hw
    have := ih _ (fun w => P w ∨ (q.1 - offset ≤ w ∧ w < q.1 - offset + 2 ^ (128 - q.2))) (by
      intro w hw
      split at hw
      · by_cases hlt : w < acc
        · exact Or.inl (h w hlt)
        · right; omega
      · exact Or.inl (h w hw)) w hw
    rcases this with (h1 | h1) | ⟨p, hp, h2⟩
    · exact Or.inl h1
    · exact Or.inr ⟨q, by simp, h1⟩
    · exact Or.inr ⟨p, by simp [hp], h2⟩

/-- every offset below the sweep's `last` lies in one of the parts -/
theorem sweep_sound (offset : Nat) (seg : List Prefix) (w : Nat) (hw : w < sweep offset seg) :
    ∃ p ∈ seg, p.1 - offset ≤ w ∧ w < p.1 - offset + 2 ^ (128 - p.2) := by
  have := sweep_sound_aux offset seg 0 (fun _ => False) (by intro w hw; omega) w hw
  rcases this with h | h
  · exact h.elim
  · exact h

/-! ### prefixes not longer than a nibble -/

/-- a masked value with a prefix of at most 4 bits is its top nibble, aligned -/
theorem short_shape (x len : Nat) (hx : x < W) (h4 : len ≤ 4) (hm : x % 2 ^ (128 - len) = 0) :
    x = (x / 2 ^ 124) * 2 ^ 124 ∧ (x / 2 ^ 124) % 2 ^ (4 - len) = 0 ∧ x / 2 ^ 124 < 16 := by
  unfold W at hx
  have : len = 0 ∨ len = 1 ∨ len = 2 ∨ len = 3 ∨ len = 4 := by omega
  rcases this with rfl | rfl | rfl | rfl | rfl <;>
    simp only [Nat.reduceSub, Nat.reducePow] at hm ⊢ <;> omega

/-- for a short prefix, coverage is decided by the top nibbles -/
theorem short_covers (x len v : Nat) (hx : x < W) (hv : v < W) (h4 : len ≤ 4)
    (hm : x % 2 ^ (128 - len) = 0) :
    covers (x, len) v ↔ (x / 2 ^ 124 ≤ v / 2 ^ 124 ∧ v / 2 ^ 124 < x / 2 ^ 124 + 2 ^ (4 - len)) := by
  unfold covers W at *
  simp only
  have : len = 0 ∨ len = 1 ∨ len = 2 ∨ len = 3 ∨ len = 4 := by omega
  rcases this with rfl | rfl | rfl | rfl | rfl <;>
    simp only [Nat.reduceSub, Nat.reducePow] at hm ⊢ <;> omega


/-! ### one level of the trie -/

def Masked (p : Prefix) : Prop := p.1 < W ∧ p.2 ≤ 128 ∧ p.1 % 2 ^ (128 - p.2) = 0

def Sorted (data : List Prefix) : Prop := data.Pairwise fun a b => ple a b = true

def memSpec (data : List Prefix) (v : Nat) : Prop := ∃ p ∈ data, covers p v

theorem mem_bucket (data : List Prefix) (k : Nat) (p : Prefix) :
    p ∈ bucketOf data k ↔ p ∈ data ∧ topNibble p.1 = k := by
  simp [bucketOf, List.mem_filter]

theorem ple_refl (a : Prefix) : ple a a = true := by simp [ple]

theorem bucket_head_le (data : List Prefix) (k : Nat) (first p : Prefix) (rest : List Prefix)
    (hs : Sorted data) (he : bucketOf data k = first :: rest) (hp : p ∈ bucketOf data k) :
    ple first p = true := by
  have h : (bucketOf data k).Pairwise fun a b => ple a b = true := List.Pairwise.filter _ hs
  rw [he] at h hp
  simp only [List.mem_cons] at hp
  rcases hp with rfl | hp
  · exact ple_refl _
  · exact (List.pairwise_cons.mp h).1 p hp

theorem short_in_inset (data : List Prefix) (v : Nat) (p : Prefix) (hv : v < W) (hs : Sorted data)
    (hm : ∀ p ∈ data, Masked p) (hp : p ∈ data) (h4 : p.2 ≤ 4) (hc : covers p v) :
    (insetOf (bucketsT data)).testBit (v / 2 ^ 124) = true := by
  obtain ⟨hpW, _, hpm⟩ := hm p hp
  obtain ⟨hshape, _, hk16⟩ := short_shape p.1 p.2 hpW h4 hpm
  have hpb : p ∈ bucketOf data (p.1 / 2 ^ 124) := (mem_bucket _ _ _).mpr ⟨hp, topNibble_eq _ hpW⟩
  rcases hb : bucketOf data (p.1 / 2 ^ 124) with _ | ⟨first, rest⟩
  · rw [hb] at hpb; cases hpb
  · have hle := bucket_head_le data _ first p rest hs hb hpb
    have hfb : first ∈ bucketOf data (p.1 / 2 ^ 124) := by rw [hb]; simp
    obtain ⟨hfd, hft⟩ := (mem_bucket _ _ _).mp hfb
    obtain ⟨hfW, _, _⟩ := hm first hfd
    rw [topNibble_eq _ hfW] at hft
    have hcov := (short_covers p.1 p.2 v hpW hv h4 hpm).mp hc
    simp only [ple, Bool.or_eq_true, Bool.and_eq_true, decide_eq_true_eq, beq_iff_eq] at hle
    have hf1 : first.1 = p.1 := by
      have : first.1 / 2 ^ 124 * 2 ^ 124 ≤ first.1 := Nat.div_mul_le_self _ _
      rw [hft] at this
      omega
    have hf2 : first.2 ≤ p.2 := by omega
    have hpow : 2 ^ (4 - p.2) ≤ 2 ^ (4 - first.2) := Nat.pow_le_pow_right (by omega) (by omega)
    rw [insetOf_testBit, List.any_eq_true]
    refine ⟨p.1 / 2 ^ 124, List.mem_range.mpr hk16, ?_⟩
    rw [hb]
    obtain ⟨fv, fl⟩ := first
    simp only [insetContrib]
    simp only at hf1 hf2 hpow hft
    rw [if_pos (by omega), markRange_testBit]
    simp only [decide_eq_true_eq]
    omega

theorem inset_sound (data : List Prefix) (v : Nat) (hv : v < W)
    (hm : ∀ p ∈ data, Masked p)
    (h : (insetOf (bucketsT data)).testBit (v / 2 ^ 124) = true) : memSpec data v := by
  rw [insetOf_testBit, List.any_eq_true] at h
  obtain ⟨k, hk, hbit⟩ := h
  rcases hb : bucketOf data k with _ | ⟨first, rest⟩
  · rw [hb] at hbit; simp [insetContrib] at hbit
  · rw [hb] at hbit
    have hfb : first ∈ bucketOf data k := by rw [hb]; simp
    obtain ⟨hfd, hft⟩ := (mem_bucket _ _ _).mp hfb
    obtain ⟨hfW, hf128, hfm⟩ := hm first hfd
    rw [topNibble_eq _ hfW] at hft
    obtain ⟨fv, fl⟩ := first
    simp only [insetContrib] at hbit
    simp only at hft hfW hfm
    split at hbit
    · rename_i h4
      rw [markRange_testBit] at hbit
      simp only [decide_eq_true_eq] at hbit
      refine ⟨(fv, fl), hfd, (short_covers fv fl v hfW hv h4 hfm).mpr ?_⟩
      omega
    · split at hbit
      · rename_i hsw
        rw [testBit_one_shl] at hbit
        simp only [decide_eq_true_eq] at hbit
        subst hbit
        have hw : v % 2 ^ 124 < sweep (v / 2 ^ 124 * 2 ^ 124) ((fv, fl) :: rest) := by
          have : v % 2 ^ 124 < 2 ^ 124 := Nat.mod_lt _ (Nat.pow_pos (by omega))
          omega
        obtain ⟨p, hp, hlo, hhi⟩ := sweep_sound _ _ _ hw
        rw [← hb] at hp
        obtain ⟨hpd, hpt⟩ := (mem_bucket _ _ _).mp hp
        obtain ⟨hpW, _, hpm⟩ := hm p hpd
        rw [topNibble_eq _ hpW] at hpt
        have h1 : p.1 / 2 ^ 124 * 2 ^ 124 ≤ p.1 := Nat.div_mul_le_self _ _
        have h2 := Nat.div_add_mod v (2 ^ 124)
        rw [Nat.mul_comm] at h2
        rw [hpt] at h1
        exact ⟨p, hpd, covers_of_range p v hpm (by omega) (by omega)⟩
      · simp at hbit

theorem long_in_bucket (data : List Prefix) (v : Nat) (p : Prefix)
    (hm : ∀ p ∈ data, Masked p) (hp : p ∈ data) (h5 : 5 ≤ p.2) (hc : covers p v) :
    p ∈ bucketOf data (v / 2 ^ 124) := by
  obtain ⟨hpW, h128, _⟩ := hm p hp
  rw [mem_bucket, topNibble_eq _ hpW, covers_top p v hc h5 h128]
  exact ⟨hp, rfl⟩

theorem outset_sound (data : List Prefix) (v : Nat) (hv : v < W) (hs : Sorted data)
    (hm : ∀ p ∈ data, Masked p)
    (hi : (insetOf (bucketsT data)).testBit (v / 2 ^ 124) = false)
    (ho : (outsetOf (bucketsT data) (insetOf (bucketsT data))).testBit (v / 2 ^ 124) = true) :
    ¬ memSpec data v := by
  rw [outsetOf_testBit] at ho
  simp only [Bool.and_eq_true, decide_eq_true_eq, List.isEmpty_iff] at ho
  rintro ⟨p, hp, hc⟩
  by_cases h4 : p.2 ≤ 4
  · rw [short_in_inset data v p hv hs hm hp h4 hc] at hi; cases hi
  · have := long_in_bucket data v p hm hp (by omega) hc
    rw [ho.2.1] at this; cases this

theorem undecided_level (data : List Prefix) (v : Nat) (hv : v < W) (hs : Sorted data)
    (hm : ∀ p ∈ data, Masked p)
    (hi : (insetOf (bucketsT data)).testBit (v / 2 ^ 124) = false)
    (ho : (outsetOf (bucketsT data) (insetOf (bucketsT data))).testBit (v / 2 ^ 124) = false) :
    bucketOf data (v / 2 ^ 124) ≠ [] ∧ (∀ p ∈ bucketOf data (v / 2 ^ 124), 5 ≤ p.2) ∧
    (memSpec data v ↔ memSpec (shiftSeg (bucketOf data (v / 2 ^ 124))) (shl4 v)) := by
  have hi16 : v / 2 ^ 124 < 16 := by unfold W at hv; omega
  have hall : ∀ p ∈ bucketOf data (v / 2 ^ 124), 5 ≤ p.2 := by
    intro p hp
    obtain ⟨hpd, hpt⟩ := (mem_bucket _ _ _).mp hp
    obtain ⟨hpW, _, hpm⟩ := hm p hpd
    rw [topNibble_eq _ hpW] at hpt
    by_cases h4 : p.2 ≤ 4
    · have hc : covers p v := by
        have := (short_covers p.1 p.2 v hpW hv h4 hpm).mpr
          ⟨by omega, by have : 0 < 2 ^ (4 - p.2) := Nat.pow_pos (by omega); omega⟩
        exact this
      rw [short_in_inset data v p hv hs hm hpd h4 hc] at hi; cases hi
    · omega
  refine ⟨?_, hall, ?_⟩
  · intro he
    rw [outsetOf_testBit, he, hi] at ho
    simp [hi16] at ho
  · constructor
    · rintro ⟨p, hp, hc⟩
      by_cases h4 : p.2 ≤ 4
      · rw [short_in_inset data v p hv hs hm hp h4 hc] at hi; cases hi
      · have hb := long_in_bucket data v p hm hp (by omega) hc
        obtain ⟨hpW, h128, _⟩ := hm p hp
        refine ⟨(shl4 p.1, p.2 - 4), List.mem_map.mpr ⟨p, hb, rfl⟩, ?_⟩
        exact (covers_shift p v hpW hv (by omega) h128 (covers_top p v hc (by omega) h128)).mpr hc
    · rintro ⟨q, hq, hc⟩
      obtain ⟨p, hp, rfl⟩ := List.mem_map.mp hq
      obtain ⟨hpd, hpt⟩ := (mem_bucket _ _ _).mp hp
      obtain ⟨hpW, h128, _⟩ := hm p hpd
      rw [topNibble_eq _ hpW] at hpt
      exact ⟨p, hpd, (covers_shift p v hpW hv (hall p hp) h128 hpt.symm).mp hc⟩

theorem child_good (data : List Prefix) (k f : Nat) (hs : Sorted data)
    (hm : ∀ p ∈ data, Masked p ∧ p.2 ≤ 4 * (f + 2))
    (h5 : ∀ p ∈ bucketOf data k, 5 ≤ p.2) :
    Sorted (shiftSeg (bucketOf data k)) ∧
    ∀ q ∈ shiftSeg (bucketOf data k), Masked q ∧ q.2 ≤ 4 * (f + 1) := by
  constructor
  · unfold Sorted shiftSeg
    rw [List.pairwise_map]
    have h : (bucketOf data k).Pairwise fun a b => ple a b = true := List.Pairwise.filter _ hs
    refine List.Pairwise.imp_of_mem ?_ h
    intro a b ha hb hab
    obtain ⟨had, hat⟩ := (mem_bucket _ _ _).mp ha
    obtain ⟨hbd, hbt⟩ := (mem_bucket _ _ _).mp hb
    obtain ⟨⟨haW, _, _⟩, _⟩ := hm a had
    obtain ⟨⟨hbW, _, _⟩, _⟩ := hm b hbd
    rw [topNibble_eq _ haW] at hat
    rw [topNibble_eq _ hbW] at hbt
    simp only [ple, Bool.or_eq_true, Bool.and_eq_true, decide_eq_true_eq, beq_iff_eq] at hab ⊢
    rw [shl4_eq _ haW, shl4_eq _ hbW]
    have h1 := Nat.div_add_mod a.1 (2 ^ 124)
    have h2 := Nat.div_add_mod b.1 (2 ^ 124)
    rw [hat] at h1; rw [hbt] at h2
    omega
  · intro q hq
    obtain ⟨p, hp, rfl⟩ := List.mem_map.mp hq
    obtain ⟨hpd, _⟩ := (mem_bucket _ _ _).mp hp
    obtain ⟨⟨hpW, h128, hpm⟩, hlen⟩ := hm p hpd
    have := h5 p hp
    exact ⟨⟨shl4_lt _, by simp only; omega, masked_shift p.1 p.2 hpW this h128 hpm⟩, by simp only; omega⟩


/-! ### all levels -/

theorem level_lookup (child : List Prefix → Tree) (data : List Prefix) (v n : Nat) (hv : v < W) :
    lookupT (n + 1) (fillWith child (bucketsT data)) v =
      if (insetOf (bucketsT data)).testBit (v / 2 ^ 124) then some true
      else if (outsetOf (bucketsT data) (insetOf (bucketsT data))).testBit (v / 2 ^ 124) then some false
      else lookupT n (child (shiftSeg (bucketOf data (v / 2 ^ 124)))) (shl4 v) := by
  have hi16 : v / 2 ^ 124 < 16 := by unfold W at hv; omega
  rw [fillWith_eq]
  simp only [lookupT]
  rw [topNibble_eq v hv]
  split
  · rfl
  · rename_i hi
    split
    · rfl
    · rename_i ho
      have hd : decided (insetOf (bucketsT data))
          (outsetOf (bucketsT data) (insetOf (bucketsT data))) (v / 2 ^ 124) = false := by
        simp only [decided, Bool.or_eq_false_iff]
        exact ⟨by simpa using hi, by simpa using ho⟩
      have hidx := filterMap_range_index
        (fun j => if decided (insetOf (bucketsT data))
            (outsetOf (bucketsT data) (insetOf (bucketsT data))) j then none
          else some (child (shiftSeg (bucketOf data j)))) 16 (v / 2 ^ 124)
        (child (shiftSeg (bucketOf data (v / 2 ^ 124)))) hi16 (by simp [hd])
      have hu : undecidedBelow (insetOf (bucketsT data))
          (outsetOf (bucketsT data) (insetOf (bucketsT data))) (v / 2 ^ 124) =
          ((List.range (v / 2 ^ 124)).filter fun j =>
            (if decided (insetOf (bucketsT data))
                (outsetOf (bucketsT data) (insetOf (bucketsT data))) j then none
              else some (child (shiftSeg (bucketOf data j)))).isSome).length := by
        unfold undecidedBelow
        congr 2
        funext j
        cases decided (insetOf (bucketsT data))
          (outsetOf (bucketsT data) (insetOf (bucketsT data))) j <;> rfl
      rw [hu, hidx]

theorem fillT_unfold (f : Nat) (data : List Prefix) :
    fillT f data = fillWith (match f with | 0 => fun _ => .node 0 0 [] | g + 1 => fillT g) (bucketsT data) := by
  cases f <;> rfl

/-- the tree model decides membership in the prefix set, for every masked, sorted prefix list whose
    lengths fit the recursion budget, and every value -/
theorem fillT_correct (f : Nat) (data : List Prefix) (v : Nat) (hv : v < W) (hs : Sorted data)
    (hm : ∀ p ∈ data, Masked p ∧ p.2 ≤ 4 * (f + 1)) :
    ∃ b, lookupT (f + 1) (fillT f data) v = some b ∧ (b = true ↔ memSpec data v) := by
  induction f generalizing data v with
  | zero =>
    have hm' : ∀ p ∈ data, Masked p := fun p hp => (hm p hp).1
    rw [fillT_unfold, level_lookup _ _ _ _ hv]
    split
    · rename_i hi
      exact ⟨true, rfl, by simp [inset_sound data v hv hm' hi]⟩
    · rename_i hi
      split
      · rename_i ho
        exact ⟨false, rfl, by simp [outset_sound data v hv hs hm' (by simpa using hi) ho]⟩
      · rename_i ho
        obtain ⟨hne, h5, _⟩ := undecided_level data v hv hs hm' (by simpa using hi) (by simpa using ho)
        rcases hb : bucketOf data (v / 2 ^ 124) with _ | ⟨p, rest⟩
        · exact absurd hb hne
        · have hp : p ∈ bucketOf data (v / 2 ^ 124) := by rw [hb]; simp
          have := h5 p hp
          have := (hm p ((mem_bucket _ _ _).mp hp).1).2
          omega
  | succ g ih =>
    have hm' : ∀ p ∈ data, Masked p := fun p hp => (hm p hp).1
    rw [fillT_unfold, level_lookup _ _ _ _ hv]
    split
    · rename_i hi
      exact ⟨true, rfl, by simp [inset_sound data v hv hm' hi]⟩
    · rename_i hi
      split
      · rename_i ho
        exact ⟨false, rfl, by simp [outset_sound data v hv hs hm' (by simpa using hi) ho]⟩
      · rename_i ho
        obtain ⟨_, h5, hiff⟩ := undecided_level data v hv hs hm' (by simpa using hi) (by simpa using ho)
        obtain ⟨cs, cm⟩ := child_good data (v / 2 ^ 124) g hs hm h5
        obtain ⟨b, hb, hbm⟩ := ih (shiftSeg (bucketOf data (v / 2 ^ 124))) (shl4 v) (shl4_lt v) cs cm
        exact ⟨b, hb, hbm.trans hiff.symm⟩

/-! ### `create`: masking and sorting -/

theorem ple_trans (a b c : Prefix) (h1 : ple a b = true) (h2 : ple b c = true) : ple a c = true := by
  simp only [ple, Bool.or_eq_true, Bool.and_eq_true, decide_eq_true_eq, beq_iff_eq] at *
  omega

theorem ple_total (a b : Prefix) : (ple a b || ple b a) = true := by
  simp only [ple, Bool.or_eq_true, Bool.and_eq_true, decide_eq_true_eq, beq_iff_eq]
  omega

theorem applyMask_spec (x len : Nat) (hx : x < W) (hl : len ≤ 128) :
    applyMask x len < W ∧ applyMask x len % 2 ^ (128 - len) = 0 ∧
    applyMask x len / 2 ^ (128 - len) = x / 2 ^ (128 - len) := by
  unfold applyMask
  have hpos : 0 < 2 ^ (128 - len) := Nat.pow_pos (by omega)
  split
  · rename_i h0
    have : len = 0 := by omega
    subst this
    refine ⟨Nat.pow_pos (by omega), Nat.zero_mod _, ?_⟩
    rw [Nat.zero_div]
    exact (Nat.div_eq_of_lt hx).symm
  · refine ⟨?_, Nat.mul_mod_left _ _, Nat.mul_div_cancel _ hpos⟩
    exact Nat.lt_of_le_of_lt (Nat.div_mul_le_self _ _) hx

/-- **the tree-level theorem**: `lookup (create ps) v` is true exactly when some prefix of `ps` matches -/
theorem memberT_iff (ps : List Prefix) (v : Nat) (hv : v < W)
    (hps : ∀ p ∈ ps, p.1 < W ∧ p.2 ≤ 128) :
    ∃ b, memberT ps v = some b ∧ (b = true ↔ ∃ p ∈ ps, covers p v) := by
  unfold memberT createT maskAll
  have hall : (ps.all fun p => decide (p.2 ≤ 128)) = true := by
    simp only [List.all_eq_true, decide_eq_true_eq]
    exact fun p hp => (hps p hp).2
  rw [if_pos hall]
  simp only [Option.map_some, Option.bind_some]
  have hperm := List.mergeSort_perm (ps.map fun p => (applyMask p.1 p.2, p.2)) ple
  have hsorted : Sorted ((ps.map fun p => (applyMask p.1 p.2, p.2)).mergeSort ple) :=
    List.pairwise_mergeSort (fun a b c => ple_trans a b c) (fun a b => ple_total a b) _
  have hmem : ∀ q, q ∈ (ps.map fun p => (applyMask p.1 p.2, p.2)).mergeSort ple ↔
      ∃ p ∈ ps, q = (applyMask p.1 p.2, p.2) := by
    intro q
    rw [hperm.mem_iff, List.mem_map]
    constructor
    · rintro ⟨p, hp, rfl⟩; exact ⟨p, hp, rfl⟩
    · rintro ⟨p, hp, rfl⟩; exact ⟨p, hp, rfl⟩
  obtain ⟨b, hb, hbm⟩ := fillT_correct FUEL _ v hv hsorted (by
    intro q hq
    obtain ⟨p, hp, rfl⟩ := (hmem q).mp hq
    obtain ⟨hpW, hl⟩ := hps p hp
    obtain ⟨h1, h2, _⟩ := applyMask_spec p.1 p.2 hpW hl
    exact ⟨⟨h1, hl, h2⟩, by simp only [FUEL]; omega⟩)
  refine ⟨b, hb, hbm.trans ?_⟩
  unfold memSpec
  constructor
  · rintro ⟨q, hq, hc⟩
    obtain ⟨p, hp, rfl⟩ := (hmem q).mp hq
    obtain ⟨hpW, hl⟩ := hps p hp
    refine ⟨p, hp, ?_⟩
    unfold covers at hc ⊢
    rw [hc]
    exact (applyMask_spec p.1 p.2 hpW hl).2.2
  · rintro ⟨p, hp, hc⟩
    obtain ⟨hpW, hl⟩ := hps p hp
    refine ⟨_, (hmem _).mpr ⟨p, hp, rfl⟩, ?_⟩
    unfold covers at hc ⊢
    rw [hc]
    exact (applyMask_spec p.1 p.2 hpW hl).2.2.symm


/-! ### buckets cut by counts = per-nibble filters (sorted slice) -/

def key (p : Prefix) : Nat := topNibble p.1

theorem take_count_sorted (i : Nat) (l : List Prefix) (hs : l.Pairwise fun a b => key a ≤ key b)
    (hge : ∀ p ∈ l, i ≤ key p) :
    l.take (l.countP fun p => key p == i) = l.filter (fun p => key p == i) ∧
    l.drop (l.countP fun p => key p == i) = l.filter (fun p => !(key p == i)) := by
  induction l with
  | nil => simp
  | cons p tl ih =>
    have hs' := (List.pairwise_cons.mp hs)
    by_cases hp : key p = i
    · have := ih hs'.2 (fun q hq => hge q (by simp [hq]))
      simp [hp, this.1, this.2]
    · have hgt : i < key p := by have := hge p (by simp); omega
      have hall : ∀ q ∈ p :: tl, ¬ key q = i := by
        intro q hq
        simp only [List.mem_cons] at hq
        rcases hq with rfl | hq
        · exact hp
        · have := hs'.1 q hq; omega
      have hc : (p :: tl).countP (fun p => key p == i) = 0 := by
        rw [List.countP_eq_zero]
        intro q hq; simpa using hall q hq
      have hf : (p :: tl).filter (fun p => key p == i) = [] := by
        rw [List.filter_eq_nil_iff]
        intro q hq; simpa using hall q hq
      have hf2 : (p :: tl).filter (fun p => !(key p == i)) = p :: tl := by
        rw [List.filter_eq_self]
        intro q hq; simpa using hall q hq
      rw [hc, hf, hf2]; simp

theorem splitCounts_sorted (n i : Nat) (l : List Prefix) (hs : l.Pairwise fun a b => key a ≤ key b)
    (hge : ∀ p ∈ l, i ≤ key p) :
    splitCounts ((List.range' i n).map fun k => l.countP fun p => key p == k) l =
      (List.range' i n).map fun k => l.filter fun p => key p == k := by
  induction n generalizing i l with
  | zero => simp [splitCounts]
  | succ n ih =>
    rw [List.range'_succ]
    simp only [List.map_cons, splitCounts]
    obtain ⟨h1, h2⟩ := take_count_sorted i l hs hge
    rw [h1, h2]
    congr 1
    have hge' : ∀ p ∈ l.filter (fun p => !(key p == i)), i + 1 ≤ key p := by
      intro p hp
      simp only [List.mem_filter, Bool.not_eq_true', beq_eq_false_iff_ne, ne_eq] at hp
      have := hge p hp.1; omega
    have := ih (i + 1) (l.filter fun p => !(key p == i)) (List.Pairwise.filter _ hs) hge'
    have hcnt : (List.range' (i + 1) n).map (fun k => l.countP fun p => key p == k) =
        (List.range' (i + 1) n).map
          (fun k => (l.filter fun p => !(key p == i)).countP fun p => key p == k) := by
      apply List.map_congr_left
      intro k hk
      have hk' : i + 1 ≤ k := (List.mem_range'_1.mp hk).1
      rw [List.countP_filter]
      congr 1
      funext p
      by_cases hpk : key p = k
      · have : ¬ key p = i := by omega
        simp [hpk]; omega
      · simp [hpk]
    have hfil : (List.range' (i + 1) n).map (fun k => l.filter fun p => key p == k) =
        (List.range' (i + 1) n).map
          (fun k => (l.filter fun p => !(key p == i)).filter fun p => key p == k) := by
      apply List.map_congr_left
      intro k hk
      have hk' : i + 1 ≤ k := (List.mem_range'_1.mp hk).1
      rw [List.filter_filter]
      congr 1
      funext p
      by_cases hpk : key p = k
      · have : ¬ key p = i := by omega
        simp [hpk]; omega
      · simp [hpk]
    rw [hcnt, hfil]
    exact this

theorem key_mono (a b : Prefix) (hb : b.1 < W) (h : ple a b = true) : key a ≤ key b := by
  simp only [ple, Bool.or_eq_true, Bool.and_eq_true, decide_eq_true_eq, beq_iff_eq] at h
  have ha : a.1 < W := by omega
  unfold key
  rw [topNibble_eq _ ha, topNibble_eq _ hb]
  exact Nat.div_le_div_right (by omega)

/-- the 16 counts cut exactly the per-nibble filters out of a sorted slice -/
theorem bucketsF_eq (data : List Prefix) (hs : Sorted data) (hw : ∀ p ∈ data, p.1 < W) :
    bucketsF data = bucketsT data := by
  unfold bucketsF bucketsT
  have hs' : data.Pairwise fun a b => key a ≤ key b := by
    refine List.Pairwise.imp_of_mem ?_ hs
    intro a b _ hb h
    exact key_mono a b (hw b hb) h
  have := splitCounts_sorted 16 0 data hs' (fun _ _ => Nat.zero_le _)
  rw [List.range_eq_range']
  exact this


/-! ### layout of the array -/

def rootNode : Tree → Nat → Node
  | .node i o _, off => ⟨off, i, o⟩

theorem descKids_cons (t : Tree) (rest : List Tree) (off : Nat) :
    descKids (t :: rest) off =
      (rootNode t off :: (descKids rest (off + (desc t off).length)).1,
       desc t off ++ (descKids rest (off + (desc t off).length)).2) := by
  cases t with
  | node i o ks => simp [descKids, rootNode]

theorem desc_node (i o : Nat) (kids : List Tree) (off : Nat) :
    desc (.node i o kids) off =
      (descKids kids (off + kids.length)).1 ++ (descKids kids (off + kids.length)).2 := by
  simp [desc]

theorem descKids_heads_length (kids : List Tree) (off : Nat) :
    (descKids kids off).1.length = kids.length := by
  induction kids generalizing off with
  | nil => simp [descKids]
  | cons t rest ih => rw [descKids_cons]; simp [ih]

/-- skipping the decided buckets in the loop = looping over the undecided ones -/
theorem foldl_skip {α β σ : Type} (g : α → Option β) (h : σ → β → σ) (init : σ) (l : List α) :
    l.foldl (fun st x => match g x with | none => st | some d => h st d) init =
      (l.filterMap g).foldl h init := by
  induction l generalizing init with
  | nil => rfl
  | cons x xs ih =>
    simp only [List.foldl_cons, List.filterMap_cons]
    cases hx : g x with
    | none => simp only [ih]
    | some d => simp only [List.foldl_cons, ih]

/-- what one recursive `fill_node` does, as a property of its data -/
def FillsAs (f : Nat) (d : List Prefix) : Prop :=
  ∀ (n : List Node) (i : Nat), i < n.length →
    fillF f n d i = n.set i (rootNode (fillT f d) n.length) ++ desc (fillT f d) n.length

/-- the loop over the undecided buckets fills the reserved child nodes in order and appends each
    child's descendants -/
theorem fill_loop (f : Nat) (ds : List (List Prefix)) (hds : ∀ d ∈ ds, FillsAs f d)
    (pre post : List Node) :
    (ds.foldl (fun (st : List Node × Nat) d => (fillF f st.1 d st.2, st.2 + 1))
        (pre ++ List.replicate ds.length Node.default ++ post, pre.length)).1 =
      pre ++ (descKids (ds.map (fillT f)) (pre.length + ds.length + post.length)).1 ++ post ++
        (descKids (ds.map (fillT f)) (pre.length + ds.length + post.length)).2 := by
  induction ds generalizing pre post with
  | nil => simp [descKids]
  | cons d rest ih =>
    simp only [List.foldl_cons, List.map_cons, List.length_cons]
    have hlen : (pre ++ List.replicate (rest.length + 1) Node.default ++ post).length =
        pre.length + (rest.length + 1) + post.length := by simp; omega
    rw [hds d (by simp) _ pre.length (by rw [hlen]; omega), hlen]
    have hset : (pre ++ List.replicate (rest.length + 1) Node.default ++ post).set pre.length
          (rootNode (fillT f d) (pre.length + (rest.length + 1) + post.length)) =
        (pre ++ [rootNode (fillT f d) (pre.length + (rest.length + 1) + post.length)]) ++
          List.replicate rest.length Node.default ++ post := by
      rw [List.replicate_succ, List.append_assoc, List.set_append_right _ _ (Nat.le_refl _)]
      simp
    rw [hset, List.append_assoc _ post]
    have := ih (fun d' hd' => hds d' (by simp [hd']))
      (pre ++ [rootNode (fillT f d) (pre.length + (rest.length + 1) + post.length)])
      (post ++ desc (fillT f d) (pre.length + (rest.length + 1) + post.length))
    have hl : (pre ++ [rootNode (fillT f d) (pre.length + (rest.length + 1) + post.length)]).length
        = pre.length + 1 := by simp
    rw [hl] at this
    rw [this, descKids_cons]
    have hoff : pre.length + 1 + rest.length +
        (post ++ desc (fillT f d) (pre.length + (rest.length + 1) + post.length)).length =
        pre.length + (rest.length + 1) + post.length +
          (desc (fillT f d) (pre.length + (rest.length + 1) + post.length)).length := by
      simp; omega
    rw [hoff]
    simp


def Good (f : Nat) (data : List Prefix) : Prop :=
  Sorted data ∧ ∀ p ∈ data, Masked p ∧ p.2 ≤ 4 * (f + 1)

/-- the data of the undecided buckets, in order -/
def kidData (data : List Prefix) : List (List Prefix) :=
  let inset := insetOf (bucketsT data)
  let outset := outsetOf (bucketsT data) inset
  (List.range 16).filterMap fun i =>
    if decided inset outset i then none else some (shiftSeg (bucketOf data i))

theorem fillWith_kids (child : List Prefix → Tree) (data : List Prefix) :
    fillWith child (bucketsT data) =
      .node (insetOf (bucketsT data)) (outsetOf (bucketsT data) (insetOf (bucketsT data)))
        ((kidData data).map child) := by
  rw [fillWith_eq]
  simp only [kidData, List.map_filterMap]
  congr 2
  funext i
  split <;> rfl

theorem kidData_length (data : List Prefix) :
    (kidData data).length =
      ((List.range 16).filter fun i => !decided (insetOf (bucketsT data))
        (outsetOf (bucketsT data) (insetOf (bucketsT data))) i).length := by
  unfold kidData
  rw [length_filterMap_eq]
  congr 2
  funext i
  split <;> simp_all

/-- an undecided bucket's shifted data is again sorted and masked, one level down;
    at the last level nothing is undecided -/
theorem kidData_good (f : Nat) (data : List Prefix) (hg : Good f data) :
    ∀ d ∈ kidData data, 1 ≤ f ∧ Good (f - 1) d := by
  intro d hd
  obtain ⟨hs, hm⟩ := hg
  have hm' : ∀ p ∈ data, Masked p := fun p hp => (hm p hp).1
  simp only [kidData, List.mem_filterMap, List.mem_range] at hd
  obtain ⟨i, hi, hd⟩ := hd
  split at hd
  · cases hd
  · rename_i hdec
    cases hd
    simp only [decided, Bool.or_eq_true, not_or, Bool.not_eq_true] at hdec
    have hv : i * 2 ^ 124 < W := by unfold W; omega
    have hdiv : i * 2 ^ 124 / 2 ^ 124 = i := Nat.mul_div_cancel _ (Nat.pow_pos (by omega))
    have hu := undecided_level data (i * 2 ^ 124) hv hs hm'
      (by rw [hdiv]; exact hdec.1) (by rw [hdiv]; exact hdec.2)
    rw [hdiv] at hu
    obtain ⟨hne, h5, _⟩ := hu
    have hf : 1 ≤ f := by
      rcases hb : bucketOf data i with _ | ⟨p, rest⟩
      · exact absurd hb hne
      · have hp : p ∈ bucketOf data i := by rw [hb]; simp
        have := h5 p hp
        have := (hm p ((mem_bucket _ _ _).mp hp).1).2
        omega
    refine ⟨hf, ?_⟩
    obtain ⟨g, rfl⟩ : ∃ g, f = g + 1 := ⟨f - 1, by omega⟩
    exact child_good data i g hs hm h5

theorem fillF_zero (nodes : List Node) (data : List Prefix) (idx : Nat) :
    fillF 0 nodes data idx =
      nodes.set idx ⟨nodes.length, insetOf (bucketsF data),
          outsetOf (bucketsF data) (insetOf (bucketsF data))⟩ ++
        List.replicate ((List.range 16).filter fun i => !decided (insetOf (bucketsF data))
          (outsetOf (bucketsF data) (insetOf (bucketsF data))) i).length Node.default := by
  rfl

theorem fillF_succ (f : Nat) (nodes : List Node) (data : List Prefix) (idx : Nat) :
    fillF (f + 1) nodes data idx =
      ((bucketsF data).zipIdx.foldl (fun (st : List Node × Nat) si =>
        if decided (insetOf (bucketsF data))
            (outsetOf (bucketsF data) (insetOf (bucketsF data))) si.2 then st
        else (fillF f st.1 (shiftSeg si.1) st.2, st.2 + 1))
        (nodes.set idx ⟨nodes.length, insetOf (bucketsF data),
            outsetOf (bucketsF data) (insetOf (bucketsF data))⟩ ++
          List.replicate ((List.range 16).filter fun i => !decided (insetOf (bucketsF data))
            (outsetOf (bucketsF data) (insetOf (bucketsF data))) i).length Node.default,
         nodes.length)).1 := by
  rfl

/-- **layout**: on sorted, masked data within the depth budget, `fill_node` writes the root of the tree
    at `node_index` and appends exactly the `desc` layout of the tree -/
theorem fillF_layout (f : Nat) (data : List Prefix) (hg : Good f data) : FillsAs f data := by
  induction f generalizing data with
  | zero =>
    intro n i hi
    have hb := bucketsF_eq data hg.1 (fun p hp => (hg.2 p hp).1.1)
    have hk : kidData data = [] := by
      rcases hkd : kidData data with _ | ⟨d, rest⟩
      · rfl
      · have := (kidData_good 0 data hg d (by rw [hkd]; simp)).1
        omega
    rw [fillF_zero, hb, ← kidData_length, hk]
    have ht : fillT 0 data = fillWith (fun _ => .node 0 0 []) (bucketsT data) := rfl
    rw [ht, fillWith_kids, hk]
    simp [rootNode, desc_node, descKids]
  | succ g ih =>
    intro n i hi
    have hb := bucketsF_eq data hg.1 (fun p hp => (hg.2 p hp).1.1)
    rw [fillF_succ, hb, ← kidData_length]
    have ht : fillT (g + 1) data = fillWith (fillT g) (bucketsT data) := rfl
    rw [ht, fillWith_kids]
    -- the loop over all 16 buckets, skipping the decided ones, is the loop over `kidData`
    have hfold : ∀ init : List Node × Nat,
        (bucketsT data).zipIdx.foldl (fun (st : List Node × Nat) (si : List Prefix × Nat) =>
          if decided (insetOf (bucketsT data))
              (outsetOf (bucketsT data) (insetOf (bucketsT data))) si.2 then st
          else (fillF g st.1 (shiftSeg si.1) st.2, st.2 + 1)) init =
        ((bucketsT data).zipIdx.filterMap (fun si =>
          if decided (insetOf (bucketsT data))
              (outsetOf (bucketsT data) (insetOf (bucketsT data))) si.2 then none
          else some (shiftSeg si.1))).foldl
          (fun (st : List Node × Nat) d => (fillF g st.1 d st.2, st.2 + 1)) init := by
      intro init
      rw [← foldl_skip (fun (si : List Prefix × Nat) =>
          if decided (insetOf (bucketsT data))
              (outsetOf (bucketsT data) (insetOf (bucketsT data))) si.2 then none
          else some (shiftSeg si.1))
        (fun (st : List Node × Nat) d => (fillF g st.1 d st.2, st.2 + 1))]
      congr 1
      funext st si
      split <;> simp_all
    rw [hfold]
    have hkd : (bucketsT data).zipIdx.filterMap (fun si =>
          if decided (insetOf (bucketsT data))
              (outsetOf (bucketsT data) (insetOf (bucketsT data))) si.2 then none
          else some (shiftSeg si.1)) = kidData data := by
      unfold bucketsT kidData
      rw [zipIdx_map_range, List.filterMap_map]
      rfl
    rw [hkd]
    have hloop := fill_loop g (kidData data)
      (fun d hd => ih d (by
        have := (kidData_good (g + 1) data hg d hd).2
        simpa using this))
      (n.set i ⟨n.length, insetOf (bucketsT data),
        outsetOf (bucketsT data) (insetOf (bucketsT data))⟩) []
    simp only [List.append_nil, List.length_set, List.length_nil, Nat.add_zero] at hloop
    rw [hloop]
    simp [rootNode, desc_node, List.append_assoc]


/-! ### walking the array = walking the tree -/

/-- the array holds the root of `t` at `idx` (with child offset `off`) and the layout of `t`'s
    descendants from position `off` on -/
def Placed (arr : List Node) (t : Tree) (idx off : Nat) : Prop :=
  arr[idx]? = some (rootNode t off) ∧ ∀ j x, (desc t off)[j]? = some x → arr[off + j]? = some x

/-- where child `k` and its descendants sit inside the layout of a children list -/
theorem descKids_placed (kids : List Tree) (start k : Nat) (kid : Tree) (hk : kids[k]? = some kid) :
    ∃ offk, start ≤ offk ∧ (descKids kids start).1[k]? = some (rootNode kid offk) ∧
      ∀ j x, (desc kid offk)[j]? = some x →
        (descKids kids start).2[(offk - start) + j]? = some x := by
  induction kids generalizing start k with
  | nil => simp at hk
  | cons t rest ih =>
    rw [descKids_cons]
    cases k with
    | zero =>
      simp only [List.getElem?_cons_zero, Option.some.injEq] at hk
      subst hk
      refine ⟨start, Nat.le_refl _, by simp, ?_⟩
      intro j x hx
      have hj : j < (desc t start).length := (List.getElem?_eq_some_iff.mp hx).1
      simp only [Nat.sub_self, Nat.zero_add]
      rw [List.getElem?_append_left hj]
      exact hx
    | succ k =>
      simp only [List.getElem?_cons_succ] at hk
      obtain ⟨offk, hle, hh, ht⟩ := ih (start + (desc t start).length) k hk
      refine ⟨offk, by omega, by simpa using hh, ?_⟩
      intro j x hx
      have := ht j x hx
      have hidx : offk - start + j =
          (desc t start).length + (offk - (start + (desc t start).length) + j) := by omega
      rw [hidx, List.getElem?_append_right (by omega)]
      simpa using this

/-- **lookup**: whatever the tree lookup answers, the array lookup answers the same -/
theorem lookup_placed (arr : List Node) (fuel : Nat) (t : Tree) (idx off v : Nat) (b : Bool)
    (hp : Placed arr t idx off) (h : lookupT fuel t v = some b) : lookupF arr fuel idx v = some b := by
  induction fuel generalizing t idx off v with
  | zero => simp [lookupT] at h
  | succ fuel ih =>
    obtain ⟨i, o, kids⟩ := t
    simp only [lookupT] at h
    simp only [lookupF, hp.1, rootNode]
    split
    · rename_i hi
      rw [if_pos hi] at h; exact h
    · rename_i hi
      rw [if_neg hi] at h
      split
      · rename_i ho
        rw [if_pos ho] at h; exact h
      · rename_i ho
        rw [if_neg ho] at h
        rcases hk : kids[undecidedBelow i o (topNibble v)]? with _ | kid
        · rw [hk] at h; cases h
        · rw [hk] at h
          simp only at h
          obtain ⟨offk, hle, hh, ht⟩ :=
            descKids_placed kids (off + kids.length) _ kid hk
          have hlen := descKids_heads_length kids (off + kids.length)
          have hu : undecidedBelow i o (topNibble v) < (descKids kids (off + kids.length)).1.length :=
            (List.getElem?_eq_some_iff.mp hh).1
          refine ih kid _ offk (shl4 v) ⟨?_, ?_⟩ h
          · apply hp.2
            rw [desc_node, List.getElem?_append_left hu]
            exact hh
          · intro j x hx
            have h1 := ht j x hx
            have h2 := hp.2 (kids.length + (offk - (off + kids.length) + j)) x (by
              rw [desc_node, List.getElem?_append_right (by omega), hlen]
              simpa using h1)
            have he : off + (kids.length + (offk - (off + kids.length) + j)) = offk + j := by omega
            rw [he] at h2
            exact h2

/-! ### `create` on the array -/

theorem create_good (ps : List Prefix) (hps : ∀ p ∈ ps, p.1 < W ∧ p.2 ≤ 128) :
    Good FUEL ((ps.map fun p => (applyMask p.1 p.2, p.2)).mergeSort ple) := by
  refine ⟨List.pairwise_mergeSort (fun a b c => ple_trans a b c) (fun a b => ple_total a b) _, ?_⟩
  intro q hq
  rw [(List.mergeSort_perm _ ple).mem_iff, List.mem_map] at hq
  obtain ⟨p, hp, rfl⟩ := hq
  obtain ⟨hpW, hl⟩ := hps p hp
  obtain ⟨h1, h2, _⟩ := applyMask_spec p.1 p.2 hpW hl
  exact ⟨⟨h1, hl, h2⟩, by simp only [FUEL]; omega⟩

theorem maskAll_some (ps : List Prefix) (hps : ∀ p ∈ ps, p.1 < W ∧ p.2 ≤ 128) :
    maskAll ps = some (ps.map fun p => (applyMask p.1 p.2, p.2)) := by
  unfold maskAll
  have hall : (ps.all fun p => decide (p.2 ≤ 128)) = true := by
    simp only [List.all_eq_true, decide_eq_true_eq]
    exact fun p hp => (hps p hp).2
  rw [if_pos hall]

theorem flatten_eq (t : Tree) : flatten t = rootNode t 1 :: desc t 1 := by
  cases t; rfl

/-- **the array the code builds is the layout of the tree** -/
theorem createF_eq_flatten (ps : List Prefix) (hps : ∀ p ∈ ps, p.1 < W ∧ p.2 ≤ 128) :
    createF ps = (createT ps).map flatten := by
  unfold createF createT
  rw [maskAll_some ps hps]
  simp only [Option.map_some, Option.some.injEq]
  rw [fillF_layout FUEL _ (create_good ps hps) [Node.default] 0 (by simp), flatten_eq]
  simp

theorem placed_flatten (t : Tree) : Placed (flatten t) t 0 1 := by
  rw [flatten_eq]
  refine ⟨by simp, ?_⟩
  intro j x hx
  rw [Nat.add_comm, List.getElem?_cons_succ]
  exact hx

/-- **flat = tree**: on every prefix list (lengths ≤ 128) and every 128-bit value the array model and
    the tree model give the same answer -/
theorem memberF_eq_memberT (ps : List Prefix) (v : Nat) (hps : ∀ p ∈ ps, p.1 < W ∧ p.2 ≤ 128)
    (hv : v < W) : memberF ps v = memberT ps v := by
  obtain ⟨b, hb, _⟩ := memberT_iff ps v hv hps
  rw [hb]
  unfold memberF
  rw [createF_eq_flatten ps hps]
  unfold memberT at hb
  rcases hc : createT ps with _ | t
  · rw [hc] at hb; simp at hb
  · rw [hc] at hb
    simp only [Option.bind_some] at hb
    simp only [Option.map_some, Option.bind_some]
    exact lookup_placed _ _ t 0 1 v b (placed_flatten t) hb

end NtpVerif.IpFilter
