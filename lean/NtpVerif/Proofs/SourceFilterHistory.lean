/-
History-level no-panic facts for the source filters of Model/SourceFilter (two-way: Parts 1-3, one-way /
periodic: Part 4).  The hysteresis-score invariants are carried along every history of measurements and
steering messages from the initial state; with them the i32 score overflows, `PollInterval::inc/dec`
overflows and `-hysteresis` are unreachable, so the only panic site left on these paths is
`NtpDuration::from_seconds` being handed a non-finite steering value.  Mathlib-free.
-/
import NtpVerif.Proofs.SourceFilterPeriodic

namespace NtpVerif.SourceFilter
open NtpVerif.Wrap NtpVerif.Kalman2

/-- configuration hypotheses: limits away from the `i8` corners with `min ≤ initial ≤ max`, both hystereses
    negatable `i32`s -/
structure CfgOk (sc : SrcCfg) (ac : AlgoCfg) : Prop where
  lim : -127 ≤ sc.lim.min ∧ sc.lim.min ≤ sc.initial ∧ sc.initial ≤ sc.lim.max ∧ sc.lim.max ≤ 126
  hp : I32_MIN < ac.poll.hysteresis ∧ ac.poll.hysteresis ≤ I32_MAX
  hw : I32_MIN < ac.wander.hysteresis ∧ ac.wander.hysteresis ≤ I32_MAX

/-- both hysteresis scores within their invariants -/
def ScoreInv (sc : SrcCfg) (ac : AlgoCfg) (poll : PollState) (prec : Int) : Prop :=
  PollInv ac.poll sc.lim poll ∧
  (prec = 0 ∨ (-ac.wander.hysteresis < prec ∧ prec < ac.wander.hysteresis))

theorem scoreInv_init (sc : SrcCfg) (ac : AlgoCfg) (h : CfgOk sc ac) :
    ScoreInv sc ac { score := 0, desired := sc.initial } 0 :=
  ⟨⟨h.lim.2.1, h.lim.2.2.1, Or.inl rfl⟩, Or.inl rfl⟩

theorem CfgOk.lim' {sc : SrcCfg} {ac : AlgoCfg} (h : CfgOk sc ac) :
    -127 ≤ sc.lim.min ∧ sc.lim.min ≤ sc.lim.max ∧ sc.lim.max ≤ 126 := by
  have := h.lim; omega

/-! ### two-way filter -/

/-- `SourceFilter::update` never panics under the score invariants and keeps them
    (`precision_score` / `poll_score` overflow, `inc`/`dec` overflow, `-hysteresis` are unreachable) -/
theorem Stable.update_some_inv (f : Stable) (sc : SrcCfg) (ac : AlgoCfg) (m : Meas) (now : Nat)
    (hc : CfgOk sc ac) (hi : ScoreInv sc ac f.poll f.precisionScore) :
    ∃ f' b, f.update sc ac m now = some (f', b) ∧ ScoreInv sc ac f'.poll f'.precisionScore := by
  unfold Stable.update
  simp only [bind, pure]
  split
  · exact ⟨_, _, rfl, hi⟩
  · split
    · exact ⟨_, _, rfl, hi⟩
    · generalize hp : chi1 _ = p
      generalize hwt : AbsorbOut.weight (α := F64) _ = w
      obtain ⟨s', wd', hwe, hs'⟩ := updateWanderEstimate_some f.precisionScore f.wander ac.wander p w hc.hw hi.2
      obtain ⟨ps', hps, hpi⟩ := updateDesiredPoll_inv f.poll ac.poll sc.lim p w
        (durToSeconds (tsSub m.localtime f.last.localtime)) hc.lim' hc.hp hi.1
      simp only [hwe, hps, Option.bind_some]
      exact ⟨_, _, rfl, hpi, hs'⟩

/-- invariant of a two-way `SourceState` -/
def SInv (sc : SrcCfg) (ac : AlgoCfg) : SState → Prop
  | .initial _ => True
  | .stable f => ScoreInv sc ac f.poll f.precisionScore

theorem Initial.update_inv (f : Initial) (sc : SrcCfg) (ac : AlgoCfg) (m : Meas) (now : Nat)
    (hc : CfgOk sc ac) : SInv sc ac (f.update sc ac m now) := by
  unfold Initial.update
  simp only
  split
  · exact scoreInv_init sc ac hc
  · trivial

/-- `SourceState::update_self_using_measurement` never panics and keeps the invariant -/
theorem SState.update_some_inv (st : SState) (sc : SrcCfg) (ac : AlgoCfg) (m : Meas) (now : Nat)
    (hc : CfgOk sc ac) (hi : SInv sc ac st) :
    ∃ st' b, st.update sc ac m now = some (st', b) ∧ SInv sc ac st' := by
  unfold SState.update
  cases st with
  | initial f =>
    simp only [bind, pure]
    exact ⟨_, _, rfl, Initial.update_inv f sc ac _ now hc⟩
  | stable f =>
    obtain ⟨ad, had⟩ := durAbsDiff_isSome (tsSub m.localtime f.last.localtime)
      (durFromSystemNanos (now - f.lastMono))
    simp only [bind, pure, had, Option.bind_some]
    by_cases hgt : ad > ac.meddlingThreshold
    · simp only [hgt, if_true]
      exact ⟨_, _, rfl, trivial⟩
    · obtain ⟨f', b, hu, hinv⟩ := Stable.update_some_inv f sc ac { m with delay := max m.delay minDelay } now hc hi
      simp only [hgt, if_false, hu, Option.bind_some]
      exact ⟨_, _, rfl, hinv⟩

/-- operations a two-way source controller receives: a measurement (with the monotonic-clock advance since
    the previous op), a `Step` message, a `FreqChange` message -/
inductive FOp where
  | meas (adv : Nat) (m : Meas)
  | step (s : F64)
  | freq (t : Nat) (s : F64)

/-- one op on (filter state, monotonic now); `none` = a panic site was reached -/
def fstep (sc : SrcCfg) (ac : AlgoCfg) (x : SState × Nat) : FOp → Option (SState × Nat)
  | .meas adv m => (x.1.update sc ac m (x.2 + adv)).map fun r => (r.1, x.2 + adv)
  | .step s => (x.1.offsetSteer s).map fun st => (st, x.2)
  | .freq t s => (x.1.freqSteer t s).map fun st => (st, x.2)

def frun (sc : SrcCfg) (ac : AlgoCfg) : SState × Nat → List FOp → Option (SState × Nat)
  | x, [] => some x
  | x, op :: ops => (fstep sc ac x op).bind fun x' => frun sc ac x' ops

/-- the value a steering message makes the stable filter hand to `NtpDuration::from_seconds` is NaN/±∞
    (`durFromSeconds v = none ↔ v` is NaN or infinite: `C06.from_seconds_total_on_finite`) -/
def SteerNonFinite : SState → FOp → Prop
  | .stable _, .step s => durFromSeconds s = none
  | .stable f, .freq t s => durFromSeconds (s * durToSeconds (tsSub t f.last.localtime)) = none
  | _, _ => False

theorem fstep_cases (sc : SrcCfg) (ac : AlgoCfg) (x : SState × Nat) (op : FOp) (hc : CfgOk sc ac)
    (hi : SInv sc ac x.1) :
    (∃ x', fstep sc ac x op = some x' ∧ SInv sc ac x'.1) ∨
    (fstep sc ac x op = none ∧ SteerNonFinite x.1 op) := by
  obtain ⟨st, now⟩ := x
  cases op with
  | meas adv m =>
    obtain ⟨st', b, hu, hinv⟩ := SState.update_some_inv st sc ac m (now + adv) hc hi
    exact Or.inl ⟨(st', now + adv), by simp only [fstep, hu, Option.map_some], hinv⟩
  | step s =>
    cases st with
    | initial f =>
      refine Or.inl ⟨?w_1, ?h1_1, ?h2_1⟩
      case h1_1 => simp only [fstep, SState.offsetSteer, Option.map_some]; rfl
      case h2_1 => exact trivial
    | stable f =>
      cases hd : durFromSeconds s with
      | none => exact Or.inr ⟨by simp [fstep, SState.offsetSteer, kOffsetSteer, hd], hd⟩
      | some d =>
        refine Or.inl ⟨?w_2, ?h1_2, ?h2_2⟩
        case h1_2 => simp only [fstep, SState.offsetSteer, kOffsetSteer, hd, bind, Option.bind_some, Option.map_some]; rfl
        case h2_2 => exact hi
  | freq t s =>
    cases st with
    | initial f =>
      refine Or.inl ⟨?w_3, ?h1_3, ?h2_3⟩
      case h1_3 => simp only [fstep, SState.freqSteer, Option.map_some]; rfl
      case h2_3 => exact trivial
    | stable f =>
      cases hd : durFromSeconds (s * durToSeconds (tsSub t f.last.localtime)) with
      | none => exact Or.inr ⟨by simp [fstep, SState.freqSteer, hd], hd⟩
      | some d =>
        refine Or.inl ⟨?w_4, ?h1_4, ?h2_4⟩
        case h1_4 => simp only [fstep, SState.freqSteer, hd, bind, Option.bind_some, Option.map_some]; rfl
        case h2_4 => exact hi

/-- over every history: the invariant holds at every reached state, and if the run stops (`none`) it stops
    at a steering message whose `from_seconds` argument is non-finite -/
theorem frun_cases (sc : SrcCfg) (ac : AlgoCfg) (hc : CfgOk sc ac) (ops : List FOp) (x : SState × Nat)
    (hi : SInv sc ac x.1) :
    (∃ x', frun sc ac x ops = some x' ∧ SInv sc ac x'.1) ∨
    (frun sc ac x ops = none ∧ ∃ pre op post x', ops = pre ++ op :: post ∧
      frun sc ac x pre = some x' ∧ SInv sc ac x'.1 ∧ SteerNonFinite x'.1 op) := by
  induction ops generalizing x with
  | nil => exact Or.inl ⟨x, rfl, hi⟩
  | cons op ops ih =>
    rcases fstep_cases sc ac x op hc hi with ⟨x1, h1, hi1⟩ | ⟨h1, hnf⟩
    · rcases ih x1 hi1 with ⟨x', h2, hi2⟩ | ⟨h2, pre, op', post, x', he, hp, hip, hnf⟩
      · exact Or.inl ⟨x', by simp only [frun, h1, Option.bind_some, h2], hi2⟩
      · refine Or.inr ⟨by simp only [frun, h1, Option.bind_some, h2], op :: pre, op', post, x', by simp [he], ?_, hip, hnf⟩
        simp only [frun, h1, Option.bind_some, hp]
    · exact Or.inr ⟨by simp only [frun, h1, Option.bind_none], [], op, ops, x, rfl, rfl, hi, hnf⟩

/-! ### one-way (periodic) filter -/

/-- an outcome is *good* for `Q`: not a panic; `Q` holds if it returned; a spent loop budget is allowed -/
def Good {α : Type} (Q : α → Prop) : Outcome α → Prop
  | .ok a => Q a
  | .panic => False
  | .fuel => True

theorem good_bind {α β : Type} (Q' : α → Prop) (Q : β → Prop) (o : Outcome α) (f : α → Outcome β)
    (ho : Good Q' o) (hf : ∀ a, Q' a → Good Q (f a)) : Good Q (o.bind f) := by
  cases o with
  | ok a => exact hf a ho
  | panic => exact ho
  | fuel => trivial

theorem good_weaken {α : Type} (Q Q' : α → Prop) (o : Outcome α) (h : Good Q o) (hq : ∀ a, Q a → Q' a) :
    Good Q' o := by
  cases o <;> simp_all [Good]

theorem good_orFuel {α : Type} (o : Option α) : Good (fun _ => True) (orFuel o) := by
  cases o <;> simp [orFuel, Good]

theorem good_correctPeriodicity (fuel : Nat) (k : KT) (period : Option F64) :
    Good (fun _ => True) (correctPeriodicity fuel k period) := by
  have h := correctPeriodicity_ne_panic fuel k period
  cases hc : correctPeriodicity fuel k period <;> simp_all [Good]

theorem good_progressTimeP (fuel : Nat) (k : KT) (t : Nat) (w : F64) (period : Option F64) :
    Good (fun _ => True) (progressTimeP fuel k t w period) := by
  have h := progressTimeP_ne_panic fuel k t w period
  cases hc : progressTimeP fuel k t w period <;> simp_all [Good]

theorem good_correctPeriod (fuel : Nat) (b : AvgBuf) (samples : Nat) (period : Option F64) :
    Good (fun _ => True) (correctPeriod fuel b samples period) := by
  unfold correctPeriod
  split
  · trivial
  · cases period with
    | none => trivial
    | some p =>
      simp only
      exact good_bind (fun _ => True) _ _ _ (good_orFuel _) (fun _ _ => good_orFuel _)

/-- `SourceFilter::update` of a stable one-way filter: no panic site under the score invariants, and the
    invariants hold again when it returns -/
theorem OStable.update_good (fuel : Nat) (f : OStable) (sc : SrcCfg) (ac : AlgoCfg)
    (period : Option F64) (m : OMeas) (now : Nat) (hc : CfgOk sc ac)
    (hi : ScoreInv sc ac f.poll f.precisionScore) :
    Good (fun r => ScoreInv sc ac r.1.poll r.1.precisionScore) (OStable.update fuel f sc ac period m now) := by
  unfold OStable.update
  simp only [bind, pure]
  split
  · exact hi
  · refine good_bind (fun _ => True) _ _ _ (good_progressTimeP _ _ _ _ _) (fun k _ => ?_)
    cases period <;> simp only [] <;>
    ( refine good_bind (fun _ => True) _ _ _ (by first | exact good_orFuel _ | trivial) (fun z _ => ?_)
      refine good_bind (fun _ => True) _ _ _ (good_correctPeriodicity _ _ _) (fun k' _ => ?_)
      obtain ⟨s', wd', hwe, hs'⟩ := updateWanderEstimate_some f.precisionScore f.wander ac.wander
        (chi1 (absorbCore k.s 1 0 z f.noise.precision).chiArg)
        (absorbCore k.s 1 0 z f.noise.precision).weight hc.hw hi.2
      obtain ⟨ps', hps, hpi⟩ := updateDesiredPoll_inv f.poll ac.poll sc.lim
        (chi1 (absorbCore k.s 1 0 z f.noise.precision).chiArg)
        (absorbCore k.s 1 0 z f.noise.precision).weight
        (durToSeconds (tsSub m.localtime f.last.localtime)) hc.lim' hc.hp hi.1
      simp only [hwe, hps, orPanic, Outcome.bind]
      exact ⟨hpi, hs'⟩ )

/-- invariant of a one-way `SourceState` -/
def OInv (sc : SrcCfg) (ac : AlgoCfg) : OState → Prop
  | .initial _ => True
  | .stable f => ScoreInv sc ac f.poll f.precisionScore

theorem OInitial.update_good (fuel : Nat) (f : OInitial) (sc : SrcCfg) (ac : AlgoCfg)
    (period : Option F64) (m : OMeas) (now : Nat) (hc : CfgOk sc ac) :
    Good (OInv sc ac) (OInitial.update fuel f sc ac period m now) := by
  unfold OInitial.update
  simp only [bind, pure]
  cases period <;> simp only [] <;>
  ( refine good_bind (fun _ => True) _ _ _ (by first | exact good_orFuel _ | trivial) (fun off _ => ?_)
    refine good_bind (fun _ => True) _ _ _ (good_correctPeriod _ _ _ _) (fun io _ => ?_)
    split
    · refine good_bind (fun _ => True) _ _ _ (good_correctPeriodicity _ _ _) (fun k _ => ?_)
      exact scoreInv_init sc ac hc
    · trivial )

theorem OState.update_good (fuel : Nat) (st : OState) (sc : SrcCfg) (ac : AlgoCfg)
    (period : Option F64) (m : OMeas) (now : Nat) (hc : CfgOk sc ac) (hi : OInv sc ac st) :
    Good (fun r => OInv sc ac r.1) (OState.update fuel st sc ac period m now) := by
  unfold OState.update
  cases st with
  | initial f =>
    simp only [bind, pure]
    exact good_bind (OInv sc ac) _ _ _ (OInitial.update_good fuel f sc ac period m now hc) (fun st' h => h)
  | stable f =>
    obtain ⟨ad, had⟩ := durAbsDiff_isSome (tsSub m.localtime f.last.localtime)
      (durFromSystemNanos (now - f.lastMono))
    simp only [bind, pure, had, orPanic, Outcome.bind]
    by_cases hgt : ad > ac.meddlingThreshold
    · simp only [hgt, if_true]
      exact (trivial : OInv sc ac (OState.new f.noise))
    · simp only [hgt, if_false]
      exact good_bind _ _ _ _ (OStable.update_good fuel f sc ac period m now hc hi) (fun r h => h)

/-- operations a one-way source controller receives -/
inductive OOp where
  | meas (adv : Nat) (m : OMeas)
  | step (s : F64)
  | freq (t : Nat) (s : F64)

def ostep (fuel : Nat) (sc : SrcCfg) (ac : AlgoCfg) (period : Option F64) (x : OState × Nat) :
    OOp → Outcome (OState × Nat)
  | .meas adv m => (x.1.update fuel sc ac period m (x.2 + adv)).bind fun r => .ok (r.1, x.2 + adv)
  | .step s => (x.1.offsetSteer fuel s period).bind fun st => .ok (st, x.2)
  | .freq t s => (x.1.freqSteer fuel t s period).bind fun st => .ok (st, x.2)

def orun (fuel : Nat) (sc : SrcCfg) (ac : AlgoCfg) (period : Option F64) :
    OState × Nat → List OOp → Outcome (OState × Nat)
  | x, [] => .ok x
  | x, op :: ops => (ostep fuel sc ac period x op).bind fun x' => orun fuel sc ac period x' ops

/-- the steering value as applied: `steer %= period` for periodic sources -/
def appliedSteer (period : Option F64) (s : F64) : F64 :=
  match period with
  | some p => fmod s p
  | none => s

/-- the value a steering message makes the stable one-way filter hand to `from_seconds` is NaN/±∞ -/
def OSteerNonFinite (period : Option F64) : OState → OOp → Prop
  | .stable _, .step s => durFromSeconds (appliedSteer period s) = none
  | .stable f, .freq t s => durFromSeconds (s * durToSeconds (tsSub t f.last.localtime)) = none
  | _, _ => False

theorem kOffsetSteer_eq (k : KT) (s : F64) :
    kOffsetSteer k s = (durFromSeconds s).map fun d =>
      { s := { k.s with x := { x0 := k.s.x.x0 - s, x1 := k.s.x.x1 - (0 : F64) } }, time := tsAdd k.time d } := by
  unfold kOffsetSteer
  cases durFromSeconds s <;> rfl

theorem OState.offsetSteer_stable (fuel : Nat) (f : OStable) (s : F64) (period : Option F64) :
    (OState.stable f).offsetSteer fuel s period =
      (orPanic (kOffsetSteer f.k (appliedSteer period s))).bind fun k =>
      (correctPeriodicity fuel k period).bind fun k =>
      (orPanic (durFromSeconds (appliedSteer period s))).bind fun d =>
      .ok (.stable { f with
        k := k
        last := { f.last with offset := satI64 (f.last.offset - d), localtime := tsAdd f.last.localtime d } }) :=
  rfl

theorem OState.offsetSteer_initial (fuel : Nat) (f : OInitial) (s : F64) (period : Option F64) :
    (OState.initial f).offsetSteer fuel s period =
      (correctPeriod fuel { f.initOffset with data := f.initOffset.data.map (· - appliedSteer period s) }
        f.samples period).bind fun io => .ok (.initial { f with initOffset := io }) :=
  rfl

theorem OState.freqSteer_stable (fuel : Nat) (f : OStable) (t : Nat) (s : F64) (period : Option F64) :
    (OState.stable f).freqSteer fuel t s period =
      (progressTimeP fuel f.k t f.wander period).bind fun k =>
      (orPanic (durFromSeconds (s * durToSeconds (tsSub t f.last.localtime)))).bind fun d =>
      .ok (.stable { f with
        k := { k with s := { k.s with x := { x0 := k.s.x.x0 - (0 : F64), x1 := k.s.x.x1 - s } } }
        last := { f.last with offset := satI64 (f.last.offset + d) } }) :=
  rfl

theorem ostep_cases (fuel : Nat) (sc : SrcCfg) (ac : AlgoCfg) (period : Option F64) (x : OState × Nat)
    (op : OOp) (hc : CfgOk sc ac) (hi : OInv sc ac x.1) :
    Good (fun x' => OInv sc ac x'.1) (ostep fuel sc ac period x op) ∨
    (ostep fuel sc ac period x op = .panic ∧ OSteerNonFinite period x.1 op) := by
  obtain ⟨st, now⟩ := x
  cases op with
  | meas adv m =>
    left
    exact good_bind _ _ _ _ (OState.update_good fuel st sc ac period m (now + adv) hc hi) (fun r h => h)
  | step s =>
    cases st with
    | initial f =>
      left
      simp only [ostep, OState.offsetSteer_initial]
      refine good_bind (OInv sc ac) _ _ _ ?_ (fun st' h => h)
      exact good_bind (fun _ => True) _ _ _ (good_correctPeriod _ _ _ _) (fun _ _ => trivial)
    | stable f =>
      simp only [ostep, OState.offsetSteer_stable, kOffsetSteer_eq]
      cases hd : durFromSeconds (appliedSteer period s) with
      | none => right; exact ⟨rfl, hd⟩
      | some d =>
        left
        simp only [Option.map_some, orPanic, Outcome.bind]
        cases hcp : correctPeriodicity fuel
            { s := { f.k.s with x := { x0 := f.k.s.x.x0 - appliedSteer period s, x1 := f.k.s.x.x1 - (0 : F64) } },
              time := tsAdd f.k.time d } period with
        | panic => exact absurd hcp (correctPeriodicity_ne_panic _ _ _)
        | fuel => trivial
        | ok k => exact hi
  | freq t s =>
    cases st with
    | initial f => left; exact (trivial : OInv sc ac (OState.initial f))
    | stable f =>
      simp only [ostep, OState.freqSteer_stable]
      cases hp : progressTimeP fuel f.k t f.wander period with
      | panic => exact absurd hp (progressTimeP_ne_panic _ _ _ _ _)
      | fuel => left; trivial
      | ok k =>
        cases hd : durFromSeconds (s * durToSeconds (tsSub t f.last.localtime)) with
        | none => right; exact ⟨rfl, hd⟩
        | some d => left; exact hi

/-- **one-way histories**: along every history the invariant holds at every reached state; the run can end
    early only by a spent loop budget (`fuel`) or — the only panic — at a steering message whose
    `from_seconds` argument is non-finite -/
theorem orun_cases (fuel : Nat) (sc : SrcCfg) (ac : AlgoCfg) (period : Option F64) (hc : CfgOk sc ac)
    (ops : List OOp) (x : OState × Nat) (hi : OInv sc ac x.1) :
    Good (fun x' => OInv sc ac x'.1) (orun fuel sc ac period x ops) ∨
    (orun fuel sc ac period x ops = .panic ∧ ∃ pre op post x', ops = pre ++ op :: post ∧
      orun fuel sc ac period x pre = .ok x' ∧ OInv sc ac x'.1 ∧ OSteerNonFinite period x'.1 op) := by
  induction ops generalizing x with
  | nil => exact Or.inl hi
  | cons op ops ih =>
    rcases ostep_cases fuel sc ac period x op hc hi with hg | ⟨h1, hnf⟩
    · cases h1 : ostep fuel sc ac period x op with
      | panic => rw [h1] at hg; exact absurd hg id
      | fuel => left; simp only [orun, h1, Outcome.bind]; trivial
      | ok x1 =>
        rw [h1] at hg
        rcases ih x1 hg with h2 | ⟨h2, pre, op', post, x', he, hp, hip, hnf⟩
        · left; simp only [orun, h1, Outcome.bind]; exact h2
        · right
          refine ⟨by simp only [orun, h1, Outcome.bind, h2], op :: pre, op', post, x', by simp [he], ?_, hip, hnf⟩
          simp only [orun, h1, Outcome.bind, hp]
    · right
      exact ⟨by simp only [orun, h1, Outcome.bind], [], op, ops, x, rfl, rfl, hi, hnf⟩

end NtpVerif.SourceFilter
