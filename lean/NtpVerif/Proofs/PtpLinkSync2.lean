/- C43: the link/estimator synchronisation invariant over whole controller histories. -/
import NtpVerif.Proofs.PtpLinkSync

set_option linter.unusedSimpArgs false
set_option linter.unusedVariables false

namespace NtpVerif.PtpFilter
open NtpVerif.Estimator NtpVerif.PtpCtrl

theorem hasLink_of_ids {s s' : E} (h : s'.links.map (·.id) = s.links.map (·.id)) (x : LinkId) :
    HasLink s' x ↔ HasLink s x := by
  have key : ∀ t : E, HasLink t x ↔ x ∈ t.links.map (·.id) := by
    intro t
    unfold HasLink
    simp only [List.mem_map]
  rw [key, key, h]

theorem sync_map {f : Filter} (hs : LinkSync f) (g : FLink → FLink)
    (hg : ∀ l, (g l).id = l.id ∧ (g l).active = l.active ∧ (g l).tracked.isSome = l.tracked.isSome)
    (est' : E) (he : ∀ x, HasLink est' x ↔ HasLink f.est x) :
    LinkSync { links := f.links.map g, est := est' } := by
  refine ⟨?_, ?_, ?_⟩
  · intro z hz htr
    obtain ⟨l, hl, rfl⟩ := List.mem_map.mp hz
    obtain ⟨a, b, c⟩ := hg l
    rw [a, b, he]
    exact hs.sync l hl (by rw [← c]; exact htr)
  · intro x hx
    obtain ⟨l, hl, hlid, hltr⟩ := hs.owned x ((he x).mp hx)
    obtain ⟨a, b, c⟩ := hg l
    exact ⟨g l, List.mem_map.mpr ⟨l, hl, rfl⟩, by rw [a]; exact hlid, by rw [c]; exact hltr⟩
  · simp only [List.map_map]
    have : ((fun x : FLink => x.id) ∘ g) = fun x => x.id := by
      funext l; exact (hg l).1
    rw [this]; exact hs.nodup

theorem sync_same {f f' : Filter} (hs : LinkSync f) (hl : f'.links = f.links)
    (he : ∀ x, HasLink f'.est x ↔ HasLink f.est x) : LinkSync f' := by
  have := sync_map hs (fun l => l) (fun l => ⟨rfl, rfl, rfl⟩) f'.est he
  simp only [List.map_id'] at this
  refine ⟨?_, ?_, ?_⟩
  · intro l hlm; rw [hl] at hlm; exact this.sync l hlm
  · intro x hx; obtain ⟨l, a, b⟩ := this.owned x hx; exact ⟨l, by rw [hl]; exact a, b⟩
  · rw [hl]; exact hs.nodup

/-! estimator operations that keep the link ids -/

theorem progressTime_links {s s' : E} {t : Nat} (h : progressTime s t = .ok s') : s'.links = s.links := by
  unfold progressTime at h
  simp only at h
  split at h
  · cases h
  · split at h
    · cases h; rfl
    · split at h
      · cases h; rfl
      · cases h

theorem absorb_links {s s' : E} {id : Nat} :
    (∀ d, absorbFrequencySteer s id d = .ok s' → s'.links = s.links) ∧
    (∀ d, absorbOffsetChange s id d = .ok s' → s'.links = s.links) ∧
    (∀ d, absorbSystemClockOffsetChange s id d = .ok s' → s'.links = s.links) := by
  refine ⟨?_, ?_, ?_⟩ <;> intro d h
  · unfold absorbFrequencySteer at h
    obtain ⟨c, _, h⟩ := bindE h
    obtain ⟨st, _, h⟩ := bindE h
    cases h; rfl
  · unfold absorbOffsetChange at h
    obtain ⟨c, _, h⟩ := bindE h
    obtain ⟨st, _, h⟩ := bindE h
    cases h; rfl
  · unfold absorbSystemClockOffsetChange at h
    obtain ⟨c, _, h⟩ := bindE h
    obtain ⟨st, _, h⟩ := bindE h
    cases h; rfl

theorem addClock_links {s s' : E} {id : Nat} {a b c d w : F64}
    (h : Estimator.addClock s id a b c d w = .ok s') : s'.links = s.links := by
  unfold Estimator.addClock at h
  split at h
  · cases h
  · split at h
    · cases h
    · obtain ⟨st, _, h⟩ := bindE h
      obtain ⟨un, _, h⟩ := bindE h
      cases h; rfl

theorem extClock_links {s s' : E} {id : Nat} :
    (Estimator.addExternalClock s id = .ok s' → s'.links = s.links) ∧
    (Estimator.removeExternalClock s id = .ok s' → s'.links = s.links) := by
  constructor <;> intro h
  · unfold Estimator.addExternalClock at h
    split at h
    · cases h
    · split at h
      · cases h
      · cases h; rfl
  · unfold Estimator.removeExternalClock at h
    split at h
    · cases h; rfl
    · cases h

theorem removeClock_ids {s s' : E} (hw : WF s) {id : Nat} (h : Estimator.removeClock s id = .ok s') :
    s'.links.map (·.id) = s.links.map (·.id) := by
  cases hf : s.clocks.find? (fun c => c.id == id) with
  | none => rw [removeClock_unknown hf] at h; cases h
  | some rem =>
    obtain ⟨st', unc', heq, _⟩ := removeClock_spec hw hf
    rw [heq] at h
    cases h
    simp only [List.map_map]
    rfl

/-- an operation that only replaces the estimator by one with the same link ids -/
theorem sync_estOp {f f' : Filter} (hs : LinkSync f) {x : R E}
    (hx : ∀ est, x = .ok est → est.links.map (·.id) = f.est.links.map (·.id))
    (h : (do let est ← liftE x; pure ({ f with est } : Filter)) = .ok f') : LinkSync f' := by
  obtain ⟨est, he, h⟩ := bindE h
  cases h
  exact sync_same hs rfl (hasLink_of_ids (hx est (liftE_ok he)))

theorem sync_progress {f f' : Filter} {t : Nat} (hs : LinkSync f) (h : f.progress t = .ok f') : LinkSync f' := by
  rw [Filter.progress_eq] at h
  cases hx : liftE (progressTime f.est t) with
  | error e => rw [hx] at h; cases h
  | ok est =>
    rw [hx] at h; cases h
    exact sync_same hs rfl (hasLink_of_ids (by simp only; rw [progressTime_links (liftE_ok hx)]))

theorem sync_absorbFrequency {f f' : Filter} {c : Nat} {d : F64} (hs : LinkSync f)
    (h : f.absorbFrequency c d = .ok f') : LinkSync f' :=
  sync_estOp hs (fun est he => by rw [absorb_links.1 d he]) h

theorem steerOffsets_id (l : FLink) (clock : Nat) (ch : F64) : (l.steerOffsets clock ch).id = l.id := by
  unfold FLink.steerOffsets
  cases hx : l.ext with
  | none => simp [hx]
  | some e =>
    by_cases hh : linkHas l.id clock = true
    · simp [hh, hx]
    · simp [hh, hx]

theorem sync_absorbOffset {f f' : Filter} {c : Nat} {d : F64} (hs : LinkSync f)
    (h : f.absorbOffset c d = .ok f') : LinkSync f' := by
  unfold Filter.absorbOffset at h
  obtain ⟨est, he, h⟩ := bindE h
  cases h
  apply sync_map hs _ _ est (hasLink_of_ids (by rw [absorb_links.2.1 d (liftE_ok he)]))
  intro l
  obtain ⟨a, b, _⟩ := steerOffsets_spec
    { l with tracked := l.tracked.map fun (nz, d) => (nz.absorbOffset l.id c, d) } c d
  refine ⟨by rw [steerOffsets_id], a, ?_⟩
  rw [b]; cases l.tracked <;> rfl

theorem sync_absorbSystem {f f' : Filter} {c : Nat} {d : Int} (hs : LinkSync f)
    (h : f.absorbSystem c d = .ok f') : LinkSync f' := by
  unfold Filter.absorbSystem at h
  obtain ⟨est, he, h⟩ := bindE h
  cases h
  apply sync_map hs _ _ est (hasLink_of_ids (by rw [absorb_links.2.2 d (liftE_ok he)]))
  intro l
  obtain ⟨a, b, _⟩ := steerOffsets_spec
    { l with tracked := l.tracked.map fun (nz, d') => (nz.absorbSystem l.id c d, d') } c (durAsSeconds d)
  refine ⟨by rw [steerOffsets_id], a, ?_⟩
  rw [b]; cases l.tracked <;> rfl

theorem sync_steerClock (read : Filter) (leap : Option Leap) (rd : Int) (acc : SteerAcc)
    (index id : Nat) (m : Mock) (h : LinkSync acc.filter) :
    LinkSync (steerClock read leap rd acc index id m).filter := by
  unfold steerClock
  cases herr : acc.err with
  | some e => exact h
  | none =>
    simp only
    cases hoff : liftE (clockOffset read.est id) with
    | error e => exact h
    | ok ou =>
      obtain ⟨offset, unc⟩ := ou
      simp only
      cases hfr : (if wantsFreq offset unc = true then
          Except.map (fun x => x.fst) (liftE (clockFrequency read.est id)) else Except.ok F64.zero) with
      | error e => exact h
      | ok freq =>
        simp only
        cases hact : steerOne (index == 0) offset unc freq m.freq m.max with
        | panic => exact h
        | setFreq actual change =>
          simp only
          cases habs : acc.filter.absorbFrequency id change with
          | error e => exact h
          | ok filter => exact sync_absorbFrequency h habs
        | step dur absorbed =>
          simp only
          cases habs : (if (index == 0) = true then acc.filter.absorbSystem id dur
              else acc.filter.absorbOffset id offset.neg) with
          | error e => exact h
          | ok filter =>
            simp only
            by_cases h0 : (index == 0) = true
            · rw [if_pos h0] at habs; exact sync_absorbSystem h habs
            · rw [if_neg h0] at habs; exact sync_absorbOffset h habs

theorem sync_steerLoop (read : Filter) (leap : Option Leap) (rd : Int) :
    ∀ (cs : List (Nat × Mock)) (acc : SteerAcc) (i : Nat), LinkSync acc.filter →
      LinkSync (steerLoop read leap rd acc i cs).filter
  | [], acc, i, h => by simpa [steerLoop] using h
  | (id, m) :: rest, acc, i, h => by
    simp only [steerLoop]
    exact sync_steerLoop read leap rd rest _ (i + 1) (sync_steerClock read leap rd acc i id m h)

theorem absorbOffset_ids {f f' : Filter} {c : Nat} {d : F64} (h : f.absorbOffset c d = .ok f') :
    f'.links.map (·.id) = f.links.map (·.id) := by
  unfold Filter.absorbOffset at h
  obtain ⟨est, _, h⟩ := bindE h
  cases h
  simp only [List.map_map]
  apply List.map_congr_left
  intro l _
  simp only [Function.comp, steerOffsets_id]

theorem absorbSystem_ids {f f' : Filter} {c : Nat} {d : Int} (h : f.absorbSystem c d = .ok f') :
    f'.links.map (·.id) = f.links.map (·.id) := by
  unfold Filter.absorbSystem at h
  obtain ⟨est, _, h⟩ := bindE h
  cases h
  simp only [List.map_map]
  apply List.map_congr_left
  intro l _
  simp only [Function.comp, steerOffsets_id]

theorem steerClock_linkids (read : Filter) (leap : Option Leap) (rd : Int) (acc : SteerAcc)
    (index id : Nat) (m : Mock) :
    (steerClock read leap rd acc index id m).filter.links.map (·.id) = acc.filter.links.map (·.id) := by
  unfold steerClock
  cases herr : acc.err with
  | some e => rfl
  | none =>
    simp only
    cases hoff : liftE (clockOffset read.est id) with
    | error e => rfl
    | ok ou =>
      obtain ⟨offset, unc⟩ := ou
      simp only
      cases hfr : (if wantsFreq offset unc = true then
          Except.map (fun x => x.fst) (liftE (clockFrequency read.est id)) else Except.ok F64.zero) with
      | error e => rfl
      | ok freq =>
        simp only
        cases hact : steerOne (index == 0) offset unc freq m.freq m.max with
        | panic => rfl
        | setFreq actual change =>
          simp only
          cases habs : acc.filter.absorbFrequency id change with
          | error e => rfl
          | ok filter => simp only; rw [absorbFrequency_links habs]
        | step dur absorbed =>
          simp only
          cases habs : (if (index == 0) = true then acc.filter.absorbSystem id dur
              else acc.filter.absorbOffset id offset.neg) with
          | error e => rfl
          | ok filter =>
            simp only
            by_cases h0 : (index == 0) = true
            · rw [if_pos h0] at habs; exact absorbSystem_ids habs
            · rw [if_neg h0] at habs; exact absorbOffset_ids habs

theorem steerLoop_linkids (read : Filter) (leap : Option Leap) (rd : Int) :
    ∀ (cs : List (Nat × Mock)) (acc : SteerAcc) (i : Nat),
      (steerLoop read leap rd acc i cs).filter.links.map (·.id) = acc.filter.links.map (·.id)
  | [], acc, i => by simp [steerLoop]
  | (id, m) :: rest, acc, i => by
    simp only [steerLoop]
    rw [steerLoop_linkids read leap rd rest _ (i + 1), steerClock_linkids]

theorem fresh_of_ids {ls ls' : List FLink} {n : Nat} (hids : ls'.map (·.id) = ls.map (·.id))
    (h : ∀ l ∈ ls, l.id.uid < n) : ∀ l ∈ ls', l.id.uid < n := by
  intro l hl
  have : l.id ∈ ls'.map (·.id) := List.mem_map.mpr ⟨l, hl, rfl⟩
  rw [hids] at this
  obtain ⟨l', hl', e⟩ := List.mem_map.mp this
  rw [← e]; exact h l' hl'

/-- controller-level invariant: synchronised filter, and every link uid below the uid counter -/
structure CtrlSync (c : Ctrl) : Prop where
  sync : LinkSync c.filter
  fresh : ∀ l ∈ c.filter.links, l.id.uid < c.nextLink

theorem ctrlSync_steerClocks {c c' : Ctrl} {r : RF (List SteerLog)} (h : CtrlSync c)
    (hc : c.steerClocks = (c', r)) : CtrlSync c' := by
  unfold Ctrl.steerClocks at hc
  cases hs : c.steerAcc with
  | error e => simp only [hs] at hc; cases hc; exact h
  | ok p =>
    obtain ⟨rd, acc⟩ := p
    simp only [hs] at hc
    cases herr : acc.err with
    | some e => simp only [herr] at hc; cases hc; exact ⟨h.sync, h.fresh⟩
    | none =>
      simp only [herr] at hc
      cases hc
      unfold Ctrl.steerAcc at hs
      split at hs
      · cases hs
      · obtain ⟨progressed, hp, hs⟩ := bindE hs
        obtain ⟨leap, _, hs⟩ := bindE hs
        obtain ⟨r', _, hs⟩ := bindE hs
        simp only [pure, Except.pure, Except.ok.injEq, Prod.mk.injEq] at hs
        obtain ⟨_, hacc⟩ := hs
        have hpl : progressed.links = c.filter.links := progress_links hp
        refine ⟨?_, ?_⟩
        · simp only
          rw [← hacc]
          exact sync_steerLoop _ _ _ _ _ _ (sync_progress h.sync hp)
        · simp only
          apply fresh_of_ids (ls := c.filter.links) _ h.fresh
          rw [← hacc, steerLoop_linkids]
          simp only
          rw [hpl]

end NtpVerif.PtpFilter
