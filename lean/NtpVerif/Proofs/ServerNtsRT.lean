/-
Whole-datagram form of the NTS answer round trip (C19): the extension-field area of a sealed answer —
authenticated fields, the NTS authenticator field, optional trailing fields — parsed by the client's
`ExtensionFieldData::deserialize` with the session's s2c key over the ideal-AEAD table.
-/
import NtpVerif.Proofs.ServerNts
import NtpVerif.Proofs.WireRT10

namespace NtpVerif.Wire

/-- the streamer over a sequence of frames followed by more data that is longer than the cut-off -/
theorem stream_frames_then (ver : Ver) (cutoff : Nat) (rest : Bytes) (hrest : cutoff < rest.length) :
    ∀ frs : List Frame, (∀ fr ∈ frs, fr.OK ver) → ∀ fuel off,
      streamAux ver cutoff Gen.EF_V4_UNENCRYPTED_MINIMUM_SIZE (fuel + frs.length) (flat frs ++ rest) off
        = itemsOf off frs ++ streamAux ver cutoff Gen.EF_V4_UNENCRYPTED_MINIMUM_SIZE fuel rest (off + (flat frs).length) := by
  intro frs
  induction frs with
  | nil => intro _ fuel off; simp [flat, itemsOf]
  | cons fr r ih =>
    intro hok fuel off
    have hfr := hok fr List.mem_cons_self
    have hr : ∀ x ∈ r, x.OK ver := fun x hx => hok x (List.mem_cons_of_mem _ hx)
    obtain ⟨hraw, hlen, hv4, _, _⟩ := hfr
    have e0 : fuel + (fr :: r).length = (fuel + r.length) + 1 := by simp only [List.length_cons]; omega
    rw [e0, streamAux_succ]
    have hl : ¬ (flat (fr :: r) ++ rest).length ≤ cutoff := by
      rw [List.length_append]; omega
    simp only [hl, if_false]
    have e1 : flat (fr :: r) ++ rest = fr.e ++ (flat r ++ rest) := by
      simp [flat, List.append_assoc]
    rw [e1, hraw (flat r ++ rest)]
    simp only
    rw [wireLength_of hv4, ← hlen]
    simp only [itemsOf, List.cons_append]
    congr 1
    have e2 : (fr.e ++ (flat r ++ rest)).drop fr.e.length = flat r ++ rest := by simp
    rw [e2, ih hr fuel (off + fr.e.length)]
    simp only [flat, List.length_append, Nat.add_assoc]

theorem efLoop_append (dec : Dec) (ctx : Ctx) (data : Bytes) (hs : Nat) (ver : Ver) :
    ∀ (a b : List Item) (st st1 : EFState), efLoop dec ctx data hs ver a st = .ok st1 →
      efLoop dec ctx data hs ver (a ++ b) st = efLoop dec ctx data hs ver b st1 := by
  intro a
  induction a with
  | nil => intro b st st1 h; simp only [efLoop, Except.ok.injEq] at h; subst h; rfl
  | cons it rest ih =>
    intro b st st1 h
    cases it with
    | err e => simp [efLoop, perr] at h
    | panic => simp [efLoop, rpanic] at h
    | fuel => simp [efLoop] at h
    | field off ty msg wl =>
      simp only [List.cons_append, efLoop] at h ⊢
      split at h
      · cases h
      · rename_i st' hst'
        exact ih b st' st1 h

/-- the NTS authenticator field as `encode_encrypted` writes it (16-octet nonce) -/
def encFieldBytes (nonce ct : Bytes) : Bytes :=
  toBE 2 tyEncrypted ++ toBE 2 (8 + nm4 nonce.length + nm4 ct.length) ++ encMsg nonce ct

theorem encMsg_length (nonce ct : Bytes) (hn : nonce.length = 16) : (encMsg nonce ct).length = 20 + ct.length := by
  simp [encMsg, toBE2, hn, zeros, nm4]; omega

theorem raw_encField (nonce ct rest : Bytes) (ver : Ver) (hn : nonce.length = 16) (hc4 : ct.length % 4 = 0)
    (hcl : ct.length ≤ 65000) :
    rawDeserialize (encFieldBytes nonce ct ++ rest) Gen.EF_V4_UNENCRYPTED_MINIMUM_SIZE ver
      = .ok (tyEncrypted, encMsg nonce ct) := by
  have h16 : nm4 nonce.length = 16 := by rw [hn]; decide
  have hct : nm4 ct.length = ct.length := nm4_of_mod hc4
  have hml := encMsg_length nonce ct hn
  have ha4 : (8 + 16 + ct.length) % 4 = 0 := by omega
  have := raw_of_framed Gen.EF_V4_UNENCRYPTED_MINIMUM_SIZE tyEncrypted (8 + 16 + ct.length) (encMsg nonce ct) rest ver
    (by decide) (by omega) (by omega) (by show 4 ≤ 8 + 16 + ct.length; omega) (fun _ => ha4)
    (by rw [hml, nm4_of_mod ha4]; omega)
  simp only [encFieldBytes, h16, hct]
  rw [this]
  congr 2
  apply List.take_of_length_le
  rw [hml]; omega

/-- **The client's `ExtensionFieldData::deserialize` over a sealed answer.**  The extension-field area consists of
    the frames of the authenticated fields, the authenticator field and the frames of trailing clear-text
    fields (NTPv5 padding; none under NTPv4).  With the table entry of the sealing — key `s2c`, associated data =
    everything before the authenticator — the client's parse succeeds: the fields before the authenticator are
    authenticated, the encrypted list is exactly the cookie fields, the trailing fields stay untrusted. -/
theorem efDeserialize_sealed (T : Table) (s2c nonce ct hdr : Bytes) (ver : Ver) (afrs tfrs : List Frame) (cs : List Bytes)
    (hao : ∀ fr ∈ afrs, fr.OK ver) (hto : ∀ fr ∈ tfrs, fr.OK ver) (htb : SufBig (macCutoff ver) [] tfrs)
    (hcs : ∀ b ∈ cs, CookieOk b) (hn : nonce.length = 16) (hc4 : ct.length % 4 = 0) (hcl : ct.length ≤ 65000)
    (hc16 : 16 ≤ ct.length) :
    efDeserialize (Table.decrypt (sealEntry s2c nonce (hdr ++ flat afrs) ct (cs.map cookieField).flatten :: T))
        (.key s2c) (hdr ++ (flat afrs ++ (encFieldBytes nonce ct ++ flat tfrs))) hdr.length ver
      = .ok { ef := { authenticated := afrs.map (·.f), encrypted := cs.map .cookie, untrusted := tfrs.map (·.f) },
              remaining := [], cookie := none, valid := true } := by
  have hml := encMsg_length nonce ct hn
  have h16 : nm4 nonce.length = 16 := by rw [hn]; decide
  have hctn : nm4 ct.length = ct.length := nm4_of_mod hc4
  have hEl : (encFieldBytes nonce ct).length = 24 + ct.length := by
    simp only [encFieldBytes, List.length_append, toBE_length, hml]; omega
  have hcut : macCutoff ver ≤ 24 := by cases ver <;> decide
  obtain ⟨E, hE⟩ : ∃ E, E = encFieldBytes nonce ct := ⟨_, rfl⟩
  have hElE : E.length = 24 + ct.length := by rw [hE]; exact hEl
  rw [← hE]
  obtain ⟨data, hdata⟩ : ∃ d, d = hdr ++ (flat afrs ++ (E ++ flat tfrs)) := ⟨_, rfl⟩
  rw [← hdata]
  have hl : data.length = hdr.length + ((flat afrs).length + (E.length + (flat tfrs).length)) := by
    simp [hdata, List.length_append]
  unfold efDeserialize
  rw [sliceP_of_le (by omega) (Nat.le_refl _)]
  have e1 : (data.drop hdr.length).take (data.length - hdr.length) = flat afrs ++ (E ++ flat tfrs) := by
    rw [hdata, List.drop_left]
    apply List.take_of_length_le
    simp only [List.length_append]; omega
  simp only [e1]
  -- the item stream
  unfold stream
  have hfa := flat_length_ge ver afrs hao
  have hft := flat_length_ge ver tfrs hto
  have hbody : (flat afrs ++ (E ++ flat tfrs)).length = (flat afrs).length + (E.length + (flat tfrs).length) := by
    simp [List.length_append]
  have hfuel : (flat afrs ++ (E ++ flat tfrs)).length + 1
      = ((E.length + (flat tfrs).length) + 1 + ((flat afrs).length - afrs.length)) + afrs.length := by
    rw [hbody]; omega
  rw [hfuel, stream_frames_then ver (macCutoff ver) (E ++ flat tfrs) (by rw [List.length_append, hElE]; omega)
    afrs hao _ 0]
  -- the authenticator item
  have hfuel2 : E.length + (flat tfrs).length + 1 + ((flat afrs).length - afrs.length)
      = (tfrs.length + ((flat tfrs).length - tfrs.length + E.length + ((flat afrs).length - afrs.length))) + 1 := by
    omega
  rw [hfuel2, streamAux_succ]
  have hl2 : ¬ (E ++ flat tfrs).length ≤ macCutoff ver := by rw [List.length_append, hElE]; omega
  simp only [hl2, if_false]
  rw [hE, raw_encField nonce ct (flat tfrs) ver hn hc4 hcl]
  simp only
  have hwl : wireLength (encMsg nonce ct) ver = some (24 + ct.length) := by
    rw [wireLength_of (by intro _; rw [hml]; omega)]
    congr 1
    rw [hml, show 4 + (20 + ct.length) = 24 + ct.length by omega]; exact nm4_of_mod (by omega)
  simp only [hwl]
  have hdrop : (encFieldBytes nonce ct ++ flat tfrs).drop (24 + ct.length) = flat tfrs := by
    rw [← hEl]; simp
  rw [hdrop]
  have htail := stream_of_frames ver (macCutoff ver) [] (by simp) tfrs hto htb
    (tfrs.length + ((flat tfrs).length - tfrs.length + (encFieldBytes nonce ct).length + ((flat afrs).length - afrs.length)))
    (0 + (flat afrs).length + (24 + ct.length)) (by rw [hEl]; omega)
  simp only [List.append_nil] at htail
  rw [htail]
  -- the field loop
  have hA := efLoop_frames (Table.decrypt (sealEntry s2c nonce (hdr ++ flat afrs) ct (cs.map cookieField).flatten :: T))
    (.key s2c) data hdr.length ver afrs hao 0 .init rfl
  rw [efLoop_append _ _ _ _ _ _ _ _ _ hA]
  simp only [efLoop]
  have haad : slice? data 0 (hdr.length + (0 + (flat afrs).length)) = some (hdr ++ flat afrs) := by
    rw [slice?_of_le (by omega) (by rw [hl]; omega)]
    simp only [List.drop_zero, Nat.sub_zero, Nat.zero_add, Option.some.injEq]
    rw [hdata, ← List.append_assoc, show hdr.length + (flat afrs).length = (hdr ++ flat afrs).length by simp]
    exact List.take_left
  rw [client_step_recovers_cookies T s2c nonce ct (hdr ++ flat afrs) data ver cs hdr.length (0 + (flat afrs).length)
    (24 + ct.length) _ hcs hn (by omega) haad]
  simp only
  rw [efLoop_frames _ (.key s2c) data hdr.length ver tfrs hto (0 + (flat afrs).length + (24 + ct.length)) _ rfl]
  simp only [EFState.init, EFData.empty, List.nil_append, Nat.zero_add]
  rw [sliceP_of_le (by rw [hl]; omega) (Nat.le_refl _)]
  have e2 : (data.drop (hdr.length + ((flat afrs).length + (24 + ct.length) + (flat tfrs).length))).take
      (data.length - (hdr.length + ((flat afrs).length + (24 + ct.length) + (flat tfrs).length))) = [] := by
    apply List.take_eq_nil_of_eq_nil
    apply List.drop_eq_nil_of_le
    rw [hl]; omega
  simp only [e2, if_true]

end NtpVerif.Wire

namespace NtpVerif.Wire

/-- NTPv4: a list of well-formed fields written with minimum size 16 (the authenticated fields) is a sequence of
    frames; what is read back from each frame re-encodes to the same bytes -/
theorem fields_frames_v4 : ∀ fs : List EF, (∀ f ∈ fs, f.FWF .v4) →
    ∃ frs : List Frame, frs.length = fs.length ∧ serializeFields 16 .v4 fs = .ok (flat frs) ∧
      (∀ fr ∈ frs, fr.OK .v4) ∧ serializeFields 16 .v4 (frs.map (·.f)) = .ok (flat frs) := by
  intro fs
  induction fs with
  | nil => intro _; exact ⟨[], rfl, rfl, by simp, rfl⟩
  | cons f rest ih =>
    intro h
    obtain ⟨fr, h1, h2, h3, _, _⟩ := field_rt .v4 16 f (h f (by simp)) (fun _ => rfl) (by decide) (by intro hv; cases hv)
    obtain ⟨frs, hl, hs, hok, hs2⟩ := ih (fun x hx => h x (by simp [hx]))
    refine ⟨fr :: frs, by simp [hl], ?_, ?_, ?_⟩
    · simp only [serializeFields, bind, Except.bind, pure, Except.pure, h1, hs, flat]
    · intro x hx
      simp only [List.mem_cons] at hx
      rcases hx with hx | hx
      · subst hx; exact h2
      · exact hok x hx
    · simp only [List.map_cons, serializeFields, bind, Except.bind, pure, Except.pure, h3, hs2, flat]

/-- **NTPv4 NTS answer, whole datagram, at the client.**  `P` is the answer: header `h`, authenticated fields `auth`
    (the echoed identifiers), the fresh cookies `cs` in the encrypted list, nothing in clear, no MAC.  The server
    serialises it with `Packet.serialize` under the s2c key (the cipher produced `nonce`, `ct`; the AEAD table
    records the sealing with everything before the authenticator as associated data).  Then the client's
    `NtpPacket::deserialize` of those bytes with the s2c key succeeds: same header, the fields read back from
    the authenticated part (which re-encode to the same bytes), exactly the fresh cookies in the encrypted list,
    nothing untrusted, no MAC — the client can authenticate the answer.
    Hypotheses about the 48 header octets (`hlen`, `hver`, `hdec`) are the header codec's forward round trip,
    which the wire cluster proves for NTPv5 (`headerV5_roundtrip`) but not for NTPv3/4. -/
theorem nts_answer_roundtrips_v4 (T : Table) (s2c nonce ct : Bytes) (h : HeaderV34) (auth : List EF) (cs : List Bytes)
    (hfw : ∀ f ∈ auth, f.FWF .v4) (hcs : ∀ b ∈ cs, CookieOk b) (hn : nonce.length = 16)
    (hc4 : ct.length % 4 = 0) (hcl : ct.length ≤ 65000) (hc16 : 16 ≤ ct.length)
    {hb bytes pt : Bytes} (hhb : h.serialize 4 = .ok hb) (hlen : hb.length = 48)
    (hver : ∃ b0 t, hb = b0 :: t ∧ (b0.toNat / 8) % 8 = 4) (hdec : HeaderV34.deserialize hb = .ok (h, 48))
    (hser : Packet.serialize { header := .v4 h,
                               ef := { authenticated := auth, encrypted := cs.map .cookie, untrusted := [] },
                               mac := none } (some (nonce, ct)) none = .ok (bytes, some pt)) :
    ∃ afrs : List Frame, serializeFields 16 .v4 auth = .ok (flat afrs) ∧
      serializeFields 16 .v4 (afrs.map (·.f)) = .ok (flat afrs) ∧
      pt = (cs.map cookieField).flatten ∧ bytes = hb ++ (flat afrs ++ encFieldBytes nonce ct) ∧
      parse (Table.decrypt (sealEntry s2c nonce (hb ++ flat afrs) ct pt :: T)) (.key s2c) bytes
        = .ok { header := .v4 h,
                ef := { authenticated := afrs.map (·.f), encrypted := cs.map .cookie, untrusted := [] },
                mac := none } none := by
  obtain ⟨afrs, _, hsa, hoka, hsa2⟩ := fields_frames_v4 auth hfw
  have hpt := serializeFields_cookies .v4 cs hcs
  have hctn : nm4 ct.length = ct.length := nm4_of_mod hc4
  -- what `Packet.serialize` wrote
  have hbytes : bytes = hb ++ (flat afrs ++ encFieldBytes nonce ct) ∧ pt = (cs.map cookieField).flatten := by
    simp only [Packet.serialize, hhb, EFData.serialize, hsa, encodeEncrypted, hpt, hctn, Nat.sub_self,
      serializeUntrusted, bind, Except.bind, pure, Except.pure] at hser
    by_cases hne : auth ≠ [] ∨ cs.map EF.cookie ≠ []
    · simp only [hne, ↓reduceIte, ne_eq, not_true_eq_false, Except.ok.injEq, Prod.mk.injEq,
        Option.some.injEq, List.append_nil] at hser
      obtain ⟨hb', hp⟩ := hser
      refine ⟨?_, hp.symm⟩
      rw [← hb']
      simp [encFieldBytes, encMsg, List.append_assoc, hctn]
    · simp only [hne, ↓reduceIte] at hser
      simp at hser
  obtain ⟨hbe, hpe⟩ := hbytes
  refine ⟨afrs, hsa, hsa2, hpe, hbe, ?_⟩
  subst hpe
  obtain ⟨b0, t, hb0, hv⟩ := hver
  have hEF := efDeserialize_sealed T s2c nonce ct hb .v4 afrs [] cs hoka (by simp) trivial hcs hn hc4 hcl hc16
  simp only [flat, List.append_nil, List.map_nil] at hEF
  have hdata : bytes = b0 :: (t ++ (flat afrs ++ encFieldBytes nonce ct)) := by rw [hbe, hb0]; rfl
  unfold parse parseR
  rw [hdata]
  simp only [hv]
  have h3 : ¬ (4 = 3) := by decide
  simp only [h3, if_false, if_true]
  rw [← hdata, hbe, headerV34_prefix hb _ hlen, hdec]
  simp only [bind, Except.bind, pure, Except.pure, parseEF]
  rw [← hlen, hEF]
  simp [constructPacket, pure, Except.pure]

end NtpVerif.Wire
