/-
Helper lemmas about the server model (`NtpVerif.Model.Server`) shared by the property files C15–C19, C21, C22.
-/
import NtpVerif.Model.Server

namespace NtpVerif.Server
open NtpVerif.RespSize

/-- the client is on the deny list, or not on the allow list -/
def Listed (env : Env) : Prop := env.inDeny = true ∨ env.inAllow = false

/-- the list action that applies to a listed client (deny list first) -/
def listAction (cfg : Config) (env : Env) : Act := if env.inDeny then cfg.denyAct else cfg.allowAct

/-- the request parsed (possibly failing authentication only) -/
def Parsed (req : Req) : Prop := req.parse = .ok ∨ req.parse = .dec

/-- facts the real parser guarantees about its output (checked on every harness case): NTPv3 packets carry no
    extension fields, hence no cookie -/
def ParserWf (req : Req) : Prop :=
  req.version = 3 → req.cookie = none ∧ req.parse ≠ .dec

/-- the synchronisation state is representable in a packet header and the key set is healthy
    (standing assumption of C22; `keysOk` is C27's invariant) -/
def InfoOk (info : Info) (env : Env) (version : Nat) : Prop :=
  info.keysOk = true ∧ durBad version info.rootDelay = false ∧
  ∃ d, rootDispersion env.rvar = some d ∧ durBad version d = false

theorem intendedAction_listed (cfg : Config) (env : Env) (h : Listed env) :
    intendedAction cfg env = ((listAction cfg env).toResp, .policy) := by
  unfold intendedAction listAction
  rcases h with h | h
  · simp [h]
  · by_cases hd : env.inDeny = true <;> simp [hd, h]

theorem intendedAction_pass (cfg : Config) (env : Env) (hd : env.inDeny = false) (ha : env.inAllow = true) :
    intendedAction cfg env = if env.rateOk then (.time, .policy) else (.ignore, .rate) := by
  unfold intendedAction
  cases env.rateOk <;> simp [hd, ha]

/-- `intended_action` never asks for a NAK -/
theorem intendedAction_ne_nak (cfg : Config) (env : Env) : (intendedAction cfg env).1 ≠ .nak := by
  unfold intendedAction
  split
  · cases cfg.denyAct <;> simp [Act.toResp]
  · split
    · cases cfg.allowAct <;> simp [Act.toResp]
    · split <;> simp

/-- what `respond` can produce -/
theorem respond_answer {cfg info env req action reason cookie a' reason' v nts r}
    (h : respond cfg info env req action reason cookie = .answer a' reason' v nts r) :
    v = req.version ∧ cfg.versions.contains req.version = true ∧
    nts = (cookie.isSome || action == .nak) ∧
    ((a' = action ∧ reason' = reason ∧ (nts = true ∨ cfg.requireNts = none)) ∨
     (a' = .deny ∧ reason' = .policy ∧ nts = false ∧ cfg.requireNts = some .deny)) := by
  unfold respond at h
  split at h
  · simp at h
  · rename_i hv
    simp only [] at h
    split at h
    · simp at h
    · rename_i gate a1 r1 hg
      split at h
      · simp at h
      · simp only [Inner.answer.injEq] at h
        obtain ⟨h1, h2, h3, h4, _⟩ := h
        subst h1 h2 h3 h4
        refine ⟨rfl, by simpa using hv, rfl, ?_⟩
        split at hg
        · simp at hg
        · simp only [Option.some.injEq, Prod.mk.injEq] at hg
          right
          rename_i hn _
          exact ⟨hg.1.symm, hg.2.symm, hn, by assumption⟩
        · simp only [Option.some.injEq, Prod.mk.injEq] at hg
          left
          refine ⟨hg.1.symm, hg.2.symm, ?_⟩
          rename_i hne1 hne2
          cases hn : (cookie.isSome || action == .nak)
          · right
            cases hr : cfg.requireNts with
            | none => rfl
            | some a =>
              cases a
              · exact (hne1 hn hr).elim
              · exact (hne2 hn hr).elim
          · left; rfl

/-- where an answer of `handle_inner` comes from -/
theorem handleInner_answer {cfg info env req a reason v nts r}
    (h : handleInner cfg info env req = .answer a reason v nts r) :
    req.client = true ∧ (intendedAction cfg env).1 ≠ .ignore ∧
    ∃ action0 reason0 cookie0, respond cfg info env req action0 reason0 cookie0 = .answer a reason v nts r ∧
      ((req.parse = .ok ∧ (action0, reason0) = intendedAction cfg env ∧ cookie0 = req.cookie) ∨
       (req.parse = .dec ∧ cookie0 = none ∧
         ((action0 = .nak ∧ reason0 = .crypto ∧ (intendedAction cfg env).1 ≠ .deny) ∨
          (action0 = .deny ∧ (action0, reason0) = intendedAction cfg env)))) := by
  unfold handleInner at h
  generalize hia : intendedAction cfg env = ia at h
  obtain ⟨act, rsn⟩ := ia
  simp only [] at h
  split at h
  · simp at h
  · rename_i hni
    split at h
    · simp at h
    · simp at h
    · split at h
      · simp at h
      · rename_i hc
        refine ⟨by simpa using hc, hni, act, rsn, req.cookie, h, .inl ⟨by assumption, rfl, rfl⟩⟩
    · split at h
      · simp at h
      · rename_i hc
        split at h
        · rename_i hnd
          exact ⟨by simp at hc; exact hc.1, hni, .nak, .crypto, none, h, .inr ⟨by assumption, rfl, .inl ⟨rfl, rfl, hnd⟩⟩⟩
        · rename_i hd
          have hd' : act = .deny := by simpa using hd
          exact ⟨by simp at hc; exact hc.1, hni, act, rsn, none, h, .inr ⟨by assumption, rfl, .inr ⟨hd', rfl⟩⟩⟩

/-- a request whose authentication failed is answered only if it identifies our draft version (NTPv5) -/
theorem handleInner_answer_draft {cfg info env req a reason v nts r}
    (h : handleInner cfg info env req = .answer a reason v nts r) (hd : req.parse = .dec) :
    req.draftOk = true := by
  unfold handleInner at h
  generalize intendedAction cfg env = ia at h
  obtain ⟨act, rsn⟩ := ia
  simp only [hd] at h
  split at h
  · simp at h
  · split at h
    · simp at h
    · rename_i hc
      simp at hc; exact hc.2

/-- an answered datagram: the statistics entry names the action that was built -/
theorem handle_respond {cfg info env req r n s} (h : handle cfg info env req = .respond r n s) :
    ∃ a reason v nts, handleInner cfg info env req = .answer a reason v nts r ∧
      serialize r env.bufLen = .ok n ∧ s = [⟨v, nts, reason, a⟩] := by
  unfold handle at h
  split at h
  · simp at h
  · simp at h
  · rename_i a reason v nts r' hi
    split at h
    · simp at h
    · rename_i n' hs
      simp only [Outcome.respond.injEq] at h
      obtain ⟨h1, h2, h3⟩ := h
      subst h1 h2 h3
      exact ⟨a, reason, v, nts, hi, hs, rfl⟩
    · simp at h

/-- every fresh cookie has the length of a cookie for the session's algorithm -/
theorem mem_freshCookies {alg : Nat} {req : Req} {f : RField} (hf : f ∈ freshCookies alg req) :
    f = .cookie (freshCookieLen alg) := by
  have hf' := List.mem_of_mem_take hf
  simp only [List.mem_filterMap] at hf'
  obtain ⟨x, _, hx⟩ := hf'
  cases x <;> simp [cookieFor] at hx <;> exact hx.2.symm

/-- the builder an action selects (`handle_inner`'s final `match`) -/
def build (info : Info) (env : Env) (req : Req) (cookie : Option Nat) : Resp → Built
  | .nak => nakResponse req
  | .deny => match cookie with
             | some _ => ntsDenyResponse req
             | none => .ok (denyResponse req)
  | .time => match cookie with
             | some alg => ntsTimestampResponse info env req alg
             | none => timestampResponse info env req
  | .ignore => .panic

/-- the datagram of an answer is what the builder for the recorded action produced -/
theorem respond_built {cfg info env req action reason cookie a' reason' v nts r}
    (h : respond cfg info env req action reason cookie = .answer a' reason' v nts r) :
    build info env req cookie a' = .ok r := by
  unfold respond at h
  split at h
  · simp at h
  · simp only [] at h
    split at h
    · simp at h
    · split at h
      · simp at h
      · rename_i hb
        simp only [Inner.answer.injEq] at h
        obtain ⟨h1, _, _, _, h5⟩ := h
        subst h1 h5
        unfold build
        exact hb

theorem respond_badversion (cfg : Config) (info : Info) (env : Env) (req : Req) (a : Resp) (r : Reason)
    (c : Option Nat) (hv : cfg.versions.contains req.version = false) :
    respond cfg info env req a r c = .done [⟨req.version, false, .policy, .ignore⟩] := by
  have : req.version ∉ cfg.versions := by simpa using hv
  unfold respond
  simp [this]

/-- datagrams that are dropped before any answer is built -/
theorem handleInner_dropped (cfg : Config) (info : Info) (env : Env) (req : Req)
    (h : req.parse = .err ∨ (Parsed req ∧ req.client = false) ∨
         (Parsed req ∧ cfg.versions.contains req.version = false)) :
    ∃ s, handleInner cfg info env req = .done s := by
  unfold handleInner
  generalize intendedAction cfg env = ia
  obtain ⟨act, rsn⟩ := ia
  simp only []
  split
  · exact ⟨_, rfl⟩
  · rcases h with h | ⟨hp, hc⟩ | ⟨hp, hv⟩
    · simp [h]
    · rcases hp with hp | hp <;> simp [hp, hc]
    · rcases hp with hp | hp
      · simp only [hp]
        split
        · exact ⟨_, rfl⟩
        · exact ⟨_, respond_badversion cfg info env req _ _ _ hv⟩
      · simp only [hp]
        split
        · exact ⟨_, rfl⟩
        · split <;> exact ⟨_, respond_badversion cfg info env req _ _ _ hv⟩

/-- everything known about an answered datagram -/
theorem handle_respond_full {cfg info env req r n s} (h : handle cfg info env req = .respond r n s) :
    ∃ a reason nts c, s = [⟨req.version, nts, reason, a⟩] ∧ build info env req c a = .ok r ∧
      serialize r env.bufLen = .ok n ∧ req.client = true ∧ cfg.versions.contains req.version = true ∧
      ((req.parse = .ok ∧ c = req.cookie) ∨ (req.parse = .dec ∧ c = none)) ∧
      (nts = true ↔ (c.isSome = true ∨ a = .nak)) := by
  obtain ⟨a, reason, v, nts, hi, hser, hs⟩ := handle_respond h
  obtain ⟨hcl, _, a0, r0, c0, hr, hsrc⟩ := handleInner_answer hi
  obtain ⟨hv, hver, hnts, hk⟩ := respond_answer hr
  have hb := respond_built hr
  refine ⟨a, reason, nts, c0, by rw [hs, hv], hb, hser, hcl, hver, ?_, ?_⟩
  · rcases hsrc with ⟨h1, _, h3⟩ | ⟨h1, h3, _⟩
    · exact .inl ⟨h1, h3⟩
    · exact .inr ⟨h1, h3⟩
  · rcases hk with ⟨h1, _, _⟩ | ⟨h1, _, h3, _⟩
    · rw [hnts, h1]
      cases c0.isSome <;> cases a0 <;> simp
    · rw [h3, h1]
      rw [h3] at hnts
      have : c0.isSome = false := by
        cases hc : c0.isSome
        · rfl
        · rw [hc] at hnts; simp at hnts
      simp [this]

theorem handle_of_done {cfg info env req s} (h : handleInner cfg info env req = .done s) :
    handle cfg info env req = .ignore s := by
  unfold handle; simp [h]

end NtpVerif.Server
