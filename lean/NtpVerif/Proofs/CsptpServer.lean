/- Theorems about the CSPTP server model (`handle_packet`). -/
import NtpVerif.Proofs.PtpWire
import NtpVerif.Model.CsptpServer
namespace NtpVerif.CsptpServer
open NtpVerif.PtpWire NtpVerif.Csptp

theorem orReturn_ok {α β : Type} {r : Except Fail α} {d : β} {k : α → Except Fail β} {o : β}
    (h : orReturn r d k = .ok o) : (∃ a, r = .ok a ∧ k a = .ok o) ∨ ((∃ e, r = .error e) ∧ o = d) := by
  unfold orReturn at h
  split at h
  · exact .inl ⟨_, rfl, h⟩
  · cases h
  · cases h; exact .inr ⟨⟨_, rfl⟩, rfl⟩

/-- what `handlePacket` did when it sent something on the event socket -/
theorem handlePacket_event {st : ServerState} {pkt : Bytes} {rx : Timestamp} {ev : Option Timestamp}
    {out : Out} {b : Bytes} (h : handlePacket st pkt rx ev = .ok out) (he : out.event = some b) :
    ∃ req tlvs resp, Csptp.deserialize pkt = .ok (req, tlvs) ∧ isRequest req tlvs = true ∧
      newResponse Gen.CSPTP_RESPONSE_BUF req tlvs rx st = .ok resp ∧
      resp.serialize (zeroBuf Gen.CSPTP_MAX_MESSAGE_SIZE) = .ok b := by
  unfold handlePacket at h
  rcases orReturn_ok h with ⟨⟨req, tlvs⟩, h1, h⟩ | ⟨_, rfl⟩
  rotate_left; · cases he
  simp only at h
  split at h
  · cases h; cases he
  rename_i hreq
  rcases orReturn_ok h with ⟨resp, h2, h⟩ | ⟨_, rfl⟩
  rotate_left; · cases he
  rcases orReturn_ok h with ⟨rb, h3, h⟩ | ⟨_, rfl⟩
  rotate_left; · cases he
  refine ⟨req, tlvs, resp, h1, by simpa using hreq, h2, ?_⟩
  have : out.event = some rb := by
    split at h
    · cases h; rfl
    · split at h
      · cases h
      · rcases orReturn_ok h with ⟨fu, _, h⟩ | ⟨_, rfl⟩
        rotate_left; · rfl
        rcases orReturn_ok h with ⟨fb, _, h⟩ | ⟨_, rfl⟩
        rotate_left; · rfl
        cases h; rfl
  rw [this] at he; cases he; exact h3

/-- what `handlePacket` did when it sent something on the general socket -/
theorem handlePacket_general {st : ServerState} {pkt : Bytes} {rx : Timestamp} {ev : Option Timestamp}
    {out : Out} {g : Bytes} (h : handlePacket st pkt rx ev = .ok out) (hg : out.general = some g) :
    ∃ req tlvs resp rb t respTlvs fu, Csptp.deserialize pkt = .ok (req, tlvs) ∧
      newResponse Gen.CSPTP_RESPONSE_BUF req tlvs rx st = .ok resp ∧
      out.event = some rb ∧ ev = some t ∧
      TlvSet.iter resp.suffix = .ok respTlvs ∧
      newFollowUp resp respTlvs t = .ok fu ∧
      fu.serialize (zeroBuf Gen.CSPTP_MAX_MESSAGE_SIZE) = .ok g := by
  unfold handlePacket at h
  rcases orReturn_ok h with ⟨⟨req, tlvs⟩, h1, h⟩ | ⟨_, rfl⟩
  rotate_left; · cases hg
  simp only at h
  split at h
  · cases h; cases hg
  rcases orReturn_ok h with ⟨resp, h2, h⟩ | ⟨_, rfl⟩
  rotate_left; · cases hg
  rcases orReturn_ok h with ⟨rb, h3, h⟩ | ⟨_, rfl⟩
  rotate_left; · cases hg
  cases ev with
  | none => cases h; cases hg
  | some t =>
  simp only at h
  split at h
  · cases h
  rename_i respTlvs hit
  rcases orReturn_ok h with ⟨fu, h4, h⟩ | ⟨_, rfl⟩
  rotate_left; · cases hg
  rcases orReturn_ok h with ⟨fb, h5, h⟩ | ⟨_, rfl⟩
  rotate_left; · cases hg
  cases h
  cases hg
  exact ⟨req, tlvs, resp, rb, t, respTlvs, fu, h1, h2, rfl, rfl, hit, h4, h5⟩

/-- the follow-up built by `newFollowUp` -/
theorem newFollowUp_eq {resp fu : Message} {ts : List Tlv} {t : Timestamp} (h : newFollowUp resp ts t = .ok fu) :
    fu = { header := { csptpHeader resp.header.domain resp.header.seqId with twoStep := true },
           body := .followUp t, suffix := [] } := by
  unfold newFollowUp at h
  split at h
  · cases h
  · cases h; rfl

theorem Message.deserialize_header_WF {b : Bytes} {m : Message} (h : Message.deserialize b = .ok m) :
    m.header.WF := by
  unfold Message.deserialize at h
  cases hd : Header.deserialize b with
  | error e => rw [hd] at h; cases h
  | ok dh =>
    rw [hd] at h
    simp only [bind, Except.bind] at h
    split at h; · cases h
    split at h; · cases h
    split at h; · cases h
    split at h; · cases h
    split at h; · cases h
    cases h
    exact (Header.deserialize_WF _ _ hd).1

theorem Csptp.deserialize_msg {b : Bytes} {m : Message} {tlvs : List Tlv}
    (h : Csptp.deserialize b = .ok (m, tlvs)) :
    Message.deserialize b = .ok m ∧ m.header.sdoId = SDO_ID ∧ m.header.major = 2 := by
  unfold Csptp.deserialize at h
  cases hd : Message.deserialize b with
  | error e => rw [hd] at h; cases h
  | ok m' =>
    rw [hd] at h
    simp only [bind, Except.bind] at h
    split at h; · cases h
    rename_i hc
    have hm : m' = m := by
      split at h
      · split at h; · cases h
        split at h; · cases h
        cases h; rfl
      · cases h; rfl
      · cases h
    subst hm
    refine ⟨rfl, ?_⟩
    omega

theorem TlvBuilder.add_eq {b b' : TlvBuilder} {t : Tlv} (h : b.add t = .ok b') :
    b'.cap = b.cap ∧ b'.used = b.used ++ t.enc ∧ t.value.length < 2 ^ 16 := by
  unfold TlvBuilder.add Tlv.serialize at h
  split at h; · cases h
  split at h; · cases h
  cases h
  exact ⟨rfl, rfl, by omega⟩

/-- the status TLV the server adds -/
def statusOf (st : ServerState) : StatusTlv :=
  { priority1 := st.priority1, quality := st.quality, priority2 := st.priority2,
    stepsRemoved := st.stepsRemoved, utcOffset := 0, identity := st.identity }

/-- header of the server's response -/
def respHeader (req : Message) (st : ServerState) : Header :=
  { csptpHeader req.header.domain req.header.seqId with
      leap61 := st.leap = 1, leap59 := st.leap = 2, utcOffsetValid := false,
      ptpTimescale := st.ptpTimescale, timeTraceable := st.timeTraceable,
      freqTraceable := st.freqTraceable, twoStep := true }

theorem newResponse_eq {cap : Nat} {req resp : Message} {tlvs : List Tlv} {rx : Timestamp} {st : ServerState}
    (h : newResponse cap req tlvs rx st = .ok resp) :
    ∃ rt extra, tlvs.findSome? RequestTlv.tryFrom = some rt ∧
      (if rt.status then ∃ s, StatusTlv.toTlv (statusOf st) = .ok s ∧ extra = [s] else extra = []) ∧
      resp = { header := respHeader req st, body := .sync ⟨0, 0⟩,
               suffix := encTlvs (ResponseTlv.toTlv ⟨rx, req.header.correction⟩ :: extra) } := by
  unfold newResponse at h
  split at h; · cases h
  split at h; · cases h
  rename_i rt hrt
  simp only [bind, Except.bind] at h
  cases h1 : (TlvBuilder.new cap).add (ResponseTlv.toTlv ⟨rx, req.header.correction⟩) with
  | error e => rw [h1] at h; cases h
  | ok b1 =>
    rw [h1] at h
    obtain ⟨_, hu1, _⟩ := TlvBuilder.add_eq h1
    simp only at h
    cases hs : rt.status with
    | false =>
      rw [hs] at h
      simp only [pure, Except.pure, Bool.false_eq_true, ite_false] at h
      cases h
      refine ⟨rt, [], hrt, by simp [hs], ?_⟩
      simp [respHeader, TlvBuilder.build, hu1, TlvBuilder.new, encTlvs]
    | true =>
      rw [hs] at h
      simp only [ite_true] at h
      cases h2 : StatusTlv.toTlv { priority1 := st.priority1, quality := st.quality,
                                           priority2 := st.priority2, stepsRemoved := st.stepsRemoved,
                                           utcOffset := 0, identity := st.identity } with
      | error e => rw [h2] at h; cases h
      | ok s =>
        rw [h2] at h
        simp only at h
        cases h3 : b1.add s with
        | error e => rw [h3] at h; cases h
        | ok b2 =>
          rw [h3] at h
          obtain ⟨_, hu2, _⟩ := TlvBuilder.add_eq h3
          simp only [pure, Except.pure] at h
          cases h
          refine ⟨rt, [s], hrt, by simp [hs, statusOf, h2], ?_⟩
          simp [respHeader, TlvBuilder.build, hu1, hu2, TlvBuilder.new, encTlvs]

theorem ResponseTlv.value_length (r : ResponseTlv) : (ResponseTlv.toTlv r).value.length = 18 := by
  simp [ResponseTlv.toTlv, Timestamp.bytes_length, beBytes_length]

theorem ResponseTlv.tryFrom_toTlv (r : ResponseTlv) (ht : r.ingress.WF)
    (hc : -9223372036854775808 ≤ r.correction ∧ r.correction ≤ 9223372036854775807) :
    ResponseTlv.tryFrom (ResponseTlv.toTlv r) = some r := by
  unfold ResponseTlv.tryFrom
  rw [if_pos (by simp [ResponseTlv.toTlv]), if_neg (by rw [ResponseTlv.value_length]; omega)]
  have h1 : Timestamp.deserialize (ResponseTlv.toTlv r).value = .ok r.ingress := by
    simp only [ResponseTlv.toTlv]; exact Timestamp.deser_bytes _ _ ht
  have h2 : (ResponseTlv.toTlv r).value.drop 10 = beBytes 8 (ofI64 r.correction) := by
    simp only [ResponseTlv.toTlv]
    rw [← Timestamp.bytes_length r.ingress, List.drop_left]
  rw [h1, h2]
  simp only [beBytes, be8]
  rw [Nat.mod_eq_of_lt (ofI64_lt _), toI64_ofI64 _ hc]

theorem StatusTlv.value_length {s : StatusTlv} {t : Tlv} (h : StatusTlv.toTlv s = .ok t) :
    t.type = TLV_STATUS ∧ t.value.length = 18 := by
  unfold StatusTlv.toTlv ClockQuality.bytes at h
  simp only [bind, Except.bind] at h
  split at h; · cases h
  rename_i v hv
  split at hv; · cases hv
  simp only [pure, Except.pure] at h hv
  cases h; cases hv
  simp [beBytes_length]

/-- C45 main theorem (event socket): whatever `handle_packet` sends on the event socket is the answer to a
    well-formed CSPTP request, parses back (even with trailing bytes) as a two-step CSPTP Sync that echoes
    the request's domain and sequence id, and its first TLV is a RESPONSE TLV carrying exactly the receive
    timestamp handed over by the socket and the request's correction field. -/
theorem response_parses_back {st : ServerState} {pkt : Bytes} {rx : Timestamp} {ev : Option Timestamp}
    {out : Out} {b : Bytes} (h : handlePacket st pkt rx ev = .ok out) (he : out.event = some b)
    (hrx : rx.WF) (extra : Bytes) :
    ∃ req tlvs resp rest, Csptp.deserialize pkt = .ok (req, tlvs) ∧ isRequest req tlvs = true ∧
      Message.deserialize (b ++ extra) = .ok resp ∧
      resp.header = respHeader req st ∧ resp.body = .sync ⟨0, 0⟩ ∧
      TlvSet.iter resp.suffix = .ok (ResponseTlv.toTlv ⟨rx, req.header.correction⟩ :: rest) ∧
      ResponseTlv.tryFrom (ResponseTlv.toTlv ⟨rx, req.header.correction⟩) = some ⟨rx, req.header.correction⟩ ∧
      (∀ t ∈ rest, t.type = TLV_STATUS) := by
  obtain ⟨req, tlvs, resp, hd, hreq, hnr, hser⟩ := handlePacket_event h he
  obtain ⟨rt, ex, _, hex, hresp⟩ := newResponse_eq hnr
  obtain ⟨hmd, _, _⟩ := Csptp.deserialize_msg hd
  have hwf := Message.deserialize_header_WF hmd
  obtain ⟨_, _, _, hdom, hcorr, _, hseq, _⟩ := hwf
  have hexl : ∀ t ∈ ex, t.type = TLV_STATUS ∧ t.value.length = 18 := by
    intro t ht
    split at hex
    · obtain ⟨s, hs, rfl⟩ := hex
      simp at ht; subst ht
      exact StatusTlv.value_length hs
    · subst hex; cases ht
  have hexn : ex.length ≤ 1 := by
    split at hex
    · obtain ⟨s, _, rfl⟩ := hex; simp
    · subst hex; simp
  let r : ResponseTlv := ⟨rx, req.header.correction⟩
  have hall : ∀ t ∈ ResponseTlv.toTlv r :: ex, t.type < 2 ^ 16 ∧ t.value.length = 18 := by
    intro t ht
    simp only [List.mem_cons] at ht
    rcases ht with rfl | ht
    · exact ⟨by simp [ResponseTlv.toTlv, TLV_RESPONSE, Gen.CSPTP_TLV_RESPONSE], ResponseTlv.value_length _⟩
    · obtain ⟨h1, h2⟩ := hexl t ht
      exact ⟨by rw [h1]; simp [TLV_STATUS, Gen.CSPTP_TLV_STATUS], h2⟩
  have hlen : (ResponseTlv.toTlv r :: ex).length < (encTlvs (ResponseTlv.toTlv r :: ex)).length + 1 := by
    simp only [encTlvs, List.length_append, List.length_cons]
    have : (ResponseTlv.toTlv r).enc.length = 22 := by
      simp [Tlv.enc, beBytes_length, ResponseTlv.value_length]
    omega
  have hsfx : TlvSet.deserialize resp.suffix = .ok resp.suffix := by
    rw [hresp]; simp only [TlvSet.deserialize]
    rw [tlvLoop_enc _ _ (fun t ht => by obtain ⟨_, h2⟩ := hall t ht; omega) hlen]
  have hiter : TlvSet.iter resp.suffix = .ok (ResponseTlv.toTlv r :: ex) := by
    rw [hresp]; simp only [TlvSet.iter]
    exact iterLoop_enc _ _ (fun t ht => by obtain ⟨h1, h2⟩ := hall t ht; exact ⟨h1, by omega⟩) hlen
  have hw : resp.WF := by
    rw [hresp]
    refine ⟨⟨?_, ?_, ?_, ?_, ?_, ⟨?_, ?_⟩, ?_, ?_⟩, ?_⟩ <;>
      simp [respHeader, csptpHeader, SDO_ID, Gen.CSPTP_SDO_ID, Body.WF, Timestamp.WF, hdom] <;> omega
  have hpl : resp.body.plain = true := by rw [hresp]; rfl
  refine ⟨req, tlvs, resp, ex, hd, hreq, Message.deser_ser resp _ b extra hw hpl hsfx hser, ?_, ?_, hiter,
    ResponseTlv.tryFrom_toTlv r hrx hcorr, fun t ht => (hexl t ht).1⟩
  · rw [hresp]
  · rw [hresp]

/-- C45 (general socket): a datagram goes out on the general socket only after the event send succeeded
    with send timestamp `t`; it parses back as a CSPTP Follow_Up with the request's domain and sequence id
    whose precise origin timestamp is exactly `t`, with an empty suffix. -/
theorem follow_up_parses_back {st : ServerState} {pkt : Bytes} {rx : Timestamp} {ev : Option Timestamp}
    {out : Out} {g : Bytes} (h : handlePacket st pkt rx ev = .ok out) (hg : out.general = some g)
    (hev : ∀ t, ev = some t → t.WF) (extra : Bytes) :
    ∃ req tlvs t rb, Csptp.deserialize pkt = .ok (req, tlvs) ∧ ev = some t ∧ out.event = some rb ∧
      Message.deserialize (g ++ extra) =
        .ok { header := { csptpHeader req.header.domain req.header.seqId with twoStep := true },
              body := .followUp t, suffix := [] } := by
  obtain ⟨req, tlvs, resp, rb, t, respTlvs, fu, hd, hnr, hevt, hevs, _, hfu, hser⟩ := handlePacket_general h hg
  obtain ⟨rt, ex, _, _, hresp⟩ := newResponse_eq hnr
  obtain ⟨hmd, _, _⟩ := Csptp.deserialize_msg hd
  obtain ⟨_, _, _, hdom, _, _, hseq, _⟩ := Message.deserialize_header_WF hmd
  have hfe := newFollowUp_eq hfu
  have hrd : resp.header.domain = req.header.domain := by rw [hresp]; rfl
  have hrs : resp.header.seqId = req.header.seqId := by rw [hresp]; rfl
  rw [hrd, hrs] at hfe
  have htw := hev t hevs
  have hw : fu.WF := by
    rw [hfe]
    refine ⟨⟨?_, ?_, ?_, ?_, ?_, ⟨?_, ?_⟩, ?_, ?_⟩, ?_⟩ <;>
      simp [csptpHeader, SDO_ID, Gen.CSPTP_SDO_ID, Body.WF, hdom, htw] <;> omega
  have hpl : fu.body.plain = true := by rw [hfe]; rfl
  have hsfx : TlvSet.deserialize fu.suffix = .ok fu.suffix := by rw [hfe]; rfl
  refine ⟨req, tlvs, t, rb, hd, hevs, hevt, ?_⟩
  rw [← hfe]
  exact Message.deser_ser fu _ g extra hw hpl hsfx hser

def exState : ServerState :=
  { leap := 1, priority1 := 128, quality := ⟨6, .named 0x21, 0x4e5d⟩, priority2 := 128, stepsRemoved := 0,
    identity := 0x0102030405060708, ptpTimescale := true, timeTraceable := true, freqTraceable := false }

/-- the request a client builds (`new_request`), serialised -/
def exRequest : Bytes :=
  match newRequest 5 77 with
  | .ok m => (m.serialize (zeroBuf 512)).toOption.getD []
  | .error _ => []

/-- non-vacuity: the request is answered on both sockets -/
theorem c45_nonvacuous : (handlePacket exState exRequest ⟨10, 20⟩ (some ⟨10, 30⟩)).toOption.map
    (fun o => (o.event.isSome, o.general.isSome)) = some (true, true) := by decide +kernel

/-- the same request followed by an empty PAD-like TLV (type 0x8000?, length 0): accepted by the fixed
    parser, rejected by the unfixed one (finding F-C41) -/
theorem c41_counterexample : (Message.deserialize (exRequest.set 3 0x38 ++ [0x80, 0x08, 0, 0])).toOption.isSome = true ∧
          (Message.deserializeOrig (exRequest.set 3 0x38 ++ [0x80, 0x08, 0, 0])).toOption.isSome = false := by
  decide +kernel

/-- nanoseconds = 10^9 is accepted by the unfixed timestamp parser, rejected by the fixed one (F-C44b) -/
theorem c44_counterexample : (Timestamp.deserializeOrig ([0,0,0,0,0,1] ++ beBytes 4 1000000000)).toOption.isSome = true ∧
          (Timestamp.deserialize ([0,0,0,0,0,1] ++ beBytes 4 1000000000)).toOption.isSome = false := by
  decide +kernel

end NtpVerif.CsptpServer
