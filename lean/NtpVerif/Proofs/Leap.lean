/- Counting lemmas for `voteLeap`. -/
import NtpVerif.Model.Leap

namespace NtpVerif.Leap

/-- number of occurrences of an indicator (specification-side counting) -/
def cnt (l : LI) (sel : List LI) : Nat := sel.count l

theorem cnt_nil (l : LI) : cnt l [] = 0 := rfl

theorem cnt_cons (l a : LI) (r : List LI) : cnt l (a :: r) = cnt l r + (if a = l then 1 else 0) := by
  simp [cnt, List.count_cons]

/-- the loop panics exactly on lists containing `Unsynchronized` -/
theorem tally_none_iff (sel : List LI) (t : Tally) : tally sel t = none ↔ LI.unsync ∈ sel := by
  induction sel generalizing t with
  | nil => simp [tally]
  | cons a r ih => cases a <;> simp [tally, ih]

/-- otherwise the counters are the occurrence counts -/
theorem tally_some (sel : List LI) (t t' : Tally) (h : tally sel t = some t') :
    t'.vnone = t.vnone + cnt .noWarning sel ∧ t'.v61 = t.v61 + cnt .leap61 sel ∧
    t'.v59 = t.v59 + cnt .leap59 sel ∧ t'.vunk = t.vunk + cnt .unknown sel ∧
    sel.length = cnt .noWarning sel + cnt .leap61 sel + cnt .leap59 sel + cnt .unknown sel := by
  induction sel generalizing t with
  | nil => simp only [tally, Option.some.injEq] at h; subst h; simp [cnt_nil]
  | cons a r ih =>
    cases a <;> simp only [tally] at h
    all_goals first
      | (cases h; done)
      | (have := ih _ h
         simp only [cnt_cons, List.length_cons] at this ⊢
         simp only [reduceCtorEq, if_false, if_true] at this ⊢
         omega)

theorem cnt_perm {a b : List LI} (h : a.Perm b) (l : LI) : cnt l a = cnt l b := h.count_eq l

end NtpVerif.Leap
