/- C43: helper lemmas about the link filter (`Model.PtpFilter`): what `measurement` does to the links, the
   activity decisions, the consensus quorum, and what `steer_clocks` records. -/
import NtpVerif.Model.PtpFilter
import NtpVerif.Proofs.EstimatorTotal

set_option linter.unusedSimpArgs false
set_option linter.unusedVariables false

namespace NtpVerif.PtpFilter
open NtpVerif.Estimator NtpVerif.PtpCtrl

theorem bindE {ε β γ : Type} {x : Except ε β} {f : β → Except ε γ} {y : γ} (h : (x >>= f) = .ok y) :
    ∃ a, x = .ok a ∧ f a = .ok y := by
  cases x with
  | error e => simp [bind, Except.bind] at h
  | ok a => exact ⟨a, rfl, h⟩

theorem liftE_ok {β : Type} {x : R β} {y : β} (h : liftE x = .ok y) : x = .ok y := by
  cases x with
  | error e => simp [liftE] at h
  | ok a => simp [liftE] at h; rw [h]

/-! ### lists -/

theorem find?_set_findIdx {β : Type} (p : β → Bool) :
    ∀ (xs : List β) (i : Nat) (y : β), xs.findIdx? p = some i → p y = true →
      (xs.set i y).find? p = some y
  | [], i, y, h, _ => by simp at h
  | x :: rest, i, y, h, hy => by
    rw [List.findIdx?_cons] at h
    by_cases hx : p x = true
    · simp only [hx, if_true, Option.some.injEq] at h
      subst h
      simp [List.find?_cons, hy]
    · have hx' : p x = false := by simpa using hx
      simp only [hx', Bool.false_eq_true, if_false, Option.map_eq_some_iff] at h
      obtain ⟨j, hj, rfl⟩ := h
      simp only [List.set_cons_succ, List.find?_cons, hx']
      exact find?_set_findIdx p rest j y hj hy

theorem find?_of_findIdx {β : Type} (p : β → Bool) :
    ∀ (xs : List β) (i : Nat), xs.findIdx? p = some i → ∃ x, xs.find? p = some x ∧ xs[i]? = some x
  | [], i, h => by simp at h
  | x :: rest, i, h => by
    rw [List.findIdx?_cons] at h
    by_cases hx : p x = true
    · simp only [hx, if_true, Option.some.injEq] at h
      subst h
      exact ⟨x, by simp [List.find?_cons, hx], by simp⟩
    · have hx' : p x = false := by simpa using hx
      simp only [hx', Bool.false_eq_true, if_false, Option.map_eq_some_iff] at h
      obtain ⟨j, hj, rfl⟩ := h
      obtain ⟨y, h1, h2⟩ := find?_of_findIdx p rest j hj
      exact ⟨y, by simp [List.find?_cons, hx', h1], by simpa using h2⟩

/-! ### `note` -/

theorem noteLink_spec (est : E) (l0 : FLink) (fwd : Bool) (v u : F64) :
    let l := noteLink est l0 fwd v u
    l.id = l0.id ∧ l.active = l0.active ∧ (l.tracked = none ↔ l0.tracked = none) ∧
    (l.ext = none ↔ l0.ext = none) ∧
    (∀ e0, l0.ext = some e0 → ∃ e, l.ext = some e ∧ e.usable = e0.usable ∧ e.rootDelay = e0.rootDelay ∧
      e.leap = e0.leap) := by
  simp only
  unfold noteLink
  simp only
  split
  · rename_i delay noise e he1 he2
    refine ⟨rfl, rfl, by simp, ?_, ?_⟩
    · constructor
      · intro hc; simp at hc
      · intro hc; rw [hc] at he2; cases he2
    · intro e0 he0
      rw [he0] at he2
      cases he2
      exact ⟨_, rfl, rfl, rfl, rfl⟩
  · refine ⟨rfl, rfl, by simp, Iff.rfl, ?_⟩
    intro e0 he0
    exact ⟨e0, he0, rfl, rfl, rfl⟩

theorem note_spec {f : Filter} {id : LinkId} {fwd : Bool} {v u : F64} {i : Nat} {l : FLink} {g : Filter}
    (h : f.note id fwd v u = some (i, l, g)) :
    ∃ l0, f.links.find? (fun l => l.id == id) = some l0 ∧
      f.links.findIdx? (fun l => l.id == id) = some i ∧ g = setLink f i l ∧
      l = noteLink f.est l0 fwd v u := by
  unfold Filter.note at h
  split at h
  · rename_i i' l0 hi hl0
    simp only [findLinkIdx] at hi
    simp only [Option.some.injEq, Prod.mk.injEq] at h
    obtain ⟨rfl, rfl, rfl⟩ := h
    exact ⟨l0, hl0, hi, rfl, rfl⟩
  · cases h

theorem note_id {f : Filter} {id : LinkId} {fwd : Bool} {v u : F64} {i : Nat} {l : FLink} {g : Filter}
    (h : f.note id fwd v u = some (i, l, g)) : (l.id == id) = true := by
  obtain ⟨l0, hl0, _, _, rfl⟩ := note_spec h
  rw [(noteLink_spec f.est l0 fwd v u).1]
  exact List.find?_some (p := fun l : FLink => l.id == id) hl0

/-! ### `measurement` -/

theorem measurement_spec {f f' : Filter} {cfg : Cfg} {id : LinkId} {fwd : Bool} {v u : F64}
    (h : f.measurement cfg id fwd v u = .ok f') :
    ∃ i l g, f.note id fwd v u = some (i, l, g) ∧
      ((l.estimates = none ∧ f' = g) ∨
       (∃ delay noise verd, l.estimates = some (delay, noise) ∧ g.judge cfg l = .ok verd ∧
          f'.links = g.links.set i { l with active := verd.flag l.active })) := by
  unfold Filter.measurement at h
  split at h
  · cases h
  · rename_i i l g hn
    refine ⟨i, l, g, hn, ?_⟩
    split at h
    · rename_i he
      cases h
      left; exact ⟨he, rfl⟩
    · rename_i delay noise he
      right
      obtain ⟨verd, hv, h⟩ := bindE h
      obtain ⟨est1, h1, h⟩ := bindE h
      obtain ⟨est2, h2, h⟩ := bindE h
      simp only [pure, Except.pure, Except.ok.injEq] at h
      subst h
      exact ⟨delay, noise, verd, he, hv, rfl⟩

/-- the link's flag after a successful `measurement` -/
theorem measurement_active {f f' : Filter} {cfg : Cfg} {id : LinkId} {fwd : Bool} {v u : F64}
    (h : f.measurement cfg id fwd v u = .ok f') :
    ∃ i l g, f.note id fwd v u = some (i, l, g) ∧
      ((l.estimates = none ∧ f'.linkActive id = .ok l.active) ∨
       (∃ delay noise verd, l.estimates = some (delay, noise) ∧ g.judge cfg l = .ok verd ∧
          f'.linkActive id = .ok (verd.flag l.active))) := by
  obtain ⟨i, l, g, hn, hcase⟩ := measurement_spec h
  obtain ⟨l0, hl0, hi, hg, _⟩ := note_spec hn
  have hp : (l.id == id) = true := note_id hn
  refine ⟨i, l, g, hn, ?_⟩
  rcases hcase with ⟨he, rfl⟩ | ⟨delay, noise, verd, he, hv, hl⟩
  · left
    refine ⟨he, ?_⟩
    rw [hg]
    unfold Filter.linkActive setLink
    simp only
    rw [find?_set_findIdx _ _ _ _ hi hp]
  · right
    refine ⟨delay, noise, verd, he, hv, ?_⟩
    unfold Filter.linkActive
    rw [hl, hg]
    unfold setLink
    simp only [List.set_set]
    rw [find?_set_findIdx _ _ _ _ hi (by exact hp)]

/-! ### windows -/

theorem offsetWindow_some {l : FLink} {cfg : Cfg} {est : E} {w : Window}
    (h : offsetWindow l cfg est = .ok (some w)) :
    ∃ e delay noise, l.ext = some e ∧ e.usable = true ∧ e.offsets.asRef.isEmpty = false ∧
      l.estimates = some (delay, noise) ∧ F64.lt (halfWindow cfg e delay noise) cfg.maxW = true ∧
      F64.ge (halfWindow cfg e delay noise) F64.zero = true ∧
      ∃ x, w = ⟨F64.sub x (halfWindow cfg e delay noise), F64.add x (halfWindow cfg e delay noise)⟩ := by
  unfold offsetWindow at h
  split at h
  · cases h
  · rename_i e he
    split at h
    · cases h
    · rename_i hcond
      simp only [Bool.or_eq_true, Bool.not_eq_eq_eq_not, Bool.not_true, not_or, Bool.not_eq_true,
        Bool.not_eq_false] at hcond
      obtain ⟨iv, hiv, h⟩ := bindE h
      cases iv with
      | none => simp [pure, Except.pure] at h
      | some io =>
        simp only [] at h
        split at h
        · simp [pure, Except.pure] at h
        · rename_i delay noise hest
          split at h
          · rename_i hlt
            simp only [Bool.and_eq_true] at hlt
            simp only [pure, Except.pure, Except.ok.injEq, Option.some.injEq] at h
            exact ⟨e, delay, noise, he, hcond.2, hcond.1, hest, hlt.2, hlt.1, _, h.symm⟩
          · simp [pure, Except.pure] at h

theorem judge_use_external {g : Filter} {cfg : Cfg} {l : FLink} (hext : l.ext.isSome)
    (h : g.judge cfg l = .ok .use) :
    ∃ w cw, offsetWindow l cfg g.est = .ok (some w) ∧ consensus g cfg = .ok (some cw) ∧
      w.overlaps cw = true := by
  unfold Filter.judge at h
  cases hx : l.ext with
  | none => rw [hx] at hext; cases hext
  | some e =>
    simp only [hx] at h
    obtain ⟨ours, ho, h⟩ := bindE h
    obtain ⟨cons, hc, h⟩ := bindE h
    simp only [pure, Except.pure, Except.ok.injEq] at h
    cases cons with
    | none => simp [verdict] at h
    | some cw =>
      cases ours with
      | none => simp [verdict] at h
      | some w =>
        by_cases hov : w.overlaps cw = true
        · exact ⟨w, cw, ho, hc, hov⟩
        · simp [verdict, hov] at h

theorem judge_internal {g : Filter} {cfg : Cfg} {l : FLink} (hext : l.ext = none) :
    g.judge cfg l = .ok .use := by
  unfold Filter.judge
  rw [hext]
  rfl

theorem flag_true_of_inactive {v : Verdict} (h : v.flag false = true) : v = .use := by
  cases v <;> simp [Verdict.flag] at h ⊢

/-! ### the quorum behind a consensus window -/

def starts (bs : List Bound) : Nat := bs.countP fun b => !b.2

theorem sweep_bound : ∀ (bs : List Bound) (s s' : Sweep), sweep s bs = some s' →
    s.maxlow ≤ s.cur + starts bs + s.maxlow ∧ s'.maxlow ≤ max s.maxlow (s.cur + starts bs) ∧
    s'.cur ≤ s.cur + starts bs
  | [], s, s', h => by
    simp only [sweep, Option.some.injEq] at h
    subst h
    simp [starts]; omega
  | b :: rest, s, s', h => by
    simp only [sweep] at h
    cases hs : sweepStep s b with
    | none => simp [hs] at h
    | some s1 =>
      simp only [hs, Option.bind_some] at h
      obtain ⟨_, h2, h3⟩ := sweep_bound rest s1 s' h
      unfold sweepStep at hs
      cases hb : b.2 with
      | false =>
        simp only [hb, Bool.not_false, if_true, Option.some.injEq] at hs
        have hst : starts (b :: rest) = starts rest + 1 := by simp [starts, List.countP_cons, hb]
        split at hs
        · subst hs
          simp only at h2 h3
          rw [hst]; omega
        · subst hs
          simp only at h2 h3
          rw [hst]; omega
      | true =>
        simp only [hb, Bool.not_true, Bool.false_eq_true, if_false] at hs
        have hst : starts (b :: rest) = starts rest := by simp [starts, List.countP_cons, hb]
        rw [hst]
        by_cases hgt : s.cur > s.maxhigh
        · simp only [hgt, if_true] at hs
          by_cases hz : s.cur = 0
          · simp [hz] at hs
          · simp only [hz, if_false, Option.some.injEq] at hs
            subst hs
            simp only at h2 h3
            omega
        · simp only [hgt, if_false] at hs
          by_cases hz : s.cur = 0
          · simp [hz] at hs
          · simp only [hz, if_false, Option.some.injEq] at hs
            subst hs
            simp only at h2 h3
            omega

theorem starts_boundsOf (ws : List (Option Window)) : starts (boundsOf ws) = (ws.filterMap id).length := by
  unfold boundsOf starts
  induction ws.filterMap id with
  | nil => rfl
  | cons w rest ih =>
    simp only [List.flatMap_cons, List.countP_append, List.length_cons]
    rw [ih]
    simp [List.countP_cons]
    omega

/-- a consensus window exists only if at least `minimum_agreeing_sources` links have a window -/
theorem consensusOf_quorum {cfg : Cfg} {bounds : List Bound} {w : Window}
    (h : consensusOf cfg bounds = .ok (some w)) : cfg.minAgree ≤ starts bounds := by
  unfold consensusOf at h
  split at h
  · cases h
  · rename_i s hs
    split at h
    · cases h
    · split at h
      · rename_i hq
        have := (sweep_bound _ _ _ hs).2.1
        have hp : starts (bounds.mergeSort boundLe) = starts bounds := by
          unfold starts
          exact (List.mergeSort_perm bounds boundLe).countP_eq _
        rw [hp] at this
        have h0 : ({} : Sweep).maxlow = 0 := rfl
        have h1 : ({} : Sweep).cur = 0 := rfl
        simp only [h0, h1, Nat.zero_add] at this
        omega
      · cases h

theorem consensus_quorum {g : Filter} {cfg : Cfg} {cw : Window} (h : consensus g cfg = .ok (some cw)) :
    ∃ ws, windows g cfg = .ok ws ∧ cfg.minAgree ≤ (ws.filterMap id).length := by
  unfold consensus at h
  obtain ⟨ws, hws, h⟩ := bindE h
  exact ⟨ws, hws, by rw [← starts_boundsOf]; exact consensusOf_quorum h⟩

/-! ### no sleeping internal untracked link -/

/-- every link without tracking and without external state is active -/
def NoSleeper (f : Filter) : Prop :=
  ∀ l ∈ f.links, l.tracked = none → l.ext = none → l.active = true

theorem noSleeper_of_links {f g : Filter} (h : g.links = f.links) (hf : NoSleeper f) : NoSleeper g := by
  intro l hl; rw [h] at hl; exact hf l hl

theorem noSleeper_set {f : Filter} (hf : NoSleeper f) (i : Nat) (l : FLink)
    (hl : l.tracked = none → l.ext = none → l.active = true) (est : E) :
    NoSleeper { links := f.links.set i l, est } := by
  intro x hx
  rcases List.mem_or_eq_of_mem_set hx with hx | rfl
  · exact hf x hx
  · exact hl

theorem noSleeper_measurement {f f' : Filter} {cfg : Cfg} {id : LinkId} {fwd : Bool} {v u : F64}
    (hf : NoSleeper f) (h : f.measurement cfg id fwd v u = .ok f') : NoSleeper f' := by
  obtain ⟨i, l, g, hn, hcase⟩ := measurement_spec h
  obtain ⟨l0, hl0, hi, hg, hl⟩ := note_spec hn
  have hs := noteLink_spec f.est l0 fwd v u
  rw [← hl] at hs
  obtain ⟨hid, hact, htr, hex, _⟩ := hs
  have hl0m := List.mem_of_find?_eq_some hl0
  have hlgood : l.tracked = none → l.ext = none → l.active = true := by
    intro h1 h2
    rw [hact]
    exact hf l0 hl0m (htr.mp h1) (hex.mp h2)
  have hgN : NoSleeper g := by
    rw [hg]
    exact noSleeper_set hf i l hlgood f.est
  rcases hcase with ⟨_, rfl⟩ | ⟨delay, noise, verd, he, hv, hl⟩
  · exact hgN
  · intro x hx
    rw [hl] at hx
    rcases List.mem_or_eq_of_mem_set hx with hx | rfl
    · exact hgN x hx
    · intro h1 h2
      simp only at h1 h2 ⊢
      rw [judge_internal h2] at hv
      cases hv
      rfl

/-! ### what `steer_clocks` records -/

/-- the recorded action is the steering kernel applied to the recorded readings -/
def SteerLog.Sound (e : SteerLog) : Prop :=
  e.action = steerOne (e.index == 0) e.offset e.unc e.freq e.cur e.max ∧ e.action ≠ .panic

theorem steerClock_log (read : Filter) (leap : Option Leap) (rd : Int) (acc : SteerAcc) (index id : Nat)
    (m : Mock) :
    (steerClock read leap rd acc index id m).log = acc.log ∨
    ∃ e, e.Sound ∧ e.id = id ∧ e.max = m.max ∧ e.cur = m.freq ∧
      (steerClock read leap rd acc index id m).log = acc.log ++ [e] := by
  unfold steerClock
  cases herr : acc.err with
  | some e => left; rfl
  | none =>
    simp only
    cases hoff : liftE (clockOffset read.est id) with
    | error e => left; rfl
    | ok ou =>
      obtain ⟨offset, unc⟩ := ou
      simp only
      cases hfr : (if wantsFreq offset unc = true then
          Except.map (fun x => x.fst) (liftE (clockFrequency read.est id)) else Except.ok F64.zero) with
      | error e => left; rfl
      | ok freq =>
        simp only
        cases hact : steerOne (index == 0) offset unc freq m.freq m.max with
        | panic => left; rfl
        | setFreq actual change =>
          simp only
          cases habs : acc.filter.absorbFrequency id change with
          | error e => left; rfl
          | ok filter =>
            right
            exact ⟨_, ⟨by simp only [hact], by simp⟩, rfl, rfl, rfl, rfl⟩
        | step dur absorbed =>
          simp only
          cases habs : (if (index == 0) = true then acc.filter.absorbSystem id dur
              else acc.filter.absorbOffset id offset.neg) with
          | error e => left; rfl
          | ok filter =>
            right
            exact ⟨_, ⟨by simp only [hact], by simp⟩, rfl, rfl, rfl, rfl⟩

theorem steerLoop_log (read : Filter) (leap : Option Leap) (rd : Int) :
    ∀ (cs : List (Nat × Mock)) (acc : SteerAcc) (i : Nat), (∀ e ∈ acc.log, e.Sound) →
      ∀ e ∈ (steerLoop read leap rd acc i cs).log, e.Sound
  | [], acc, i, h => by simpa [steerLoop] using h
  | (id, m) :: rest, acc, i, h => by
    simp only [steerLoop]
    apply steerLoop_log read leap rd rest _ (i + 1)
    intro e he
    rcases steerClock_log read leap rd acc i id m with h1 | ⟨e', hs, _, _, _, h1⟩
    · rw [h1] at he; exact h e he
    · rw [h1] at he
      simp only [List.mem_append, List.mem_singleton] at he
      rcases he with he | rfl
      · exact h e he
      · exact hs



theorem Filter.progress_eq (f : Filter) (t : Nat) :
    f.progress t = (liftE (progressTime f.est t)).map fun est => { f with est } := by
  cases t <;> (simp only [Filter.progress]; cases liftE (progressTime f.est _) <;> rfl)


theorem steerAcc_log {c : Ctrl} {rd : Int} {acc : SteerAcc} (h : c.steerAcc = .ok (rd, acc)) :
    ∀ e ∈ acc.log, e.Sound := by
  unfold Ctrl.steerAcc at h
  split at h
  · cases h
  · obtain ⟨progressed, _, h⟩ := bindE h
    obtain ⟨leap, _, h⟩ := bindE h
    obtain ⟨r, _, h⟩ := bindE h
    simp only [pure, Except.pure, Except.ok.injEq, Prod.mk.injEq] at h
    obtain ⟨_, rfl⟩ := h
    apply steerLoop_log
    intro e he
    cases he

theorem steerClocks_log {c c' : Ctrl} {r : RF (List SteerLog)} (h : c.steerClocks = (c', r)) :
    ∀ e ∈ logOf r, e.Sound := by
  unfold Ctrl.steerClocks at h
  cases hs : c.steerAcc with
  | error e =>
    simp only [hs] at h
    cases h
    intro e he; cases he
  | ok p =>
    obtain ⟨rd, acc⟩ := p
    simp only [hs] at h
    cases herr : acc.err with
    | some e =>
      simp only [herr] at h
      cases h
      intro e he; cases he
    | none =>
      simp only [herr] at h
      cases h
      exact steerAcc_log hs

theorem measurement_log {c c' : Ctrl} {id : LinkId} {fwd : Bool} {d u : Int} {r : RF (List SteerLog)}
    (h : c.measurement id fwd d u = (c', r)) : ∀ e ∈ logOf r, e.Sound := by
  unfold Ctrl.measurement at h
  split at h
  · cases h; intro e he; cases he
  · cases hp : c.filter.progress c.now with
    | error e => simp only [hp] at h; cases h; intro e he; cases he
    | ok f1 =>
      simp only [hp] at h
      cases hm : f1.measurement c.cfg id fwd (durAsSeconds d) (durAsSeconds u) with
      | error e => simp only [hm] at h; cases h; intro e he; cases he
      | ok f2 => simp only [hm] at h; exact steerClocks_log h

theorem apply_log (c : Ctrl) (op : COp) : ∀ e ∈ (c.apply op).2, e.Sound := by
  cases op with
  | measure id fwd d u =>
    simp only [Ctrl.apply]
    cases hm : c.measurement id fwd d u with
    | mk c' r => exact measurement_log hm
  | tick _ => intro e he; cases he
  | addClock _ _ => intro e he; cases he
  | addExt => intro e he; cases he
  | rmExt _ => intro e he; cases he
  | rmClock _ => intro e he; cases he
  | link _ _ _ => intro e he; cases he
  | drop _ => intro e he; cases he
  | extUpdate _ _ _ _ => intro e he; cases he

theorem run_log : ∀ (ops : List COp) (c : Ctrl), ∀ e ∈ (c.run ops).2, e.Sound
  | [], c => by intro e he; cases he
  | op :: ops, c => by
    intro e he
    simp only [Ctrl.run, List.mem_append] at he
    rcases he with he | he
    · exact apply_log c op e he
    · exact run_log ops _ e he

end NtpVerif.PtpFilter
