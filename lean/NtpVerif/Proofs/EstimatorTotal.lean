/- C42: on well-formed states the numeric operations never leave the matrices' index ranges: every
   `Index`/`IndexMut` assert holds, every shape check passes.  Pure index algebra (no arithmetic facts). -/
import NtpVerif.Proofs.EstimatorNum

set_option linter.unusedSimpArgs false
set_option linter.unusedVariables false

namespace NtpVerif.Estimator

variable {α : Type}

namespace Mat

theorem raw_isSome {m : Mat α} (h : WFm m) {r c : Nat} (hr : r < m.rows) (hc : c < m.cols) :
    (m.raw (r * m.cols + c)).isSome := by
  have hi := idx_lt hr hc
  rw [← h] at hi
  simp [raw, hi]

theorem mul_exists [Num α] {a b : Mat α} (ha : WFm a) (hb : WFm b) (hd : a.cols = b.rows) :
    ∃ m, a.mul b = some m := by
  unfold Mat.mul
  rw [if_neg (by simpa using hd)]
  apply newM_exists
  intro r c hr hc
  obtain ⟨terms, ht⟩ := mapM_exists (fun k => (a.raw (r * a.cols + k)).bind fun x =>
      (b.raw (k * b.cols + c)).bind fun y => some (Num.mul x y)) (List.range a.cols) (by
    intro k hk
    simp only [List.mem_range] at hk
    have h1 := raw_isSome ha hr hk
    have h2 := raw_isSome hb (by rw [← hd]; exact hk) hc
    obtain ⟨x, hx⟩ := Option.isSome_iff_exists.mp h1
    obtain ⟨y, hy⟩ := Option.isSome_iff_exists.mp h2
    simp [hx, hy])
  simp [ht]

theorem zip_exists {f : α → α → α} {a b : Mat α} (ha : WFm a) (hb : WFm b)
    (hr : a.rows = b.rows) (hc : a.cols = b.cols) : ∃ m, zipCells f a b = some m := by
  unfold zipCells
  rw [if_neg (by simp [hr, hc])]
  apply newM_exists
  intro r c hr' hc'
  have h1 := raw_isSome ha hr' hc'
  have h2 := raw_isSome hb (by rw [← hr]; exact hr') (by rw [← hc]; exact hc')
  rw [← hc] at h2
  obtain ⟨x, hx⟩ := Option.isSome_iff_exists.mp h1
  obtain ⟨y, hy⟩ := Option.isSome_iff_exists.mp h2
  simp [hx, hy]

theorem map_exists {f : α → α} {a : Mat α} (ha : WFm a) : ∃ m, mapCells f a = some m := by
  unfold mapCells
  apply newM_exists
  intro r c hr hc
  obtain ⟨x, hx⟩ := Option.isSome_iff_exists.mp (raw_isSome ha hr hc)
  simp [hx]

theorem transpose_exists {a : Mat α} (ha : WFm a) : ∃ m, a.transpose = some m := by
  unfold transpose
  apply newM_exists
  intro r c hr hc
  exact get_isSome ha hc hr

theorem symmetrize_exists [Num α] {a : Mat α} (ha : WFm a) (hsq : a.rows = a.cols) :
    ∃ m, a.symmetrize = .ok m := by
  unfold symmetrize
  rw [if_neg (by simpa using hsq)]
  obtain ⟨m, hm⟩ := newM_exists (R := a.rows) (C := a.cols) (f := fun r c =>
      (a.get r c).bind fun x => (a.get c r).bind fun y => some (Num.midpoint x y)) (by
    intro r c hr hc
    obtain ⟨x, hx⟩ := Option.isSome_iff_exists.mp (get_isSome ha hr hc)
    obtain ⟨y, hy⟩ := Option.isSome_iff_exists.mp
      (get_isSome ha (by rw [hsq]; exact hc) (by rw [← hsq]; exact hr))
    simp [hx, hy])
  exact ⟨m, by simp [hm, orPanic]⟩

theorem set_exists {m : Mat α} (h : WFm m) {r c : Nat} (hr : r < m.rows) (hc : c < m.cols) (v : α) :
    ∃ m', m.set r c v = some m' := by
  have hi := idx_lt hr hc
  rw [← h] at hi
  exact ⟨{ m with data := m.data.set (r * m.cols + c) v }, by simp [Mat.set, hr, hc, hi]⟩

theorem ofScalar_dims (v : α) : (ofScalar v).rows = 1 ∧ (ofScalar v).cols = 1 ∧ WFm (ofScalar v) := by
  simp [ofScalar, WFm]

end Mat

theorem setCells_exists : ∀ (l : List (Nat × Nat × α)) (m : Mat α), m.WFm →
    (∀ x ∈ l, x.1 < m.rows ∧ x.2.1 < m.cols) → ∃ m', setCells m l = some m'
  | [], m, _, _ => ⟨m, rfl⟩
  | (r, c, v) :: rest, m, hw, h => by
    obtain ⟨h1, h2⟩ := h (r, c, v) List.mem_cons_self
    obtain ⟨m1, hm1⟩ := Mat.set_exists hw h1 h2 v
    obtain ⟨d1, d2, d3⟩ := Mat.set_dims hm1
    obtain ⟨m', hm'⟩ := setCells_exists rest m1 (d3 hw) (by
      intro x hx
      rw [d1, d2]
      exact h x (List.mem_cons_of_mem _ hx))
    exact ⟨m', by simp [setCells, hm1, hm']⟩

theorem getClock_mem {s : Est α} {id : Nat} {c : ClockInfo α} (h : getClock s id = .ok c) :
    c ∈ s.clocks ∧ c.id = id := by
  unfold getClock at h
  split at h
  · rename_i c' hf
    cases h
    exact ⟨List.mem_of_find?_eq_some hf, by simpa using List.find?_some hf⟩
  · cases h

theorem getLink_mem {s : Est α} {id : LinkId} {l : LinkInfo α} (h : getLink s id = .ok l) :
    l ∈ s.links := by
  unfold getLink at h
  split at h
  · rename_i l' hf
    cases h
    exact List.mem_of_find?_eq_some hf
  · cases h

/-- errors that would be bugs of the estimator: a panic (failed index assert, `usize` underflow) or a
    `MatrixError` (wrong shape / out of bounds) -/
def Err.isBug : Err → Bool
  | .panic | .NotAVector | .NotSquare | .OutOfBounds => true
  | _ => false

theorem getClock_noBug {s : Est α} {id : Nat} {e : Err} (h : getClock s id = .error e) : e = .UnknownClock := by
  unfold getClock at h
  split at h <;> cases h
  rfl

theorem getLink_noBug {s : Est α} {id : LinkId} {e : Err} (h : getLink s id = .error e) : e = .UnknownLink := by
  unfold getLink at h
  split at h <;> cases h
  rfl

/-! ### progress_time -/

theorem progressCells_exists [Num α] {s : Est α} (h : WF s) (dt : α) :
    ∃ r, progressCells s dt = some r := by
  have hd := h.dims
  have ⟨i1, i2, i3⟩ := Mat.new_dims s.state.rows s.state.rows
    (fun r c => if r = c then (Num.one : α) else Num.zero)
  have ⟨z1, z2, z3⟩ := Mat.new_dims s.state.rows s.state.rows (fun _ _ => (Num.zero : α))
  -- update
  obtain ⟨update, hu⟩ := setCells_exists
    (s.clocks.map fun c => (c.offsetIndex, c.frequencyIndex, dt)) (Mat.identity s.state.rows) i3 (by
      intro x hx
      obtain ⟨c, hc, rfl⟩ := List.mem_map.mp hx
      have := h.layout.clk_range c hc
      simp only [ClockInfo.offsetIndex, ClockInfo.frequencyIndex, Mat.identity]
      rw [i1, i2]; omega)
  obtain ⟨u1, u2, u3⟩ := setCells_dims _ _ _ hu
  have u3 := u3 i3
  simp only [Mat.identity] at u1 u2
  rw [i1] at u1
  rw [i2] at u2
  -- clock noise
  obtain ⟨noise, hn⟩ := setCells_exists
    (s.clocks.flatMap fun c =>
      [ (c.offsetIndex, c.offsetIndex, Num.div (Num.mul (cube dt) (sq c.wander)) Num.three),
        (c.offsetIndex, c.frequencyIndex, Num.div (Num.mul (sq dt) (sq c.wander)) Num.two),
        (c.frequencyIndex, c.offsetIndex, Num.div (Num.mul (sq dt) (sq c.wander)) Num.two),
        (c.frequencyIndex, c.frequencyIndex, Num.mul dt (sq c.wander)) ])
    (Mat.zero s.state.rows s.state.rows) z3 (by
      intro x hx
      obtain ⟨c, hc, hx⟩ := List.mem_flatMap.mp hx
      have := h.layout.clk_range c hc
      simp only [Mat.zero]
      rw [z1, z2]
      simp only [List.mem_cons, List.mem_nil_iff, or_false, ClockInfo.offsetIndex,
        ClockInfo.frequencyIndex] at hx
      rcases hx with rfl | rfl | rfl | rfl <;> simp <;> omega)
  obtain ⟨n1, n2, n3⟩ := setCells_dims _ _ _ hn
  have n3 := n3 z3
  simp only [Mat.zero] at n1 n2
  rw [z1] at n1
  rw [z2] at n2
  -- link noise
  have hlc := mapM_eq_map (fun l : LinkInfo α => (s.state.get l.index 0).bind fun d =>
      some (l.index, l.index, Num.mul dt (sq (Num.mul l.decay d))))
    (fun l => (l.index, l.index, Num.mul dt (sq (Num.mul l.decay ((s.state.get l.index 0).getD Num.zero)))))
    s.links (by
      intro l hl
      have := h.layout.lnk_range l hl
      obtain ⟨d, hdd⟩ := Option.isSome_iff_exists.mp
        (Mat.get_isSome hd.vwf (r := l.index) (c := 0) this (by rw [hd.vcols]; omega))
      simp [hdd])
  obtain ⟨noise2, hn2⟩ := setCells_exists
    (s.links.map fun l => (l.index, l.index, Num.mul dt (sq (Num.mul l.decay ((s.state.get l.index 0).getD Num.zero)))))
    noise n3 (by
      intro x hx
      obtain ⟨l, hl, rfl⟩ := List.mem_map.mp hx
      have := h.layout.lnk_range l hl
      rw [n1, n2]; exact ⟨this, this⟩)
  obtain ⟨m1, m2, m3⟩ := setCells_dims _ _ _ hn2
  have m3 := m3 n3
  rw [n1] at m1
  rw [n2] at m2
  -- products
  obtain ⟨state, hst⟩ := Mat.mul_exists u3 hd.vwf (by rw [u2])
  obtain ⟨a, ha⟩ := Mat.mul_exists u3 hd.uwf (by rw [u2, hd.urows])
  obtain ⟨a1, a2, a3⟩ := Mat.mul_dims ha
  obtain ⟨ut, hut⟩ := Mat.transpose_exists u3
  obtain ⟨t1, t2, t3⟩ := Mat.transpose_dims hut
  obtain ⟨b, hb⟩ := Mat.mul_exists a3 t3 (by rw [a2, hd.ucols, t1, u2])
  obtain ⟨b1, b2, b3⟩ := Mat.mul_dims hb
  obtain ⟨unc, hunc⟩ := Mat.zip_exists (f := Num.add) b3 m3 (by rw [b1, a1, u1, m1]) (by rw [b2, t2, u1, m2])
  refine ⟨(state, unc), ?_⟩
  simp only [progressCells, hu, hn, hlc, hn2, hst, ha, hut, hb, Mat.add, hunc, Option.bind_eq_bind,
    Option.bind_some, bind, pure]

theorem progressTime_noBug [Num α] {s : Est α} (h : WF s) (t : Nat) {e : Err}
    (he : progressTime s t = .error e) : e = .NonMonotonic := by
  unfold progressTime at he
  simp only [] at he
  split at he
  · cases he; rfl
  · split at he
    · cases he
    · obtain ⟨r, hr⟩ := progressCells_exists h (Num.ofDur (tsDiff t s.time))
      rw [hr] at he
      cases he

/-! ### absorb -/

theorem bumpCell_exists [Num α] {m : Mat α} (h : m.WFm) {r : Nat} (hr : r < m.rows) (hc : 0 < m.cols) (d : α) :
    ∃ m', bumpCell m r d = some m' := by
  obtain ⟨v, hv⟩ := Option.isSome_iff_exists.mp (Mat.get_isSome h hr hc)
  obtain ⟨m', hm'⟩ := Mat.set_exists h hr hc (Num.add v d)
  exact ⟨m', by simp [bumpCell, hv, hm']⟩

theorem absorb_noBug [Num α] {s : Est α} (h : WF s) (id : Nat) :
    (∀ d e, absorbFrequencySteer s id d = .error e → e = .UnknownClock) ∧
    (∀ d e, absorbOffsetChange s id d = .error e → e = .UnknownClock) ∧
    (∀ d e, absorbSystemClockOffsetChange s id d = .error e → e = .UnknownClock) := by
  have hc0 : 0 < s.state.cols := by rw [h.dims.vcols]; omega
  refine ⟨?_, ?_, ?_⟩
  · intro d e he
    unfold absorbFrequencySteer at he
    cases hc : getClock s id with
    | error e' => simp [hc, bind, Except.bind] at he; rw [← he]; exact getClock_noBug hc
    | ok c =>
      have := h.layout.clk_range c (getClock_mem hc).1
      obtain ⟨m', hm'⟩ := bumpCell_exists h.dims.vwf (r := c.frequencyIndex)
        (by simp [ClockInfo.frequencyIndex]; omega) hc0 d
      simp [hc, hm', bind, Except.bind, orPanic, pure, Except.pure] at he
  · intro d e he
    unfold absorbOffsetChange at he
    cases hc : getClock s id with
    | error e' => simp [hc, bind, Except.bind] at he; rw [← he]; exact getClock_noBug hc
    | ok c =>
      have := h.layout.clk_range c (getClock_mem hc).1
      obtain ⟨m', hm'⟩ := bumpCell_exists h.dims.vwf (r := c.offsetIndex)
        (by simp [ClockInfo.offsetIndex]; omega) hc0 d
      simp [hc, hm', bind, Except.bind, orPanic, pure, Except.pure] at he
  · intro d e he
    unfold absorbSystemClockOffsetChange at he
    cases hc : getClock s id with
    | error e' => simp [hc, bind, Except.bind] at he; rw [← he]; exact getClock_noBug hc
    | ok c =>
      have := h.layout.clk_range c (getClock_mem hc).1
      obtain ⟨m', hm'⟩ := bumpCell_exists h.dims.vwf (r := c.offsetIndex)
        (by simp [ClockInfo.offsetIndex]; omega) hc0 (Num.ofDur d)
      simp [hc, hm', bind, Except.bind, orPanic, pure, Except.pure] at he

/-! ### measurement -/

/-- a 1×n row with all cells present -/
def RowOK (n : Nat) (p : Mat α) : Prop := p.rows = 1 ∧ p.cols = n ∧ p.WFm

theorem row_set {n : Nat} {p : Mat α} (hp : RowOK n p) {i : Nat} (hi : i < n) (v : α) :
    ∃ p', p.set 0 i v = some p' ∧ RowOK n p' := by
  obtain ⟨h1, h2, h3⟩ := hp
  obtain ⟨p', hp'⟩ := Mat.set_exists h3 (r := 0) (c := i) (by omega) (by omega) v
  obtain ⟨d1, d2, d3⟩ := Mat.set_dims hp'
  exact ⟨p', hp', by rw [RowOK, d1, d2]; exact ⟨h1, h2, d3 h3⟩⟩

theorem projWrite_total [Num α] {s : Est α} (h : WF s) {p : Mat α} (hp : RowOK s.state.rows p)
    (ext : Bool) (id : Nat) (v : α) :
    (∃ p', projWrite s p ext id v = .ok p' ∧ RowOK s.state.rows p') ∨
    (∃ e, projWrite s p ext id v = .error e ∧ e.isBug = false) := by
  unfold projWrite
  cases ext with
  | true => left; exact ⟨p, rfl, hp⟩
  | false =>
    simp only [Bool.not_false, if_true]
    cases hc : getClock s id with
    | error e =>
      right
      exact ⟨e, by simp [bind, Except.bind], by rw [getClock_noBug hc]; rfl⟩
    | ok c =>
      have := h.layout.clk_range c (getClock_mem hc).1
      obtain ⟨p', hp', hr⟩ := row_set hp (i := c.offsetIndex) (by simp [ClockInfo.offsetIndex]; omega) v
      left
      exact ⟨p', by simp [bind, Except.bind, hp', orPanic], hr⟩

theorem projLink_total [Num α] {s : Est α} (h : WF s) {p : Mat α} (hp : RowOK s.state.rows p)
    (dl : Bool) (link : LinkId) :
    (∃ p', projLink s p dl link = .ok p' ∧ RowOK s.state.rows p') ∨
    (∃ e, projLink s p dl link = .error e ∧ e.isBug = false) := by
  unfold projLink
  cases dl with
  | false => left; exact ⟨p, rfl, hp⟩
  | true =>
    simp only [if_true]
    cases hl : getLink s link with
    | error e =>
      right
      exact ⟨e, by simp [bind, Except.bind], by rw [getLink_noBug hl]; rfl⟩
    | ok l =>
      have := h.layout.lnk_range l (getLink_mem hl)
      obtain ⟨p', hp', hr⟩ := row_set hp (i := l.index) this Num.one
      left
      exact ⟨p', by simp [bind, Except.bind, hp', orPanic], hr⟩

/-- `measureProj` with the two clocks named -/
def measureProjCore [Num α] (s : Est α) (frm to : Nat) (link : LinkId) (dl : Bool) : R (Mat α) :=
  if isExternal s frm && isExternal s to then .error .BothClocksExternal
  else do
    let proj ← projWrite s (Mat.zero 1 s.state.rows) (isExternal s frm) frm Num.negOne
    let proj ← projWrite s proj (isExternal s to) to Num.one
    projLink s proj dl link

theorem measureProj_eq [Num α] (s : Est α) (link : LinkId) (fwd dl : Bool) :
    measureProj s link fwd dl =
      measureProjCore s (if fwd then link.a else link.b) (if fwd then link.b else link.a) link dl := rfl

theorem measureProj_total [Num α] {s : Est α} (h : WF s) (link : LinkId) (fwd dl : Bool) :
    (∃ p, measureProj s link fwd dl = .ok p ∧ RowOK s.state.rows p) ∨
    (∃ e, measureProj s link fwd dl = .error e ∧ e.isBug = false) := by
  have z : RowOK s.state.rows (Mat.zero 1 s.state.rows : Mat α) := by
    have ⟨z1, z2, z3⟩ := Mat.new_dims 1 s.state.rows (fun _ _ => (Num.zero : α))
    exact ⟨z1, z2, z3⟩
  rw [measureProj_eq]
  generalize (if fwd then link.a else link.b) = frm
  generalize (if fwd then link.b else link.a) = to
  unfold measureProjCore
  split
  · right; exact ⟨.BothClocksExternal, rfl, rfl⟩
  · rcases projWrite_total h z (isExternal s frm) frm Num.negOne with ⟨p1, e1, r1⟩ | ⟨e, e1, hb⟩
    · rcases projWrite_total h r1 (isExternal s to) to Num.one with ⟨p2, e2, r2⟩ | ⟨e, e2, hb⟩
      · rcases projLink_total h r2 dl link with ⟨p3, e3, r3⟩ | ⟨e, e3, hb⟩
        · left; exact ⟨p3, by simp only [e1, e2, e3, bind, Except.bind], r3⟩
        · right; exact ⟨e, by simp only [e1, e2, e3, bind, Except.bind], hb⟩
      · right; exact ⟨e, by simp only [e1, e2, bind, Except.bind], hb⟩
    · right; exact ⟨e, by simp only [e1, bind, Except.bind], hb⟩

set_option maxHeartbeats 4000000 in
theorem measureCells_exists [Num α] {s : Est α} (hd : Dims s) {proj : Mat α}
    (hp : RowOK s.state.rows proj) (value r2 : α) : ∃ r, measureCells s proj value r2 = some r := by
  obtain ⟨p1, p2, p3⟩ := hp
  have v1 := hd.vcols
  have v2 := hd.urows
  have v3 := hd.ucols
  have ⟨i1, i2, i3⟩ := Mat.new_dims s.state.rows s.state.rows
    (fun r c => if r = c then (Num.one : α) else Num.zero)
  have ⟨sv1, sv2, sv3⟩ := Mat.ofScalar_dims value
  have ⟨sr1, sr2, sr3⟩ := Mat.ofScalar_dims r2
  obtain ⟨projT, hpt⟩ := Mat.transpose_exists p3
  obtain ⟨t1, t2, t3⟩ := Mat.transpose_dims hpt
  obtain ⟨expected, hex⟩ := Mat.mul_exists p3 hd.vwf (by omega)
  obtain ⟨e1, e2, e3⟩ := Mat.mul_dims hex
  obtain ⟨difference, hdf⟩ := Mat.zip_exists (f := Num.sub) sv3 e3 (by omega) (by omega)
  obtain ⟨f1, f2, f3⟩ := Mat.zip_dims hdf
  obtain ⟨x1, hx1⟩ := Mat.mul_exists p3 hd.uwf (by omega)
  obtain ⟨a1, a2, a3⟩ := Mat.mul_dims hx1
  obtain ⟨x2, hx2⟩ := Mat.mul_exists a3 t3 (by omega)
  obtain ⟨b1, b2, b3⟩ := Mat.mul_dims hx2
  obtain ⟨dcov, hdc⟩ := Mat.zip_exists (f := Num.add) b3 sr3 (by omega) (by omega)
  obtain ⟨c1, c2, c3⟩ := Mat.zip_dims hdc
  obtain ⟨d00, hd0⟩ := Option.isSome_iff_exists.mp
    (Mat.get_isSome c3 (r := 0) (c := 0) (by omega) (by omega))
  obtain ⟨x3, hx3⟩ := Mat.mul_exists hd.uwf t3 (by omega)
  obtain ⟨g1, g2, g3⟩ := Mat.mul_dims hx3
  obtain ⟨strength, hstr⟩ := Mat.map_exists (f := fun v => Num.div v d00) g3
  obtain ⟨s1, s2, s3⟩ := Mat.map_dims hstr
  obtain ⟨x4, hx4⟩ := Mat.mul_exists s3 f3 (by omega)
  obtain ⟨h1, h2, h3⟩ := Mat.mul_dims hx4
  obtain ⟨state, hst⟩ := Mat.zip_exists (f := Num.add) hd.vwf h3 (by omega)
    (by omega)
  obtain ⟨x5, hx5⟩ := Mat.mul_exists s3 p3 (by omega)
  obtain ⟨j1, j2, j3⟩ := Mat.mul_dims hx5
  obtain ⟨prev, hprev⟩ := Mat.zip_exists (f := Num.sub) i3 j3
    (by omega)
    (by omega)
  obtain ⟨k1, k2, k3⟩ := Mat.zip_dims hprev
  obtain ⟨prevT, hprevT⟩ := Mat.transpose_exists k3
  obtain ⟨l1, l2, l3⟩ := Mat.transpose_dims hprevT
  obtain ⟨strengthT, hstrT⟩ := Mat.transpose_exists s3
  obtain ⟨m1, m2, m3⟩ := Mat.transpose_dims hstrT
  obtain ⟨x6, hx6⟩ := Mat.mul_exists k3 hd.uwf (by omega)
  obtain ⟨n1, n2, n3⟩ := Mat.mul_dims hx6
  obtain ⟨q1, hq1⟩ := Mat.mul_exists n3 l3 (by omega)
  obtain ⟨o1, o2, o3⟩ := Mat.mul_dims hq1
  obtain ⟨x7, hx7⟩ := Mat.map_exists (f := fun v => Num.mul v r2) s3
  obtain ⟨r1, r2', r3⟩ := Mat.map_dims hx7
  obtain ⟨q2, hq2⟩ := Mat.mul_exists r3 m3 (by omega)
  obtain ⟨w1, w2, w3⟩ := Mat.mul_dims hq2
  obtain ⟨pre, hpre⟩ := Mat.zip_exists (f := Num.add) o3 w3
    (by omega)
    (by omega)
  refine ⟨(state, pre), ?_⟩
  simp only [measureCells, Mat.identity, hpt, hex, Mat.sub, hdf, hx1, hx2, Mat.add, hdc, hd0, hx3, Mat.divScalar, hstr,
    hx4, hst, hx5, hprev, hprevT, hstrT, hx6, hq1, Mat.scale, hx7, hq2, hpre, Option.bind_eq_bind,
    Option.bind_some, bind, pure]

theorem measurement_noBug [Num α] {s : Est α} (h : WF s) (link : LinkId) (fwd dl : Bool) (v u : α)
    {e : Err} (he : measurement s link fwd v u dl = .error e) : e.isBug = false := by
  unfold measurement at he
  rcases measureProj_total h link fwd dl with ⟨p, hp, hrow⟩ | ⟨e', hp, hb⟩
  · rw [hp] at he
    simp only [] at he
    obtain ⟨⟨st, pre⟩, hr⟩ := measureCells_exists h.dims hrow v (sq u)
    rw [hr] at he
    simp only [] at he
    obtain ⟨d1, d2, d3, d4, d5⟩ := measureCells_dims h.dims hr
    -- `pre` is well-formed: it is the result of a `zipCells`
    have hpw : pre.WFm := by
      unfold measureCells at hr
      simp only [] at hr
      obtain ⟨_, _, hr⟩ := obind hr
      obtain ⟨_, _, hr⟩ := obind hr
      obtain ⟨_, _, hr⟩ := obind hr
      obtain ⟨_, _, hr⟩ := obind hr
      obtain ⟨_, _, hr⟩ := obind hr
      obtain ⟨_, _, hr⟩ := obind hr
      obtain ⟨_, _, hr⟩ := obind hr
      obtain ⟨_, _, hr⟩ := obind hr
      obtain ⟨_, _, hr⟩ := obind hr
      obtain ⟨_, _, hr⟩ := obind hr
      obtain ⟨_, _, hr⟩ := obind hr
      obtain ⟨_, _, hr⟩ := obind hr
      obtain ⟨_, _, hr⟩ := obind hr
      obtain ⟨_, _, hr⟩ := obind hr
      obtain ⟨_, _, hr⟩ := obind hr
      obtain ⟨_, _, hr⟩ := obind hr
      obtain ⟨_, _, hr⟩ := obind hr
      obtain ⟨_, _, hr⟩ := obind hr
      obtain ⟨_, _, hr⟩ := obind hr
      obtain ⟨pre', hpre, hr⟩ := obind hr
      simp only [pure, Option.some.injEq, Prod.mk.injEq] at hr
      obtain ⟨_, rfl⟩ := hr
      exact (Mat.zip_dims hpre).2.2
    obtain ⟨unc, hsym⟩ := Mat.symmetrize_exists hpw (by rw [d4, d5])
    rw [hsym] at he
    cases he
  · rw [hp] at he
    cases he
    exact hb

end NtpVerif.Estimator

