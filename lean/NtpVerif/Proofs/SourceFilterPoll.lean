/-
Helper lemmas for C10 (filter half): the invariant of `SourceFilter::update_desired_poll`.
Mathlib-free (omega only).
-/
import NtpVerif.Model.SourceFilter

namespace NtpVerif.SourceFilter
open NtpVerif.Wrap

/-- invariant: the desired interval is within the limits, and the hysteresis score is either zero or
    strictly inside `(-hysteresis, hysteresis)` -/
def PollInv (cfg : PollCfg) (lim : Limits) (s : PollState) : Prop :=
  lim.min ≤ s.desired ∧ s.desired ≤ lim.max ∧
  (s.score = 0 ∨ (-cfg.hysteresis < s.score ∧ s.score < cfg.hysteresis))

theorem checkedI32_some {x : Int} (h1 : I32_MIN ≤ x) (h2 : x ≤ I32_MAX) : checkedI32 x = some x := by
  simp [checkedI32, checkedRange, h1, h2]

theorem checkedI8_some {x : Int} (h1 : -128 ≤ x) (h2 : x ≤ 127) : checkedI8 x = some x := by
  simp [checkedI8, checkedRange, h1, h2]

theorem pollDecide_inv (score : Int) (s : PollState) (cfg : PollCfg) (lim : Limits) (p : F64)
    (hlim : -127 ≤ lim.min ∧ lim.min ≤ lim.max ∧ lim.max ≤ 126)
    (hh : I32_MIN < cfg.hysteresis ∧ cfg.hysteresis ≤ I32_MAX)
    (hd : lim.min ≤ s.desired ∧ s.desired ≤ lim.max) :
    ∃ s', pollDecide score s cfg lim p = some s' ∧ PollInv cfg lim s' := by
  unfold pollDecide
  split
  · exact ⟨_, rfl, by simp [PollInv]; omega⟩
  · have hn : checkedI32 (-cfg.hysteresis) = some (-cfg.hysteresis) := by
      apply checkedI32_some <;> simp only [I32_MIN, I32_MAX] at * <;> omega
    rw [hn]
    simp only [Option.bind_some]
    split
    · have : checkedI8 (s.desired + 1) = some (s.desired + 1) := by
        apply checkedI8_some <;> omega
      simp only [pollInc, this, Option.map_some, Option.bind_some]
      exact ⟨_, rfl, by dsimp only [PollInv]; omega⟩
    · split
      · have : checkedI8 (s.desired - 1) = some (s.desired - 1) := by
          apply checkedI8_some <;> omega
        simp only [pollDec, this, Option.map_some, Option.bind_some]
        exact ⟨_, rfl, by dsimp only [PollInv]; omega⟩
      · exact ⟨_, rfl, by dsimp only [PollInv]; omega⟩

/-- one step of `update_desired_poll` keeps the invariant and does not panic -/
theorem updateDesiredPoll_inv (s : PollState) (cfg : PollCfg) (lim : Limits) (p w m : F64)
    (hlim : -127 ≤ lim.min ∧ lim.min ≤ lim.max ∧ lim.max ≤ 126)
    (hh : I32_MIN < cfg.hysteresis ∧ cfg.hysteresis ≤ I32_MAX)
    (hs : PollInv cfg lim s) :
    ∃ s', updateDesiredPoll s cfg lim p w m = some s' ∧ PollInv cfg lim s' := by
  unfold updateDesiredPoll
  simp only []
  obtain ⟨h1, h2, h3⟩ := hs
  have hlo : I32_MIN ≤ s.score - 1 ∧ s.score - 1 ≤ I32_MAX := by
    simp only [I32_MIN, I32_MAX] at *; omega
  have hhi : I32_MIN ≤ s.score + 1 ∧ s.score + 1 ≤ I32_MAX := by
    simp only [I32_MIN, I32_MAX] at *; omega
  split
  · rw [checkedI32_some hlo.1 hlo.2]
    exact pollDecide_inv _ s cfg lim p hlim hh ⟨h1, h2⟩
  · split
    · rw [checkedI32_some hhi.1 hhi.2]
      exact pollDecide_inv _ s cfg lim p hlim hh ⟨h1, h2⟩
    · exact pollDecide_inv _ s cfg lim p hlim hh ⟨h1, h2⟩

end NtpVerif.SourceFilter
