/-
Helper lemmas for the packet codec model (C23: totality / no panic; C24; C25).  Core Lean only.
-/
import NtpVerif.Model.Packet

namespace NtpVerif.Wire

/-! ### "good" outcomes: neither a panic nor fuel exhaustion -/

def Err.isBad : Err → Bool
  | .parse _ => false
  | .panic => true
  | .fuel => true

def Good {α} (x : R α) : Prop := ∀ e, x = .error e → e.isBad = false

theorem good_ok {α} (a : α) : Good (.ok a : R α) := by intro e h; cases h
theorem good_pure {α} (a : α) : Good (pure a : R α) := good_ok a
theorem good_perr {α} (e : PErr) : Good (perr e : R α) := by
  intro e' h; cases h; rfl

theorem good_error {α β} {e : Err} (h : Good (.error e : R α)) : Good (.error e : R β) := by
  intro e' h'; cases h'; exact h e rfl

theorem good_bind {α β} {x : R α} {f : α → R β} (hx : Good x) (hf : ∀ a, x = .ok a → Good (f a)) :
    Good (x >>= f) := by
  cases x with
  | error e => intro e' h; exact hx e' (by simpa [bind, Except.bind] using h)
  | ok a => simpa [bind, Except.bind] using hf a rfl

/-! ### bytes -/

theorem be16_lt (a b : UInt8) : be16 a b < 65536 := by
  have ha := a.toNat_lt; have hb := b.toNat_lt
  unfold be16; omega

theorem nm4_ge (n : Nat) : n ≤ nm4 n := by unfold nm4; split <;> omega
theorem nm4_mod (n : Nat) : nm4 n % 4 = 0 := by unfold nm4; split <;> omega
theorem nm4_lt (n : Nat) : nm4 n < n + 4 := by unfold nm4; split <;> omega
theorem nm4_of_mod {n : Nat} (h : n % 4 = 0) : nm4 n = n := by unfold nm4; simp [h]

theorem slice?_some {bs : Bytes} {a b : Nat} {s : Bytes} (h : slice? bs a b = some s) :
    a ≤ b ∧ b ≤ bs.length ∧ s = (bs.drop a).take (b - a) ∧ s.length = b - a := by
  unfold slice? at h
  split at h
  · rename_i hc
    cases h
    refine ⟨hc.1, hc.2, rfl, ?_⟩
    simp [List.length_take, List.length_drop]; omega
  · cases h

theorem slice?_of_le {bs : Bytes} {a b : Nat} (h1 : a ≤ b) (h2 : b ≤ bs.length) :
    slice? bs a b = some ((bs.drop a).take (b - a)) := by
  unfold slice?; simp [h1, h2]

theorem sliceP_of_le {bs : Bytes} {a b : Nat} (h1 : a ≤ b) (h2 : b ≤ bs.length) :
    sliceP bs a b = .ok ((bs.drop a).take (b - a)) := by
  unfold sliceP; rw [slice?_of_le h1 h2]

theorem idxP_of_lt {bs : Bytes} {i : Nat} (h : i < bs.length) : idxP bs i = .ok bs[i] := by
  unfold idxP; simp [h]

/-! ### the raw field parser and the streamer -/

theorem rawDeserialize_ok {data : Bytes} {minSize : Nat} {ver : Ver} {ty : Nat} {msg : Bytes}
    (h : rawDeserialize data minSize ver = .ok (ty, msg)) :
    4 + msg.length ≤ 65535 ∧ nm4 (4 + msg.length) ≤ data.length ∧
      (ver = .v4 → (4 + msg.length) % 4 = 0) := by
  unfold rawDeserialize at h
  split at h
  · rename_i b0 b1 b2 b3 rest
    have hl := be16_lt b2 b3
    simp only at h
    split at h
    · cases h
    · split at h
      · cases h
      · rename_i hv
        split at h
        · cases h
        · rename_i s1 hs1
          split at h
          · cases h
          · rename_i s2 hs2
            cases h
            obtain ⟨h1, h2, _, _⟩ := slice?_some hs1
            obtain ⟨h3, h4, _, h5⟩ := slice?_some hs2
            have : 4 + msg.length = be16 b2 b3 := by omega
            rw [this]
            refine ⟨by omega, h2, ?_⟩
            intro hv4
            by_cases hm : be16 b2 b3 % 4 = 0
            · exact hm
            · exact absurd ⟨hv4, hm⟩ hv
  · cases h

theorem wireLength_of {msg : Bytes} {ver : Ver} (h : ver = .v4 → (4 + msg.length) % 4 = 0) :
    wireLength msg ver = some (nm4 (4 + msg.length)) := by
  unfold wireLength
  have e : 2 + 2 + msg.length = 4 + msg.length := by omega
  simp only [e]
  split
  · rename_i hc; exact absurd (h hc.1) hc.2
  · rfl

/-- what the consumers may rely on for each item of a stream over a buffer of `lim - off0` bytes -/
def ItemOK (ver : Ver) (lim : Nat) : Item → Prop
  | .field off _ msg wl => wireLength msg ver = some wl ∧ off + wl ≤ lim ∧ msg.length ≤ 65531
  | .err _ => True
  | .panic => False
  | .fuel => False

/-- fuel sufficiency and the item invariant of the streamer -/
theorem streamAux_ok (ver : Ver) (cutoff minSize : Nat) :
    ∀ (fuel : Nat) (rem : Bytes) (off : Nat), rem.length < fuel →
      ∀ it ∈ streamAux ver cutoff minSize fuel rem off, ItemOK ver (off + rem.length) it := by
  intro fuel
  induction fuel with
  | zero => intro rem off h; omega
  | succ n ih =>
    intro rem off hf it hit
    unfold streamAux at hit
    split at hit
    · cases hit
    · split at hit
      · simp at hit; subst hit; trivial
      · rename_i ty msg hraw
        obtain ⟨h1, h2, h3⟩ := rawDeserialize_ok hraw
        rw [wireLength_of h3] at hit
        simp only [List.mem_cons] at hit
        have hge := nm4_ge (4 + msg.length)
        cases hit with
        | inl h =>
          subst h
          exact ⟨wireLength_of h3, by omega, by omega⟩
        | inr h =>
          have hlen : (rem.drop (nm4 (4 + msg.length))).length = rem.length - nm4 (4 + msg.length) := by
            simp
          have := ih (rem.drop (nm4 (4 + msg.length))) (off + nm4 (4 + msg.length)) (by omega) it h
          have e : off + nm4 (4 + msg.length) + (rem.drop (nm4 (4 + msg.length))).length = off + rem.length := by
            omega
          rw [e] at this
          exact this

theorem stream_ok (buffer : Bytes) (cutoff minSize : Nat) (ver : Ver) :
    ∀ it ∈ stream buffer cutoff minSize ver, ItemOK ver buffer.length it := by
  intro it hit
  have := streamAux_ok ver cutoff minSize (buffer.length + 1) buffer 0 (by omega) it hit
  simpa using this

/-! ### decoding is good -/

theorem good_decode (ty : Nat) (msg : Bytes) (ver : Ver) (h : msg.length ≤ 65535) : Good (decode ty msg ver) := by
  unfold decode
  repeat' split
  all_goals first
    | exact good_ok _
    | exact good_perr _
    | (exfalso; omega)

theorem good_decodeEncItems (ver : Ver) (lim : Nat) :
    ∀ items : List Item, (∀ it ∈ items, ItemOK ver lim it) → Good (decodeEncItems ver items) := by
  intro items
  induction items with
  | nil => intro _; unfold decodeEncItems; exact good_ok _
  | cons it rest ih =>
    intro h
    have hit := h it (List.mem_cons_self)
    have hrest : ∀ it ∈ rest, ItemOK ver lim it := fun x hx => h x (List.mem_cons_of_mem _ hx)
    cases it with
    | err e => unfold decodeEncItems; exact good_perr _
    | panic => exact absurd hit (by simp [ItemOK])
    | fuel => exact absurd hit (by simp [ItemOK])
    | field off ty msg wl =>
      unfold decodeEncItems
      split
      · exact good_perr _
      · apply good_bind (good_decode ty msg ver (by have := hit.2.2; omega))
        intro f _
        apply good_bind (ih hrest)
        intro fs _
        exact good_pure _

theorem good_decryptFields (dec : Dec) (key nonce ct aad : Bytes) (ver : Ver) :
    ∀ r, decryptFields dec key nonce ct aad ver = some r → Good r := by
  intro r h
  unfold decryptFields at h
  split at h
  · cases h
  · cases h
    exact good_decodeEncItems ver _ _ (stream_ok _ _ _ _)

/-! ### `ExtensionFieldData::deserialize` is good -/

theorem good_efStep (dec : Dec) (ctx : Ctx) (data : Bytes) (headerSize : Nat) (ver : Ver)
    (st : EFState) (off ty : Nat) (msg : Bytes) (wl : Nat)
    (hoff : headerSize + off ≤ data.length) (hmsg : msg.length ≤ 65535) :
    Good (efStep dec ctx data headerSize ver st off ty msg wl) := by
  unfold efStep
  simp only
  split
  · split
    · exact good_perr _
    · split
      · exact good_ok _
      · rw [sliceP_of_le (Nat.zero_le _) hoff]
        simp only
        split
        · exact good_ok _
        · rename_i e he
          exact good_error (good_decryptFields _ _ _ _ _ _ _ he)
        · rename_i fields he
          exact good_ok _
  · have := good_decode ty msg ver hmsg
    split
    · rename_i e he; rw [he] at this; exact good_error this
    · exact good_ok _

theorem efStep_size {dec ctx data headerSize ver st off ty msg wl st'}
    (h : efStep dec ctx data headerSize ver st off ty msg wl = .ok st') : st'.size = off + wl := by
  unfold efStep at h
  simp only at h
  repeat' split at h
  all_goals first
    | (cases h; done)
    | (cases h; rfl)

theorem good_efLoop (dec : Dec) (ctx : Ctx) (data : Bytes) (headerSize : Nat) (ver : Ver)
    (lim : Nat) (hlim : headerSize + lim ≤ data.length) :
    ∀ (items : List Item) (st : EFState), (∀ it ∈ items, ItemOK ver lim it) → st.size ≤ lim →
      Good (efLoop dec ctx data headerSize ver items st) ∧
      ∀ st', efLoop dec ctx data headerSize ver items st = .ok st' → st'.size ≤ lim := by
  intro items
  induction items with
  | nil =>
    intro st _ hs
    unfold efLoop
    exact ⟨good_ok _, fun st' h => by cases h; exact hs⟩
  | cons it rest ih =>
    intro st h hs
    have hit := h it (List.mem_cons_self)
    have hrest : ∀ it ∈ rest, ItemOK ver lim it := fun x hx => h x (List.mem_cons_of_mem _ hx)
    cases it with
    | err e => unfold efLoop; exact ⟨good_perr _, fun st' h => by cases h⟩
    | panic => exact absurd hit (by simp [ItemOK])
    | fuel => exact absurd hit (by simp [ItemOK])
    | field off ty msg wl =>
      obtain ⟨hw, hb, hm⟩ := hit
      have hwl : 0 < wl := by
        unfold wireLength at hw
        simp only at hw
        split at hw
        · cases hw
        · cases hw; have := nm4_ge (2 + 2 + msg.length); omega
      have hg := good_efStep dec ctx data headerSize ver st off ty msg wl (by omega) (by omega)
      unfold efLoop
      split
      · rename_i e he
        rw [he] at hg
        exact ⟨hg, fun st' h => by cases h⟩
      · rename_i st1 he
        have := efStep_size he
        exact ih st1 hrest (by omega)

theorem good_efDeserialize (dec : Dec) (ctx : Ctx) (data : Bytes) (headerSize : Nat) (ver : Ver)
    (hh : headerSize ≤ data.length) : Good (efDeserialize dec ctx data headerSize ver) := by
  unfold efDeserialize
  rw [sliceP_of_le hh (Nat.le_refl _)]
  simp only
  have hbody : ((data.drop headerSize).take (data.length - headerSize)).length = data.length - headerSize := by
    simp
  obtain ⟨hg, hsz⟩ := good_efLoop dec ctx data headerSize ver (data.length - headerSize) (by omega)
    (stream ((data.drop headerSize).take (data.length - headerSize)) (macCutoff ver)
      Gen.EF_V4_UNENCRYPTED_MINIMUM_SIZE ver) .init
    (by have := stream_ok ((data.drop headerSize).take (data.length - headerSize)) (macCutoff ver)
          Gen.EF_V4_UNENCRYPTED_MINIMUM_SIZE ver
        rw [hbody] at this; exact this)
    (by simp [EFState.init])
  split
  · rename_i e he; rw [he] at hg; exact good_error hg
  · rename_i st he
    have := hsz st he
    rw [sliceP_of_le (by omega) (Nat.le_refl _)]
    exact good_ok _

/-! ### headers, MAC, whole packet -/

theorem good_idxP (bs : Bytes) (i : Nat) (h : i < bs.length) : Good (idxP bs i) := by
  rw [idxP_of_lt h]; exact good_ok _

theorem good_sliceP (bs : Bytes) (a b : Nat) (h1 : a ≤ b) (h2 : b ≤ bs.length) : Good (sliceP bs a b) := by
  rw [sliceP_of_le h1 h2]; exact good_ok _

theorem sliceP_length {bs : Bytes} {a b : Nat} {s : Bytes} (h : sliceP bs a b = .ok s) : s.length = b - a := by
  unfold sliceP at h
  split at h
  · rename_i s' hs; cases h; exact (slice?_some hs).2.2.2
  · cases h

theorem good_leap (b : UInt8) : Good (Leap.fromBits (b.toNat / 64)) := by
  have := b.toNat_lt
  have h : b.toNat / 64 < 4 := by omega
  generalize b.toNat / 64 = n at h
  match n, h with
  | 0, _ => exact good_ok _
  | 1, _ => exact good_ok _
  | 2, _ => exact good_ok _
  | 3, _ => exact good_ok _

theorem good_mode (b : UInt8) : Good (modeFromBits (b.toNat % 8)) := by
  unfold modeFromBits
  have : b.toNat % 8 < 8 := by omega
  simp [this]; exact good_ok _

macro "good_step" : tactic => `(tactic| first
  | exact good_ok _
  | exact good_pure _
  | exact good_perr _
  | (apply good_bind (good_idxP _ _ (by omega)); intro _ _)
  | (apply good_bind (good_sliceP _ _ _ (by omega) (by omega)); intro _ _)
  | (apply good_bind (good_leap _); intro _ _)
  | (apply good_bind (good_mode _); intro _ _))

theorem good_headerV34 (data : Bytes) : Good (HeaderV34.deserialize data) := by
  unfold HeaderV34.deserialize
  have hc : Gen.HEADER_V3V4_WIRE_LENGTH = 48 := rfl
  rw [hc]
  split
  · exact good_perr _
  · repeat good_step

theorem headerV34_size {data : Bytes} {h : HeaderV34} {hs : Nat}
    (e : HeaderV34.deserialize data = .ok (h, hs)) : hs = 48 ∧ 48 ≤ data.length := by
  unfold HeaderV34.deserialize at e
  have hc : Gen.HEADER_V3V4_WIRE_LENGTH = 48 := rfl
  rw [hc] at e
  split at e
  · cases e
  · rename_i hl
    simp only [bind, Except.bind, pure, Except.pure] at e
    repeat' split at e
    all_goals first
      | (cases e; done)
      | (cases e; omega)

theorem good_headerV5 (data : Bytes) : Good (HeaderV5.deserialize data) := by
  unfold HeaderV5.deserialize
  have hc : Gen.HEADER_V5_WIRE_LENGTH = 48 := rfl
  rw [hc]
  split
  · exact good_perr _
  · good_step
    simp only
    split
    · exact good_perr _
    · good_step
      split
      · exact good_perr _
      · repeat good_step
        split
        · exact good_perr _
        · good_step
          good_step
          rename_i fl hfl
          have := sliceP_length hfl
          good_step
          good_step
          split
          · exact good_perr _
          · repeat good_step

theorem headerV5_size {data : Bytes} {h : HeaderV5} {hs : Nat}
    (e : HeaderV5.deserialize data = .ok (h, hs)) : hs = 48 ∧ 48 ≤ data.length := by
  unfold HeaderV5.deserialize at e
  have hc : Gen.HEADER_V5_WIRE_LENGTH = 48 := rfl
  rw [hc] at e
  split at e
  · cases e
  · rename_i hl
    simp only [bind, Except.bind, pure, Except.pure] at e
    repeat' split at e
    all_goals first
      | (cases e; done)
      | (cases e; omega)

theorem good_mac (data : Bytes) : Good (Mac.deserialize data) := by
  unfold Mac.deserialize
  split
  · exact good_perr _
  · repeat good_step

theorem good_constructPacket (header : Header) (remaining : Bytes) (ef : EFData) :
    Good (constructPacket header remaining ef) := by
  unfold constructPacket
  split
  · apply good_bind (good_mac _); intro _ _; exact good_pure _
  · exact good_pure _

theorem good_parseEF (dec : Dec) (ctx : Ctx) (data : Bytes) (header : Header)
    (headerSize : Nat) (ver : Ver) (hh : headerSize ≤ data.length) :
    Good (parseEF dec ctx data header headerSize ver) := by
  unfold parseEF
  apply good_bind (good_efDeserialize dec ctx data headerSize ver hh); intro _ _
  apply good_bind (good_constructPacket _ _ _); intro _ _
  exact good_pure _

theorem good_parseR (dec : Dec) (ctx : Ctx) (data : Bytes) : Good (parseR dec ctx data) := by
  unfold parseR
  split
  · exact good_perr _
  · simp only
    split
    · apply good_bind (good_headerV34 _)
      rintro ⟨h, hs⟩ e
      obtain ⟨h1, h2⟩ := headerV34_size e
      simp only
      split
      · apply good_bind (good_sliceP _ _ _ (by omega) (Nat.le_refl _)); intro _ _
        apply good_bind (good_mac _); intro _ _
        exact good_pure _
      · exact good_pure _
    · split
      · apply good_bind (good_headerV34 _)
        rintro ⟨h, hs⟩ e
        obtain ⟨h1, h2⟩ := headerV34_size e
        exact good_parseEF dec ctx _ _ _ _ (by omega)
      · split
        · apply good_bind (good_headerV5 _)
          rintro ⟨h, hs⟩ e
          obtain ⟨h1, h2⟩ := headerV5_size e
          apply good_bind (good_parseEF dec ctx _ _ _ _ (by omega))
          rintro ⟨p, c, v⟩ _
          simp only
          repeat' split
          all_goals first
            | exact good_pure _
            | exact good_perr _
        · exact good_perr _

end NtpVerif.Wire
