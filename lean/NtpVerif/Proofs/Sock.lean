/- Helper lemmas for C40: `deserialize_sample` on a 40-byte buffer as a decision list; datagram reception. -/
import NtpVerif.Model.Sock
import NtpVerif.Proofs.GlueTime

namespace NtpVerif.Sock
open NtpVerif NtpVerif.Wrap NtpVerif.GlueTime

/-- the regenerated source constants are the literals of the property text -/
theorem size_eq : Gen.SOCK_SAMPLE_SIZE = 40 := rfl
theorem magic_eq : (Gen.SOCK_MAGIC : Int) = 0x534f434b := rfl
theorem recv_buf_eq : RECV_BUF = 41 := rfl

theorem arr_ok (buf : List UInt8) (a n : Nat) (h : a + n ≤ buf.length) :
    arr buf a n = .ok ((buf.drop a).take n) := by
  unfold arr
  have : ((buf.drop a).take n).length = n := by
    rw [List.length_take, List.length_drop]; omega
  simp [h, this]

/-- the checks of `deserialize_sample` as a decision list (generic in the finiteness test) -/
def decide40 (checkFinite : Bool) (res : Option Nat) (buf : List UInt8) : Except Err Sample :=
  match res with
  | none => .error .io
  | some n =>
    if n ≠ 40 then .error (.wrongSize n)
    else if magicOf buf ≠ 0x534f434b then .error (.wrongMagic (magicOf buf))
    else if pulseOf buf ≠ 0 then .error (.wrongPulse (pulseOf buf))
    else if checkFinite && !(offsetOf buf).isFinite then .error .nonFinite
    else .ok ⟨offsetOf buf, pulseOf buf, leapOf buf, magicOf buf⟩

theorem deser_eq (res : Option Nat) (buf : List UInt8) (h : buf.length = 40) :
    deserializeSample res buf = decide40 true res buf := by
  unfold deserializeSample decide40
  cases res with
  | none => rfl
  | some n =>
    simp only [size_eq, magic_eq, arr_ok buf 16 8 (by omega), arr_ok buf 24 4 (by omega),
      arr_ok buf 28 4 (by omega), arr_ok buf 36 4 (by omega), bind, Except.bind, pure, Except.pure,
      offsetOf, pulseOf, leapOf, magicOf, Bool.true_and]
    split <;> rfl

theorem deser_unfixed_eq (res : Option Nat) (buf : List UInt8) (h : buf.length = 40) :
    deserializeSampleUnfixed res buf = decide40 false res buf := by
  unfold deserializeSampleUnfixed decide40
  cases res with
  | none => rfl
  | some n =>
    simp only [size_eq, magic_eq, arr_ok buf 16 8 (by omega), arr_ok buf 24 4 (by omega),
      arr_ok buf 28 4 (by omega), arr_ok buf 36 4 (by omega), bind, Except.bind, pure, Except.pure,
      offsetOf, pulseOf, leapOf, magicOf, Bool.false_and]
    split <;> simp

/-! datagram reception -/

theorem recv_length (n : Nat) (d : List UInt8) : (recv n d).2.length = n := by
  simp only [recv, List.length_append, List.length_take, List.length_replicate]; omega

theorem recv_size (n : Nat) (d : List UInt8) : (recv n d).1 = min d.length n := rfl

theorem recv_exact (n k : Nat) (d : List UInt8) (h : d.length = k) (hk : k ≤ n) :
    (recv n d).2.take k = d := by
  simp only [recv]
  rw [List.take_append_of_le_length (by rw [List.length_take]; omega)]
  rw [List.take_take, Nat.min_eq_left hk, ← h, List.take_length]

theorem sampleBuf_recv (d : List UInt8) :
    ∃ buf, sampleBuf (recv RECV_BUF d).2 = some buf ∧ buf.length = 40 ∧
      (d.length = 40 → buf = d) := by
  have hl := recv_length RECV_BUF d
  rw [recv_buf_eq] at hl
  refine ⟨(recv RECV_BUF d).2.take 40, ?_, ?_, ?_⟩
  · simp [sampleBuf, size_eq, recv_buf_eq, hl]
  · rw [recv_buf_eq, List.length_take, hl]; rfl
  · intro h; exact recv_exact RECV_BUF 40 d h (by rw [recv_buf_eq]; omega)

end NtpVerif.Sock
