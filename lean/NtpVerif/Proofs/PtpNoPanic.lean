/- C43: no panic inside the link filter and `steer_clocks` on well-formed controllers. -/
import NtpVerif.Proofs.PtpSweep
import NtpVerif.Proofs.PtpCtrlInv

set_option linter.unusedSimpArgs false
set_option linter.unusedVariables false

namespace NtpVerif.PtpFilter
open NtpVerif.Estimator NtpVerif.PtpCtrl

/-- failures that would be bugs: a panic or a `MatrixError` inside the estimator -/
def FErr.isBug : FErr → Bool
  | .est e => e.isBug
  | _ => false

/-- the one arithmetic fact used: for a non-negative half width `h`, `x − h` does not sort after `x + h`
    and finite (IEEE: true for all `x` incl. ±∞ and NaN, except the signed-zero corner `x = −0, h = −0`, which
    needs a negative-zero weight or uncertainty; checked on the hardware by op `wlaw` of stream c43_ctrl) -/
def WindowLaw : Prop :=
  ∀ x h : F64, F64.ge h F64.zero = true → h.isFinite = true →
    boundLe (F64.sub x h, false) (F64.add x h, true) = true

/-- a half width that passed `h ≥ 0 && h < max_window` is finite (for `h = +∞` the law fails: `−∞ − ∞ = −∞`
    but `−∞ + ∞` is the default NaN, which sorts below everything) -/
theorem finite_of_bounds {h m : F64} (h1 : F64.ge h F64.zero = true) (h2 : F64.lt h m = true) :
    h.isFinite = true := by
  unfold F64.ge F64.le at h1
  unfold F64.lt at h2
  simp only [Bool.and_eq_true, Bool.not_eq_true', decide_eq_true_eq] at h1 h2
  obtain ⟨⟨_, _⟩, hk1⟩ := h1
  obtain ⟨⟨_, hm⟩, hk2⟩ := h2
  have hz : F64.zero.key = 0 := by decide
  rw [hz] at hk1
  unfold F64.isNaN at hm
  simp only [decide_eq_false_iff_not, Nat.not_lt] at hm
  unfold F64.isFinite
  simp only [decide_eq_true_eq]
  have hmk : m.key ≤ (m.mag : Int) := by unfold F64.key; split <;> omega
  have hh : h.key = if h.signBit then -(h.mag : Int) else (h.mag : Int) := rfl
  rw [hh] at hk1 hk2
  by_cases hs : h.signBit = true
  · simp only [hs, if_true] at hk1
    have : h.mag = 0 := by omega
    rw [this]; decide
  · simp only [hs, Bool.false_eq_true, if_false] at hk2
    omega

theorem bindErr {ε β γ : Type} {x : Except ε β} {f : β → Except ε γ} {e : ε} (h : (x >>= f) = .error e) :
    x = .error e ∨ ∃ a, x = .ok a ∧ f a = .error e := by
  cases x with
  | error e' => left; simpa [bind, Except.bind] using h
  | ok a => right; exact ⟨a, rfl, h⟩

theorem liftE_err {β : Type} {x : R β} {e : FErr} (h : liftE x = .error e) : ∃ e', x = .error e' ∧ e = .est e' := by
  cases x with
  | error e' => simp [liftE] at h; exact ⟨e', rfl, h.symm⟩
  | ok a => simp [liftE] at h

theorem clockOffset_total {s : E} (h : WF s) (id : Nat) :
    (∃ v, clockOffset s id = .ok v) ∨ clockOffset s id = .error .UnknownClock := by
  unfold clockOffset report clockOffsetRaw
  cases hc : getClock s id with
  | error e => right; rw [getClock_noBug hc]; rfl
  | ok c =>
    left
    have := h.layout.clk_range c (getClock_mem hc).1
    obtain ⟨v, hv⟩ := Option.isSome_iff_exists.mp (Mat.get_isSome h.dims.vwf (r := c.offsetIndex) (c := 0)
      (by simp [ClockInfo.offsetIndex]; omega) (by rw [h.dims.vcols]; omega))
    obtain ⟨u, hu⟩ := Option.isSome_iff_exists.mp (Mat.get_isSome h.dims.uwf (r := c.offsetIndex) (c := c.offsetIndex)
      (by rw [h.dims.urows]; simp [ClockInfo.offsetIndex]; omega)
      (by rw [h.dims.ucols]; simp [ClockInfo.offsetIndex]; omega))
    exact ⟨(v, Num.sqrt u), by simp [bind, Except.bind, hv, hu, orPanic, Except.map, pure, Except.pure]⟩

theorem clockFrequency_total {s : E} (h : WF s) (id : Nat) :
    (∃ v, clockFrequency s id = .ok v) ∨ clockFrequency s id = .error .UnknownClock := by
  unfold clockFrequency report clockFrequencyRaw
  cases hc : getClock s id with
  | error e => right; rw [getClock_noBug hc]; rfl
  | ok c =>
    left
    have := h.layout.clk_range c (getClock_mem hc).1
    obtain ⟨v, hv⟩ := Option.isSome_iff_exists.mp (Mat.get_isSome h.dims.vwf (r := c.frequencyIndex) (c := 0)
      (by simp [ClockInfo.frequencyIndex]; omega) (by rw [h.dims.vcols]; omega))
    obtain ⟨u, hu⟩ := Option.isSome_iff_exists.mp (Mat.get_isSome h.dims.uwf (r := c.frequencyIndex)
      (c := c.frequencyIndex)
      (by rw [h.dims.urows]; simp [ClockInfo.frequencyIndex]; omega)
      (by rw [h.dims.ucols]; simp [ClockInfo.frequencyIndex]; omega))
    exact ⟨(v, Num.sqrt u), by simp [bind, Except.bind, hv, hu, orPanic, Except.map, pure, Except.pure]⟩

theorem mapM_ok {β γ : Type} (f : β → RF γ) (P : γ → Prop) :
    ∀ l : List β, (∀ x ∈ l, ∃ y, f x = .ok y ∧ P y) → ∃ ys, l.mapM f = .ok ys ∧ ∀ y ∈ ys, P y
  | [], _ => ⟨[], rfl, by intro y hy; cases hy⟩
  | x :: xs, h => by
    obtain ⟨y, hy, py⟩ := h x List.mem_cons_self
    obtain ⟨ys, hys, pys⟩ := mapM_ok f P xs (fun z hz => h z (List.mem_cons_of_mem _ hz))
    refine ⟨y :: ys, ?_, ?_⟩
    · simp [List.mapM_cons, hy, hys, bind, Except.bind, pure, Except.pure]
    · intro z hz
      simp only [List.mem_cons] at hz
      rcases hz with rfl | hz
      · exact py
      · exact pys z hz

def Window.Ordered (w : Window) : Prop := boundLe (w.low, false) (w.high, true) = true

theorem offsetWindow_total (hlaw : WindowLaw) (l : FLink) (cfg : Cfg) {est : E} (h : WF est) :
    ∃ r, offsetWindow l cfg est = .ok r ∧ ∀ w, r = some w → w.Ordered := by
  have hord : ∀ w, offsetWindow l cfg est = .ok (some w) → w.Ordered := by
    intro w hw
    obtain ⟨e, delay, noise, _, _, _, _, hlt, hge, x, rfl⟩ := offsetWindow_some hw
    exact hlaw x _ hge (finite_of_bounds hge hlt)
  suffices ∃ r, offsetWindow l cfg est = .ok r by
    obtain ⟨r, hr⟩ := this
    exact ⟨r, hr, fun w hw => hord w (by rw [hr, hw])⟩
  unfold offsetWindow
  split
  · exact ⟨_, rfl⟩
  · split
    · exact ⟨_, rfl⟩
    · rename_i e he hcond
      have hov : ∃ r, offsetValue est (if isInternal est l.id.a = true then l.id.a else l.id.b) = .ok r := by
        unfold offsetValue
        rcases clockOffset_total h (if isInternal est l.id.a = true then l.id.a else l.id.b) with ⟨v, hv⟩ | hv
        · rw [hv]; exact ⟨_, rfl⟩
        · rw [hv]; exact ⟨_, rfl⟩
      obtain ⟨r, hr⟩ := hov
      simp only [hr, bind, Except.bind]
      cases r with
      | none => exact ⟨_, rfl⟩
      | some io =>
        simp only
        split
        · exact ⟨_, rfl⟩
        · split <;> exact ⟨_, rfl⟩

theorem windows_total (hlaw : WindowLaw) (f : Filter) (cfg : Cfg) (h : WF f.est) :
    ∃ ws, windows f cfg = .ok ws ∧ ∀ o ∈ ws, ∀ w, o = some w → w.Ordered := by
  unfold windows
  exact mapM_ok _ (fun o : Option Window => ∀ w : Window, o = some w → w.Ordered) f.links
    (fun l _ => offsetWindow_total hlaw l cfg h)

theorem consensus_total (hlaw : WindowLaw) (f : Filter) (cfg : Cfg) (h : WF f.est) :
    ∃ r, consensus f cfg = .ok r := by
  obtain ⟨ws, hws, hord⟩ := windows_total hlaw f cfg h
  obtain ⟨r, hr⟩ := consensusOf_total cfg ws (by
    intro w hw
    obtain ⟨o, ho, hid⟩ := List.mem_filterMap.mp hw
    simp only [id] at hid
    exact hord o ho w hid)
  exact ⟨r, by unfold consensus; simp only [hws, bind, Except.bind]; exact hr⟩

theorem agreeing_total (hlaw : WindowLaw) (f : Filter) (cfg : Cfg) (h : WF f.est) (cw : Window) :
    ∃ ls, agreeing f cfg cw = .ok ls := by
  obtain ⟨ws, hws, _⟩ := windows_total hlaw f cfg h
  exact ⟨_, by unfold agreeing; simp only [hws, bind, Except.bind]; rfl⟩

theorem leapVote_total (hlaw : WindowLaw) (f : Filter) (cfg : Cfg) (h : WF f.est) :
    ∃ r, f.leapVote cfg = .ok r := by
  obtain ⟨r, hr⟩ := consensus_total hlaw f cfg h
  cases r with
  | none => exact ⟨none, by unfold Filter.leapVote; simp only [hr, bind, Except.bind]; rfl⟩
  | some cw =>
    obtain ⟨ls, hls⟩ := agreeing_total hlaw f cfg h cw
    unfold Filter.leapVote
    simp only [hr, hls, bind, Except.bind]
    split <;> (try split) <;> (try split) <;> exact ⟨_, rfl⟩

theorem localRootDelay_total (hlaw : WindowLaw) (f : Filter) (cfg : Cfg) (h : WF f.est) :
    ∃ r, f.localRootDelay cfg = .ok r := by
  obtain ⟨r, hr⟩ := consensus_total hlaw f cfg h
  cases r with
  | none => exact ⟨none, by unfold Filter.localRootDelay; simp only [hr, bind, Except.bind]; rfl⟩
  | some cw =>
    obtain ⟨ls, hls⟩ := agreeing_total hlaw f cfg h cw
    exact ⟨_, by unfold Filter.localRootDelay; simp only [hr, hls, bind, Except.bind]; rfl⟩

end NtpVerif.PtpFilter
