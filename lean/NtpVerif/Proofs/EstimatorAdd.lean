/- C42: add_clock / add_link / external clocks / steer absorption on well-formed states. -/
import NtpVerif.Proofs.EstimatorOps

set_option linter.unusedSimpArgs false
set_option linter.unusedVariables false

namespace NtpVerif.Estimator

variable {α : Type}

theorem extend_spec [Num α] {s : Est α} (h : Dims s) (values : List α) (block : Nat → Nat → Option α)
    (hblock : ∀ i j, i < values.length → j < values.length → (block i j).isSome) :
    ∃ st' unc', s.state.extendVec values = .ok st' ∧ s.unc.extend values.length block = some unc' ∧
      st'.rows = s.state.rows + values.length ∧ st'.cols = 1 ∧ st'.WFm ∧
      unc'.rows = s.state.rows + values.length ∧ unc'.cols = s.state.rows + values.length ∧ unc'.WFm ∧
      (∀ r, r < s.state.rows → st'.get r 0 = s.state.get r 0) ∧
      (∀ r c, r < s.state.rows → c < s.state.rows → unc'.get r c = s.unc.get r c) ∧
      (∀ i, i < values.length → st'.get (s.state.rows + i) 0 = values[i]?) ∧
      (∀ i j, i < values.length → j < values.length →
        unc'.get (s.state.rows + i) (s.state.rows + j) = block i j) := by
  have hv : ∃ st', Mat.newM (s.state.rows + values.length) 1 (fun row _ =>
      if row < s.state.rows then s.state.get row 0 else values[row - s.state.rows]?) = some st' := by
    apply Mat.newM_exists
    intro r c hr hc
    split
    · rename_i hlt
      exact Mat.get_isSome h.vwf hlt (by rw [h.vcols]; omega)
    · have : r - s.state.rows < values.length := by omega
      simp [this]
  have hu : ∃ unc', Mat.newM (s.unc.rows + values.length) (s.unc.cols + values.length) (fun row col =>
      if row < s.unc.rows ∧ col < s.unc.cols then s.unc.get row col
      else if row ≥ s.unc.rows ∧ col ≥ s.unc.cols then block (row - s.unc.rows) (col - s.unc.cols)
      else some Num.zero) = some unc' := by
    apply Mat.newM_exists
    intro r c hr hc
    split
    · rename_i hlt
      exact Mat.get_isSome h.uwf hlt.1 hlt.2
    · split
      · exact hblock _ _ (by omega) (by omega)
      · rfl
  obtain ⟨st', hst⟩ := hv
  obtain ⟨unc', hunc⟩ := hu
  obtain ⟨a1, a2, a3, a4⟩ := Mat.newM_some hst
  obtain ⟨b1, b2, b3, b4⟩ := Mat.newM_some hunc
  refine ⟨st', unc', ?_, ?_, a1, a2, a3, by rw [b1, h.urows], by rw [b2, h.ucols], b3, ?_, ?_, ?_, ?_⟩
  · unfold Mat.extendVec
    rw [if_neg (fun hne => hne h.vcols), hst]; rfl
  · unfold Mat.extend
    exact hunc
  · intro r hr
    rw [a4 r 0 (by omega) (by omega)]
    simp [hr]
  · intro r c hr hc
    rw [b4 r c (by rw [h.urows]; omega) (by rw [h.ucols]; omega)]
    have : r < s.unc.rows ∧ c < s.unc.cols := by rw [h.urows, h.ucols]; exact ⟨hr, hc⟩
    simp [this]
  · intro i hi
    rw [a4 _ 0 (by omega) (by omega)]
    have : ¬ (s.state.rows + i < s.state.rows) := by omega
    simp [this]
  · intro i j hi hj
    rw [b4 _ _ (by rw [h.urows]; omega) (by rw [h.ucols]; omega)]
    have h3 : ¬ (s.state.rows + i < s.state.rows ∧ s.state.rows + j < s.state.rows) := by omega
    have h4 : s.state.rows + i ≥ s.state.rows ∧ s.state.rows + j ≥ s.state.rows := by omega
    simp only [h.urows, h.ucols, h3, if_false, h4, and_self, if_true, Nat.add_sub_cancel_left]

/-! ### add_clock -/

theorem clockBlock_some [Num α] (offU freqU : α) :
    ∀ i j, i < 2 → j < 2 → (clockBlock offU freqU i j).isSome := by
  intro i j hi hj
  match i, j, hi, hj with
  | 0, 0, _, _ => rfl
  | 0, 1, _, _ => rfl
  | 1, 0, _, _ => rfl
  | 1, 1, _, _ => rfl

theorem linkBlock_some [Num α] (delayU : α) : ∀ i j, i < 1 → j < 1 → (linkBlock delayU i j).isSome := by
  intro i j hi hj
  match i, j, hi, hj with
  | 0, 0, _, _ => rfl

theorem addClock_spec [Num α] {s : Est α} (h : WF s) {id : Nat} (off offU freq freqU wander : α)
    (hext : isExternal s id = false) (hint : isInternal s id = false) :
    ∃ st' unc', addClock s id off offU freq freqU wander = .ok { s with
        clocks := s.clocks ++ [{ id, base := s.state.rows, wander }], state := st', unc := unc' } ∧
      st'.rows = s.state.rows + 2 ∧ st'.cols = 1 ∧ st'.WFm ∧
      unc'.rows = s.state.rows + 2 ∧ unc'.cols = s.state.rows + 2 ∧ unc'.WFm ∧
      (∀ r, r < s.state.rows → st'.get r 0 = s.state.get r 0) ∧
      (∀ r c, r < s.state.rows → c < s.state.rows → unc'.get r c = s.unc.get r c) ∧
      st'.get s.state.rows 0 = some off ∧ st'.get (s.state.rows + 1) 0 = some freq ∧
      unc'.get s.state.rows s.state.rows = some (sq offU) ∧
      unc'.get (s.state.rows + 1) (s.state.rows + 1) = some (sq freqU) := by
  obtain ⟨st', unc', e1, e2, r1, r2, r3, r4, r5, r6, r7, r8, r9, r10⟩ :=
    extend_spec h.dims [off, freq] (clockBlock offU freqU) (clockBlock_some offU freqU)
  refine ⟨st', unc', ?_, r1, r2, r3, r4, r5, r6, r7, r8, ?_, ?_, ?_, ?_⟩
  · have e2' : s.unc.extend 2 (clockBlock offU freqU) = some unc' := e2
    simp only [addClock, hext, hint, Bool.false_eq_true, if_false, e1, e2', orPanic, bind,
      Except.bind, pure, Except.pure]
  · simpa using r9 0 (by simp)
  · simpa using r9 1 (by simp)
  · simpa [clockBlock] using r10 0 0 (by simp) (by simp)
  · simpa [clockBlock] using r10 1 1 (by simp) (by simp)

theorem addClock_dup {s : Est α} [Num α] {id : Nat} (off offU freq freqU wander : α)
    (h : isKnown s id = true) : addClock s id off offU freq freqU wander = .error .ClockAlreadyExists := by
  unfold isKnown at h
  unfold addClock
  cases he : isExternal s id with
  | true => simp
  | false =>
    rw [he] at h
    simp only [Bool.or_false] at h
    simp [h]

theorem not_internal_iff {s : Est α} {id : Nat} :
    isInternal s id = false ↔ ∀ c ∈ s.clocks, c.id ≠ id := by
  unfold isInternal
  rw [List.any_eq_false]
  constructor
  · intro h c hc; simpa using h c hc
  · intro h c hc; simpa using h c hc

theorem addClock_ok_form [Num α] {s s' : Est α} (h : WF s) {id : Nat} {off offU freq freqU wander : α}
    (hs : addClock s id off offU freq freqU wander = .ok s') :
    isExternal s id = false ∧ isInternal s id = false := by
  cases he : isExternal s id with
  | true => simp [addClock, he] at hs
  | false =>
    cases hi : isInternal s id with
    | true => simp [addClock, he, hi] at hs
    | false => exact ⟨rfl, rfl⟩

theorem addClock_wf [Num α] {s s' : Est α} (h : WF s) {id : Nat} {off offU freq freqU wander : α}
    (hs : addClock s id off offU freq freqU wander = .ok s') : WF s' := by
  obtain ⟨hext, hint⟩ := addClock_ok_form h hs
  obtain ⟨st', unc', heq, r1, r2, r3, r4, r5, r6, r7, r8, _⟩ :=
    addClock_spec h off offU freq freqU wander hext hint
  rw [heq] at hs
  cases hs
  have hfresh := not_internal_iff.mp hint
  refine ⟨⟨r2, r3, by simp [r1, r4], by simp [r1, r5], r6⟩, ⟨?_, h.ids.lnk, ?_⟩, ?_⟩
  · simp only
    rw [List.pairwise_append]
    refine ⟨h.ids.clk, by simp, ?_⟩
    intro a ha b hb
    simp only [List.mem_singleton] at hb
    subst hb
    exact hfresh a ha
  · intro c hc
    simp only [List.mem_append, List.mem_singleton] at hc
    rcases hc with hc | rfl
    · exact h.ids.clk_ext c hc
    · simpa [isExternal] using hext
  · simp only [r1]
    constructor
    · intro c hc
      simp only [List.mem_append, List.mem_singleton] at hc
      rcases hc with hc | rfl
      · have := h.layout.clk_range c hc; omega
      · simp
    · intro l hl
      have := h.layout.lnk_range l hl; omega
    · intro c hc d hd hne
      simp only [List.mem_append, List.mem_singleton] at hc hd
      rcases hc with hc | rfl <;> rcases hd with hd | rfl
      · exact h.layout.clk_clk c hc d hd hne
      · have := h.layout.clk_range c hc; left; simp; omega
      · have := h.layout.clk_range d hd; right; simp; omega
      · exact absurd rfl hne
    · exact h.layout.lnk_lnk
    · intro c hc l hl
      simp only [List.mem_append, List.mem_singleton] at hc
      rcases hc with hc | rfl
      · exact h.layout.clk_lnk c hc l hl
      · have := h.layout.lnk_range l hl; left; simp; omega
    · intro k hk
      by_cases hkn : k < s.state.rows
      · rcases h.layout.cover k hkn with ⟨c, hc, h1, h2⟩ | hl
        · left; exact ⟨c, List.mem_append_left _ hc, h1, h2⟩
        · right; exact hl
      · left
        refine ⟨_, List.mem_append_right _ (List.mem_singleton.mpr rfl), ?_⟩
        simp; omega

theorem find_append_other {β : Type} (l : List β) (x : β) (p : β → Bool) (hx : p x = false) :
    (l ++ [x]).find? p = l.find? p := by
  rw [List.find?_append]
  simp [List.find?_cons, hx]

theorem addClock_others [Num α] {s s' : Est α} (h : WF s) {id : Nat} {off offU freq freqU wander : α}
    (hs : addClock s id off offU freq freqU wander = .ok s') :
    (∀ j, j ≠ id → clockOffsetRaw s' j = clockOffsetRaw s j ∧
      clockFrequencyRaw s' j = clockFrequencyRaw s j) ∧
    (∀ lid, linkDelayRaw s' lid = linkDelayRaw s lid) := by
  obtain ⟨hext, hint⟩ := addClock_ok_form h hs
  obtain ⟨st', unc', heq, r1, r2, r3, r4, r5, r6, r7, r8, _⟩ :=
    addClock_spec h off offU freq freqU wander hext hint
  rw [heq] at hs
  cases hs
  constructor
  · intro j hne
    apply clockRaw_congr (fun c => c)
    · rw [find_append_other _ _ _ (by simpa using Ne.symm hne)]; simp
    · intro c hc
      have hcm := List.mem_of_find?_eq_some hc
      have hcr := h.layout.clk_range c hcm
      exact ⟨r7 c.base (by omega), r8 c.base c.base (by omega) (by omega), r7 (c.base + 1) (by omega), r8 (c.base + 1) (c.base + 1) (by omega) (by omega)⟩
  · intro lid
    apply linkRaw_congr (fun l => l)
    · simp
    · intro l hl
      have hlm := List.mem_of_find?_eq_some hl
      have hlr := h.layout.lnk_range l hlm
      exact ⟨r7 l.index hlr, r8 l.index l.index hlr hlr⟩

/-- the new clock reports what it was given -/
theorem addClock_reads_new [Num α] {s s' : Est α} (h : WF s) {id : Nat} {off offU freq freqU wander : α}
    (hs : addClock s id off offU freq freqU wander = .ok s') :
    clockOffsetRaw s' id = .ok (off, sq offU) ∧ clockFrequencyRaw s' id = .ok (freq, sq freqU) := by
  obtain ⟨hext, hint⟩ := addClock_ok_form h hs
  obtain ⟨st', unc', heq, r1, r2, r3, r4, r5, r6, r7, r8, n1, n2, n3, n4⟩ :=
    addClock_spec h off offU freq freqU wander hext hint
  rw [heq] at hs
  cases hs
  have hfind : (s.clocks ++ [({ id, base := s.state.rows, wander } : ClockInfo α)]).find?
      (fun c => c.id == id) = some { id, base := s.state.rows, wander } := by
    rw [List.find?_append]
    have : s.clocks.find? (fun c => c.id == id) = none := by
      rw [List.find?_eq_none]
      intro x hx
      simpa using not_internal_iff.mp hint x hx
    simp [this]
  simp only [clockOffsetRaw, clockFrequencyRaw, getClock, hfind, bind, Except.bind,
    ClockInfo.offsetIndex, ClockInfo.frequencyIndex, n1, n2, n3, n4, orPanic, pure, Except.pure, and_self]

/-! ### add_link -/

theorem addLink_ok_form [Num α] {s s' : Est α} {id : LinkId} {d du dec : α}
    (hs : addLink s id d du dec = .ok s') :
    isKnown s id.a = true ∧ isKnown s id.b = true ∧ s.links.any (fun l => l.id == id) = false := by
  cases ha : isKnown s id.a with
  | false => simp [addLink, ha] at hs
  | true =>
    cases hb : isKnown s id.b with
    | false => simp [addLink, ha, hb] at hs
    | true =>
      cases hl : s.links.any (fun l => l.id == id) with
      | true => simp [addLink, ha, hb, hl] at hs
      | false => exact ⟨rfl, rfl, rfl⟩

theorem addLink_spec [Num α] {s : Est α} (h : WF s) {id : LinkId} (d du dec : α)
    (ha : isKnown s id.a = true) (hb : isKnown s id.b = true)
    (hl : s.links.any (fun l => l.id == id) = false) :
    ∃ st' unc', addLink s id d du dec = .ok { s with
        links := s.links ++ [{ id, index := s.state.rows, decay := dec }], state := st', unc := unc' } ∧
      st'.rows = s.state.rows + 1 ∧ st'.cols = 1 ∧ st'.WFm ∧
      unc'.rows = s.state.rows + 1 ∧ unc'.cols = s.state.rows + 1 ∧ unc'.WFm ∧
      (∀ r, r < s.state.rows → st'.get r 0 = s.state.get r 0) ∧
      (∀ r c, r < s.state.rows → c < s.state.rows → unc'.get r c = s.unc.get r c) ∧
      st'.get s.state.rows 0 = some d ∧ unc'.get s.state.rows s.state.rows = some (sq du) := by
  obtain ⟨st', unc', e1, e2, r1, r2, r3, r4, r5, r6, r7, r8, r9, r10⟩ :=
    extend_spec h.dims [d] (linkBlock du) (linkBlock_some du)
  refine ⟨st', unc', ?_, r1, r2, r3, r4, r5, r6, r7, r8, ?_, ?_⟩
  · have e2' : s.unc.extend 1 (linkBlock du) = some unc' := e2
    simp only [addLink, ha, hb, hl, Bool.not_true, Bool.false_eq_true, if_false, e1, e2', orPanic, bind,
      Except.bind, pure, Except.pure]
  · simpa using r9 0 (by simp)
  · simpa [linkBlock] using r10 0 0 (by simp) (by simp)

theorem addLink_wf [Num α] {s s' : Est α} (h : WF s) {id : LinkId} {d du dec : α}
    (hs : addLink s id d du dec = .ok s') : WF s' := by
  obtain ⟨ha, hb, hl⟩ := addLink_ok_form hs
  obtain ⟨st', unc', heq, r1, r2, r3, r4, r5, r6, r7, r8, _⟩ := addLink_spec h d du dec ha hb hl
  rw [heq] at hs
  cases hs
  have hfresh : ∀ l ∈ s.links, l.id ≠ id := by
    rw [List.any_eq_false] at hl
    intro l hlm; simpa using hl l hlm
  refine ⟨⟨r2, r3, by simp [r1, r4], by simp [r1, r5], r6⟩, ⟨h.ids.clk, ?_, h.ids.clk_ext⟩, ?_⟩
  · simp only
    rw [List.pairwise_append]
    refine ⟨h.ids.lnk, by simp, ?_⟩
    intro a ha b hb
    simp only [List.mem_singleton] at hb
    subst hb
    exact hfresh a ha
  · simp only [r1]
    constructor
    · intro c hc
      have := h.layout.clk_range c hc; omega
    · intro l hlm
      simp only [List.mem_append, List.mem_singleton] at hlm
      rcases hlm with hlm | rfl
      · have := h.layout.lnk_range l hlm; omega
      · simp
    · exact h.layout.clk_clk
    · intro l hlm m hm hne
      simp only [List.mem_append, List.mem_singleton] at hlm hm
      rcases hlm with hlm | rfl <;> rcases hm with hm | rfl
      · exact h.layout.lnk_lnk l hlm m hm hne
      · have := h.layout.lnk_range l hlm; simp; omega
      · have := h.layout.lnk_range m hm; simp; omega
      · exact absurd rfl hne
    · intro c hc l hlm
      simp only [List.mem_append, List.mem_singleton] at hlm
      rcases hlm with hlm | rfl
      · exact h.layout.clk_lnk c hc l hlm
      · have := h.layout.clk_range c hc; right; simp; omega
    · intro k hk
      by_cases hkn : k < s.state.rows
      · rcases h.layout.cover k hkn with hc | ⟨l, hlm, h1⟩
        · left; exact hc
        · right; exact ⟨l, List.mem_append_left _ hlm, h1⟩
      · right
        refine ⟨_, List.mem_append_right _ (List.mem_singleton.mpr rfl), ?_⟩
        simp; omega

theorem addLink_others [Num α] {s s' : Est α} (h : WF s) {id : LinkId} {d du dec : α}
    (hs : addLink s id d du dec = .ok s') :
    (∀ j, clockOffsetRaw s' j = clockOffsetRaw s j ∧ clockFrequencyRaw s' j = clockFrequencyRaw s j) ∧
    (∀ lid, lid ≠ id → linkDelayRaw s' lid = linkDelayRaw s lid) := by
  obtain ⟨ha, hb, hl⟩ := addLink_ok_form hs
  obtain ⟨st', unc', heq, r1, r2, r3, r4, r5, r6, r7, r8, _⟩ := addLink_spec h d du dec ha hb hl
  rw [heq] at hs
  cases hs
  constructor
  · intro j
    apply clockRaw_congr (fun c => c)
    · simp
    · intro c hc
      have hcm := List.mem_of_find?_eq_some hc
      have hcr := h.layout.clk_range c hcm
      exact ⟨r7 c.base (by omega), r8 c.base c.base (by omega) (by omega), r7 (c.base + 1) (by omega), r8 (c.base + 1) (c.base + 1) (by omega) (by omega)⟩
  · intro lid hne
    apply linkRaw_congr (fun l => l)
    · rw [find_append_other _ _ _ (by simpa using Ne.symm hne)]; simp
    · intro l hlf
      have hlm := List.mem_of_find?_eq_some hlf
      have hlr := h.layout.lnk_range l hlm
      exact ⟨r7 l.index hlr, r8 l.index l.index hlr hlr⟩

end NtpVerif.Estimator
