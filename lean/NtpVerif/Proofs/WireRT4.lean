/-
Helper lemmas for C24, fourth part: NTPv3 packets re-encode to exactly the bytes they were decoded from.
-/
import NtpVerif.Proofs.WireRT3

namespace NtpVerif.Wire

theorem sliceP_rest {data : Bytes} {hs : Nat} {body : Bytes} (h : sliceP data hs data.length = .ok body) :
    body = data.drop hs := by
  unfold sliceP at h
  split at h
  · rename_i s hs'
    cases h
    obtain ⟨_, _, h3, _⟩ := slice?_some hs'
    rw [h3]
    apply List.take_of_length_le
    simp
  · cases h

theorem parseEF_header {dec : Dec} {ctx : Ctx} {data : Bytes} {header : Header} {hs : Nat} {ver : Ver}
    {p : Packet} {c : Option Cookie} {v : Bool} (h : parseEF dec ctx data header hs ver = .ok (p, c, v)) :
    p.header = header := by
  unfold parseEF at h
  simp only [bind, Except.bind, pure, Except.pure] at h
  split at h
  · cases h
  split at h
  · cases h
  rename_i p' hp'
  simp only [Except.ok.injEq, Prod.mk.injEq] at h
  rw [← h.1]
  exact (constructPacket_fields hp').1

/-- an accepted NTPv3 packet (header and optional MAC) encodes to exactly the received bytes -/
theorem parseR_v3_exact {dec : Dec} {ctx : Ctx} {data : Bytes} {p : Packet} {c : Option Cookie} {v : Bool}
    (h : parseR dec ctx data = .ok (p, c, v)) (hv : ∃ h3, p.header = .v3 h3) :
    p.serialize none none = .ok (data, none) := by
  unfold parseR at h
  split at h
  · cases h
  rename_i b0 t
  simp only at h
  split at h
  · rename_i hver
    simp only [bind, Except.bind, pure, Except.pure] at h
    split at h
    · cases h
    rename_i x hx
    obtain ⟨hd, hs⟩ := x
    obtain ⟨e48, hlen⟩ := headerV34_size hx
    subst e48
    obtain ⟨b0', t', edata, hser⟩ := headerV34_reencode hx
    simp only [List.cons.injEq] at edata
    obtain ⟨eb, _⟩ := edata
    subst eb
    rw [hver] at hser
    simp only at h
    split at h
    · split at h
      · cases h
      rename_i rest hrest
      split at h
      · cases h
      rename_i m hm
      cases h
      have hr := sliceP_rest hrest
      have hmac := mac_reencode hm
      unfold Packet.serialize
      simp only [hser, hmac, bind, Except.bind, pure, Except.pure, List.append_nil]
      rw [hr, List.take_append_drop]
    · rename_i heq
      cases h
      have heq' : 48 = (b0 :: t).length := by
        by_cases hh : 48 = (b0 :: t).length
        · exact hh
        · exact absurd hh heq
      unfold Packet.serialize
      simp only [hser, bind, Except.bind, pure, Except.pure, List.append_nil]
      rw [List.take_of_length_le (by omega)]
  · -- other versions do not produce a v3 header
    exfalso
    obtain ⟨h3, hh3⟩ := hv
    split at h
    · simp only [bind, Except.bind, pure, Except.pure] at h
      split at h
      · cases h
      rename_i x hx
      have := (parseEF_header h)
      rw [this] at hh3; cases hh3
    · split at h
      · simp only [bind, Except.bind, pure, Except.pure] at h
        split at h
        · cases h
        split at h
        · cases h
        rename_i y hy
        obtain ⟨q, d, w⟩ := y
        have := parseEF_header hy
        simp only at h
        split at h
        · cases h; rw [this] at hh3; cases hh3
        · split at h
          · cases h; rw [this] at hh3; cases hh3
          · cases h
      · cases h

end NtpVerif.Wire
