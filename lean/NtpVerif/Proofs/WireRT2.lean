/-
Helper lemmas for C24, second part: byte algebra, header and MAC re-encoding, per-field decode∘encode.
Core Lean only.
-/
import NtpVerif.Proofs.WireRT

namespace NtpVerif.Wire

/-! ### big-endian conversions -/

theorem foldl_be (bs : Bytes) (acc : Nat) :
    bs.foldl (fun a b => a * 256 + b.toNat) acc = acc * 256 ^ bs.length + beNat bs := by
  induction bs generalizing acc with
  | nil => simp [beNat]
  | cons b rest ih =>
    simp only [List.foldl_cons, List.length_cons, beNat]
    rw [ih, ih (0 * 256 + b.toNat)]
    rw [Nat.pow_succ, Nat.add_mul, Nat.mul_assoc, Nat.mul_comm 256]
    simp [Nat.add_assoc]

theorem beNat_cons (b : UInt8) (bs : Bytes) : beNat (b :: bs) = b.toNat * 256 ^ bs.length + beNat bs := by
  have := foldl_be bs (0 * 256 + b.toNat)
  simp only [beNat, List.foldl_cons]
  rw [this]; simp [beNat]

theorem toBE_length (w n : Nat) : (toBE w n).length = w := by
  induction w with
  | zero => rfl
  | succ k ih => simp [toBE, ih]

theorem toBE_add_mul (w n m : Nat) : toBE w (n + m * 256 ^ w) = toBE w n := by
  induction w generalizing n m with
  | zero => rfl
  | succ k ih =>
    simp only [toBE]
    congr 1
    · congr 1
      have e : m * 256 ^ (k + 1) = (m * 256) * 256 ^ k := by
        rw [Nat.pow_succ, Nat.mul_assoc, Nat.mul_comm (256 ^ k) 256]
      rw [e, Nat.add_mul_div_right _ _ (Nat.pow_pos (by decide)), Nat.add_mul_mod_self_right]
    · have : m * 256 ^ (k + 1) = (m * 256) * 256 ^ k := by
        rw [Nat.pow_succ, Nat.mul_assoc, Nat.mul_comm (256 ^ k) 256]
      rw [this]
      exact ih n (m * 256)

theorem toBE_beNat (bs : Bytes) : toBE bs.length (beNat bs) = bs := by
  induction bs with
  | nil => rfl
  | cons b rest ih =>
    have hlt := beNat_lt rest
    simp only [List.length_cons, toBE, beNat_cons]
    congr 1
    · rw [Nat.add_comm, Nat.add_mul_div_right _ _ (Nat.pow_pos (by decide)), Nat.div_eq_of_lt hlt,
        Nat.zero_add, Nat.mod_eq_of_lt b.toNat_lt]
      simp
    · rw [Nat.add_comm, toBE_add_mul]; exact ih

theorem toBE_beNat' {bs : Bytes} {n : Nat} (h : bs.length = n) : toBE n (beNat bs) = bs := by
  subst h; exact toBE_beNat bs

end NtpVerif.Wire
