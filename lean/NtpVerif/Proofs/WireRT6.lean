/-
Helper lemmas for C24, sixth part: the sequence lemma.  Over `enc f₁ ++ … ++ enc fₙ ++ tail` (tail = MAC bytes or
nothing) the streamer yields exactly one item per field and stops at the tail; the field loop then collects the
decoded fields, and `ExtensionFieldData::deserialize` returns them with `tail` as the remaining bytes.
-/
import NtpVerif.Proofs.WireRT5

namespace NtpVerif.Wire

/-- an encoded field together with what the decoder reads back from it -/
structure Frame where
  e : Bytes        -- the bytes on the wire
  ty : Nat         -- type id read back
  msg : Bytes      -- message bytes read back
  f : EF           -- the field decoded from `(ty, msg)`

/-- the frame is read back as `(ty, msg)` whatever follows it, occupies exactly its wire length, is not the NTS
    encrypted field, and decodes to `f` -/
def Frame.OK (ver : Ver) (fr : Frame) : Prop :=
  (∀ rest, rawDeserialize (fr.e ++ rest) Gen.EF_V4_UNENCRYPTED_MINIMUM_SIZE ver = .ok (fr.ty, fr.msg)) ∧
  fr.e.length = nm4 (4 + fr.msg.length) ∧ (ver = .v4 → (4 + fr.msg.length) % 4 = 0) ∧
  fr.ty ≠ tyEncrypted ∧ decode fr.ty fr.msg ver = .ok fr.f

def flat : List Frame → Bytes
  | [] => []
  | fr :: r => fr.e ++ flat r

/-- every non-empty suffix of the sequence, with the tail, is longer than the streamer's cut-off -/
def SufBig (cutoff : Nat) (tail : Bytes) : List Frame → Prop
  | [] => True
  | fr :: r => cutoff < (flat (fr :: r)).length + tail.length ∧ SufBig cutoff tail r

def itemsOf : Nat → List Frame → List Item
  | _, [] => []
  | off, fr :: r => .field off fr.ty fr.msg fr.e.length :: itemsOf (off + fr.e.length) r

theorem Frame.OK.pos {ver : Ver} {fr : Frame} (h : fr.OK ver) : 4 ≤ fr.e.length := by
  have := nm4_ge (4 + fr.msg.length)
  rw [h.2.1]; omega

theorem flat_length_ge (ver : Ver) : ∀ frs : List Frame, (∀ fr ∈ frs, fr.OK ver) → frs.length ≤ (flat frs).length := by
  intro frs
  induction frs with
  | nil => intro _; simp [flat]
  | cons fr r ih =>
    intro h
    have h1 := (h fr List.mem_cons_self).pos
    have h2 := ih (fun x hx => h x (List.mem_cons_of_mem _ hx))
    simp only [flat, List.length_cons, List.length_append]
    omega

/-- SEQUENCE LEMMA (streamer): one item per encoded field, nothing for the tail -/
theorem stream_of_frames (ver : Ver) (cutoff : Nat) (tail : Bytes) (ht : tail.length ≤ cutoff) :
    ∀ frs : List Frame, (∀ fr ∈ frs, fr.OK ver) → SufBig cutoff tail frs →
      ∀ fuel off, frs.length < fuel →
        streamAux ver cutoff Gen.EF_V4_UNENCRYPTED_MINIMUM_SIZE fuel (flat frs ++ tail) off = itemsOf off frs := by
  intro frs
  induction frs with
  | nil =>
    intro _ _ fuel off hf
    cases fuel with
    | zero => omega
    | succ k =>
      unfold streamAux
      simp only [flat, List.nil_append, itemsOf]
      simp [ht]
  | cons fr r ih =>
    intro hok hbig fuel off hf
    cases fuel with
    | zero => omega
    | succ k =>
      have hfr := hok fr List.mem_cons_self
      have hr : ∀ x ∈ r, x.OK ver := fun x hx => hok x (List.mem_cons_of_mem _ hx)
      obtain ⟨hraw, hlen, hv4, _, _⟩ := hfr
      obtain ⟨hb1, hb2⟩ := hbig
      unfold streamAux
      have hl : ¬ (flat (fr :: r) ++ tail).length ≤ cutoff := by
        rw [List.length_append]; omega
      simp only [hl, if_false]
      have e1 : flat (fr :: r) ++ tail = fr.e ++ (flat r ++ tail) := by
        simp [flat, List.append_assoc]
      rw [e1, hraw (flat r ++ tail)]
      simp only
      rw [wireLength_of hv4, ← hlen]
      simp only [itemsOf]
      congr 1
      have e2 : (fr.e ++ (flat r ++ tail)).drop fr.e.length = flat r ++ tail := by simp
      rw [e2]
      exact ih hr hb2 k (off + fr.e.length) (by simp only [List.length_cons] at hf; omega)

/-- the field loop over the items of an encoded sequence collects the decoded fields -/
theorem efLoop_frames (dec : Dec) (ctx : Ctx) (data : Bytes) (hs : Nat) (ver : Ver) :
    ∀ frs : List Frame, (∀ fr ∈ frs, fr.OK ver) → ∀ (off : Nat) (st : EFState), st.size = off →
      efLoop dec ctx data hs ver (itemsOf off frs) st =
        .ok { st with ef := { st.ef with untrusted := st.ef.untrusted ++ frs.map (·.f) },
                      size := off + (flat frs).length } := by
  intro frs
  induction frs with
  | nil =>
    intro _ off st hsz
    unfold efLoop
    simp only [itemsOf, List.map_nil, List.append_nil, flat, List.length_nil, Nat.add_zero]
    subst hsz
    rfl
  | cons fr r ih =>
    intro hok off st hsz
    have hfr := hok fr List.mem_cons_self
    have hr : ∀ x ∈ r, x.OK ver := fun x hx => hok x (List.mem_cons_of_mem _ hx)
    obtain ⟨_, _, _, hne, hdec⟩ := hfr
    simp only [itemsOf]
    unfold efLoop
    have hstep : efStep dec ctx data hs ver st off fr.ty fr.msg fr.e.length =
        .ok { st with ef := { st.ef with untrusted := st.ef.untrusted ++ [fr.f] }, size := off + fr.e.length } := by
      unfold efStep
      simp only [hne, if_false, hdec]
    rw [hstep]
    simp only
    rw [ih hr (off + fr.e.length) _ rfl]
    simp only [flat, List.length_append, List.map_cons, List.append_assoc, List.singleton_append, Nat.add_assoc]

/-- `ExtensionFieldData::deserialize` over header ++ encoded fields ++ tail -/
theorem efDeserialize_frames (dec : Dec) (ctx : Ctx) (hdr tail : Bytes) (ver : Ver) (frs : List Frame)
    (hok : ∀ fr ∈ frs, fr.OK ver) (ht : tail.length ≤ macCutoff ver) (hbig : SufBig (macCutoff ver) tail frs) :
    efDeserialize dec ctx (hdr ++ (flat frs ++ tail)) hdr.length ver =
      .ok { ef := { authenticated := [], encrypted := [], untrusted := frs.map (·.f) },
            remaining := tail, cookie := none, valid := true } := by
  unfold efDeserialize
  have hl : (hdr ++ (flat frs ++ tail)).length = hdr.length + ((flat frs).length + tail.length) := by
    simp [List.length_append]
  rw [sliceP_of_le (by omega) (Nat.le_refl _)]
  have e1 : ((hdr ++ (flat frs ++ tail)).drop hdr.length).take ((hdr ++ (flat frs ++ tail)).length - hdr.length)
      = flat frs ++ tail := by
    rw [List.drop_left]
    apply List.take_of_length_le
    rw [hl, List.length_append]; omega
  simp only [e1]
  unfold stream
  have hfl := flat_length_ge ver frs hok
  rw [stream_of_frames ver (macCutoff ver) tail ht frs hok hbig _ 0
    (by rw [List.length_append]; omega)]
  rw [efLoop_frames dec ctx _ _ ver frs hok 0 .init rfl]
  simp only [Nat.zero_add]
  rw [sliceP_of_le (by rw [hl]; omega) (Nat.le_refl _)]
  have e2 : ((hdr ++ (flat frs ++ tail)).drop (hdr.length + (flat frs).length)).take
      ((hdr ++ (flat frs ++ tail)).length - (hdr.length + (flat frs).length)) = tail := by
    rw [← List.drop_drop, List.drop_left, List.drop_left]
    apply List.take_of_length_le
    rw [hl]; omega
  simp only [e2, EFState.init, EFData.empty, List.nil_append, if_true]

end NtpVerif.Wire
