/- C43: the controller invariant over whole histories — the estimator stays well-formed (C42's `WF`) and
   the steered clocks have pairwise different ids. -/
import NtpVerif.Proofs.PtpSteerFrame

set_option linter.unusedSimpArgs false
set_option linter.unusedVariables false

namespace NtpVerif.PtpFilter
open NtpVerif.Estimator NtpVerif.PtpCtrl

/-! ### the estimator stays well-formed through every filter operation -/

theorem progress_wf {f f' : Filter} {t : Nat} (h : WF f.est) (hp : f.progress t = .ok f') : WF f'.est := by
  rw [Filter.progress_eq] at hp
  cases hx : liftE (progressTime f.est t) with
  | error e => rw [hx] at hp; cases hp
  | ok est =>
    rw [hx] at hp; cases hp
    exact progressTime_wf h (liftE_ok hx)

theorem estOp_wf {f f' : Filter} {x : R E} (hx : ∀ est, x = .ok est → WF est)
    (h : (do let est ← liftE x; pure ({ f with est } : Filter)) = .ok f') : WF f'.est := by
  obtain ⟨est, he, h⟩ := bindE h
  cases h
  exact hx est (liftE_ok he)

theorem filter_measurement_wf {f f' : Filter} {cfg : Cfg} {id : LinkId} {fwd : Bool} {v u : F64}
    (h : WF f.est) (hm : f.measurement cfg id fwd v u = .ok f') : WF f'.est := by
  unfold Filter.measurement at hm
  split at hm
  · cases hm
  · rename_i i l g hn
    obtain ⟨l0, _, _, hg, _⟩ := note_spec hn
    have hge : g.est = f.est := by rw [hg]; rfl
    split at hm
    · cases hm; rw [hge]; exact h
    · rename_i delay noise he
      obtain ⟨verd, hv, hm⟩ := bindE hm
      obtain ⟨est1, h1, hm⟩ := bindE hm
      obtain ⟨est2, h2, hm⟩ := bindE hm
      simp only [pure, Except.pure, Except.ok.injEq] at hm
      subst hm
      simp only
      have w1 : WF est1 := by
        unfold Filter.syncEst at h1
        split at h1
        · exact addLink_wf (by rw [hge]; exact h) (liftE_ok h1)
        · split at h1
          · exact removeLink_wf (by rw [hge]; exact h) (liftE_ok h1)
          · cases h1; rw [hge]; exact h
      unfold useMeasurement at h2
      split at h2
      · exact measurement_wf w1 (liftE_ok h2)
      · cases h2; exact w1

theorem steerLoop_wf (read : Filter) (leap : Option Leap) (rd : Int) :
    ∀ (cs : List (Nat × Mock)) (acc : SteerAcc) (i : Nat), WF acc.filter.est →
      WF (steerLoop read leap rd acc i cs).filter.est
  | [], acc, i, h => by simpa [steerLoop] using h
  | (id', m) :: rest, acc, i, h => by
    simp only [steerLoop]
    exact steerLoop_wf read leap rd rest _ (i + 1) (steerClock_wf read leap rd acc i id' m h)

/-! ### the clock list keeps its ids through `steer_clocks` -/

theorem steerClock_ids (read : Filter) (leap : Option Leap) (rd : Int) (acc : SteerAcc) (index id : Nat)
    (m : Mock) : (steerClock read leap rd acc index id m).clocks.map (·.1) = acc.clocks.map (·.1) ++ [id] := by
  unfold steerClock
  cases herr : acc.err with
  | some e => simp
  | none =>
    simp only
    cases hoff : liftE (clockOffset read.est id) with
    | error e => simp
    | ok ou =>
      obtain ⟨offset, unc⟩ := ou
      simp only
      cases hfr : (if wantsFreq offset unc = true then
          Except.map (fun x => x.fst) (liftE (clockFrequency read.est id)) else Except.ok F64.zero) with
      | error e => simp
      | ok freq =>
        simp only
        cases hact : steerOne (index == 0) offset unc freq m.freq m.max with
        | panic => simp
        | setFreq actual change =>
          simp only
          cases habs : acc.filter.absorbFrequency id change with
          | error e => simp
          | ok filter => simp
        | step dur absorbed =>
          simp only
          cases habs : (if (index == 0) = true then acc.filter.absorbSystem id dur
              else acc.filter.absorbOffset id offset.neg) with
          | error e => simp
          | ok filter => simp

theorem steerLoop_ids (read : Filter) (leap : Option Leap) (rd : Int) :
    ∀ (cs : List (Nat × Mock)) (acc : SteerAcc) (i : Nat),
      (steerLoop read leap rd acc i cs).clocks.map (·.1) = acc.clocks.map (·.1) ++ cs.map (·.1)
  | [], acc, i => by simp [steerLoop]
  | (id, m) :: rest, acc, i => by
    simp only [steerLoop]
    rw [steerLoop_ids read leap rd rest _ (i + 1), steerClock_ids]
    simp

/-! ### the invariant -/

structure CtrlInv (c : Ctrl) : Prop where
  est : WF c.filter.est
  nodup : (c.clocks.map (·.1)).Nodup
  fresh : ∀ x ∈ c.clocks, x.1 < c.nextClock

theorem steerAcc_inv {c : Ctrl} (h : CtrlInv c) {rd : Int} {acc : SteerAcc} (hs : c.steerAcc = .ok (rd, acc)) :
    WF acc.filter.est ∧ acc.clocks.map (·.1) = c.clocks.map (·.1) := by
  unfold Ctrl.steerAcc at hs
  split at hs
  · cases hs
  · obtain ⟨progressed, hp, hs⟩ := bindE hs
    obtain ⟨leap, _, hs⟩ := bindE hs
    obtain ⟨r', _, hs⟩ := bindE hs
    simp only [pure, Except.pure, Except.ok.injEq, Prod.mk.injEq] at hs
    obtain ⟨_, rfl⟩ := hs
    refine ⟨steerLoop_wf _ _ _ _ _ _ (progress_wf h.est hp), ?_⟩
    rw [steerLoop_ids]
    simp

theorem inv_steerClocks {c c' : Ctrl} {r : RF (List SteerLog)} (h : CtrlInv c)
    (hc : c.steerClocks = (c', r)) : CtrlInv c' := by
  unfold Ctrl.steerClocks at hc
  cases hs : c.steerAcc with
  | error e => simp only [hs] at hc; cases hc; exact h
  | ok p =>
    obtain ⟨rd, acc⟩ := p
    simp only [hs] at hc
    obtain ⟨w, hids⟩ := steerAcc_inv h hs
    have hfresh : ∀ x ∈ acc.clocks, x.1 < c.nextClock := by
      intro x hx
      have : x.1 ∈ acc.clocks.map (·.1) := List.mem_map.mpr ⟨x, hx, rfl⟩
      rw [hids] at this
      obtain ⟨y, hy, hxy⟩ := List.mem_map.mp this
      rw [← hxy]; exact h.fresh y hy
    cases herr : acc.err with
    | some e =>
      simp only [herr] at hc; cases hc
      exact ⟨h.est, by simp only; rw [hids]; exact h.nodup, hfresh⟩
    | none =>
      simp only [herr] at hc; cases hc
      exact ⟨w, by simp only; rw [hids]; exact h.nodup, hfresh⟩

theorem inv_measurement {c c' : Ctrl} {id : LinkId} {fwd : Bool} {d u : Int} {r : RF (List SteerLog)}
    (h : CtrlInv c) (hm : c.measurement id fwd d u = (c', r)) : CtrlInv c' := by
  unfold Ctrl.measurement at hm
  split at hm
  · cases hm; exact h
  · cases hp : c.filter.progress c.now with
    | error e => simp only [hp] at hm; cases hm; exact h
    | ok f1 =>
      simp only [hp] at hm
      have w1 : WF f1.est := progress_wf h.est hp
      cases hf : f1.measurement c.cfg id fwd (durAsSeconds d) (durAsSeconds u) with
      | error e => simp only [hf] at hm; cases hm; exact ⟨w1, h.nodup, h.fresh⟩
      | ok f2 =>
        simp only [hf] at hm
        exact inv_steerClocks (c := { c with filter := f2 })
          ⟨filter_measurement_wf w1 hf, h.nodup, h.fresh⟩ hm

theorem inv_apply {c : Ctrl} (h : CtrlInv c) (op : COp) : CtrlInv (c.apply op).1 := by
  cases op with
  | tick d => exact ⟨h.est, h.nodup, h.fresh⟩
  | addClock m w =>
    simp only [Ctrl.apply, Ctrl.addClock]
    split
    · rename_i filter hx
      refine ⟨estOp_wf (fun est he => addClock_wf h.est he) hx, ?_, ?_⟩
      · simp only [List.map_append, List.map_cons, List.map_nil]
        rw [List.nodup_append]
        refine ⟨h.nodup, by simp, ?_⟩
        intro a ha b hb
        simp only [List.mem_singleton] at hb
        subst hb
        obtain ⟨y, hy, rfl⟩ := List.mem_map.mp ha
        have := h.fresh y hy
        omega
      · intro x hx'
        simp only [List.mem_append, List.mem_singleton] at hx'
        rcases hx' with hx' | rfl
        · have := h.fresh x hx'; simp only; omega
        · simp only; omega
    · exact ⟨h.est, h.nodup, fun x hx => by have := h.fresh x hx; simp only; omega⟩
  | addExt =>
    simp only [Ctrl.apply, Ctrl.addExternalClock]
    split
    · rename_i filter hx
      exact ⟨estOp_wf (fun est he => addExternalClock_wf h.est he) hx, h.nodup,
        fun x hx => by have := h.fresh x hx; simp only; omega⟩
    · exact ⟨h.est, h.nodup, fun x hx => by have := h.fresh x hx; simp only; omega⟩
  | rmExt id =>
    simp only [Ctrl.apply, Ctrl.removeExternalClock]
    split
    · rename_i filter hx
      exact ⟨estOp_wf (fun est he => removeExternalClock_wf h.est he) hx, h.nodup, h.fresh⟩
    · exact h
  | rmClock id =>
    simp only [Ctrl.apply, Ctrl.removeClock]
    split
    · exact h
    · split
      · exact h
      · split
        · exact h
        · split
          · rename_i filter hx
            unfold Filter.removeClock at hx
            split at hx
            · cases hx
            · refine ⟨estOp_wf (fun est he => removeClock_wf h.est he) hx, ?_, ?_⟩
              · exact h.nodup.sublist (List.Sublist.map _ List.eraseP_sublist)
              · intro x hx'
                exact h.fresh x (List.mem_of_mem_eraseP hx')
          · exact h
  | link a b decay =>
    simp only [Ctrl.apply, Ctrl.createLink]
    split
    · rename_i filter lid hx
      have he : filter.est = c.filter.est := by
        unfold Filter.addLinkF at hx
        simp only at hx
        split at hx
        · cases hx
        · split at hx
          · cases hx
          · split at hx
            · cases hx
            · split at hx
              · cases hx
              · simp only [Except.ok.injEq, Prod.mk.injEq] at hx
                obtain ⟨rfl, _⟩ := hx
                rfl
      exact ⟨by simp only; rw [he]; exact h.est, h.nodup, h.fresh⟩
    · exact h
  | drop id =>
    simp only [Ctrl.apply, Ctrl.dropLink]
    split
    · rename_i filter hx
      refine ⟨?_, h.nodup, h.fresh⟩
      unfold Filter.removeLinkF at hx
      split at hx
      · cases hx
      · split at hx
        · exact estOp_wf (f := { c.filter with links := c.filter.links.eraseP fun l => l.id == id })
            (fun est he => removeLink_wf h.est he) hx
        · cases hx; exact h.est
    · exact h
  | extUpdate id rd leap usable =>
    simp only [Ctrl.apply, Ctrl.externalDataUpdate]
    split
    · rename_i filter hx
      refine ⟨?_, h.nodup, h.fresh⟩
      unfold Filter.externalDataUpdate at hx
      split at hx
      · split at hx
        · cases hx; exact h.est
        · cases hx
      · cases hx
    · exact h
  | measure id fwd d u =>
    simp only [Ctrl.apply]
    cases hm : c.measurement id fwd d u with
    | mk c' r => exact inv_measurement h hm

theorem inv_run : ∀ (ops : List COp) (c : Ctrl), CtrlInv c → CtrlInv (c.run ops).1
  | [], c, h => h
  | op :: ops, c, h => by
    simp only [Ctrl.run]
    exact inv_run ops _ (inv_apply h op)

theorem inv_new {now : Nat} {max w : F64} {cfg : Cfg} {c : Ctrl} (h : Ctrl.new now max w cfg = .ok c) :
    CtrlInv c := by
  unfold Ctrl.new at h
  obtain ⟨filter, hf, h⟩ := bindE h
  cases h
  refine ⟨?_, by simp, by simp⟩
  exact estOp_wf (f := Filter.empty now) (fun est he => addClock_wf (empty_wf now) he) hf

end NtpVerif.PtpFilter
