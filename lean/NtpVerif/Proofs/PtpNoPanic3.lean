/- C43: `KalmanLink::measurement` never panics along controller histories (sane clocks, at least one clock). -/
import NtpVerif.Proofs.PtpNoPanic2

set_option linter.unusedSimpArgs false
set_option linter.unusedVariables false

namespace NtpVerif.PtpFilter
open NtpVerif.Estimator NtpVerif.PtpCtrl

/-- all clocks sane and the system clock (`clocks[0]`) present -/
structure Healthy (c : Ctrl) : Prop where
  sane : ∀ x ∈ c.clocks, x.2.Sane
  nonempty : c.clocks ≠ []

def COp.Sane : COp → Prop
  | .addClock m _ => m.Sane
  | _ => True

theorem steerClock_sane (read : Filter) (leap : Option Leap) (rd : Int) (acc : SteerAcc) (index id : Nat)
    (m : Mock) (ha : ∀ x ∈ acc.clocks, x.2.Sane) (hm : m.Sane) :
    ∀ x ∈ (steerClock read leap rd acc index id m).clocks, x.2.Sane := by
  have key : ∀ m' : Mock, m'.max = m.max → ∀ x ∈ acc.clocks ++ [(id, m')], x.2.Sane := by
    intro m' hmax x hx
    simp only [List.mem_append, List.mem_singleton] at hx
    rcases hx with hx | rfl
    · exact ha x hx
    · simp only [Mock.Sane, hmax]; exact hm
  unfold steerClock
  cases herr : acc.err with
  | some e => exact key m rfl
  | none =>
    simp only
    cases hoff : liftE (clockOffset read.est id) with
    | error e => exact key m rfl
    | ok ou =>
      obtain ⟨offset, unc⟩ := ou
      simp only
      cases hfr : (if wantsFreq offset unc = true then
          Except.map (fun x => x.fst) (liftE (clockFrequency read.est id)) else Except.ok F64.zero) with
      | error e => exact key m rfl
      | ok freq =>
        simp only
        cases hact : steerOne (index == 0) offset unc freq m.freq m.max with
        | panic => exact key m rfl
        | setFreq actual change =>
          simp only
          cases habs : acc.filter.absorbFrequency id change with
          | error e => exact key { m with freq := actual } rfl
          | ok filter => exact key { m with freq := actual } rfl
        | step dur absorbed =>
          simp only
          cases habs : (if (index == 0) = true then acc.filter.absorbSystem id dur
              else acc.filter.absorbOffset id offset.neg) with
          | error e => exact key m rfl
          | ok filter => exact key m rfl

theorem steerLoop_sane (read : Filter) (leap : Option Leap) (rd : Int) :
    ∀ (cs : List (Nat × Mock)) (acc : SteerAcc) (i : Nat), (∀ x ∈ acc.clocks, x.2.Sane) →
      (∀ x ∈ cs, x.2.Sane) → ∀ x ∈ (steerLoop read leap rd acc i cs).clocks, x.2.Sane
  | [], acc, i, ha, _ => by simpa [steerLoop] using ha
  | (id, m) :: rest, acc, i, ha, hs => by
    simp only [steerLoop]
    exact steerLoop_sane read leap rd rest _ (i + 1)
      (steerClock_sane read leap rd acc i id m ha (hs (id, m) List.mem_cons_self))
      (fun x hx => hs x (List.mem_cons_of_mem _ hx))

theorem healthy_steerClocks {c c' : Ctrl} {r : RF (List SteerLog)} (hi : CtrlInv c) (h : Healthy c)
    (hc : c.steerClocks = (c', r)) : Healthy c' := by
  unfold Ctrl.steerClocks at hc
  cases hs : c.steerAcc with
  | error e => simp only [hs] at hc; cases hc; exact h
  | ok p =>
    obtain ⟨rd, acc⟩ := p
    simp only [hs] at hc
    obtain ⟨_, hids⟩ := steerAcc_inv hi hs
    obtain ⟨progressed, leap, _, hacc⟩ := steerAcc_shape' hs
    have hsane : ∀ x ∈ acc.clocks, x.2.Sane := by
      rw [hacc]
      exact steerLoop_sane _ _ _ _ _ _ (by intro x hx; cases hx) h.sane
    have hne : acc.clocks ≠ [] := by
      intro hnil
      have := congrArg List.length hids
      rw [hnil] at this
      simp only [List.map_nil, List.length_nil, List.length_map] at this
      exact h.nonempty (List.eq_nil_of_length_eq_zero this.symm)
    cases herr : acc.err with
    | some e => simp only [herr] at hc; cases hc; exact ⟨hsane, hne⟩
    | none => simp only [herr] at hc; cases hc; exact ⟨hsane, hne⟩

theorem healthy_measurement {c c' : Ctrl} {id : LinkId} {fwd : Bool} {d u : Int} {r : RF (List SteerLog)}
    (hi : CtrlInv c) (h : Healthy c) (hm : c.measurement id fwd d u = (c', r)) : Healthy c' := by
  unfold Ctrl.measurement at hm
  split at hm
  · cases hm; exact h
  · cases hp : c.filter.progress c.now with
    | error e => simp only [hp] at hm; cases hm; exact h
    | ok f1 =>
      simp only [hp] at hm
      have w1 : WF f1.est := progress_wf hi.est hp
      cases hf : f1.measurement c.cfg id fwd (durAsSeconds d) (durAsSeconds u) with
      | error e => simp only [hf] at hm; cases hm; exact ⟨h.sane, h.nonempty⟩
      | ok f2 =>
        simp only [hf] at hm
        exact healthy_steerClocks (c := { c with filter := f2 })
          ⟨filter_measurement_wf w1 hf, hi.nodup, hi.fresh⟩ ⟨h.sane, h.nonempty⟩ hm

theorem healthy_apply {c : Ctrl} (hi : CtrlInv c) (h : Healthy c) (op : COp) (hop : op.Sane) :
    Healthy (c.apply op).1 := by
  cases op with
  | tick d => exact ⟨h.sane, h.nonempty⟩
  | addClock m w =>
    simp only [Ctrl.apply, Ctrl.addClock]
    split
    · refine ⟨?_, by simp⟩
      intro x hx
      simp only [List.mem_append, List.mem_singleton] at hx
      rcases hx with hx | rfl
      · exact h.sane x hx
      · exact hop
    · exact ⟨h.sane, h.nonempty⟩
  | addExt =>
    simp only [Ctrl.apply, Ctrl.addExternalClock]
    split <;> exact ⟨h.sane, h.nonempty⟩
  | rmExt id =>
    simp only [Ctrl.apply, Ctrl.removeExternalClock]
    split <;> exact ⟨h.sane, h.nonempty⟩
  | rmClock id =>
    simp only [Ctrl.apply, Ctrl.removeClock]
    split
    · exact h
    · rename_i id0 m0 rest hcl
      split
      · exact h
      · rename_i hne0
        split
        · exact h
        · split
          · refine ⟨fun x hx => h.sane x (List.mem_of_mem_eraseP hx), ?_⟩
            rw [hcl]
            have : ((id0, m0).1 == id) = false := by simpa using hne0
            simp [List.eraseP_cons, this]
          · exact h
  | link a b decay =>
    simp only [Ctrl.apply, Ctrl.createLink]
    split <;> exact ⟨h.sane, h.nonempty⟩
  | drop id =>
    simp only [Ctrl.apply, Ctrl.dropLink]
    split <;> exact ⟨h.sane, h.nonempty⟩
  | extUpdate id rd leap usable =>
    simp only [Ctrl.apply, Ctrl.externalDataUpdate]
    split <;> exact ⟨h.sane, h.nonempty⟩
  | measure id fwd d u =>
    simp only [Ctrl.apply]
    cases hm : c.measurement id fwd d u with
    | mk c' r => exact healthy_measurement hi h hm

theorem healthy_run : ∀ (ops : List COp) (c : Ctrl), CtrlInv c → Healthy c → (∀ op ∈ ops, op.Sane) →
    Healthy (c.run ops).1
  | [], c, _, h, _ => h
  | op :: ops, c, hi, h, hops => by
    simp only [Ctrl.run]
    exact healthy_run ops _ (inv_apply hi op) (healthy_apply hi h op (hops op List.mem_cons_self))
      (fun o ho => hops o (List.mem_cons_of_mem _ ho))

theorem healthy_new {now : Nat} {max w : F64} {cfg : Cfg} {c : Ctrl} (hmax : F64.le (F64.neg max) max = true)
    (h : Ctrl.new now max w cfg = .ok c) : Healthy c := by
  unfold Ctrl.new at h
  obtain ⟨filter, _, h⟩ := bindE h
  cases h
  refine ⟨?_, by simp⟩
  intro x hx
  simp only [List.mem_singleton] at hx
  subst hx
  exact hmax

/-- `KalmanLink::measurement` on a well-formed, healthy controller: whatever fails is not a panic -/
theorem ctrl_measurement_noBug (hlaw : WindowLaw) {c c' : Ctrl} {id : LinkId} {fwd : Bool} {d u : Int}
    {e : FErr} (hi : CtrlInv c) (h : Healthy c) (hm : c.measurement id fwd d u = (c', .error e)) :
    e.isBug = false := by
  unfold Ctrl.measurement at hm
  split at hm
  · rename_i hnil; exact absurd hnil h.nonempty
  · cases hp : c.filter.progress c.now with
    | error e' =>
      simp only [hp] at hm
      cases hm
      rw [Filter.progress_eq] at hp
      cases hx : liftE (progressTime c.filter.est c.now) with
      | error e'' => rw [hx] at hp; cases hp; exact estErr_noBug hi.est (.progress c.now) hx
      | ok est => rw [hx] at hp; cases hp
    | ok f1 =>
      simp only [hp] at hm
      have w1 : WF f1.est := progress_wf hi.est hp
      cases hf : f1.measurement c.cfg id fwd (durAsSeconds d) (durAsSeconds u) with
      | error e' =>
        simp only [hf] at hm
        cases hm
        exact filter_measurement_noBug hlaw w1 hf
      | ok f2 =>
        simp only [hf] at hm
        exact steerClocks_noBug hlaw (c := { c with filter := f2 })
          ⟨filter_measurement_wf w1 hf, hi.nodup, hi.fresh⟩ h.sane h.nonempty hm

def errOf {β : Type} : RF β → Option FErr
  | .ok _ => none
  | .error e => some e

/-- the failure (if any) of one controller call (`drop` swallows its error, but a panic would not be swallowed) -/
def Ctrl.failure (c : Ctrl) : COp → Option FErr
  | .tick _ => none
  | .addClock m w => errOf (c.addClock m w).2
  | .addExt => errOf c.addExternalClock.2
  | .rmExt id => errOf (c.removeExternalClock id).2
  | .rmClock id => errOf (c.removeClock id).2
  | .link a b decay => errOf (c.createLink a b decay).2
  | .drop id => errOf (c.filter.removeLinkF id)
  | .extUpdate id rd leap usable => errOf (c.externalDataUpdate id rd leap usable).2
  | .measure id fwd d u => errOf (c.measurement id fwd d u).2

theorem estOp_noBug {f : Filter} (h : WF f.est) (op : C42.Op F64) {β : Type} {k : E → RF β} {e : FErr}
    (hk : ∀ est e', k est = .error e' → e'.isBug = false)
    (he : (do let est ← liftE (C42.apply f.est op); k est) = .error e) : e.isBug = false := by
  rcases bindErr he with h1 | ⟨est, _, h2⟩
  · exact estErr_noBug h op h1
  · exact hk est e h2

theorem pure_noErr {β : Type} (x : β) (e' : FErr) (h : (pure x : RF β) = .error e') : e'.isBug = false := by
  cases h

theorem ctrl_failure_noBug (hlaw : WindowLaw) {c : Ctrl} (hi : CtrlInv c) (h : Healthy c) (op : COp)
    {e : FErr} (he : c.failure op = some e) : e.isBug = false := by
  cases op with
  | tick d => cases he
  | addClock m w =>
    simp only [Ctrl.failure, Ctrl.addClock] at he
    split at he
    · cases he
    · rename_i e' hx
      simp only [errOf, Option.some.injEq] at he
      subst he
      exact estOp_noBug hi.est (.addClock c.nextClock F64.zero F64_1E18 F64.zero m.max w)
        (fun est e'' hh => pure_noErr _ e'' hh) hx
  | addExt =>
    simp only [Ctrl.failure, Ctrl.addExternalClock] at he
    split at he
    · cases he
    · rename_i e' hx
      simp only [errOf, Option.some.injEq] at he
      subst he
      exact estOp_noBug hi.est (.addExt c.nextClock) (fun est e'' hh => pure_noErr _ e'' hh) hx
  | rmExt id =>
    simp only [Ctrl.failure, Ctrl.removeExternalClock] at he
    split at he
    · cases he
    · rename_i e' hx
      simp only [errOf, Option.some.injEq] at he
      subst he
      exact estOp_noBug hi.est (.removeExt id) (fun est e'' hh => pure_noErr _ e'' hh) hx
  | rmClock id =>
    simp only [Ctrl.failure, Ctrl.removeClock] at he
    split at he
    · rename_i hnil; exact absurd hnil h.nonempty
    · split at he
      · simp only [errOf, Option.some.injEq] at he; subst he; rfl
      · split at he
        · simp only [errOf, Option.some.injEq] at he; subst he; rfl
        · split at he
          · cases he
          · rename_i e' hx
            simp only [errOf, Option.some.injEq] at he
            subst he
            unfold Filter.removeClock at hx
            split at hx
            · cases hx; rfl
            · exact estOp_noBug hi.est (.removeClock id) (fun est e'' hh => pure_noErr _ e'' hh) hx
  | link a b decay =>
    simp only [Ctrl.failure, Ctrl.createLink] at he
    split at he
    · cases he
    · rename_i e' hx
      simp only [errOf, Option.some.injEq] at he
      subst he
      unfold Filter.addLinkF at hx
      simp only at hx
      split at hx
      · cases hx; rfl
      · split at hx
        · cases hx; rfl
        · split at hx
          · cases hx; rfl
          · split at hx
            · cases hx; rfl
            · cases hx
  | drop id =>
    simp only [Ctrl.failure] at he
    cases hx : c.filter.removeLinkF id with
    | ok f' => rw [hx] at he; cases he
    | error e' =>
      rw [hx] at he
      simp only [errOf, Option.some.injEq] at he
      subst he
      unfold Filter.removeLinkF at hx
      split at hx
      · cases hx; rfl
      · split at hx
        · exact estOp_noBug (f := { c.filter with links := c.filter.links.eraseP fun l => l.id == id })
            hi.est (.removeLink id) (fun est e'' hh => pure_noErr _ e'' hh) hx
        · cases hx
  | extUpdate id rd leap usable =>
    simp only [Ctrl.failure, Ctrl.externalDataUpdate] at he
    split at he
    · cases he
    · rename_i e' hx
      simp only [errOf, Option.some.injEq] at he
      subst he
      unfold Filter.externalDataUpdate at hx
      split at hx
      · split at hx
        · cases hx
        · cases hx; rfl
      · cases hx; rfl
  | measure id fwd d u =>
    simp only [Ctrl.failure] at he
    cases hm : c.measurement id fwd d u with
    | mk c' r =>
      rw [hm] at he
      cases r with
      | ok l => cases he
      | error e' =>
        simp only [errOf, Option.some.injEq] at he
        subst he
        exact ctrl_measurement_noBug hlaw hi h hm

end NtpVerif.PtpFilter
