/- C42: the numeric operations (progress_time, measurement, steer absorption) keep the shapes and do
   not touch the clock / link lists, hence keep the well-formedness invariant. -/
import NtpVerif.Proofs.EstimatorAdd

set_option linter.unusedSimpArgs false
set_option linter.unusedVariables false

namespace NtpVerif.Estimator

variable {α : Type}

theorem obind {β γ : Type} {x : Option β} {f : β → Option γ} {y : γ} (h : (x >>= f) = some y) :
    ∃ a, x = some a ∧ f a = some y := by
  cases x with
  | none => simp at h
  | some a => exact ⟨a, rfl, by simpa using h⟩

namespace Mat

theorem set_dims {m m' : Mat α} {r c : Nat} {v : α} (h : m.set r c v = some m') :
    m'.rows = m.rows ∧ m'.cols = m.cols ∧ (m.WFm → m'.WFm) := by
  unfold Mat.set at h
  split at h
  · cases h
    exact ⟨rfl, rfl, by intro hw; simpa [WFm] using hw⟩
  · cases h

theorem new_dims (R C : Nat) (f : Nat → Nat → α) :
    (Mat.new R C f).rows = R ∧ (Mat.new R C f).cols = C ∧ (Mat.new R C f).WFm := by
  simp [Mat.new, WFm]

theorem mul_dims [Num α] {a b m : Mat α} (h : a.mul b = some m) :
    m.rows = a.rows ∧ m.cols = b.cols ∧ m.WFm := by
  unfold Mat.mul at h
  split at h
  · cases h
  · obtain ⟨h1, h2, h3, _⟩ := newM_some h
    exact ⟨h1, h2, h3⟩

theorem zip_dims {f : α → α → α} {a b m : Mat α} (h : zipCells f a b = some m) :
    m.rows = a.rows ∧ m.cols = a.cols ∧ m.WFm := by
  unfold zipCells at h
  split at h
  · cases h
  · obtain ⟨h1, h2, h3, _⟩ := newM_some h
    exact ⟨h1, h2, h3⟩

theorem map_dims {f : α → α} {a m : Mat α} (h : mapCells f a = some m) :
    m.rows = a.rows ∧ m.cols = a.cols ∧ m.WFm := by
  unfold mapCells at h
  obtain ⟨h1, h2, h3, _⟩ := newM_some h
  exact ⟨h1, h2, h3⟩

theorem transpose_dims {a m : Mat α} (h : a.transpose = some m) :
    m.rows = a.cols ∧ m.cols = a.rows ∧ m.WFm := by
  unfold transpose at h
  obtain ⟨h1, h2, h3, _⟩ := newM_some h
  exact ⟨h1, h2, h3⟩

theorem symmetrize_dims [Num α] {a m : Mat α} (h : a.symmetrize = .ok m) :
    m.rows = a.rows ∧ m.cols = a.cols ∧ m.WFm := by
  unfold symmetrize at h
  split at h
  · cases h
  · cases hn : newM a.rows a.cols (fun r c => do
        let x ← a.get r c
        let y ← a.get c r
        pure (Num.midpoint x y)) with
    | none => rw [hn] at h; cases h
    | some m0 =>
      rw [hn] at h
      cases h
      obtain ⟨h1, h2, h3, _⟩ := newM_some hn
      exact ⟨h1, h2, h3⟩

end Mat

theorem setCells_dims : ∀ (l : List (Nat × Nat × α)) (m m' : Mat α), setCells m l = some m' →
    m'.rows = m.rows ∧ m'.cols = m.cols ∧ (m.WFm → m'.WFm)
  | [], m, m', h => by
    simp only [setCells, Option.some.injEq] at h
    subst h
    exact ⟨rfl, rfl, id⟩
  | (r, c, v) :: rest, m, m', h => by
    simp only [setCells] at h
    obtain ⟨m1, h1, h2⟩ := obind h
    obtain ⟨a1, a2, a3⟩ := Mat.set_dims h1
    obtain ⟨b1, b2, b3⟩ := setCells_dims rest m1 m' h2
    exact ⟨b1.trans a1, b2.trans a2, fun hw => b3 (a3 hw)⟩

theorem progressCells_dims [Num α] {s : Est α} (h : Dims s) {dt : α} {st unc : Mat α}
    (hp : progressCells s dt = some (st, unc)) :
    st.rows = s.state.rows ∧ st.cols = 1 ∧ st.WFm ∧
    unc.rows = s.state.rows ∧ unc.cols = s.state.rows ∧ unc.WFm := by
  unfold progressCells at hp
  simp only [] at hp
  obtain ⟨update, hu, hp⟩ := obind hp
  obtain ⟨noise, hn, hp⟩ := obind hp
  obtain ⟨lc, hl, hp⟩ := obind hp
  obtain ⟨noise2, hn2, hp⟩ := obind hp
  obtain ⟨state, hst, hp⟩ := obind hp
  obtain ⟨a, ha, hp⟩ := obind hp
  obtain ⟨ut, hut, hp⟩ := obind hp
  obtain ⟨b, hb, hp⟩ := obind hp
  obtain ⟨unc', hunc, hp⟩ := obind hp
  simp only [pure, Option.some.injEq, Prod.mk.injEq] at hp
  obtain ⟨rfl, rfl⟩ := hp
  obtain ⟨u1, u2, _⟩ := setCells_dims _ _ _ hu
  have ⟨i1, i2, _⟩ := Mat.new_dims s.state.rows s.state.rows
    (fun r c => if r = c then (Num.one : α) else Num.zero)
  obtain ⟨s1, s2, s3⟩ := Mat.mul_dims hst
  obtain ⟨a1, a2, _⟩ := Mat.mul_dims ha
  obtain ⟨t1, t2, _⟩ := Mat.transpose_dims hut
  obtain ⟨b1, b2, _⟩ := Mat.mul_dims hb
  obtain ⟨c1, c2, c3⟩ := Mat.zip_dims hunc
  have hur : update.rows = s.state.rows := by rw [u1]; exact i1
  refine ⟨by rw [s1, hur], by rw [s2, h.vcols], s3, by rw [c1, b1, a1, hur], by rw [c2, b2, t2, hur], c3⟩

theorem progressTime_wf [Num α] {s s' : Est α} (h : WF s) {t : Nat} (hs : progressTime s t = .ok s') :
    WF s' := by
  unfold progressTime at hs
  simp only [] at hs
  split at hs
  · cases hs
  · split at hs
    · cases hs; exact h
    · split at hs
      · rename_i st unc hp
        cases hs
        obtain ⟨d1, d2, d3, d4, d5, d6⟩ := progressCells_dims h.dims hp
        exact ⟨⟨d2, d3, by simp [d1, d4], by simp [d1, d5], d6⟩, ⟨h.ids.clk, h.ids.lnk, h.ids.clk_ext⟩,
          by simpa [d1] using h.layout⟩
      · cases hs

theorem measureCells_dims [Num α] {s : Est α} (h : Dims s) {proj : Mat α} {v r2 : α} {st pre : Mat α}
    (hp : measureCells s proj v r2 = some (st, pre)) :
    st.rows = s.state.rows ∧ st.cols = 1 ∧ st.WFm ∧
    pre.rows = s.state.rows ∧ pre.cols = s.state.rows := by
  unfold measureCells at hp
  simp only [] at hp
  obtain ⟨projT, hpt, hp⟩ := obind hp
  obtain ⟨expected, hex, hp⟩ := obind hp
  obtain ⟨difference, hdf, hp⟩ := obind hp
  obtain ⟨x1, hx1, hp⟩ := obind hp
  obtain ⟨x2, hx2, hp⟩ := obind hp
  obtain ⟨dcov, hdc, hp⟩ := obind hp
  obtain ⟨d00, hd0, hp⟩ := obind hp
  obtain ⟨x3, hx3, hp⟩ := obind hp
  obtain ⟨strength, hstr, hp⟩ := obind hp
  obtain ⟨x4, hx4, hp⟩ := obind hp
  obtain ⟨state, hst, hp⟩ := obind hp
  obtain ⟨x5, hx5, hp⟩ := obind hp
  obtain ⟨prev, hprev, hp⟩ := obind hp
  obtain ⟨prevT, hprevT, hp⟩ := obind hp
  obtain ⟨strengthT, hstrT, hp⟩ := obind hp
  obtain ⟨x6, hx6, hp⟩ := obind hp
  obtain ⟨p1, hp1, hp⟩ := obind hp
  obtain ⟨x7, hx7, hp⟩ := obind hp
  obtain ⟨p2, hp2, hp⟩ := obind hp
  obtain ⟨pre', hpre, hp⟩ := obind hp
  simp only [pure, Option.some.injEq, Prod.mk.injEq] at hp
  obtain ⟨rfl, rfl⟩ := hp
  obtain ⟨s1, s2, s3⟩ := Mat.zip_dims hst
  obtain ⟨q1, q2, _⟩ := Mat.zip_dims hpre
  obtain ⟨m1, m2, _⟩ := Mat.mul_dims hp1
  obtain ⟨n1, n2, _⟩ := Mat.mul_dims hx6
  obtain ⟨t1, t2, _⟩ := Mat.transpose_dims hprevT
  obtain ⟨z1, z2, _⟩ := Mat.zip_dims hprev
  have ⟨i1, i2, _⟩ := Mat.new_dims s.state.rows s.state.rows
    (fun r c => if r = c then (Num.one : α) else Num.zero)
  have hprevr : prev.rows = s.state.rows := by rw [z1]; exact i1
  refine ⟨s1, by rw [s2, h.vcols], s3, by rw [q1, m1, n1, hprevr], by rw [q2, m2, t2, hprevr]⟩

theorem measurement_wf [Num α] {s s' : Est α} (h : WF s) {link : LinkId} {fwd dl : Bool} {v u : α}
    (hs : measurement s link fwd v u dl = .ok s') : WF s' := by
  unfold measurement at hs
  split at hs
  · cases hs
  · split at hs
    · cases hs
    · rename_i st pre hp
      split at hs
      · cases hs
      · rename_i unc hsym
        cases hs
        obtain ⟨d1, d2, d3, d4, d5⟩ := measureCells_dims h.dims hp
        obtain ⟨y1, y2, y3⟩ := Mat.symmetrize_dims hsym
        exact ⟨⟨d2, d3, by simp [d1, y1, d4], by simp [d1, y2, d5], y3⟩,
          ⟨h.ids.clk, h.ids.lnk, h.ids.clk_ext⟩, by simpa [d1] using h.layout⟩

theorem bumpCell_dims [Num α] {m m' : Mat α} {r : Nat} {d : α} (h : bumpCell m r d = some m') :
    m'.rows = m.rows ∧ m'.cols = m.cols ∧ (m.WFm → m'.WFm) := by
  unfold bumpCell at h
  obtain ⟨v, _, h2⟩ := obind h
  exact Mat.set_dims h2

theorem wf_of_state_bump {s : Est α} (h : WF s) {st : Mat α} (t : Nat)
    (hd : st.rows = s.state.rows ∧ st.cols = s.state.cols ∧ (s.state.WFm → st.WFm)) :
    WF { s with state := st, time := t } := by
  obtain ⟨d1, d2, d3⟩ := hd
  exact ⟨⟨by simp [d2, h.dims.vcols], d3 h.dims.vwf, by simp [d1, h.dims.urows], by simp [d1, h.dims.ucols],
    h.dims.uwf⟩, ⟨h.ids.clk, h.ids.lnk, h.ids.clk_ext⟩, by simpa [d1] using h.layout⟩

theorem absorbFrequencySteer_wf [Num α] {s s' : Est α} (h : WF s) {id : Nat} {d : α}
    (hs : absorbFrequencySteer s id d = .ok s') : WF s' := by
  unfold absorbFrequencySteer at hs
  cases hc : getClock s id with
  | error e => simp [hc, bind, Except.bind] at hs
  | ok c =>
    cases hb : bumpCell s.state c.frequencyIndex d with
    | none => simp [hc, hb, bind, Except.bind, orPanic] at hs
    | some st =>
      simp only [hc, hb, bind, Except.bind, orPanic, pure, Except.pure, Except.ok.injEq] at hs
      subst hs
      exact wf_of_state_bump h s.time (bumpCell_dims hb)

theorem absorbOffsetChange_wf [Num α] {s s' : Est α} (h : WF s) {id : Nat} {d : α}
    (hs : absorbOffsetChange s id d = .ok s') : WF s' := by
  unfold absorbOffsetChange at hs
  cases hc : getClock s id with
  | error e => simp [hc, bind, Except.bind] at hs
  | ok c =>
    cases hb : bumpCell s.state c.offsetIndex d with
    | none => simp [hc, hb, bind, Except.bind, orPanic] at hs
    | some st =>
      simp only [hc, hb, bind, Except.bind, orPanic, pure, Except.pure, Except.ok.injEq] at hs
      subst hs
      exact wf_of_state_bump h s.time (bumpCell_dims hb)

theorem absorbSystemClockOffsetChange_wf [Num α] {s s' : Est α} (h : WF s) {id : Nat} {d : Int}
    (hs : absorbSystemClockOffsetChange s id d = .ok s') : WF s' := by
  unfold absorbSystemClockOffsetChange at hs
  cases hc : getClock s id with
  | error e => simp [hc, bind, Except.bind] at hs
  | ok c =>
    cases hb : bumpCell s.state c.offsetIndex (Num.ofDur d) with
    | none => simp [hc, hb, bind, Except.bind, orPanic] at hs
    | some st =>
      simp only [hc, hb, bind, Except.bind, orPanic, pure, Except.pure, Except.ok.injEq] at hs
      subst hs
      exact wf_of_state_bump h _ (bumpCell_dims hb)

theorem addExternalClock_wf {s s' : Est α} (h : WF s) {id : Nat} (hs : addExternalClock s id = .ok s') :
    WF s' := by
  unfold addExternalClock at hs
  split at hs
  · cases hs
  · rename_i hint
    split at hs
    · cases hs
    · cases hs
      have hfresh := not_internal_iff.mp (by simpa using hint)
      refine ⟨⟨h.dims.1, h.dims.2, h.dims.3, h.dims.4, h.dims.5⟩, ⟨h.ids.clk, h.ids.lnk, ?_⟩, ⟨h.layout.1, h.layout.2, h.layout.3, h.layout.4, h.layout.5, h.layout.6⟩⟩
      intro c hc
      simp only [List.mem_append, List.mem_singleton, not_or]
      exact ⟨h.ids.clk_ext c hc, hfresh c hc⟩

theorem removeExternalClock_wf {s s' : Est α} (h : WF s) {id : Nat}
    (hs : removeExternalClock s id = .ok s') : WF s' := by
  unfold removeExternalClock at hs
  split at hs
  · cases hs
    refine ⟨⟨h.dims.1, h.dims.2, h.dims.3, h.dims.4, h.dims.5⟩, ⟨h.ids.clk, h.ids.lnk, ?_⟩, ⟨h.layout.1, h.layout.2, h.layout.3, h.layout.4, h.layout.5, h.layout.6⟩⟩
    intro c hc hmem
    exact h.ids.clk_ext c hc (List.mem_of_mem_erase hmem)
  · cases hs

theorem empty_wf [Num α] (t : Nat) : WF (empty t : Est α) := by
  refine ⟨⟨rfl, by simp [empty, Mat.zero, Mat.new, Mat.WFm], rfl, rfl, by simp [empty, Mat.zero, Mat.new, Mat.WFm]⟩,
    ⟨by simp [empty], by simp [empty], by simp [empty]⟩, ?_⟩
  constructor <;> simp [empty, Mat.zero, Mat.new]

end NtpVerif.Estimator
