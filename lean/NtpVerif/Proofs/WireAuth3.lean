/-
Helper lemmas for C25, third part: with a fresh sealing, what is reported authentic is a function of the
sealed prefix only (lock-step simulation of two decodes that share the sealed prefix).  Core Lean only.
-/
import NtpVerif.Proofs.WireAuth2

namespace NtpVerif.Wire

theorem Table.decrypt_some {T : Table} {key nonce ct aad pt : Bytes} (h : T.decrypt key nonce ct aad = some pt) :
    ∃ e ∈ T, e.key = key ∧ e.nonce = nonce ∧ e.ct = ct ∧ e.aad = aad := by
  unfold Table.decrypt at h
  simp only [Option.map_eq_some_iff] at h
  obtain ⟨e, he, _⟩ := h
  have hm := List.find?_some he
  have hmem := List.mem_of_find?_eq_some he
  simp only [Entry.matches, Bool.and_eq_true, beq_iff_eq] at hm
  exact ⟨e, hmem, hm.1.1.1, hm.1.1.2, hm.1.2, hm.2⟩

/-- freshness: the only recorded encryption whose associated data is a whole packet prefix (48 bytes or more;
    cookies are sealed with empty associated data) is the one of this packet: prefix `P`, nonce `N`,
    ciphertext `C` -/
def Fresh (T : Table) (P N C : Bytes) : Prop :=
  ∀ e ∈ T, 48 ≤ e.aad.length → e.aad = P ∧ e.nonce = N ∧ e.ct = C

theorem Fresh.hit {T : Table} {P N C key nonce ct aad pt : Bytes} (hF : Fresh T P N C)
    (h : T.decrypt key nonce ct aad = some pt) (hl : 48 ≤ aad.length) : aad = P ∧ nonce = N ∧ ct = C := by
  obtain ⟨e, he, _, h2, h3, h4⟩ := Table.decrypt_some h
  obtain ⟨a, b, c⟩ := hF e he (by rw [h4]; exact hl)
  exact ⟨by rw [← h4]; exact a, by rw [← h2]; exact b, by rw [← h3]; exact c⟩

/-- a field step in which no decryption succeeds -/
def plainStep (ver : Ver) (st : EFState) (off ty : Nat) (msg : Bytes) (wl : Nat) : R EFState :=
  if ty = tyEncrypted then
    match fromMessageBytes msg with
    | .error e => perr e
    | .ok _ => .ok (st.pushInvalid (off + wl))
  else
    match decode ty msg ver with
    | .error e => .error e
    | .ok f => .ok { st with ef := { st.ef with untrusted := st.ef.untrusted ++ [f] }, size := off + wl }

/-- what a state reports as authentic -/
def EFState.view (st : EFState) : List EF × List EF × Option Cookie :=
  (st.ef.authenticated, st.ef.encrypted, st.cookie)

theorem plainStep_view {ver : Ver} {st st' : EFState} {off ty : Nat} {msg : Bytes} {wl : Nat}
    (h : plainStep ver st off ty msg wl = .ok st') : st'.view = st.view := by
  unfold plainStep at h
  split at h
  · split at h
    · cases h
    · cases h; rfl
  · split at h
    · cases h
    · cases h; rfl

theorem plainStep_untrusted {ver : Ver} {st₁ st₂ st₁' st₂' : EFState} {off₁ off₂ ty : Nat} {msg : Bytes}
    {wl₁ wl₂ : Nat} (hu : st₁.ef.untrusted = st₂.ef.untrusted)
    (h1 : plainStep ver st₁ off₁ ty msg wl₁ = .ok st₁') (h2 : plainStep ver st₂ off₂ ty msg wl₂ = .ok st₂') :
    st₁'.ef.untrusted = st₂'.ef.untrusted := by
  unfold plainStep at h1 h2
  split at h1
  · rename_i hty
    simp only [hty, if_true] at h2
    split at h1
    · cases h1
    · rename_i x hx
      rw [hx] at h2
      cases h1; cases h2
      simp [EFState.pushInvalid, hu]
  · rename_i hty
    simp only [hty, if_false] at h2
    split at h1
    · cases h1
    · rename_i f hf
      rw [hf] at h2
      cases h1; cases h2
      simp [hu]

section
variable {T : Table} {P N C : Bytes} {o : Nat}

/-- unless the step stands exactly at the sealed offset and carries the sealed nonce and ciphertext, it is plain -/
theorem efStep_miss (hF : Fresh T P N C) (hP : P.length = o) {ctx : Ctx} {data : Bytes} {hs : Nat} {ver : Ver}
    {st st' : EFState} {off ty : Nat} {msg : Bytes} {wl : Nat} (hhs : 48 ≤ hs)
    (hmiss : ¬ (hs + off = o ∧ ty = tyEncrypted ∧ fromMessageBytes msg = .ok (N, C)))
    (h : efStep T.decrypt ctx data hs ver st off ty msg wl = .ok st') :
    plainStep ver st off ty msg wl = .ok st' := by
  unfold efStep at h
  unfold plainStep
  simp only at h
  split at h
  · rename_i hty
    simp only [hty, if_true]
    split at h
    · cases h
    · rename_i nonce ct hfm
      rw [hfm]
      simp only
      split at h
      · exact h
      · split at h
        · cases h
        · rename_i aad haad
          obtain ⟨e1, e2⟩ := sliceP_zero haad
          split at h
          · exact h
          · cases h
          · rename_i holder _ _ _ fields hf
            exfalso
            unfold decryptFields at hf
            split at hf
            · cases hf
            · rename_i pt hpt
              have hl : aad.length = hs + off := by rw [e1]; simp [List.length_take]; omega
              obtain ⟨a, b, c⟩ := hF.hit hpt (by omega)
              apply hmiss
              refine ⟨?_, hty, ?_⟩
              · rw [← hl, a, hP]
              · rw [hfm, b, c]
  · rename_i hty
    simp only [hty, if_false]
    exact h

/-- at the sealed offset with the sealed nonce and ciphertext the step is plain or it is the success, whose
    outcome depends on the collected untrusted fields, `P`, `N`, `C` only -/
theorem efStep_hit {ctx : Ctx} {data : Bytes} {hs : Nat} {ver : Ver} {st st' : EFState} {off : Nat}
    {msg : Bytes} {wl : Nat} (hd : data.take (hs + off) = P)
    (hfm : fromMessageBytes msg = .ok (N, C))
    (h : efStep T.decrypt ctx data hs ver st off tyEncrypted msg wl = .ok st') :
    plainStep ver st off tyEncrypted msg wl = .ok st' ∨
    ∃ holder fields, ctx.get T.decrypt st.ef.untrusted = some holder ∧
      decryptFields T.decrypt holder.key N C P ver = some (.ok fields) ∧
      st'.view = (st.ef.authenticated ++ st.ef.untrusted, st.ef.encrypted ++ fields, holder.cookie) := by
  unfold efStep at h
  unfold plainStep
  simp only [if_true, hfm] at h ⊢
  split at h
  · exact .inl h
  · rename_i holder hh
    split at h
    · cases h
    · rename_i aad haad
      obtain ⟨e1, e2⟩ := sliceP_zero haad
      rw [e1, hd] at h
      split at h
      · exact .inl h
      · cases h
      · rename_i fields hf
        cases h
        exact .inr ⟨holder, fields, hh, hf, rfl⟩

end

/-! ### framing depends on the bytes of the field only -/

theorem slice_via_take (l : Bytes) (f n : Nat) (h : f ≤ n) :
    (l.drop 4).take (f - 4) = ((l.take n).drop 4).take (f - 4) := by
  rw [List.drop_take, List.take_take]
  congr 1
  omega

theorem raw_facts {rem : Bytes} {minSize : Nat} {ver : Ver} {ty : Nat} {msg : Bytes}
    (h : rawDeserialize rem minSize ver = .ok (ty, msg)) :
    ∃ b0 b1 b2 b3 t, rem = b0 :: b1 :: b2 :: b3 :: t ∧ ty = be16 b0 b1 ∧ be16 b2 b3 = 4 + msg.length ∧
      ¬ be16 b2 b3 < minSize ∧ ¬ (ver = .v4 ∧ be16 b2 b3 % 4 ≠ 0) ∧ nm4 (be16 b2 b3) ≤ rem.length ∧
      msg = (rem.drop 4).take (be16 b2 b3 - 4) := by
  unfold rawDeserialize at h
  split at h
  · rename_i b0 b1 b2 b3 t
    simp only at h
    split at h
    · cases h
    · rename_i h1
      split at h
      · cases h
      · rename_i h2
        split at h
        · cases h
        · rename_i s1 hs1
          split at h
          · cases h
          · rename_i s2 hs2
            cases h
            obtain ⟨_, a2, _, _⟩ := slice?_some hs1
            obtain ⟨c1, c2, c3, c4⟩ := slice?_some hs2
            exact ⟨b0, b1, b2, b3, t, rfl, rfl, by omega, h1, h2, a2, c3⟩
  · cases h

theorem raw_prefix {rem₁ rem₂ : Bytes} {minSize : Nat} {ver : Ver} {ty : Nat} {msg : Bytes}
    (h : rawDeserialize rem₁ minSize ver = .ok (ty, msg))
    (ht : rem₂.take (nm4 (4 + msg.length)) = rem₁.take (nm4 (4 + msg.length))) :
    rawDeserialize rem₂ minSize ver = .ok (ty, msg) := by
  obtain ⟨b0, b1, b2, b3, t, hr, hty, hfl, h1, h2, h3, hmsg⟩ := raw_facts h
  rw [← hfl] at ht
  have hge := nm4_ge (be16 b2 b3)
  have hl2 : nm4 (be16 b2 b3) ≤ rem₂.length := by
    have := congrArg List.length ht
    simp only [List.length_take] at this
    omega
  have hn : nm4 (be16 b2 b3) = (nm4 (be16 b2 b3) - 4) + 4 := by omega
  rcases rem₂ with _ | ⟨a0, _ | ⟨a1, _ | ⟨a2, _ | ⟨a3, t2⟩⟩⟩⟩
  · simp at hl2; omega
  · simp at hl2; omega
  · simp at hl2; omega
  · simp at hl2; omega
  · have ht' := ht
    rw [hr, hn] at ht'
    simp only [List.take_succ_cons, List.cons.injEq] at ht'
    obtain ⟨e0, e1, e2, e3, _⟩ := ht'
    subst e0 e1 e2 e3
    have hm2 : (List.drop 4 (a0 :: a1 :: a2 :: a3 :: t2)).take (be16 a2 a3 - 4) = msg := by
      rw [hmsg, slice_via_take _ _ _ hge, slice_via_take rem₁ _ _ hge, ht]
    unfold rawDeserialize
    simp only [h1, h2, if_false]
    rw [slice?_of_le (by omega) hl2, slice?_of_le (by omega) (by omega)]
    simp only
    rw [hm2, hty]

theorem wireLength_some {msg : Bytes} {ver : Ver} {wl : Nat} (h : wireLength msg ver = some wl) :
    wl = nm4 (4 + msg.length) ∧ 4 ≤ wl := by
  unfold wireLength at h
  simp only at h
  split at h
  · cases h
  · cases h
    have e : 2 + 2 + msg.length = 4 + msg.length := by omega
    rw [e]
    exact ⟨rfl, by have := nm4_ge (4 + msg.length); omega⟩

end NtpVerif.Wire
