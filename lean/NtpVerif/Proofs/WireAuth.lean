/-
Helper lemmas for C25: nothing is reported as authentic unless a decryption over a packet prefix succeeded.
Core Lean only.
-/
import NtpVerif.Proofs.Wire

namespace NtpVerif.Wire

/-- no decryption whose associated data is the first `n ≥ 48` bytes of `data` succeeds -/
def NoPrefixDecrypts (dec : Dec) (data : Bytes) : Prop :=
  ∀ key nonce ct n, 48 ≤ n → n ≤ data.length → dec key nonce ct (data.take n) = none

/-- the state reports nothing as authentic -/
def EFState.Nothing (st : EFState) : Prop :=
  st.ef.authenticated = [] ∧ st.ef.encrypted = [] ∧ st.cookie = none

theorem sliceP_zero {data : Bytes} {n : Nat} {s : Bytes} (h : sliceP data 0 n = .ok s) :
    s = data.take n ∧ n ≤ data.length := by
  unfold sliceP at h
  split at h
  · rename_i s' hs
    cases h
    obtain ⟨_, h2, h3, _⟩ := slice?_some hs
    exact ⟨by simpa using h3, h2⟩
  · cases h

theorem efStep_nothing {dec : Dec} {ctx : Ctx} {data : Bytes} {hs : Nat} {ver : Ver} {st st' : EFState}
    {off ty : Nat} {msg : Bytes} {wl : Nat} (hd : NoPrefixDecrypts dec data) (hhs : 48 ≤ hs)
    (hst : st.Nothing) (h : efStep dec ctx data hs ver st off ty msg wl = .ok st') : st'.Nothing := by
  unfold efStep at h
  simp only at h
  split at h
  · split at h
    · cases h
    · split at h
      · cases h; exact hst
      · split at h
        · cases h
        · rename_i aad haad
          obtain ⟨e1, e2⟩ := sliceP_zero haad
          split at h
          · cases h; exact hst
          · cases h
          · rename_i fields hf
            exfalso
            unfold decryptFields at hf
            rw [e1, hd _ _ _ _ (by omega) e2] at hf
            cases hf
  · split at h
    · cases h
    · cases h; exact hst

theorem efLoop_nothing {dec : Dec} {ctx : Ctx} {data : Bytes} {hs : Nat} {ver : Ver}
    (hd : NoPrefixDecrypts dec data) (hhs : 48 ≤ hs) :
    ∀ (items : List Item) (st st' : EFState), st.Nothing →
      efLoop dec ctx data hs ver items st = .ok st' → st'.Nothing := by
  intro items
  induction items with
  | nil => intro st st' hp h; unfold efLoop at h; cases h; exact hp
  | cons it rest ih =>
    intro st st' hp h
    cases it with
    | err e => unfold efLoop at h; cases h
    | panic => unfold efLoop at h; cases h
    | fuel => unfold efLoop at h; cases h
    | field off ty msg wl =>
      unfold efLoop at h
      split at h
      · cases h
      · rename_i st1 h1
        exact ih st1 st' (efStep_nothing hd hhs hp h1) h

theorem efDeserialize_nothing {dec : Dec} {ctx : Ctx} {data : Bytes} {hs : Nat} {ver : Ver} {r : EFResult}
    (hd : NoPrefixDecrypts dec data) (hhs : 48 ≤ hs) (h : efDeserialize dec ctx data hs ver = .ok r) :
    r.ef.authenticated = [] ∧ r.ef.encrypted = [] ∧ r.cookie = none := by
  unfold efDeserialize at h
  split at h
  · cases h
  · split at h
    · cases h
    · rename_i st hst
      split at h
      · cases h
      · cases h
        obtain ⟨a, b, c⟩ := efLoop_nothing hd hhs _ .init st (by simp [EFState.Nothing, EFState.init, EFData.empty]) hst
        refine ⟨a, b, ?_⟩
        simp [c]

/-- what a decode reports as authentic -/
def Packet.NothingAuthentic (p : Packet) : Prop := p.ef.authenticated = [] ∧ p.ef.encrypted = []

theorem constructPacket_ef {header : Header} {remaining : Bytes} {ef : EFData} {p : Packet}
    (h : constructPacket header remaining ef = .ok p) : p.ef = ef := by
  unfold constructPacket at h
  split at h
  · simp only [bind, Except.bind, pure, Except.pure] at h
    split at h
    · cases h
    · cases h; rfl
  · cases h; rfl

theorem parseEF_nothing {dec : Dec} {ctx : Ctx} {data : Bytes} {header : Header} {hs : Nat} {ver : Ver}
    {p : Packet} {c : Option Cookie} {v : Bool} (hd : NoPrefixDecrypts dec data) (hhs : 48 ≤ hs)
    (h : parseEF dec ctx data header hs ver = .ok (p, c, v)) : p.NothingAuthentic ∧ c = none := by
  unfold parseEF at h
  simp only [bind, Except.bind, pure, Except.pure] at h
  split at h
  · cases h
  · rename_i r hr
    split at h
    · cases h
    · rename_i p' hp'
      simp only [Except.ok.injEq, Prod.mk.injEq] at h
      obtain ⟨hp, hc, _⟩ := h
      subst hp
      obtain ⟨a, b, c'⟩ := efDeserialize_nothing hd hhs hr
      rw [← hc]
      refine ⟨?_, c'⟩
      unfold Packet.NothingAuthentic
      rw [constructPacket_ef hp']
      exact ⟨a, b⟩

theorem parseR_nothing {dec : Dec} {ctx : Ctx} {data : Bytes} {p : Packet} {c : Option Cookie} {v : Bool}
    (hd : NoPrefixDecrypts dec data) (h : parseR dec ctx data = .ok (p, c, v)) :
    p.NothingAuthentic ∧ c = none := by
  unfold parseR at h
  split at h
  · cases h
  · simp only at h
    split at h
    · simp only [bind, Except.bind, pure, Except.pure] at h
      split at h
      · cases h
      · rename_i x hx
        obtain ⟨hdr, hs⟩ := x
        simp only at h
        split at h
        · split at h
          · cases h
          · split at h
            · cases h
            · cases h; exact ⟨⟨rfl, rfl⟩, rfl⟩
        · cases h; exact ⟨⟨rfl, rfl⟩, rfl⟩
    · split at h
      · simp only [bind, Except.bind, pure, Except.pure] at h
        split at h
        · cases h
        · rename_i x hx
          obtain ⟨hdr, hs⟩ := x
          obtain ⟨h1, _⟩ := headerV34_size hx
          simp only at h
          exact parseEF_nothing hd (by omega) h
      · split at h
        · simp only [bind, Except.bind, pure, Except.pure] at h
          split at h
          · cases h
          · rename_i x hx
            obtain ⟨hdr, hs⟩ := x
            obtain ⟨h1, _⟩ := headerV5_size hx
            simp only at h
            split at h
            · cases h
            · rename_i y hy
              obtain ⟨p', c', v'⟩ := y
              have key := parseEF_nothing hd (by omega) hy
              simp only at h
              split at h
              · cases h; exact key
              · split at h
                · cases h; exact key
                · cases h
        · cases h

end NtpVerif.Wire
