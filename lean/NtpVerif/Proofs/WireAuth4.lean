/-
Helper lemmas for C25, fourth part: lock-step simulation of two decodes sharing the sealed prefix.
-/
import NtpVerif.Proofs.WireAuth3

namespace NtpVerif.Wire

/-- one iteration of the field loop over the streamer, unfolded -/
theorem run_step {dec : Dec} {ctx : Ctx} {data : Bytes} {hs : Nat} {ver : Ver} {cutoff minSize fuel : Nat}
    {rem : Bytes} {off : Nat} {st st' : EFState}
    (h : efLoop dec ctx data hs ver (streamAux ver cutoff minSize (fuel + 1) rem off) st = .ok st') :
    (rem.length ≤ cutoff ∧ st' = st) ∨
    ∃ ty msg wl st1, rawDeserialize rem minSize ver = .ok (ty, msg) ∧ wireLength msg ver = some wl ∧
      efStep dec ctx data hs ver st off ty msg wl = .ok st1 ∧
      efLoop dec ctx data hs ver (streamAux ver cutoff minSize fuel (rem.drop wl) (off + wl)) st1 = .ok st' := by
  unfold streamAux at h
  split at h
  · rename_i hc
    simp only [efLoop] at h
    cases h
    exact .inl ⟨hc, rfl⟩
  · split at h
    · simp only [efLoop] at h; cases h
    · rename_i ty msg hraw
      split at h
      · simp only [efLoop] at h; cases h
      · rename_i wl hwl
        simp only [efLoop] at h
        split at h
        · cases h
        · rename_i st1 h1
          exact .inr ⟨ty, msg, wl, st1, hraw, hwl, h1, h⟩

section
variable {T : Table} {P N C : Bytes} {o : Nat}

/-- past the sealed offset nothing can succeed any more -/
theorem run_after (hF : Fresh T P N C) (hP : P.length = o) {ctx : Ctx} {data : Bytes} {hs : Nat} {ver : Ver}
    {cutoff minSize : Nat} (hhs : 48 ≤ hs) :
    ∀ (fuel : Nat) (rem : Bytes) (off : Nat) (st st' : EFState), o < hs + off →
      efLoop T.decrypt ctx data hs ver (streamAux ver cutoff minSize fuel rem off) st = .ok st' →
      st'.view = st.view := by
  intro fuel
  induction fuel with
  | zero =>
    intro rem off st st' _ h
    simp only [streamAux, efLoop] at h
    cases h
  | succ n ih =>
    intro rem off st st' ho h
    rcases run_step h with ⟨_, e⟩ | ⟨ty, msg, wl, st1, _, _, h1, h2⟩
    · rw [e]
    · have hp := efStep_miss hF hP hhs (by omega) h1
      rw [ih _ _ st1 st' (by omega) h2, plainStep_view hp]


abbrev nothingView : List EF × List EF × Option Cookie := ([], [], none)

/-- two decodes whose packets share the sealed prefix `P` (of length `o`), in lock step from a common field
    boundary `off` before or at the sealed offset -/
theorem lockstep (hF : Fresh T P N C) (hP : P.length = o) {ctx : Ctx} {data₁ data₂ : Bytes} {hs : Nat}
    {ver : Ver} {cutoff minSize : Nat} (hhs : 48 ≤ hs)
    (hd1 : data₁.take o = P) (hd2 : data₂.take o = P) :
    ∀ (fuel₁ fuel₂ : Nat) (rem₁ rem₂ : Bytes) (off : Nat) (st₁ st₂ st₁' st₂' : EFState),
      hs + off ≤ o →
      rem₁.take (o - hs - off) = rem₂.take (o - hs - off) →
      o - hs - off ≤ rem₁.length → o - hs - off ≤ rem₂.length →
      st₁.view = nothingView → st₂.view = nothingView → st₁.ef.untrusted = st₂.ef.untrusted →
      efLoop T.decrypt ctx data₁ hs ver (streamAux ver cutoff minSize fuel₁ rem₁ off) st₁ = .ok st₁' →
      efLoop T.decrypt ctx data₂ hs ver (streamAux ver cutoff minSize fuel₂ rem₂ off) st₂ = .ok st₂' →
      st₁'.view = nothingView ∨ st₂'.view = nothingView ∨ st₁'.view = st₂'.view := by
  intro fuel₁
  induction fuel₁ with
  | zero =>
    intro fuel₂ rem₁ rem₂ off st₁ st₂ st₁' st₂' _ _ _ _ _ _ _ h1 _
    simp only [streamAux, efLoop] at h1
    cases h1
  | succ n ih =>
    intro fuel₂ rem₁ rem₂ off st₁ st₂ st₁' st₂' hoff htake hl1 hl2 hv1 hv2 hu h1 h2
    cases fuel₂ with
    | zero => simp only [streamAux, efLoop] at h2; cases h2
    | succ m =>
      rcases run_step h1 with ⟨_, e1⟩ | ⟨ty₁, msg₁, wl₁, s1, hr1, hw1, hs1, hrest1⟩
      · exact .inl (by rw [e1]; exact hv1)
      rcases run_step h2 with ⟨_, e2⟩ | ⟨ty₂, msg₂, wl₂, s2, hr2, hw2, hs2, hrest2⟩
      · exact .inr (.inl (by rw [e2]; exact hv2))
      obtain ⟨hwl1, hpos1⟩ := wireLength_some hw1
      obtain ⟨hwl2, hpos2⟩ := wireLength_some hw2
      by_cases hk : hs + off = o
      · -- at the sealed offset
        by_cases hit1 : ty₁ = tyEncrypted ∧ fromMessageBytes msg₁ = .ok (N, C)
        · by_cases hit2 : ty₂ = tyEncrypted ∧ fromMessageBytes msg₂ = .ok (N, C)
          · obtain ⟨t1, f1⟩ := hit1
            obtain ⟨t2, f2⟩ := hit2
            subst t1 t2
            have a1 := run_after hF hP hhs _ _ _ s1 st₁' (by omega) hrest1
            have a2 := run_after hF hP hhs _ _ _ s2 st₂' (by omega) hrest2
            rcases efStep_hit (P := P) (show data₁.take (hs + off) = P by rw [hk]; exact hd1) f1 hs1 with p1 | ⟨hd₁, fs₁, g1, d1, v1⟩
            · exact .inl (by rw [a1, plainStep_view p1]; exact hv1)
            rcases efStep_hit (P := P) (show data₂.take (hs + off) = P by rw [hk]; exact hd2) f2 hs2 with p2 | ⟨hd₂, fs₂, g2, d2, v2⟩
            · exact .inr (.inl (by rw [a2, plainStep_view p2]; exact hv2))
            refine .inr (.inr ?_)
            rw [a1, a2, v1, v2]
            rw [hu] at g1
            rw [g1] at g2
            cases g2
            rw [d1] at d2
            cases d2
            simp only [EFState.view, nothingView, Prod.mk.injEq] at hv1 hv2
            rw [hv1.1, hv2.1, hv1.2.1, hv2.2.1, hu]
          · have p2 := efStep_miss hF hP hhs (by intro h; exact hit2 ⟨h.2.1, h.2.2⟩) hs2
            have a2 := run_after hF hP hhs _ _ _ s2 st₂' (by omega) hrest2
            exact .inr (.inl (by rw [a2, plainStep_view p2]; exact hv2))
        · have p1 := efStep_miss hF hP hhs (by intro h; exact hit1 ⟨h.2.1, h.2.2⟩) hs1
          have a1 := run_after hF hP hhs _ _ _ s1 st₁' (by omega) hrest1
          exact .inl (by rw [a1, plainStep_view p1]; exact hv1)
      · -- before the sealed offset
        have p1 := efStep_miss hF hP hhs (by omega) hs1
        have p2 := efStep_miss hF hP hhs (by omega) hs2
        by_cases c1 : hs + off + wl₁ ≤ o
        · by_cases c2 : hs + off + wl₂ ≤ o
          · -- both fields end before the sealed offset: they are the same field
            have ht1 : rem₂.take (nm4 (4 + msg₁.length)) = rem₁.take (nm4 (4 + msg₁.length)) := by
              rw [← hwl1]
              have := congrArg (List.take wl₁) htake
              simp only [List.take_take] at this
              have e : min wl₁ (o - hs - off) = wl₁ := by omega
              rw [e] at this
              exact this.symm
            have hr2' := raw_prefix hr1 ht1
            rw [hr2] at hr2'
            simp only [Except.ok.injEq, Prod.mk.injEq] at hr2'
            obtain ⟨ety, emsg⟩ := hr2'
            subst ety emsg
            have ewl : wl₂ = wl₁ := by rw [hwl1, hwl2]
            subst ewl
            refine ih m (rem₁.drop wl₂) (rem₂.drop wl₂) (off + wl₂) s1 s2 st₁' st₂' (by omega) ?_ ?_ ?_
              (by rw [plainStep_view p1]; exact hv1) (by rw [plainStep_view p2]; exact hv2)
              (plainStep_untrusted hu p1 p2) hrest1 hrest2
            · have := congrArg (List.drop wl₂) htake
              simp only [List.drop_take] at this
              have e : o - hs - off - wl₂ = o - hs - (off + wl₂) := by omega
              rw [e] at this
              exact this
            · simp only [List.length_drop]; omega
            · simp only [List.length_drop]; omega
          · have a2 := run_after hF hP hhs _ _ _ s2 st₂' (by omega) hrest2
            exact .inr (.inl (by rw [a2, plainStep_view p2]; exact hv2))
        · have a1 := run_after hF hP hhs _ _ _ s1 st₁' (by omega) hrest1
          exact .inl (by rw [a1, plainStep_view p1]; exact hv1)

end

end NtpVerif.Wire
