/- Helper lemmas for C35: the invariant of the (repaired) `PoolSpawner` bookkeeping. -/
import NtpVerif.Model.Pool

namespace NtpVerif.Pool

/-- addresses of the active sources -/
def addrs (l : List Source) : List Addr := l.map (·.addr)

/-- ids of the active sources -/
def ids (l : List Source) : List Nat := l.map (·.id)

/-- The representation invariant of `PoolSpawner` (with the repair). -/
structure Inv (cfg : Cfg) (p : Pool) : Prop where
  bounded : p.current.length ≤ cfg.count
  distinct : (addrs p.current).Nodup
  knownNodup : p.known.Nodup
  disjoint : ∀ a ∈ p.known, a ∉ addrs p.current
  curNotIgnored : ∀ s ∈ p.current, s.addr.ip ∉ cfg.ignore
  knownNotIgnored : ∀ a ∈ p.known, a.ip ∉ cfg.ignore
  idsBelow : ∀ s ∈ p.current, s.id < p.nextId
  idsNodup : (ids p.current).Nodup

theorem inv_init (cfg : Cfg) : Inv cfg init :=
  ⟨Nat.zero_le _, List.nodup_nil, List.nodup_nil, by simp [init], by simp [init], by simp [init],
   by simp [init], List.nodup_nil⟩

/-! #### `insertNew` -/

theorem insertNew_nodup (known ans : List Addr) (h : known.Nodup) : (insertNew known ans).Nodup := by
  induction ans generalizing known with
  | nil => exact h
  | cons a as ih =>
    simp only [insertNew]
    apply ih
    split
    · exact h
    · rename_i hn
      rw [List.nodup_append]
      refine ⟨h, List.nodup_cons.mpr ⟨List.not_mem_nil, List.nodup_nil⟩, ?_⟩
      intro x hx y hy
      simp only [List.mem_singleton] at hy
      subst hy
      intro e; subst e; exact hn hx

theorem mem_insertNew (known ans : List Addr) (x : Addr) :
    x ∈ insertNew known ans ↔ x ∈ known ∨ x ∈ ans := by
  induction ans generalizing known with
  | nil => simp [insertNew]
  | cons a as ih =>
    simp only [insertNew, ih, List.mem_cons]
    split
    · rename_i hm
      constructor
      · rintro (h | h)
        · exact Or.inl h
        · exact Or.inr (Or.inr h)
      · rintro (h | h | h)
        · exact Or.inl h
        · subst h; exact Or.inl hm
        · exact Or.inr h
    · simp only [List.mem_append, List.mem_singleton]
      constructor
      · rintro ((h | h) | h)
        · exact Or.inl h
        · exact Or.inr (Or.inl h)
        · exact Or.inr (Or.inr h)
      · rintro (h | h | h)
        · exact Or.inl (Or.inl h)
        · exact Or.inl (Or.inr h)
        · exact Or.inr h

/-! #### `keep` -/

theorem keep_spec (cfg : Cfg) (cur : List Source) (a : Addr) :
    keep cfg cur a = true ↔ a ∉ addrs cur ∧ a.ip ∉ cfg.ignore := by
  simp only [keep, Bool.and_eq_true, Bool.not_eq_true', addrs]
  constructor
  · rintro ⟨h1, h2⟩
    constructor
    · intro hm
      obtain ⟨s, hs, rfl⟩ := List.mem_map.mp hm
      have : (cur.any fun s' => s'.addr == s.addr) = true :=
        List.any_eq_true.mpr ⟨s, hs, by simp⟩
      rw [h1] at this; cases this
    · intro hm
      have : (cfg.ignore.any fun ign => ign == a.ip) = true :=
        List.any_eq_true.mpr ⟨a.ip, hm, by simp⟩
      rw [h2] at this; cases this
  · rintro ⟨h1, h2⟩
    constructor
    · cases h : cur.any fun s => s.addr == a
      · rfl
      · obtain ⟨s, hs, he⟩ := List.any_eq_true.mp h
        exact absurd (List.mem_map.mpr ⟨s, hs, by simpa using he⟩) h1
    · cases h : cfg.ignore.any fun ign => ign == a.ip
      · rfl
      · obtain ⟨i, hi, he⟩ := List.any_eq_true.mp h
        have : i = a.ip := by simpa using he
        exact absurd (this ▸ hi) h2

/-! #### `fill` -/

/-- what the pop loop does: it moves a prefix of the stack, in order, to the end of `current`, giving the
    moved addresses consecutive fresh ids; it stops when the stack is empty or the pool is full. -/
theorem fill_spec (count : Nat) (cur : List Source) (nid : Nat) (stack : List Addr) :
    let r := fill count cur nid stack
    r.1 = cur ++ r.2.2.2 ∧
    stack = addrs r.2.2.2 ++ r.2.1 ∧
    ids r.2.2.2 = (List.range r.2.2.2.length).map (nid + ·) ∧
    r.2.2.1 = nid + r.2.2.2.length ∧
    (cur.length ≤ count → r.1.length ≤ count) ∧
    (r.1.length < count → r.2.1 = []) := by
  induction stack generalizing cur nid with
  | nil => simp [fill, addrs, ids]
  | cons a rest ih =>
    simp only [fill]
    split
    · rename_i hlt
      have := ih (cur ++ [⟨nid, a⟩]) (nid + 1)
      simp only at this
      obtain ⟨h1, h2, h3, h4, h5, h6⟩ := this
      refine ⟨?_, ?_, ?_, ?_, ?_, ?_⟩
      · simp only [h1, List.append_assoc, List.singleton_append]
      · simp only [addrs, List.map_cons, List.cons_append]
        congr 1
      · simp only [ids, List.map_cons, List.length_cons, List.range_succ_eq_map, List.map_cons,
          List.map_map, Nat.add_zero]
        congr 1
        simp only [ids] at h3
        rw [h3]
        apply List.map_congr_left
        intro i _
        simp only [Function.comp, Nat.succ_eq_add_one]
        omega
      · simp only [h4, List.length_cons]; omega
      · intro _
        apply h5
        simp only [List.length_append, List.length_cons, List.length_nil]; omega
      · exact h6
    · rename_i hge
      refine ⟨by simp, by simp [addrs], by simp [ids], by simp, fun h => h, ?_⟩
      intro h; exact absurd h hge

/-- the pop loop never adds a source beyond `count` (even from a state that is already over it) -/
theorem fill_spawned_bound (count : Nat) (cur : List Source) (nid : Nat) (stack : List Addr) :
    (fill count cur nid stack).2.2.2.length ≤ count - cur.length := by
  induction stack generalizing cur nid with
  | nil => simp [fill]
  | cons a rest ih =>
    simp only [fill]
    split
    · have := ih (cur ++ [⟨nid, a⟩]) (nid + 1)
      simp only [List.length_append, List.length_cons, List.length_nil] at this ⊢
      omega
    · simp

/-! #### the operations keep the invariant -/

theorem inv_removed (cfg : Cfg) (p : Pool) (id : Nat) (h : Inv cfg p) : Inv cfg (removed p id) := by
  have hsub : (removed p id).current.Sublist p.current := List.filter_sublist
  have hmem : ∀ s ∈ (removed p id).current, s ∈ p.current := fun s hs => hsub.subset hs
  refine ⟨?_, ?_, h.knownNodup, ?_, ?_, h.knownNotIgnored, ?_, ?_⟩
  · exact Nat.le_trans hsub.length_le h.bounded
  · exact List.Nodup.sublist (hsub.map _) h.distinct
  · intro a ha hm
    exact h.disjoint a ha ((hsub.map _).subset hm)
  · exact fun s hs => h.curNotIgnored s (hmem s hs)
  · exact fun s hs => h.idsBelow s (hmem s hs)
  · exact List.Nodup.sublist (hsub.map _) h.idsNodup

theorem mem_addrs {l : List Source} {a : Addr} : a ∈ addrs l ↔ ∃ s ∈ l, s.addr = a := by
  simp [addrs]

theorem nodup_reverse {α : Type} {l : List α} (h : l.Nodup) : l.reverse.Nodup := by
  rw [List.nodup_iff_pairwise_ne] at h ⊢
  rw [List.pairwise_reverse]
  exact h.imp fun hab => fun e => hab e.symm

/-- Filling from a stack that is duplicate-free, disjoint from the active addresses and free of ignored
    ips keeps the invariant. -/
theorem inv_fill (cfg : Cfg) (p : Pool) (known : List Addr) (h : Inv cfg p)
    (hk : known.Nodup) (hd : ∀ a ∈ known, a ∉ addrs p.current) (hi : ∀ a ∈ known, a.ip ∉ cfg.ignore) :
    let r := fill cfg.count p.current p.nextId known.reverse
    Inv cfg { current := r.1, known := r.2.1.reverse, nextId := r.2.2.1 } := by
  intro r
  obtain ⟨h1, h2, h3, h4, h5, _⟩ := fill_spec cfg.count p.current p.nextId known.reverse
  change r.1 = _ at h1
  change _ = addrs r.2.2.2 ++ r.2.1 at h2
  change ids r.2.2.2 = _ at h3
  change r.2.2.1 = _ at h4
  change _ → r.1.length ≤ _ at h5
  have hrev : (addrs r.2.2.2 ++ r.2.1).Nodup := h2 ▸ nodup_reverse hk
  obtain ⟨hspN, hrestN, hspRest⟩ := List.nodup_append.mp hrev
  have hmemStack : ∀ a, a ∈ addrs r.2.2.2 ++ r.2.1 → a ∈ known := by
    intro a ha; rw [← h2] at ha; exact List.mem_reverse.mp ha
  have hspKnown : ∀ a ∈ addrs r.2.2.2, a ∈ known :=
    fun a ha => hmemStack a (List.mem_append_left _ ha)
  have hrestKnown : ∀ a ∈ r.2.1, a ∈ known :=
    fun a ha => hmemStack a (List.mem_append_right _ ha)
  refine ⟨h5 h.bounded, ?_, nodup_reverse hrestN, ?_, ?_, ?_, ?_, ?_⟩
  · -- distinct
    simp only [h1, addrs, List.map_append]
    rw [List.nodup_append]
    refine ⟨h.distinct, hspN, ?_⟩
    intro a ha b hb e
    subst e
    exact hd a (hspKnown a hb) ha
  · -- disjoint
    intro a ha hm
    have ha' : a ∈ r.2.1 := List.mem_reverse.mp ha
    simp only [h1, addrs, List.map_append, List.mem_append] at hm
    rcases hm with hm | hm
    · exact hd a (hrestKnown a ha') hm
    · exact hspRest a hm a ha' rfl
  · -- current not ignored
    intro s hs
    simp only [h1, List.mem_append] at hs
    rcases hs with hs | hs
    · exact h.curNotIgnored s hs
    · exact hi s.addr (hspKnown _ (mem_addrs.mpr ⟨s, hs, rfl⟩))
  · intro a ha
    exact hi a (hrestKnown a (List.mem_reverse.mp ha))
  · -- ids below
    intro s hs
    simp only [h1, List.mem_append] at hs
    simp only [h4]
    rcases hs with hs | hs
    · have := h.idsBelow s hs; omega
    · have : s.id ∈ ids r.2.2.2 := List.mem_map.mpr ⟨s, hs, rfl⟩
      rw [h3] at this
      obtain ⟨i, hi', he⟩ := List.mem_map.mp this
      have := List.mem_range.mp hi'
      omega
  · -- ids distinct
    simp only [h1, ids, List.map_append]
    rw [List.nodup_append]
    refine ⟨h.idsNodup, ?_, ?_⟩
    · have : List.map (fun x : Source => x.id) r.2.2.2 = ids r.2.2.2 := rfl
      rw [this, h3]
      rw [List.nodup_iff_pairwise_ne, List.pairwise_map]
      have : (List.range r.2.2.2.length).Nodup := List.nodup_range
      rw [List.nodup_iff_pairwise_ne] at this
      exact this.imp fun hab => by omega
    · intro x hx y hy e
      subst e
      obtain ⟨s, hs, rfl⟩ := List.mem_map.mp hx
      have hlt := h.idsBelow s hs
      have : s.id ∈ ids r.2.2.2 := hy
      rw [h3] at this
      obtain ⟨i, _, he⟩ := List.mem_map.mp this
      omega

theorem inv_trySpawn (cfg : Cfg) (p : Pool) (dns : Option (List Addr)) (h : Inv cfg p) :
    Inv cfg (trySpawn cfg p dns).1 := by
  simp only [trySpawn, trySpawnWith]
  split
  · exact h
  · cases hl : afterLookup insertNew cfg p dns with
    | none => exact h
    | some known =>
      simp only
      apply inv_fill cfg p known h
      all_goals
        simp only [afterLookup] at hl
        split at hl
        · cases dns with
          | none => cases hl
          | some ans =>
            simp only [Option.some.injEq] at hl
            subst hl
            first
              | exact List.Nodup.sublist List.filter_sublist (insertNew_nodup _ _ h.knownNodup)
              | (intro a ha
                 have := (List.mem_filter.mp ha).2
                 rw [keep_spec] at this
                 first | exact this.1 | exact this.2)
        · simp only [Option.some.injEq] at hl
          subst hl
          first | exact h.knownNodup | exact h.disjoint | exact h.knownNotIgnored

/-- everything `try_spawn` sends is in the new `current` and was not in the old one's addresses -/
theorem trySpawn_spawned (cfg : Cfg) (p : Pool) (dns : Option (List Addr)) :
    (trySpawn cfg p dns).1.current = p.current ++ (trySpawn cfg p dns).2 := by
  simp only [trySpawn, trySpawnWith]
  split
  · simp
  · cases hl : afterLookup insertNew cfg p dns with
    | none => simp
    | some known =>
      simp only
      exact (fill_spec cfg.count p.current p.nextId known.reverse).1

end NtpVerif.Pool
