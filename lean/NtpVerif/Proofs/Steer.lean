/- Helper lemmas for C01 / C02 about `NtpVerif.Model.Steer`. -/
import NtpVerif.Model.Steer
import NtpVerif.Proofs.F64

namespace NtpVerif.Steer
open NtpVerif.Wrap

/-- the step amounts among a list of events -/
def stepsOf : List Ev → List Int
  | [] => []
  | .step d :: es => d :: stepsOf es
  | _ :: es => stepsOf es

theorem stepsOf_append (a b : List Ev) : stepsOf (a ++ b) = stepsOf a ++ stepsOf b := by
  induction a with
  | nil => rfl
  | cons e es ih => cases e <;> simp [stepsOf, ih]

theorem mem_stepsOf {d : Int} {es : List Ev} : Ev.step d ∈ es ↔ d ∈ stepsOf es := by
  induction es with
  | nil => simp [stepsOf]
  | cons e es ih => cases e <;> simp [stepsOf, ih]

/-! ### F64 order facts used here -/

/-- whatever `clamp` returns, if it is not NaN it lies within the bounds -/
theorem clamp_result_within {x lo hi r : F64} (h : F64.clamp x lo hi = some r) (hr : r.isNaN = false) :
    F64.le lo r = true ∧ F64.le r hi = true := by
  cases hx : x.isNaN
  · exact F64.clamp_within hx h
  · have := F64.clamp_nan hx h
    subst this
    rw [hx] at hr; cases hr

/-- `a.min b ≤ a` as soon as `a` is not NaN (if `b` is NaN, Rust's `min` returns `a`) -/
theorem min_le_left' {a b : F64} (ha : a.isNaN = false) : F64.le (F64.min a b) a = true := by
  cases hb : b.isNaN
  · exact F64.min_le_left ha hb
  · simp [F64.min, ha, hb, F64.le_refl_of_not_nan ha]

/-! ### integer facts -/

theorem absInt_nonneg (d : Int) : 0 ≤ absInt d := by unfold absInt; split <;> omega

theorem durAbs_nonneg {sat : Bool} {d a : Int} (h : durAbs sat d = some a) : 0 ≤ a := by
  have := absInt_nonneg d
  unfold durAbs at h
  split at h
  · simp only [Option.some.injEq] at h; subst h
    unfold satI64 clampInt I64_MIN I64_MAX; repeat' split
    all_goals omega
  · unfold checkedI64 at h; split at h
    · simp only [Option.some.injEq] at h; omega
    · cases h

/-- adding the (possibly saturated) `|d|` to a non-negative accumulator and saturating is the same as
    saturating the exact sum -/
theorem acc_sat_eq {sat : Bool} {d a acc : Int} (h : durAbs sat d = some a) (hacc : 0 ≤ acc) :
    satI64 (satI64 acc + a) = satI64 (acc + absInt d) := by
  have := absInt_nonneg d
  unfold durAbs at h
  split at h
  · simp only [Option.some.injEq] at h; subst h
    unfold satI64 clampInt I64_MIN I64_MAX; repeat' split
    all_goals omega
  · unfold checkedI64 I64_MIN I64_MAX at h; split at h
    · simp only [Option.some.injEq] at h; subst h
      unfold satI64 clampInt I64_MIN I64_MAX; repeat' split
      all_goals omega
    · cases h

theorem satI64_nonneg {x : Int} (h : 0 ≤ x) : 0 ≤ satI64 x := by
  unfold satI64 clampInt I64_MIN I64_MAX; repeat' split
  all_goals omega

/-! ### per-call specification -/

/-- what is guaranteed about one event `ev` of the result `r` of a controller call made in state `st` -/
def EvOK (cfg : Cfg) (st : St) (r : Res) : Ev → Prop
  | .disable => True
  | .step d =>
    r.fin = .ok ∧ stepsOf r.evs = [d] ∧
    (if st.inStartup then isWithin cfg.satOps cfg.startup d = some true ∧ r.st.acc = st.acc
     else isWithin cfg.satOps cfg.single d = some true ∧
       ∃ a, durAbs cfg.satOps d = some a ∧ r.st.acc = satI64 (st.acc + a) ∧
         ∀ v, cfg.accumulated = some v → r.st.acc ≤ v)
  | .slew fr _ => cfg.slewMax.isNaN = false → F64.le fr cfg.slewMax = true
  | .setFreq f => f.isNaN = false → F64.le (F64.neg cfg.maxSteer) f = true ∧ F64.le f cfg.maxSteer = true

def ResOK (cfg : Cfg) (st : St) (r : Res) : Prop :=
  (∀ ev ∈ r.evs, EvOK cfg st r ev) ∧ (stepsOf r.evs = [] → r.fin = .ok → r.st.acc = st.acc)

/-- facts about `steer_frequency`: one `set_frequency`, clamped; no step; bookkeeping untouched -/
theorem steerFrequency_spec (cfg : Cfg) (st : St) (c : F64) :
    let r := steerFrequency cfg st c
    stepsOf r.evs = [] ∧ r.st.acc = st.acc ∧ r.st.inStartup = st.inStartup ∧
    (∀ ev ∈ r.evs, ∃ f, ev = .setFreq f ∧
      (f.isNaN = false → F64.le (F64.neg cfg.maxSteer) f = true ∧ F64.le f cfg.maxSteer = true)) := by
  simp only [steerFrequency]
  split
  · simp [stepsOf]
  · rename_i f hf
    refine ⟨by simp [stepsOf], rfl, rfl, ?_⟩
    intro ev hev
    simp only [List.mem_singleton] at hev
    exact ⟨f, hev, fun hn => clamp_result_within hf hn⟩

theorem changeDesiredFrequency_spec (cfg : Cfg) (st : St) (nf fd : F64) :
    let r := changeDesiredFrequency cfg st nf fd
    stepsOf r.evs = [] ∧ r.st.acc = st.acc ∧ r.st.inStartup = st.inStartup ∧
    (∀ ev ∈ r.evs, ∃ f, ev = .setFreq f ∧
      (f.isNaN = false → F64.le (F64.neg cfg.maxSteer) f = true ∧ F64.le f cfg.maxSteer = true)) := by
  simp only [changeDesiredFrequency]
  exact steerFrequency_spec cfg { st with desiredFreq := nf } _

/-- the threshold check allows a step only inside the thresholds -/
theorem checkDur_ok {cfg : Cfg} {st st' : St} {d0 d : Int}
    (h : checkDur cfg st d0 = (st', .ok d)) :
    d = d0 ∧ st'.inStartup = st.inStartup ∧
    (if st.inStartup then isWithin cfg.satOps cfg.startup d = some true ∧ st'.acc = st.acc
     else isWithin cfg.satOps cfg.single d = some true ∧
       ∃ a, durAbs cfg.satOps d = some a ∧ st'.acc = satI64 (st.acc + a) ∧
         ∀ v, cfg.accumulated = some v → st'.acc ≤ v) := by
  unfold checkDur at h
  by_cases hs : st.inStartup = true
  · simp only [hs, if_true] at h ⊢
    split at h
    · simp at h
    · rename_i hw
      simp only [Prod.mk.injEq, Check.ok.injEq] at h
      obtain ⟨rfl, rfl⟩ := h
      exact ⟨rfl, hs, hw, rfl⟩
    · simp at h
  · simp only [hs, if_false, Bool.false_eq_true] at h ⊢
    split at h
    · simp at h
    · rename_i a ha
      split at h
      · simp at h
      · simp at h
      · rename_i hw
        split at h
        · simp at h
        · rename_i hacc
          simp only [Prod.mk.injEq, Check.ok.injEq] at h
          obtain ⟨rfl, rfl⟩ := h
          refine ⟨rfl, by simp, hw, a, ha, rfl, ?_⟩
          intro v hv
          simp only [accExceeds, hv, decide_eq_true_eq] at hacc
          simp only
          omega

theorem checkOffsetSteer_ok {cfg : Cfg} {st st' : St} {c : F64} {d : Int}
    (h : checkOffsetSteer cfg st c = (st', .ok d)) :
    fromSeconds c = some d ∧ st'.inStartup = st.inStartup ∧
    (if st.inStartup then isWithin cfg.satOps cfg.startup d = some true ∧ st'.acc = st.acc
     else isWithin cfg.satOps cfg.single d = some true ∧
       ∃ a, durAbs cfg.satOps d = some a ∧ st'.acc = satI64 (st.acc + a) ∧
         ∀ v, cfg.accumulated = some v → st'.acc ≤ v) := by
  unfold checkOffsetSteer at h
  split at h
  · simp at h
  · rename_i d0 hd
    obtain ⟨rfl, h2, h3⟩ := checkDur_ok h
    exact ⟨hd, h2, h3⟩

theorem checkDur_startup (cfg : Cfg) (st : St) (d : Int) :
    (checkDur cfg st d).1.inStartup = st.inStartup := by
  unfold checkDur
  (repeat' split) <;> (try simp only []) <;> (try split) <;> rfl

theorem checkOffsetSteer_startup (cfg : Cfg) (st : St) (c : F64) :
    (checkOffsetSteer cfg st c).1.inStartup = st.inStartup := by
  unfold checkOffsetSteer
  split
  · rfl
  · exact checkDur_startup cfg st _

theorem steerOffset_spec (cfg : Cfg) (st : St) (c fd : F64) :
    ResOK cfg st (steerOffset cfg st c fd) ∧ (steerOffset cfg st c fd).st.inStartup = st.inStartup := by
  unfold steerOffset
  split
  · -- jump
    have hsu := checkOffsetSteer_startup cfg st c
    split
    · rename_i st' d hc
      rw [hc] at hsu
      have hok := checkOffsetSteer_ok hc
      refine ⟨⟨?_, ?_⟩, hsu⟩
      · intro ev hev
        simp only [List.mem_singleton] at hev
        subst hev
        exact ⟨rfl, by simp [stepsOf], hok.2.2⟩
      · intro h; simp [stepsOf] at h
    · rename_i st' hc
      rw [hc] at hsu
      exact ⟨⟨by simp, by intro _ h; cases h⟩, hsu⟩
    · rename_i st' hc
      rw [hc] at hsu
      exact ⟨⟨by simp, by intro _ h; cases h⟩, hsu⟩
  · -- slew
    simp only []
    split
    · exact ⟨⟨by simp, by intro _ h; cases h⟩, rfl⟩
    · obtain ⟨h1, h2, h3, h4⟩ := changeDesiredFrequency_spec cfg st
        (F64.neg (F64.min cfg.slewMax (F64.abs c / cfg.slewMinDuration)) * signum c) fd
      refine ⟨⟨?_, ?_⟩, h3⟩
      · intro ev hev
        simp only [List.mem_cons] at hev
        rcases hev with rfl | hev
        · intro hn; exact min_le_left' hn
        · obtain ⟨f, rfl, hf⟩ := h4 ev hev
          exact hf
      · intro _ _; exact h2

theorem resOK_of_freq {cfg : Cfg} {st : St} {r : Res}
    (h : stepsOf r.evs = [] ∧ r.st.acc = st.acc ∧ r.st.inStartup = st.inStartup ∧
      (∀ ev ∈ r.evs, ∃ f, ev = .setFreq f ∧
        (f.isNaN = false → F64.le (F64.neg cfg.maxSteer) f = true ∧ F64.le f cfg.maxSteer = true))) :
    ResOK cfg st r := by
  obtain ⟨_, h2, _, h4⟩ := h
  refine ⟨?_, fun _ _ => h2⟩
  intro ev hev
  obtain ⟨f, rfl, hf⟩ := h4 ev hev
  exact hf

/-- transport of `EvOK` to a result that differs only in `inStartup` of the new state and in a prefix of
    `disable` events -/
theorem evOK_wrap {cfg : Cfg} {st : St} {r r' : Res} {ev : Ev}
    (hfin : r.fin = .ok → r'.fin = .ok) (hsteps : stepsOf r'.evs = stepsOf r.evs)
    (hacc : r'.st.acc = r.st.acc) (h : EvOK cfg st r ev) : EvOK cfg st r' ev := by
  cases ev with
  | disable => trivial
  | step d =>
    obtain ⟨h1, h2, h3⟩ := h
    refine ⟨hfin h1, by rw [hsteps]; exact h2, ?_⟩
    rw [hacc]; exact h3
  | slew fr de => exact h
  | setFreq f => exact h

theorem ctrlUpdate_spec (cfg : Cfg) (st : St) (off freq ovar fvar : F64) :
    ResOK cfg st (ctrlUpdate cfg st off freq ovar fvar) := by
  have hok : ResOK cfg st (steerDecision cfg st off freq ovar fvar) := by
    unfold steerDecision
    simp only []
    split
    · exact (steerOffset_spec cfg st _ _).1
    · split
      · exact resOK_of_freq (steerFrequency_spec cfg st _)
      · exact ⟨by simp, fun _ _ => rfl⟩
  unfold ctrlUpdate
  generalize steerDecision cfg st off freq ovar fvar = r at hok
  simp only
  have hpre : stepsOf (if st.inStartup = true then [Ev.disable] else []) = [] := by
    split <;> simp [stepsOf]
  split
  · rename_i hfin
    refine ⟨?_, ?_⟩
    · intro ev hev
      simp only [List.mem_append] at hev
      rcases hev with hev | hev
      · have : ev = .disable := by
          split at hev <;> simp at hev
          exact hev
        subst this; trivial
      · exact evOK_wrap (r := r) (fun _ => rfl) (by simp [stepsOf_append, hpre]) rfl (hok.1 ev hev)
    · intro hs _
      simp only [stepsOf_append, hpre, List.nil_append] at hs
      exact hok.2 hs hfin
  · rename_i e hne
    refine ⟨?_, ?_⟩
    · intro ev hev
      simp only [List.mem_append] at hev
      rcases hev with hev | hev
      · have : ev = .disable := by
          split at hev <;> simp at hev
          exact hev
        subst this; trivial
      · exact evOK_wrap (r := r) (fun h => absurd h (by intro h'; exact hne h'))
          (by simp [stepsOf_append, hpre]) rfl (hok.1 ev hev)
    · intro _ hfin'
      exact absurd hfin' (by intro h'; exact hne h')

theorem ctrlStep_spec (cfg : Cfg) (st : St) (inp : Input) : ResOK cfg st (ctrlStep cfg st inp) := by
  cases inp with
  | noConsensus => exact ⟨by simp [ctrlStep], fun _ _ => rfl⟩
  | estimate off freq ovar fvar => exact ctrlUpdate_spec cfg st off freq ovar fvar
  | timeUpdate => exact resOK_of_freq (changeDesiredFrequency_spec cfg st _ _)

/-- every event of a run was emitted by some controller call, and carries that call's `in_startup` -/
theorem run_mem {cfg : Cfg} {st : St} {inps : List Input} {b : Bool} {ev : Ev}
    (h : (b, ev) ∈ (run cfg st inps).1) :
    ∃ st' inp, ev ∈ (ctrlStep cfg st' inp).evs ∧ b = st'.inStartup := by
  induction inps generalizing st with
  | nil => simp [run] at h
  | cons i is ih =>
    simp only [run] at h
    split at h
    · simp only [List.mem_append, List.mem_map, Prod.mk.injEq] at h
      rcases h with ⟨e, he, hb, rfl⟩ | h
      · exact ⟨st, i, he, hb.symm⟩
      · exact ih h
    · simp only [List.mem_map, Prod.mk.injEq] at h
      obtain ⟨e, he, hb, rfl⟩ := h
      exact ⟨st, i, he, hb.symm⟩

/-! ### the accumulated-steps history -/

/-- post-startup step amounts of a tagged trace -/
def postSteps : List (Bool × Ev) → List Int
  | [] => []
  | (false, .step d) :: t => d :: postSteps t
  | _ :: t => postSteps t

/-- running sums of `|d|`, starting from `a`: the value after each step -/
def sums (a : Int) : List Int → List Int
  | [] => []
  | d :: ds => (a + absInt d) :: sums (a + absInt d) ds

theorem postSteps_append (a b : List (Bool × Ev)) : postSteps (a ++ b) = postSteps a ++ postSteps b := by
  induction a with
  | nil => rfl
  | cons e es ih =>
    obtain ⟨b', ev⟩ := e
    cases b' <;> cases ev <;> simp [postSteps, ih]

theorem postSteps_tag (b : Bool) (evs : List Ev) :
    postSteps (evs.map (fun ev => (b, ev))) = if b then [] else stepsOf evs := by
  induction evs with
  | nil => cases b <;> rfl
  | cons e es ih => cases b <;> cases e <;> simp_all [postSteps, stepsOf]

/-- Invariant of a run: the stored accumulator is the saturated exact sum, and after every
    post-startup step it is within the accumulated threshold. -/
theorem run_accumulated (cfg : Cfg) (v : Int) (hv : cfg.accumulated = some v)
    (inps : List Input) (st : St) (a : Int) (ha : 0 ≤ a) (hst : st.acc = satI64 a) :
    ∀ x ∈ sums a (postSteps (run cfg st inps).1), satI64 x ≤ v := by
  induction inps generalizing st a with
  | nil => simp [run, postSteps, sums]
  | cons i is ih =>
    have hspec := ctrlStep_spec cfg st i
    simp only [run]
    generalize hr : ctrlStep cfg st i = r at hspec
    -- the chunk of this input has at most one step
    have hchunk : stepsOf r.evs = [] ∨ ∃ d, stepsOf r.evs = [d] ∧ EvOK cfg st r (.step d) := by
      cases hs : stepsOf r.evs with
      | nil => exact Or.inl rfl
      | cons d ds =>
        have hm : Ev.step d ∈ r.evs := mem_stepsOf.mpr (by rw [hs]; simp)
        have := hspec.1 _ hm
        exact Or.inr ⟨d, by rw [← hs]; exact this.2.1, this⟩
    split
    · rename_i hfin
      simp only [postSteps_append, postSteps_tag]
      rcases hchunk with h0 | ⟨d, hd, hev⟩
      · have hacc := hspec.2 h0 hfin
        have : (if st.inStartup = true then [] else stepsOf r.evs) = [] := by split <;> simp [h0]
        rw [this, List.nil_append]
        exact ih r.st a ha (by rw [hacc]; exact hst)
      · obtain ⟨_, _, h3⟩ := hev
        by_cases hs : st.inStartup = true
        · simp only [hs, if_true] at h3 ⊢
          rw [List.nil_append]
          exact ih r.st a ha (by rw [h3.2]; exact hst)
        · simp only [hs, if_false, Bool.false_eq_true] at h3 ⊢
          obtain ⟨_, a', ha', hacc, hle⟩ := h3
          rw [hd]
          simp only [List.cons_append, List.nil_append, sums]
          have heq : r.st.acc = satI64 (a + absInt d) := by
            rw [hacc, hst]; exact acc_sat_eq ha' ha
          intro x hx
          simp only [List.mem_cons] at hx
          rcases hx with rfl | hx
          · rw [← heq]; exact hle v hv
          · exact ih r.st (a + absInt d) (by have := absInt_nonneg d; omega) heq x hx
    · rename_i e hne
      simp only [postSteps_tag]
      rcases hchunk with h0 | ⟨d, hd, hev⟩
      · have : (if st.inStartup = true then [] else stepsOf r.evs) = [] := by split <;> simp [h0]
        rw [this]; simp [sums]
      · exact absurd hev.1 (by intro h'; exact hne h')

/-- a sequence of allowed post-startup steps keeps the saturated exact sum within the threshold -/
theorem acceptSteps_accumulated (cfg : Cfg) (v : Int) (hv : cfg.accumulated = some v)
    (ds : List Int) (st st' : St) (a : Int) (ha : 0 ≤ a) (hst : st.acc = satI64 a)
    (hs : st.inStartup = false) (hne : ds ≠ []) (h : acceptSteps cfg st ds = some st') :
    satI64 (a + (ds.map absInt).sum) ≤ v := by
  induction ds generalizing st a with
  | nil => exact absurd rfl hne
  | cons d ds ih =>
    simp only [acceptSteps] at h
    split at h
    · rename_i st1 d1 hc
      obtain ⟨rfl, hsu, h3⟩ := checkDur_ok hc
      simp only [hs, Bool.false_eq_true, if_false] at h3
      obtain ⟨_, a', ha', hacc, hle⟩ := h3
      have heq : st1.acc = satI64 (a + absInt d1) := by rw [hacc, hst]; exact acc_sat_eq ha' ha
      have hnn := absInt_nonneg d1
      simp only [List.map_cons, List.sum_cons]
      cases ds with
      | nil =>
        simp only [List.map_nil, List.sum_nil, Int.add_zero]
        rw [← heq]; exact hle v hv
      | cons e es =>
        have := ih st1 (a + absInt d1) (by omega) heq (by rw [hsu]; exact hs) (by simp) h
        simpa [Int.add_assoc] using this
    · cases h

end NtpVerif.Steer
