/-
Helper lemmas for C24, tenth part: assembly.  A packet accepted without keys encodes to `b₁`; `b₁` is accepted
again as `q`; `q` encodes to `b₁`.
-/
import NtpVerif.Proofs.WireRT9

namespace NtpVerif.Wire

def macBytes : Option Mac → Bytes
  | some m => m.serialize
  | none => []

theorem constructPacket_again {header : Header} {rem : Bytes} {ef : EFData} {p : Packet}
    (h : constructPacket header rem ef = .ok p) :
    p.header = header ∧ p.ef = ef ∧ macBytes p.mac = rem ∧ (rem = [] → p.mac = none) ∧
      ∀ (header' : Header) (ef' : EFData),
        constructPacket header' rem ef' = .ok { header := header', ef := ef', mac := p.mac } := by
  unfold constructPacket at h
  split at h
  · rename_i hne
    simp only [bind, Except.bind, pure, Except.pure] at h
    split at h
    · cases h
    · rename_i m hm
      cases h
      refine ⟨rfl, rfl, mac_reencode hm, fun he => absurd he hne, ?_⟩
      intro header' ef'
      unfold constructPacket
      rw [if_pos hne]
      simp only [bind, Except.bind, pure, Except.pure, hm]
  · rename_i he
    cases h
    have he' : rem = [] := by
      by_cases hh : rem = []
      · exact hh
      · exact absurd hh he
    refine ⟨rfl, rfl, he'.symm, fun _ => rfl, ?_⟩
    intro header' ef'
    unfold constructPacket
    rw [if_neg he]
    rfl

/-- the extension-field / MAC part of the round trip, any header -/
theorem parseEF_roundtrip {dec : Dec} {data : Bytes} {header : Header} {hs : Nat} {ver : Ver} {p : Packet}
    {c : Option Cookie} (h : parseEF dec .noCipher data header hs ver = .ok (p, c, true)) :
    p.header = header ∧ p.ef.authenticated = [] ∧ p.ef.encrypted = [] ∧ (ver = .v5 → p.mac = none) ∧
    ∃ frs : List Frame, serializeUntrusted ver p.ef.untrusted = .ok (flat frs) ∧
      serializeUntrusted ver (frs.map (·.f)) = .ok (flat frs) ∧ (ver = .v5 → frs.map (·.f) = p.ef.untrusted) ∧
      ∀ (dec' : Dec) (ctx : Ctx) (hdr : Bytes) (header' : Header),
        parseEF dec' ctx (hdr ++ (flat frs ++ macBytes p.mac)) header' hdr.length ver =
          .ok ({ header := header',
                 ef := { authenticated := [], encrypted := [], untrusted := frs.map (·.f) },
                 mac := p.mac }, none, true) := by
  unfold parseEF at h
  simp only [bind, Except.bind, pure, Except.pure] at h
  split at h
  · cases h
  rename_i r hr
  split at h
  · cases h
  rename_i p' hp'
  simp only [Except.ok.injEq, Prod.mk.injEq] at h
  obtain ⟨hp, _, hv⟩ := h
  subst hp
  obtain ⟨hplain1, hplain2, _⟩ := efDeserialize_plain hr
  obtain ⟨hfw, hrem⟩ := efDeserialize_origin hr
  obtain ⟨c1, c2, c3, c4, c5⟩ := constructPacket_again hp'
  obtain ⟨frs, _, s1, s2, hok, hbig, h6⟩ := seq_frames ver r.remaining r.ef.untrusted (hfw hv)
  refine ⟨c1, by rw [c2]; exact hplain1, by rw [c2]; exact hplain2, ?_, frs, by rw [c2]; exact s1, s2,
    by rw [c2]; exact h6, ?_⟩
  · intro hv5
    apply c4
    subst hv5
    have : macCutoff .v5 = 0 := rfl
    rw [this] at hrem
    exact List.eq_nil_of_length_eq_zero (by omega)
  · intro dec' ctx hdr header'
    unfold parseEF
    rw [c3, efDeserialize_frames dec' ctx hdr r.remaining ver frs hok hrem hbig]
    simp only [bind, Except.bind, pure, Except.pure]
    rw [c5]

/-! ### encoding a key-less packet -/

theorem serialize_v4 (hd : HeaderV34) (fs : List EF) (mac : Option Mac) (hb u : Bytes)
    (hser : hd.serialize 4 = .ok hb) (hu : serializeUntrusted .v4 fs = .ok u) :
    Packet.serialize { header := .v4 hd, ef := { authenticated := [], encrypted := [], untrusted := fs },
                       mac := mac } none none = .ok (hb ++ (u ++ macBytes mac), none) := by
  unfold Packet.serialize EFData.serialize
  cases mac <;> simp [hser, hu, bind, Except.bind, pure, Except.pure, macBytes]

theorem serialize_v5 (hd : HeaderV5) (fs : List EF) (mac : Option Mac) (hb u : Bytes)
    (hser : hd.serialize = .ok hb) (hu : serializeUntrusted .v5 fs = .ok u) :
    Packet.serialize { header := .v5 hd, ef := { authenticated := [], encrypted := [], untrusted := fs },
                       mac := mac } none none = .ok (hb ++ (u ++ macBytes mac), none) := by
  unfold Packet.serialize EFData.serialize
  cases mac <;> simp [hser, hu, bind, Except.bind, pure, Except.pure, macBytes]

/-- the shape of a key-less packet -/
theorem packet_eta {p : Packet} {header : Header} (h1 : p.header = header) (h2 : p.ef.authenticated = [])
    (h3 : p.ef.encrypted = []) :
    p = { header := header, ef := { authenticated := [], encrypted := [], untrusted := p.ef.untrusted },
          mac := p.mac } := by
  obtain ⟨ph, ⟨a, e, u⟩, m⟩ := p
  simp only at h1 h2 h3
  subst h1; subst h2; subst h3
  rfl

/-! ### the round trip, per version -/

/-- NTPv4: `b₁ = first 48 bytes ++ encoded fields ++ MAC` -/
theorem parseR_v4_stable {dec dec' : Dec} {b0 : UInt8} {t : Bytes} {p : Packet} {c : Option Cookie}
    (hver : b0.toNat / 8 % 8 = 4) (h : parseR dec .noCipher (b0 :: t) = .ok (p, c, true)) :
    ∃ b₁, p.serialize none none = .ok (b₁, none) ∧
      ∃ q c', parseR dec' .noCipher b₁ = .ok (q, c', true) ∧ q.serialize none none = .ok (b₁, none) := by
  unfold parseR at h
  have h3 : ¬ ((4 : Nat) = 3) := by decide
  simp only [h3, hver, if_false, if_true, bind, Except.bind] at h
  split at h
  · cases h
  rename_i x hx
  obtain ⟨hd, hs⟩ := x
  simp only at h
  obtain ⟨e48, hlen⟩ := headerV34_size hx
  subst e48
  obtain ⟨b0', t', edata, hser⟩ := headerV34_reencode hx
  simp only [List.cons.injEq] at edata
  obtain ⟨eb, _⟩ := edata
  subst eb
  rw [hver] at hser
  obtain ⟨r1, r2, r3, _, frs, s1, s2, _, hre⟩ := parseEF_roundtrip h
  have hp := packet_eta r1 r2 r3
  have htl : ((b0 :: t).take 48).length = 48 := by rw [List.length_take]; omega
  have hb1 : (b0 :: t).take 48 ++ (flat frs ++ macBytes p.mac) =
      b0 :: (t.take 47 ++ (flat frs ++ macBytes p.mac)) := by
    simp [List.take_succ_cons]
  refine ⟨(b0 :: t).take 48 ++ (flat frs ++ macBytes p.mac), ?_, ?_⟩
  · rw [hp]; exact serialize_v4 hd _ _ _ _ hser s1
  · refine ⟨{ header := .v4 hd, ef := { authenticated := [], encrypted := [], untrusted := frs.map (·.f) },
              mac := p.mac }, none, ?_, serialize_v4 hd _ _ _ _ hser s2⟩
    have hhdr := headerV34_of_take hx (flat frs ++ macBytes p.mac)
    have hpe := hre dec' .noCipher ((b0 :: t).take 48) (.v4 hd)
    rw [htl] at hpe
    rw [hb1] at hhdr hpe ⊢
    unfold parseR
    simp only [h3, hver, if_false, if_true, bind, Except.bind, hhdr]
    exact hpe

/-- NTPv5: the re-encoding is accepted as the very same packet -/
theorem parseR_v5_stable {dec dec' : Dec} {b0 : UInt8} {t : Bytes} {p : Packet} {c : Option Cookie}
    (hver : b0.toNat / 8 % 8 = 5) (h : parseR dec .noCipher (b0 :: t) = .ok (p, c, true)) :
    ∃ b₁, p.serialize none none = .ok (b₁, none) ∧
      ∃ q c', parseR dec' .noCipher b₁ = .ok (q, c', true) ∧ q.serialize none none = .ok (b₁, none) := by
  unfold parseR at h
  have h3 : ¬ ((5 : Nat) = 3) := by decide
  have h4 : ¬ ((5 : Nat) = 4) := by decide
  simp only [h3, h4, hver, if_false, if_true, bind, Except.bind] at h
  split at h
  · cases h
  rename_i x hx
  obtain ⟨hd, hs⟩ := x
  simp only at h
  split at h
  · cases h
  rename_i y hy
  obtain ⟨p', c', v'⟩ := y
  simp only at h
  have hv' : v' = true := by
    cases v' with
    | true => rfl
    | false => simp [pure, Except.pure] at h
  subst hv'
  simp only [not_true_eq_false, if_false] at h
  split at h
  · rename_i hdraft
    simp only [pure, Except.pure, Except.ok.injEq, Prod.mk.injEq] at h
    obtain ⟨hpp, _, _⟩ := h
    subst hpp
    obtain ⟨e48, hwf⟩ := headerV5_wf hx
    subst e48
    obtain ⟨hb, hser, hbl, ⟨x0, tl, ehb, hx0⟩, hdes⟩ := headerV5_roundtrip hwf
    obtain ⟨r1, r2, r3, r4, frs, s1, _, s3, hre⟩ := parseEF_roundtrip hy
    have hmac := r4 rfl
    have hp := packet_eta r1 r2 r3
    have hsame : frs.map (·.f) = p'.ef.untrusted := s3 rfl
    have hser_p : p'.serialize none none = .ok (hb ++ (flat frs ++ macBytes p'.mac), none) := by
      rw [hp]; exact serialize_v5 hd _ _ _ _ hser s1
    refine ⟨hb ++ (flat frs ++ macBytes p'.mac), hser_p, p', none, ?_, hser_p⟩
    have hpe := hre dec' .noCipher hb (.v5 hd)
    rw [hbl, hsame, ← hp] at hpe
    have hhdr := hdes (flat frs ++ macBytes p'.mac)
    subst ehb
    simp only [List.cons_append] at hhdr hpe ⊢
    unfold parseR
    simp only [h3, h4, hx0, if_false, if_true, bind, Except.bind, hhdr, hpe, not_true_eq_false, hdraft, pure,
      Except.pure]
  · cases h

/-- the version number decides the kind of header -/
theorem parseR_v3_header {dec : Dec} {ctx : Ctx} {b0 : UInt8} {t : Bytes} {p : Packet} {c : Option Cookie} {v : Bool}
    (hver : b0.toNat / 8 % 8 = 3) (h : parseR dec ctx (b0 :: t) = .ok (p, c, v)) : ∃ h3, p.header = .v3 h3 := by
  unfold parseR at h
  simp only [hver, if_true, bind, Except.bind, pure, Except.pure] at h
  split at h
  · cases h
  rename_i x hx
  obtain ⟨hd, hs⟩ := x
  simp only at h
  split at h
  · split at h
    · cases h
    · split at h
      · cases h
      · cases h; exact ⟨hd, rfl⟩
  · cases h; exact ⟨hd, rfl⟩

theorem parseR_version {dec : Dec} {ctx : Ctx} {b0 : UInt8} {t : Bytes} {r : Packet × Option Cookie × Bool}
    (h : parseR dec ctx (b0 :: t) = .ok r) :
    b0.toNat / 8 % 8 = 3 ∨ b0.toNat / 8 % 8 = 4 ∨ b0.toNat / 8 % 8 = 5 := by
  unfold parseR at h
  simp only at h
  split at h
  · left; assumption
  · split at h
    · right; left; assumption
    · split at h
      · right; right; assumption
      · cases h

/-- THE ROUND TRIP for every accepted packet -/
theorem parseR_stable {dec dec' : Dec} {b : Bytes} {p : Packet} {c : Option Cookie}
    (h : parseR dec .noCipher b = .ok (p, c, true)) :
    ∃ b₁, p.serialize none none = .ok (b₁, none) ∧
      ∃ q c', parseR dec' .noCipher b₁ = .ok (q, c', true) ∧ q.serialize none none = .ok (b₁, none) := by
  cases b with
  | nil => unfold parseR at h; cases h
  | cons b0 t =>
    rcases parseR_version h with hv | hv | hv
    · have hs := parseR_v3_exact h (parseR_v3_header hv h)
      -- v3: the encoding is the input itself; decoding does not use the decryption oracle
      refine ⟨b0 :: t, hs, p, c, ?_, hs⟩
      have : parseR dec' .noCipher (b0 :: t) = parseR dec .noCipher (b0 :: t) := by
        unfold parseR
        simp only [hv, if_true]
      rw [this]; exact h
    · exact parseR_v4_stable hv h
    · exact parseR_v5_stable hv h

end NtpVerif.Wire
