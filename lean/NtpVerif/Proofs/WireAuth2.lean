/-
Helper lemmas for C25, second part: the exact triples that reach the cipher.  Core Lean only.
-/
import NtpVerif.Proofs.WireAuth

namespace NtpVerif.Wire

abbrev minEF : Nat := Gen.EF_V4_UNENCRYPTED_MINIMUM_SIZE

/-- every field item of a stream is the raw field standing at its offset -/
theorem streamAux_raw (ver : Ver) (cutoff minSize : Nat) :
    ∀ (fuel : Nat) (rem : Bytes) (off : Nat),
      ∀ it ∈ streamAux ver cutoff minSize fuel rem off, ∀ o ty msg wl, it = .field o ty msg wl →
        off ≤ o ∧ rawDeserialize (rem.drop (o - off)) minSize ver = .ok (ty, msg) := by
  intro fuel
  induction fuel with
  | zero =>
    intro rem off it hit o ty msg wl e
    unfold streamAux at hit
    simp at hit; subst hit; cases e
  | succ n ih =>
    intro rem off it hit o ty msg wl e
    unfold streamAux at hit
    split at hit
    · cases hit
    · split at hit
      · simp at hit; subst hit; cases e
      · rename_i ty' msg' hraw
        split at hit
        · simp at hit; subst hit; cases e
        · rename_i wl' hwl
          simp only [List.mem_cons] at hit
          cases hit with
          | inl h =>
            subst h; cases e
            exact ⟨Nat.le_refl _, by simpa using hraw⟩
          | inr h =>
            obtain ⟨h1, h2⟩ := ih (rem.drop wl') (off + wl') it h o ty msg wl e
            refine ⟨by omega, ?_⟩
            rw [List.drop_drop] at h2
            have : wl' + (o - (off + wl')) = o - off := by omega
            rw [this] at h2
            exact h2

theorem stream_raw {buffer : Bytes} {cutoff minSize : Nat} {ver : Ver} {o ty : Nat} {msg : Bytes} {wl : Nat}
    (h : Item.field o ty msg wl ∈ stream buffer cutoff minSize ver) :
    rawDeserialize (buffer.drop o) minSize ver = .ok (ty, msg) := by
  have := (streamAux_raw ver cutoff minSize _ buffer 0 _ h o ty msg wl rfl).2
  simpa using this

/-- at byte offset `n` of the packet stands a well-framed encrypted field carrying this nonce and ciphertext -/
def AuthAt (data : Bytes) (ver : Ver) (n : Nat) (nonce ct : Bytes) : Prop :=
  ∃ msg, rawDeserialize (data.drop n) minEF ver = .ok (tyEncrypted, msg) ∧ fromMessageBytes msg = .ok (nonce, ct)

/-- no decryption of a triple (packet prefix, nonce, ciphertext) that actually stands in the packet succeeds -/
def NoTripleDecrypts (dec : Dec) (data : Bytes) : Prop :=
  ∀ key ver n nonce ct, 48 ≤ n → n ≤ data.length → AuthAt data ver n nonce ct →
    dec key nonce ct (data.take n) = none

theorem efStep_nothing' {dec : Dec} {ctx : Ctx} {data : Bytes} {hs : Nat} {ver : Ver} {st st' : EFState}
    {off ty : Nat} {msg : Bytes} {wl : Nat} (hd : NoTripleDecrypts dec data) (hhs : 48 ≤ hs)
    (hraw : rawDeserialize (data.drop (hs + off)) minEF ver = .ok (ty, msg))
    (hst : st.Nothing) (h : efStep dec ctx data hs ver st off ty msg wl = .ok st') : st'.Nothing := by
  unfold efStep at h
  simp only at h
  split at h
  · rename_i hty
    split at h
    · cases h
    · rename_i nonce ct hfm
      split at h
      · cases h; exact hst
      · split at h
        · cases h
        · rename_i aad haad
          obtain ⟨e1, e2⟩ := sliceP_zero haad
          split at h
          · cases h; exact hst
          · cases h
          · rename_i holder _ _ _ fields hf
            exfalso
            unfold decryptFields at hf
            have : dec holder.key nonce ct (data.take (hs + off)) = none :=
              hd holder.key ver (hs + off) nonce ct (by omega) e2 ⟨msg, by rw [← hty]; exact hraw, hfm⟩
            rw [e1, this] at hf
            cases hf
  · split at h
    · cases h
    · cases h; exact hst

theorem efLoop_nothing' {dec : Dec} {ctx : Ctx} {data : Bytes} {hs : Nat} {ver : Ver}
    (hd : NoTripleDecrypts dec data) (hhs : 48 ≤ hs) :
    ∀ (items : List Item) (st st' : EFState),
      (∀ o ty msg wl, Item.field o ty msg wl ∈ items →
        rawDeserialize (data.drop (hs + o)) minEF ver = .ok (ty, msg)) →
      st.Nothing → efLoop dec ctx data hs ver items st = .ok st' → st'.Nothing := by
  intro items
  induction items with
  | nil => intro st st' _ hp h; unfold efLoop at h; cases h; exact hp
  | cons it rest ih =>
    intro st st' hraw hp h
    cases it with
    | err e => unfold efLoop at h; cases h
    | panic => unfold efLoop at h; cases h
    | fuel => unfold efLoop at h; cases h
    | field off ty msg wl =>
      unfold efLoop at h
      split at h
      · cases h
      · rename_i st1 h1
        exact ih st1 st' (fun o ty msg wl hm => hraw o ty msg wl (List.mem_cons_of_mem _ hm))
          (efStep_nothing' hd hhs (hraw off ty msg wl List.mem_cons_self) hp h1) h

theorem sliceP_tail {data : Bytes} {hs : Nat} {body : Bytes} (h : sliceP data hs data.length = .ok body) :
    body = data.drop hs := by
  unfold sliceP at h
  split at h
  · rename_i s hs'
    cases h
    obtain ⟨_, _, h3, _⟩ := slice?_some hs'
    rw [h3]
    apply List.take_of_length_le
    simp
  · cases h

theorem efDeserialize_nothing' {dec : Dec} {ctx : Ctx} {data : Bytes} {hs : Nat} {ver : Ver} {r : EFResult}
    (hd : NoTripleDecrypts dec data) (hhs : 48 ≤ hs) (h : efDeserialize dec ctx data hs ver = .ok r) :
    r.ef.authenticated = [] ∧ r.ef.encrypted = [] ∧ r.cookie = none := by
  unfold efDeserialize at h
  split at h
  · cases h
  · rename_i body hbody
    have hb := sliceP_tail hbody
    split at h
    · cases h
    · rename_i st hst
      split at h
      · cases h
      · cases h
        obtain ⟨a, b, c⟩ := efLoop_nothing' hd hhs _ .init st
          (by
            intro o ty msg wl hm
            have := stream_raw hm
            rw [hb, List.drop_drop] at this
            exact this)
          (by simp [EFState.Nothing, EFState.init, EFData.empty]) hst
        refine ⟨a, b, ?_⟩
        simp [c]

theorem parseEF_nothing' {dec : Dec} {ctx : Ctx} {data : Bytes} {header : Header} {hs : Nat} {ver : Ver}
    {p : Packet} {c : Option Cookie} {v : Bool} (hd : NoTripleDecrypts dec data) (hhs : 48 ≤ hs)
    (h : parseEF dec ctx data header hs ver = .ok (p, c, v)) : p.NothingAuthentic ∧ c = none := by
  unfold parseEF at h
  simp only [bind, Except.bind, pure, Except.pure] at h
  split at h
  · cases h
  · rename_i r hr
    split at h
    · cases h
    · rename_i p' hp'
      simp only [Except.ok.injEq, Prod.mk.injEq] at h
      obtain ⟨hp, hc, _⟩ := h
      subst hp
      obtain ⟨a, b, c'⟩ := efDeserialize_nothing' hd hhs hr
      rw [← hc]
      refine ⟨?_, c'⟩
      unfold Packet.NothingAuthentic
      rw [constructPacket_ef hp']
      exact ⟨a, b⟩

theorem parseR_nothing' {dec : Dec} {ctx : Ctx} {data : Bytes} {p : Packet} {c : Option Cookie} {v : Bool}
    (hd : NoTripleDecrypts dec data) (h : parseR dec ctx data = .ok (p, c, v)) :
    p.NothingAuthentic ∧ c = none := by
  unfold parseR at h
  split at h
  · cases h
  · simp only at h
    split at h
    · simp only [bind, Except.bind, pure, Except.pure] at h
      split at h
      · cases h
      · rename_i x hx
        obtain ⟨hdr, hs⟩ := x
        simp only at h
        split at h
        · split at h
          · cases h
          · split at h
            · cases h
            · cases h; exact ⟨⟨rfl, rfl⟩, rfl⟩
        · cases h; exact ⟨⟨rfl, rfl⟩, rfl⟩
    · split at h
      · simp only [bind, Except.bind, pure, Except.pure] at h
        split at h
        · cases h
        · rename_i x hx
          obtain ⟨hdr, hs⟩ := x
          obtain ⟨h1, _⟩ := headerV34_size hx
          simp only at h
          exact parseEF_nothing' hd (by omega) h
      · split at h
        · simp only [bind, Except.bind, pure, Except.pure] at h
          split at h
          · cases h
          · rename_i x hx
            obtain ⟨hdr, hs⟩ := x
            obtain ⟨h1, _⟩ := headerV5_size hx
            simp only at h
            split at h
            · cases h
            · rename_i y hy
              obtain ⟨p', c', v'⟩ := y
              have key := parseEF_nothing' hd (by omega) hy
              simp only at h
              split at h
              · cases h; exact key
              · split at h
                · cases h; exact key
                · cases h
        · cases h

/-! ### the nonce and ciphertext bytes of a field, read directly off the packet -/

/-- bytes `8 .. 8 + nonce_len` of a field -/
def authNonce (F : Bytes) : Bytes :=
  match F with
  | _ :: _ :: _ :: _ :: n0 :: n1 :: _ :: _ :: rest => rest.take (be16 n0 n1)
  | _ => []

/-- bytes `8 + pad4(nonce_len) .. + ct_len` of a field -/
def authCt (F : Bytes) : Bytes :=
  match F with
  | _ :: _ :: _ :: _ :: n0 :: n1 :: c0 :: c1 :: rest => (rest.drop (nm4u16 (be16 n0 n1))).take (be16 c0 c1)
  | _ => []

theorem raw_nonce_ct {F : Bytes} {minSize : Nat} {ver : Ver} {ty : Nat} {msg nonce ct : Bytes}
    (hr : rawDeserialize F minSize ver = .ok (ty, msg)) (hf : fromMessageBytes msg = .ok (nonce, ct)) :
    nonce = authNonce F ∧ ct = authCt F := by
  unfold rawDeserialize at hr
  split at hr
  · rename_i t0 t1 l0 l1 tail
    simp only at hr
    split at hr
    · cases hr
    · split at hr
      · cases hr
      · split at hr
        · cases hr
        · split at hr
          · cases hr
          · rename_i m hm
            cases hr
            obtain ⟨h1, h2, h3, h4⟩ := slice?_some hm
            simp only [List.drop_succ_cons, List.drop_zero] at h3
            -- msg = tail.take (flen - 4)
            unfold fromMessageBytes at hf
            split at hf
            · rename_i n0 n1 c0 c1 rest'
              simp only at hf
              split at hf
              · cases hf
              · rename_i nn hn
                split at hf
                · cases hf
                · rename_i cc hc
                  cases hf
                  obtain ⟨_, a2, a3, _⟩ := slice?_some hn
                  obtain ⟨_, b2, b3, _⟩ := slice?_some hc
                  have hl := congrArg List.length h3
                  simp only [List.length_cons, List.length_take] at hl
                  rcases tail with _ | ⟨x0, _ | ⟨x1, _ | ⟨x2, _ | ⟨x3, rest⟩⟩⟩⟩
                  · simp at hl
                  · simp at hl; omega
                  · simp at hl; omega
                  · simp at hl; omega
                  · have e : List.take (be16 l0 l1 - 4) (x0 :: x1 :: x2 :: x3 :: rest) =
                        x0 :: x1 :: x2 :: x3 :: rest.take (be16 l0 l1 - 4 - 4) := by
                      have : be16 l0 l1 - 4 = (be16 l0 l1 - 4 - 4) + 4 := by
                        simp only [List.length_cons] at hl; omega
                      rw [this]; simp [List.take_succ_cons]
                    rw [e] at h3
                    simp only [List.cons.injEq] at h3
                    obtain ⟨r0, r1, r2, r3, r4⟩ := h3
                    subst r0 r1 r2 r3 r4
                    simp only [authNonce, authCt]
                    simp only [List.length_cons, List.length_take] at a2 b2
                    constructor
                    · rw [a3]
                      simp only [List.drop_zero, Nat.sub_zero, List.take_take]
                      congr 1
                      omega
                    · rw [b3]
                      have hd : List.drop (4 + nm4u16 (be16 n0 n1))
                          (n0 :: n1 :: c0 :: c1 :: List.take (be16 l0 l1 - 4 - 4) rest) =
                          (List.take (be16 l0 l1 - 4 - 4) rest).drop (nm4u16 (be16 n0 n1)) := by
                        rw [Nat.add_comm]; simp [List.drop_succ_cons]
                      rw [hd, List.drop_take, List.take_take]
                      congr 1
                      omega
            · cases hf
  · cases hr

end NtpVerif.Wire
