/- Helper lemmas for the PTP wire codec model (core Lean only). -/
import NtpVerif.Model.PtpWire
namespace NtpVerif.PtpWire

theorem foldl_acc (bs : Bytes) (acc : Nat) :
    bs.foldl (fun acc b => acc * 256 + b.toNat) acc
      = acc * 256 ^ bs.length + bs.foldl (fun acc b => acc * 256 + b.toNat) 0 := by
  induction bs generalizing acc with
  | nil => simp
  | cons b bs ih =>
    simp only [List.foldl_cons, List.length_cons, Nat.pow_succ]
    rw [ih (acc * 256 + b.toNat), ih (0 * 256 + b.toNat)]
    grind

theorem beNat_cons (b : UInt8) (bs : Bytes) : beNat (b :: bs) = b.toNat * 256 ^ bs.length + beNat bs := by
  simp only [beNat, List.foldl_cons]
  rw [foldl_acc]; simp

theorem beNat_lt (bs : Bytes) : beNat bs < 256 ^ bs.length := by
  induction bs with
  | nil => simp [beNat]
  | cons b bs ih =>
    rw [beNat_cons]
    have := b.toNat_lt
    simp only [List.length_cons, Nat.pow_succ]
    have h1 : b.toNat * 256 ^ bs.length ≤ 255 * 256 ^ bs.length := Nat.mul_le_mul_right _ (by omega)
    omega

theorem beBytes_length (k n : Nat) : (beBytes k n).length = k := by
  induction k with
  | zero => rfl
  | succ k ih => simp [beBytes, ih]

theorem toNat_ofNat (n : Nat) : (UInt8.ofNat n).toNat = n % 256 := by
  simp

theorem ofNat_add_mul (a m : Nat) : UInt8.ofNat (a * 256 + m) = UInt8.ofNat m := by
  apply UInt8.toNat_inj.mp
  simp [Nat.add_mod]

theorem beNat_beBytes (k n : Nat) : beNat (beBytes k n) = n % 256 ^ k := by
  induction k with
  | zero => simp [beBytes, beNat, Nat.mod_one]
  | succ k ih =>
    rw [beBytes, beNat_cons, ih, beBytes_length, toNat_ofNat, Nat.pow_succ]
    have hp : 0 < 256 ^ k := Nat.pow_pos (by omega)
    rw [Nat.mod_mul, Nat.mul_comm]
    omega

theorem beBytes_add_mul (k a n : Nat) : beBytes k (a * 256 ^ k + n) = beBytes k n := by
  induction k generalizing a with
  | zero => rfl
  | succ k ih =>
    have hp : 0 < 256 ^ k := Nat.pow_pos (by omega)
    simp only [beBytes]
    have e : a * 256 ^ (k + 1) + n = (a * 256) * 256 ^ k + n := by rw [Nat.pow_succ]; grind
    rw [e, ih (a * 256)]
    congr 1
    rw [Nat.add_comm, Nat.add_mul_div_right _ _ hp, Nat.add_comm, ofNat_add_mul]

theorem beBytes_beNat (bs : Bytes) : beBytes bs.length (beNat bs) = bs := by
  induction bs with
  | nil => rfl
  | cons b bs ih =>
    simp only [List.length_cons, beBytes]
    rw [beNat_cons]
    have hlt := beNat_lt bs
    have hp : 0 < 256 ^ bs.length := Nat.pow_pos (by omega)
    congr 1
    · have : (b.toNat * 256 ^ bs.length + beNat bs) / 256 ^ bs.length = b.toNat := by
        rw [Nat.add_comm, Nat.add_mul_div_right _ _ hp, Nat.div_eq_of_lt hlt]; omega
      rw [this]; simp
    · rw [beBytes_add_mul, ih]

theorem beNat_beBytes_lt (k n : Nat) (h : n < 256 ^ k) : beNat (beBytes k n) = n := by
  rw [beNat_beBytes, Nat.mod_eq_of_lt h]

theorem toI64_ofI64 (x : Int) (h : -9223372036854775808 ≤ x ∧ x ≤ 9223372036854775807) :
    toI64 (ofI64 x) = x := by
  unfold toI64 ofI64
  split <;> omega

theorem ofI64_lt (x : Int) : ofI64 x < 256 ^ 8 := by
  unfold ofI64; omega

theorem bit_flags6 (a b c d e : Bool) :
    let n := (b2n a + 2 * b2n b + 4 * b2n c + 32 * b2n d + 64 * b2n e) % 256
    bit n 0 = a ∧ bit n 1 = b ∧ bit n 2 = c ∧ bit n 5 = d ∧ bit n 6 = e := by
  cases a <;> cases b <;> cases c <;> cases d <;> cases e <;> decide

theorem bit_flags7 (a b c d e f g : Bool) :
    let n := (b2n a + 2 * b2n b + 4 * b2n c + 8 * b2n d + 16 * b2n e + 32 * b2n f + 64 * b2n g) % 256
    bit n 0 = a ∧ bit n 1 = b ∧ bit n 2 = c ∧ bit n 3 = d ∧ bit n 4 = e ∧ bit n 5 = f ∧ bit n 6 = g := by
  cases a <;> cases b <;> cases c <;> cases d <;> cases e <;> cases f <;> cases g <;> decide

theorem be8 (x : Nat) : beNat [UInt8.ofNat (x / 256 ^ 7), UInt8.ofNat (x / 256 ^ 6), UInt8.ofNat (x / 256 ^ 5),
    UInt8.ofNat (x / 256 ^ 4), UInt8.ofNat (x / 256 ^ 3), UInt8.ofNat (x / 256 ^ 2), UInt8.ofNat (x / 256 ^ 1),
    UInt8.ofNat (x / 256 ^ 0)] = x % 256 ^ 8 := beNat_beBytes 8 x
theorem be6 (x : Nat) : beNat [UInt8.ofNat (x / 256 ^ 5),
    UInt8.ofNat (x / 256 ^ 4), UInt8.ofNat (x / 256 ^ 3), UInt8.ofNat (x / 256 ^ 2), UInt8.ofNat (x / 256 ^ 1),
    UInt8.ofNat (x / 256 ^ 0)] = x % 256 ^ 6 := beNat_beBytes 6 x
theorem be4 (x : Nat) : beNat [UInt8.ofNat (x / 256 ^ 3), UInt8.ofNat (x / 256 ^ 2), UInt8.ofNat (x / 256 ^ 1),
    UInt8.ofNat (x / 256 ^ 0)] = x % 256 ^ 4 := beNat_beBytes 4 x
theorem be2 (x : Nat) : beNat [UInt8.ofNat (x / 256 ^ 1), UInt8.ofNat (x / 256 ^ 0)] = x % 256 ^ 2 :=
  beNat_beBytes 2 x

theorem Header.deser_ser (h : Header) (ty n : Nat) (rest : Bytes) (hw : h.WF) (hty : validType ty = true)
    (hn : n + 34 < 2 ^ 16) :
    ∃ hb, h.serialize ty n = .ok hb ∧ hb.length = 34 ∧
      Header.deserialize (hb ++ rest) = .ok ⟨h, ty, n + 34⟩ := by
  obtain ⟨h1, h2, h3, h4, h5, ⟨h6, h7⟩, h8, h9⟩ := hw
  have hty16 : ty < 16 := by
    simp [validType] at hty; omega
  refine ⟨_, by simp only [Header.serialize]; rw [if_neg (by omega)], ?_, ?_⟩
  · simp [beBytes_length, PortIdentity.bytes]
  · simp only [beBytes, PortIdentity.bytes, List.cons_append, List.nil_append,
      Header.deserialize]
    have hv : validType ((UInt8.ofNat (h.sdoId / 256 % 16 * 16 + ty % 16)).toNat % 16) = true := by
      rw [toNat_ofNat]
      have : (h.sdoId / 256 % 16 * 16 + ty % 16) % 256 % 16 = ty := by omega
      rw [this]; exact hty
    rw [if_pos hv]
    simp only [be8, be2, toNat_ofNat]
    have f6 := bit_flags6 h.alternateMaster h.twoStep h.unicast h.profile1 h.profile2
    have f7 := bit_flags7 h.leap61 h.leap59 h.utcOffsetValid h.ptpTimescale h.timeTraceable h.freqTraceable h.syncUncertain
    simp only [] at f6 f7
    obtain ⟨a1, a2, a3, a4, a5⟩ := f6
    obtain ⟨c1, c2, c3, c4, c5, c6, c7⟩ := f7
    simp only [Header.flags6, Header.flags7, a1, a2, a3, a4, a5, c1, c2, c3, c4, c5, c6, c7]
    have e1 : (h.sdoId / 256 % 16 * 16 + ty % 16) % 256 / 16 * 256 + h.sdoId % 256 % 256 = h.sdoId := by omega
    have e2 : (h.minor % 16 * 16 + h.major % 16) % 256 % 16 = h.major := by omega
    have e3 : (h.minor % 16 * 16 + h.major % 16) % 256 / 16 = h.minor := by omega
    have e4 : (h.sdoId / 256 % 16 * 16 + ty % 16) % 256 % 16 = ty := by omega
    have e5 : toI64 (ofI64 h.correction % 256 ^ 8) = h.correction := by
      rw [Nat.mod_eq_of_lt (ofI64_lt _)]; exact toI64_ofI64 _ h5
    have e6 : h.source.clock % 256 ^ 8 = h.source.clock := Nat.mod_eq_of_lt (by omega)
    have e7 : h.source.port % 256 ^ 2 = h.source.port := Nat.mod_eq_of_lt (by omega)
    have e8 : h.seqId % 256 ^ 2 = h.seqId := Nat.mod_eq_of_lt (by omega)
    have e9 : (n + 34) % 256 ^ 2 = n + 34 := Nat.mod_eq_of_lt (by omega)
    have e10 : h.domain % 256 = h.domain := Nat.mod_eq_of_lt h4
    have e11 : h.logInterval % 256 = h.logInterval := Nat.mod_eq_of_lt h9
    rw [e1, e2, e3, e4, e5, e6, e7, e8, e9, e10, e11]

theorem Timestamp.deser_bytes (t : Timestamp) (rest : Bytes) (hw : t.WF) :
    Timestamp.deserialize (t.bytes ++ rest) = .ok t := by
  obtain ⟨h1, h2⟩ := hw
  simp only [Timestamp.bytes, beBytes, List.cons_append, List.nil_append, Timestamp.deserialize, be4, be6]
  rw [Nat.mod_eq_of_lt (show t.nanos < 256 ^ 4 by omega), Nat.mod_eq_of_lt (show t.seconds < 256 ^ 6 by omega)]
  rw [if_neg (by omega)]

theorem Timestamp.bytes_length (t : Timestamp) : t.bytes.length = 10 := by
  simp [Timestamp.bytes, beBytes_length]

theorem PortIdentity.deser_bytes (p : PortIdentity) (rest : Bytes) (hw : p.WF) :
    PortIdentity.deserialize (p.bytes ++ rest) = .ok p := by
  obtain ⟨h1, h2⟩ := hw
  simp only [PortIdentity.bytes, beBytes, List.cons_append, List.nil_append, PortIdentity.deserialize, be8, be2]
  rw [Nat.mod_eq_of_lt (show p.clock < 256 ^ 8 by omega), Nat.mod_eq_of_lt (show p.port < 256 ^ 2 by omega)]

theorem PortIdentity.bytes_length (p : PortIdentity) : p.bytes.length = 10 := by
  simp [PortIdentity.bytes, beBytes_length]

/-- wire bytes of one TLV -/
def Tlv.enc (t : Tlv) : Bytes := beBytes 2 t.type ++ beBytes 2 t.value.length ++ t.value
/-- wire bytes of a TLV list -/
def encTlvs : List Tlv → Bytes
  | [] => []
  | t :: ts => t.enc ++ encTlvs ts

def Tlv.WF (t : Tlv) : Prop := t.type < 2 ^ 16 ∧ t.value.length < 2 ^ 16

theorem Tlv.enc_cons (t : Tlv) (rest : Bytes) :
    t.enc ++ rest = UInt8.ofNat (t.type / 256 ^ 1) :: UInt8.ofNat (t.type / 256 ^ 0) ::
      UInt8.ofNat (t.value.length / 256 ^ 1) :: UInt8.ofNat (t.value.length / 256 ^ 0) :: (t.value ++ rest) := by
  simp [Tlv.enc, beBytes]

theorem tlvLoop_enc (ts : List Tlv) (fuel : Nat) (hw : ∀ t ∈ ts, t.value.length % 2 = 0 ∧ t.value.length < 2 ^ 16)
    (hf : ts.length < fuel) : tlvLoop fuel (encTlvs ts) = .ok () := by
  induction ts generalizing fuel with
  | nil =>
    cases fuel with
    | zero => omega
    | succ f => simp [encTlvs, tlvLoop]
  | cons t ts ih =>
    cases fuel with
    | zero => omega
    | succ f =>
      obtain ⟨he, hl⟩ := hw t (by simp)
      simp only [encTlvs, Tlv.enc_cons, tlvLoop, be2]
      rw [Nat.mod_eq_of_lt (show t.value.length < 256 ^ 2 by omega)]
      rw [if_neg (by omega), if_neg (by simp)]
      rw [List.drop_left]
      exact ih f (fun t' ht' => hw t' (by simp [ht'])) (by simp at hf; omega)

theorem Tlv.deser_enc (t : Tlv) (rest : Bytes) (hw : t.WF) : Tlv.deserialize (t.enc ++ rest) = .ok t := by
  obtain ⟨h1, h2⟩ := hw
  simp only [Tlv.enc_cons, Tlv.deserialize, be2]
  rw [Nat.mod_eq_of_lt (show t.value.length < 256 ^ 2 by omega), Nat.mod_eq_of_lt (show t.type < 256 ^ 2 by omega)]
  rw [if_neg (by simp), List.take_left]

theorem iterLoop_enc (ts : List Tlv) (fuel : Nat) (hw : ∀ t ∈ ts, t.WF)
    (hf : ts.length < fuel) : iterLoop fuel (encTlvs ts) = .ok ts := by
  induction ts generalizing fuel with
  | nil =>
    cases fuel with
    | zero => omega
    | succ f => simp [encTlvs, iterLoop]
  | cons t ts ih =>
    cases fuel with
    | zero => omega
    | succ f =>
      have hd := Tlv.deser_enc t (encTlvs ts) (hw t (by simp))
      have hdrop : (t.enc ++ encTlvs ts).drop t.wireSize = encTlvs ts := by
        have : t.enc.length = t.wireSize := by simp [Tlv.enc, beBytes_length, Tlv.wireSize]; omega
        rw [← this, List.drop_left]
      have hi := ih f (fun t' ht' => hw t' (by simp [ht'])) (by simp at hf; omega)
      rw [encTlvs]
      generalize hb : t.enc ++ encTlvs ts = b at hd hdrop
      rw [Tlv.enc_cons] at hb
      subst hb
      simp only [iterLoop]
      rw [hd]; simp only; rw [hdrop, hi]

/-- bodies made only of timestamps and port identities (everything but Announce and Management) -/
def Body.plain : Body → Bool
  | .announce _ => false | .management _ => false | _ => true

theorem tsPort_bytes (t : Timestamp) (p : PortIdentity) (rest : Bytes) (ht : t.WF) (hp : p.WF) :
    tsPort (t.bytes ++ (p.bytes ++ rest)) = .ok (t, p) := by
  have hl : ¬ (t.bytes ++ (p.bytes ++ rest)).length < 20 := by
    simp [Timestamp.bytes_length, PortIdentity.bytes_length]; omega
  have hd : (t.bytes ++ (p.bytes ++ rest)).drop 10 = p.bytes ++ rest := by
    rw [← Timestamp.bytes_length t, List.drop_left]
  unfold tsPort
  rw [if_neg hl, Timestamp.deser_bytes _ _ ht]
  simp only [bind, Except.bind]
  rw [hd, PortIdentity.deser_bytes _ _ hp]; rfl

theorem Body.deser_ser_plain (b : Body) (old rest bb : Bytes) (hw : b.WF) (hp : b.plain = true)
    (h : b.serialize old = .ok bb) :
    bb.length = b.wireSize ∧ Body.deserialize b.type (bb ++ rest) = .ok b := by
  cases b with
  | announce a => simp [Body.plain] at hp
  | management m => simp [Body.plain] at hp
  | sync t =>
    simp only [Body.serialize, Except.ok.injEq] at h; subst h
    simp [Body.deserialize, Body.type, Body.wireSize, Timestamp.bytes_length, Timestamp.deser_bytes _ _ hw, bind, Except.bind, pure, Except.pure]
  | delayReq t =>
    simp only [Body.serialize, Except.ok.injEq] at h; subst h
    simp [Body.deserialize, Body.type, Body.wireSize, Timestamp.bytes_length, Timestamp.deser_bytes _ _ hw, bind, Except.bind, pure, Except.pure]
  | followUp t =>
    simp only [Body.serialize, Except.ok.injEq] at h; subst h
    simp [Body.deserialize, Body.type, Body.wireSize, Timestamp.bytes_length, Timestamp.deser_bytes _ _ hw, bind, Except.bind, pure, Except.pure]
  | pDelayReq t =>
    simp only [Body.serialize, Except.ok.injEq] at h; subst h
    simp [Body.deserialize, Body.type, Body.wireSize, Timestamp.bytes_length, Timestamp.deser_bytes _ _ hw, bind, Except.bind, pure, Except.pure]
    omega
  | signaling p =>
    simp only [Body.serialize, Except.ok.injEq] at h; subst h
    simp [Body.deserialize, Body.type, Body.wireSize, PortIdentity.bytes_length, PortIdentity.deser_bytes _ _ hw, bind, Except.bind, pure, Except.pure]
  | pDelayResp t p =>
    simp only [Body.serialize, Except.ok.injEq] at h; subst h
    simp [Body.deserialize, Body.type, Body.wireSize, Timestamp.bytes_length, PortIdentity.bytes_length, tsPort_bytes _ _ _ hw.1 hw.2, bind, Except.bind, pure, Except.pure]
  | delayResp t p =>
    simp only [Body.serialize, Except.ok.injEq] at h; subst h
    simp [Body.deserialize, Body.type, Body.wireSize, Timestamp.bytes_length, PortIdentity.bytes_length, tsPort_bytes _ _ _ hw.1 hw.2, bind, Except.bind, pure, Except.pure]
  | pDelayRespFollowUp t p =>
    simp only [Body.serialize, Except.ok.injEq] at h; subst h
    simp [Body.deserialize, Body.type, Body.wireSize, Timestamp.bytes_length, PortIdentity.bytes_length, tsPort_bytes _ _ _ hw.1 hw.2, bind, Except.bind, pure, Except.pure]

theorem Body.type_valid (b : Body) : validType b.type = true := by
  cases b <;> simp [Body.type, validType]

theorem Header.deser_ser' (h : Header) (ty n : Nat) (hb : Bytes) (hw : h.WF) (hty : validType ty = true)
    (hs : h.serialize ty n = .ok hb) :
    n + 34 < 2 ^ 16 ∧ hb.length = 34 ∧ ∀ rest, Header.deserialize (hb ++ rest) = .ok ⟨h, ty, n + 34⟩ := by
  by_cases hn : n + 34 < 2 ^ 16
  · refine ⟨hn, ?_, ?_⟩
    · obtain ⟨hb', h1, h2, _⟩ := Header.deser_ser h ty n [] hw hty hn
      rw [hs] at h1; cases h1; exact h2
    · intro rest
      obtain ⟨hb', h1, _, h3⟩ := Header.deser_ser h ty n rest hw hty hn
      rw [hs] at h1; cases h1; exact h3
  · unfold Header.serialize at hs
    rw [if_pos (by omega)] at hs; cases hs

theorem Message.deser_ser (m : Message) (buf out extra : Bytes) (hw : m.WF) (hp : m.body.plain = true)
    (hs : TlvSet.deserialize m.suffix = .ok m.suffix) (h : m.serialize buf = .ok out) :
    Message.deserialize (out ++ extra) = .ok m := by
  obtain ⟨hwh, hwb⟩ := hw
  unfold Message.serialize at h
  split at h; · cases h
  split at h; · cases h
  unfold TlvSet.wireSize at h
  split at h; · cases h
  simp only [bind, Except.bind] at h
  cases hhs : m.header.serialize m.body.type (m.body.wireSize + m.suffix.length) with
  | error e => rw [hhs] at h; cases h
  | ok hb =>
    rw [hhs] at h
    obtain ⟨hn, hlen, hdes⟩ := Header.deser_ser' _ _ _ _ hwh (Body.type_valid _) hhs
    simp only at h
    cases hbs : m.body.serialize ((buf.drop 34).take m.body.wireSize) with
    | error e => rw [hbs] at h; cases h
    | ok bb =>
      rw [hbs] at h
      simp only at h
      split at h; · cases h
      simp only [pure, Except.pure, Except.ok.injEq] at h
      subst h
      obtain ⟨hbl, hbd⟩ := Body.deser_ser_plain m.body _ (m.suffix) bb hwb hp hbs
      unfold Message.deserialize
      have e1 : hb ++ bb ++ m.suffix ++ extra = hb ++ (bb ++ m.suffix ++ extra) := by simp
      rw [e1, hdes]
      simp only [bind, Except.bind]
      rw [if_neg (by omega)]
      have hl : (hb ++ (bb ++ m.suffix ++ extra)).length = m.body.wireSize + m.suffix.length + 34 + extra.length := by
        simp [hlen, hbl]; omega
      rw [if_neg (by rw [hl]; omega)]
      have hc : ((hb ++ (bb ++ m.suffix ++ extra)).take (m.body.wireSize + m.suffix.length + 34)).drop 34
          = bb ++ m.suffix := by
        have : hb ++ (bb ++ m.suffix ++ extra) = (hb ++ bb ++ m.suffix) ++ extra := by simp
        rw [this]
        have hl2 : (hb ++ bb ++ m.suffix).length = m.body.wireSize + m.suffix.length + 34 := by
          simp [hlen, hbl]; omega
        rw [← hl2, List.take_left]
        rw [List.append_assoc, ← hlen, List.drop_left]
      simp only [hc, hbd]
      rw [if_neg (by simp [hbl])]
      rw [← hbl, List.drop_left, hs]
      rfl

theorem toI64_range (n : Nat) (h : n < 256 ^ 8) :
    -9223372036854775808 ≤ toI64 n ∧ toI64 n ≤ 9223372036854775807 := by
  unfold toI64; split <;> omega

theorem Header.deserialize_WF (b : Bytes) (dh : DeserializedHeader) (h : Header.deserialize b = .ok dh) :
    dh.header.WF ∧ validType dh.messageType = true := by
  unfold Header.deserialize at h
  split at h
  · rename_i b0 b1 _ _ _ b5 _ _ _ _ _ _ _ _ _ _ _ _ _ _ _ _ _ _ _ _ _ _ _ _ _ _ _ _ _
    simp only [] at h
    split at h
    · rename_i hv
      cases h
      have := b0.toNat_lt; have := b5.toNat_lt; have := b1.toNat_lt
      refine ⟨⟨?_, ?_, ?_, ?_, ?_, ⟨?_, ?_⟩, ?_, ?_⟩, hv⟩ <;> simp only []
      · omega
      · omega
      · omega
      · exact UInt8.toNat_lt _
      · exact toI64_range _ (beNat_lt _)
      · exact Nat.lt_of_lt_of_le (beNat_lt _) (by simp)
      · exact Nat.lt_of_lt_of_le (beNat_lt _) (by simp)
      · exact Nat.lt_of_lt_of_le (beNat_lt _) (by simp)
      · exact UInt8.toNat_lt _
    · cases h
  · cases h

/-! ### parse totality (no panic) -/

theorem Timestamp.deserialize_ne_panic (b : Bytes) : Timestamp.deserialize b ≠ .error .panic := by
  unfold Timestamp.deserialize
  split
  · simp only []; split <;> simp
  · simp
theorem PortIdentity.deserialize_ne_panic (b : Bytes) : PortIdentity.deserialize b ≠ .error .panic := by
  unfold PortIdentity.deserialize
  split <;> simp

theorem ClockQuality.deserialize_ne_panic (b : Bytes) : ClockQuality.deserialize b ≠ .error .panic := by
  unfold ClockQuality.deserialize
  split <;> simp

/-- a bind whose parts do not panic does not panic -/
theorem bind_ne_panic {α β : Type} (x : Except Fail α) (f : α → Except Fail β)
    (hx : x ≠ .error .panic) (hf : ∀ a, f a ≠ .error .panic) : (x >>= f) ≠ .error .panic := by
  cases x with
  | error e => simp only [bind, Except.bind]; intro h; cases h; exact hx rfl
  | ok a => simpa [bind, Except.bind] using hf a

theorem len_ge_succ {b : Bytes} {n : Nat} (h : n + 1 ≤ b.length) : ∃ x tl, b = x :: tl ∧ n ≤ tl.length := by
  cases b with
  | nil => simp at h
  | cons x tl => exact ⟨x, tl, rfl, by simpa using h⟩

theorem Announce.deserialize_ne_panic (b : Bytes) : Announce.deserialize b ≠ .error .panic := by
  unfold Announce.deserialize
  split
  · simp
  · rename_i hl
    apply bind_ne_panic _ _ (Timestamp.deserialize_ne_panic b)
    intro origin
    have hl : 30 ≤ b.length := by omega
    obtain ⟨_, b0, rfl, h0⟩ := len_ge_succ hl
    obtain ⟨_, b1, rfl, h1⟩ := len_ge_succ h0
    obtain ⟨_, b2, rfl, h2⟩ := len_ge_succ h1
    obtain ⟨_, b3, rfl, h3⟩ := len_ge_succ h2
    obtain ⟨_, b4, rfl, h4⟩ := len_ge_succ h3
    obtain ⟨_, b5, rfl, h5⟩ := len_ge_succ h4
    obtain ⟨_, b6, rfl, h6⟩ := len_ge_succ h5
    obtain ⟨_, b7, rfl, h7⟩ := len_ge_succ h6
    obtain ⟨_, b8, rfl, h8⟩ := len_ge_succ h7
    obtain ⟨_, b9, rfl, h9⟩ := len_ge_succ h8
    obtain ⟨_, b10, rfl, h10⟩ := len_ge_succ h9
    obtain ⟨_, b11, rfl, h11⟩ := len_ge_succ h10
    obtain ⟨_, b12, rfl, h12⟩ := len_ge_succ h11
    obtain ⟨_, b13, rfl, h13⟩ := len_ge_succ h12
    obtain ⟨_, b14, rfl, h14⟩ := len_ge_succ h13
    obtain ⟨_, b15, rfl, h15⟩ := len_ge_succ h14
    obtain ⟨_, b16, rfl, h16⟩ := len_ge_succ h15
    obtain ⟨_, b17, rfl, h17⟩ := len_ge_succ h16
    obtain ⟨_, b18, rfl, h18⟩ := len_ge_succ h17
    obtain ⟨_, b19, rfl, h19⟩ := len_ge_succ h18
    obtain ⟨_, b20, rfl, h20⟩ := len_ge_succ h19
    obtain ⟨_, b21, rfl, h21⟩ := len_ge_succ h20
    obtain ⟨_, b22, rfl, h22⟩ := len_ge_succ h21
    obtain ⟨_, b23, rfl, h23⟩ := len_ge_succ h22
    obtain ⟨_, b24, rfl, h24⟩ := len_ge_succ h23
    obtain ⟨_, b25, rfl, h25⟩ := len_ge_succ h24
    obtain ⟨_, b26, rfl, h26⟩ := len_ge_succ h25
    obtain ⟨_, b27, rfl, h27⟩ := len_ge_succ h26
    obtain ⟨_, b28, rfl, h28⟩ := len_ge_succ h27
    obtain ⟨_, b29, rfl, h29⟩ := len_ge_succ h28
    simp [ClockQuality.deserialize, bind, Except.bind, pure, Except.pure]

theorem Management.deserialize_ne_panic (b : Bytes) : Management.deserialize b ≠ .error .panic := by
  unfold Management.deserialize
  split
  · simp
  · rename_i hl
    apply bind_ne_panic _ _ (PortIdentity.deserialize_ne_panic b)
    intro origin
    have hl : 14 ≤ b.length := by omega
    obtain ⟨_, b0, rfl, h0⟩ := len_ge_succ hl
    obtain ⟨_, b1, rfl, h1⟩ := len_ge_succ h0
    obtain ⟨_, b2, rfl, h2⟩ := len_ge_succ h1
    obtain ⟨_, b3, rfl, h3⟩ := len_ge_succ h2
    obtain ⟨_, b4, rfl, h4⟩ := len_ge_succ h3
    obtain ⟨_, b5, rfl, h5⟩ := len_ge_succ h4
    obtain ⟨_, b6, rfl, h6⟩ := len_ge_succ h5
    obtain ⟨_, b7, rfl, h7⟩ := len_ge_succ h6
    obtain ⟨_, b8, rfl, h8⟩ := len_ge_succ h7
    obtain ⟨_, b9, rfl, h9⟩ := len_ge_succ h8
    obtain ⟨_, b10, rfl, h10⟩ := len_ge_succ h9
    obtain ⟨_, b11, rfl, h11⟩ := len_ge_succ h10
    obtain ⟨_, b12, rfl, h12⟩ := len_ge_succ h11
    obtain ⟨_, b13, rfl, h13⟩ := len_ge_succ h12
    simp [pure, Except.pure]

theorem tsPort_ne_panic (b : Bytes) : tsPort b ≠ .error .panic := by
  unfold tsPort
  split
  · simp
  · apply bind_ne_panic _ _ (Timestamp.deserialize_ne_panic b)
    intro t
    apply bind_ne_panic _ _ (PortIdentity.deserialize_ne_panic _)
    intro p; simp [pure, Except.pure]

theorem Body.deserialize_ne_panic (ty : Nat) (b : Bytes) (hv : validType ty = true) :
    Body.deserialize ty b ≠ .error .panic := by
  unfold Body.deserialize
  have hts := Timestamp.deserialize_ne_panic b
  have htp := tsPort_ne_panic b
  repeat' split
  all_goals first
    | (apply bind_ne_panic _ _ hts; intro t; simp [pure, Except.pure])
    | (apply bind_ne_panic _ _ htp; intro t; simp [pure, Except.pure])
    | (apply bind_ne_panic _ _ (Announce.deserialize_ne_panic b); intro t; simp [pure, Except.pure])
    | (apply bind_ne_panic _ _ (Management.deserialize_ne_panic b); intro t; simp [pure, Except.pure])
    | (apply bind_ne_panic _ _ (PortIdentity.deserialize_ne_panic b); intro t; simp [pure, Except.pure])
    | (exfalso; simp [validType] at hv; omega)
    | simp

theorem tlvLoop_ne_panic (fuel : Nat) (b : Bytes) (h : b.length < fuel) : tlvLoop fuel b ≠ .error .panic := by
  induction fuel generalizing b with
  | zero => omega
  | succ f ih =>
    match b, h with
    | [], _ => simp [tlvLoop]
    | [_], _ => simp [tlvLoop]
    | [_, _], _ => simp [tlvLoop]
    | [_, _, _], _ => simp [tlvLoop]
    | t0 :: t1 :: l0 :: l1 :: rest, h =>
      simp only [tlvLoop]
      split
      · simp
      · split
        · simp
        · apply ih
          simp at h ⊢; omega

theorem TlvSet.deserialize_ne_panic (b : Bytes) : TlvSet.deserialize b ≠ .error .panic := by
  unfold TlvSet.deserialize
  have := tlvLoop_ne_panic (b.length + 1) b (by omega)
  split
  · simp
  · rename_i e he; intro h; cases h; exact this he

theorem Header.deserialize_ne_panic (b : Bytes) : Header.deserialize b ≠ .error .panic := by
  unfold Header.deserialize
  split
  · simp only []; split <;> simp
  · simp

/-- parse totality: `Message::deserialize` never panics -/
theorem Message.deserialize_ne_panic (b : Bytes) : Message.deserialize b ≠ .error .panic := by
  unfold Message.deserialize
  cases hh : Header.deserialize b with
  | error e => simp only [bind, Except.bind]; intro h; cases h; exact Header.deserialize_ne_panic b hh
  | ok dh =>
    simp only [bind, Except.bind]
    obtain ⟨_, hv⟩ := Header.deserialize_WF b dh hh
    split
    · simp
    · split
      · simp
      · cases hb : Body.deserialize dh.messageType ((b.take dh.messageLength).drop 34) with
        | error e => simp only []; intro h; cases h; exact Body.deserialize_ne_panic _ _ hv hb
        | ok body =>
          simp only []
          split
          · simp
          · cases hs : TlvSet.deserialize (((b.take dh.messageLength).drop 34).drop body.wireSize) with
            | error e => simp only []; intro h; cases h; exact TlvSet.deserialize_ne_panic _ hs
            | ok sfx => simp [pure, Except.pure]

theorem Timestamp.deserialize_WF (b : Bytes) (t : Timestamp) (h : Timestamp.deserialize b = .ok t) : t.WF := by
  unfold Timestamp.deserialize at h
  split at h
  · simp only [] at h
    split at h
    · cases h
    · cases h
      refine ⟨?_, by simp only []; omega⟩
      exact Nat.lt_of_lt_of_le (beNat_lt _) (by simp)
  · cases h


/-- a validated TLV set iterates without panic (the iterator's `unwrap` and `debug_assert`) -/
theorem iterLoop_of_tlvLoop (fuel fuel' : Nat) (b : Bytes) (h : tlvLoop fuel b = .ok ()) (hf : b.length < fuel') :
    ∃ ts, iterLoop fuel' b = .ok ts := by
  induction fuel generalizing b fuel' with
  | zero => simp [tlvLoop] at h
  | succ f ih =>
    cases fuel' with
    | zero => omega
    | succ f' =>
    match b, h, hf with
    | [], _, _ => exact ⟨[], by simp [iterLoop]⟩
    | [_], h, _ => simp [tlvLoop] at h
    | [_, _], h, _ => simp [tlvLoop] at h
    | [_, _, _], h, _ => simp [tlvLoop] at h
    | t0 :: t1 :: l0 :: l1 :: rest, h, hf =>
      simp only [tlvLoop] at h
      split at h
      · cases h
      · split at h
        · cases h
        · rename_i h1 h2
          obtain ⟨ts, hts⟩ := ih f' _ h (by simp at hf ⊢; omega)
          refine ⟨⟨beNat [t0, t1], rest.take (beNat [l0, l1])⟩ :: ts, ?_⟩
          simp only [iterLoop, Tlv.deserialize]
          rw [if_neg h2]
          simp only [Tlv.wireSize]
          have : (rest.take (beNat [l0, l1])).length = beNat [l0, l1] := by
            rw [List.length_take]; omega
          have hd : List.drop (4 + (rest.take (beNat [l0, l1])).length) (t0 :: t1 :: l0 :: l1 :: rest)
              = rest.drop (beNat [l0, l1]) := by
            rw [this, Nat.add_comm]; simp
          rw [hd, hts]

theorem TlvSet.iter_of_deserialize (b s : Bytes) (h : TlvSet.deserialize b = .ok s) :
    ∃ ts, TlvSet.iter s = .ok ts := by
  unfold TlvSet.deserialize at h
  split at h
  · rename_i hl
    cases h
    exact iterLoop_of_tlvLoop _ _ _ hl (by omega)
  · cases h

theorem TlvSet.deserialize_eq (c s : Bytes) (h : TlvSet.deserialize c = .ok s) : s = c := by
  unfold TlvSet.deserialize at h
  split at h
  · cases h; rfl
  · cases h

/-- inversion of a successful `Message::deserialize` -/
theorem Message.deserialize_inv (b : Bytes) (m : Message) (h : Message.deserialize b = .ok m) :
    ∃ dh, Header.deserialize b = .ok dh ∧ 34 ≤ dh.messageLength ∧ dh.messageLength ≤ b.length ∧
      m.header = dh.header ∧
      Body.deserialize dh.messageType ((b.take dh.messageLength).drop 34) = .ok m.body ∧
      m.body.wireSize ≤ ((b.take dh.messageLength).drop 34).length ∧
      TlvSet.deserialize (((b.take dh.messageLength).drop 34).drop m.body.wireSize) = .ok m.suffix := by
  unfold Message.deserialize at h
  cases hh : Header.deserialize b with
  | error e => rw [hh] at h; cases h
  | ok dh =>
    rw [hh] at h
    simp only [bind, Except.bind] at h
    split at h
    · cases h
    · split at h
      · cases h
      · cases hb : Body.deserialize dh.messageType ((b.take dh.messageLength).drop 34) with
        | error e => rw [hb] at h; cases h
        | ok body =>
          rw [hb] at h
          simp only [] at h
          split at h
          · cases h
          · cases hs : TlvSet.deserialize (((b.take dh.messageLength).drop 34).drop body.wireSize) with
            | error e => rw [hs] at h; cases h
            | ok sfx =>
              rw [hs] at h
              simp only [pure, Except.pure, Except.ok.injEq] at h
              subst h
              exact ⟨dh, rfl, by omega, by omega, rfl, hb, by simp only []; omega, hs⟩

theorem Message.deserialize_suffix (b : Bytes) (m : Message) (h : Message.deserialize b = .ok m) :
    TlvSet.deserialize m.suffix = .ok m.suffix := by
  obtain ⟨dh, _, _, _, _, _, _, hs⟩ := Message.deserialize_inv b m h
  have := TlvSet.deserialize_eq _ _ hs
  rw [← this] at hs; exact hs

/-! ### Announce / Management round trip, all bodies -/

theorem ClockAccuracy.round (a : ClockAccuracy) (p : Nat) (hw : a.WF) (h : a.toPrimitive = .ok p) :
    p < 256 ∧ ClockAccuracy.fromPrimitive p = a := by
  cases a with
  | reserved => cases h; simp [ClockAccuracy.fromPrimitive]
  | unknown => cases h; simp [ClockAccuracy.fromPrimitive]
  | named c =>
    cases h
    simp only [ClockAccuracy.WF] at hw
    refine ⟨by omega, ?_⟩
    simp [ClockAccuracy.fromPrimitive, hw.1, hw.2]
  | profileSpecific v =>
    simp only [ClockAccuracy.WF] at hw
    simp only [ClockAccuracy.toPrimitive] at h
    split at h
    · cases h
    · cases h
      refine ⟨by omega, ?_⟩
      unfold ClockAccuracy.fromPrimitive
      rw [if_neg (by omega), if_pos (by omega)]
      have e : 0x80 + v - 0x80 = v := Nat.add_sub_cancel_left _ _
      rw [e]

theorem TimeSource.round (t : TimeSource) (hw : t.WF) :
    t.toPrimitive < 256 ∧ TimeSource.fromPrimitive t.toPrimitive = t := by
  cases t with
  | named c =>
    simp only [TimeSource.WF] at hw
    refine ⟨?_, by simp [TimeSource.fromPrimitive, TimeSource.toPrimitive, hw]⟩
    have hc : c = 0x10 ∨ c = 0x20 ∨ c = 0x30 ∨ c = 0x39 ∨ c = 0x40 ∨ c = 0x50 ∨ c = 0x60 ∨ c = 0x90 ∨ c = 0xa0 := by
      simpa [TimeSource.isNamed] using hw
    simp only [TimeSource.toPrimitive]; omega
  | profileSpecific v =>
    simp only [TimeSource.WF] at hw
    refine ⟨by simp only [TimeSource.toPrimitive]; omega, ?_⟩
    have : TimeSource.isNamed v = false := by
      simp [TimeSource.isNamed]; omega
    simp [TimeSource.fromPrimitive, TimeSource.toPrimitive, this, hw.1, hw.2]
  | reserved v =>
    simp only [TimeSource.WF] at hw
    refine ⟨by simp only [TimeSource.toPrimitive]; omega, ?_⟩
    simp only [TimeSource.fromPrimitive, TimeSource.toPrimitive, hw.2.1]
    simp [hw.2.2]

theorem Announce.deser_ser (a : Announce) (old rest bb : Bytes) (hw : a.WF)
    (h : (Body.announce a).serialize old = .ok bb) :
    bb.length = 30 ∧ Announce.deserialize (bb ++ rest) = .ok a := by
  obtain ⟨h1, h2, h3, ⟨h4, h5, h6⟩, h7, h8, h9, h10⟩ := hw
  simp only [Body.serialize] at h
  split at h
  · rename_i stale _ _
    cases hq : a.quality.accuracy.toPrimitive with
    | error e => simp [ClockQuality.bytes, hq, bind, Except.bind] at h
    | ok p =>
      obtain ⟨hp, hfp⟩ := ClockAccuracy.round _ _ h5 hq
      obtain ⟨hts, hfts⟩ := TimeSource.round _ h10
      simp only [ClockQuality.bytes, hq, bind, Except.bind, pure, Except.pure, Except.ok.injEq] at h
      subst h
      refine ⟨by simp [Timestamp.bytes_length, beBytes_length], ?_⟩
      unfold Announce.deserialize
      rw [if_neg (by simp [Timestamp.bytes_length, beBytes_length]; omega)]
      simp only [List.append_assoc]
      rw [Timestamp.deser_bytes _ _ h1]
      simp only [bind, Except.bind]
      rw [← Timestamp.bytes_length a.origin, List.drop_left]
      simp only [beBytes, List.cons_append, List.nil_append, ClockQuality.deserialize, List.drop_succ_cons,
        List.drop_zero, be8, be2, toNat_ofNat, pure, Except.pure]
      have e1 : a.utcOffset % 256 ^ 2 = a.utcOffset := Nat.mod_eq_of_lt (by omega)
      have e2 : a.priority1 % 256 = a.priority1 := Nat.mod_eq_of_lt h3
      have e3 : a.quality.clockClass % 256 = a.quality.clockClass := Nat.mod_eq_of_lt h4
      have e4 : p % 256 = p := Nat.mod_eq_of_lt hp
      have e5 : a.quality.variance % 256 ^ 2 = a.quality.variance := Nat.mod_eq_of_lt (by omega)
      have e6 : a.priority2 % 256 = a.priority2 := Nat.mod_eq_of_lt h7
      have e7 : a.identity % 256 ^ 8 = a.identity := Nat.mod_eq_of_lt (by omega)
      have e8 : a.stepsRemoved % 256 ^ 2 = a.stepsRemoved := Nat.mod_eq_of_lt (by omega)
      have e9 : a.timeSource.toPrimitive % 256 = a.timeSource.toPrimitive := Nat.mod_eq_of_lt hts
      rw [e1, e2, e3, e4, e5, e6, e7, e8, e9, hfp, hfts]
  · cases h

theorem Management.deser_ser (m : Management) (old rest bb : Bytes) (hw : m.WF)
    (h : (Body.management m).serialize old = .ok bb) :
    bb.length = 14 ∧ Management.deserialize (bb ++ rest) = .ok m := by
  obtain ⟨h1, h2, h3, h4⟩ := hw
  simp only [Body.serialize] at h
  split at h
  · rename_i stale _ _
    simp only [Except.ok.injEq] at h
    subst h
    refine ⟨by simp [PortIdentity.bytes_length], ?_⟩
    unfold Management.deserialize
    rw [if_neg (by simp [PortIdentity.bytes_length]; omega)]
    simp only [List.append_assoc]
    rw [PortIdentity.deser_bytes _ _ h1]
    simp only [bind, Except.bind]
    rw [← PortIdentity.bytes_length m.target, List.drop_left]
    simp only [List.cons_append, List.nil_append, toNat_ofNat, pure, Except.pure]
    have e1 : m.startingHops % 256 = m.startingHops := Nat.mod_eq_of_lt h2
    have e2 : m.hops % 256 = m.hops := Nat.mod_eq_of_lt h3
    have e3 : min (m.action % 256) 5 = m.action := by omega
    rw [e1, e2, e3]
  · cases h


/-- every body: what `MessageBody::serialize` writes parses back to the same body -/
theorem Body.deser_ser (b : Body) (old rest bb : Bytes) (hw : b.WF) (h : b.serialize old = .ok bb) :
    bb.length = b.wireSize ∧ Body.deserialize b.type (bb ++ rest) = .ok b := by
  cases hb : b with
  | announce a =>
    subst hb
    obtain ⟨h1, h2⟩ := Announce.deser_ser a old rest bb hw h
    refine ⟨h1, ?_⟩
    simp [Body.deserialize, Body.type, h2, bind, Except.bind, pure, Except.pure]
  | management g =>
    subst hb
    obtain ⟨h1, h2⟩ := Management.deser_ser g old rest bb hw h
    refine ⟨h1, ?_⟩
    simp [Body.deserialize, Body.type, h2, bind, Except.bind, pure, Except.pure]
  | sync t => subst hb; exact Body.deser_ser_plain _ old rest bb hw rfl h
  | delayReq t => subst hb; exact Body.deser_ser_plain _ old rest bb hw rfl h
  | pDelayReq t => subst hb; exact Body.deser_ser_plain _ old rest bb hw rfl h
  | pDelayResp t q => subst hb; exact Body.deser_ser_plain _ old rest bb hw rfl h
  | followUp t => subst hb; exact Body.deser_ser_plain _ old rest bb hw rfl h
  | delayResp t q => subst hb; exact Body.deser_ser_plain _ old rest bb hw rfl h
  | pDelayRespFollowUp t q => subst hb; exact Body.deser_ser_plain _ old rest bb hw rfl h
  | signaling q => subst hb; exact Body.deser_ser_plain _ old rest bb hw rfl h

theorem Message.deser_ser_all (m : Message) (buf out extra : Bytes) (hw : m.WF)
    (hs : TlvSet.deserialize m.suffix = .ok m.suffix) (h : m.serialize buf = .ok out) :
    Message.deserialize (out ++ extra) = .ok m := by
  obtain ⟨hwh, hwb⟩ := hw
  unfold Message.serialize at h
  split at h; · cases h
  split at h; · cases h
  unfold TlvSet.wireSize at h
  split at h; · cases h
  simp only [bind, Except.bind] at h
  cases hhs : m.header.serialize m.body.type (m.body.wireSize + m.suffix.length) with
  | error e => rw [hhs] at h; cases h
  | ok hb =>
    rw [hhs] at h
    obtain ⟨hn, hlen, hdes⟩ := Header.deser_ser' _ _ _ _ hwh (Body.type_valid _) hhs
    simp only at h
    cases hbs : m.body.serialize ((buf.drop 34).take m.body.wireSize) with
    | error e => rw [hbs] at h; cases h
    | ok bb =>
      rw [hbs] at h
      simp only at h
      split at h; · cases h
      simp only [pure, Except.pure, Except.ok.injEq] at h
      subst h
      obtain ⟨hbl, hbd⟩ := Body.deser_ser m.body _ (m.suffix) bb hwb hbs
      unfold Message.deserialize
      have e1 : hb ++ bb ++ m.suffix ++ extra = hb ++ (bb ++ m.suffix ++ extra) := by simp
      rw [e1, hdes]
      simp only [bind, Except.bind]
      rw [if_neg (by omega)]
      have hl : (hb ++ (bb ++ m.suffix ++ extra)).length = m.body.wireSize + m.suffix.length + 34 + extra.length := by
        simp [hlen, hbl]; omega
      rw [if_neg (by rw [hl]; omega)]
      have hc : ((hb ++ (bb ++ m.suffix ++ extra)).take (m.body.wireSize + m.suffix.length + 34)).drop 34
          = bb ++ m.suffix := by
        have : hb ++ (bb ++ m.suffix ++ extra) = (hb ++ bb ++ m.suffix) ++ extra := by simp
        rw [this]
        have hl2 : (hb ++ bb ++ m.suffix).length = m.body.wireSize + m.suffix.length + 34 := by
          simp [hlen, hbl]; omega
        rw [← hl2, List.take_left]
        rw [List.append_assoc, ← hlen, List.drop_left]
      simp only [hc, hbd]
      rw [if_neg (by simp [hbl])]
      rw [← hbl, List.drop_left, hs]
      rfl


/-! ### parsed messages are well-formed -/

theorem PortIdentity.deserialize_WF (b : Bytes) (p : PortIdentity) (h : PortIdentity.deserialize b = .ok p) : p.WF := by
  unfold PortIdentity.deserialize at h
  split at h
  · cases h
    exact ⟨Nat.lt_of_lt_of_le (beNat_lt _) (by simp), Nat.lt_of_lt_of_le (beNat_lt _) (by simp)⟩
  · cases h

theorem ClockAccuracy.fromPrimitive_WF (v : Nat) (h : v < 256) : (ClockAccuracy.fromPrimitive v).WF := by
  unfold ClockAccuracy.fromPrimitive
  split
  · simp only [ClockAccuracy.WF]; omega
  · split
    · simp only [ClockAccuracy.WF]; omega
    · split <;> simp [ClockAccuracy.WF]

theorem TimeSource.fromPrimitive_WF (v : Nat) (h : v < 256) : (TimeSource.fromPrimitive v).WF := by
  unfold TimeSource.fromPrimitive
  split
  · rename_i hn; simpa [TimeSource.WF] using hn
  · rename_i hn
    split
    · rename_i hr; simpa [TimeSource.WF] using hr
    · rename_i hr
      simp only [TimeSource.WF]
      exact ⟨h, by simpa using hn, hr⟩

theorem tsPort_WF (b : Bytes) (t : Timestamp) (p : PortIdentity) (h : tsPort b = .ok (t, p)) : t.WF ∧ p.WF := by
  unfold tsPort at h
  split at h
  · cases h
  · cases ht : Timestamp.deserialize b with
    | error e => simp [ht, bind, Except.bind] at h
    | ok t' =>
      cases hp : PortIdentity.deserialize (b.drop 10) with
      | error e => simp [ht, hp, bind, Except.bind] at h
      | ok p' =>
        simp [ht, hp, bind, Except.bind, pure, Except.pure] at h
        obtain ⟨rfl, rfl⟩ := h
        exact ⟨Timestamp.deserialize_WF _ _ ht, PortIdentity.deserialize_WF _ _ hp⟩


theorem Announce.deserialize_WF (b : Bytes) (a : Announce) (h : Announce.deserialize b = .ok a) : a.WF := by
  unfold Announce.deserialize at h
  split at h
  · cases h
  · rename_i hl
    cases ht : Timestamp.deserialize b with
    | error e => simp [ht, bind, Except.bind] at h
    | ok origin =>
    have hto := Timestamp.deserialize_WF _ _ ht
    rw [ht] at h
    simp only [bind, Except.bind] at h
    have hl : 30 ≤ b.length := by omega
    obtain ⟨x0, b0, rfl, h0⟩ := len_ge_succ hl
    obtain ⟨x1, b1, rfl, h1⟩ := len_ge_succ h0
    obtain ⟨x2, b2, rfl, h2⟩ := len_ge_succ h1
    obtain ⟨x3, b3, rfl, h3⟩ := len_ge_succ h2
    obtain ⟨x4, b4, rfl, h4⟩ := len_ge_succ h3
    obtain ⟨x5, b5, rfl, h5⟩ := len_ge_succ h4
    obtain ⟨x6, b6, rfl, h6⟩ := len_ge_succ h5
    obtain ⟨x7, b7, rfl, h7⟩ := len_ge_succ h6
    obtain ⟨x8, b8, rfl, h8⟩ := len_ge_succ h7
    obtain ⟨x9, b9, rfl, h9⟩ := len_ge_succ h8
    obtain ⟨x10, b10, rfl, h10⟩ := len_ge_succ h9
    obtain ⟨x11, b11, rfl, h11⟩ := len_ge_succ h10
    obtain ⟨x12, b12, rfl, h12⟩ := len_ge_succ h11
    obtain ⟨x13, b13, rfl, h13⟩ := len_ge_succ h12
    obtain ⟨x14, b14, rfl, h14⟩ := len_ge_succ h13
    obtain ⟨x15, b15, rfl, h15⟩ := len_ge_succ h14
    obtain ⟨x16, b16, rfl, h16⟩ := len_ge_succ h15
    obtain ⟨x17, b17, rfl, h17⟩ := len_ge_succ h16
    obtain ⟨x18, b18, rfl, h18⟩ := len_ge_succ h17
    obtain ⟨x19, b19, rfl, h19⟩ := len_ge_succ h18
    obtain ⟨x20, b20, rfl, h20⟩ := len_ge_succ h19
    obtain ⟨x21, b21, rfl, h21⟩ := len_ge_succ h20
    obtain ⟨x22, b22, rfl, h22⟩ := len_ge_succ h21
    obtain ⟨x23, b23, rfl, h23⟩ := len_ge_succ h22
    obtain ⟨x24, b24, rfl, h24⟩ := len_ge_succ h23
    obtain ⟨x25, b25, rfl, h25⟩ := len_ge_succ h24
    obtain ⟨x26, b26, rfl, h26⟩ := len_ge_succ h25
    obtain ⟨x27, b27, rfl, h27⟩ := len_ge_succ h26
    obtain ⟨x28, b28, rfl, h28⟩ := len_ge_succ h27
    obtain ⟨x29, b29, rfl, h29⟩ := len_ge_succ h28
    simp only [List.drop_succ_cons, List.drop_zero, ClockQuality.deserialize, pure, Except.pure,
      Except.ok.injEq] at h
    subst h
    refine ⟨hto, ?_, UInt8.toNat_lt _, ⟨UInt8.toNat_lt _, ClockAccuracy.fromPrimitive_WF _ (UInt8.toNat_lt _), ?_⟩,
      UInt8.toNat_lt _, ?_, ?_, TimeSource.fromPrimitive_WF _ (UInt8.toNat_lt _)⟩
    all_goals exact Nat.lt_of_lt_of_le (beNat_lt _) (by simp)

theorem Management.deserialize_WF (b : Bytes) (g : Management) (h : Management.deserialize b = .ok g) : g.WF := by
  unfold Management.deserialize at h
  split at h
  · cases h
  · rename_i hl
    cases ht : PortIdentity.deserialize b with
    | error e => simp [ht, bind, Except.bind] at h
    | ok tp =>
    have hto := PortIdentity.deserialize_WF _ _ ht
    rw [ht] at h
    simp only [bind, Except.bind] at h
    have hl : 14 ≤ b.length := by omega
    obtain ⟨x0, b0, rfl, h0⟩ := len_ge_succ hl
    obtain ⟨x1, b1, rfl, h1⟩ := len_ge_succ h0
    obtain ⟨x2, b2, rfl, h2⟩ := len_ge_succ h1
    obtain ⟨x3, b3, rfl, h3⟩ := len_ge_succ h2
    obtain ⟨x4, b4, rfl, h4⟩ := len_ge_succ h3
    obtain ⟨x5, b5, rfl, h5⟩ := len_ge_succ h4
    obtain ⟨x6, b6, rfl, h6⟩ := len_ge_succ h5
    obtain ⟨x7, b7, rfl, h7⟩ := len_ge_succ h6
    obtain ⟨x8, b8, rfl, h8⟩ := len_ge_succ h7
    obtain ⟨x9, b9, rfl, h9⟩ := len_ge_succ h8
    obtain ⟨x10, b10, rfl, h10⟩ := len_ge_succ h9
    obtain ⟨x11, b11, rfl, h11⟩ := len_ge_succ h10
    obtain ⟨x12, b12, rfl, h12⟩ := len_ge_succ h11
    obtain ⟨x13, b13, rfl, h13⟩ := len_ge_succ h12
    simp only [List.drop_succ_cons, List.drop_zero, pure, Except.pure, Except.ok.injEq] at h
    subst h
    exact ⟨hto, UInt8.toNat_lt _, UInt8.toNat_lt _, Nat.min_le_right _ _⟩

theorem Body.deserialize_WF (ty : Nat) (b : Bytes) (body : Body) (h : Body.deserialize ty b = .ok body) :
    body.WF ∧ body.type = ty := by
  unfold Body.deserialize at h
  split at h
  · rename_i hty; subst hty
    cases ht : Timestamp.deserialize b with
    | error e => simp [ht, bind, Except.bind] at h
    | ok t =>
      simp [ht, bind, Except.bind, pure, Except.pure] at h
      subst h; exact ⟨Timestamp.deserialize_WF _ _ ht, rfl⟩
  split at h
  · rename_i hty; subst hty
    cases ht : Timestamp.deserialize b with
    | error e => simp [ht, bind, Except.bind] at h
    | ok t =>
      simp [ht, bind, Except.bind, pure, Except.pure] at h
      subst h; exact ⟨Timestamp.deserialize_WF _ _ ht, rfl⟩
  split at h
  · rename_i hty; subst hty
    split at h
    · cases h
    ·
      cases ht : Timestamp.deserialize b with
      | error e => simp [ht, bind, Except.bind] at h
      | ok t =>
        simp [ht, bind, Except.bind, pure, Except.pure] at h
        subst h; exact ⟨Timestamp.deserialize_WF _ _ ht, rfl⟩
  split at h
  · rename_i hty; subst hty
    cases ht : tsPort b with
    | error e => simp [ht, bind, Except.bind] at h
    | ok r =>
      obtain ⟨t, p⟩ := r
      simp [ht, bind, Except.bind, pure, Except.pure] at h
      subst h; exact ⟨tsPort_WF _ _ _ ht, rfl⟩
  split at h
  · rename_i hty; subst hty
    cases ht : Timestamp.deserialize b with
    | error e => simp [ht, bind, Except.bind] at h
    | ok t =>
      simp [ht, bind, Except.bind, pure, Except.pure] at h
      subst h; exact ⟨Timestamp.deserialize_WF _ _ ht, rfl⟩
  split at h
  · rename_i hty; subst hty
    cases ht : tsPort b with
    | error e => simp [ht, bind, Except.bind] at h
    | ok r =>
      obtain ⟨t, p⟩ := r
      simp [ht, bind, Except.bind, pure, Except.pure] at h
      subst h; exact ⟨tsPort_WF _ _ _ ht, rfl⟩
  split at h
  · rename_i hty; subst hty
    cases ht : tsPort b with
    | error e => simp [ht, bind, Except.bind] at h
    | ok r =>
      obtain ⟨t, p⟩ := r
      simp [ht, bind, Except.bind, pure, Except.pure] at h
      subst h; exact ⟨tsPort_WF _ _ _ ht, rfl⟩
  split at h
  · rename_i hty; subst hty
    cases ht : Announce.deserialize b with
    | error e => simp [ht, bind, Except.bind] at h
    | ok t =>
      simp [ht, bind, Except.bind, pure, Except.pure] at h
      subst h; exact ⟨Announce.deserialize_WF _ _ ht, rfl⟩
  split at h
  · rename_i hty; subst hty
    cases ht : PortIdentity.deserialize b with
    | error e => simp [ht, bind, Except.bind] at h
    | ok t =>
      simp [ht, bind, Except.bind, pure, Except.pure] at h
      subst h; exact ⟨PortIdentity.deserialize_WF _ _ ht, rfl⟩
  split at h
  · rename_i hty; subst hty
    cases ht : Management.deserialize b with
    | error e => simp [ht, bind, Except.bind] at h
    | ok t =>
      simp [ht, bind, Except.bind, pure, Except.pure] at h
      subst h; exact ⟨Management.deserialize_WF _ _ ht, rfl⟩
  · cases h


/-! ### parse, then re-serialise -/

theorem tlvLoop_even (fuel : Nat) (b : Bytes) (h : tlvLoop fuel b = .ok ()) : b.length % 2 = 0 := by
  induction fuel generalizing b with
  | zero => simp [tlvLoop] at h
  | succ f ih =>
    match b, h with
    | [], _ => rfl
    | [_], h => simp [tlvLoop] at h
    | [_, _], h => simp [tlvLoop] at h
    | [_, _, _], h => simp [tlvLoop] at h
    | t0 :: t1 :: l0 :: l1 :: rest, h =>
      simp only [tlvLoop] at h
      split at h
      · cases h
      · split at h
        · cases h
        · rename_i h1 h2
          have := ih _ h
          simp only [List.length_drop] at this
          simp only [List.length_cons]
          omega

theorem Body.serialize_ok (body : Body) (old : Bytes) (hw : body.WF) (hl : old.length = body.wireSize) :
    ∃ bb, body.serialize old = .ok bb := by
  cases body with
  | announce a =>
    simp only [Body.wireSize] at hl
    obtain ⟨_, _, _, ⟨_, ha, _⟩, _⟩ := hw
    have hq : ∃ p, a.quality.accuracy.toPrimitive = .ok p := by
      cases hacc : a.quality.accuracy with
      | profileSpecific v =>
        rw [hacc] at ha
        simp only [ClockAccuracy.WF] at ha
        exact ⟨0x80 + v, by simp only [ClockAccuracy.toPrimitive]; rw [if_neg (by omega)]⟩
      | reserved => exact ⟨_, rfl⟩
      | named c => exact ⟨_, rfl⟩
      | unknown => exact ⟨_, rfl⟩
    obtain ⟨p, hp⟩ := hq
    simp only [Body.serialize]
    cases hd : old.drop 12 with
    | nil =>
      have := congrArg List.length hd
      simp at this; omega
    | cons s tl => simp [ClockQuality.bytes, hp, bind, Except.bind, pure, Except.pure]
  | management g =>
    simp only [Body.wireSize] at hl
    simp only [Body.serialize]
    cases hd : old.drop 10 with
    | nil =>
      have := congrArg List.length hd
      simp at this; omega
    | cons s tl => exact ⟨_, rfl⟩
  | sync t => exact ⟨_, rfl⟩
  | delayReq t => exact ⟨_, rfl⟩
  | pDelayReq t => exact ⟨_, rfl⟩
  | pDelayResp t q => exact ⟨_, rfl⟩
  | followUp t => exact ⟨_, rfl⟩
  | delayResp t q => exact ⟨_, rfl⟩
  | pDelayRespFollowUp t q => exact ⟨_, rfl⟩
  | signaling q => exact ⟨_, rfl⟩

/-- parse, then re-serialise: succeeds into any buffer that holds `messageLength` bytes, produces exactly
    `messageLength` bytes ending in the input's TLV bytes verbatim, and the result is a canonical
    representative: it parses (with any trailing bytes) to the very same message. -/
theorem Message.parse_then_ser_canon (b buf : Bytes) (m : Message) (h : Message.deserialize b = .ok m) :
    ∃ dh, Header.deserialize b = .ok dh ∧ (dh.messageLength ≤ buf.length →
      ∃ out, m.serialize buf = .ok out ∧ out.length = dh.messageLength ∧
        out.drop (34 + m.body.wireSize) = (b.take dh.messageLength).drop (34 + m.body.wireSize) ∧
        ∀ extra, Message.deserialize (out ++ extra) = .ok m) := by
  obtain ⟨dh, hh, h34, hlen, hhd, hbody, hws, hsfx⟩ := Message.deserialize_inv b m h
  refine ⟨dh, hh, ?_⟩
  intro hbuf
  obtain ⟨hwh, hvt⟩ := Header.deserialize_WF b dh hh
  obtain ⟨hwb, hty⟩ := Body.deserialize_WF _ _ _ hbody
  have hseq := TlvSet.deserialize_eq _ _ hsfx
  have hml : dh.messageLength < 2 ^ 16 := by
    unfold Header.deserialize at hh
    split at hh
    · simp only [] at hh
      split at hh
      · cases hh; exact Nat.lt_of_lt_of_le (beNat_lt _) (by simp)
      · cases hh
    · cases hh
  have hclen : ((b.take dh.messageLength).drop 34).length = dh.messageLength - 34 := by
    simp [List.length_take]; omega
  have hsl : m.suffix.length = dh.messageLength - 34 - m.body.wireSize := by
    rw [hseq, List.length_drop, hclen]
  have heven : m.suffix.length % 2 = 0 := by
    have hv := Message.deserialize_suffix b m h
    unfold TlvSet.deserialize at hv
    split at hv
    · rename_i hl; exact tlvLoop_even _ _ hl
    · cases hv
  rw [hclen] at hws
  have hmwf : m.WF := ⟨by rw [hhd]; exact hwh, hwb⟩
  obtain ⟨bb, hbb⟩ := Body.serialize_ok m.body ((buf.drop 34).take m.body.wireSize) hwb
    (by simp [List.length_take]; omega)
  obtain ⟨hb, hhs, hhl, _⟩ := Header.deser_ser m.header m.body.type (m.body.wireSize + m.suffix.length) [] hmwf.1
    (Body.type_valid _) (by omega)
  have hser : m.serialize buf = .ok (hb ++ bb ++ m.suffix) := by
    unfold Message.serialize
    rw [if_neg (by omega), if_neg (by omega)]
    unfold TlvSet.wireSize
    rw [if_neg (by omega)]
    simp only [bind, Except.bind, hhs, hbb]
    rw [if_neg (by omega)]
    rfl
  have hbbl : bb.length = m.body.wireSize := (Body.deser_ser m.body _ [] bb hwb hbb).1
  refine ⟨_, hser, by simp [hhl, hbbl, hsl]; omega, ?_, ?_⟩
  · have : (hb ++ bb).length = 34 + m.body.wireSize := by simp [hhl, hbbl]
    rw [← this, List.drop_left, hseq, List.drop_drop]
    congr 1; omega
  · intro extra
    exact Message.deser_ser_all m buf _ extra hmwf (Message.deserialize_suffix b m h) hser


/-! ### parse, then re-serialise: byte level (canonical form) -/


/-- octet 6 with the reserved flag bits 3, 4, 7 cleared -/
def canon6 (b : UInt8) : UInt8 := UInt8.ofNat (b.toNat % 8 + b.toNat / 32 % 4 * 32)
/-- octet 7 with the reserved flag bit 7 cleared -/
def canon7 (b : UInt8) : UInt8 := UInt8.ofNat (b.toNat % 128)

/-- the 34 header octets with the reserved fields zeroed: flag bits 3,4,7 of octet 6, bit 7 of octet 7,
    messageTypeSpecific (16..19), controlField (32) -/
def canonHeader : Bytes → Bytes
  | b0 :: b1 :: l0 :: l1 :: b4 :: b5 :: b6 :: b7 ::
    c0 :: c1 :: c2 :: c3 :: c4 :: c5 :: c6 :: c7 ::
    _ :: _ :: _ :: _ ::
    i0 :: i1 :: i2 :: i3 :: i4 :: i5 :: i6 :: i7 :: p0 :: p1 ::
    s0 :: s1 :: _ :: li :: _ =>
    [b0, b1, l0, l1, b4, b5, canon6 b6, canon7 b7, c0, c1, c2, c3, c4, c5, c6, c7, 0, 0, 0, 0,
     i0, i1, i2, i3, i4, i5, i6, i7, p0, p1, s0, s1, 0, li]
  | _ => []

theorem b2n_mod2 (m : Nat) : b2n (decide (m % 2 = 1)) = m % 2 := by
  unfold b2n
  by_cases h : m % 2 = 1
  · simp [h]
  · have : m % 2 = 0 := by omega
    simp [this]

theorem flags6_bits (n : Nat) :
    b2n (bit n 0) + 2 * b2n (bit n 1) + 4 * b2n (bit n 2) + 32 * b2n (bit n 5) + 64 * b2n (bit n 6)
      = n % 8 + n / 32 % 4 * 32 := by
  simp only [bit, b2n_mod2]
  omega

theorem flags7_bits (n : Nat) :
    b2n (bit n 0) + 2 * b2n (bit n 1) + 4 * b2n (bit n 2) + 8 * b2n (bit n 3) + 16 * b2n (bit n 4) +
      32 * b2n (bit n 5) + 64 * b2n (bit n 6) = n % 128 := by
  simp only [bit, b2n_mod2]
  omega

theorem ofI64_toI64 (n : Nat) (h : n < 256 ^ 8) : ofI64 (toI64 n) = n := by
  unfold ofI64 toI64; split <;> omega

theorem byte0_eq (b0 b5 : UInt8) :
    UInt8.ofNat ((b0.toNat / 16 * 256 + b5.toNat) / 256 % 16 * 16 + b0.toNat % 16 % 16) = b0 := by
  apply UInt8.toNat_inj.mp
  have := b0.toNat_lt; have := b5.toNat_lt
  rw [toNat_ofNat]; omega

theorem byte1_eq (b1 : UInt8) : UInt8.ofNat (b1.toNat / 16 % 16 * 16 + b1.toNat % 16 % 16) = b1 := by
  apply UInt8.toNat_inj.mp
  have := b1.toNat_lt
  rw [toNat_ofNat]; omega

theorem byte5_eq (b0 b5 : UInt8) : UInt8.ofNat ((b0.toNat / 16 * 256 + b5.toNat) % 256) = b5 := by
  apply UInt8.toNat_inj.mp
  have := b0.toNat_lt; have := b5.toNat_lt
  rw [toNat_ofNat]; omega

/-- header: parse, then serialise with the parsed type and length = the canonical 34 octets -/
theorem Header.ser_deser (b : Bytes) (dh : DeserializedHeader) (h : Header.deserialize b = .ok dh)
    (hl : 34 ≤ dh.messageLength) :
    dh.header.serialize dh.messageType (dh.messageLength - 34) = .ok (canonHeader b) := by
  unfold Header.deserialize at h
  split at h
  · rename_i b0 b1 l0 l1 b4 b5 b6 b7 c0 c1 c2 c3 c4 c5 c6 c7 r0 r1 r2 r3 i0 i1 i2 i3 i4 i5 i6 i7 p0 p1 s0 s1 ctl li rest
    simp only [] at h
    split at h
    · cases h
      simp only [] at hl ⊢
      have hlen : beNat [l0, l1] < 256 ^ 2 := beNat_lt [l0, l1]
      unfold Header.serialize
      rw [if_neg (by omega)]
      have e0 : beNat [l0, l1] - 34 + 34 = beNat [l0, l1] := by omega
      have eL : beBytes 2 (beNat [l0, l1]) = [l0, l1] := beBytes_beNat [l0, l1]
      have eC : beBytes 8 (ofI64 (toI64 (beNat [c0, c1, c2, c3, c4, c5, c6, c7])))
          = [c0, c1, c2, c3, c4, c5, c6, c7] := by
        rw [ofI64_toI64 _ (beNat_lt [c0, c1, c2, c3, c4, c5, c6, c7])]
        exact beBytes_beNat [c0, c1, c2, c3, c4, c5, c6, c7]
      have eI : beBytes 8 (beNat [i0, i1, i2, i3, i4, i5, i6, i7]) = [i0, i1, i2, i3, i4, i5, i6, i7] :=
        beBytes_beNat [i0, i1, i2, i3, i4, i5, i6, i7]
      have eP : beBytes 2 (beNat [p0, p1]) = [p0, p1] := beBytes_beNat [p0, p1]
      have eS : beBytes 2 (beNat [s0, s1]) = [s0, s1] := beBytes_beNat [s0, s1]
      simp only [Header.flags6, Header.flags7, flags6_bits, flags7_bits,
        PortIdentity.bytes, e0, eL, eC, eI, eP, eS, byte0_eq, byte1_eq, byte5_eq, UInt8.ofNat_toNat,
        canonHeader, canon6, canon7, List.cons_append, List.nil_append]
    · cases h
  · cases h



theorem Timestamp.bytes_deser (c : Bytes) (t : Timestamp) (h : Timestamp.deserialize c = .ok t) :
    t.bytes = c.take 10 := by
  unfold Timestamp.deserialize at h
  split at h
  · rename_i s0 s1 s2 s3 s4 s5 n0 n1 n2 n3 rest
    simp only [] at h
    split at h
    · cases h
    · cases h
      have e1 : beBytes 6 (beNat [s0, s1, s2, s3, s4, s5]) = [s0, s1, s2, s3, s4, s5] :=
        beBytes_beNat [s0, s1, s2, s3, s4, s5]
      have e2 : beBytes 4 (beNat [n0, n1, n2, n3]) = [n0, n1, n2, n3] := beBytes_beNat [n0, n1, n2, n3]
      simp only [Timestamp.bytes, e1, e2]
      rfl
  · cases h

theorem PortIdentity.bytes_deser (c : Bytes) (p : PortIdentity) (h : PortIdentity.deserialize c = .ok p) :
    p.bytes = c.take 10 := by
  unfold PortIdentity.deserialize at h
  split at h
  · rename_i c0 c1 c2 c3 c4 c5 c6 c7 p0 p1 rest
    cases h
    have e1 : beBytes 8 (beNat [c0, c1, c2, c3, c4, c5, c6, c7]) = [c0, c1, c2, c3, c4, c5, c6, c7] :=
      beBytes_beNat [c0, c1, c2, c3, c4, c5, c6, c7]
    have e2 : beBytes 2 (beNat [p0, p1]) = [p0, p1] := beBytes_beNat [p0, p1]
    simp only [PortIdentity.bytes, e1, e2]
    rfl
  · cases h

theorem Timestamp.deserialize_len (c : Bytes) (t : Timestamp) (h : Timestamp.deserialize c = .ok t) :
    10 ≤ c.length := by
  unfold Timestamp.deserialize at h
  split at h
  · simp
  · cases h

theorem PortIdentity.deserialize_len (c : Bytes) (p : PortIdentity) (h : PortIdentity.deserialize c = .ok p) :
    10 ≤ c.length := by
  unfold PortIdentity.deserialize at h
  split at h
  · simp
  · cases h

theorem tsPort_bytes_deser (c : Bytes) (t : Timestamp) (p : PortIdentity) (h : tsPort c = .ok (t, p)) :
    t.bytes ++ p.bytes = c.take 20 := by
  unfold tsPort at h
  split at h
  · cases h
  · rename_i hl
    cases ht : Timestamp.deserialize c with
    | error e => simp [ht, bind, Except.bind] at h
    | ok t' =>
      cases hp : PortIdentity.deserialize (c.drop 10) with
      | error e => simp [ht, hp, bind, Except.bind] at h
      | ok p' =>
        simp [ht, hp, bind, Except.bind, pure, Except.pure] at h
        obtain ⟨rfl, rfl⟩ := h
        rw [Timestamp.bytes_deser _ _ ht, PortIdentity.bytes_deser _ _ hp]
        have : c.take 20 = c.take 10 ++ (c.drop 10).take 10 := by
          rw [← List.take_append_drop 10 (c.take 20)]
          simp [List.take_take, List.drop_take]
        rw [this]



/-- `MessageBody::wire_size` as a function of the message type -/
def bodySize (ty : Nat) : Nat :=
  if ty = 2 ∨ ty = 3 ∨ ty = 9 ∨ ty = 10 then 20 else if ty = 11 then 30 else if ty = 13 then 14 else 10

/-- clockAccuracy octet: reserved codes (0x00..0x16, 0x32..0x7f, 0xff) are written back as 0 -/
def canonAcc (a : UInt8) : UInt8 := if ClockAccuracy.fromPrimitive a.toNat = .reserved then 0 else a
/-- management actionField octet: codes above 5 are written back as 5 (`Reserved`) -/
def canonAct (a : UInt8) : UInt8 := UInt8.ofNat (min a.toNat 5)

/-- the body octets with the fields the codec does not reproduce canonicalised: the 10 reserved octets of
    Pdelay_Req, Announce octet 12 (reserved; never written by the encoder: 0 in a zeroed buffer) and the
    clockAccuracy octet, Management octet 10 (reserved; never written) and the actionField octet -/
def canonBody (ty : Nat) (w : Bytes) : Bytes :=
  if ty = 2 then w.take 10 ++ List.replicate 10 0
  else if ty = 11 then
    match w with
    | o0 :: o1 :: o2 :: o3 :: o4 :: o5 :: o6 :: o7 :: o8 :: o9 :: u0 :: u1 :: _ :: p1 :: cl :: ac :: v0 :: v1 ::
      p2 :: i0 :: i1 :: i2 :: i3 :: i4 :: i5 :: i6 :: i7 :: s0 :: s1 :: src :: _ =>
      [o0, o1, o2, o3, o4, o5, o6, o7, o8, o9, u0, u1, 0, p1, cl, canonAcc ac, v0, v1, p2,
       i0, i1, i2, i3, i4, i5, i6, i7, s0, s1, src]
    | _ => w
  else if ty = 13 then
    match w with
    | t0 :: t1 :: t2 :: t3 :: t4 :: t5 :: t6 :: t7 :: t8 :: t9 :: _ :: sh :: h :: a :: _ =>
      [t0, t1, t2, t3, t4, t5, t6, t7, t8, t9, 0, sh, h, canonAct a]
    | _ => w
  else w

theorem ClockAccuracy.toPrimitive_fromPrimitive (a : UInt8) :
    (ClockAccuracy.fromPrimitive a.toNat).toPrimitive = .ok (canonAcc a).toNat := by
  have hlt := a.toNat_lt
  unfold canonAcc ClockAccuracy.fromPrimitive
  split
  · simp [ClockAccuracy.toPrimitive]
  · split
    · rename_i h1 h2
      simp only [ClockAccuracy.toPrimitive]
      rw [if_neg (by omega)]
      simp; omega
    · split
      · rename_i h3; simp [ClockAccuracy.toPrimitive, h3]
      · simp [ClockAccuracy.toPrimitive]

theorem TimeSource.toPrimitive_fromPrimitive (v : Nat) : (TimeSource.fromPrimitive v).toPrimitive = v := by
  unfold TimeSource.fromPrimitive
  split
  · rfl
  · split <;> rfl

theorem Announce.ser_deser (c : Bytes) (a : Announce) (old tl : Bytes) (h : Announce.deserialize c = .ok a)
    (hold : old.drop 12 = 0 :: tl) :
    (Body.announce a).serialize old = .ok (canonBody 11 (c.take 30)) := by
  unfold Announce.deserialize at h
  split at h
  · cases h
  · rename_i hl
    cases ht : Timestamp.deserialize c with
    | error e => simp [ht, bind, Except.bind] at h
    | ok origin =>
    have hob := Timestamp.bytes_deser _ _ ht
    rw [ht] at h
    simp only [bind, Except.bind] at h
    have hl : 30 ≤ c.length := by omega
    obtain ⟨x0, b0, rfl, h0⟩ := len_ge_succ hl
    obtain ⟨x1, b1, rfl, h1⟩ := len_ge_succ h0
    obtain ⟨x2, b2, rfl, h2⟩ := len_ge_succ h1
    obtain ⟨x3, b3, rfl, h3⟩ := len_ge_succ h2
    obtain ⟨x4, b4, rfl, h4⟩ := len_ge_succ h3
    obtain ⟨x5, b5, rfl, h5⟩ := len_ge_succ h4
    obtain ⟨x6, b6, rfl, h6⟩ := len_ge_succ h5
    obtain ⟨x7, b7, rfl, h7⟩ := len_ge_succ h6
    obtain ⟨x8, b8, rfl, h8⟩ := len_ge_succ h7
    obtain ⟨x9, b9, rfl, h9⟩ := len_ge_succ h8
    obtain ⟨x10, b10, rfl, h10⟩ := len_ge_succ h9
    obtain ⟨x11, b11, rfl, h11⟩ := len_ge_succ h10
    obtain ⟨x12, b12, rfl, h12⟩ := len_ge_succ h11
    obtain ⟨x13, b13, rfl, h13⟩ := len_ge_succ h12
    obtain ⟨x14, b14, rfl, h14⟩ := len_ge_succ h13
    obtain ⟨x15, b15, rfl, h15⟩ := len_ge_succ h14
    obtain ⟨x16, b16, rfl, h16⟩ := len_ge_succ h15
    obtain ⟨x17, b17, rfl, h17⟩ := len_ge_succ h16
    obtain ⟨x18, b18, rfl, h18⟩ := len_ge_succ h17
    obtain ⟨x19, b19, rfl, h19⟩ := len_ge_succ h18
    obtain ⟨x20, b20, rfl, h20⟩ := len_ge_succ h19
    obtain ⟨x21, b21, rfl, h21⟩ := len_ge_succ h20
    obtain ⟨x22, b22, rfl, h22⟩ := len_ge_succ h21
    obtain ⟨x23, b23, rfl, h23⟩ := len_ge_succ h22
    obtain ⟨x24, b24, rfl, h24⟩ := len_ge_succ h23
    obtain ⟨x25, b25, rfl, h25⟩ := len_ge_succ h24
    obtain ⟨x26, b26, rfl, h26⟩ := len_ge_succ h25
    obtain ⟨x27, b27, rfl, h27⟩ := len_ge_succ h26
    obtain ⟨x28, b28, rfl, h28⟩ := len_ge_succ h27
    obtain ⟨x29, b29, rfl, h29⟩ := len_ge_succ h28
    simp only [List.drop_succ_cons, List.drop_zero, ClockQuality.deserialize, pure, Except.pure,
      Except.ok.injEq] at h
    subst h
    simp only [List.take_succ_cons, List.take_zero] at hob ⊢
    have eU : beBytes 2 (beNat [x10, x11]) = [x10, x11] := beBytes_beNat [x10, x11]
    have eV : beBytes 2 (beNat [x16, x17]) = [x16, x17] := beBytes_beNat [x16, x17]
    have eI : beBytes 8 (beNat [x19, x20, x21, x22, x23, x24, x25, x26]) = [x19, x20, x21, x22, x23, x24, x25, x26] :=
      beBytes_beNat [x19, x20, x21, x22, x23, x24, x25, x26]
    have eS : beBytes 2 (beNat [x27, x28]) = [x27, x28] := beBytes_beNat [x27, x28]
    simp only [Body.serialize, hold, ClockQuality.bytes, ClockAccuracy.toPrimitive_fromPrimitive, bind, Except.bind,
      pure, Except.pure, hob, eU, eV, eI, eS, TimeSource.toPrimitive_fromPrimitive, UInt8.ofNat_toNat, canonBody,
      List.cons_append, List.nil_append]
    simp

theorem Management.ser_deser (c : Bytes) (g : Management) (old tl : Bytes) (h : Management.deserialize c = .ok g)
    (hold : old.drop 10 = 0 :: tl) :
    (Body.management g).serialize old = .ok (canonBody 13 (c.take 14)) := by
  unfold Management.deserialize at h
  split at h
  · cases h
  · rename_i hl
    cases ht : PortIdentity.deserialize c with
    | error e => simp [ht, bind, Except.bind] at h
    | ok tp =>
    have hob := PortIdentity.bytes_deser _ _ ht
    rw [ht] at h
    simp only [bind, Except.bind] at h
    have hl : 14 ≤ c.length := by omega
    obtain ⟨x0, b0, rfl, h0⟩ := len_ge_succ hl
    obtain ⟨x1, b1, rfl, h1⟩ := len_ge_succ h0
    obtain ⟨x2, b2, rfl, h2⟩ := len_ge_succ h1
    obtain ⟨x3, b3, rfl, h3⟩ := len_ge_succ h2
    obtain ⟨x4, b4, rfl, h4⟩ := len_ge_succ h3
    obtain ⟨x5, b5, rfl, h5⟩ := len_ge_succ h4
    obtain ⟨x6, b6, rfl, h6⟩ := len_ge_succ h5
    obtain ⟨x7, b7, rfl, h7⟩ := len_ge_succ h6
    obtain ⟨x8, b8, rfl, h8⟩ := len_ge_succ h7
    obtain ⟨x9, b9, rfl, h9⟩ := len_ge_succ h8
    obtain ⟨x10, b10, rfl, h10⟩ := len_ge_succ h9
    obtain ⟨x11, b11, rfl, h11⟩ := len_ge_succ h10
    obtain ⟨x12, b12, rfl, h12⟩ := len_ge_succ h11
    obtain ⟨x13, b13, rfl, h13⟩ := len_ge_succ h12
    simp only [List.drop_succ_cons, List.drop_zero, pure, Except.pure, Except.ok.injEq] at h
    subst h
    simp only [List.take_succ_cons, List.take_zero] at hob ⊢
    simp only [Body.serialize, hold, hob, UInt8.ofNat_toNat, canonBody, canonAct, List.cons_append, List.nil_append]
    simp



/-- every body: parse, then serialise into a zeroed window = the canonical body octets -/
theorem Body.ser_deser (ty : Nat) (c : Bytes) (body : Body) (h : Body.deserialize ty c = .ok body) :
    body.serialize (List.replicate body.wireSize 0) = .ok (canonBody ty (c.take body.wireSize)) := by
  unfold Body.deserialize at h
  split at h
  · rename_i hty; subst hty
    cases ht : Timestamp.deserialize c with
    | error e => simp [ht, bind, Except.bind] at h
    | ok t =>
      simp [ht, bind, Except.bind, pure, Except.pure] at h
      subst h
      simp [Body.serialize, Body.wireSize, canonBody, Timestamp.bytes_deser _ _ ht]
  split at h
  · rename_i hty; subst hty
    cases ht : Timestamp.deserialize c with
    | error e => simp [ht, bind, Except.bind] at h
    | ok t =>
      simp [ht, bind, Except.bind, pure, Except.pure] at h
      subst h
      simp [Body.serialize, Body.wireSize, canonBody, Timestamp.bytes_deser _ _ ht]
  split at h
  · rename_i hty; subst hty
    split at h
    · cases h
    · cases ht : Timestamp.deserialize c with
      | error e => simp [ht, bind, Except.bind] at h
      | ok t =>
        simp [ht, bind, Except.bind, pure, Except.pure] at h
        subst h
        simp [Body.serialize, Body.wireSize, canonBody, Timestamp.bytes_deser _ _ ht, List.take_take]
  split at h
  · rename_i hty; subst hty
    cases ht : tsPort c with
    | error e => simp [ht, bind, Except.bind] at h
    | ok r =>
      obtain ⟨t, p⟩ := r
      simp [ht, bind, Except.bind, pure, Except.pure] at h
      subst h
      simp [Body.serialize, Body.wireSize, canonBody, tsPort_bytes_deser _ _ _ ht]
  split at h
  · rename_i hty; subst hty
    cases ht : Timestamp.deserialize c with
    | error e => simp [ht, bind, Except.bind] at h
    | ok t =>
      simp [ht, bind, Except.bind, pure, Except.pure] at h
      subst h
      simp [Body.serialize, Body.wireSize, canonBody, Timestamp.bytes_deser _ _ ht]
  split at h
  · rename_i hty; subst hty
    cases ht : tsPort c with
    | error e => simp [ht, bind, Except.bind] at h
    | ok r =>
      obtain ⟨t, p⟩ := r
      simp [ht, bind, Except.bind, pure, Except.pure] at h
      subst h
      simp [Body.serialize, Body.wireSize, canonBody, tsPort_bytes_deser _ _ _ ht]
  split at h
  · rename_i hty; subst hty
    cases ht : tsPort c with
    | error e => simp [ht, bind, Except.bind] at h
    | ok r =>
      obtain ⟨t, p⟩ := r
      simp [ht, bind, Except.bind, pure, Except.pure] at h
      subst h
      simp [Body.serialize, Body.wireSize, canonBody, tsPort_bytes_deser _ _ _ ht]
  split at h
  · rename_i hty; subst hty
    cases ht : Announce.deserialize c with
    | error e => simp [ht, bind, Except.bind] at h
    | ok t =>
      simp [ht, bind, Except.bind, pure, Except.pure] at h
      subst h
      exact Announce.ser_deser c t _ (List.replicate 17 0) ht rfl
  split at h
  · rename_i hty; subst hty
    cases ht : PortIdentity.deserialize c with
    | error e => simp [ht, bind, Except.bind] at h
    | ok t =>
      simp [ht, bind, Except.bind, pure, Except.pure] at h
      subst h
      simp [Body.serialize, Body.wireSize, canonBody, PortIdentity.bytes_deser _ _ ht]
  split at h
  · rename_i hty; subst hty
    cases ht : Management.deserialize c with
    | error e => simp [ht, bind, Except.bind] at h
    | ok t =>
      simp [ht, bind, Except.bind, pure, Except.pure] at h
      subst h
      exact Management.ser_deser c t _ (List.replicate 3 0) ht rfl
  · cases h



theorem canonHeader_take (b : Bytes) (n : Nat) (hn : 34 ≤ n) (hb : 34 ≤ b.length) :
    canonHeader (b.take n) = canonHeader b ∧ (b.take n).getD 0 0 = b.getD 0 0 ∧
      canonHeader b = (canonHeader b).take 34 ∧ (canonHeader b).length = 34 := by
  obtain ⟨k, rfl⟩ : ∃ k, n = k + 34 := ⟨n - 34, by omega⟩
  obtain ⟨x0, b0, rfl, h0⟩ := len_ge_succ hb
  obtain ⟨x1, b1, rfl, h1⟩ := len_ge_succ h0
  obtain ⟨x2, b2, rfl, h2⟩ := len_ge_succ h1
  obtain ⟨x3, b3, rfl, h3⟩ := len_ge_succ h2
  obtain ⟨x4, b4, rfl, h4⟩ := len_ge_succ h3
  obtain ⟨x5, b5, rfl, h5⟩ := len_ge_succ h4
  obtain ⟨x6, b6, rfl, h6⟩ := len_ge_succ h5
  obtain ⟨x7, b7, rfl, h7⟩ := len_ge_succ h6
  obtain ⟨x8, b8, rfl, h8⟩ := len_ge_succ h7
  obtain ⟨x9, b9, rfl, h9⟩ := len_ge_succ h8
  obtain ⟨x10, b10, rfl, h10⟩ := len_ge_succ h9
  obtain ⟨x11, b11, rfl, h11⟩ := len_ge_succ h10
  obtain ⟨x12, b12, rfl, h12⟩ := len_ge_succ h11
  obtain ⟨x13, b13, rfl, h13⟩ := len_ge_succ h12
  obtain ⟨x14, b14, rfl, h14⟩ := len_ge_succ h13
  obtain ⟨x15, b15, rfl, h15⟩ := len_ge_succ h14
  obtain ⟨x16, b16, rfl, h16⟩ := len_ge_succ h15
  obtain ⟨x17, b17, rfl, h17⟩ := len_ge_succ h16
  obtain ⟨x18, b18, rfl, h18⟩ := len_ge_succ h17
  obtain ⟨x19, b19, rfl, h19⟩ := len_ge_succ h18
  obtain ⟨x20, b20, rfl, h20⟩ := len_ge_succ h19
  obtain ⟨x21, b21, rfl, h21⟩ := len_ge_succ h20
  obtain ⟨x22, b22, rfl, h22⟩ := len_ge_succ h21
  obtain ⟨x23, b23, rfl, h23⟩ := len_ge_succ h22
  obtain ⟨x24, b24, rfl, h24⟩ := len_ge_succ h23
  obtain ⟨x25, b25, rfl, h25⟩ := len_ge_succ h24
  obtain ⟨x26, b26, rfl, h26⟩ := len_ge_succ h25
  obtain ⟨x27, b27, rfl, h27⟩ := len_ge_succ h26
  obtain ⟨x28, b28, rfl, h28⟩ := len_ge_succ h27
  obtain ⟨x29, b29, rfl, h29⟩ := len_ge_succ h28
  obtain ⟨x30, b30, rfl, h30⟩ := len_ge_succ h29
  obtain ⟨x31, b31, rfl, h31⟩ := len_ge_succ h30
  obtain ⟨x32, b32, rfl, h32⟩ := len_ge_succ h31
  obtain ⟨x33, b33, rfl, h33⟩ := len_ge_succ h32
  simp [List.take_succ_cons, canonHeader]

theorem Body.wireSize_eq (body : Body) : body.wireSize = bodySize body.type := by
  cases body <;> simp [Body.wireSize, Body.type, bodySize]

theorem Header.deserialize_type (b : Bytes) (dh : DeserializedHeader) (h : Header.deserialize b = .ok dh) :
    dh.messageType = (b.getD 0 0).toNat % 16 ∧ dh.messageLength < 2 ^ 16 ∧ 34 ≤ b.length := by
  unfold Header.deserialize at h
  split at h
  · simp only [] at h
    split at h
    · cases h
      refine ⟨by simp, Nat.lt_of_lt_of_le (beNat_lt _) (by simp), by simp⟩
    · cases h
  · cases h

/-- the parsed prefix with exactly the fields the codec does not reproduce zeroed / canonicalised -/
def canon (p : Bytes) : Bytes :=
  canonHeader p ++ canonBody ((p.getD 0 0).toNat % 16) ((p.drop 34).take (bodySize ((p.getD 0 0).toNat % 16))) ++
    p.drop (34 + bodySize ((p.getD 0 0).toNat % 16))

/-- **parse, then re-serialise into a zeroed buffer = the canonical form of the parsed prefix** -/
theorem Message.parse_then_ser_bytes (b : Bytes) (m : Message) (dh : DeserializedHeader)
    (hh : Header.deserialize b = .ok dh) (h : Message.deserialize b = .ok m) (cap : Nat)
    (hc : dh.messageLength ≤ cap) :
    m.serialize (List.replicate cap 0) = .ok (canon (b.take dh.messageLength)) := by
  obtain ⟨dh', hh', h34, hlen, hhd, hbody, hws, hsfx⟩ := Message.deserialize_inv b m h
  rw [hh] at hh'; cases hh'
  obtain ⟨hwb, hty⟩ := Body.deserialize_WF _ _ _ hbody
  obtain ⟨htyb, hml, hb34⟩ := Header.deserialize_type b dh hh
  have hseq := TlvSet.deserialize_eq _ _ hsfx
  have hclen : ((b.take dh.messageLength).drop 34).length = dh.messageLength - 34 := by
    simp [List.length_take]; omega
  have hsl : m.suffix.length = dh.messageLength - 34 - m.body.wireSize := by
    rw [hseq, List.length_drop, hclen]
  have heven : m.suffix.length % 2 = 0 := by
    have hv := Message.deserialize_suffix b m h
    unfold TlvSet.deserialize at hv
    split at hv
    · rename_i hl; exact tlvLoop_even _ _ hl
    · cases hv
  rw [hclen] at hws
  -- header
  have hhs : m.header.serialize m.body.type (m.body.wireSize + m.suffix.length) = .ok (canonHeader b) := by
    have := Header.ser_deser b dh hh h34
    rw [hhd, hty]
    have e : m.body.wireSize + m.suffix.length = dh.messageLength - 34 := by omega
    rw [e]; exact this
  -- body
  have hwin : ((List.replicate cap (0 : UInt8)).drop 34).take m.body.wireSize = List.replicate m.body.wireSize 0 := by
    rw [List.drop_replicate, List.take_replicate]
    congr 1; omega
  have hbs := Body.ser_deser _ _ _ hbody
  have hser : m.serialize (List.replicate cap 0) =
      .ok (canonHeader b ++ canonBody dh.messageType (((b.take dh.messageLength).drop 34).take m.body.wireSize) ++
        m.suffix) := by
    unfold Message.serialize
    rw [List.length_replicate, if_neg (by omega), if_neg (by omega)]
    unfold TlvSet.wireSize
    rw [if_neg (by omega)]
    simp only [bind, Except.bind, hhs, hwin, hbs]
    rw [if_neg (by omega)]
    rfl
  rw [hser]
  obtain ⟨hct, hg0, _, _⟩ := canonHeader_take b dh.messageLength h34 hb34
  unfold canon
  rw [hct, hg0, ← htyb, ← hty, ← Body.wireSize_eq, hseq, List.drop_drop]



theorem canon6_self (b : UInt8) (h1 : b.toNat / 8 % 4 = 0) (h2 : b.toNat / 128 = 0) : canon6 b = b := by
  apply UInt8.toNat_inj.mp
  have := b.toNat_lt
  unfold canon6; rw [toNat_ofNat]; omega

theorem canon7_self (b : UInt8) (h : b.toNat / 128 = 0) : canon7 b = b := by
  apply UInt8.toNat_inj.mp
  have := b.toNat_lt
  unfold canon7; rw [toNat_ofNat]; omega

/-- reserved header fields are zero -/
def ReservedZeroHeader (p : Bytes) : Prop :=
  (p.getD 6 0).toNat / 8 % 4 = 0 ∧ (p.getD 6 0).toNat / 128 = 0 ∧ (p.getD 7 0).toNat / 128 = 0 ∧
  p.getD 16 0 = 0 ∧ p.getD 17 0 = 0 ∧ p.getD 18 0 = 0 ∧ p.getD 19 0 = 0 ∧ p.getD 32 0 = 0

/-- reserved / non-canonical body fields (`q` = the octets after the 34-byte header) -/
def ReservedZeroBody (ty : Nat) (q : Bytes) : Prop :=
  (ty = 2 → (q.drop 10).take 10 = List.replicate 10 0) ∧
  (ty = 11 → q.getD 12 0 = 0 ∧
     (ClockAccuracy.fromPrimitive (q.getD 15 0).toNat ≠ .reserved ∨ q.getD 15 0 = 0)) ∧
  (ty = 13 → q.getD 10 0 = 0 ∧ (q.getD 13 0).toNat ≤ 5)

theorem canonHeader_self (p : Bytes) (hl : 34 ≤ p.length) (hr : ReservedZeroHeader p) :
    canonHeader p = p.take 34 := by
  obtain ⟨x0, b0, rfl, h0⟩ := len_ge_succ hl
  obtain ⟨x1, b1, rfl, h1⟩ := len_ge_succ h0
  obtain ⟨x2, b2, rfl, h2⟩ := len_ge_succ h1
  obtain ⟨x3, b3, rfl, h3⟩ := len_ge_succ h2
  obtain ⟨x4, b4, rfl, h4⟩ := len_ge_succ h3
  obtain ⟨x5, b5, rfl, h5⟩ := len_ge_succ h4
  obtain ⟨x6, b6, rfl, h6⟩ := len_ge_succ h5
  obtain ⟨x7, b7, rfl, h7⟩ := len_ge_succ h6
  obtain ⟨x8, b8, rfl, h8⟩ := len_ge_succ h7
  obtain ⟨x9, b9, rfl, h9⟩ := len_ge_succ h8
  obtain ⟨x10, b10, rfl, h10⟩ := len_ge_succ h9
  obtain ⟨x11, b11, rfl, h11⟩ := len_ge_succ h10
  obtain ⟨x12, b12, rfl, h12⟩ := len_ge_succ h11
  obtain ⟨x13, b13, rfl, h13⟩ := len_ge_succ h12
  obtain ⟨x14, b14, rfl, h14⟩ := len_ge_succ h13
  obtain ⟨x15, b15, rfl, h15⟩ := len_ge_succ h14
  obtain ⟨x16, b16, rfl, h16⟩ := len_ge_succ h15
  obtain ⟨x17, b17, rfl, h17⟩ := len_ge_succ h16
  obtain ⟨x18, b18, rfl, h18⟩ := len_ge_succ h17
  obtain ⟨x19, b19, rfl, h19⟩ := len_ge_succ h18
  obtain ⟨x20, b20, rfl, h20⟩ := len_ge_succ h19
  obtain ⟨x21, b21, rfl, h21⟩ := len_ge_succ h20
  obtain ⟨x22, b22, rfl, h22⟩ := len_ge_succ h21
  obtain ⟨x23, b23, rfl, h23⟩ := len_ge_succ h22
  obtain ⟨x24, b24, rfl, h24⟩ := len_ge_succ h23
  obtain ⟨x25, b25, rfl, h25⟩ := len_ge_succ h24
  obtain ⟨x26, b26, rfl, h26⟩ := len_ge_succ h25
  obtain ⟨x27, b27, rfl, h27⟩ := len_ge_succ h26
  obtain ⟨x28, b28, rfl, h28⟩ := len_ge_succ h27
  obtain ⟨x29, b29, rfl, h29⟩ := len_ge_succ h28
  obtain ⟨x30, b30, rfl, h30⟩ := len_ge_succ h29
  obtain ⟨x31, b31, rfl, h31⟩ := len_ge_succ h30
  obtain ⟨x32, b32, rfl, h32⟩ := len_ge_succ h31
  obtain ⟨x33, b33, rfl, h33⟩ := len_ge_succ h32
  obtain ⟨r1, r2, r3, r4, r5, r6, r7, r8⟩ := hr
  simp only [List.getD_cons_succ, List.getD_cons_zero] at r1 r2 r3 r4 r5 r6 r7 r8
  simp [canonHeader, canon6_self _ r1 r2, canon7_self _ r3, r4, r5, r6, r7, r8]

theorem canonBody_self (ty : Nat) (q : Bytes) (hl : bodySize ty ≤ q.length) (hr : ReservedZeroBody ty q) :
    canonBody ty (q.take (bodySize ty)) = q.take (bodySize ty) := by
  obtain ⟨r2, r11, r13⟩ := hr
  by_cases h2 : ty = 2
  · subst h2
    have hl : 20 ≤ q.length := by simpa [bodySize] using hl
    have e := r2 rfl
    have : bodySize 2 = 20 := by simp [bodySize]
    rw [this]
    unfold canonBody
    rw [if_pos rfl, List.take_take]
    have e2 : q.take 20 = q.take 10 ++ (q.drop 10).take 10 := by
      rw [← List.take_append_drop 10 (q.take 20)]
      simp [List.take_take, List.drop_take]
    rw [e2, e]
    simp
  · by_cases h11 : ty = 11
    · subst h11
      have hl : 30 ≤ q.length := by simpa [bodySize] using hl
      obtain ⟨ra, rb⟩ := r11 rfl
      have : bodySize 11 = 30 := by simp [bodySize]
      rw [this]
      obtain ⟨x0, b0, rfl, h0⟩ := len_ge_succ hl
      obtain ⟨x1, b1, rfl, h1⟩ := len_ge_succ h0
      obtain ⟨x2, b2, rfl, h2⟩ := len_ge_succ h1
      obtain ⟨x3, b3, rfl, h3⟩ := len_ge_succ h2
      obtain ⟨x4, b4, rfl, h4⟩ := len_ge_succ h3
      obtain ⟨x5, b5, rfl, h5⟩ := len_ge_succ h4
      obtain ⟨x6, b6, rfl, h6⟩ := len_ge_succ h5
      obtain ⟨x7, b7, rfl, h7⟩ := len_ge_succ h6
      obtain ⟨x8, b8, rfl, h8⟩ := len_ge_succ h7
      obtain ⟨x9, b9, rfl, h9⟩ := len_ge_succ h8
      obtain ⟨x10, b10, rfl, h10⟩ := len_ge_succ h9
      obtain ⟨x11, b11, rfl, h11⟩ := len_ge_succ h10
      obtain ⟨x12, b12, rfl, h12⟩ := len_ge_succ h11
      obtain ⟨x13, b13, rfl, h13⟩ := len_ge_succ h12
      obtain ⟨x14, b14, rfl, h14⟩ := len_ge_succ h13
      obtain ⟨x15, b15, rfl, h15⟩ := len_ge_succ h14
      obtain ⟨x16, b16, rfl, h16⟩ := len_ge_succ h15
      obtain ⟨x17, b17, rfl, h17⟩ := len_ge_succ h16
      obtain ⟨x18, b18, rfl, h18⟩ := len_ge_succ h17
      obtain ⟨x19, b19, rfl, h19⟩ := len_ge_succ h18
      obtain ⟨x20, b20, rfl, h20⟩ := len_ge_succ h19
      obtain ⟨x21, b21, rfl, h21⟩ := len_ge_succ h20
      obtain ⟨x22, b22, rfl, h22⟩ := len_ge_succ h21
      obtain ⟨x23, b23, rfl, h23⟩ := len_ge_succ h22
      obtain ⟨x24, b24, rfl, h24⟩ := len_ge_succ h23
      obtain ⟨x25, b25, rfl, h25⟩ := len_ge_succ h24
      obtain ⟨x26, b26, rfl, h26⟩ := len_ge_succ h25
      obtain ⟨x27, b27, rfl, h27⟩ := len_ge_succ h26
      obtain ⟨x28, b28, rfl, h28⟩ := len_ge_succ h27
      obtain ⟨x29, b29, rfl, h29⟩ := len_ge_succ h28
      simp only [List.getD_cons_succ, List.getD_cons_zero] at ra rb
      have hacc : canonAcc x15 = x15 := by
        unfold canonAcc
        rcases rb with rb | rb
        · rw [if_neg rb]
        · subst rb; simp
      simp [canonBody, ra, hacc]
    · by_cases h13 : ty = 13
      · subst h13
        have hl : 14 ≤ q.length := by simpa [bodySize] using hl
        obtain ⟨ra, rb⟩ := r13 rfl
        have : bodySize 13 = 14 := by simp [bodySize]
        rw [this]
        obtain ⟨x0, b0, rfl, h0⟩ := len_ge_succ hl
        obtain ⟨x1, b1, rfl, h1⟩ := len_ge_succ h0
        obtain ⟨x2, b2, rfl, h2⟩ := len_ge_succ h1
        obtain ⟨x3, b3, rfl, h3⟩ := len_ge_succ h2
        obtain ⟨x4, b4, rfl, h4⟩ := len_ge_succ h3
        obtain ⟨x5, b5, rfl, h5⟩ := len_ge_succ h4
        obtain ⟨x6, b6, rfl, h6⟩ := len_ge_succ h5
        obtain ⟨x7, b7, rfl, h7⟩ := len_ge_succ h6
        obtain ⟨x8, b8, rfl, h8⟩ := len_ge_succ h7
        obtain ⟨x9, b9, rfl, h9⟩ := len_ge_succ h8
        obtain ⟨x10, b10, rfl, h10⟩ := len_ge_succ h9
        obtain ⟨x11, b11, rfl, h11⟩ := len_ge_succ h10
        obtain ⟨x12, b12, rfl, h12⟩ := len_ge_succ h11
        obtain ⟨x13, b13, rfl, h13⟩ := len_ge_succ h12
        simp only [List.getD_cons_succ, List.getD_cons_zero] at ra rb
        have hact : canonAct x13 = x13 := by
          apply UInt8.toNat_inj.mp
          unfold canonAct; rw [toNat_ofNat]; have := x13.toNat_lt; omega
        simp [canonBody, ra, hact]
      · unfold canonBody
        rw [if_neg h2, if_neg h11, if_neg h13]


/-- a prefix whose reserved fields are zero is its own canonical form -/
theorem canon_eq_self (p : Bytes) (hl : 34 + bodySize ((p.getD 0 0).toNat % 16) ≤ p.length)
    (hh : ReservedZeroHeader p) (hb : ReservedZeroBody ((p.getD 0 0).toNat % 16) (p.drop 34)) : canon p = p := by
  unfold canon
  rw [canonHeader_self p (by omega) hh, canonBody_self _ _ (by simp only [List.length_drop]; omega) hb, ← List.drop_drop,
    List.append_assoc, List.take_append_drop, List.take_append_drop]


/-! ### what the encoder reads from / leaves in the caller's buffer -/


/-- the only octet of the body window the encoder reads (= leaves unwritten): Announce 12, Management 10 -/
def Body.unwritten : Body → Option Nat
  | .announce _ => some 12
  | .management _ => some 10
  | _ => none

theorem drop_eq_of_getElem? (l : Bytes) (n : Nat) :
    (match l.drop n with | x :: _ => some x | [] => none) = l[n]? := by
  induction l generalizing n with
  | nil => simp
  | cons a l ih =>
    cases n with
    | zero => simp
    | succ n => simpa using ih n

/-- `MessageBody::serialize` depends on the old window content only through the unwritten octet -/
theorem Body.serialize_congr (body : Body) (old old' : Bytes)
    (h : ∀ i, body.unwritten = some i → old[i]? = old'[i]?) : body.serialize old = body.serialize old' := by
  cases body with
  | announce a =>
    have h12 := h 12 rfl
    rw [← drop_eq_of_getElem? old 12, ← drop_eq_of_getElem? old' 12] at h12
    simp only [Body.serialize]
    cases h1 : old.drop 12 with
    | nil => cases h2 : old'.drop 12 with
      | nil => rfl
      | cons y t => rw [h1, h2] at h12; cases h12
    | cons x t => cases h2 : old'.drop 12 with
      | nil => rw [h1, h2] at h12; cases h12
      | cons y t' => rw [h1, h2] at h12; cases h12; rfl
  | management g =>
    have h10 := h 10 rfl
    rw [← drop_eq_of_getElem? old 10, ← drop_eq_of_getElem? old' 10] at h10
    simp only [Body.serialize]
    cases h1 : old.drop 10 with
    | nil => cases h2 : old'.drop 10 with
      | nil => rfl
      | cons y t => rw [h1, h2] at h10; cases h10
    | cons x t => cases h2 : old'.drop 10 with
      | nil => rw [h1, h2] at h10; cases h10
      | cons y t' => rw [h1, h2] at h10; cases h10; rfl
  | sync t => rfl
  | delayReq t => rfl
  | pDelayReq t => rfl
  | pDelayResp t q => rfl
  | followUp t => rfl
  | delayResp t q => rfl
  | pDelayRespFollowUp t q => rfl
  | signaling q => rfl

/-- `Message::serialize` reads the caller's buffer only for its length and for the ONE octet it leaves
    unwritten (Announce: octet 34+12 = 46, Management: octet 34+10 = 44); every other output octet is
    independent of the old buffer content. -/
theorem Message.serialize_congr (m : Message) (buf buf' : Bytes) (hl : buf.length = buf'.length)
    (h : ∀ i, m.body.unwritten = some i → buf[34 + i]? = buf'[34 + i]?) : m.serialize buf = m.serialize buf' := by
  unfold Message.serialize
  rw [hl]
  have hw : m.body.serialize ((buf.drop 34).take m.body.wireSize) =
      m.body.serialize ((buf'.drop 34).take m.body.wireSize) := by
    apply Body.serialize_congr
    intro i hi
    have hlt : i < m.body.wireSize := by
      cases hb : m.body <;> rw [hb] at hi <;> simp [Body.unwritten] at hi <;> subst hi <;> simp [Body.wireSize]
    simp only [List.getElem?_take, hlt, if_true, List.getElem?_drop]
    exact h i hi
  rw [hw]

theorem Header.serialize_length (h : Header) (ty n : Nat) (hb : Bytes) (hs : h.serialize ty n = .ok hb) :
    hb.length = 34 := by
  unfold Header.serialize at hs
  split at hs
  · cases hs
  · cases hs; simp [beBytes_length, PortIdentity.bytes]

/-- the unwritten octet of the body window goes out as found there -/
theorem Body.serialize_unwritten (body : Body) (old bb : Bytes) (i : Nat) (hi : body.unwritten = some i)
    (h : body.serialize old = .ok bb) : bb[i]? = old[i]? := by
  cases body with
  | announce a =>
    simp [Body.unwritten] at hi; subst hi
    rw [← drop_eq_of_getElem? old 12]
    simp only [Body.serialize] at h
    cases h1 : old.drop 12 with
    | nil => rw [h1] at h; cases h
    | cons x t =>
      rw [h1] at h
      cases hq : a.quality.bytes with
      | error e => simp [hq, bind, Except.bind] at h
      | ok q =>
        simp only [hq, bind, Except.bind, pure, Except.pure, Except.ok.injEq] at h
        subst h
        have : (a.origin.bytes ++ beBytes 2 a.utcOffset).length = 12 := by
          simp [Timestamp.bytes_length, beBytes_length]
        simp only [List.append_assoc]
        rw [← List.append_assoc a.origin.bytes, List.getElem?_append_right (by omega), this]
        simp
  | management g =>
    simp [Body.unwritten] at hi; subst hi
    rw [← drop_eq_of_getElem? old 10]
    simp only [Body.serialize] at h
    cases h1 : old.drop 10 with
    | nil => rw [h1] at h; cases h
    | cons x t =>
      rw [h1] at h
      simp only [Except.ok.injEq] at h
      subst h
      rw [List.getElem?_append_right (by simp [PortIdentity.bytes_length]), PortIdentity.bytes_length]
      simp
  | sync t => simp [Body.unwritten] at hi
  | delayReq t => simp [Body.unwritten] at hi
  | pDelayReq t => simp [Body.unwritten] at hi
  | pDelayResp t q => simp [Body.unwritten] at hi
  | followUp t => simp [Body.unwritten] at hi
  | delayResp t q => simp [Body.unwritten] at hi
  | pDelayRespFollowUp t q => simp [Body.unwritten] at hi
  | signaling q => simp [Body.unwritten] at hi

theorem Body.serialize_length (body : Body) (old bb : Bytes) (h : body.serialize old = .ok bb) :
    bb.length = body.wireSize := by
  cases body with
  | announce a =>
    simp only [Body.serialize] at h
    split at h
    · cases hq : a.quality.accuracy.toPrimitive with
      | error e => simp [ClockQuality.bytes, hq, bind, Except.bind] at h
      | ok q =>
        simp only [ClockQuality.bytes, hq, bind, Except.bind, pure, Except.pure, Except.ok.injEq] at h
        subst h
        simp [Body.wireSize, Timestamp.bytes_length, beBytes_length]
    · cases h
  | management g =>
    simp only [Body.serialize] at h
    split at h
    · cases h; simp [Body.wireSize, PortIdentity.bytes_length]
    · cases h
  | sync t => cases h; simp [Body.wireSize, Timestamp.bytes_length]
  | delayReq t => cases h; simp [Body.wireSize, Timestamp.bytes_length]
  | pDelayReq t => cases h; simp [Body.wireSize, Timestamp.bytes_length]
  | pDelayResp t q => cases h; simp [Body.wireSize, Timestamp.bytes_length, PortIdentity.bytes_length]
  | followUp t => cases h; simp [Body.wireSize, Timestamp.bytes_length]
  | delayResp t q => cases h; simp [Body.wireSize, Timestamp.bytes_length, PortIdentity.bytes_length]
  | pDelayRespFollowUp t q => cases h; simp [Body.wireSize, Timestamp.bytes_length, PortIdentity.bytes_length]
  | signaling q => cases h; simp [Body.wireSize, PortIdentity.bytes_length]

/-- the unwritten octet goes out on the wire as found in the caller's buffer (stale data unless the caller
    zeroed it) -/
theorem Message.serialize_unwritten (m : Message) (buf out : Bytes) (i : Nat) (hi : m.body.unwritten = some i)
    (h : m.serialize buf = .ok out) : out[34 + i]? = buf[34 + i]? := by
  unfold Message.serialize at h
  split at h; · cases h
  split at h; · cases h
  rename_i hl1 hl2
  cases hw : TlvSet.wireSize m.suffix with
  | error e => simp [hw, bind, Except.bind] at h
  | ok sfx =>
  cases hhs : m.header.serialize m.body.type (m.body.wireSize + sfx) with
  | error e => simp [hw, hhs, bind, Except.bind] at h
  | ok hb =>
  cases hbs : m.body.serialize ((buf.drop 34).take m.body.wireSize) with
  | error e => simp [hw, hhs, hbs, bind, Except.bind] at h
  | ok bb =>
  simp only [hw, hhs, hbs, bind, Except.bind] at h
  split at h; · cases h
  simp only [pure, Except.pure, Except.ok.injEq] at h
  subst h
  have hlen := Header.serialize_length _ _ _ _ hhs
  have hlt : i < m.body.wireSize := by
    cases hb' : m.body <;> rw [hb'] at hi <;> simp [Body.unwritten] at hi <;> subst hi <;> simp [Body.wireSize]
  have hbl : bb.length = m.body.wireSize := Body.serialize_length _ _ _ hbs
  have hbu := Body.serialize_unwritten m.body _ bb i hi hbs
  rw [List.append_assoc, List.getElem?_append_right (by omega), hlen]
  have e : 34 + i - 34 = i := by omega
  rw [e, List.getElem?_append_left (by omega), hbu]
  simp only [List.getElem?_take, hlt, if_true, List.getElem?_drop]


/-! ### the 16-bit messageLength limit -/


/-- what the library can serialise is shorter than 2^16 octets, and the output has exactly `wire_size` octets -/
theorem Message.serialize_size (m : Message) (buf out : Bytes) (h : m.serialize buf = .ok out) :
    out.length = 34 + m.body.wireSize + m.suffix.length ∧ out.length < 2 ^ 16 := by
  unfold Message.serialize at h
  split at h; · cases h
  split at h; · cases h
  cases hw : TlvSet.wireSize m.suffix with
  | error e => simp [hw, bind, Except.bind] at h
  | ok sfx =>
  have hsfx : sfx = m.suffix.length := by
    unfold TlvSet.wireSize at hw; split at hw
    · cases hw
    · cases hw; rfl
  cases hhs : m.header.serialize m.body.type (m.body.wireSize + sfx) with
  | error e => simp [hw, hhs, bind, Except.bind] at h
  | ok hb =>
  cases hbs : m.body.serialize ((buf.drop 34).take m.body.wireSize) with
  | error e => simp [hw, hhs, hbs, bind, Except.bind] at h
  | ok bb =>
  simp only [hw, hhs, hbs, bind, Except.bind] at h
  split at h; · cases h
  simp only [pure, Except.pure, Except.ok.injEq] at h
  subst h
  have h1 := Header.serialize_length _ _ _ _ hhs
  have h2 := Body.serialize_length _ _ _ hbs
  have h3 : m.body.wireSize + sfx + 34 < 2 ^ 16 := by
    unfold Header.serialize at hhs
    split at hhs
    · cases hhs
    · omega
  rw [List.length_append, List.length_append]
  omega

/-- a message of 2^16 octets or more is refused (`Error::Invalid`: the checked `u16` conversion of
    messageLength), whatever the buffer, as soon as the buffer passes the two split checks -/
theorem Message.serialize_oversize (m : Message) (buf : Bytes) (hbuf : 34 + m.body.wireSize ≤ buf.length)
    (heven : m.suffix.length % 2 = 0) (hbig : 2 ^ 16 ≤ 34 + m.body.wireSize + m.suffix.length) :
    m.serialize buf = .error .invalid := by
  unfold Message.serialize
  rw [if_neg (by omega), if_neg (by omega)]
  unfold TlvSet.wireSize
  rw [if_neg (by omega)]
  simp only [bind, Except.bind]
  unfold Header.serialize
  rw [if_pos (by omega)]


/-! ### constructor-validated header fields -/

theorem Header.construct_wf (major minor sdo domain seq li : Nat) (h : Header)
    (hc : Header.construct? major minor sdo domain seq li = some h)
    (hd : domain < 256) (hs : seq < 2 ^ 16) (hl : li < 256) :
    h.WF ∧ h.major = major ∧ h.minor = minor ∧ h.sdoId = sdo := by
  unfold Header.construct? PtpVersion.new? SdoId.new? at hc
  split at hc
  · simp at hc
  · split at hc
    · simp only [bind, Option.bind, pure, Option.some.injEq] at hc
      subst hc
      refine ⟨?_, rfl, rfl, rfl⟩
      unfold Header.WF Header.new PortIdentity.WF
      simp only
      omega
    · simp [bind, Option.bind] at hc

end NtpVerif.PtpWire
