/- Helper lemmas for the PTP wire codec model (core Lean only). -/
import NtpVerif.Model.PtpWire
namespace NtpVerif.PtpWire

theorem foldl_acc (bs : Bytes) (acc : Nat) :
    bs.foldl (fun acc b => acc * 256 + b.toNat) acc
      = acc * 256 ^ bs.length + bs.foldl (fun acc b => acc * 256 + b.toNat) 0 := by
  induction bs generalizing acc with
  | nil => simp
  | cons b bs ih =>
    simp only [List.foldl_cons, List.length_cons, Nat.pow_succ]
    rw [ih (acc * 256 + b.toNat), ih (0 * 256 + b.toNat)]
    grind

theorem beNat_cons (b : UInt8) (bs : Bytes) : beNat (b :: bs) = b.toNat * 256 ^ bs.length + beNat bs := by
  simp only [beNat, List.foldl_cons]
  rw [foldl_acc]; simp

theorem beNat_lt (bs : Bytes) : beNat bs < 256 ^ bs.length := by
  induction bs with
  | nil => simp [beNat]
  | cons b bs ih =>
    rw [beNat_cons]
    have := b.toNat_lt
    simp only [List.length_cons, Nat.pow_succ]
    have h1 : b.toNat * 256 ^ bs.length ≤ 255 * 256 ^ bs.length := Nat.mul_le_mul_right _ (by omega)
    omega

theorem beBytes_length (k n : Nat) : (beBytes k n).length = k := by
  induction k with
  | zero => rfl
  | succ k ih => simp [beBytes, ih]

theorem toNat_ofNat (n : Nat) : (UInt8.ofNat n).toNat = n % 256 := by
  simp

theorem ofNat_add_mul (a m : Nat) : UInt8.ofNat (a * 256 + m) = UInt8.ofNat m := by
  apply UInt8.toNat_inj.mp
  simp [Nat.add_mod]

theorem beNat_beBytes (k n : Nat) : beNat (beBytes k n) = n % 256 ^ k := by
  induction k with
  | zero => simp [beBytes, beNat, Nat.mod_one]
  | succ k ih =>
    rw [beBytes, beNat_cons, ih, beBytes_length, toNat_ofNat, Nat.pow_succ]
    have hp : 0 < 256 ^ k := Nat.pow_pos (by omega)
    rw [Nat.mod_mul, Nat.mul_comm]
    omega

theorem beBytes_add_mul (k a n : Nat) : beBytes k (a * 256 ^ k + n) = beBytes k n := by
  induction k generalizing a with
  | zero => rfl
  | succ k ih =>
    have hp : 0 < 256 ^ k := Nat.pow_pos (by omega)
    simp only [beBytes]
    have e : a * 256 ^ (k + 1) + n = (a * 256) * 256 ^ k + n := by rw [Nat.pow_succ]; grind
    rw [e, ih (a * 256)]
    congr 1
    rw [Nat.add_comm, Nat.add_mul_div_right _ _ hp, Nat.add_comm, ofNat_add_mul]

theorem beBytes_beNat (bs : Bytes) : beBytes bs.length (beNat bs) = bs := by
  induction bs with
  | nil => rfl
  | cons b bs ih =>
    simp only [List.length_cons, beBytes]
    rw [beNat_cons]
    have hlt := beNat_lt bs
    have hp : 0 < 256 ^ bs.length := Nat.pow_pos (by omega)
    congr 1
    · have : (b.toNat * 256 ^ bs.length + beNat bs) / 256 ^ bs.length = b.toNat := by
        rw [Nat.add_comm, Nat.add_mul_div_right _ _ hp, Nat.div_eq_of_lt hlt]; omega
      rw [this]; simp
    · rw [beBytes_add_mul, ih]

theorem beNat_beBytes_lt (k n : Nat) (h : n < 256 ^ k) : beNat (beBytes k n) = n := by
  rw [beNat_beBytes, Nat.mod_eq_of_lt h]

theorem toI64_ofI64 (x : Int) (h : -9223372036854775808 ≤ x ∧ x ≤ 9223372036854775807) :
    toI64 (ofI64 x) = x := by
  unfold toI64 ofI64
  split <;> omega

theorem ofI64_lt (x : Int) : ofI64 x < 256 ^ 8 := by
  unfold ofI64; omega

theorem bit_flags6 (a b c d e : Bool) :
    let n := (b2n a + 2 * b2n b + 4 * b2n c + 32 * b2n d + 64 * b2n e) % 256
    bit n 0 = a ∧ bit n 1 = b ∧ bit n 2 = c ∧ bit n 5 = d ∧ bit n 6 = e := by
  cases a <;> cases b <;> cases c <;> cases d <;> cases e <;> decide

theorem bit_flags7 (a b c d e f g : Bool) :
    let n := (b2n a + 2 * b2n b + 4 * b2n c + 8 * b2n d + 16 * b2n e + 32 * b2n f + 64 * b2n g) % 256
    bit n 0 = a ∧ bit n 1 = b ∧ bit n 2 = c ∧ bit n 3 = d ∧ bit n 4 = e ∧ bit n 5 = f ∧ bit n 6 = g := by
  cases a <;> cases b <;> cases c <;> cases d <;> cases e <;> cases f <;> cases g <;> decide

theorem be8 (x : Nat) : beNat [UInt8.ofNat (x / 256 ^ 7), UInt8.ofNat (x / 256 ^ 6), UInt8.ofNat (x / 256 ^ 5),
    UInt8.ofNat (x / 256 ^ 4), UInt8.ofNat (x / 256 ^ 3), UInt8.ofNat (x / 256 ^ 2), UInt8.ofNat (x / 256 ^ 1),
    UInt8.ofNat (x / 256 ^ 0)] = x % 256 ^ 8 := beNat_beBytes 8 x
theorem be6 (x : Nat) : beNat [UInt8.ofNat (x / 256 ^ 5),
    UInt8.ofNat (x / 256 ^ 4), UInt8.ofNat (x / 256 ^ 3), UInt8.ofNat (x / 256 ^ 2), UInt8.ofNat (x / 256 ^ 1),
    UInt8.ofNat (x / 256 ^ 0)] = x % 256 ^ 6 := beNat_beBytes 6 x
theorem be4 (x : Nat) : beNat [UInt8.ofNat (x / 256 ^ 3), UInt8.ofNat (x / 256 ^ 2), UInt8.ofNat (x / 256 ^ 1),
    UInt8.ofNat (x / 256 ^ 0)] = x % 256 ^ 4 := beNat_beBytes 4 x
theorem be2 (x : Nat) : beNat [UInt8.ofNat (x / 256 ^ 1), UInt8.ofNat (x / 256 ^ 0)] = x % 256 ^ 2 :=
  beNat_beBytes 2 x

theorem Header.deser_ser (h : Header) (ty n : Nat) (rest : Bytes) (hw : h.WF) (hty : validType ty = true)
    (hn : n + 34 < 2 ^ 16) :
    ∃ hb, h.serialize ty n = .ok hb ∧ hb.length = 34 ∧
      Header.deserialize (hb ++ rest) = .ok ⟨h, ty, n + 34⟩ := by
  obtain ⟨h1, h2, h3, h4, h5, ⟨h6, h7⟩, h8, h9⟩ := hw
  have hty16 : ty < 16 := by
    simp [validType] at hty; omega
  refine ⟨_, by simp only [Header.serialize]; rw [if_neg (by omega)], ?_, ?_⟩
  · simp [beBytes_length, PortIdentity.bytes]
  · simp only [beBytes, PortIdentity.bytes, List.cons_append, List.nil_append,
      Header.deserialize]
    have hv : validType ((UInt8.ofNat (h.sdoId / 256 % 16 * 16 + ty % 16)).toNat % 16) = true := by
      rw [toNat_ofNat]
      have : (h.sdoId / 256 % 16 * 16 + ty % 16) % 256 % 16 = ty := by omega
      rw [this]; exact hty
    rw [if_pos hv]
    simp only [be8, be2, toNat_ofNat]
    have f6 := bit_flags6 h.alternateMaster h.twoStep h.unicast h.profile1 h.profile2
    have f7 := bit_flags7 h.leap61 h.leap59 h.utcOffsetValid h.ptpTimescale h.timeTraceable h.freqTraceable h.syncUncertain
    simp only [] at f6 f7
    obtain ⟨a1, a2, a3, a4, a5⟩ := f6
    obtain ⟨c1, c2, c3, c4, c5, c6, c7⟩ := f7
    simp only [Header.flags6, Header.flags7, a1, a2, a3, a4, a5, c1, c2, c3, c4, c5, c6, c7]
    have e1 : (h.sdoId / 256 % 16 * 16 + ty % 16) % 256 / 16 * 256 + h.sdoId % 256 % 256 = h.sdoId := by omega
    have e2 : (h.minor % 16 * 16 + h.major % 16) % 256 % 16 = h.major := by omega
    have e3 : (h.minor % 16 * 16 + h.major % 16) % 256 / 16 = h.minor := by omega
    have e4 : (h.sdoId / 256 % 16 * 16 + ty % 16) % 256 % 16 = ty := by omega
    have e5 : toI64 (ofI64 h.correction % 256 ^ 8) = h.correction := by
      rw [Nat.mod_eq_of_lt (ofI64_lt _)]; exact toI64_ofI64 _ h5
    have e6 : h.source.clock % 256 ^ 8 = h.source.clock := Nat.mod_eq_of_lt (by omega)
    have e7 : h.source.port % 256 ^ 2 = h.source.port := Nat.mod_eq_of_lt (by omega)
    have e8 : h.seqId % 256 ^ 2 = h.seqId := Nat.mod_eq_of_lt (by omega)
    have e9 : (n + 34) % 256 ^ 2 = n + 34 := Nat.mod_eq_of_lt (by omega)
    have e10 : h.domain % 256 = h.domain := Nat.mod_eq_of_lt h4
    have e11 : h.logInterval % 256 = h.logInterval := Nat.mod_eq_of_lt h9
    rw [e1, e2, e3, e4, e5, e6, e7, e8, e9, e10, e11]

theorem Timestamp.deser_bytes (t : Timestamp) (rest : Bytes) (hw : t.WF) :
    Timestamp.deserialize (t.bytes ++ rest) = .ok t := by
  obtain ⟨h1, h2⟩ := hw
  simp only [Timestamp.bytes, beBytes, List.cons_append, List.nil_append, Timestamp.deserialize, be4, be6]
  rw [Nat.mod_eq_of_lt (show t.nanos < 256 ^ 4 by omega), Nat.mod_eq_of_lt (show t.seconds < 256 ^ 6 by omega)]
  rw [if_neg (by omega)]

theorem Timestamp.bytes_length (t : Timestamp) : t.bytes.length = 10 := by
  simp [Timestamp.bytes, beBytes_length]

theorem PortIdentity.deser_bytes (p : PortIdentity) (rest : Bytes) (hw : p.WF) :
    PortIdentity.deserialize (p.bytes ++ rest) = .ok p := by
  obtain ⟨h1, h2⟩ := hw
  simp only [PortIdentity.bytes, beBytes, List.cons_append, List.nil_append, PortIdentity.deserialize, be8, be2]
  rw [Nat.mod_eq_of_lt (show p.clock < 256 ^ 8 by omega), Nat.mod_eq_of_lt (show p.port < 256 ^ 2 by omega)]

theorem PortIdentity.bytes_length (p : PortIdentity) : p.bytes.length = 10 := by
  simp [PortIdentity.bytes, beBytes_length]

/-- wire bytes of one TLV -/
def Tlv.enc (t : Tlv) : Bytes := beBytes 2 t.type ++ beBytes 2 t.value.length ++ t.value
/-- wire bytes of a TLV list -/
def encTlvs : List Tlv → Bytes
  | [] => []
  | t :: ts => t.enc ++ encTlvs ts

def Tlv.WF (t : Tlv) : Prop := t.type < 2 ^ 16 ∧ t.value.length < 2 ^ 16

theorem Tlv.enc_cons (t : Tlv) (rest : Bytes) :
    t.enc ++ rest = UInt8.ofNat (t.type / 256 ^ 1) :: UInt8.ofNat (t.type / 256 ^ 0) ::
      UInt8.ofNat (t.value.length / 256 ^ 1) :: UInt8.ofNat (t.value.length / 256 ^ 0) :: (t.value ++ rest) := by
  simp [Tlv.enc, beBytes]

theorem tlvLoop_enc (ts : List Tlv) (fuel : Nat) (hw : ∀ t ∈ ts, t.value.length % 2 = 0 ∧ t.value.length < 2 ^ 16)
    (hf : ts.length < fuel) : tlvLoop fuel (encTlvs ts) = .ok () := by
  induction ts generalizing fuel with
  | nil =>
    cases fuel with
    | zero => omega
    | succ f => simp [encTlvs, tlvLoop]
  | cons t ts ih =>
    cases fuel with
    | zero => omega
    | succ f =>
      obtain ⟨he, hl⟩ := hw t (by simp)
      simp only [encTlvs, Tlv.enc_cons, tlvLoop, be2]
      rw [Nat.mod_eq_of_lt (show t.value.length < 256 ^ 2 by omega)]
      rw [if_neg (by omega), if_neg (by simp)]
      rw [List.drop_left]
      exact ih f (fun t' ht' => hw t' (by simp [ht'])) (by simp at hf; omega)

theorem Tlv.deser_enc (t : Tlv) (rest : Bytes) (hw : t.WF) : Tlv.deserialize (t.enc ++ rest) = .ok t := by
  obtain ⟨h1, h2⟩ := hw
  simp only [Tlv.enc_cons, Tlv.deserialize, be2]
  rw [Nat.mod_eq_of_lt (show t.value.length < 256 ^ 2 by omega), Nat.mod_eq_of_lt (show t.type < 256 ^ 2 by omega)]
  rw [if_neg (by simp), List.take_left]

theorem iterLoop_enc (ts : List Tlv) (fuel : Nat) (hw : ∀ t ∈ ts, t.WF)
    (hf : ts.length < fuel) : iterLoop fuel (encTlvs ts) = .ok ts := by
  induction ts generalizing fuel with
  | nil =>
    cases fuel with
    | zero => omega
    | succ f => simp [encTlvs, iterLoop]
  | cons t ts ih =>
    cases fuel with
    | zero => omega
    | succ f =>
      have hd := Tlv.deser_enc t (encTlvs ts) (hw t (by simp))
      have hdrop : (t.enc ++ encTlvs ts).drop t.wireSize = encTlvs ts := by
        have : t.enc.length = t.wireSize := by simp [Tlv.enc, beBytes_length, Tlv.wireSize]; omega
        rw [← this, List.drop_left]
      have hi := ih f (fun t' ht' => hw t' (by simp [ht'])) (by simp at hf; omega)
      rw [encTlvs]
      generalize hb : t.enc ++ encTlvs ts = b at hd hdrop
      rw [Tlv.enc_cons] at hb
      subst hb
      simp only [iterLoop]
      rw [hd]; simp only; rw [hdrop, hi]

/-- bodies made only of timestamps and port identities (everything but Announce and Management) -/
def Body.plain : Body → Bool
  | .announce _ => false | .management _ => false | _ => true

theorem tsPort_bytes (t : Timestamp) (p : PortIdentity) (rest : Bytes) (ht : t.WF) (hp : p.WF) :
    tsPort (t.bytes ++ (p.bytes ++ rest)) = .ok (t, p) := by
  have hl : ¬ (t.bytes ++ (p.bytes ++ rest)).length < 20 := by
    simp [Timestamp.bytes_length, PortIdentity.bytes_length]; omega
  have hd : (t.bytes ++ (p.bytes ++ rest)).drop 10 = p.bytes ++ rest := by
    rw [← Timestamp.bytes_length t, List.drop_left]
  unfold tsPort
  rw [if_neg hl, Timestamp.deser_bytes _ _ ht]
  simp only [bind, Except.bind]
  rw [hd, PortIdentity.deser_bytes _ _ hp]; rfl

theorem Body.deser_ser_plain (b : Body) (old rest bb : Bytes) (hw : b.WF) (hp : b.plain = true)
    (h : b.serialize old = .ok bb) :
    bb.length = b.wireSize ∧ Body.deserialize b.type (bb ++ rest) = .ok b := by
  cases b with
  | announce a => simp [Body.plain] at hp
  | management m => simp [Body.plain] at hp
  | sync t =>
    simp only [Body.serialize, Except.ok.injEq] at h; subst h
    simp [Body.deserialize, Body.type, Body.wireSize, Timestamp.bytes_length, Timestamp.deser_bytes _ _ hw, bind, Except.bind, pure, Except.pure]
  | delayReq t =>
    simp only [Body.serialize, Except.ok.injEq] at h; subst h
    simp [Body.deserialize, Body.type, Body.wireSize, Timestamp.bytes_length, Timestamp.deser_bytes _ _ hw, bind, Except.bind, pure, Except.pure]
  | followUp t =>
    simp only [Body.serialize, Except.ok.injEq] at h; subst h
    simp [Body.deserialize, Body.type, Body.wireSize, Timestamp.bytes_length, Timestamp.deser_bytes _ _ hw, bind, Except.bind, pure, Except.pure]
  | pDelayReq t =>
    simp only [Body.serialize, Except.ok.injEq] at h; subst h
    simp [Body.deserialize, Body.type, Body.wireSize, Timestamp.bytes_length, Timestamp.deser_bytes _ _ hw, bind, Except.bind, pure, Except.pure]
    omega
  | signaling p =>
    simp only [Body.serialize, Except.ok.injEq] at h; subst h
    simp [Body.deserialize, Body.type, Body.wireSize, PortIdentity.bytes_length, PortIdentity.deser_bytes _ _ hw, bind, Except.bind, pure, Except.pure]
  | pDelayResp t p =>
    simp only [Body.serialize, Except.ok.injEq] at h; subst h
    simp [Body.deserialize, Body.type, Body.wireSize, Timestamp.bytes_length, PortIdentity.bytes_length, tsPort_bytes _ _ _ hw.1 hw.2, bind, Except.bind, pure, Except.pure]
  | delayResp t p =>
    simp only [Body.serialize, Except.ok.injEq] at h; subst h
    simp [Body.deserialize, Body.type, Body.wireSize, Timestamp.bytes_length, PortIdentity.bytes_length, tsPort_bytes _ _ _ hw.1 hw.2, bind, Except.bind, pure, Except.pure]
  | pDelayRespFollowUp t p =>
    simp only [Body.serialize, Except.ok.injEq] at h; subst h
    simp [Body.deserialize, Body.type, Body.wireSize, Timestamp.bytes_length, PortIdentity.bytes_length, tsPort_bytes _ _ _ hw.1 hw.2, bind, Except.bind, pure, Except.pure]

theorem Body.type_valid (b : Body) : validType b.type = true := by
  cases b <;> simp [Body.type, validType]

theorem Header.deser_ser' (h : Header) (ty n : Nat) (hb : Bytes) (hw : h.WF) (hty : validType ty = true)
    (hs : h.serialize ty n = .ok hb) :
    n + 34 < 2 ^ 16 ∧ hb.length = 34 ∧ ∀ rest, Header.deserialize (hb ++ rest) = .ok ⟨h, ty, n + 34⟩ := by
  by_cases hn : n + 34 < 2 ^ 16
  · refine ⟨hn, ?_, ?_⟩
    · obtain ⟨hb', h1, h2, _⟩ := Header.deser_ser h ty n [] hw hty hn
      rw [hs] at h1; cases h1; exact h2
    · intro rest
      obtain ⟨hb', h1, _, h3⟩ := Header.deser_ser h ty n rest hw hty hn
      rw [hs] at h1; cases h1; exact h3
  · unfold Header.serialize at hs
    rw [if_pos (by omega)] at hs; cases hs

theorem Message.deser_ser (m : Message) (buf out extra : Bytes) (hw : m.WF) (hp : m.body.plain = true)
    (hs : TlvSet.deserialize m.suffix = .ok m.suffix) (h : m.serialize buf = .ok out) :
    Message.deserialize (out ++ extra) = .ok m := by
  obtain ⟨hwh, hwb⟩ := hw
  unfold Message.serialize at h
  split at h; · cases h
  split at h; · cases h
  unfold TlvSet.wireSize at h
  split at h; · cases h
  simp only [bind, Except.bind] at h
  cases hhs : m.header.serialize m.body.type (m.body.wireSize + m.suffix.length) with
  | error e => rw [hhs] at h; cases h
  | ok hb =>
    rw [hhs] at h
    obtain ⟨hn, hlen, hdes⟩ := Header.deser_ser' _ _ _ _ hwh (Body.type_valid _) hhs
    simp only at h
    cases hbs : m.body.serialize ((buf.drop 34).take m.body.wireSize) with
    | error e => rw [hbs] at h; cases h
    | ok bb =>
      rw [hbs] at h
      simp only at h
      split at h; · cases h
      simp only [pure, Except.pure, Except.ok.injEq] at h
      subst h
      obtain ⟨hbl, hbd⟩ := Body.deser_ser_plain m.body _ (m.suffix) bb hwb hp hbs
      unfold Message.deserialize
      have e1 : hb ++ bb ++ m.suffix ++ extra = hb ++ (bb ++ m.suffix ++ extra) := by simp
      rw [e1, hdes]
      simp only [bind, Except.bind]
      rw [if_neg (by omega)]
      have hl : (hb ++ (bb ++ m.suffix ++ extra)).length = m.body.wireSize + m.suffix.length + 34 + extra.length := by
        simp [hlen, hbl]; omega
      rw [if_neg (by rw [hl]; omega)]
      have hc : ((hb ++ (bb ++ m.suffix ++ extra)).take (m.body.wireSize + m.suffix.length + 34)).drop 34
          = bb ++ m.suffix := by
        have : hb ++ (bb ++ m.suffix ++ extra) = (hb ++ bb ++ m.suffix) ++ extra := by simp
        rw [this]
        have hl2 : (hb ++ bb ++ m.suffix).length = m.body.wireSize + m.suffix.length + 34 := by
          simp [hlen, hbl]; omega
        rw [← hl2, List.take_left]
        rw [List.append_assoc, ← hlen, List.drop_left]
      simp only [hc, hbd]
      rw [if_neg (by simp [hbl])]
      rw [← hbl, List.drop_left, hs]
      rfl

theorem toI64_range (n : Nat) (h : n < 256 ^ 8) :
    -9223372036854775808 ≤ toI64 n ∧ toI64 n ≤ 9223372036854775807 := by
  unfold toI64; split <;> omega

theorem Header.deserialize_WF (b : Bytes) (dh : DeserializedHeader) (h : Header.deserialize b = .ok dh) :
    dh.header.WF ∧ validType dh.messageType = true := by
  unfold Header.deserialize at h
  split at h
  · rename_i b0 b1 _ _ _ b5 _ _ _ _ _ _ _ _ _ _ _ _ _ _ _ _ _ _ _ _ _ _ _ _ _ _ _ _ _
    simp only [] at h
    split at h
    · rename_i hv
      cases h
      have := b0.toNat_lt; have := b5.toNat_lt; have := b1.toNat_lt
      refine ⟨⟨?_, ?_, ?_, ?_, ?_, ⟨?_, ?_⟩, ?_, ?_⟩, hv⟩ <;> simp only []
      · omega
      · omega
      · omega
      · exact UInt8.toNat_lt _
      · exact toI64_range _ (beNat_lt _)
      · exact Nat.lt_of_lt_of_le (beNat_lt _) (by simp)
      · exact Nat.lt_of_lt_of_le (beNat_lt _) (by simp)
      · exact Nat.lt_of_lt_of_le (beNat_lt _) (by simp)
      · exact UInt8.toNat_lt _
    · cases h
  · cases h

end NtpVerif.PtpWire
