/- Helper lemmas for C13: the ring buffer refines the bounded FIFO queue (one step). -/
import NtpVerif.Model.CookieStash

namespace NtpVerif.CookieStash

theorem wf_init : WF init := by decide

theorem abs_init : abs init = [] := by decide

/-- a well-formed stash is `[c0..c7]` with `read, valid` small: expose that for case analysis -/
theorem wf_cases (s : Stash) (h : WF s) :
    ∃ c0 c1 c2 c3 c4 c5 c6 c7 r v, s = ⟨[c0,c1,c2,c3,c4,c5,c6,c7], r, v⟩ ∧ r < 8 ∧ v ≤ 8 := by
  obtain ⟨cs, r, v⟩ := s
  obtain ⟨hl, hr, hv⟩ := h
  simp only at hl hr hv
  match cs, hl with
  | [c0,c1,c2,c3,c4,c5,c6,c7], _ => exact ⟨c0,c1,c2,c3,c4,c5,c6,c7,r,v,rfl,hr,hv⟩

theorem wf_store (s : Stash) (c : Cookie) (h : WF s) : WF (store s c) := by
  obtain ⟨hl, hr, hv⟩ := h
  have hm : (s.read + 1) % 8 < 8 := Nat.mod_lt _ (by omega)
  simp only [store, WF, hl]
  split <;> simp only [List.length_set] <;> omega

theorem wf_get (s : Stash) (h : WF s) : WF (get s).1 := by
  obtain ⟨hl, hr, hv⟩ := h
  unfold get
  split
  · exact ⟨hl, hr, hv⟩
  · split
    · exact ⟨hl, hr, hv⟩
    · simp only [WF, List.length_set]
      rw [hl]; exact ⟨rfl, Nat.mod_lt _ (by omega), by omega⟩

theorem abs_store (s : Stash) (c : Cookie) (h : WF s) :
    abs (store s c) = Spec.store (abs s) c := by
  obtain ⟨c0,c1,c2,c3,c4,c5,c6,c7,r,v,rfl,hr,hv⟩ := wf_cases s h
  have hr' : r = 0 ∨ r = 1 ∨ r = 2 ∨ r = 3 ∨ r = 4 ∨ r = 5 ∨ r = 6 ∨ r = 7 := by omega
  have hv' : v = 0 ∨ v = 1 ∨ v = 2 ∨ v = 3 ∨ v = 4 ∨ v = 5 ∨ v = 6 ∨ v = 7 ∨ v = 8 := by omega
  rcases hr' with rfl|rfl|rfl|rfl|rfl|rfl|rfl|rfl <;>
  rcases hv' with rfl|rfl|rfl|rfl|rfl|rfl|rfl|rfl|rfl <;>
    simp [abs, store, Spec.store, Spec.cap, List.range_succ]

theorem abs_get (s : Stash) (h : WF s) :
    abs (get s).1 = (Spec.get (abs s)).1 ∧
    (get s).2 = (match (Spec.get (abs s)).2 with | none => Out.none | some c => Out.some c) := by
  obtain ⟨c0,c1,c2,c3,c4,c5,c6,c7,r,v,rfl,hr,hv⟩ := wf_cases s h
  have hr' : r = 0 ∨ r = 1 ∨ r = 2 ∨ r = 3 ∨ r = 4 ∨ r = 5 ∨ r = 6 ∨ r = 7 := by omega
  have hv' : v = 0 ∨ v = 1 ∨ v = 2 ∨ v = 3 ∨ v = 4 ∨ v = 5 ∨ v = 6 ∨ v = 7 ∨ v = 8 := by omega
  rcases hr' with rfl|rfl|rfl|rfl|rfl|rfl|rfl|rfl <;>
  rcases hv' with rfl|rfl|rfl|rfl|rfl|rfl|rfl|rfl|rfl <;>
    simp [abs, get, Spec.get, List.range_succ]

theorem abs_length (s : Stash) : (abs s).length = s.valid := by
  simp [abs]

theorem gap_eq (s : Stash) (h : WF s) : gap s = some (Spec.gap (abs s)) := by
  obtain ⟨hl, hr, hv⟩ := h
  unfold gap Spec.gap Spec.cap
  rw [abs_length, hl]
  simp only [hv, if_true]
  congr 1; omega

theorem storeChecked_eq (s : Stash) (c : Cookie) (h : WF s) : storeChecked s c = some (store s c) := by
  obtain ⟨hl, hr, hv⟩ := h
  unfold storeChecked
  rw [hl]
  have : (s.read + s.valid) % 8 < 8 := Nat.mod_lt _ (by omega)
  simp [this]
  omega

end NtpVerif.CookieStash
