/- Helper lemmas for `NtpVerif.Model.Time` (C05, C32).  Core Lean only. -/
import NtpVerif.Model.Time

namespace NtpVerif.Time
open NtpVerif.Wrap

/-! ### truncating division by literals -/

theorem tdiv2 (x : Int) : Int.tdiv x 2 = if 0 ≤ x then x / 2 else -((-x) / 2) := by
  split
  · exact Int.tdiv_eq_ediv_of_nonneg (by assumption)
  · rw [Int.tdiv_eq_ediv]; simp only [Int.sign]; omega

theorem tdiv2_inI64 (x : Int) (h : inI64 x) : inI64 (Int.tdiv x 2) := by
  rw [tdiv2]; unfold inI64 I64_MIN I64_MAX at *; split <;> omega

/-! ### timestamps -/

/-- the wrapped difference of two wire timestamps is the true difference whenever that fits `i64` -/
theorem tsSub_wire (a b : Int) (h : inI64 (a - b)) : tsSub (wrapU64 a) (wrapU64 b) = a - b := by
  unfold tsSub wrapS64 wrapU64; unfold inI64 I64_MIN I64_MAX at h; simp only; split <;> omega

theorem tsSub_in (a b : Int) : inI64 (tsSub a b) := wrapS64_in _

theorem durDiv2 (x : Int) (h : inI64 x) : durDiv x 2 = some (Int.tdiv x 2) := by
  unfold durDiv; simp only [show (2 : Int) ≠ 0 by decide, if_false]
  rw [satI64_id _ (tdiv2_inI64 x h)]

/-! ### the two-way state machine -/

/-- state after a list of measurements -/
def stateAfter : Option Meas → List Meas → Option Meas
  | s, [] => s
  | s, m :: ms => stateAfter (twoWayStep s m).1 ms

theorem runTwoWay_append (s : Option Meas) (xs ys : List Meas) :
    runTwoWay s (xs ++ ys) = runTwoWay s xs ++ runTwoWay (stateAfter s xs) ys := by
  induction xs generalizing s with
  | nil => rfl
  | cons m ms ih => simp only [List.cons_append, runTwoWay, stateAfter, ih]

theorem runTwoWay_length (s : Option Meas) (xs : List Meas) : (runTwoWay s xs).length = xs.length := by
  induction xs generalizing s with
  | nil => rfl
  | cons m ms ih => simp only [runTwoWay, List.length_cons, ih]

theorem twoWayOffset_isSome (t1 t2 t3 t4 : Int) : (twoWayOffset t1 t2 t3 t4).isSome = true := by
  unfold twoWayOffset durDiv; simp

theorem twoWayStep_ne_panic (s : Option Meas) (m : Meas) : (twoWayStep s m).2 ≠ .panic := by
  unfold twoWayStep
  split
  · simp
  · cases s with
    | none => simp
    | some o =>
      simp only
      have h := twoWayOffset_isSome o.senderTs o.receiverTs m.senderTs m.receiverTs
      cases hh : twoWayOffset o.senderTs o.receiverTs m.senderTs m.receiverTs with
      | none => rw [hh] at h; cases h
      | some off => simp


/-! ### C32: saturation, wrapping, conversions -/

/-- what "saturating" means -/
theorem satI64_spec (x : Int) :
    inI64 (satI64 x) ∧ (inI64 x → satI64 x = x) ∧ (x > I64_MAX → satI64 x = I64_MAX) ∧
      (x < I64_MIN → satI64 x = I64_MIN) := by
  refine ⟨satI64_in x, satI64_id x, ?_, ?_⟩ <;>
    (unfold satI64 clampInt I64_MIN I64_MAX; intro h; repeat' split) <;> omega

theorem satI128_spec (x : Int) :
    inI128 (satI128 x) ∧ (inI128 x → satI128 x = x) ∧ (x > I128_MAX → satI128 x = I128_MAX) ∧
      (x < I128_MIN → satI128 x = I128_MIN) := by
  unfold inI128
  refine ⟨?_, ?_, ?_, ?_⟩ <;>
    (unfold satI128 clampInt I128_MIN I128_MAX; try intro h) <;> (repeat' split) <;> omega

/-- truncating division never grows the magnitude -/
theorem tdiv_bounds (d k : Int) : -(d.natAbs : Int) ≤ Int.tdiv d k ∧ Int.tdiv d k ≤ (d.natAbs : Int) := by
  have h := Int.natAbs_tdiv_le_natAbs d k
  omega

/-- `(i << 32) | frac` is `i·2³² + frac` when `i` fits `i32` and `0 ≤ frac < 2³²` -/
theorem or_shl32 (ii frac : Int) (hi : I32_MIN ≤ ii ∧ ii ≤ I32_MAX) (hf : 0 ≤ frac ∧ frac ≤ U32_MAX) :
    orI64 (shl32 ii) frac = ii * 4294967296 + frac := by
  unfold I32_MIN I32_MAX U32_MAX at *
  unfold orI64 shl32
  have h1 : wrapS64 (ii * 4294967296) = ii * 4294967296 := by
    apply wrapS64_id; unfold inI64 I64_MIN I64_MAX; omega
  rw [h1]
  have h2 : (wrapU64 (ii * 4294967296)).toNat = ((ii % 4294967296).toNat) <<< 32 := by
    unfold wrapU64; rw [Nat.shiftLeft_eq]; omega
  have h3 : (wrapU64 frac).toNat = frac.toNat := by unfold wrapU64; omega
  rw [h2, h3, ← Nat.shiftLeft_add_eq_or_of_lt (by omega)]
  rw [Nat.shiftLeft_eq]
  have hn : Int.ofNat ((ii % 4294967296).toNat * 2 ^ 32 + frac.toNat)
      = (ii % 4294967296) * 4294967296 + frac := by
    simp only [Int.ofNat_eq_natCast]; omega
  rw [hn]
  unfold wrapS64; simp only; split <;> omega

/-- the integer core of `from_seconds`, in closed form -/
theorem fromSecondsInt_eq (ii frac : Int) (hf : 0 ≤ frac ∧ frac ≤ U32_MAX) :
    fromSecondsInt ii frac =
      some (if ii < I32_MIN then I64_MIN else if ii > I32_MAX then I64_MAX else ii * 4294967296 + frac) := by
  unfold fromSecondsInt
  by_cases hq : I32_MIN ≤ ii ∧ ii ≤ I32_MAX
  · rw [if_pos hq, or_shl32 _ _ hq hf]
    unfold I32_MIN I32_MAX at hq ⊢
    rw [if_neg (by omega), if_neg (by omega)]
  · rw [if_neg hq]
    unfold I32_MIN I32_MAX at hq ⊢
    by_cases h1 : ii < -2147483648
    · rw [if_pos h1, if_pos h1]
    · rw [if_neg h1, if_neg h1, if_pos (by omega), if_pos (by omega)]


/-- the truncated quotient of an `i64` fits `i64` except for `i64::MIN / -1` -/
theorem tdiv_inI64 (d k : Int) (hd : inI64 d) (hk : k ≠ 0) (hw : ¬ (d = I64_MIN ∧ k = -1)) :
    inI64 (Int.tdiv d k) := by
  have hb := tdiv_bounds d k
  unfold inI64 I64_MIN I64_MAX at *
  by_cases hmin : d = -9223372036854775808
  · by_cases hq : Int.tdiv d k = 9223372036854775808
    · exfalso
      have h1 := Int.mul_tdiv_add_tmod d k
      have h2 := Int.natAbs_tmod d k
      have h3 : d.natAbs % k.natAbs < k.natAbs := Nat.mod_lt _ (by omega)
      rw [hq] at h1
      omega
    · omega
  · omega

theorem tdiv_inI128 (d k : Int) (hd : inI128 d) (hk : k ≠ 0) (hw : ¬ (d = I128_MIN ∧ k = -1)) :
    inI128 (Int.tdiv d k) := by
  have hb := tdiv_bounds d k
  unfold inI128 I128_MIN I128_MAX at *
  by_cases hmin : d = -170141183460469231731687303715884105728
  · by_cases hq : Int.tdiv d k = 170141183460469231731687303715884105728
    · exfalso
      have h1 := Int.mul_tdiv_add_tmod d k
      have h2 := Int.natAbs_tmod d k
      have h3 : d.natAbs % k.natAbs < k.natAbs := Nat.mod_lt _ (by omega)
      rw [hq] at h1
      omega
    · omega
  · omega

theorem pow2_bounds (n m : Nat) (h : n ≤ m) : (1 : Int) ≤ 2 ^ n ∧ (2 : Int) ^ n ≤ 2 ^ m := by
  constructor
  · have := @Int.pow_pos 2 n (by decide); omega
  · have h1 : (2 : Nat) ^ n ≤ 2 ^ m := Nat.pow_le_pow_right (by decide) h
    have e1 : ((2 : Nat) ^ n : Nat) = ((2 : Int) ^ n) := by push_cast; rfl
    have e2 : ((2 : Nat) ^ m : Nat) = ((2 : Int) ^ m) := by push_cast; rfl
    omega

end NtpVerif.Time
