/- C43: the sweep of `find_external_consensus_window` never underflows its overlap counter and ends with
   `maxlow = maxhigh` when every window has `low ≤ high` in the sort order. -/
import NtpVerif.Proofs.PtpFilter

set_option linter.unusedSimpArgs false
set_option linter.unusedVariables false

namespace NtpVerif.PtpFilter
open NtpVerif.Estimator NtpVerif.PtpCtrl

theorem boundLe_iff (a b : Bound) : boundLe a b = true ↔
    a.1.totalKey < b.1.totalKey ∨ (a.1.totalKey = b.1.totalKey ∧ (a.2 = false ∨ b.2 = true)) := by
  unfold boundLe
  cases ha : a.2 <;> cases hb : b.2 <;> simp [ha, hb]

theorem boundLe_trans (a b c : Bound) (h1 : boundLe a b = true) (h2 : boundLe b c = true) :
    boundLe a c = true := by
  rw [boundLe_iff] at *
  cases ha : a.2 <;> cases hb : b.2 <;> cases hc : c.2 <;> simp [ha, hb, hc] at h1 h2 ⊢ <;> omega

theorem boundLe_total (a b : Bound) : (boundLe a b || boundLe b a) = true := by
  rw [Bool.or_eq_true, boundLe_iff, boundLe_iff]
  cases ha : a.2 <;> cases hb : b.2 <;> simp [ha, hb] <;> omega

theorem boundLe_refl (a : Bound) : boundLe a a = true := by
  have := boundLe_total a a
  simpa using this

/-- a Start that precedes an End which precedes (or is) the End `e` lies strictly before `e` -/
theorem start_strictly_before (s ei e : Bound) (hs : s.2 = false) (he : e.2 = true)
    (h1 : boundLe s ei = true) (h2 : boundLe ei e = true) : boundLe e s = false := by
  have h3 := boundLe_trans s ei e h1 h2
  rw [boundLe_iff] at h3
  cases hx : boundLe e s with
  | false => rfl
  | true =>
    rw [boundLe_iff] at hx
    simp [hs, he] at hx h3
    omega

def ends (bs : List Bound) : Nat := bs.countP fun b => b.2

/-- no End is reached with the counter at zero -/
def SweepSafe (cur : Nat) (l : List Bound) : Prop :=
  ∀ p e r, l = p ++ e :: r → e.2 = true → ends p + 1 ≤ cur + starts p

/-- invariant of the two running maxima -/
def SweepInv (s : Sweep) : Prop :=
  s.maxhigh ≤ s.maxlow ∧ s.cur ≤ s.maxlow ∧ (s.maxhigh < s.maxlow → s.cur = s.maxlow)

theorem sweep_safe : ∀ (l : List Bound) (s : Sweep), SweepSafe s.cur l → SweepInv s →
    ∃ s', sweep s l = some s' ∧ SweepInv s' ∧ s'.cur + ends l = s.cur + starts l
  | [], s, _, hi => ⟨s, rfl, hi, by simp [ends, starts]⟩
  | b :: rest, s, hsafe, hi => by
    obtain ⟨i1, i2, i3⟩ := hi
    cases hb : b.2 with
    | false =>
      -- Start
      have hst : starts (b :: rest) = starts rest + 1 := by simp [starts, List.countP_cons, hb]
      have hen : ends (b :: rest) = ends rest := by simp [ends, List.countP_cons, hb]
      have hsafe' : ∀ cur', cur' = s.cur + 1 → SweepSafe cur' rest := by
        intro cur' hc p e r hl he
        have := hsafe (b :: p) e r (by rw [hl]; rfl) he
        have e1 : starts (b :: p) = starts p + 1 := by simp [starts, List.countP_cons, hb]
        have e2 : ends (b :: p) = ends p := by simp [ends, List.countP_cons, hb]
        omega
      by_cases hgt : s.cur + 1 > s.maxlow
      · obtain ⟨s', h1, h2, h3⟩ := sweep_safe rest { s with cur := s.cur + 1, maxlow := s.cur + 1, lo := b.1 }
          (hsafe' _ rfl) ⟨by simp only; omega, by simp only; omega, by intro _; rfl⟩
        refine ⟨s', ?_, h2, ?_⟩
        · simp only [sweep, sweepStep, hb, Bool.not_false, if_true, hgt, Option.bind_some]
          exact h1
        · simp only at h3; omega
      · obtain ⟨s', h1, h2, h3⟩ := sweep_safe rest { s with cur := s.cur + 1 }
          (hsafe' _ rfl) ⟨i1, by simp only; omega, by intro h; have := i3 h; simp only; omega⟩
        refine ⟨s', ?_, h2, ?_⟩
        · simp only [sweep, sweepStep, hb, Bool.not_false, if_true, hgt, if_false, Option.bind_some]
          exact h1
        · simp only at h3; omega
    | true =>
      -- End
      have hst : starts (b :: rest) = starts rest := by simp [starts, List.countP_cons, hb]
      have hen : ends (b :: rest) = ends rest + 1 := by simp [ends, List.countP_cons, hb]
      have hpos : 1 ≤ s.cur := by
        have := hsafe [] b rest rfl hb
        simp [ends, starts] at this
        omega
      have hsafe' : SweepSafe (s.cur - 1) rest := by
        intro p e r hl he
        have := hsafe (b :: p) e r (by rw [hl]; rfl) he
        have e1 : starts (b :: p) = starts p := by simp [starts, List.countP_cons, hb]
        have e2 : ends (b :: p) = ends p + 1 := by simp [ends, List.countP_cons, hb]
        omega
      by_cases hgt : s.cur > s.maxhigh
      · obtain ⟨s', h1, h2, h3⟩ := sweep_safe rest { s with maxhigh := s.cur, hi := b.1, cur := s.cur - 1 }
          hsafe' ⟨by simp only; omega, by simp only; omega, by simp only; intro h; omega⟩
        refine ⟨s', ?_, h2, ?_⟩
        · have hz : ¬ (s.cur = 0) := by omega
          simp only [sweep, sweepStep, hb, Bool.not_true, Bool.false_eq_true, if_false, hgt, if_true, hz,
            Option.bind_some]
          exact h1
        · simp only at h3; omega
      · obtain ⟨s', h1, h2, h3⟩ := sweep_safe rest { s with cur := s.cur - 1 }
          hsafe' ⟨i1, by simp only; omega, by simp only; intro h; have := i3 h; omega⟩
        refine ⟨s', ?_, h2, ?_⟩
        · have hz : ¬ (s.cur = 0) := by omega
          simp only [sweep, sweepStep, hb, Bool.not_true, Bool.false_eq_true, if_false, hgt, hz,
            Option.bind_some]
          exact h1
        · simp only at h3; omega

/-! ### the bounds of windows with `low ≤ high` -/

def boundsW (wl : List Window) : List Bound := wl.flatMap fun w => [(w.low, false), (w.high, true)]

theorem boundsOf_eq (ws : List (Option Window)) : boundsOf ws = boundsW (ws.filterMap id) := rfl

theorem ends_boundsW (wl : List Window) : ends (boundsW wl) = wl.length := by
  unfold boundsW ends
  induction wl with
  | nil => rfl
  | cons w rest ih =>
    simp only [List.flatMap_cons, List.countP_append, List.length_cons]
    rw [ih]
    simp [List.countP_cons]
    omega

theorem starts_boundsW (wl : List Window) : starts (boundsW wl) = wl.length := by
  unfold boundsW starts
  induction wl with
  | nil => rfl
  | cons w rest ih =>
    simp only [List.flatMap_cons, List.countP_append, List.length_cons]
    rw [ih]
    simp [List.countP_cons]
    omega

theorem count_windows (wl : List Window)
    (hord : ∀ w ∈ wl, boundLe (w.low, false) (w.high, true) = true) (e : Bound) (he : e.2 = true) :
    (boundsW wl).countP (fun b => b.2 && boundLe b e) ≤
      (boundsW wl).countP (fun b => !b.2 && !boundLe e b) := by
  unfold boundsW
  induction wl with
  | nil => simp
  | cons w rest ih =>
    have ih := ih (fun x hx => hord x (List.mem_cons_of_mem _ hx))
    have hw := hord w List.mem_cons_self
    simp only [List.flatMap_cons, List.countP_append]
    have : List.countP (fun b : Bound => b.2 && boundLe b e) [(w.low, false), (w.high, true)] ≤
        List.countP (fun b : Bound => !b.2 && !boundLe e b) [(w.low, false), (w.high, true)] := by
      simp only [List.countP_cons, List.countP_nil, Bool.false_and, Bool.true_and, Bool.not_false,
        Bool.not_true, Bool.false_eq_true, if_false, Nat.zero_add]
      cases hx : boundLe (w.high, true) e with
      | false => simp
      | true =>
        have := start_strictly_before (w.low, false) (w.high, true) e rfl he hw hx
        simp [this]
    omega

theorem sorted_bounds_safe (wl : List Window)
    (hord : ∀ w ∈ wl, boundLe (w.low, false) (w.high, true) = true) :
    SweepSafe 0 ((boundsW wl).mergeSort boundLe) := by
  intro p e r hl he
  have hsorted := List.pairwise_mergeSort (le := boundLe) boundLe_trans boundLe_total (boundsW wl)
  have hperm := List.mergeSort_perm (boundsW wl) boundLe
  rw [hl] at hsorted hperm
  rw [List.pairwise_append] at hsorted
  obtain ⟨_, hs2, hs3⟩ := hsorted
  rw [List.pairwise_cons] at hs2
  -- ends in the prefix are ends ≤ e
  have hA : ends p + 1 ≤ (p ++ e :: r).countP (fun b => b.2 && boundLe b e) := by
    rw [List.countP_append, List.countP_cons]
    have h1 : List.countP (fun b : Bound => b.2 && boundLe b e) p = ends p := by
      unfold ends
      apply List.countP_congr
      intro x hx
      have := hs3 x hx e List.mem_cons_self
      simp [this]
    have h2 : (e.2 && boundLe e e) = true := by simp [he, boundLe_refl]
    rw [h1]
    simp only [h2, if_true]
    omega
  -- starts strictly before e all lie in the prefix
  have hB : (p ++ e :: r).countP (fun b => !b.2 && !boundLe e b) ≤ starts p := by
    rw [List.countP_append, List.countP_cons]
    have h1 : List.countP (fun b : Bound => !b.2 && !boundLe e b) p ≤ starts p := by
      unfold starts
      apply List.countP_mono_left
      intro x _ hx
      simp only [Bool.and_eq_true] at hx
      exact hx.1
    have h2 : List.countP (fun b : Bound => !b.2 && !boundLe e b) r = 0 := by
      rw [List.countP_eq_zero]
      intro x hx
      have := hs2.1 x hx
      simp [this]
    have h3 : (!e.2 && !boundLe e e) = false := by simp [he]
    rw [h2]
    simp only [h3, Bool.false_eq_true, if_false]
    omega
  have hC := count_windows wl hord e he
  rw [← hperm.countP_eq, ← hperm.countP_eq] at hC
  omega

theorem consensusOf_total (cfg : Cfg) (ws : List (Option Window))
    (hord : ∀ w ∈ ws.filterMap id, boundLe (w.low, false) (w.high, true) = true) :
    ∃ r, consensusOf cfg (boundsOf ws) = .ok r := by
  rw [boundsOf_eq]
  have hsafe := sorted_bounds_safe (ws.filterMap id) hord
  have h0 : ({} : Sweep).cur = 0 := rfl
  obtain ⟨s', h1, h2, h3⟩ := sweep_safe _ ({} : Sweep) (by rw [h0]; exact hsafe)
    ⟨Nat.le_refl _, Nat.le_refl _, fun h => absurd h (Nat.lt_irrefl _)⟩
  have hperm := List.mergeSort_perm (boundsW (ws.filterMap id)) boundLe
  have e1 : starts ((boundsW (ws.filterMap id)).mergeSort boundLe) = (ws.filterMap id).length := by
    unfold starts; rw [hperm.countP_eq]; exact starts_boundsW _
  have e2 : ends ((boundsW (ws.filterMap id)).mergeSort boundLe) = (ws.filterMap id).length := by
    unfold ends; rw [hperm.countP_eq]; exact ends_boundsW _
  rw [e1, e2, h0] at h3
  have hcur : s'.cur = 0 := by omega
  obtain ⟨i1, i2, i3⟩ := h2
  have heq : s'.maxlow = s'.maxhigh := by
    rcases Nat.lt_or_ge s'.maxhigh s'.maxlow with hlt | hge
    · have := i3 hlt; omega
    · omega
  unfold consensusOf
  rw [h1]
  simp only [heq, ne_eq, not_true_eq_false, if_false]
  split <;> exact ⟨_, rfl⟩

end NtpVerif.PtpFilter
