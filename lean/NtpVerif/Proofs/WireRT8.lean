/-
Helper lemmas for C24, eighth part: headers.  The v3/v4 header codec looks at the first 48 bytes only; the v5
header codec is a retraction on decoded headers (decode ∘ encode = id, including the leap-indicator rewrite).
-/
import NtpVerif.Proofs.WireRT7

namespace NtpVerif.Wire

/-! ### slices of a prefix -/

theorem sliceP_append_left {x y : Bytes} {a b : Nat} (hb : b ≤ x.length) :
    sliceP (x ++ y) a b = sliceP x a b := by
  by_cases hab : a ≤ b
  · rw [sliceP_of_le hab (by rw [List.length_append]; omega), sliceP_of_le hab hb]
    congr 1
    rw [List.drop_append_of_le_length (by omega), List.take_append_of_le_length (by rw [List.length_drop]; omega)]
  · unfold sliceP slice?
    have h1 : ¬ (a ≤ b ∧ b ≤ (x ++ y).length) := fun h => hab h.1
    have h2 : ¬ (a ≤ b ∧ b ≤ x.length) := fun h => hab h.1
    simp only [h1, h2, if_false]

theorem idxP_append_left {x y : Bytes} {i : Nat} (h : i < x.length) : idxP (x ++ y) i = idxP x i := by
  unfold idxP
  rw [List.getElem?_append_left h]

theorem headerV34_prefix (x y : Bytes) (hx : x.length = 48) :
    HeaderV34.deserialize (x ++ y) = HeaderV34.deserialize x := by
  have hc : Gen.HEADER_V3V4_WIRE_LENGTH = 48 := rfl
  have c1 : ¬ (x ++ y).length < 48 := by rw [List.length_append]; omega
  have c2 : ¬ x.length < 48 := by omega
  unfold HeaderV34.deserialize
  rw [hc]
  simp only [c1, c2, if_false]
  rw [idxP_append_left (y := y) (show 0 < x.length by omega), idxP_append_left (y := y) (show 1 < x.length by omega),
    idxP_append_left (y := y) (show 2 < x.length by omega), idxP_append_left (y := y) (show 3 < x.length by omega),
    sliceP_append_left (y := y) (a := 4) (show 8 ≤ x.length by omega),
    sliceP_append_left (y := y) (a := 8) (show 12 ≤ x.length by omega),
    sliceP_append_left (y := y) (a := 12) (show 16 ≤ x.length by omega),
    sliceP_append_left (y := y) (a := 16) (show 24 ≤ x.length by omega),
    sliceP_append_left (y := y) (a := 24) (show 32 ≤ x.length by omega),
    sliceP_append_left (y := y) (a := 32) (show 40 ≤ x.length by omega),
    sliceP_append_left (y := y) (a := 40) (show 48 ≤ x.length by omega)]

/-- the v3/v4 header decoder reads the first 48 bytes only -/
theorem headerV34_of_take {data : Bytes} {h : HeaderV34} {hs : Nat} (e : HeaderV34.deserialize data = .ok (h, hs))
    (rest : Bytes) : HeaderV34.deserialize (data.take 48 ++ rest) = .ok (h, hs) := by
  obtain ⟨_, hl⟩ := headerV34_size e
  have hx : (data.take 48).length = 48 := by rw [List.length_take]; omega
  rw [headerV34_prefix _ rest hx, ← headerV34_prefix _ (data.drop 48) hx, List.take_append_drop]
  exact e

/-! ### big-endian read-back -/

theorem beNat_toBE : ∀ (w n : Nat), n < 256 ^ w → beNat (toBE w n) = n := by
  intro w
  induction w with
  | zero => intro n h; simp at h; subst h; rfl
  | succ k ih =>
    intro n h
    have hp : 0 < 256 ^ k := Nat.pow_pos (by decide)
    have hdiv : n / 256 ^ k < 256 := by
      rw [Nat.div_lt_iff_lt_mul hp]
      rw [Nat.pow_succ, Nat.mul_comm] at h
      exact h
    have hsplit : n = n % 256 ^ k + (n / 256 ^ k) * 256 ^ k := by
      rw [Nat.mul_comm]; exact (Nat.mod_add_div n (256 ^ k)).symm
    have hrest : toBE k n = toBE k (n % 256 ^ k) := by
      conv => lhs; rw [hsplit]
      exact toBE_add_mul k _ _
    simp only [toBE]
    rw [beNat_cons, toBE_length, hrest, ih _ (Nat.mod_lt _ hp), UInt8.toNat_ofNat']
    have : n / 256 ^ k % 256 % 2 ^ 8 = n / 256 ^ k := by
      have e : (2 : Nat) ^ 8 = 256 := by decide
      rw [e, Nat.mod_mod, Nat.mod_eq_of_lt hdiv]
    rw [this, Nat.add_comm]
    exact hsplit.symm

/-! ### segments of a concatenation -/

theorem sliceP_seg (pre mid post : Bytes) (a b : Nat) (ha : a = pre.length) (hb : b = a + mid.length) :
    sliceP (pre ++ mid ++ post) a b = .ok mid := by
  subst ha; subst hb
  rw [sliceP_of_le (by omega) (by simp only [List.length_append]; omega)]
  congr 1
  rw [List.append_assoc, List.drop_left]
  have : pre.length + mid.length - pre.length = mid.length := by omega
  rw [this, List.take_left]

theorem idxP_seg (pre : Bytes) (x : UInt8) (post : Bytes) (i : Nat) (hi : i = pre.length) :
    idxP (pre ++ x :: post) i = .ok x := by
  subst hi
  unfold idxP
  simp

/-! ### the NTPv5 header -/

/-- what `NtpHeaderV5::deserialize` guarantees about its result, leap indicator aside -/
def HeaderV5.WFb (h : HeaderV5) : Prop :=
  (h.mode = 3 ∨ h.mode = 4) ∧ h.stratum < 256 ∧ h.poll < 256 ∧ h.precision < 256 ∧ h.timescale ≤ 3 ∧
  h.era < 256 ∧ (∃ n : Nat, n < 4294967296 ∧ h.rootDelay = (n : Int) * 16) ∧
  (∃ n : Nat, n < 4294967296 ∧ h.rootDispersion = (n : Int) * 16) ∧
  h.serverCookie.length = 8 ∧ h.clientCookie.length = 8 ∧ h.receiveTs < 18446744073709551616 ∧
  h.transmitTs < 18446744073709551616

/-- … and after `fix_leap_indicator` -/
def HeaderV5.WF (h : HeaderV5) : Prop :=
  h.WFb ∧ (h.flags.synchronized = true → h.leap ≠ .unsynchronized) ∧
    (h.flags.synchronized = false → h.leap = .unsynchronized)

theorem fixLeap_wf {h : HeaderV5} (hb : h.WFb) : h.fixLeap.WF := by
  unfold HeaderV5.fixLeap
  split
  · rename_i hc
    exact ⟨hb, fun _ => by simp, fun hs => by simp [hc.1] at hs⟩
  · split
    · rename_i hc
      refine ⟨hb, fun hs => absurd hs hc, fun _ => rfl⟩
    · rename_i h1 h2
      have hs : h.flags.synchronized = true := by
        cases hh : h.flags.synchronized
        · rw [hh] at h2; simp at h2
        · rfl
      refine ⟨hb, fun _ hl => h1 ⟨hs, hl⟩, fun hf => by rw [hs] at hf; cases hf⟩

theorem durToTime32_mul (n : Nat) (h : n < 4294967296) : durToTime32 ((n : Int) * 16) = .ok (toBE 4 n) := by
  unfold durToTime32
  have h1 : ¬ ((n : Int) * 16 < 0) := by omega
  have h2 : ((n : Int) * 16).toNat / 16 = n := by omega
  have h3 : ¬ n > 4294967295 := by omega
  simp only [h1, if_false, h2, h3]

theorem hdr5_access (D : Bytes) (x0 s p pr ts era f0 f1 : UInt8) (R1 R2 sc cc T1 T2 rest : Bytes)
    (hD : D = [x0] ++ [s, p, pr] ++ R1 ++ R2 ++ [ts] ++ [era] ++ [f0, f1] ++ sc ++ cc ++ T1 ++ T2 ++ rest)
    (h1 : R1.length = 4) (h2 : R2.length = 4) (h3 : sc.length = 8) (h4 : cc.length = 8) (h5 : T1.length = 8)
    (h6 : T2.length = 8) :
    D.length = 48 + rest.length ∧ idxP D 0 = .ok x0 ∧ idxP D 1 = .ok s ∧ idxP D 2 = .ok p ∧ idxP D 3 = .ok pr ∧
    sliceP D 4 8 = .ok R1 ∧ sliceP D 8 12 = .ok R2 ∧ idxP D 12 = .ok ts ∧ idxP D 13 = .ok era ∧
    sliceP D 14 16 = .ok [f0, f1] ∧ sliceP D 16 24 = .ok sc ∧ sliceP D 24 32 = .ok cc ∧
    sliceP D 32 40 = .ok T1 ∧ sliceP D 40 48 = .ok T2 := by
  refine ⟨?_, ?_, ?_, ?_, ?_, ?_, ?_, ?_, ?_, ?_, ?_, ?_, ?_, ?_⟩
  · rw [hD]; simp only [List.length_append, List.length_cons, List.length_nil, h1, h2, h3, h4, h5, h6]
  · rw [hD]; simp [idxP]
  · rw [hD]; simp [idxP]
  · rw [hD]; simp [idxP]
  · rw [hD]; simp [idxP]
  · have e : D = ([x0] ++ [s, p, pr]) ++ R1 ++ (R2 ++ [ts] ++ [era] ++ [f0, f1] ++ sc ++ cc ++ T1 ++ T2 ++ rest) := by
      rw [hD]; simp only [List.append_assoc]
    rw [e]; exact sliceP_seg _ _ _ 4 8 (by simp) (by simp [h1])
  · have e : D = ([x0] ++ [s, p, pr] ++ R1) ++ R2 ++ ([ts] ++ [era] ++ [f0, f1] ++ sc ++ cc ++ T1 ++ T2 ++ rest) := by
      rw [hD]; simp only [List.append_assoc]
    rw [e]; exact sliceP_seg _ _ _ 8 12 (by simp [h1]) (by simp [h2])
  · have e : D = ([x0] ++ [s, p, pr] ++ R1 ++ R2) ++ ts :: ([era] ++ [f0, f1] ++ sc ++ cc ++ T1 ++ T2 ++ rest) := by
      rw [hD]; simp only [List.append_assoc, List.cons_append, List.nil_append]
    rw [e]; exact idxP_seg _ _ _ 12 (by simp [h1, h2])
  · have e : D = ([x0] ++ [s, p, pr] ++ R1 ++ R2 ++ [ts]) ++ era :: ([f0, f1] ++ sc ++ cc ++ T1 ++ T2 ++ rest) := by
      rw [hD]; simp only [List.append_assoc, List.cons_append, List.nil_append]
    rw [e]; exact idxP_seg _ _ _ 13 (by simp [h1, h2])
  · have e : D = ([x0] ++ [s, p, pr] ++ R1 ++ R2 ++ [ts] ++ [era]) ++ [f0, f1] ++ (sc ++ cc ++ T1 ++ T2 ++ rest) := by
      rw [hD]; simp only [List.append_assoc]
    rw [e]; exact sliceP_seg _ _ _ 14 16 (by simp [h1, h2]) (by simp)
  · have e : D = ([x0] ++ [s, p, pr] ++ R1 ++ R2 ++ [ts] ++ [era] ++ [f0, f1]) ++ sc ++ (cc ++ T1 ++ T2 ++ rest) := by
      rw [hD]; simp only [List.append_assoc]
    rw [e]; exact sliceP_seg _ _ _ 16 24 (by simp [h1, h2]) (by simp [h3])
  · have e : D = ([x0] ++ [s, p, pr] ++ R1 ++ R2 ++ [ts] ++ [era] ++ [f0, f1] ++ sc) ++ cc ++ (T1 ++ T2 ++ rest) := by
      rw [hD]; simp only [List.append_assoc]
    rw [e]; exact sliceP_seg _ _ _ 24 32 (by simp [h1, h2, h3]) (by simp [h4])
  · have e : D = ([x0] ++ [s, p, pr] ++ R1 ++ R2 ++ [ts] ++ [era] ++ [f0, f1] ++ sc ++ cc) ++ T1 ++ (T2 ++ rest) := by
      rw [hD]; simp only [List.append_assoc]
    rw [e]; exact sliceP_seg _ _ _ 32 40 (by simp [h1, h2, h3, h4]) (by simp [h5])
  · have e : D = ([x0] ++ [s, p, pr] ++ R1 ++ R2 ++ [ts] ++ [era] ++ [f0, f1] ++ sc ++ cc ++ T1) ++ T2 ++ rest := by
      rw [hD]
    rw [e]; exact sliceP_seg _ _ _ 40 48 (by simp [h1, h2, h3, h4, h5]) (by simp [h6])

theorem Leap.toBits_le (l : Leap) : l.toBits ≤ 3 := by cases l <;> simp [Leap.toBits]

theorem flags_bits_le (f : Flags) : f.bits ≤ 7 := by
  obtain ⟨a, b, c⟩ := f
  cases a <;> cases b <;> cases c <;> simp [Flags.bits]

theorem flags_readback (f : Flags) :
    ({ synchronized := decide (f.bits % 2 = 1), interleaved := decide (f.bits / 2 % 2 = 1),
       authnak := decide (f.bits / 4 % 2 = 1) } : Flags) = f := by
  obtain ⟨a, b, c⟩ := f
  cases a <;> cases b <;> cases c <;> simp [Flags.bits]

theorem u8_toNat_ofNat {n : Nat} (h : n < 256) : (UInt8.ofNat n).toNat = n := by
  rw [UInt8.toNat_ofNat']
  exact Nat.mod_eq_of_lt (by have e : (2 : Nat) ^ 8 = 256 := by decide
                             rw [e]; exact h)

/-- decode ∘ encode = id on decoded NTPv5 headers (the leap rewrite is idempotent) -/
theorem headerV5_roundtrip {h : HeaderV5} (hw : h.WF) :
    ∃ hb, h.serialize = .ok hb ∧ hb.length = 48 ∧ (∃ b0 t, hb = b0 :: t ∧ b0.toNat / 8 % 8 = 5) ∧
      ∀ rest, HeaderV5.deserialize (hb ++ rest) = .ok (h, 48) := by
  obtain ⟨leap, mode, stratum, poll, precision, timescale, era, flags, rootDelay, rootDispersion, sc, cc, rts, tts⟩ := h
  obtain ⟨⟨hmode, hst, hpo, hpr, hts, hera, ⟨n1, hn1, e1⟩, ⟨n2, hn2, e2⟩, hsc, hcc, hr, ht⟩, hl1, hl2⟩ := hw
  simp only at hmode hst hpo hpr hts hera e1 e2 hsc hcc hr ht hl1 hl2
  subst e1; subst e2
  have hL := Leap.toBits_le leap
  have hF := flags_bits_le flags
  have hx0 : (UInt8.ofNat (leap.toBits * 64 + 5 * 8 + mode)).toNat = leap.toBits * 64 + 40 + mode := by
    rw [u8_toNat_ofNat (by omega)]
  refine ⟨[UInt8.ofNat (leap.toBits * 64 + 5 * 8 + mode)] ++
        [UInt8.ofNat stratum, UInt8.ofNat poll, UInt8.ofNat precision] ++ toBE 4 n1 ++ toBE 4 n2 ++
        [UInt8.ofNat timescale] ++ [UInt8.ofNat era] ++ [0, UInt8.ofNat flags.bits] ++
        sc ++ cc ++ toBE 8 rts ++ toBE 8 tts, ?_, ?_, ?_, ?_⟩
  · unfold HeaderV5.serialize
    simp only [durToTime32_mul n1 hn1, durToTime32_mul n2 hn2, bind, Except.bind, pure, Except.pure]
  · simp only [List.length_append, List.length_cons, List.length_nil, toBE_length, hsc, hcc]
  · exact ⟨_, _, rfl, by rw [hx0]; omega⟩
  · intro rest
    obtain ⟨a0, a1, a2, a3, a4, a5, a6, a7, a8, a9, a10, a11, a12, a13⟩ :=
      hdr5_access _ _ _ _ _ _ _ _ _ _ _ _ _ _ _ rest rfl (toBE_length 4 n1) (toBE_length 4 n2) hsc hcc
        (toBE_length 8 rts) (toBE_length 8 tts)
    unfold HeaderV5.deserialize
    have hc : Gen.HEADER_V5_WIRE_LENGTH = 48 := rfl
    rw [hc]
    split
    · rename_i hlt; rw [a0] at hlt; omega
    simp only [a1, a2, a3, a4, a5, a6, a7, a8, a9, a10, a11, a12, a13, bind, Except.bind, pure, Except.pure]
    simp only [idxP, List.getElem?_cons_zero, List.getElem?_cons_succ, hx0]
    have v1 : (leap.toBits * 64 + 40 + mode) / 8 % 8 = 5 := by omega
    have v2 : (leap.toBits * 64 + 40 + mode) / 64 = leap.toBits := by omega
    have v3 : (leap.toBits * 64 + 40 + mode) % 8 = mode := by omega
    have z : UInt8.toNat 0 = 0 := rfl
    have hts' : ¬ timescale > 3 := by omega
    have hfb : flags.bits / 8 = 0 := by omega
    have hmm : ¬ (mode ≠ 3 ∧ mode ≠ 4) := by omega
    have p4 : (256 : Nat) ^ 4 = 4294967296 := by decide
    have p8 : (256 : Nat) ^ 8 = 18446744073709551616 := by decide
    have b1 : beNat (toBE 4 n1) = n1 := beNat_toBE 4 n1 (by rw [p4]; exact hn1)
    have b2 : beNat (toBE 4 n2) = n2 := beNat_toBE 4 n2 (by rw [p4]; exact hn2)
    have b3 : beNat (toBE 8 rts) = rts := beNat_toBE 8 rts (by rw [p8]; exact hr)
    have b4 : beNat (toBE 8 tts) = tts := beNat_toBE 8 tts (by rw [p8]; exact ht)
    simp only [v1, v2, v3, z, u8_toNat_ofNat hst, u8_toNat_ofNat hpo, u8_toNat_ofNat hpr,
      u8_toNat_ofNat (show timescale < 256 by omega), u8_toNat_ofNat hera,
      u8_toNat_ofNat (show flags.bits < 256 by omega), flags_readback, durFromTime32, b1, b2, b3, b4,
      ne_eq, not_true_eq_false, if_false, hts', hfb, hmm, or_self]
    obtain ⟨sy, il, an⟩ := flags
    cases sy <;> cases leap <;> simp_all [Leap.fromBits, Leap.toBits, HeaderV5.fixLeap]

theorem beNat_lt4 {bs : Bytes} (h : bs.length = 4) : beNat bs < 4294967296 := by
  have := beNat_lt bs
  rw [h] at this
  have p4 : (256 : Nat) ^ 4 = 4294967296 := by decide
  rw [p4] at this; exact this

theorem beNat_lt8 {bs : Bytes} (h : bs.length = 8) : beNat bs < 18446744073709551616 := by
  have := beNat_lt bs
  rw [h] at this
  have p8 : (256 : Nat) ^ 8 = 18446744073709551616 := by decide
  rw [p8] at this; exact this

theorem u8_lt (b : UInt8) : b.toNat < 256 := by have := b.toNat_lt; omega

/-- the parse-origin invariant of an NTPv5 header -/
theorem headerV5_wf {data : Bytes} {h : HeaderV5} {hs : Nat} (e : HeaderV5.deserialize data = .ok (h, hs)) :
    hs = 48 ∧ h.WF := by
  unfold HeaderV5.deserialize at e
  have hc : Gen.HEADER_V5_WIRE_LENGTH = 48 := rfl
  rw [hc] at e
  split at e
  · cases e
  rename_i hl
  have hfl : ((data.drop 14).take (16 - 14)).length = 2 := take_drop_length data 14 (16 - 14) (by omega)
  simp only [idxP_of_lt (show 0 < data.length by omega), idxP_of_lt (show 1 < data.length by omega),
    idxP_of_lt (show 2 < data.length by omega), idxP_of_lt (show 3 < data.length by omega),
    idxP_of_lt (show 12 < data.length by omega), idxP_of_lt (show 13 < data.length by omega),
    sliceP_of_le (show 4 ≤ 8 by omega) (show 8 ≤ data.length by omega),
    sliceP_of_le (show 8 ≤ 12 by omega) (show 12 ≤ data.length by omega),
    sliceP_of_le (show 14 ≤ 16 by omega) (show 16 ≤ data.length by omega),
    sliceP_of_le (show 16 ≤ 24 by omega) (show 24 ≤ data.length by omega),
    sliceP_of_le (show 24 ≤ 32 by omega) (show 32 ≤ data.length by omega),
    sliceP_of_le (show 32 ≤ 40 by omega) (show 40 ≤ data.length by omega),
    sliceP_of_le (show 40 ≤ 48 by omega) (show 48 ≤ data.length by omega),
    idxP_of_lt (show 0 < ((data.drop 14).take (16 - 14)).length by rw [hfl]; omega),
    idxP_of_lt (show 1 < ((data.drop 14).take (16 - 14)).length by rw [hfl]; omega),
    bind, Except.bind, pure, Except.pure] at e
  repeat' split at e
  all_goals first
    | (cases e; done)
    | (cases e
       refine ⟨rfl, fixLeap_wf ⟨by dsimp only; omega, u8_lt _, u8_lt _, u8_lt _, by dsimp only; omega, u8_lt _,
         ⟨_, beNat_lt4 (take_drop_length data 4 (8 - 4) (by omega)), rfl⟩,
         ⟨_, beNat_lt4 (take_drop_length data 8 (12 - 8) (by omega)), rfl⟩,
         take_drop_length data 16 (24 - 16) (by omega), take_drop_length data 24 (32 - 24) (by omega),
         beNat_lt8 (take_drop_length data 32 (40 - 32) (by omega)),
         beNat_lt8 (take_drop_length data 40 (48 - 40) (by omega))⟩⟩)

end NtpVerif.Wire
