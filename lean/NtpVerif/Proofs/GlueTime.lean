/- `from_seconds` panics exactly on non-finite input; on finite input it yields an `i64`. -/
import NtpVerif.Model.GlueTime

namespace NtpVerif.GlueTime
open NtpVerif NtpVerif.Wrap

theorem finite_not_nan_inf {s : F64} (h : s.isFinite = true) : (s.isNaN || s.isInf) = false := by
  simp only [F64.isFinite, F64.isNaN, F64.isInf, decide_eq_true_eq, Bool.or_eq_false_iff,
    decide_eq_false_iff_not, beq_eq_false_iff_ne] at *
  omega

theorem nonfinite_nan_or_inf {s : F64} (h : s.isFinite = false) : (s.isNaN || s.isInf) = true := by
  simp only [F64.isFinite, F64.isNaN, F64.isInf, decide_eq_false_iff_not, Bool.or_eq_true,
    decide_eq_true_eq, beq_iff_eq] at *
  omega

theorem or64_in (a b : Int) : inI64 (or64 a b) := by
  unfold or64 inI64 I64_MIN I64_MAX
  have h1 := Int64.toInt_lt (Int64.ofInt a ||| Int64.ofInt b)
  have h2 := Int64.le_toInt (Int64.ofInt a ||| Int64.ofInt b)
  omega

/-- on a finite number `from_seconds` returns a duration (no `debug_assert` failure, the
    `unreachable!()` arm is indeed unreachable) and the duration is an `i64` -/
theorem fromSeconds_finite {s : F64} (h : s.isFinite = true) :
    ∃ d, fromSeconds s = .ok d ∧ inI64 d := by
  unfold fromSeconds
  rw [finite_not_nan_inf h]
  simp only [Bool.false_eq_true, if_false]
  split
  · exact ⟨_, rfl, or64_in _ _⟩
  · split
    · exact ⟨_, rfl, by unfold inI64 I64_MIN I64_MAX; omega⟩
    · split
      · exact ⟨_, rfl, by unfold inI64 I64_MIN I64_MAX; omega⟩
      · omega

/-- on NaN / ±∞ the `debug_assert!` fires -/
theorem fromSeconds_nonfinite {s : F64} (h : s.isFinite = false) : fromSeconds s = .assertFail := by
  unfold fromSeconds
  rw [nonfinite_nan_or_inf h]
  simp

theorem fromSeconds_ok_iff (s : F64) : (∃ d, fromSeconds s = .ok d) ↔ s.isFinite = true := by
  constructor
  · intro ⟨d, hd⟩
    cases hf : s.isFinite
    · rw [fromSeconds_nonfinite hf] at hd; cases hd
    · rfl
  · intro h; obtain ⟨d, hd, _⟩ := fromSeconds_finite h; exact ⟨d, hd⟩

theorem fromSeconds_never_unreachable (s : F64) : fromSeconds s ≠ .unreachable := by
  cases hf : s.isFinite
  · rw [fromSeconds_nonfinite hf]; simp
  · obtain ⟨d, hd, _⟩ := fromSeconds_finite hf; rw [hd]; simp

end NtpVerif.GlueTime
