/-
Helper lemmas for C24, seventh part: the parse-origin invariant of decoded fields and the per-field round trip
(encode → frame back → decode → encode again gives the same bytes) for every field kind, v4 and v5 rules.
-/
import NtpVerif.Proofs.WireRT6

namespace NtpVerif.Wire

/-- data length of a decoded field: fits the 16-bit length word; a multiple of 4 under v4 framing -/
def DL (ver : Ver) (n : Nat) : Prop := n ≤ 65531 ∧ (ver = .v4 → n % 4 = 0)

/-- PARSE-ORIGIN INVARIANT of a field collected by the key-less decoder -/
def EF.FWF (ver : Ver) : EF → Prop
  | .uniqueId d => DL ver d.length
  | .cookie d => DL ver d.length
  | .placeholder n => DL ver n
  | .draftId d => ver = .v5 ∧ d.length ≤ 65531 ∧ isAscii d = true
  | .refIdReq pl off => ver = .v5 ∧ 2 ≤ pl ∧ pl ≤ 65531 ∧ off < 65536
  | .refIdResp d => ver = .v5 ∧ d.length ≤ 65531
  | .unknown ty d => DL ver d.length ∧ ty < 65536 ∧ ty ≠ tyEncrypted ∧
      ∀ msg, decode ty msg ver = .ok (.unknown ty msg)
  | .invalidEnc => False
  | .padding _ => False

/-! ### the invariant holds for what `decode` returns -/

theorem decode_fwf {ty : Nat} {msg : Bytes} {ver : Ver} {f : EF} (h : decode ty msg ver = .ok f)
    (hty : ty < 65536) (hne : ty ≠ tyEncrypted) (hl : DL ver msg.length) : f.FWF ver := by
  unfold decode at h
  split at h
  · cases h; exact hl
  split at h
  · cases h; exact hl
  split at h
  · split at h
    · cases h
    · cases h
      have : msg.length % 65536 = msg.length := Nat.mod_eq_of_lt (by have := hl.1; omega)
      simp only [EF.FWF, this]; exact hl
  split at h
  · rename_i hc
    split at h
    · rename_i ha
      cases h
      exact ⟨hc.2, hl.1, ha⟩
    · cases h
  split at h
  · rename_i hc
    split at h
    · cases h
    · split at h
      · cases h
      · rename_i ob hob
        cases h
        obtain ⟨_, h2, _, h4⟩ := slice?_some hob
        have := beNat_lt ob
        rw [h4] at this
        have e : (256 : Nat) ^ (2 - 0) = 65536 := by decide
        rw [e] at this
        exact ⟨hc.2, by omega, hl.1, this⟩
  split at h
  · rename_i hc
    cases h
    exact ⟨hc.2, hl.1⟩
  · rename_i n1 n2 n3 n4 n5 n6
    cases h
    refine ⟨hl, hty, hne, ?_⟩
    intro msg'
    unfold decode
    simp only [n1, n2, n3, n4, n5, n6, if_false]

/-! ### generic kinds -/

theorem encodeGeneric_eq' (ty : Nat) (data : Bytes) (m : Nat) (ver : Ver) (hl : data.length ≤ 65531)
    (hv4 : ver = .v4 → nm4 (max (data.length + 4) m) < 65536) :
    encodeGeneric ty data m ver =
      .ok (toBE 2 ty ++ toBE 2 (framedLen data.length m ver) ++
            (data ++ zeros (nm4 (max (data.length + 4) m) - data.length - 4))) := by
  have h1 : ¬ data.length > 65535 - 4 := by omega
  unfold encodeGeneric framing padding framedLen
  simp only [h1, if_false, bind, Except.bind, pure, Except.pure]
  cases ver with
  | v4 => simp [nm4u16_eq (hv4 rfl), List.append_assoc]
  | v5 => simp [List.append_assoc]

/-- the six kinds written through `encode_framing`/`encode_padding`, for data as the decoder produces it -/
theorem generic_frame (ty : Nat) (data : Bytes) (m : Nat) (ver : Ver) (hty : ty < 65536)
    (hd : DL ver data.length) (hm4 : ver = .v4 → m % 4 = 0) (hm : m ≤ 28) (hm5 : ver = .v5 → m ≤ 4) :
    ∃ e msg, encodeGeneric ty data m ver = .ok e ∧
      (∀ rest, rawDeserialize (e ++ rest) Gen.EF_V4_UNENCRYPTED_MINIMUM_SIZE ver = .ok (ty, msg)) ∧
      e.length = nm4 (4 + msg.length) ∧ (ver = .v4 → (4 + msg.length) % 4 = 0) ∧ m ≤ e.length ∧
      msg = data ++ zeros (msg.length - data.length) ∧ data.length ≤ msg.length ∧ msg.length ≤ 65531 ∧
      (ver = .v5 → msg = data) ∧ encodeGeneric ty msg m ver = .ok e := by
  obtain ⟨hl, hd4⟩ := hd
  have hmax : data.length + 4 ≤ max (data.length + 4) m ∧ m ≤ max (data.length + 4) m ∧
      max (data.length + 4) m ≤ 65535 := by omega
  have hmod : ver = .v4 → max (data.length + 4) m % 4 = 0 := by
    intro hv; have := hd4 hv; have := hm4 hv; omega
  have h5 : ver = .v5 → max (data.length + 4) m = data.length + 4 := by
    intro hv; have := hm5 hv; omega
  have hfl : framedLen data.length m ver = max (data.length + 4) m := by
    unfold framedLen
    split
    · rename_i hv; exact nm4_of_mod (hmod hv)
    · rfl
  have hlen4 : ver = .v4 → nm4 (max (data.length + 4) m) < 65536 := by
    intro hv; rw [nm4_of_mod (hmod hv)]; omega
  have hE := encodeGeneric_eq' ty data m ver hl hlen4
  rw [hfl] at hE
  have hge := nm4_ge (max (data.length + 4) m)
  have hlt := nm4_lt (max (data.length + 4) m)
  generalize max (data.length + 4) m = a at *
  generalize hb : data ++ zeros (nm4 a - data.length - 4) = body at *
  have hbody : body.length = nm4 a - 4 := by
    rw [← hb, List.length_append, zeros_length]; omega
  have htake : body.take (a - 4) = data ++ zeros (a - 4 - data.length) := by
    rw [← hb, List.take_append, List.take_of_length_le (by omega)]
    congr 1
    simp only [zeros, List.take_replicate]
    congr 1
    omega
  have hlm : (body.take (a - 4)).length = a - 4 := by
    rw [List.length_take, hbody]; omega
  have hv4a : ver = .v4 → a % 4 = 0 := hmod
  refine ⟨_, body.take (a - 4), hE, ?_, ?_, ?_, ?_, ?_, ?_, ?_, ?_, ?_⟩
  · intro rest
    exact raw_of_framed _ ty a body rest ver hty (by omega) (by omega)
      (by show (4 : Nat) ≤ a; omega) hv4a hbody
  · simp only [List.length_append, toBE_length, hbody, hlm]
    have e : 4 + (a - 4) = a := by omega
    rw [e]; omega
  · intro hv; rw [hlm]; have := hv4a hv; omega
  · simp only [List.length_append, toBE_length, hbody]; omega
  · rw [hlm]; exact htake
  · rw [hlm]; omega
  · rw [hlm]; omega
  · intro hv
    have := h5 hv
    rw [htake]
    have e : a - 4 - data.length = 0 := by omega
    rw [e]; simp [zeros]
  · have hmax' : max ((body.take (a - 4)).length + 4) m = a := by rw [hlm]; omega
    have hfl' : framedLen (body.take (a - 4)).length m ver = a := by
      unfold framedLen
      rw [hmax']
      split
      · rename_i hv; exact nm4_of_mod (hv4a hv)
      · rfl
    rw [encodeGeneric_eq' ty _ m ver (by rw [hlm]; omega) (by rw [hmax']; exact hlen4), hfl', hmax', hlm, htake,
      ← hb]
    have e : data ++ zeros (a - 4 - data.length) ++ zeros (nm4 a - (a - 4) - 4) =
        data ++ zeros (nm4 a - data.length - 4) := by
      rw [List.append_assoc, zeros_append]
      congr 2
      omega
    rw [e]

/-! ### the per-field round trip -/

/-- `f`, written with minimum size `m`, gives the frame `fr`; what is decoded from the frame encodes (same
    position) to the same bytes; under v5 rules the decoded field is `f` itself -/
def FieldRT (ver : Ver) (m : Nat) (f : EF) (fr : Frame) : Prop :=
  f.serialize m ver = .ok fr.e ∧ fr.OK ver ∧ fr.f.serialize m ver = .ok fr.e ∧ m ≤ fr.e.length ∧
    (ver = .v5 → fr.f = f)

theorem ty_facts : tyUniqueId < 65536 ∧ tyCookie < 65536 ∧ tyPlaceholder < 65536 ∧ tyDraftId < 65536 ∧
    tyRefIdReq < 65536 ∧ tyRefIdResp < 65536 ∧
    tyUniqueId ≠ tyEncrypted ∧ tyCookie ≠ tyEncrypted ∧ tyPlaceholder ≠ tyEncrypted ∧ tyDraftId ≠ tyEncrypted ∧
    tyRefIdReq ≠ tyEncrypted ∧ tyRefIdResp ≠ tyEncrypted := by decide

theorem decode_uniqueId (msg : Bytes) (ver : Ver) : decode tyUniqueId msg ver = .ok (.uniqueId msg) := by
  unfold decode; simp

theorem decode_cookie (msg : Bytes) (ver : Ver) : decode tyCookie msg ver = .ok (.cookie msg) := by
  have h1 : tyCookie ≠ tyUniqueId := by decide
  unfold decode; simp [h1]

theorem zeros_any (n : Nat) : (zeros n).any (· != 0) = false := by
  simp [zeros]

theorem decode_placeholder (n : Nat) (ver : Ver) (hn : n < 65536) :
    decode tyPlaceholder (zeros n) ver = .ok (.placeholder n) := by
  have h1 : tyPlaceholder ≠ tyUniqueId := by decide
  have h2 : tyPlaceholder ≠ tyCookie := by decide
  unfold decode
  simp only [h1, h2, if_false, if_true, zeros_any, zeros_length, Nat.mod_eq_of_lt hn]
  simp

theorem decode_draftId (msg : Bytes) (h : isAscii msg = true) : decode tyDraftId msg .v5 = .ok (.draftId msg) := by
  have h1 : tyDraftId ≠ tyUniqueId := by decide
  have h2 : tyDraftId ≠ tyCookie := by decide
  have h3 : tyDraftId ≠ tyPlaceholder := by decide
  unfold decode
  simp [h1, h2, h3, h]

theorem decode_refIdResp (msg : Bytes) : decode tyRefIdResp msg .v5 = .ok (.refIdResp msg) := by
  have h1 : tyRefIdResp ≠ tyUniqueId := by decide
  have h2 : tyRefIdResp ≠ tyCookie := by decide
  have h3 : tyRefIdResp ≠ tyPlaceholder := by decide
  have h4 : tyRefIdResp ≠ tyDraftId := by decide
  have h5 : tyRefIdResp ≠ tyRefIdReq := by decide
  unfold decode
  simp [h1, h2, h3, h4, h5]

theorem beNat_toBE2 {x : Nat} (h : x < 65536) : beNat (toBE 2 x) = x := by
  rw [toBE2]
  simp only [beNat, List.foldl_cons, List.foldl_nil, UInt8.toNat_ofNat']
  omega

theorem decode_refIdReq (off k : Nat) (hoff : off < 65536) (hk : 2 + k ≤ 65535) :
    decode tyRefIdReq (toBE 2 off ++ zeros k) .v5 = .ok (.refIdReq (2 + k) off) := by
  have h1 : tyRefIdReq ≠ tyUniqueId := by decide
  have h2 : tyRefIdReq ≠ tyCookie := by decide
  have h3 : tyRefIdReq ≠ tyPlaceholder := by decide
  have h4 : tyRefIdReq ≠ tyDraftId := by decide
  have hlen : (toBE 2 off ++ zeros k).length = 2 + k := by
    simp [List.length_append, toBE_length, zeros_length]
  have hs : slice? (toBE 2 off ++ zeros k) 0 2 = some (toBE 2 off) := by
    rw [slice?_of_le (by omega) (by rw [hlen]; omega)]
    simp [toBE2]
  unfold decode
  have hgt : ¬ 2 + k > 65535 := by omega
  simp only [h1, h2, h3, h4, if_false, true_and, false_and, if_true, hgt, hs, hlen, beNat_toBE2 hoff]

/-- PER-FIELD LEMMA, every kind -/
theorem field_rt (ver : Ver) (m : Nat) (f : EF) (hf : f.FWF ver) (hm4 : ver = .v4 → m % 4 = 0) (hm : m ≤ 28)
    (hm5 : ver = .v5 → m ≤ 4) : ∃ fr, FieldRT ver m f fr := by
  obtain ⟨t1, t2, t3, t4, t5, t6, n1, n2, n3, n4, n5, n6⟩ := ty_facts
  cases f with
  | uniqueId d =>
    obtain ⟨e, msg, h1, h2, h3, h4, h5, _, _, _, h9, h10⟩ := generic_frame tyUniqueId d m ver t1 hf hm4 hm hm5
    exact ⟨⟨e, tyUniqueId, msg, .uniqueId msg⟩, h1, ⟨h2, h3, h4, n1, decode_uniqueId _ _⟩, h10, h5,
      fun hv => by rw [h9 hv]⟩
  | cookie d =>
    obtain ⟨e, msg, h1, h2, h3, h4, h5, _, _, _, h9, h10⟩ := generic_frame tyCookie d m ver t2 hf hm4 hm hm5
    exact ⟨⟨e, tyCookie, msg, .cookie msg⟩, h1, ⟨h2, h3, h4, n2, decode_cookie _ _⟩, h10, h5,
      fun hv => by rw [h9 hv]⟩
  | placeholder n =>
    have hf' : DL ver (zeros n).length := by rw [zeros_length]; exact hf
    obtain ⟨e, msg, h1, h2, h3, h4, h5, h6, h7, h8, h9, h10⟩ :=
      generic_frame tyPlaceholder (zeros n) m ver t3 hf' hm4 hm hm5
    rw [zeros_length] at h6 h7
    have hz : msg = zeros msg.length := by
      have : zeros n ++ zeros (msg.length - n) = zeros msg.length := by
        rw [zeros_append]; congr 1; omega
      rw [← this]; exact h6
    refine ⟨⟨e, tyPlaceholder, msg, .placeholder msg.length⟩, h1, ⟨h2, h3, h4, n3, ?_⟩, ?_, h5, ?_⟩
    · show decode tyPlaceholder msg ver = .ok (.placeholder msg.length)
      rw [hz, zeros_length]; exact decode_placeholder _ _ (by omega)
    · show (EF.placeholder msg.length).serialize m ver = .ok e
      show encodeGeneric tyPlaceholder (zeros msg.length) m ver = .ok e
      rw [← hz]; exact h10
    · intro hv
      show EF.placeholder msg.length = EF.placeholder n
      rw [h9 hv, zeros_length]
  | draftId d =>
    obtain ⟨hv5, hl, ha⟩ := hf
    subst hv5
    have hd : DL .v5 d.length := ⟨hl, fun h => by cases h⟩
    obtain ⟨e, msg, h1, h2, h3, h4, h5, _, _, _, h9, h10⟩ := generic_frame tyDraftId d m .v5 t4 hd hm4 hm hm5
    have hmd := h9 rfl
    subst hmd
    exact ⟨⟨e, tyDraftId, msg, .draftId msg⟩, h1, ⟨h2, h3, h4, n4, decode_draftId _ ha⟩, h10, h5, fun _ => rfl⟩
  | unknown ty d =>
    obtain ⟨hd, hty, hne, hdec⟩ := hf
    obtain ⟨e, msg, h1, h2, h3, h4, h5, _, _, _, h9, h10⟩ := generic_frame ty d m ver hty hd hm4 hm hm5
    exact ⟨⟨e, ty, msg, .unknown ty msg⟩, h1, ⟨h2, h3, h4, hne, hdec msg⟩, h10, h5, fun hv => by rw [h9 hv]⟩
  | invalidEnc => exact absurd hf (by simp [EF.FWF])
  | padding n => exact absurd hf (by simp [EF.FWF])
  | refIdResp d =>
    obtain ⟨hv5, hl⟩ := hf
    subst hv5
    have hm' := hm5 rfl
    have hgt : ¬ d.length + 4 > 65535 := by omega
    generalize hp : (if (d.length + 4) % 4 = 0 then ([] : Bytes) else zeros (4 - (d.length + 4) % 4)) = pad
    have hpl : pad.length = nm4 (d.length + 4) - (d.length + 4) := by
      rw [← hp]; unfold nm4; split <;> simp [zeros_length]
    have hser : (EF.refIdResp d).serialize m .v5 =
        .ok (toBE 2 tyRefIdResp ++ toBE 2 (d.length + 4) ++ (d ++ pad)) := by
      unfold EF.serialize
      simp only [hgt, if_false, hp, List.append_assoc]
    have hge := nm4_ge (d.length + 4)
    have hbody : (d ++ pad).length = nm4 (d.length + 4) - 4 := by
      rw [List.length_append, hpl]; omega
    have htake : (d ++ pad).take (d.length + 4 - 4) = d := by
      have : d.length + 4 - 4 = d.length := by omega
      rw [this, List.take_left]
    refine ⟨⟨_, tyRefIdResp, d, .refIdResp d⟩, hser, ⟨?_, ?_, (fun h => by cases h), n6, decode_refIdResp d⟩,
      hser, ?_, fun _ => rfl⟩
    · intro rest
      have := raw_of_framed Gen.EF_V4_UNENCRYPTED_MINIMUM_SIZE tyRefIdResp (d.length + 4) (d ++ pad) rest .v5 t6
        (by omega) (by omega) (by show (4 : Nat) ≤ d.length + 4; omega) (fun h => by cases h) hbody
      rw [htake] at this
      exact this
    · simp only [List.length_append, toBE_length, hpl]
      have : 4 + d.length = d.length + 4 := by omega
      rw [this]; omega
    · simp only [List.length_append, toBE_length]; omega
  | refIdReq pl off =>
    obtain ⟨hv5, h2, hl, hoff⟩ := hf
    subst hv5
    have hm' := hm5 rfl
    have hgt : ¬ pl + 4 > 65535 := by omega
    have hser : (EF.refIdReq pl off).serialize m .v5 =
        .ok (toBE 2 tyRefIdReq ++ toBE 2 (pl + 4) ++ (toBE 2 off ++ zeros (max (nm4 pl) 4 - 2))) := by
      unfold EF.serialize
      simp only [hgt, if_false, List.append_assoc]
    have hge := nm4_ge pl
    have hmod4 := nm4_mod pl
    have hnm : nm4 (pl + 4) = nm4 pl + 4 := by unfold nm4; split <;> split <;> omega
    have hbody : (toBE 2 off ++ zeros (max (nm4 pl) 4 - 2)).length = nm4 (pl + 4) - 4 := by
      rw [List.length_append, toBE_length, zeros_length, hnm]; omega
    have htake : (toBE 2 off ++ zeros (max (nm4 pl) 4 - 2)).take (pl + 4 - 4) = toBE 2 off ++ zeros (pl - 2) := by
      rw [List.take_append, List.take_of_length_le (by rw [toBE_length]; omega), toBE_length]
      congr 1
      simp only [zeros, List.take_replicate]
      congr 1
      omega
    have hdec : decode tyRefIdReq (toBE 2 off ++ zeros (pl - 2)) .v5 = .ok (.refIdReq pl off) := by
      have := decode_refIdReq off (pl - 2) hoff (by omega)
      have e : 2 + (pl - 2) = pl := by omega
      rw [e] at this; exact this
    have hmsgl : (toBE 2 off ++ zeros (pl - 2)).length = pl := by
      rw [List.length_append, toBE_length, zeros_length]; omega
    refine ⟨⟨_, tyRefIdReq, toBE 2 off ++ zeros (pl - 2), .refIdReq pl off⟩, hser,
      ⟨?_, ?_, (fun h => by cases h), n5, hdec⟩, hser, ?_, fun _ => rfl⟩
    · intro rest
      have := raw_of_framed Gen.EF_V4_UNENCRYPTED_MINIMUM_SIZE tyRefIdReq (pl + 4)
        (toBE 2 off ++ zeros (max (nm4 pl) 4 - 2)) rest .v5 t5
        (by omega) (by omega) (by show (4 : Nat) ≤ pl + 4; omega) (fun h => by cases h) hbody
      rw [htake] at this
      exact this
    · show (toBE 2 tyRefIdReq ++ toBE 2 (pl + 4) ++ (toBE 2 off ++ zeros (max (nm4 pl) 4 - 2))).length =
        nm4 (4 + (toBE 2 off ++ zeros (pl - 2)).length)
      rw [hmsgl]
      simp only [List.length_append, toBE_length, zeros_length]
      have : 4 + pl = pl + 4 := by omega
      rw [this, hnm]; omega
    · show m ≤ (toBE 2 tyRefIdReq ++ toBE 2 (pl + 4) ++ (toBE 2 off ++ zeros (max (nm4 pl) 4 - 2))).length
      simp only [List.length_append, toBE_length]; omega

end NtpVerif.Wire
