/- C43: no panic in `LinkFilter::measurement`, `steer_clocks`, `KalmanLink::measurement` on well-formed
   controllers whose clocks report a sane maximum frequency. -/
import NtpVerif.Proofs.PtpNoPanic
import NtpVerif.Props.C42

set_option linter.unusedSimpArgs false
set_option linter.unusedVariables false

namespace NtpVerif.PtpFilter
open NtpVerif.Estimator NtpVerif.PtpCtrl

theorem estErr_noBug {s : E} (h : WF s) (op : C42.Op F64) {e : FErr}
    (he : liftE (C42.apply s op) = .error e) : e.isBug = false := by
  obtain ⟨e', h1, rfl⟩ := liftE_err he
  exact C42.estimator_never_panics_step h op e' h1

theorem judge_total (hlaw : WindowLaw) (g : Filter) (cfg : Cfg) (l : FLink) (h : WF g.est) :
    ∃ v, g.judge cfg l = .ok v := by
  unfold Filter.judge
  cases l.ext with
  | none => exact ⟨_, rfl⟩
  | some e =>
    obtain ⟨r, hr, _⟩ := offsetWindow_total hlaw l cfg h
    obtain ⟨c, hc⟩ := consensus_total hlaw g cfg h
    exact ⟨_, by simp only [hr, hc, bind, Except.bind]; rfl⟩

theorem filter_measurement_noBug (hlaw : WindowLaw) {f : Filter} {cfg : Cfg} {id : LinkId} {fwd : Bool}
    {v u : F64} {e : FErr} (h : WF f.est) (hm : f.measurement cfg id fwd v u = .error e) :
    e.isBug = false := by
  unfold Filter.measurement at hm
  split at hm
  · cases hm; rfl
  · rename_i i l g hn
    obtain ⟨l0, _, _, hg, _⟩ := note_spec hn
    have hge : g.est = f.est := by rw [hg]; rfl
    have wg : WF g.est := by rw [hge]; exact h
    split at hm
    · cases hm
    · rename_i delay noise he
      rcases bindErr hm with h1 | ⟨verd, hv, hm⟩
      · obtain ⟨v', hv'⟩ := judge_total hlaw g cfg l wg
        rw [hv'] at h1; cases h1
      rcases bindErr hm with h1 | ⟨est1, h1, hm⟩
      · unfold Filter.syncEst at h1
        split at h1
        · exact estErr_noBug wg (.addLink l.id delay noise l.decay) h1
        · split at h1
          · exact estErr_noBug wg (.removeLink l.id) h1
          · cases h1
      have w1 : WF est1 := by
        unfold Filter.syncEst at h1
        split at h1
        · exact addLink_wf wg (liftE_ok h1)
        · split at h1
          · exact removeLink_wf wg (liftE_ok h1)
          · cases h1; exact wg
      rcases bindErr hm with h2 | ⟨est2, h2, hm⟩
      · unfold useMeasurement at h2
        split at h2
        · exact estErr_noBug w1 (.measure id fwd v (addUncertainty u noise) l.tracked.isSome) h2
        · cases h2
      · cases hm

/-- the clock reports a maximum frequency `m` with `−m ≤ m` (not NaN, not negative): `f64::clamp` is defined -/
def Mock.Sane (m : Mock) : Prop := F64.le (F64.neg m.max) m.max = true

theorem steerOne_noPanic (isSys : Bool) (offset unc freq cur max : F64)
    (h : F64.le (F64.neg max) max = true) : steerOne isSys offset unc freq cur max ≠ .panic := by
  unfold steerOne
  split
  · unfold F64.clamp
    simp only [h, Bool.not_true, Bool.false_eq_true, if_false]
    intro hc; cases hc
  · intro hc; cases hc

theorem steerClock_err (read : Filter) (leap : Option Leap) (rd : Int) (acc : SteerAcc)
    (index id : Nat) (m : Mock) (hr : WF read.est) (ha : WF acc.filter.est) (hm : m.Sane) {e : FErr}
    (he : (steerClock read leap rd acc index id m).err = some e) : acc.err = some e ∨ e.isBug = false := by
  unfold steerClock at he
  cases herr : acc.err with
  | some e' => simp only [herr] at he; left; exact he
  | none =>
    right
    simp only [herr] at he
    cases hoff : liftE (clockOffset read.est id) with
    | error e' =>
      simp only [hoff] at he
      cases he
      obtain ⟨e'', h1, rfl⟩ := liftE_err hoff
      rcases clockOffset_total hr id with ⟨v, hv⟩ | hv
      · rw [hv] at h1; cases h1
      · rw [hv] at h1; cases h1; rfl
    | ok ou =>
      obtain ⟨offset, unc⟩ := ou
      simp only [hoff] at he
      cases hfr : (if wantsFreq offset unc = true then
          Except.map (fun x => x.fst) (liftE (clockFrequency read.est id)) else Except.ok F64.zero) with
      | error e' =>
        simp only [hfr] at he
        cases he
        split at hfr
        · rcases clockFrequency_total hr id with ⟨v, hv⟩ | hv
          · rw [hv] at hfr; cases hfr
          · rw [hv] at hfr; cases hfr; rfl
        · cases hfr
      | ok freq =>
        simp only [hfr] at he
        cases hact : steerOne (index == 0) offset unc freq m.freq m.max with
        | panic => exact absurd hact (steerOne_noPanic _ _ _ _ _ _ hm)
        | setFreq actual change =>
          simp only [hact] at he
          cases habs : acc.filter.absorbFrequency id change with
          | error e' =>
            simp only [habs] at he
            cases he
            unfold Filter.absorbFrequency at habs
            rcases bindErr habs with h1 | ⟨est, _, h2⟩
            · exact estErr_noBug ha (.absorbFreq id change) h1
            · cases h2
          | ok filter => simp only [habs, herr] at he; cases he
        | step dur absorbed =>
          simp only [hact] at he
          cases habs : (if (index == 0) = true then acc.filter.absorbSystem id dur
              else acc.filter.absorbOffset id offset.neg) with
          | error e' =>
            simp only [habs] at he
            cases he
            split at habs
            · unfold Filter.absorbSystem at habs
              rcases bindErr habs with h1 | ⟨est, _, h2⟩
              · exact estErr_noBug ha (.absorbSys id dur) h1
              · cases h2
            · unfold Filter.absorbOffset at habs
              rcases bindErr habs with h1 | ⟨est, _, h2⟩
              · exact estErr_noBug ha (.absorbOffset id offset.neg) h1
              · cases h2
          | ok filter => simp only [habs, herr] at he; cases he

theorem steerLoop_err (read : Filter) (leap : Option Leap) (rd : Int) (hr : WF read.est) :
    ∀ (cs : List (Nat × Mock)) (acc : SteerAcc) (i : Nat), WF acc.filter.est → (∀ x ∈ cs, x.2.Sane) →
      ∀ e, (steerLoop read leap rd acc i cs).err = some e → acc.err = some e ∨ e.isBug = false
  | [], acc, i, _, _, e, he => by left; simpa [steerLoop] using he
  | (id, m) :: rest, acc, i, ha, hs, e, he => by
    simp only [steerLoop] at he
    rcases steerLoop_err read leap rd hr rest _ (i + 1) (steerClock_wf read leap rd acc i id m ha)
      (fun x hx => hs x (List.mem_cons_of_mem _ hx)) e he with h1 | h1
    · exact steerClock_err read leap rd acc i id m hr ha (hs (id, m) List.mem_cons_self) h1
    · right; exact h1

theorem steerAcc_shape' {c : Ctrl} {rd : Int} {acc : SteerAcc} (h : c.steerAcc = .ok (rd, acc)) :
    ∃ progressed leap, c.filter.progress c.now = .ok progressed ∧
      acc = steerLoop c.filter leap rd ⟨[], progressed, [], none, c.now⟩ 0 c.clocks := by
  unfold Ctrl.steerAcc at h
  split at h
  · cases h
  · obtain ⟨progressed, hp, h⟩ := bindE h
    obtain ⟨leap, _, h⟩ := bindE h
    obtain ⟨r, _, h⟩ := bindE h
    simp only [pure, Except.pure, Except.ok.injEq, Prod.mk.injEq] at h
    obtain ⟨rfl, rfl⟩ := h
    exact ⟨progressed, leap, hp, rfl⟩

/-- `steer_clocks` -/
theorem steerClocks_noBug (hlaw : WindowLaw) {c c' : Ctrl} {e : FErr} (h : CtrlInv c)
    (hs : ∀ x ∈ c.clocks, x.2.Sane) (hne : c.clocks ≠ []) (hc : c.steerClocks = (c', .error e)) :
    e.isBug = false := by
  unfold Ctrl.steerClocks at hc
  cases hacc : c.steerAcc with
  | error e' =>
    simp only [hacc] at hc
    cases hc
    unfold Ctrl.steerAcc at hacc
    split at hacc
    · rename_i hnil; exact absurd hnil hne
    · rcases bindErr hacc with h1 | ⟨progressed, _, hacc⟩
      · rw [Filter.progress_eq] at h1
        cases hx : liftE (progressTime c.filter.est c.now) with
        | error e'' =>
          rw [hx] at h1; cases h1
          exact estErr_noBug h.est (.progress c.now) hx
        | ok est => rw [hx] at h1; cases h1
      rcases bindErr hacc with h1 | ⟨leap, _, hacc⟩
      · obtain ⟨r, hr⟩ := leapVote_total hlaw c.filter c.cfg h.est
        rw [hr] at h1; cases h1
      rcases bindErr hacc with h1 | ⟨rd, _, hacc⟩
      · obtain ⟨r, hr⟩ := localRootDelay_total hlaw c.filter c.cfg h.est
        rw [hr] at h1; cases h1
      · cases hacc
  | ok p =>
    obtain ⟨rd, acc⟩ := p
    simp only [hacc] at hc
    cases herr : acc.err with
    | none => simp only [herr] at hc; cases hc
    | some e' =>
      simp only [herr] at hc
      cases hc
      obtain ⟨progressed, leap, hp, rfl⟩ := steerAcc_shape' hacc
      rcases steerLoop_err c.filter leap rd h.est c.clocks _ 0 (progress_wf h.est hp) hs e herr with h1 | h1
      · cases h1
      · exact h1

end NtpVerif.PtpFilter
