/- C43: CtrlSync over every controller operation and history. -/
import NtpVerif.Proofs.PtpLinkSync2

set_option linter.unusedSimpArgs false
set_option linter.unusedVariables false

namespace NtpVerif.PtpFilter
open NtpVerif.Estimator NtpVerif.PtpCtrl

theorem pairwise_ids {f : Filter} (hs : LinkSync f) : f.links.Pairwise (fun a b => a.id ≠ b.id) := by
  have := hs.nodup
  unfold List.Nodup at this
  rwa [List.pairwise_map] at this

theorem unique_link {f : Filter} (hs : LinkSync f) {a b : FLink} (ha : a ∈ f.links) (hb : b ∈ f.links)
    (h : a.id = b.id) : a = b :=
  eq_of_mem_of_key_eq (fun l : FLink => l.id) _ (pairwise_ids hs) a ha b hb h

theorem measurement_ids {f f' : Filter} {cfg : Cfg} {id : LinkId} {fwd : Bool} {v u : F64}
    (hm : f.measurement cfg id fwd v u = .ok f') : f'.links.map (·.id) = f.links.map (·.id) := by
  obtain ⟨i, l, g, hn, hcase⟩ := measurement_spec hm
  obtain ⟨l0, hl0, hi, hg, hl⟩ := note_spec hn
  have hspec := noteLink_spec f.est l0 fwd v u
  rw [← hl] at hspec
  obtain ⟨hid, _⟩ := hspec
  obtain ⟨x0, hx0, hix⟩ := find?_of_findIdx _ _ _ hi
  rw [hl0] at hx0
  cases hx0
  have hgl : g.links.map (·.id) = f.links.map (·.id) := by
    rw [hg]; exact ids_set hix hid
  rcases hcase with ⟨_, rfl⟩ | ⟨delay, noise, verd, _, _, hlinks⟩
  · exact hgl
  · rw [hlinks, hg]
    unfold setLink
    simp only [List.set_set]
    exact ids_set hix (by simp only; exact hid)

theorem ctrlSync_measurement {c c' : Ctrl} {id : LinkId} {fwd : Bool} {d u : Int} {r : RF (List SteerLog)}
    (hi : CtrlInv c) (h : CtrlSync c) (hm : c.measurement id fwd d u = (c', r)) : CtrlSync c' := by
  unfold Ctrl.measurement at hm
  split at hm
  · cases hm; exact h
  · cases hp : c.filter.progress c.now with
    | error e => simp only [hp] at hm; cases hm; exact h
    | ok f1 =>
      simp only [hp] at hm
      have s1 : LinkSync f1 := sync_progress h.sync hp
      have w1 : WF f1.est := progress_wf hi.est hp
      have fr1 : ∀ l ∈ f1.links, l.id.uid < c.nextLink := by
        rw [progress_links hp]; exact h.fresh
      cases hf : f1.measurement c.cfg id fwd (durAsSeconds d) (durAsSeconds u) with
      | error e => simp only [hf] at hm; cases hm; exact ⟨s1, fr1⟩
      | ok f2 =>
        simp only [hf] at hm
        exact ctrlSync_steerClocks (c := { c with filter := f2 })
          ⟨measurement_keeps_sync s1 w1 hf, fresh_of_ids (measurement_ids hf) fr1⟩ hm

theorem mem_eraseP_ids {f : Filter} (hs : LinkSync f) {id : LinkId} {z : FLink} :
    z ∈ (f.links.eraseP fun l => l.id == id) ↔ z ∈ f.links ∧ z.id ≠ id := by
  have hpw : f.links.Pairwise (fun a b => ¬ ((a.id == id) = true ∧ (b.id == id) = true)) :=
    (pairwise_ids hs).imp (by
      intro a b hab hboth
      simp only [beq_iff_eq] at hboth
      exact hab (hboth.1.trans hboth.2.symm))
  constructor
  · intro hz
    have hne : (z.id == id) = false := not_p_of_mem_eraseP _ _ hpw z hz
    exact ⟨List.mem_of_mem_eraseP hz, by simpa using hne⟩
  · intro ⟨hz, hne⟩
    exact (List.mem_eraseP_of_neg (by simpa using hne)).mpr hz

theorem ctrlSync_apply {c : Ctrl} (hi : CtrlInv c) (h : CtrlSync c) (op : COp) : CtrlSync (c.apply op).1 := by
  cases op with
  | tick d => exact ⟨h.sync, h.fresh⟩
  | addClock m w =>
    simp only [Ctrl.apply, Ctrl.addClock]
    split
    · rename_i filter hx
      refine ⟨sync_estOp h.sync (fun est he => by rw [addClock_links he]) hx, ?_⟩
      simp only
      rw [est_only_links hx]; exact h.fresh
    · exact ⟨h.sync, h.fresh⟩
  | addExt =>
    simp only [Ctrl.apply, Ctrl.addExternalClock]
    split
    · rename_i filter hx
      refine ⟨sync_estOp h.sync (fun est he => by rw [extClock_links.1 he]) hx, ?_⟩
      simp only
      rw [est_only_links hx]; exact h.fresh
    · exact ⟨h.sync, h.fresh⟩
  | rmExt id =>
    simp only [Ctrl.apply, Ctrl.removeExternalClock]
    split
    · rename_i filter hx
      refine ⟨sync_estOp h.sync (fun est he => by rw [extClock_links.2 he]) hx, ?_⟩
      simp only
      rw [est_only_links hx]; exact h.fresh
    · exact h
  | rmClock id =>
    simp only [Ctrl.apply, Ctrl.removeClock]
    split
    · exact h
    · split
      · exact h
      · split
        · exact h
        · split
          · rename_i filter hx
            unfold Filter.removeClock at hx
            split at hx
            · cases hx
            · refine ⟨sync_estOp h.sync (fun est he => removeClock_ids hi.est he) hx, ?_⟩
              simp only
              rw [est_only_links hx]; exact h.fresh
          · exact h
  | link a b decay =>
    simp only [Ctrl.apply, Ctrl.createLink]
    split
    · rename_i filter lid hx
      unfold Filter.addLinkF at hx
      simp only at hx
      split at hx
      · cases hx
      · split at hx
        · cases hx
        · split at hx
          · cases hx
          · split at hx
            · cases hx
            · simp only [Except.ok.injEq, Prod.mk.injEq] at hx
              obtain ⟨rfl, rfl⟩ := hx
              have hfresh : ∀ l ∈ c.filter.links, l.id ≠ (⟨a, b, c.nextLink⟩ : LinkId) := by
                intro l hl e
                have := h.fresh l hl
                rw [e] at this
                simp at this
              have hno : ¬ HasLink c.filter.est ⟨a, b, c.nextLink⟩ := by
                intro hh
                obtain ⟨l, hl, hlid, _⟩ := h.sync.owned _ hh
                exact hfresh l hl hlid
              refine ⟨⟨?_, ?_, ?_⟩, ?_⟩
              · intro l hl htr
                simp only [List.mem_append, List.mem_singleton] at hl
                rcases hl with hl | rfl
                · exact h.sync.sync l hl htr
                · simp only at htr ⊢
                  cases decay with
                  | none => simp at htr
                  | some dd =>
                    simp only [Option.isNone_some, Bool.false_and, Bool.false_eq_true, false_iff]
                    exact hno
              · intro x hx'
                obtain ⟨l, hl, a1, a2⟩ := h.sync.owned x hx'
                exact ⟨l, List.mem_append_left _ hl, a1, a2⟩
              · simp only [List.map_append, List.map_cons, List.map_nil]
                rw [List.nodup_append]
                refine ⟨h.sync.nodup, by simp, ?_⟩
                intro x hx' y hy
                simp only [List.mem_singleton] at hy
                subst hy
                obtain ⟨l, hl, rfl⟩ := List.mem_map.mp hx'
                exact hfresh l hl
              · intro l hl
                simp only [List.mem_append, List.mem_singleton] at hl
                rcases hl with hl | rfl
                · have := h.fresh l hl; simp only; omega
                · simp only; omega
    · exact h
  | drop id =>
    simp only [Ctrl.apply, Ctrl.dropLink]
    split
    · rename_i filter hx
      unfold Filter.removeLinkF at hx
      split at hx
      · cases hx
      · rename_i l hl
        have hlm := List.mem_of_find?_eq_some hl
        have hlid : l.id = id := by simpa using List.find?_some hl
        have hfr : ∀ z ∈ (c.filter.links.eraseP fun l => l.id == id), z.id.uid < c.nextLink :=
          fun z hz => h.fresh z (List.mem_of_mem_eraseP hz)
        have hnd : ((c.filter.links.eraseP fun l => l.id == id).map (·.id)).Nodup :=
          h.sync.nodup.sublist (List.Sublist.map _ List.eraseP_sublist)
        split at hx
        · rename_i hc
          simp only [Bool.and_eq_true] at hc
          obtain ⟨est, he, hx⟩ := bindE hx
          cases hx
          have hrm := hasLink_removeLink hi.est (liftE_ok he)
          refine ⟨⟨?_, ?_, hnd⟩, hfr⟩
          · intro z hz htr
            obtain ⟨hz1, hz2⟩ := (mem_eraseP_ids h.sync).mp hz
            simp only
            rw [hrm]
            constructor
            · intro ha; exact ⟨(h.sync.sync z hz1 htr).mp ha, hz2⟩
            · intro hh; exact (h.sync.sync z hz1 htr).mpr hh.1
          · intro x hx'
            simp only at hx'
            rw [hrm] at hx'
            obtain ⟨z, hz, a1, a2⟩ := h.sync.owned x hx'.1
            exact ⟨z, (mem_eraseP_ids h.sync).mpr ⟨hz, by rw [a1]; exact hx'.2⟩, a1, a2⟩
        · rename_i hc
          cases hx
          have hno : ¬ HasLink c.filter.est id := by
            intro hh
            obtain ⟨z, hz, a1, a2⟩ := h.sync.owned id hh
            have : z = l := unique_link h.sync hz hlm (by rw [a1, hlid])
            subst this
            have hact := (h.sync.sync z hz a2).mpr (by rw [hlid]; exact hh)
            simp [hact, a2] at hc
          refine ⟨⟨?_, ?_, hnd⟩, hfr⟩
          · intro z hz htr
            obtain ⟨hz1, _⟩ := (mem_eraseP_ids h.sync).mp hz
            exact h.sync.sync z hz1 htr
          · intro x hx'
            obtain ⟨z, hz, a1, a2⟩ := h.sync.owned x hx'
            refine ⟨z, (mem_eraseP_ids h.sync).mpr ⟨hz, ?_⟩, a1, a2⟩
            intro e
            rw [a1] at e
            rw [e] at hx'
            exact hno hx'
    · exact h
  | extUpdate id rd leap usable =>
    simp only [Ctrl.apply, Ctrl.externalDataUpdate]
    split
    · rename_i filter hx
      unfold Filter.externalDataUpdate at hx
      split at hx
      · rename_i i l hi' hl
        split at hx
        · rename_i e he
          cases hx
          simp only [findLinkIdx] at hi'
          obtain ⟨x0, hx0, hix⟩ := find?_of_findIdx _ _ _ hi'
          rw [hl] at hx0
          cases hx0
          have hlm := List.mem_of_find?_eq_some hl
          refine ⟨?_, ?_⟩
          · exact sync_set (y := { l with ext := some { e with rootDelay := durAsSeconds rd, leap := leap, usable := usable } })
              h.sync hix hlm rfl rfl c.filter.est
              (fun htr => h.sync.sync l hlm htr)
              (fun hh => by
                obtain ⟨z, hz, a1, a2⟩ := h.sync.owned _ hh
                rw [← unique_link h.sync hz hlm a1]; exact a2)
              (fun _ _ => Iff.rfl)
          · simp only [setLink]
            exact fresh_of_ids (ids_set hix rfl) h.fresh
        · cases hx
      · cases hx
    · exact h
  | measure id fwd d u =>
    simp only [Ctrl.apply]
    cases hm : c.measurement id fwd d u with
    | mk c' r => exact ctrlSync_measurement hi h hm

theorem ctrlSync_run : ∀ (ops : List COp) (c : Ctrl), CtrlInv c → CtrlSync c → CtrlSync (c.run ops).1
  | [], c, _, h => h
  | op :: ops, c, hi, h => by
    simp only [Ctrl.run]
    exact ctrlSync_run ops _ (inv_apply hi op) (ctrlSync_apply hi h op)

theorem ctrlSync_new {now : Nat} {max w : F64} {cfg : Cfg} {c : Ctrl} (h : Ctrl.new now max w cfg = .ok c) :
    CtrlSync c := by
  unfold Ctrl.new at h
  obtain ⟨filter, hf, h⟩ := bindE h
  cases h
  have hl : filter.links = [] := est_only_links hf
  have hel : filter.est.links = [] := by
    unfold Filter.addClock at hf
    obtain ⟨est, he, hf⟩ := bindE hf
    cases hf
    simp only
    rw [addClock_links (liftE_ok he)]
    rfl
  refine ⟨⟨?_, ?_, ?_⟩, ?_⟩
  · intro l hlm; simp only at hlm; rw [hl] at hlm; cases hlm
  · intro x hx
    obtain ⟨el, hel', _⟩ := hx
    simp only at hel'
    rw [hel] at hel'; cases hel'
  · simp only; rw [hl]; simp
  · intro l hlm; simp only at hlm; rw [hl] at hlm; cases hlm

end NtpVerif.PtpFilter
