/-
No-panic facts for the one-way (periodic) source filter of Model/SourceFilter Part 4: the only panic sites on
the measurement path of a stable filter are the i32 overflows of the two hysteresis scores, and those are
excluded by the score invariants.  Mathlib-free.
-/
import NtpVerif.Proofs.SourceFilterPoll
namespace NtpVerif.SourceFilter
open NtpVerif.Wrap NtpVerif.Kalman2

theorem updateWanderEstimate_some (score : Int) (wander : F64) (cfg : WanderCfg) (p w : F64)
    (hh : I32_MIN < cfg.hysteresis ∧ cfg.hysteresis ≤ I32_MAX)
    (hs : score = 0 ∨ (-cfg.hysteresis < score ∧ score < cfg.hysteresis)) :
    ∃ s' wd', updateWanderEstimate score wander cfg p w = some (s', wd') ∧
      (s' = 0 ∨ (-cfg.hysteresis < s' ∧ s' < cfg.hysteresis)) := by
  have hlo : checkedI32 (score - 1) = some (score - 1) := by
    apply checkedI32_some <;> simp only [I32_MIN, I32_MAX] at * <;> omega
  have hhi : checkedI32 (score + 1) = some (score + 1) := by
    apply checkedI32_some <;> simp only [I32_MIN, I32_MAX] at * <;> omega
  have hn : checkedI32 (-cfg.hysteresis) = some (-cfg.hysteresis) := by
    apply checkedI32_some <;> simp only [I32_MIN, I32_MAX] at * <;> omega
  unfold updateWanderEstimate
  simp only [bind]
  split
  · simp only [hlo, hn, Option.bind_some]
    split
    · exact ⟨_, _, rfl, Or.inl rfl⟩
    · split
      · exact ⟨_, _, rfl, Or.inl rfl⟩
      · exact ⟨_, _, rfl, Or.inr (by omega)⟩
  · split
    · simp only [hhi, hn, Option.bind_some]
      split
      · exact ⟨_, _, rfl, Or.inl rfl⟩
      · split
        · exact ⟨_, _, rfl, Or.inl rfl⟩
        · exact ⟨_, _, rfl, Or.inr (by omega)⟩
    · simp only [hn, Option.bind_some]
      split
      · exact ⟨_, _, rfl, Or.inl rfl⟩
      · split
        · exact ⟨_, _, rfl, Or.inl rfl⟩
        · exact ⟨_, _, rfl, Or.inr (by simp only [signum]; split <;> (try split) <;> omega)⟩

theorem Outcome.bind_ne_panic {α β : Type} (o : Outcome α) (f : α → Outcome β) (ho : o ≠ .panic)
    (hf : ∀ a, o = .ok a → f a ≠ .panic) : o.bind f ≠ .panic := by
  cases o with
  | ok a => exact hf a rfl
  | panic => exact absurd rfl ho
  | fuel => simp [Outcome.bind]

theorem orFuel_ne_panic {α : Type} (o : Option α) : orFuel o ≠ .panic := by
  cases o <;> simp [orFuel]

theorem correctPeriodicity_ne_panic (fuel : Nat) (k : KT) (period : Option F64) :
    correctPeriodicity fuel k period ≠ .panic := by
  unfold correctPeriodicity
  cases period with
  | none => simp
  | some p =>
    simp only
    exact Outcome.bind_ne_panic _ _ (orFuel_ne_panic _) (fun _ _ => by simp)

theorem progressTimeP_ne_panic (fuel : Nat) (k : KT) (t : Nat) (w : F64) (period : Option F64) :
    progressTimeP fuel k t w period ≠ .panic := by
  unfold progressTimeP
  split
  · simp
  · exact correctPeriodicity_ne_panic _ _ _

/-- one update of a stable one-way filter never hits a panic site when the two hysteresis scores satisfy
    their invariants (the only panic sites on this path are the i32 score overflows) -/
theorem OStable.update_ne_panic (fuel : Nat) (f : OStable) (sc : SrcCfg) (ac : AlgoCfg)
    (period : Option F64) (m : OMeas) (now : Nat)
    (hlim : -127 ≤ sc.lim.min ∧ sc.lim.min ≤ sc.lim.max ∧ sc.lim.max ≤ 126)
    (hh : I32_MIN < ac.poll.hysteresis ∧ ac.poll.hysteresis ≤ I32_MAX)
    (hw : I32_MIN < ac.wander.hysteresis ∧ ac.wander.hysteresis ≤ I32_MAX)
    (hpoll : PollInv ac.poll sc.lim f.poll)
    (hprec : f.precisionScore = 0 ∨
      (-ac.wander.hysteresis < f.precisionScore ∧ f.precisionScore < ac.wander.hysteresis)) :
    OStable.update fuel f sc ac period m now ≠ .panic := by
  unfold OStable.update
  simp only [bind, pure]
  split
  · simp [Outcome.bind]
  · refine Outcome.bind_ne_panic _ _ (progressTimeP_ne_panic _ _ _ _ _) (fun k _ => ?_)
    cases period <;> simp only [] <;>
    ( refine Outcome.bind_ne_panic _ _ (by first | exact orFuel_ne_panic _ | simp) (fun z _ => ?_)
      refine Outcome.bind_ne_panic _ _ (correctPeriodicity_ne_panic _ _ _) (fun k' _ => ?_)
      obtain ⟨s', wd', hwe, _⟩ := updateWanderEstimate_some f.precisionScore f.wander ac.wander
        (chi1 (absorbCore k.s 1 0 z f.noise.precision).chiArg)
        (absorbCore k.s 1 0 z f.noise.precision).weight hw hprec
      obtain ⟨ps', hps, _⟩ := updateDesiredPoll_inv f.poll ac.poll sc.lim
        (chi1 (absorbCore k.s 1 0 z f.noise.precision).chiArg)
        (absorbCore k.s 1 0 z f.noise.precision).weight
        (durToSeconds (tsSub m.localtime f.last.localtime)) hlim hh hpoll
      simp only [hwe, hps, orPanic, Outcome.bind]
      simp )

end NtpVerif.SourceFilter
