/-
Lemmas about `Model/NtsRecord`: consumed-byte bounds, validity of every parsed record, and the
round trip `Valid r → parseRecord (serialize r ++ rest) = (ok r, |serialize r|)`.
-/
import NtpVerif.Model.NtsRecord

namespace NtpVerif.NtsRecord

set_option linter.unusedSimpArgs false

/-! ### u16 -/

theorem u16_lt (a b : UInt8) : u16 a b < 65536 := by
  unfold u16
  have := a.toNat_lt; have := b.toNat_lt
  omega

theorem u16_putU16 (n : Nat) (h : n < 65536) :
    u16 (UInt8.ofNat (n / 256)) (UInt8.ofNat (n % 256)) = n := by
  unfold u16
  simp [UInt8.toNat_ofNat']
  omega

theorem putU16_length (n : Nat) : (putU16 n).length = 2 := rfl

theorem putU16s_length (xs : List Nat) : (putU16s xs).length = 2 * xs.length := by
  induction xs with
  | nil => rfl
  | cons x xs ih => simp [putU16s, List.flatMap_cons, putU16] at ih ⊢; omega

/-! ### canonical ids: what `ofU16` produces from a u16 -/

def NextProtocol.Canon (p : NextProtocol) : Prop := NextProtocol.ofU16 p.toU16 = p ∧ p.toU16 < 65536
def Aead.Canon (a : Aead) : Prop := Aead.ofU16 a.toU16 = a ∧ a.toU16 < 65536
def ErrorCode.Canon (c : ErrorCode) : Prop := ErrorCode.ofU16 c.toU16 = c ∧ c.toU16 < 65536

theorem NextProtocol.canon_ofU16 (v : Nat) (h : v < 65536) : (NextProtocol.ofU16 v).Canon := by
  unfold NextProtocol.Canon NextProtocol.ofU16
  by_cases h1 : v = Gen.NTSKE_PROTO_NTPV4
  · subst h1; simp [NextProtocol.toU16, NextProtocol.ofU16, Gen.NTSKE_PROTO_NTPV4, Gen.NTSKE_PROTO_NTPV4_OUT]
  · by_cases h2 : v = Gen.NTSKE_PROTO_DRAFT_NTPV5
    · subst h2
      simp [NextProtocol.toU16, NextProtocol.ofU16, Gen.NTSKE_PROTO_NTPV4, Gen.NTSKE_PROTO_DRAFT_NTPV5,
        Gen.NTSKE_PROTO_DRAFT_NTPV5_OUT]
    · simp [h1, h2, NextProtocol.toU16, NextProtocol.ofU16, h]

theorem Aead.canon_ofU16 (v : Nat) (h : v < 65536) : (Aead.ofU16 v).Canon := by
  unfold Aead.Canon Aead.ofU16
  by_cases h1 : v = Gen.NTSKE_AEAD_256
  · subst h1; simp [Aead.toU16, Aead.ofU16, Gen.NTSKE_AEAD_256, Gen.NTSKE_AEAD_256_OUT]
  · by_cases h2 : v = Gen.NTSKE_AEAD_512
    · subst h2
      simp [Aead.toU16, Aead.ofU16, Gen.NTSKE_AEAD_256, Gen.NTSKE_AEAD_512, Gen.NTSKE_AEAD_512_OUT]
    · simp [h1, h2, Aead.toU16, Aead.ofU16, h]

theorem ErrorCode.canon_ofU16 (v : Nat) (h : v < 65536) : (ErrorCode.ofU16 v).Canon := by
  unfold ErrorCode.Canon ErrorCode.ofU16
  by_cases h1 : v = Gen.NTSKE_ERR_CRITICAL
  · subst h1; simp [ErrorCode.toU16, ErrorCode.ofU16, Gen.NTSKE_ERR_CRITICAL, Gen.NTSKE_ERR_CRITICAL_OUT]
  · by_cases h2 : v = Gen.NTSKE_ERR_BAD_REQUEST
    · subst h2
      simp [ErrorCode.toU16, ErrorCode.ofU16, Gen.NTSKE_ERR_CRITICAL, Gen.NTSKE_ERR_BAD_REQUEST,
        Gen.NTSKE_ERR_BAD_REQUEST_OUT]
    · by_cases h3 : v = Gen.NTSKE_ERR_INTERNAL
      · subst h3
        simp [ErrorCode.toU16, ErrorCode.ofU16, Gen.NTSKE_ERR_CRITICAL, Gen.NTSKE_ERR_BAD_REQUEST,
          Gen.NTSKE_ERR_INTERNAL, Gen.NTSKE_ERR_INTERNAL_OUT]
      · simp [h1, h2, h3, ErrorCode.toU16, ErrorCode.ofU16, h]

/-- the record types `NtsRecord::parse` knows -/
def knownType (ty : Nat) : Prop :=
  ty = Gen.NTSKE_REC_END_OF_MESSAGE ∨ ty = Gen.NTSKE_REC_NEXT_PROTOCOL ∨ ty = Gen.NTSKE_REC_ERROR ∨
  ty = Gen.NTSKE_REC_WARNING ∨ ty = Gen.NTSKE_REC_AEAD ∨ ty = Gen.NTSKE_REC_NEW_COOKIE ∨
  ty = Gen.NTSKE_REC_SERVER ∨ ty = Gen.NTSKE_REC_PORT ∨ ty = Gen.NTSKE_REC_KEEP_ALIVE ∨
  ty = Gen.NTSKE_REC_SUPPORTED_PROTOCOLS ∨ ty = Gen.NTSKE_REC_SUPPORTED_ALGORITHMS ∨
  ty = Gen.NTSKE_REC_FIXED_KEY ∨ ty = Gen.NTSKE_REC_SERVER_DENY ∨ ty = Gen.NTSKE_REC_AUTHENTICATION

/-- the values `NtsRecord::parse` can produce (equivalently: the values that survive a
    serialise/parse round trip unchanged) -/
def Record.Valid : Record → Prop
  | .endOfMessage | .keepAlive => True
  | .nextProtocol ids => ids.length * 2 ≤ 65535 ∧ ∀ p ∈ ids, p.Canon
  | .error c => c.Canon
  | .warning c => c < 65536
  | .aeadAlgorithm ids => ids.length * 2 ≤ 65535 ∧ ∀ a ∈ ids, a.Canon
  | .newCookie d => d.length ≤ 65535
  | .server n => n.length ≤ 65535 ∧ validUtf8 n = true
  | .port p => p < 65536
  | .unknown ty _ d => d.length ≤ 65535 ∧ ty < 32768 ∧ ¬ knownType ty
  | .supportedNextProtocolList ps => ps.length * 2 ≤ 65535 ∧ ∀ p ∈ ps, p.Canon
  | .supportedAlgorithmList ds => ds.length * 2 * 2 ≤ 65535 ∧ ∀ d ∈ ds, d.id.Canon ∧ d.keysize < 65536
  | .fixedKeyRequest c2s s2c => c2s.length + s2c.length ≤ 65535 ∧ c2s.length = s2c.length
  | .ntpServerDeny d => d.length ≤ 65535 ∧ validUtf8 d = true
  | .authentication k => k.length ≤ 65535 ∧ validUtf8 k = true

/-! ### the body loops -/

theorem u16Loop_spec (missing : Nat) (body : Bytes) :
    ∀ xs c, u16Loop missing body = (.ok xs, c) →
      missing = 0 ∧ c = body.length ∧ body.length = 2 * xs.length ∧ (∀ x ∈ xs, x < 65536) := by
  fun_induction u16Loop missing body with
  | case1 h0 =>
    intro xs c h
    simp only [Prod.mk.injEq, Except.ok.injEq] at h
    obtain ⟨h1, h2⟩ := h
    subst h1 h2
    simp [h0]
  | case2 => intro xs c h; simp at h
  | case3 _ => intro xs c h; simp at h
  | case4 a b rest ys n hrec ih =>
    intro xs c h
    simp only [Prod.mk.injEq, Except.ok.injEq] at h
    obtain ⟨h1, h2⟩ := h
    obtain ⟨i1, i2, i3, i4⟩ := ih ys n hrec
    subst h1 h2
    refine ⟨i1, by simp [i2], by simp [i3]; omega, ?_⟩
    intro x hx
    simp only [List.mem_cons] at hx
    rcases hx with hx | hx
    · subst hx; exact u16_lt a b
    · exact i4 x hx
  | case5 a b rest e n hrec ih => intro xs c h; simp at h

theorem u16Loop_consumed (missing : Nat) (body : Bytes) : (u16Loop missing body).2 ≤ body.length := by
  fun_induction u16Loop missing body <;> simp_all <;> omega

theorem u16Loop_putU16s (xs : List Nat) (h : ∀ x ∈ xs, x < 65536) :
    u16Loop 0 (putU16s xs) = (.ok xs, 2 * xs.length) := by
  induction xs with
  | nil => rfl
  | cons x xs ih =>
    have hx : x < 65536 := h x (by simp)
    have ih' := ih (fun y hy => h y (by simp [hy]))
    simp only [putU16s, List.flatMap_cons, putU16, List.cons_append, List.nil_append] at ih' ⊢
    rw [u16Loop]
    simp only [ih']
    simp [u16_putU16 x hx]
    omega

theorem descLoop_spec (missing : Nat) (body : Bytes) :
    ∀ xs c, descLoop missing body = (.ok xs, c) →
      missing = 0 ∧ c = body.length ∧ body.length = 4 * xs.length ∧
      (∀ d ∈ xs, d.id.Canon ∧ d.keysize < 65536) := by
  fun_induction descLoop missing body with
  | case1 h0 =>
    intro xs c h
    simp only [Prod.mk.injEq, Except.ok.injEq] at h
    obtain ⟨h1, h2⟩ := h
    subst h1 h2
    simp [h0]
  | case2 => intro xs c h; simp at h
  | case3 _ => intro xs c h; simp at h
  | case4 _ _ => intro xs c h; simp at h
  | case5 _ _ _ => intro xs c h; simp at h
  | case6 a b c' d rest ys n hrec ih =>
    intro xs c h
    simp only [Prod.mk.injEq, Except.ok.injEq] at h
    obtain ⟨h1, h2⟩ := h
    obtain ⟨i1, i2, i3, i4⟩ := ih ys n hrec
    subst h1 h2
    refine ⟨i1, by simp [i2], by simp [i3]; omega, ?_⟩
    intro x hx
    simp only [List.mem_cons] at hx
    rcases hx with hx | hx
    · subst hx; exact ⟨Aead.canon_ofU16 _ (u16_lt a b), u16_lt c' d⟩
    · exact i4 x hx
  | case7 a b c' d rest e n hrec ih => intro xs c h; simp at h

theorem descLoop_consumed (missing : Nat) (body : Bytes) : (descLoop missing body).2 ≤ body.length := by
  fun_induction descLoop missing body <;> simp_all <;> omega

theorem descLoop_put (ds : List AlgDesc) (h : ∀ d ∈ ds, d.id.Canon ∧ d.keysize < 65536) :
    descLoop 0 (ds.flatMap fun d => putU16 d.id.toU16 ++ putU16 d.keysize) = (.ok ds, 4 * ds.length) := by
  induction ds with
  | nil => rfl
  | cons d ds ih =>
    have hd := h d (by simp)
    have ih' := ih (fun y hy => h y (by simp [hy]))
    simp only [List.flatMap_cons, putU16, List.cons_append, List.nil_append] at ih' ⊢
    rw [descLoop]
    simp only [ih']
    simp [u16_putU16 _ hd.1.2, u16_putU16 _ hd.2, hd.1.1]
    omega

/-! ### the single-shot body parsers -/

theorem drainBody_spec {r r' : Record} {m : Nat} {body : Bytes} {c : Nat}
    (h : drainBody r m body = (.ok r', c)) : r' = r ∧ m = 0 ∧ c = body.length := by
  unfold drainBody at h
  split at h <;> simp_all

theorem singleU16_spec {mk : Nat → Record} {size : Nat} {body : Bytes} {r : Record} {c : Nat}
    (h : singleU16 mk size body = (.ok r, c)) :
    ∃ v, v < 65536 ∧ r = mk v ∧ c = 2 ∧ size = 2 ∧ 2 ≤ body.length := by
  unfold singleU16 at h
  split at h
  · rename_i a b rest
    split at h
    · simp at h
    · simp only [Prod.mk.injEq, Except.ok.injEq] at h
      exact ⟨u16 a b, u16_lt a b, h.1.symm, h.2.symm, by omega, by simp⟩
  · simp at h

theorem exactBody_spec {mk : Bytes → Record} {m : Nat} {body : Bytes} {r : Record} {c : Nat}
    (h : exactBody mk m body = (.ok r, c)) : r = mk body ∧ m = 0 ∧ c = body.length := by
  unfold exactBody at h
  split at h <;> simp_all

theorem stringBody_spec {mk : Bytes → Record} {m : Nat} {body : Bytes} {r : Record} {c : Nat}
    (h : stringBody mk m body = (.ok r, c)) :
    r = mk body ∧ m = 0 ∧ c = body.length ∧ validUtf8 body = true := by
  unfold stringBody at h
  split at h
  · simp at h
  · split at h <;> simp_all

theorem fixedKeyBody_spec {size : Nat} {body : Bytes} {r : Record} {c : Nat}
    (h : fixedKeyBody size body = (.ok r, c)) :
    ∃ n, size = 2 * n ∧ c = 2 * n ∧ 2 * n ≤ body.length ∧
      r = .fixedKeyRequest (body.take n) ((body.drop n).take n) := by
  unfold fixedKeyBody at h
  simp only at h
  split at h
  · simp at h
  · split at h
    · simp at h
    · simp only [Prod.mk.injEq, Except.ok.injEq] at h
      exact ⟨size / 2, by omega, by omega, by omega, h.1.symm⟩

theorem mapPR_spec {α β : Type} {f : α → β} {x : PR α} {r : β} {c : Nat}
    (h : mapPR f x = (.ok r, c)) : ∃ a, x = (.ok a, c) ∧ r = f a := by
  unfold mapPR at h
  split at h
  · simp only [Prod.mk.injEq, Except.ok.injEq] at h
    exact ⟨_, by rw [h.2], h.1.symm⟩
  · simp at h

theorem drainBody_consumed (r : Record) (m : Nat) (body : Bytes) : (drainBody r m body).2 ≤ body.length := by
  unfold drainBody; split <;> simp

theorem singleU16_consumed (mk : Nat → Record) (size : Nat) (body : Bytes) :
    (singleU16 mk size body).2 ≤ body.length := by
  unfold singleU16; split
  · split <;> simp
  · simp

theorem exactBody_consumed (mk : Bytes → Record) (m : Nat) (body : Bytes) :
    (exactBody mk m body).2 ≤ body.length := by
  unfold exactBody; split <;> simp

theorem stringBody_consumed (mk : Bytes → Record) (m : Nat) (body : Bytes) :
    (stringBody mk m body).2 ≤ body.length := by
  unfold stringBody; split
  · simp
  · split <;> simp

theorem fixedKeyBody_consumed (size : Nat) (body : Bytes) : (fixedKeyBody size body).2 ≤ body.length := by
  unfold fixedKeyBody; simp only; split
  · simp
  · split <;> simp <;> omega

theorem mapPR_consumed {α β : Type} (f : α → β) (x : PR α) : (mapPR f x).2 = x.2 := by
  unfold mapPR; split <;> simp

/-- every outcome of the `match record_type`: never more than the available body is consumed -/
theorem parseBody_consumed (ty : Nat) (critical : Bool) (size : Nat) (body : Bytes) :
    (parseBody ty critical size body).2 ≤ body.length := by
  unfold parseBody
  simp only
  cases kindOf ty <;> simp only
  all_goals first
    | exact drainBody_consumed _ _ _
    | exact singleU16_consumed _ _ _
    | exact exactBody_consumed _ _ _
    | exact stringBody_consumed _ _ _
    | exact fixedKeyBody_consumed _ _
    | (rw [mapPR_consumed]; exact u16Loop_consumed _ _)
    | (rw [mapPR_consumed]; exact descLoop_consumed _ _)

/-! ### `parseBody` / `parseRecord`: what an accepted record looks like -/

theorem kindOf_unknown {ty : Nat} (h : kindOf ty = .unknown) : ¬ knownType ty := by
  intro hk
  unfold knownType at hk
  unfold kindOf at h
  rcases hk with hk | hk | hk | hk | hk | hk | hk | hk | hk | hk | hk | hk | hk | hk <;>
    (subst hk; revert h; decide)

theorem kindOf_of_not_known {ty : Nat} (h : ¬ knownType ty) : kindOf ty = .unknown := by
  unfold knownType at h
  simp only [not_or] at h
  obtain ⟨h0, h1, h2, h3, h4, h5, h6, h7, h8, h9, h10, h11, h12, h13⟩ := h
  unfold kindOf
  simp only [h0, h1, h2, h3, h4, h5, h6, h7, h8, h9, h10, h11, h12, h13, if_false]

theorem canon_map_proto (xs : List Nat) (h : ∀ x ∈ xs, x < 65536) :
    ∀ p ∈ xs.map NextProtocol.ofU16, p.Canon := by
  intro p hp
  simp only [List.mem_map] at hp
  obtain ⟨x, hx, rfl⟩ := hp
  exact NextProtocol.canon_ofU16 x (h x hx)

theorem canon_map_aead (xs : List Nat) (h : ∀ x ∈ xs, x < 65536) :
    ∀ p ∈ xs.map Aead.ofU16, p.Canon := by
  intro p hp
  simp only [List.mem_map] at hp
  obtain ⟨x, hx, rfl⟩ := hp
  exact Aead.canon_ofU16 x (h x hx)

theorem parseBody_spec {ty : Nat} {critical : Bool} {size : Nat} {body : Bytes} {r : Record} {c : Nat}
    (h : parseBody ty critical size body = (.ok r, c))
    (hb : body.length ≤ size) (hs : size < 65536) (ht : ty < 32768) :
    r.Valid ∧ r.bodySize ≤ c ∧ c ≤ body.length := by
  unfold parseBody at h
  simp only at h
  cases hk : kindOf ty <;> simp only [hk] at h
  case endOfMessage =>
    obtain ⟨rfl, _, rfl⟩ := drainBody_spec h
    simp [Record.Valid, Record.bodySize]
  case keepAlive =>
    obtain ⟨rfl, _, rfl⟩ := drainBody_spec h
    simp [Record.Valid, Record.bodySize]
  case nextProtocol =>
    obtain ⟨xs, hx, rfl⟩ := mapPR_spec h
    obtain ⟨_, rfl, h3, h4⟩ := u16Loop_spec _ _ _ _ hx
    refine ⟨⟨by simp; omega, canon_map_proto xs h4⟩, by simp [Record.bodySize]; omega, Nat.le_refl _⟩
  case aead =>
    obtain ⟨xs, hx, rfl⟩ := mapPR_spec h
    obtain ⟨_, rfl, h3, h4⟩ := u16Loop_spec _ _ _ _ hx
    refine ⟨⟨by simp; omega, canon_map_aead xs h4⟩, by simp [Record.bodySize]; omega, Nat.le_refl _⟩
  case supportedProtocols =>
    obtain ⟨xs, hx, rfl⟩ := mapPR_spec h
    obtain ⟨_, rfl, h3, h4⟩ := u16Loop_spec _ _ _ _ hx
    refine ⟨⟨by simp; omega, canon_map_proto xs h4⟩, by simp [Record.bodySize]; omega, Nat.le_refl _⟩
  case supportedAlgorithms =>
    obtain ⟨xs, hx, rfl⟩ := mapPR_spec h
    obtain ⟨_, rfl, h3, h4⟩ := descLoop_spec _ _ _ _ hx
    refine ⟨⟨by omega, h4⟩, by simp [Record.bodySize]; omega, Nat.le_refl _⟩
  case error =>
    obtain ⟨v, hv, rfl, rfl, _, h5⟩ := singleU16_spec h
    exact ⟨ErrorCode.canon_ofU16 v hv, by simp [Record.bodySize], h5⟩
  case warning =>
    obtain ⟨v, hv, rfl, rfl, _, h5⟩ := singleU16_spec h
    exact ⟨hv, by simp [Record.bodySize], h5⟩
  case port =>
    obtain ⟨v, hv, rfl, rfl, _, h5⟩ := singleU16_spec h
    exact ⟨hv, by simp [Record.bodySize], h5⟩
  case newCookie =>
    obtain ⟨rfl, _, rfl⟩ := exactBody_spec h
    exact ⟨by simp [Record.Valid]; omega, by simp [Record.bodySize], Nat.le_refl _⟩
  case unknown =>
    obtain ⟨rfl, _, rfl⟩ := exactBody_spec h
    exact ⟨⟨by omega, ht, kindOf_unknown hk⟩, by simp [Record.bodySize], Nat.le_refl _⟩
  case server =>
    obtain ⟨rfl, _, rfl, hu⟩ := stringBody_spec h
    exact ⟨⟨by omega, hu⟩, by simp [Record.bodySize], Nat.le_refl _⟩
  case serverDeny =>
    obtain ⟨rfl, _, rfl, hu⟩ := stringBody_spec h
    exact ⟨⟨by omega, hu⟩, by simp [Record.bodySize], Nat.le_refl _⟩
  case authentication =>
    obtain ⟨rfl, _, rfl, hu⟩ := stringBody_spec h
    exact ⟨⟨by omega, hu⟩, by simp [Record.bodySize], Nat.le_refl _⟩
  case fixedKey =>
    obtain ⟨n, h1, rfl, h3, rfl⟩ := fixedKeyBody_spec h
    refine ⟨⟨?_, ?_⟩, ?_, h3⟩ <;> simp [Record.bodySize, List.length_take, List.length_drop] <;> omega

/-- every outcome of `NtsRecord::parse` consumes at most what is available and at most header + 65535 -/
theorem parseRecord_consumed (inp : Bytes) :
    (parseRecord inp).2 ≤ inp.length ∧ (parseRecord inp).2 ≤ 4 + 65535 := by
  unfold parseRecord
  split
  · rename_i t0 t1 s0 s1 rest
    simp only
    have h := parseBody_consumed (u16 t0 t1 % (Gen.NTSKE_TYPE_MASK_IN + 1))
      (decide (u16 t0 t1 / Gen.NTSKE_CRITICAL_MASK_IN % 2 = 1)) (u16 s0 s1) (rest.take (u16 s0 s1))
    have hl : (rest.take (u16 s0 s1)).length ≤ rest.length := by simp [List.length_take]; omega
    have hl2 : (rest.take (u16 s0 s1)).length ≤ u16 s0 s1 := by simp [List.length_take]; omega
    have := u16_lt s0 s1
    simp only [List.length_cons]
    omega
  · rename_i hne
    simp only
    refine ⟨Nat.le_refl _, ?_⟩
    match inp, hne with
    | [], _ => simp
    | [_], _ => simp
    | [_, _], _ => simp
    | [_, _, _], _ => simp
    | a :: b :: c :: d :: rest, hne => exact absurd rfl (hne a b c d rest)

/-- an accepted record is `Valid`, its re-serialisation is no longer than what was consumed, and at
    least the 4 header bytes were consumed -/
theorem parseRecord_spec {inp : Bytes} {r : Record} {c : Nat} (h : parseRecord inp = (.ok r, c)) :
    r.Valid ∧ 4 + r.bodySize ≤ c ∧ c ≤ inp.length := by
  refine ⟨?_, ?_, by have := (parseRecord_consumed inp).1; rw [h] at this; exact this⟩
  all_goals
    unfold parseRecord at h
    split at h
    · rename_i t0 t1 s0 s1 rest
      simp only at h
      generalize hpb : parseBody (u16 t0 t1 % (Gen.NTSKE_TYPE_MASK_IN + 1))
        (decide (u16 t0 t1 / Gen.NTSKE_CRITICAL_MASK_IN % 2 = 1)) (u16 s0 s1)
        (rest.take (u16 s0 s1)) = res at h
      obtain ⟨r', c'⟩ := res
      simp only [Prod.mk.injEq] at h
      obtain ⟨rfl, rfl⟩ := h
      have hl2 : (rest.take (u16 s0 s1)).length ≤ u16 s0 s1 := by simp [List.length_take]; omega
      have hty : u16 t0 t1 % (Gen.NTSKE_TYPE_MASK_IN + 1) < 32768 := by
        simp only [Gen.NTSKE_TYPE_MASK_IN]; omega
      obtain ⟨v1, v2, v3⟩ := parseBody_spec hpb hl2 (u16_lt s0 s1) hty
      first | exact v1 | omega
    · simp at h

/-! ### round trip: a `Valid` record serialises, and the serialisation parses back to it -/

theorem Record.body_length {r : Record} (h : r.Valid) : r.body.length = r.bodySize := by
  cases r <;> simp [Record.body, Record.bodySize, putU16s_length, putU16] <;> try omega
  case supportedAlgorithmList ds =>
    induction ds with
    | nil => rfl
    | cons d ds ih =>
      have : Record.Valid (.supportedAlgorithmList ds) := by
        simp only [Record.Valid] at h ⊢
        exact ⟨by simp at h; omega, fun x hx => h.2 x (by simp [hx])⟩
      have := ih this
      simp [List.flatMap_cons, putU16] at this ⊢
      omega

theorem Record.bodySize_le {r : Record} (h : r.Valid) : r.bodySize ≤ 65535 := by
  cases r <;> simp [Record.Valid] at h <;> simp [Record.bodySize] <;> omega

theorem Record.typeWord_lt {r : Record} (h : r.Valid) : r.typeWord < 65536 := by
  cases r <;> try (simp only [Record.typeWord]; decide)
  case unknown ty c d =>
    simp only [Record.Valid] at h
    simp only [Record.typeWord, Gen.NTSKE_CRITICAL_BIT]
    split <;> omega

theorem serialize_valid {r : Record} (h : r.Valid) :
    serialize r = some (putU16 r.typeWord ++ putU16 r.bodySize ++ r.body) := by
  unfold serialize
  simp [Record.bodySize_le h]

theorem parseRecord_frame (tw sz : Nat) (body rest : Bytes) (htw : tw < 65536) (hsz : sz < 65536)
    (hb : body.length = sz) :
    parseRecord (putU16 tw ++ putU16 sz ++ body ++ rest) =
      ((parseBody (tw % 32768) (decide (tw / 32768 % 2 = 1)) sz body).1,
       (parseBody (tw % 32768) (decide (tw / 32768 % 2 = 1)) sz body).2 + 4) := by
  simp only [putU16, List.cons_append, List.nil_append, List.append_assoc, parseRecord,
    u16_putU16 tw htw, u16_putU16 sz hsz, List.take_left' hb, Gen.NTSKE_CRITICAL_MASK_IN,
    Gen.NTSKE_TYPE_MASK_IN]

/-- the arm of `parse` that handles what `serialize` writes for `r` -/
def Record.kind : Record → Kind
  | .endOfMessage => .endOfMessage | .nextProtocol _ => .nextProtocol | .error _ => .error
  | .warning _ => .warning | .aeadAlgorithm _ => .aead | .newCookie _ => .newCookie
  | .server _ => .server | .port _ => .port | .unknown _ _ _ => .unknown | .keepAlive => .keepAlive
  | .supportedNextProtocolList _ => .supportedProtocols
  | .supportedAlgorithmList _ => .supportedAlgorithms | .fixedKeyRequest _ _ => .fixedKey
  | .ntpServerDeny _ => .serverDeny | .authentication _ => .authentication

theorem kindOf_typeWord {r : Record} (h : r.Valid) : kindOf (r.typeWord % 32768) = r.kind := by
  cases r <;> try (simp only [Record.typeWord, Record.kind]; decide)
  case unknown ty c d =>
    simp only [Record.Valid] at h
    have : (Record.unknown ty c d).typeWord % 32768 = ty := by
      simp only [Record.typeWord, Gen.NTSKE_CRITICAL_BIT]; split <;> omega
    rw [this]
    exact kindOf_of_not_known h.2.2

theorem map_toU16_lt_proto (ids : List NextProtocol) (h : ∀ p ∈ ids, p.Canon) :
    (∀ x ∈ ids.map NextProtocol.toU16, x < 65536) ∧
      (ids.map NextProtocol.toU16).map NextProtocol.ofU16 = ids := by
  constructor
  · intro x hx
    simp only [List.mem_map] at hx
    obtain ⟨p, hp, rfl⟩ := hx
    exact (h p hp).2
  · rw [List.map_map]
    conv => rhs; rw [← List.map_id ids]
    apply List.map_congr_left
    intro p hp
    exact (h p hp).1

theorem map_toU16_lt_aead (ids : List Aead) (h : ∀ p ∈ ids, p.Canon) :
    (∀ x ∈ ids.map Aead.toU16, x < 65536) ∧ (ids.map Aead.toU16).map Aead.ofU16 = ids := by
  constructor
  · intro x hx
    simp only [List.mem_map] at hx
    obtain ⟨p, hp, rfl⟩ := hx
    exact (h p hp).2
  · rw [List.map_map]
    conv => rhs; rw [← List.map_id ids]
    apply List.map_congr_left
    intro p hp
    exact (h p hp).1

/-- `parse(serialize(r) ++ anything) = r`, consuming exactly the serialisation -/
theorem parseRecord_serialize {r : Record} (h : r.Valid) (rest : Bytes) :
    parseRecord (putU16 r.typeWord ++ putU16 r.bodySize ++ r.body ++ rest) = (.ok r, 4 + r.bodySize) := by
  have hsz := Record.bodySize_le h
  rw [parseRecord_frame _ _ _ _ (Record.typeWord_lt h) (by omega) (Record.body_length h)]
  have hk := kindOf_typeWord h
  have hbl := Record.body_length h
  unfold parseBody
  simp only [hk, hbl, Nat.sub_self]
  cases r <;> simp only [Record.kind]
  case endOfMessage => simp [drainBody, Record.body, Record.bodySize]
  case keepAlive => simp [drainBody, Record.body, Record.bodySize]
  case nextProtocol ids =>
    simp only [Record.Valid] at h
    obtain ⟨m1, m2⟩ := map_toU16_lt_proto ids h.2
    simp [Record.body, Record.bodySize, u16Loop_putU16s _ m1, mapPR, m2]; omega
  case aeadAlgorithm ids =>
    simp only [Record.Valid] at h
    obtain ⟨m1, m2⟩ := map_toU16_lt_aead ids h.2
    simp [Record.body, Record.bodySize, u16Loop_putU16s _ m1, mapPR, m2]; omega
  case supportedNextProtocolList ids =>
    simp only [Record.Valid] at h
    obtain ⟨m1, m2⟩ := map_toU16_lt_proto ids h.2
    simp [Record.body, Record.bodySize, u16Loop_putU16s _ m1, mapPR, m2]; omega
  case supportedAlgorithmList ds =>
    simp only [Record.Valid] at h
    simp [Record.body, Record.bodySize, descLoop_put _ h.2, mapPR]; omega
  case error c =>
    simp only [Record.Valid] at h
    simp [Record.body, Record.bodySize, singleU16, putU16, u16_putU16 _ h.2, h.1]
  case warning c =>
    simp only [Record.Valid] at h
    simp [Record.body, Record.bodySize, singleU16, putU16, u16_putU16 _ h]
  case port c =>
    simp only [Record.Valid] at h
    simp [Record.body, Record.bodySize, singleU16, putU16, u16_putU16 _ h]
  case newCookie d => simp [exactBody, Record.body, Record.bodySize]; omega
  case unknown ty c d =>
    simp only [Record.Valid] at h
    have : (Record.unknown ty c d).typeWord % 32768 = ty := by
      simp only [Record.typeWord, Gen.NTSKE_CRITICAL_BIT]; split <;> omega
    have hc : decide ((Record.unknown ty c d).typeWord / 32768 % 2 = 1) = c := by
      simp only [Record.typeWord, Gen.NTSKE_CRITICAL_BIT]
      cases c <;> simp <;> omega
    simp [exactBody, Record.body, Record.bodySize, this, hc]; omega
  case server n =>
    simp only [Record.Valid] at h
    simp [stringBody, Record.body, Record.bodySize, h.2]; omega
  case ntpServerDeny n =>
    simp only [Record.Valid] at h
    simp [stringBody, Record.body, Record.bodySize, h.2]; omega
  case authentication n =>
    simp only [Record.Valid] at h
    simp [stringBody, Record.body, Record.bodySize, h.2]; omega
  case fixedKeyRequest c2s s2c =>
    simp only [Record.Valid] at h
    obtain ⟨h1, h2⟩ := h
    have e1 : (c2s.length + s2c.length) / 2 = c2s.length := by omega
    have t1 : (c2s ++ s2c).take c2s.length = c2s := List.take_left' rfl
    have t2 : ((c2s ++ s2c).drop c2s.length).take c2s.length = s2c := by
      rw [List.drop_left' rfl, h2]; exact List.take_length
    simp only [fixedKeyBody, Record.body, Record.bodySize, e1, List.length_append, t1, t2]
    have e2 : ¬ (c2s.length + s2c.length < 2 * c2s.length) := by omega
    have e3 : c2s.length + s2c.length = 2 * c2s.length := by omega
    simp [e2, e3]
    omega

end NtpVerif.NtsRecord
