/- Lemmas about the controller's source map and the wrapper's FIFO loop (model `NtpVerif.Model.CtrlLoop`). -/
import NtpVerif.Model.CtrlLoop

namespace NtpVerif.CtrlLoop
open NtpVerif.Select NtpVerif.Leap

/-! ### the association list behaves like a map -/

def Keys (m : List (Id × Entry)) : List Id := m.map (·.1)

theorem lookup_remove (m : List (Id × Entry)) (id k : Id) :
    lookup (remove m id) k = if k = id then none else lookup m k := by
  induction m with
  | nil => simp [remove, lookup]
  | cons p r ih =>
    obtain ⟨a, e⟩ := p
    unfold remove at ih ⊢
    by_cases ha : a = id
    · subst ha
      simp only [List.filter_cons, ne_eq, not_true_eq_false, decide_false, Bool.false_eq_true, if_false, ih]
      by_cases hk : k = a
      · simp [hk]
      · have : ¬ a = k := fun e => hk e.symm
        simp [hk, lookup, this]
    · simp only [List.filter_cons, ne_eq, ha, not_false_eq_true, decide_true, if_true, lookup, ih]
      by_cases hk : a = k
      · subst hk; simp [ha]
      · simp [hk]

theorem lookup_insert (m : List (Id × Entry)) (id k : Id) (e : Entry) :
    lookup (insert m id e) k = if k = id then some e else lookup m k := by
  unfold insert
  simp only [lookup, lookup_remove]
  by_cases hk : k = id
  · subst hk; simp
  · have : ¬ id = k := fun e => hk e.symm
    simp [hk, this]

theorem lookup_mapVal (m : List (Id × Entry)) (g : Id → Entry → Entry) (k : Id) :
    lookup (m.map (fun p => (p.1, g p.1 p.2))) k = (lookup m k).map (g k) := by
  induction m with
  | nil => simp [lookup]
  | cons p r ih =>
    obtain ⟨a, e⟩ := p
    simp only [List.map_cons, lookup, ih]
    by_cases hk : a = k
    · subst hk; simp
    · simp [hk]

theorem lookup_modify (m : List (Id × Entry)) (id k : Id) (f : Entry → Entry) :
    lookup (modify m id f) k = if k = id then (lookup m k).map f else lookup m k := by
  unfold modify
  rw [lookup_mapVal m (fun a e => if a = id then f e else e) k]
  by_cases hk : k = id
  · simp [hk]
  · simp [hk]

/-- the abstraction of an entry: (has a snapshot, usable) -/
def absEntry (e : Option Entry) : Option (Bool × Bool) := e.map (fun e => (e.snap.isSome, e.usable))

theorem abs_refreshEntry (vals : List (Id × Cand)) (k : Id) (e : Entry) :
    ((refreshEntry vals k e).snap.isSome, (refreshEntry vals k e).usable) = (e.snap.isSome, e.usable) := by
  unfold refreshEntry
  split
  · rename_i h _; simp [h]
  · rfl

theorem lookup_refresh (m : List (Id × Entry)) (vals : List (Id × Cand)) (k : Id) :
    absEntry (lookup (refresh m vals) k) = absEntry (lookup m k) := by
  unfold refresh
  rw [lookup_mapVal m (refreshEntry vals) k]
  cases lookup m k with
  | none => rfl
  | some e => simp only [absEntry, Option.map_some]; rw [abs_refreshEntry]

theorem abs_progressEntry (t : Nat) (k : Id) (e : Entry) :
    ((progressEntry t k e).snap.isSome, (progressEntry t k e).usable) = (e.snap.isSome, e.usable) := by
  unfold progressEntry
  split <;> rfl

theorem lookup_progress (m : List (Id × Entry)) (t : Nat) (k : Id) :
    absEntry (lookup (progress m t) k) = absEntry (lookup m k) := by
  unfold progress
  rw [lookup_mapVal m (progressEntry t) k]
  cases lookup m k with
  | none => rfl
  | some e => simp only [absEntry, Option.map_some]; rw [abs_progressEntry]

theorem keys_remove_nodup (m : List (Id × Entry)) (id : Id) (h : (Keys m).Nodup) : (Keys (remove m id)).Nodup := by
  unfold Keys remove
  exact List.Nodup.sublist (List.Sublist.map _ List.filter_sublist) h

theorem not_mem_keys_remove (m : List (Id × Entry)) (id : Id) : id ∉ Keys (remove m id) := by
  unfold Keys remove
  simp [List.mem_map, List.mem_filter]

theorem keys_insert_nodup (m : List (Id × Entry)) (id : Id) (e : Entry) (h : (Keys m).Nodup) :
    (Keys (insert m id e)).Nodup := by
  unfold insert
  show (id :: Keys (remove m id)).Nodup
  exact List.nodup_cons.mpr ⟨not_mem_keys_remove m id, keys_remove_nodup m id h⟩

theorem keys_modify (m : List (Id × Entry)) (id : Id) (f : Entry → Entry) : Keys (modify m id f) = Keys m := by
  unfold Keys modify
  rw [List.map_map]
  apply List.map_congr_left
  intro p _
  rfl

theorem keys_progress (m : List (Id × Entry)) (t : Nat) : Keys (progress m t) = Keys m := by
  unfold Keys progress
  rw [List.map_map]
  apply List.map_congr_left
  intro p _
  rfl

theorem keys_refresh (m : List (Id × Entry)) (vals : List (Id × Cand)) : Keys (refresh m vals) = Keys m := by
  unfold Keys refresh
  rw [List.map_map]
  apply List.map_congr_left
  intro p _
  rfl

/-- with unique keys, membership is lookup -/
theorem mem_iff_lookup (m : List (Id × Entry)) (h : (Keys m).Nodup) (k : Id) (e : Entry) :
    (k, e) ∈ m ↔ lookup m k = some e := by
  induction m with
  | nil => simp [lookup]
  | cons p r ih =>
    obtain ⟨a, e'⟩ := p
    have hn := List.nodup_cons.mp h
    simp only [List.mem_cons, lookup]
    by_cases ha : a = k
    · subst ha
      simp only [if_true, Option.some.injEq]
      constructor
      · rintro (h1 | h1)
        · cases h1; rfl
        · exact absurd (List.mem_map.mpr ⟨(a, e), h1, rfl⟩) hn.1
      · rintro rfl; exact Or.inl rfl
    · simp only [ha, if_false]
      rw [← ih hn.2]
      constructor
      · rintro (h1 | h1)
        · cases h1; exact absurd rfl ha
        · exact h1
      · exact Or.inr

/-! ### `update_clock` never touches the map -/

theorem updateClock_srcs (cfg : Cfg) (steer : List String) (c : Ctrl) :
    (updateClock cfg steer c).1.srcs = c.srcs := by
  unfold updateClock
  split
  · rfl
  · rfl
  · split
    · rfl
    · rfl

/-! ### the loop as a fold over the operations the controller sees -/

/-- operations applied to the controller, in the order it sees them -/
inductive Applied where
  | add (id : Id)
  | msg (id : Id) (m : WMsg)

def applyOne (cfg : Cfg) (c : Ctrl) : Applied → Ctrl
  | .add id => addSource c id
  | .msg id m => (dispatch cfg c id m).1

/-- the controller-side history of an event list, starting with channel content `q` -/
def appliedOf (q : List (Id × WMsg)) : List Ev → List Applied
  | [] => []
  | .add id :: es => .add id :: appliedOf q es
  | .send id m :: es => appliedOf (q ++ [(id, m)]) es
  | .recv :: es =>
    match q with
    | [] => appliedOf [] es
    | (id, m) :: q' => .msg id m :: appliedOf q' es

def msgsOf : List Applied → List (Id × WMsg)
  | [] => []
  | .add _ :: r => msgsOf r
  | .msg id m :: r => (id, m) :: msgsOf r

def sentOf : List Ev → List (Id × WMsg)
  | [] => []
  | .send id m :: r => (id, m) :: sentOf r
  | _ :: r => sentOf r

theorem run_ctrl (cfg : Cfg) (w : W) (evs : List Ev) :
    (run cfg w evs).1.ctrl = (appliedOf w.queue evs).foldl (applyOne cfg) w.ctrl := by
  induction evs generalizing w with
  | nil => rfl
  | cons e es ih =>
    cases e with
    | add id => simp only [run, step, appliedOf, List.foldl_cons, applyOne]; rw [ih]
    | send id m => simp only [run, step, appliedOf]; rw [ih]
    | recv =>
      obtain ⟨q, c⟩ := w
      cases q with
      | nil => simp only [run, step, appliedOf]; rw [ih]
      | cons p q' =>
        obtain ⟨id, m⟩ := p
        simp only [run, step, appliedOf, List.foldl_cons, applyOne]; rw [ih]

/-- FIFO: what was handled, followed by what is still queued, is what was queued followed by what was sent -/
theorem fifo (cfg : Cfg) (w : W) (evs : List Ev) :
    msgsOf (appliedOf w.queue evs) ++ (run cfg w evs).1.queue = w.queue ++ sentOf evs := by
  induction evs generalizing w with
  | nil => simp [appliedOf, msgsOf, run, sentOf]
  | cons e es ih =>
    cases e with
    | add id =>
      simp only [run, step, appliedOf, msgsOf, sentOf]
      exact ih { w with ctrl := addSource w.ctrl id }
    | send id m =>
      simp only [run, step, appliedOf, sentOf]
      have := ih { w with queue := w.queue ++ [(id, m)] }
      simpa using this
    | recv =>
      obtain ⟨q, c⟩ := w
      cases q with
      | nil => simp only [run, step, appliedOf, sentOf]; exact ih ⟨[], c⟩
      | cons p q' =>
        obtain ⟨id, m⟩ := p
        simp only [run, step, appliedOf, msgsOf, sentOf, List.cons_append]
        have := ih ⟨q', (dispatch cfg c id m).1⟩
        simp only at this
        rw [this]

/-! ### the per-source specification: a three-state machine per id -/

/-- `none` = not registered; `some (reported, usable)` -/
def specStep (id : Id) (st : Option (Bool × Bool)) : Applied → Option (Bool × Bool)
  | .add i => if i = id then some (false, false) else st
  | .msg i (.source _ _ _ _) => if i = id then st.map (fun p => (true, p.2)) else st
  | .msg i (.usability b) => if i = id then st.map (fun p => (p.1, b)) else st
  | .msg i .dropped => if i = id then none else st

def specOf (id : Id) (ops : List Applied) : Option (Bool × Bool) := ops.foldl (specStep id) none

theorem apply_spec (cfg : Cfg) (c : Ctrl) (hnd : (Keys c.srcs).Nodup) (a : Applied) (id : Id) :
    (Keys (applyOne cfg c a).srcs).Nodup ∧
    absEntry (lookup (applyOne cfg c a).srcs id) = specStep id (absEntry (lookup c.srcs id)) a := by
  cases a with
  | add i =>
    simp only [applyOne, addSource, specStep]
    refine ⟨keys_insert_nodup _ _ _ hnd, ?_⟩
    rw [lookup_insert]
    by_cases h : id = i
    · subst h; simp [absEntry]
    · have : ¬ i = id := fun e => h e.symm
      simp [h, this]
  | msg i m =>
    cases m with
    | usability b =>
      simp only [applyOne, dispatch, sourceUpdate, specStep]
      refine ⟨by rw [keys_modify]; exact hnd, ?_⟩
      rw [lookup_modify]
      by_cases h : id = i
      · subst h
        cases lookup c.srcs id <;> simp [absEntry]
      · have : ¬ i = id := fun e => h e.symm
        simp [h, this]
    | dropped =>
      simp only [applyOne, dispatch, removeSource, specStep]
      refine ⟨keys_remove_nodup _ _ hnd, ?_⟩
      rw [lookup_remove]
      by_cases h : id = i
      · subst h; simp [absEntry]
      · have : ¬ i = id := fun e => h e.symm
        simp [h, this]
    | source snap t vals steer =>
      simp only [applyOne, dispatch, sourceMessage, specStep]
      cases hl : lookup c.srcs i with
      | none =>
        simp only
        refine ⟨hnd, ?_⟩
        by_cases h : i = id
        · subst h; simp [hl, absEntry]
        · simp [h]
      | some e =>
        simp only
        split
        · simp only [storeMsg]
          refine ⟨by rw [keys_modify]; exact hnd, ?_⟩
          rw [lookup_modify]
          by_cases h : id = i
          · subst h
            simp [hl, absEntry]
          · have : ¬ i = id := fun e => h e.symm
            simp [h, this]
        · simp only [updateClock_srcs, storeMsg]
          refine ⟨by rw [keys_refresh, keys_progress, keys_modify]; exact hnd, ?_⟩
          rw [lookup_refresh, lookup_progress, lookup_modify]
          by_cases h : id = i
          · subst h
            simp [hl, absEntry]
          · have : ¬ i = id := fun e => h e.symm
            simp [h, this]

theorem fold_spec (cfg : Cfg) (ops : List Applied) (c : Ctrl) (hnd : (Keys c.srcs).Nodup) (id : Id) :
    (Keys (ops.foldl (applyOne cfg) c).srcs).Nodup ∧
    absEntry (lookup (ops.foldl (applyOne cfg) c).srcs id) =
      ops.foldl (specStep id) (absEntry (lookup c.srcs id)) := by
  induction ops generalizing c with
  | nil => exact ⟨hnd, rfl⟩
  | cons a r ih =>
    obtain ⟨h1, h2⟩ := apply_spec cfg c hnd a id
    obtain ⟨i1, i2⟩ := ih (applyOne cfg c a) h1
    simp only [List.foldl_cons]
    exact ⟨i1, by rw [i2, h2]⟩

/-- candidates = entries whose abstraction is (reported, usable) -/
theorem mem_candidateEntries (c : Ctrl) (hnd : (Keys c.srcs).Nodup) (id : Id) :
    (∃ s, (id, s) ∈ candidateEntries c) ↔ absEntry (lookup c.srcs id) = some (true, true) := by
  unfold candidateEntries
  constructor
  · rintro ⟨s, hs⟩
    obtain ⟨p, hp, he⟩ := List.mem_filterMap.mp hs
    obtain ⟨k, e⟩ := p
    simp only at he
    split at he
    · rename_i hu
      cases hsn : e.snap with
      | none => simp [hsn] at he
      | some s' =>
        simp only [hsn, Option.map_some, Option.some.injEq, Prod.mk.injEq] at he
        obtain ⟨rfl, rfl⟩ := he
        rw [(mem_iff_lookup c.srcs hnd k e).mp hp]
        simp [absEntry, hsn, hu]
    · cases he
  · intro h
    cases hl : lookup c.srcs id with
    | none => simp [hl, absEntry] at h
    | some e =>
      simp only [hl, absEntry, Option.map_some, Option.some.injEq, Prod.mk.injEq] at h
      obtain ⟨h1, h2⟩ := h
      obtain ⟨s, hs⟩ := Option.isSome_iff_exists.mp h1
      refine ⟨s, List.mem_filterMap.mpr ⟨(id, e), (mem_iff_lookup c.srcs hnd id e).mpr hl, ?_⟩⟩
      simp [h2, hs]

/-! ### the message's snapshot is always the one held afterwards -/

theorem stamp_refreshEntry (vals : List (Id × Cand)) (k : Id) (e : Entry) :
    (refreshEntry vals k e).stamp = e.stamp ∧ ((refreshEntry vals k e).snap.isSome = e.snap.isSome) := by
  unfold refreshEntry
  split
  · rename_i h _; simp [h]
  · exact ⟨rfl, rfl⟩

theorem stamp_progressEntry (t : Nat) (k : Id) (e : Entry) :
    (progressEntry t k e).stamp = e.stamp ∧ (progressEntry t k e).snap = e.snap := by
  unfold progressEntry
  split <;> exact ⟨rfl, rfl⟩

/-- after `source_message` for a registered id, the entry of that id carries the message's stamp and a snapshot —
    whether or not `update_clock` returned early because another source was ahead -/
theorem sourceMessage_stores (cfg : Cfg) (c : Ctrl) (id : Id) (snap : Cand) (t : Nat) (vals : List (Id × Cand))
    (steer : List String) (e : Entry) (h : lookup c.srcs id = some e) :
    ∃ e', lookup (sourceMessage cfg c id snap t vals steer).1.srcs id = some e' ∧ e'.stamp = t ∧
      e'.snap.isSome = true ∧ e'.usable = e.usable ∧
      (ahead (storeMsg c.srcs id snap t) t = true → e'.snap = some snap) := by
  simp only [sourceMessage, h]
  split
  · rename_i ha
    simp only [storeMsg, lookup_modify, h, if_true, Option.map_some]
    exact ⟨_, rfl, rfl, rfl, rfl, fun _ => rfl⟩
  · rename_i ha
    simp only [updateClock_srcs, refresh, progress]
    rw [lookup_mapVal _ (refreshEntry vals) id, lookup_mapVal _ (progressEntry t) id]
    simp only [storeMsg, lookup_modify, h, if_true, Option.map_some]
    refine ⟨_, rfl, ?_, ?_, ?_, ?_⟩
    · rw [(stamp_refreshEntry _ _ _).1, (stamp_progressEntry _ _ _).1]
    · rw [(stamp_refreshEntry _ _ _).2, (stamp_progressEntry _ _ _).2]; rfl
    · have := abs_refreshEntry vals id (progressEntry t id { e with snap := some snap, stamp := t, time := t })
      have h2 := abs_progressEntry t id { e with snap := some snap, stamp := t, time := t }
      have := congrArg Prod.snd this
      have h2 := congrArg Prod.snd h2
      simp only at this h2
      rw [this, h2]
    · intro hc; exact absurd hc ha

end NtpVerif.CtrlLoop
