/-
Lemmas about `Model/NtsMsg`: the record loop never runs out of fuel and never consumes more than what
is available; every accepted request/response is `Valid`, its re-serialisation is no longer than what
was consumed; a `Valid` message's serialisation parses back to the same value.
-/
import NtpVerif.Model.NtsMsg
import NtpVerif.Proofs.NtsRecord

namespace NtpVerif.NtsMsg

open NtpVerif.NtsRecord

set_option linter.unusedSimpArgs false

/-! ### generic facts about the record loop -/

theorem recordLoop_consumed {σ : Type} (step : σ → Record → Step σ) :
    ∀ (fuel : Nat) (s : σ) (inp : Bytes) (used : Nat),
      (recordLoop step fuel s inp used).2 ≤ used + inp.length := by
  intro fuel
  induction fuel with
  | zero => intro s inp used; simp [recordLoop]
  | succ fuel ih =>
    intro s inp used
    unfold recordLoop
    have hc := (parseRecord_consumed inp).1
    generalize parseRecord inp = pr at hc
    obtain ⟨res, c⟩ := pr
    simp only at hc
    cases res with
    | error e => simp only; omega
    | ok r =>
      simp only
      cases step s r with
      | done => simp only; omega
      | fail e => simp only; omega
      | «continue» s' =>
        simp only
        have := ih s' (inp.drop c) (used + c)
        simp only [List.length_drop] at this
        omega

/-- each accepted record consumes at least its 4 header bytes, so `inp.length + 1` iterations suffice -/
theorem recordLoop_never_fuel {σ : Type} (step : σ → Record → Step σ)
    (hstep : ∀ s r, step s r ≠ .fail .fuel) :
    ∀ (fuel : Nat) (s : σ) (inp : Bytes) (used : Nat), inp.length < fuel →
      (recordLoop step fuel s inp used).1 ≠ .error .fuel := by
  intro fuel
  induction fuel with
  | zero => intro s inp used h; omega
  | succ fuel ih =>
    intro s inp used hf
    unfold recordLoop
    generalize hpr : parseRecord inp = pr
    obtain ⟨res, c⟩ := pr
    cases res with
    | error e => simp
    | ok r =>
      simp only
      obtain ⟨_, h4, hle⟩ := parseRecord_spec hpr
      have hne := hstep s r
      cases hst : step s r with
      | done => simp
      | fail e =>
        simp only
        intro h
        cases h
        exact hne hst
      | «continue» s' =>
        simp only
        apply ih
        simp only [List.length_drop]
        omega

theorem reqStep_not_fuel (s : ReqState) (r : Record) : reqStep s r ≠ .fail .fuel := by
  unfold reqStep
  split <;> (try split) <;> simp

theorem respStep_not_fuel (s : RespState) (r : Record) : respStep s r ≠ .fail .fuel := by
  unfold respStep
  split <;> (try split) <;> (try split) <;> simp

/-! ### replaying a list of valid records through the loop -/

/-- all records are accepted with `.continue` -/
def steps {σ : Type} (step : σ → Record → Step σ) : σ → List Record → Option σ
  | s, [] => some s
  | s, r :: rs =>
    match step s r with
    | .continue s' => steps step s' rs
    | _ => none

/-- concatenated canonical serialisations -/
def wire : List Record → Bytes
  | [] => []
  | r :: rs => (putU16 r.typeWord ++ putU16 r.bodySize ++ r.body) ++ wire rs

def wireLen : List Record → Nat
  | [] => 0
  | r :: rs => 4 + r.bodySize + wireLen rs

theorem wire_length (rs : List Record) (h : ∀ r ∈ rs, r.Valid) : (wire rs).length = wireLen rs := by
  induction rs with
  | nil => rfl
  | cons r rs ih =>
    have := ih (fun x hx => h x (by simp [hx]))
    have hb := Record.body_length (h r (by simp))
    simp [wire, wireLen, putU16, this, hb]
    omega

theorem wire_append (a b : List Record) : wire (a ++ b) = wire a ++ wire b := by
  induction a with
  | nil => rfl
  | cons r rs ih => simp [wire, ih]

theorem wireLen_append (a b : List Record) : wireLen (a ++ b) = wireLen a + wireLen b := by
  induction a with
  | nil => simp [wireLen]
  | cons r rs ih => simp [wireLen, ih]; omega

theorem wireLen_ge (rs : List Record) : 4 * rs.length ≤ wireLen rs := by
  induction rs with
  | nil => simp [wireLen]
  | cons r rs ih => simp [wireLen]; omega

theorem serializeAll_valid (rs : List Record) (h : ∀ r ∈ rs, r.Valid) :
    serializeAll rs = some (wire rs) := by
  induction rs with
  | nil => rfl
  | cons r rs ih =>
    have := ih (fun x hx => h x (by simp [hx]))
    simp [serializeAll, serialize_valid (h r (by simp)), this, wire]

theorem steps_append {σ : Type} (step : σ → Record → Step σ) (s : σ) (a b : List Record) :
    steps step s (a ++ b) = (steps step s a).bind (fun s' => steps step s' b) := by
  induction a generalizing s with
  | nil => simp [steps]
  | cons r rs ih =>
    simp only [List.cons_append, steps]
    cases step s r <;> simp [ih]

theorem recordLoop_script {σ : Type} (step : σ → Record → Step σ) :
    ∀ (rs : List Record) (s s' : σ) (fuel : Nat) (rest : Bytes) (used : Nat),
      (∀ r ∈ rs, r.Valid) → steps step s rs = some s' → step s' .endOfMessage = .done →
      rs.length < fuel →
      recordLoop step fuel s (wire (rs ++ [.endOfMessage]) ++ rest) used =
        (.ok s', used + wireLen (rs ++ [.endOfMessage])) := by
  intro rs
  induction rs with
  | nil =>
    intro s s' fuel rest used _ hs hd hf
    simp only [steps, Option.some.injEq] at hs
    subst hs
    obtain ⟨fuel, rfl⟩ : ∃ f, fuel = f + 1 := ⟨fuel - 1, by omega⟩
    have hv : Record.endOfMessage.Valid := trivial
    have := parseRecord_serialize hv rest
    simp only [List.nil_append, wire, List.append_nil, wireLen] at this ⊢
    unfold recordLoop
    simp only [this, hd]
    simp [Record.bodySize]
  | cons r rs ih =>
    intro s s' fuel rest used hv hs hd hf
    obtain ⟨fuel, rfl⟩ : ∃ f, fuel = f + 1 := ⟨fuel - 1, by omega⟩
    have hvr : r.Valid := hv r (by simp)
    simp only [steps] at hs
    cases hst : step s r with
    | done => simp [hst] at hs
    | fail e => simp [hst] at hs
    | «continue» s1 =>
      simp only [hst] at hs
      have hrec := ih s1 s' fuel rest (used + (4 + r.bodySize)) (fun x hx => hv x (by simp [hx])) hs hd
        (by simp at hf; omega)
      have hp := parseRecord_serialize hvr (wire (rs ++ [.endOfMessage]) ++ rest)
      simp only [List.cons_append, wire, List.append_assoc, wireLen] at hp ⊢
      unfold recordLoop
      simp only [hp, hst]
      have hdrop : List.drop (4 + r.bodySize)
          (putU16 r.typeWord ++ (putU16 r.bodySize ++ (r.body ++ (wire (rs ++ [Record.endOfMessage]) ++ rest))))
          = wire (rs ++ [Record.endOfMessage]) ++ rest := by
        have hb := Record.body_length hvr
        rw [← List.append_assoc, ← List.append_assoc]
        apply List.drop_left'
        simp [putU16, hb]
        omega
      rw [hdrop, hrec]
      simp
      omega

/-! ### loop invariants: what was kept is valid and not larger than what was consumed -/

theorem recordLoop_inv {σ : Type} (step : σ → Record → Step σ) (I : σ → Nat → Prop)
    (hstep : ∀ s r s' n c, I s n → r.Valid → 4 + r.bodySize ≤ c → step s r = .continue s' → I s' (n + c)) :
    ∀ (fuel : Nat) (s : σ) (inp : Bytes) (used : Nat) (s' : σ) (c : Nat), I s used →
      recordLoop step fuel s inp used = (.ok s', c) → ∃ n, I s' n ∧ n + 4 ≤ c := by
  intro fuel
  induction fuel with
  | zero => intro s inp used s' c _ h; simp [recordLoop] at h
  | succ fuel ih =>
    intro s inp used s' c hI h
    unfold recordLoop at h
    generalize hpr : parseRecord inp = pr at h
    obtain ⟨res, c0⟩ := pr
    cases res with
    | error e => simp at h
    | ok r =>
      simp only at h
      obtain ⟨hv, h4, _⟩ := parseRecord_spec hpr
      cases hst : step s r with
      | done =>
        simp only [hst, Prod.mk.injEq, Except.ok.injEq] at h
        obtain ⟨rfl, rfl⟩ := h
        exact ⟨used, hI, by omega⟩
      | fail e => simp [hst] at h
      | «continue» s1 =>
        simp only [hst] at h
        exact ih s1 _ _ s' c (hstep s r s1 used c0 hI hv h4 hst) h

def oSize {α : Type} (f : α → Nat) : Option α → Nat
  | some a => 4 + f a
  | none => 0

def bSize (b : Bool) : Nat := if b then 4 else 0

def bytesSize : List Bytes → Nat
  | [] => 0
  | d :: ds => 4 + d.length + bytesSize ds

theorem bytesSize_append (a b : List Bytes) : bytesSize (a ++ b) = bytesSize a + bytesSize b := by
  induction a with
  | nil => simp [bytesSize]
  | cons x xs ih => simp [bytesSize, ih]; omega

def ReqState.size (s : ReqState) : Nat :=
  oSize (fun ps => ps.length * 2) s.protocols + oSize (fun as => as.length * 2) s.algorithms
    + oSize List.length s.authentication + bytesSize s.denied + bSize s.wantsProtocols
    + bSize s.wantsAlgorithms + bSize s.keepAlive + oSize (fun k => k.1.length + k.2.length) s.keyBytes

def ReqState.Valid (s : ReqState) : Prop :=
  (∀ ps, s.protocols = some ps → (Record.nextProtocol ps).Valid) ∧
  (∀ as, s.algorithms = some as → (Record.aeadAlgorithm as).Valid) ∧
  (∀ k, s.authentication = some k → (Record.authentication k).Valid) ∧
  (∀ d ∈ s.denied, (Record.ntpServerDeny d).Valid) ∧
  (∀ a b, s.keyBytes = some (a, b) → (Record.fixedKeyRequest a b).Valid)

def ReqInv (s : ReqState) (n : Nat) : Prop := s.Valid ∧ s.size ≤ n

theorem reqStep_inv (s : ReqState) (r : Record) (s' : ReqState) (n c : Nat)
    (hI : ReqInv s n) (hv : r.Valid) (hc : 4 + r.bodySize ≤ c) (h : reqStep s r = .continue s') :
    ReqInv s' (n + c) := by
  obtain ⟨⟨v1, v2, v3, v4, v5⟩, hsz⟩ := hI
  unfold reqStep at h
  split at h <;> (try split at h) <;> simp only [Step.continue.injEq, reduceCtorEq] at h <;> subst h
  all_goals
    refine ⟨⟨?_, ?_, ?_, ?_, ?_⟩, ?_⟩
  all_goals
    simp_all [ReqState.size, oSize, bSize, Record.bodySize, bytesSize_append, bytesSize]
  all_goals (try omega)
  intro d hd
  rcases hd with hd | rfl
  · exact v4 d hd
  · exact hv

/-! ### requests -/

def Request.Valid (q : Request) : Prop :=
  (∀ r ∈ q.records, r.Valid) ∧
  match q with
  | .fixedKey _ c2s s2c a _ _ => ∃ k, Aead.keySize? a = some k ∧ c2s.length = k ∧ s2c.length = k
  | .support _ wp wa _ => (wa || wp) = true
  | .keyExchange _ _ _ => True

theorem mem_boolRec (b : Bool) (x r : Record) : r ∈ boolRec b x ↔ b = true ∧ r = x := by
  cases b <;> simp [boolRec]

theorem wireLen_boolRec (b : Bool) (r : Record) : wireLen (boolRec b r) = if b then 4 + r.bodySize else 0 := by
  cases b <;> simp [boolRec, wireLen]

theorem wireLen_deny (ds : List Bytes) : wireLen (ds.map Record.ntpServerDeny) = bytesSize ds := by
  induction ds with
  | nil => rfl
  | cons d ds ih => simp [wireLen, bytesSize, ih, Record.bodySize]

theorem reqFinish_spec {s : ReqState} {q : Request} (hv : s.Valid) (h : reqFinish s = .ok q) :
    q.Valid ∧ wireLen q.records ≤ s.size + 4 := by
  obtain ⟨v1, v2, v3, v4, v5⟩ := hv
  unfold reqFinish at h
  split at h
  · -- Support
    split at h
    · rename_i auth hauth
      split at h
      · simp only [Except.ok.injEq] at h
        subst h
        rename_i hwants _ _
        refine ⟨⟨?_, hwants⟩, ?_⟩
        · intro r hr
          simp only [Request.records, mem_boolRec, List.mem_append, List.mem_cons, List.mem_singleton,
            List.not_mem_nil, or_false, or_assoc] at hr
          rcases hr with hr | ⟨_, hr⟩ | ⟨_, hr⟩ | ⟨_, hr⟩ | hr
          · subst hr; exact v3 auth hauth
          · subst hr; simp [Record.Valid]
          · subst hr; simp [Record.Valid]
          · subst hr; trivial
          · subst hr; trivial
        · simp only [Request.records, wireLen_append, wireLen_boolRec, wireLen, Record.bodySize,
            ReqState.size, hauth, oSize, bSize]
          simp
          omega
      · simp at h
    · simp at h
  · split at h
    · -- FixedKey
      rename_i c2s s2c hk
      split at h
      · rename_i auth ps as hauth hps has
        split at h
        · rename_i p a
          split at h
          · rename_i k hks
            split at h
            · rename_i hlen
              simp only [Except.ok.injEq] at h
              subst h
              refine ⟨⟨?_, ⟨k, hks, hlen.1, hlen.2⟩⟩, ?_⟩
              · intro r hr
                simp only [Request.records, mem_boolRec, List.mem_append, List.mem_cons, List.mem_singleton,
                  List.not_mem_nil, or_false, or_assoc] at hr
                rcases hr with hr | hr | hr | hr | ⟨_, hr⟩ | hr
                · subst hr; exact v3 auth hauth
                · subst hr; exact v5 c2s s2c hk
                · subst hr; exact v1 _ hps
                · subst hr; exact v2 _ has
                · subst hr; trivial
                · subst hr; trivial
              · simp only [Request.records, wireLen_append, wireLen_boolRec, wireLen, Record.bodySize,
                  ReqState.size, hauth, hps, has, hk, oSize, bSize]
                simp
                omega
            · simp at h
          · simp at h
        · simp at h
      · simp at h
    · -- KeyExchange
      split at h
      · rename_i ps as hps has
        simp only [Except.ok.injEq] at h
        subst h
        refine ⟨⟨?_, trivial⟩, ?_⟩
        · intro r hr
          simp only [Request.records, List.mem_append, List.mem_cons, List.mem_singleton,
            List.not_mem_nil, or_false, List.mem_map, or_assoc] at hr
          rcases hr with hr | hr | ⟨d, hd, hr⟩ | hr
          · subst hr; exact v1 _ hps
          · subst hr; exact v2 _ has
          · subst hr; exact v4 d hd
          · subst hr; trivial
        · simp only [Request.records, wireLen_append, wireLen_deny, wireLen, Record.bodySize,
            ReqState.size, hps, has, oSize, bSize]
          omega
      · simp at h

theorem take_cap (a rest : Bytes) (n : Nat) (h : a.length ≤ n) :
    (a ++ rest).take n = a ++ rest.take (n - a.length) := by
  rw [List.take_append, List.take_of_length_le h]

/-- an accepted request is `Valid`; its canonical serialisation is no longer than what was consumed,
    which is at most the 4096-byte cap -/
theorem parseRequest_spec {inp : Bytes} {q : Request} {c : Nat} (h : parseRequest inp = (.ok q, c)) :
    q.Valid ∧ wireLen q.records ≤ c ∧ c ≤ 4096 := by
  unfold parseRequest at h
  simp only at h
  generalize hl : recordLoop reqStep ((inp.take Gen.NTSKE_MAX_MESSAGE_SIZE).length + 1) {}
    (inp.take Gen.NTSKE_MAX_MESSAGE_SIZE) 0 = res at h
  obtain ⟨r, used⟩ := res
  have hcons := recordLoop_consumed reqStep ((inp.take Gen.NTSKE_MAX_MESSAGE_SIZE).length + 1) {}
    (inp.take Gen.NTSKE_MAX_MESSAGE_SIZE) 0
  rw [hl] at hcons
  cases r with
  | error e => simp at h
  | ok st =>
    simp only [Prod.mk.injEq] at h
    obtain ⟨hf, rfl⟩ := h
    have h0 : ReqInv {} 0 := by
      refine ⟨⟨?_, ?_, ?_, ?_, ?_⟩, ?_⟩ <;> simp [ReqState.size, oSize, bSize, bytesSize]
    obtain ⟨n, ⟨hv, hsz⟩, hn⟩ := recordLoop_inv reqStep ReqInv reqStep_inv _ _ _ _ _ _ h0 hl
    obtain ⟨qv, ql⟩ := reqFinish_spec hv hf
    refine ⟨qv, by omega, ?_⟩
    simp only [List.length_take, Gen.NTSKE_MAX_MESSAGE_SIZE] at hcons
    omega

theorem steps_deny (s : ReqState) (ds : List Bytes) :
    steps reqStep s (ds.map Record.ntpServerDeny) = some { s with denied := s.denied ++ ds } := by
  induction ds generalizing s with
  | nil => simp [steps]
  | cons d ds ih => simp [steps, reqStep, ih]

/-- replaying the records `Request::serialize` writes through `Request::parse`'s loop and epilogue -/
theorem request_replay {q : Request} (hv : q.Valid) :
    ∃ body sq, q.records = body ++ [.endOfMessage] ∧ steps reqStep {} body = some sq ∧
      reqFinish sq = .ok q := by
  obtain ⟨_, hx⟩ := hv
  cases q with
  | keyExchange as ps denied =>
    refine ⟨[.nextProtocol ps, .aeadAlgorithm as] ++ denied.map .ntpServerDeny,
      { protocols := some ps, algorithms := some as, denied := denied }, rfl, ?_, ?_⟩
    · rw [steps_append]
      simp [steps, reqStep, steps_deny]
    · simp [reqFinish]
  | fixedKey auth c2s s2c a p ka =>
    obtain ⟨k, hk, h1, h2⟩ := hx
    refine ⟨[.authentication auth, .fixedKeyRequest c2s s2c, .nextProtocol [p], .aeadAlgorithm [a]]
        ++ boolRec ka .keepAlive,
      { authentication := some auth, keyBytes := some (c2s, s2c), protocols := some [p],
        algorithms := some [a], keepAlive := ka }, rfl, ?_, ?_⟩
    · cases ka <;> simp [steps, reqStep, boolRec]
    · simp [reqFinish, hk, h1, h2]
  | support auth wp wa ka =>
    simp only at hx
    refine ⟨[.authentication auth] ++ boolRec wp (.supportedNextProtocolList [])
        ++ boolRec wa (.supportedAlgorithmList []) ++ boolRec ka .keepAlive,
      { authentication := some auth, wantsProtocols := wp, wantsAlgorithms := wa, keepAlive := ka },
      rfl, ?_, ?_⟩
    · cases wp <;> cases wa <;> cases ka <;> simp [steps, reqStep, boolRec]
    · cases wp <;> cases wa <;> simp at hx <;> simp [reqFinish]

/-- generic: a message whose records replay through `step` parses back from its wire form -/
theorem loop_wire {σ : Type} (step : σ → Record → Step σ) (init sq : σ) (body : List Record) (rest : Bytes)
    (hv : ∀ r ∈ body ++ [Record.endOfMessage], r.Valid) (hs : steps step init body = some sq)
    (hd : step sq .endOfMessage = .done) (hlen : wireLen (body ++ [.endOfMessage]) ≤ 4096) :
    recordLoop step (((wire (body ++ [.endOfMessage]) ++ rest).take Gen.NTSKE_MAX_MESSAGE_SIZE).length + 1)
        init ((wire (body ++ [.endOfMessage]) ++ rest).take Gen.NTSKE_MAX_MESSAGE_SIZE) 0
      = (.ok sq, wireLen (body ++ [.endOfMessage])) := by
  have hwl := wire_length _ hv
  rw [take_cap _ _ _ (by rw [hwl]; exact hlen)]
  have hfuel : body.length < (wire (body ++ [Record.endOfMessage]) ++
      List.take (Gen.NTSKE_MAX_MESSAGE_SIZE - (wire (body ++ [Record.endOfMessage])).length) rest).length + 1 := by
    have := wireLen_ge (body ++ [Record.endOfMessage])
    simp only [List.length_append, hwl, List.length_cons, List.length_nil] at this ⊢
    omega
  have := recordLoop_script step body init sq _ (List.take (Gen.NTSKE_MAX_MESSAGE_SIZE -
    (wire (body ++ [Record.endOfMessage])).length) rest) 0
    (fun r hr => hv r (by simp [hr])) hs hd hfuel
  rw [this]
  simp

theorem parseRequest_wire {q : Request} (hv : q.Valid) (hlen : wireLen q.records ≤ 4096) (rest : Bytes) :
    parseRequest (wire q.records ++ rest) = (.ok q, wireLen q.records) := by
  obtain ⟨body, sq, hrec, hs, hf⟩ := request_replay hv
  unfold parseRequest
  simp only
  have hd : reqStep sq .endOfMessage = .done := rfl
  rw [hrec] at hlen ⊢
  rw [loop_wire reqStep {} sq body rest (by rw [← hrec]; exact hv.1) hs hd hlen]
  simp [hf]

/-! ### responses -/

def RespState.size (s : RespState) : Nat :=
  oSize (fun _ => 2) s.protocol + oSize (fun _ => 2) s.algorithm + bytesSize s.cookies
    + oSize List.length s.server + oSize (fun _ => 2) s.port + bSize s.keepAlive

def RespState.Valid (s : RespState) : Prop :=
  (∀ p, s.protocol = some p → (Record.nextProtocol [p]).Valid) ∧
  (∀ a, s.algorithm = some a → (Record.aeadAlgorithm [a]).Valid) ∧
  (∀ d ∈ s.cookies, (Record.newCookie d).Valid) ∧
  (∀ n, s.server = some n → (Record.server n).Valid) ∧
  (∀ p, s.port = some p → (Record.port p).Valid) ∧
  s.cookies.length ≤ 8

def RespInv (s : RespState) (n : Nat) : Prop := s.Valid ∧ s.size ≤ n

theorem respStep_inv (s : RespState) (r : Record) (s' : RespState) (n c : Nat)
    (hI : RespInv s n) (hv : r.Valid) (hc : 4 + r.bodySize ≤ c) (h : respStep s r = .continue s') :
    RespInv s' (n + c) := by
  obtain ⟨⟨v1, v2, v3, v4, v5, v6⟩, hsz⟩ := hI
  unfold respStep at h
  split at h <;> (try split at h) <;> (try split at h) <;>
    simp only [Step.continue.injEq, reduceCtorEq] at h <;> subst h
  all_goals
    refine ⟨⟨?_, ?_, ?_, ?_, ?_, ?_⟩, ?_⟩
  all_goals
    simp_all [RespState.size, oSize, bSize, Record.bodySize, bytesSize_append, bytesSize,
      Gen.NTSKE_NUMBER_OF_COOKIES]
  all_goals (try omega)
  intro d hd
  rcases hd with hd | rfl
  · exact v3 d hd
  · exact hv

def Response.Valid (r : Response) : Prop := (∀ x ∈ r.records, x.Valid) ∧ r.cookies.length ≤ 8

theorem mem_optRec {α : Type} (o : Option α) (f : α → Record) (r : Record) :
    r ∈ optRec o f ↔ ∃ a, o = some a ∧ r = f a := by
  cases o <;> simp [optRec]

theorem wireLen_optRec {α : Type} (o : Option α) (f : α → Record) :
    wireLen (optRec o f) = match o with | some a => 4 + (f a).bodySize | none => 0 := by
  cases o <;> simp [optRec, wireLen]

theorem wireLen_cookies (ds : List Bytes) : wireLen (ds.map Record.newCookie) = bytesSize ds := by
  induction ds with
  | nil => rfl
  | cons d ds ih => simp [wireLen, bytesSize, ih, Record.bodySize]

theorem respFinish_spec {s : RespState} {q : Response} (hv : s.Valid) (h : respFinish s = .ok q) :
    q.Valid ∧ wireLen q.records ≤ s.size + 4 := by
  obtain ⟨v1, v2, v3, v4, v5, v6⟩ := hv
  unfold respFinish at h
  split at h
  · rename_i p a hp ha
    simp only [Except.ok.injEq] at h
    subst h
    refine ⟨⟨?_, v6⟩, ?_⟩
    · intro r hr
      simp only [Response.records, mem_boolRec, mem_optRec, List.mem_append, List.mem_cons,
        List.mem_singleton, List.not_mem_nil, or_false, List.mem_map, or_assoc] at hr
      rcases hr with hr | hr | ⟨d, hd, hr⟩ | ⟨n, hn, hr⟩ | ⟨n, hn, hr⟩ | ⟨_, hr⟩ | hr
      · subst hr; exact v1 _ hp
      · subst hr; exact v2 _ ha
      · subst hr; exact v3 d hd
      · subst hr; exact v4 n hn
      · subst hr; exact v5 n hn
      · subst hr; trivial
      · subst hr; trivial
    · simp only [Response.records, wireLen_append, wireLen_boolRec, wireLen_optRec, wireLen_cookies,
        wireLen, Record.bodySize, RespState.size, hp, ha, oSize, bSize]
      cases s.server <;> cases s.port <;> simp <;> omega
  · simp at h

theorem parseResponse_spec {inp : Bytes} {q : Response} {c : Nat} (h : parseResponse inp = (.ok q, c)) :
    q.Valid ∧ wireLen q.records ≤ c ∧ c ≤ 4096 := by
  unfold parseResponse at h
  simp only at h
  generalize hl : recordLoop respStep ((inp.take Gen.NTSKE_MAX_MESSAGE_SIZE).length + 1) {}
    (inp.take Gen.NTSKE_MAX_MESSAGE_SIZE) 0 = res at h
  obtain ⟨r, used⟩ := res
  have hcons := recordLoop_consumed respStep ((inp.take Gen.NTSKE_MAX_MESSAGE_SIZE).length + 1) {}
    (inp.take Gen.NTSKE_MAX_MESSAGE_SIZE) 0
  rw [hl] at hcons
  cases r with
  | error e => simp at h
  | ok st =>
    simp only [Prod.mk.injEq] at h
    obtain ⟨hf, rfl⟩ := h
    have h0 : RespInv {} 0 := by
      refine ⟨⟨?_, ?_, ?_, ?_, ?_, ?_⟩, ?_⟩ <;> simp [RespState.size, oSize, bSize, bytesSize]
    obtain ⟨n, ⟨hv, hsz⟩, hn⟩ := recordLoop_inv respStep RespInv respStep_inv _ _ _ _ _ _ h0 hl
    obtain ⟨qv, ql⟩ := respFinish_spec hv hf
    refine ⟨qv, by omega, ?_⟩
    simp only [List.length_take, Gen.NTSKE_MAX_MESSAGE_SIZE] at hcons
    omega

theorem steps_cookies (s : RespState) (ds : List Bytes) (h : s.cookies.length + ds.length ≤ 8) :
    steps respStep s (ds.map Record.newCookie) = some { s with cookies := s.cookies ++ ds } := by
  induction ds generalizing s with
  | nil => simp [steps]
  | cons d ds ih =>
    simp only [List.length_cons] at h
    have hlt : s.cookies.length < Gen.NTSKE_NUMBER_OF_COOKIES := by
      simp only [Gen.NTSKE_NUMBER_OF_COOKIES]; omega
    simp only [List.map_cons, steps, respStep, hlt, if_true]
    rw [ih _ (by simp; omega)]
    simp

theorem response_replay {q : Response} (hv : q.Valid) :
    ∃ body sq, q.records = body ++ [.endOfMessage] ∧ steps respStep {} body = some sq ∧
      respFinish sq = .ok q := by
  obtain ⟨_, hc⟩ := hv
  obtain ⟨p, a, cookies, server, port, ka⟩ := q
  refine ⟨[.nextProtocol [p], .aeadAlgorithm [a]] ++ cookies.map .newCookie ++ optRec server .server
      ++ optRec port .port ++ boolRec ka .keepAlive,
    { protocol := some p, algorithm := some a, cookies := cookies, server := server, port := port,
      keepAlive := ka }, rfl, ?_, ?_⟩
  · simp only [steps_append, steps, respStep, Option.isSome_none, Bool.false_eq_true, if_false,
      Option.bind_some]
    rw [steps_cookies _ _ (by simpa using hc)]
    cases server <;> cases port <;> cases ka <;> simp [steps, respStep, optRec, boolRec]
  · simp [respFinish]

theorem parseResponse_wire {q : Response} (hv : q.Valid) (hlen : wireLen q.records ≤ 4096) (rest : Bytes) :
    parseResponse (wire q.records ++ rest) = (.ok q, wireLen q.records) := by
  obtain ⟨body, sq, hrec, hs, hf⟩ := response_replay hv
  unfold parseResponse
  simp only
  have hd : respStep sq .endOfMessage = .done := rfl
  rw [hrec] at hlen ⊢
  rw [loop_wire respStep {} sq body rest (by rw [← hrec]; exact hv.1) hs hd hlen]
  simp [hf]

end NtpVerif.NtsMsg
