/-
Facts about `reqOf (Packet.parse …)` derived from the wire parser model (C19: the request holds the cookie it
authenticated with; C17: field lengths are 16-bit).
-/
import NtpVerif.Proofs.ServerParse
import NtpVerif.Proofs.WireAuth3
import NtpVerif.Proofs.WireRT9
import NtpVerif.Model.ServerReq
import NtpVerif.Proofs.ServerFit

namespace NtpVerif.ServerParse
open NtpVerif.Wire

/-- the cookie a key-set cipher provider reports was decoded from a cookie field of the context -/
theorem keysetLoop_found (dec : Dec) (ks : KeySet) : ∀ (fs : List EF) (d : Option Cookie) (c : Cookie),
    keysetLoop dec ks fs d = some (some c) →
    d = some c ∨ ∃ b, EF.cookie b ∈ fs ∧ decodeCookie dec ks b = some c := by
  intro fs
  induction fs with
  | nil => intro d c h; simp only [keysetLoop, Option.some.injEq] at h; exact .inl h
  | cons f rest ih =>
    intro d c h
    cases f with
    | cookie cb =>
      simp only [keysetLoop] at h
      cases d with
      | some x => simp at h
      | none =>
        simp only at h
        cases hk : decodeCookie dec ks cb with
        | none => simp [hk] at h
        | some k =>
          simp only [hk] at h
          rcases ih (some k) c h with h1 | ⟨b, hb, hd⟩
          · simp only [Option.some.injEq] at h1
            exact .inr ⟨cb, by simp, by rw [hk, h1]⟩
          · exact .inr ⟨b, by simp [hb], hd⟩
    | _ =>
      simp only [keysetLoop] at h
      rcases ih d c h with h1 | ⟨b, hb, hd⟩
      · exact .inl h1
      · exact .inr ⟨b, by simp [hb], hd⟩

/-- the decoded cookie of a parse state comes from a cookie field among the authenticated fields -/
def CookieInv (dec : Dec) (ks : KeySet) (st : EFState) : Prop :=
  ∀ c, st.cookie = some c → ∃ b, EF.cookie b ∈ st.ef.authenticated ∧ decodeCookie dec ks b = some c

theorem efStep_cookieInv {dec : Dec} {ks : KeySet} {data : Bytes} {hs : Nat} {ver : Ver} {st st' : EFState}
    {off ty : Nat} {msg : Bytes} {wl : Nat} (hi : CookieInv dec ks st)
    (h : efStep dec (.keyset ks) data hs ver st off ty msg wl = .ok st') : CookieInv dec ks st' := by
  unfold efStep at h
  simp only at h
  split at h
  · split at h
    · cases h
    · rename_i nonce ct _
      split at h
      · -- no cipher: invalid field pushed
        simp only [Except.ok.injEq] at h; subst h
        exact hi
      · rename_i holder hget
        split at h
        · cases h
        · split at h
          · simp only [Except.ok.injEq] at h; subst h
            exact hi
          · cases h
          · simp only [Except.ok.injEq] at h; subst h
            intro c hc
            simp only at hc
            -- the holder's cookie was found in the untrusted fields seen so far
            simp only [Ctx.get] at hget
            split at hget
            · rename_i c' hloop
              simp only [Option.some.injEq] at hget
              subst hget
              simp only [Option.some.injEq] at hc
              subst hc
              rcases keysetLoop_found dec ks _ none c' hloop with h1 | ⟨b, hb, hd⟩
              · cases h1
              · exact ⟨b, by simp [hb], hd⟩
            · cases hget
  · split at h
    · cases h
    · simp only [Except.ok.injEq] at h; subst h
      exact hi

theorem efLoop_cookieInv {dec : Dec} {ks : KeySet} {data : Bytes} {hs : Nat} {ver : Ver} :
    ∀ (items : List Item) (st st' : EFState), CookieInv dec ks st →
      efLoop dec (.keyset ks) data hs ver items st = .ok st' → CookieInv dec ks st' := by
  intro items
  induction items with
  | nil => intro st st' hi h; simp only [efLoop, Except.ok.injEq] at h; subst h; exact hi
  | cons it rest ih =>
    intro st st' hi h
    cases it with
    | err e => simp [efLoop, perr] at h
    | panic => simp [efLoop, rpanic] at h
    | fuel => simp [efLoop] at h
    | field off ty msg wl =>
      simp only [efLoop] at h
      split at h
      · cases h
      · rename_i st1 hs1
        exact ih st1 st' (efStep_cookieInv hi hs1) h

theorem efDeserialize_cookie {dec : Dec} {ks : KeySet} {data : Bytes} {hs : Nat} {ver : Ver} {r : EFResult}
    (h : efDeserialize dec (.keyset ks) data hs ver = .ok r) :
    ∀ c, r.cookie = some c → ∃ b, EF.cookie b ∈ r.ef.authenticated ∧ decodeCookie dec ks b = some c := by
  unfold efDeserialize at h
  split at h
  · cases h
  · split at h
    · cases h
    · rename_i st hst
      split at h
      · cases h
      · simp only [Except.ok.injEq] at h; subst h
        have hinv := efLoop_cookieInv _ .init st (by intro c hc; simp [EFState.init] at hc) hst
        intro c hc
        simp only at hc
        split at hc
        · exact hinv c hc
        · cases hc

theorem parseEF_cookie {dec : Dec} {ks : KeySet} {data : Bytes} {header : Header} {hs : Nat} {ver : Ver}
    {p : Packet} {c : Cookie} {v : Bool} (h : parseEF dec (.keyset ks) data header hs ver = .ok (p, some c, v)) :
    ∃ b, EF.cookie b ∈ p.ef.authenticated ∧ decodeCookie dec ks b = some c := by
  unfold parseEF at h
  simp only [bind, Except.bind, pure, Except.pure] at h
  split at h
  · cases h
  · rename_i r hr
    split at h
    · cases h
    · rename_i p' hp'
      simp only [Except.ok.injEq, Prod.mk.injEq] at h
      obtain ⟨hp, hc, _⟩ := h
      subst hp
      rw [(constructPacket_fields hp').2]
      exact efDeserialize_cookie hr c hc

/-- **the request holds the cookie it authenticated with**: when the server's parse reports a decoded cookie, a
    cookie field decoding to exactly it is among the authenticated fields -/
theorem parseR_cookie {dec : Dec} {ks : KeySet} {data : Bytes} {p : Packet} {c : Cookie} {v : Bool}
    (h : parseR dec (.keyset ks) data = .ok (p, some c, v)) :
    ∃ b, EF.cookie b ∈ p.ef.authenticated ∧ decodeCookie dec ks b = some c := by
  unfold parseR at h
  split at h
  · cases h
  · simp only at h
    split at h
    · simp only [bind, Except.bind, pure, Except.pure] at h
      split at h
      · cases h
      · try simp only at h
        split at h
        · split at h
          · cases h
          · split at h <;> cases h
        · cases h
    · split at h
      · simp only [bind, Except.bind, pure, Except.pure] at h
        split at h
        · cases h
        · try simp only at h
          exact parseEF_cookie h
      · split at h
        · simp only [bind, Except.bind] at h
          split at h
          · cases h
          · try simp only at h
            split at h
            · cases h
            · rename_i y hy
              obtain ⟨p', c', v'⟩ := y
              simp only at h
              split at h
              · cases h; exact parseEF_cookie hy
              · split at h
                · cases h; exact parseEF_cookie hy
                · cases h
        · cases h

/-- the AEAD adds a 16-octet tag: every recorded encryption has `|ct| = |pt| + 16` (AES-SIV) -/
def TagLen (T : Table) : Prop := ∀ e ∈ T, e.ct.length = e.pt.length + 16

theorem decrypt_entry {T : Table} {key nonce ct aad pt : Bytes} (h : T.decrypt key nonce ct aad = some pt) :
    ∃ e ∈ T, e.ct = ct ∧ e.pt = pt := by
  unfold Table.decrypt at h
  simp only [Option.map_eq_some_iff] at h
  obtain ⟨e, he, hp⟩ := h
  have hm := List.find?_some he
  have hmem := List.mem_of_find?_eq_some he
  simp only [Entry.matches, Bool.and_eq_true, beq_iff_eq] at hm
  exact ⟨e, hmem, hm.1.2, hp⟩

/-- a cookie that decodes under a tag-length-respecting table is at least as long as a fresh cookie for the
    same algorithm: 104 octets for AES-SIV-CMAC-256 sessions, 168 for -512 -/
theorem decodeCookie_length {T : Table} (hT : TagLen T) {ks : KeySet} {b : Bytes} {c : Cookie}
    (h : decodeCookie T.decrypt ks b = some c) : Server.freshCookieLen c.alg ≤ b.length := by
  unfold decodeCookie at h
  split at h
  · cases h
  · rename_i hlen
    simp only at h
    split at h
    · cases h
    · split at h
      · cases h
      · rename_i ct hct
        split at h
        · cases h
        · rename_i pt hpt
          obtain ⟨e, he, hect, hept⟩ := decrypt_entry hpt
          have htag := hT e he
          obtain ⟨_, h2, _, h4⟩ := slice?_some hct
          have hdrop : (b.drop 22).length = b.length - 22 := by simp
          split at h
          · rename_i b0 b1 kb
            try simp only at h
            split at h
            · split at h
              · cases h
              · rename_i hkl
                simp only [Option.some.injEq] at h; subst h
                rename_i h15
                have hp : e.pt.length = 66 := by rw [hept]; simp only [List.length_cons]; omega
                simp only [Server.freshCookieLen, h15]
                rw [hect] at htag
                simp; omega
            · split at h
              · split at h
                · cases h
                · rename_i halg hkl
                  simp only [Option.some.injEq] at h; subst h
                  have hp : e.pt.length = 130 := by rw [hept]; simp only [List.length_cons]; omega
                  simp only [Server.freshCookieLen, halg, ↓reduceIte]
                  rw [hect] at htag
                  omega
              · cases h
          · cases h

end NtpVerif.ServerParse

namespace NtpVerif.ServerParse
open NtpVerif.Wire

/-- every unique-identifier field seen so far has a 16-bit framed length -/
def UidInv (st : EFState) : Prop :=
  ∀ b, EF.uniqueId b ∈ st.ef.untrusted ++ st.ef.authenticated → b.length ≤ 65531

theorem decode_uid {ty : Nat} {msg : Bytes} {ver : Ver} {b : Bytes} (h : decode ty msg ver = .ok (.uniqueId b)) :
    b = msg := by
  unfold decode at h
  repeat' split at h
  all_goals first
    | (cases h; done)
    | (simp only [Except.ok.injEq, EF.uniqueId.injEq] at h; exact h.symm)
    | (simp [perr, rpanic] at h; done)

theorem efStep_uidInv {dec : Dec} {ctx : Ctx} {data : Bytes} {hs : Nat} {ver : Ver} {st st' : EFState}
    {off ty : Nat} {msg : Bytes} {wl : Nat} (hi : UidInv st) (hm : msg.length ≤ 65531)
    (h : efStep dec ctx data hs ver st off ty msg wl = .ok st') : UidInv st' := by
  unfold efStep at h
  simp only at h
  split at h
  · split at h
    · cases h
    · split at h
      · simp only [Except.ok.injEq] at h; subst h
        intro b hb
        apply hi b
        simp only [EFState.pushInvalid, List.mem_append, List.mem_singleton] at hb ⊢
        rcases hb with (hb | hb) | hb
        · exact .inl hb
        · cases hb
        · exact .inr hb
      · split at h
        · cases h
        · split at h
          · simp only [Except.ok.injEq] at h; subst h
            intro b hb
            apply hi b
            simp only [EFState.pushInvalid, List.mem_append, List.mem_singleton] at hb ⊢
            rcases hb with (hb | hb) | hb
            · exact .inl hb
            · cases hb
            · exact .inr hb
          · cases h
          · simp only [Except.ok.injEq] at h; subst h
            intro b hb
            apply hi b
            simp only [List.nil_append, List.mem_append] at hb ⊢
            rcases hb with hb | hb
            · exact .inr hb
            · exact .inl hb
  · split at h
    · cases h
    · rename_i f hf
      simp only [Except.ok.injEq] at h; subst h
      intro b hb
      simp only [List.mem_append, List.mem_singleton] at hb
      rcases hb with (hb | hb) | hb
      · exact hi b (by simp [hb])
      · subst hb
        rw [decode_uid hf]; exact hm
      · exact hi b (by simp [hb])

theorem efLoop_uidInv {dec : Dec} {ctx : Ctx} {data : Bytes} {hs : Nat} {ver : Ver} (lim : Nat) :
    ∀ (items : List Item) (st st' : EFState), (∀ it ∈ items, ItemOK ver lim it) → UidInv st →
      efLoop dec ctx data hs ver items st = .ok st' → UidInv st' := by
  intro items
  induction items with
  | nil => intro st st' _ hi h; simp only [efLoop, Except.ok.injEq] at h; subst h; exact hi
  | cons it rest ih =>
    intro st st' hok hi h
    cases it with
    | err e => simp [efLoop, perr] at h
    | panic => simp [efLoop, rpanic] at h
    | fuel => simp [efLoop] at h
    | field off ty msg wl =>
      simp only [efLoop] at h
      split at h
      · cases h
      · rename_i st1 hs1
        have hit := hok (.field off ty msg wl) (by simp)
        exact ih st1 st' (fun x hx => hok x (by simp [hx])) (efStep_uidInv hi hit.2.2 hs1) h

theorem efDeserialize_uid {dec : Dec} {ctx : Ctx} {data : Bytes} {hs : Nat} {ver : Ver} {r : EFResult}
    (h : efDeserialize dec ctx data hs ver = .ok r) :
    ∀ b, EF.uniqueId b ∈ r.ef.untrusted ++ r.ef.authenticated → b.length ≤ 65531 := by
  unfold efDeserialize at h
  split at h
  · cases h
  · rename_i body _
    split at h
    · cases h
    · rename_i st hst
      split at h
      · cases h
      · simp only [Except.ok.injEq] at h; subst h
        exact efLoop_uidInv body.length _ .init st (stream_ok body _ _ ver)
          (by intro b hb; simp [EFState.init, EFData.empty] at hb) hst

theorem parseEF_uid {dec : Dec} {ctx : Ctx} {data : Bytes} {header : Header} {hs : Nat} {ver : Ver}
    {p : Packet} {c : Option Cookie} {v : Bool} (h : parseEF dec ctx data header hs ver = .ok (p, c, v)) :
    ∀ b, EF.uniqueId b ∈ p.ef.untrusted ++ p.ef.authenticated → b.length ≤ 65531 := by
  unfold parseEF at h
  simp only [bind, Except.bind, pure, Except.pure] at h
  split at h
  · cases h
  · rename_i r hr
    split at h
    · cases h
    · rename_i p' hp'
      simp only [Except.ok.injEq, Prod.mk.injEq] at h
      obtain ⟨hp, _, _⟩ := h
      subst hp
      rw [(constructPacket_fields hp').2]
      exact efDeserialize_uid hr

/-- field lengths are 16-bit: every unique identifier of a parsed packet has at most 65531 octets -/
theorem parseR_uid {dec : Dec} {ctx : Ctx} {data : Bytes} {p : Packet} {c : Option Cookie} {v : Bool}
    (h : parseR dec ctx data = .ok (p, c, v)) :
    ∀ b, EF.uniqueId b ∈ p.ef.untrusted ++ p.ef.authenticated → b.length ≤ 65531 := by
  unfold parseR at h
  split at h
  · cases h
  · simp only at h
    split at h
    · simp only [bind, Except.bind, pure, Except.pure] at h
      split at h
      · cases h
      · try simp only at h
        split at h
        · split at h
          · cases h
          · split at h
            · cases h
            · cases h; intro b hb; simp [EFData.empty] at hb
        · cases h; intro b hb; simp [EFData.empty] at hb
    · split at h
      · simp only [bind, Except.bind, pure, Except.pure] at h
        split at h
        · cases h
        · try simp only at h
          exact parseEF_uid h
      · split at h
        · simp only [bind, Except.bind] at h
          split at h
          · cases h
          · try simp only at h
            split at h
            · cases h
            · rename_i y hy
              obtain ⟨p', c', v'⟩ := y
              simp only at h
              split at h
              · cases h; exact parseEF_uid hy
              · split at h
                · cases h; exact parseEF_uid hy
                · cases h
        · cases h

end NtpVerif.ServerParse

namespace NtpVerif.ServerParse
open NtpVerif.Wire NtpVerif.Server

/-- octets a parsed field accounts for in the request -/
def fw (f : EF) : Nat := (fieldOf f).wire
def fwSum (fs : List EF) : Nat := (fs.map fw).sum
def fwT (st : EFState) : Nat := fwSum st.ef.untrusted + fwSum st.ef.authenticated

theorem next4_eq_nm4 (n : Nat) : RespSize.next4 n = nm4 n := rfl

theorem fwSum_append (a b : List EF) : fwSum (a ++ b) = fwSum a + fwSum b := by
  simp [fwSum, List.sum_append]

/-- a decoded field accounts for no more than the wire length of the frame it was decoded from -/
theorem decode_fw {ty : Nat} {msg : (List UInt8)} {ver : Ver} {f : EF} (h : decode ty msg ver = .ok f) :
    fw f ≤ nm4 (4 + msg.length) := by
  unfold decode at h
  repeat' split at h
  all_goals first
    | (simp [perr, rpanic] at h; done)
    | (simp only [Except.ok.injEq] at h; subst h
       simp only [fw, fieldOf, Field.wire, next4_eq_nm4]
       first
         | exact Nat.le_refl _
         | (unfold nm4; split <;> split <;> omega))

/-- items of a stream follow one another: each starts where the previous one ended -/
def Consec : Nat → List Item → Prop
  | _, [] => True
  | pos, .field off _ _ wl :: r => off = pos ∧ Consec (pos + wl) r
  | _, _ :: _ => True

theorem streamAux_consec (ver : Ver) (cutoff minSize : Nat) :
    ∀ (fuel : Nat) (rem : (List UInt8)) (off : Nat), Consec off (streamAux ver cutoff minSize fuel rem off) := by
  intro fuel
  induction fuel with
  | zero => intro rem off; simp [streamAux, Consec]
  | succ n ih =>
    intro rem off
    rw [streamAux_succ]
    split
    · trivial
    · split
      · trivial
      · split
        · trivial
        · exact ⟨rfl, ih _ _⟩

theorem efStep_account {dec : Dec} {ctx : Ctx} {data : (List UInt8)} {hs : Nat} {ver : Ver} {st st' : EFState}
    {off ty : Nat} {msg : (List UInt8)} {wl : Nat} (hwl : wl = nm4 (4 + msg.length))
    (h : efStep dec ctx data hs ver st off ty msg wl = .ok st') :
    fwT st' + (if ty = tyEncrypted then wl else 0) ≤ fwT st + wl := by
  unfold efStep at h
  simp only at h
  split at h
  · rename_i hty
    simp only [hty, if_true]
    split at h
    · cases h
    · split at h
      · simp only [Except.ok.injEq] at h; subst h
        simp [fwT, EFState.pushInvalid, fwSum_append, fwSum, fw, fieldOf, Field.wire]
      · split at h
        · cases h
        · split at h
          · simp only [Except.ok.injEq] at h; subst h
            simp [fwT, EFState.pushInvalid, fwSum_append, fwSum, fw, fieldOf, Field.wire]
          · cases h
          · simp only [Except.ok.injEq] at h; subst h
            simp only [fwT, fwSum_append]
            simp only [fwSum, List.map_nil, List.sum_nil]
            omega
  · rename_i hty
    simp only [hty, if_false]
    split at h
    · cases h
    · rename_i f hf
      simp only [Except.ok.injEq] at h; subst h
      have := decode_fw hf
      simp only [fwT, fwSum_append]
      simp only [fwSum, List.map_cons, List.map_nil, List.sum_cons, List.sum_nil]
      omega

theorem efLoop_account {dec : Dec} {ctx : Ctx} {data : (List UInt8)} {hs : Nat} {ver : Ver} (lim : Nat) :
    ∀ (items : List Item) (st st' : EFState) (pos : Nat), Consec pos items → (∀ it ∈ items, ItemOK ver lim it) →
      st.size = pos → efLoop dec ctx data hs ver items st = .ok st' →
      fwT st' + encItems items + pos ≤ fwT st + st'.size := by
  intro items
  induction items with
  | nil =>
    intro st st' pos _ _ hp h
    simp only [efLoop, Except.ok.injEq] at h; subst h
    simp [encItems, hp]
  | cons it rest ih =>
    intro st st' pos hc hok hp h
    cases it with
    | err e => simp [efLoop, perr] at h
    | panic => simp [efLoop, rpanic] at h
    | fuel => simp [efLoop] at h
    | field off ty msg wl =>
      simp only [efLoop] at h
      split at h
      · cases h
      · rename_i st1 hs1
        obtain ⟨hoff, hcr⟩ := hc
        have hit := hok (.field off ty msg wl) (by simp)
        have hwl : wl = nm4 (4 + msg.length) := (wireLength_some hit.1).1
        have hsz := efStep_size hs1
        have hacc := efStep_account hwl hs1
        have := ih st1 st' (pos + wl) hcr (fun x hx => hok x (by simp [hx])) (by rw [hsz, hoff]) h
        simp only [encItems]
        omega

/-- **size accounting of the extension-field area**: the parsed fields and the authenticator fields the streamer
    framed fit into the area -/
theorem efDeserialize_account {dec : Dec} {ctx : Ctx} {data : (List UInt8)} {hs : Nat} {ver : Ver} {r : EFResult}
    (h : efDeserialize dec ctx data hs ver = .ok r) :
    hs + (fwSum r.ef.untrusted + fwSum r.ef.authenticated
      + encItems (stream (data.drop hs) (macCutoff ver) Gen.EF_V4_UNENCRYPTED_MINIMUM_SIZE ver)) ≤ data.length := by
  unfold efDeserialize at h
  split at h
  · cases h
  · rename_i body hb
    have hbody : body = data.drop hs := by
      unfold sliceP at hb
      split at hb
      · rename_i s hs'
        simp only [Except.ok.injEq] at hb; subst hb
        obtain ⟨_, _, h3, _⟩ := slice?_some hs'
        rw [h3]; apply List.take_of_length_le; simp
      · cases hb
    split at h
    · cases h
    · rename_i st hst
      split at h
      · cases h
      · rename_i rem hrem
        simp only [Except.ok.injEq] at h; subst h
        have hbound : hs + st.size ≤ data.length := by
          unfold sliceP at hrem
          split at hrem
          · rename_i s hs'
            exact (slice?_some hs').1
          · cases hrem
        have := efLoop_account body.length _ .init st 0 (by unfold stream; exact streamAux_consec _ _ _ _ _ _)
          (stream_ok body _ _ ver) rfl hst
        simp only [fwT, EFState.init, EFData.empty, fwSum, List.map_nil, List.sum_nil] at this
        rw [← hbody]
        simp only [fwSum]
        omega

end NtpVerif.ServerParse

namespace NtpVerif.ServerParse
open NtpVerif.Wire NtpVerif.Server

theorem parseEF_account {dec : Dec} {ctx : Ctx} {data : List UInt8} {header : Wire.Header} {hs : Nat} {ver : Ver}
    {p : Packet} {c : Option Cookie} {v : Bool} (h : parseEF dec ctx data header hs ver = .ok (p, c, v)) :
    hs + (fwSum p.ef.untrusted + fwSum p.ef.authenticated
      + encItems (stream (data.drop hs) (macCutoff ver) Gen.EF_V4_UNENCRYPTED_MINIMUM_SIZE ver)) ≤ data.length := by
  unfold parseEF at h
  simp only [bind, Except.bind, pure, Except.pure] at h
  split at h
  · cases h
  · rename_i r hr
    split at h
    · cases h
    · rename_i p' hp'
      simp only [Except.ok.injEq, Prod.mk.injEq] at h
      obtain ⟨hp, _, _⟩ := h
      subst hp
      rw [(constructPacket_fields hp').2]
      exact efDeserialize_account hr

/-- **size accounting of a parsed datagram**: header, the fields it was parsed into and the authenticator fields
    (`encwOf`, computed from the bytes) fit into the datagram -/
theorem parseR_account {dec : Dec} {ctx : Ctx} {data : List UInt8} {p : Packet} {c : Option Cookie} {v : Bool}
    (h : parseR dec ctx data = .ok (p, c, v)) :
    48 + (fwSum p.ef.untrusted + fwSum p.ef.authenticated) + encwOf data ≤ data.length := by
  unfold parseR at h
  split at h
  · cases h
  · rename_i b0 t
    simp only at h
    split at h
    · -- v3
      rename_i hv
      have henc : encwOf (b0 :: t) = 0 := by simp [encwOf, hv]
      simp only [bind, Except.bind, pure, Except.pure] at h
      split at h
      · cases h
      · rename_i x hx
        obtain ⟨hd, hs⟩ := x
        obtain ⟨_, h48⟩ := headerV34_size hx
        try simp only at h
        rw [henc]
        split at h
        · split at h
          · cases h
          · split at h
            · cases h
            · cases h; simp only [List.length_cons] at h48; simp [fwSum, EFData.empty]; omega
        · cases h; simp only [List.length_cons] at h48; simp [fwSum, EFData.empty]; omega
    · split at h
      · rename_i hv3 hv
        have henc : encwOf (b0 :: t) = encItems (stream ((b0 :: t).drop 48) (macCutoff .v4)
            Gen.EF_V4_UNENCRYPTED_MINIMUM_SIZE .v4) := by simp [encwOf, hv]
        simp only [bind, Except.bind, pure, Except.pure] at h
        split at h
        · cases h
        · rename_i x hx
          obtain ⟨hd, hs⟩ := x
          obtain ⟨hs48, _⟩ := headerV34_size hx
          try simp only at h
          subst hs48
          have := parseEF_account h
          rw [henc]; omega
      · split at h
        · rename_i hv3 hv4 hv
          have henc : encwOf (b0 :: t) = encItems (stream ((b0 :: t).drop 48) (macCutoff .v5)
              Gen.EF_V4_UNENCRYPTED_MINIMUM_SIZE .v5) := by simp [encwOf, hv]
          simp only [bind, Except.bind] at h
          split at h
          · cases h
          · rename_i x hx
            obtain ⟨hd, hs⟩ := x
            obtain ⟨hs48, _⟩ := headerV5_size hx
            try simp only at h
            subst hs48
            split at h
            · cases h
            · rename_i y hy
              obtain ⟨p', c', v'⟩ := y
              have hacc := parseEF_account hy
              simp only at h
              split at h
              · cases h; rw [henc]; omega
              · split at h
                · cases h; rw [henc]; omega
                · cases h
        · cases h

end NtpVerif.ServerParse
