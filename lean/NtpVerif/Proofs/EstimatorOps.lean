/- C42: the four add/remove operations of the estimator — explicit results on well-formed states,
   invariant preservation, and "others unchanged". -/
import NtpVerif.Proofs.Estimator

set_option linter.unusedSimpArgs false
set_option linter.unusedVariables false

namespace NtpVerif.Estimator

variable {α : Type}

theorem clock_pred_disjoint (i j : Nat) (hne : j ≠ i) :
    ∀ x : ClockInfo α, (x.id == j) = true → (x.id == i) = false := by
  intro x hx
  have : x.id = j := by simpa using hx
  simp [this, hne]

theorem link_pred_disjoint (i j : LinkId) (hne : j ≠ i) :
    ∀ x : LinkInfo α, (x.id == j) = true → (x.id == i) = false := by
  intro x hx
  have : x.id = j := by simpa using hx
  simp [this, hne]

/-! ### remove_clock -/

theorem removeClock_spec {s : Est α} (h : WF s) {id : Nat} {rem : ClockInfo α}
    (hf : s.clocks.find? (fun c => c.id == id) = some rem) :
    ∃ st' unc', removeClock s id = .ok { s with
        clocks := (s.clocks.eraseP fun c => c.id == id).map (shiftC rem.base 2),
        links := s.links.map (shiftL rem.base 2), state := st', unc := unc' } ∧
      st'.rows = s.state.rows - 2 ∧ st'.cols = 1 ∧ st'.WFm ∧
      unc'.rows = s.state.rows - 2 ∧ unc'.cols = s.state.rows - 2 ∧ unc'.WFm ∧
      (∀ r, r < s.state.rows - 2 → st'.get r 0 = s.state.get (unshift rem.base 2 r) 0) ∧
      (∀ r c, r < s.state.rows - 2 → c < s.state.rows - 2 →
        unc'.get r c = s.unc.get (unshift rem.base 2 r) (unshift rem.base 2 c)) := by
  have hmem := List.mem_of_find?_eq_some hf
  have hid : rem.id = id := by simpa using List.find?_some hf
  have hrange := h.layout.clk_range rem hmem
  obtain ⟨st', unc', hs, hu, rest⟩ := splice_spec h.dims (start := rem.base) (len := 2) hrange
  have hpw : s.clocks.Pairwise (fun a b => ¬ ((a.id == id) = true ∧ (b.id == id) = true)) :=
    h.ids.clk.imp (by
      intro a b hab hboth
      simp only [beq_iff_eq] at hboth
      exact hab (hboth.1.trans hboth.2.symm))
  have hC := updateClockIndices_eq (s.clocks.eraseP fun c => c.id == id) rem.base 2 (by
    intro c hc hgt
    have hne : (c.id == id) = false := not_p_of_mem_eraseP _ _ hpw c hc
    have hne' : c.id ≠ rem.id := by rw [hid]; simpa using hne
    have := h.layout.clk_clk c (List.mem_of_mem_eraseP hc) rem hmem hne'
    omega)
  have hL := updateLinkIndices_eq s.links rem.base 2 (by
    intro l hl hgt
    have := h.layout.clk_lnk rem hmem l hl
    omega)
  refine ⟨st', unc', ?_, rest⟩
  simp only [removeClock, hf, hC, hL, hs, hu, orPanic, bind, Except.bind, pure, Except.pure]

theorem removeClock_unknown {s : Est α} {id : Nat}
    (hf : s.clocks.find? (fun c => c.id == id) = none) : removeClock s id = .error .UnknownClock := by
  simp only [removeClock, hf]

/-- members of the erased list are exactly the members with another id -/
theorem mem_erase_clock {s : Est α} (h : WF s) {id : Nat} {c : ClockInfo α} :
    c ∈ (s.clocks.eraseP fun c => c.id == id) ↔ c ∈ s.clocks ∧ c.id ≠ id := by
  have hpw : s.clocks.Pairwise (fun a b => ¬ ((a.id == id) = true ∧ (b.id == id) = true)) :=
    h.ids.clk.imp (by
      intro a b hab hboth
      simp only [beq_iff_eq] at hboth
      exact hab (hboth.1.trans hboth.2.symm))
  constructor
  · intro hc
    have hne : (c.id == id) = false := not_p_of_mem_eraseP _ _ hpw c hc
    exact ⟨List.mem_of_mem_eraseP hc, by simpa using hne⟩
  · intro ⟨hc, hne⟩
    exact (List.mem_eraseP_of_neg (by simpa using hne)).mpr hc

theorem removeClock_wf {s s' : Est α} (h : WF s) {id : Nat} (hs : removeClock s id = .ok s') : WF s' := by
  cases hf : s.clocks.find? (fun c => c.id == id) with
  | none => rw [removeClock_unknown hf] at hs; cases hs
  | some rem =>
    obtain ⟨st', unc', heq, r1, r2, r3, r4, r5, r6, r7, r8⟩ := removeClock_spec h hf
    rw [heq] at hs
    cases hs
    have hmem := List.mem_of_find?_eq_some hf
    have hid : rem.id = id := by simpa using List.find?_some hf
    have hrange := h.layout.clk_range rem hmem
    refine ⟨⟨r2, r3, by simp [r1, r4], by simp [r1, r5], r6⟩, ⟨?_, ?_, ?_⟩, ?_⟩
    · simp only
      rw [List.pairwise_map]
      exact (h.ids.clk.sublist List.eraseP_sublist).imp (by intro a b hab; simpa [shiftC] using hab)
    · simp only
      rw [List.pairwise_map]
      exact h.ids.lnk.imp (by intro a b hab; simpa [shiftL] using hab)
    · intro c' hc'
      obtain ⟨c, hc, rfl⟩ := List.mem_map.mp hc'
      exact h.ids.clk_ext c (List.mem_of_mem_eraseP hc)
    · simp only [r1]
      apply layout_shift h.layout (by omega) hrange
      · intro c hc; exact List.mem_of_mem_eraseP hc
      · intro l hl; exact hl
      · intro c hc
        have ⟨hc1, hc2⟩ := (mem_erase_clock h).mp hc
        have := h.layout.clk_clk c hc1 rem hmem (by rw [hid]; exact hc2)
        omega
      · intro l hl
        have := h.layout.clk_lnk rem hmem l hl
        omega
      · intro k hk hout
        rcases h.layout.cover k hk with ⟨c, hc, h1, h2⟩ | hl
        · left
          refine ⟨c, (mem_erase_clock h).mpr ⟨hc, ?_⟩, h1, h2⟩
          intro hcid
          have : c = rem := eq_of_mem_of_key_eq (fun c : ClockInfo α => c.id) _ h.ids.clk c hc rem hmem
            (by rw [hid]; exact hcid)
          subst this
          omega
        · right; exact hl

/-- what a clock query reads: the info found for `j` in the new list is the shifted old one -/
theorem find_clock_after_removeClock {s : Est α} {id j : Nat} (rem : ClockInfo α) (hne : j ≠ id) :
    ((s.clocks.eraseP fun c => c.id == id).map (shiftC rem.base 2)).find? (fun c => c.id == j) =
      (s.clocks.find? (fun c => c.id == j)).map (shiftC rem.base 2) := by
  rw [List.find?_map]
  have : ((fun c : ClockInfo α => c.id == j) ∘ shiftC rem.base 2) = fun c => c.id == j := by
    funext c; rfl
  rw [this, find?_eraseP_of_disjoint _ _ (clock_pred_disjoint id j hne)]

theorem find_link_map_shift {ls : List (LinkInfo α)} (frm delta : Nat) (lid : LinkId) :
    (ls.map (shiftL frm delta)).find? (fun l => l.id == lid) =
      (ls.find? (fun l => l.id == lid)).map (shiftL frm delta) := by
  rw [List.find?_map]
  have : ((fun l : LinkInfo α => l.id == lid) ∘ shiftL frm delta) = fun l => l.id == lid := by
    funext l; rfl
  rw [this]

theorem find_clock_map_shift {cs : List (ClockInfo α)} (frm delta : Nat) (j : Nat) :
    (cs.map (shiftC frm delta)).find? (fun c => c.id == j) =
      (cs.find? (fun c => c.id == j)).map (shiftC frm delta) := by
  rw [List.find?_map]
  have : ((fun c : ClockInfo α => c.id == j) ∘ shiftC frm delta) = fun c => c.id == j := by
    funext c; rfl
  rw [this]

/-- reading one cell pair through an index that moved with its block gives the old cells -/
theorem read_shifted {s : Est α} {st' unc' : Mat α} {start len i : Nat}
    (hv : ∀ r, r < s.state.rows - len → st'.get r 0 = s.state.get (unshift start len r) 0)
    (hu : ∀ r c, r < s.state.rows - len → c < s.state.rows - len →
      unc'.get r c = s.unc.get (unshift start len r) (unshift start len c))
    (hb : start + len ≤ s.state.rows) (hi : i < s.state.rows)
    (hdis : i < start ∨ start + len ≤ i) (hlen : 1 ≤ len) :
    st'.get (shiftBase start len i) 0 = s.state.get i 0 ∧
    unc'.get (shiftBase start len i) (shiftBase start len i) = s.unc.get i i := by
  have key : shiftBase start len i < s.state.rows - len ∧ unshift start len (shiftBase start len i) = i := by
    rcases hdis with h1 | h1
    · have e1 : shiftBase start len i = i := by unfold shiftBase; split <;> omega
      rw [e1]; unfold unshift
      exact ⟨by omega, by simp [h1]⟩
    · have e1 : shiftBase start len i = i - len := by unfold shiftBase; split <;> omega
      rw [e1]; unfold unshift
      have : ¬ (i - len < start) := by omega
      exact ⟨by omega, by simp only [this, if_false]; omega⟩
  rw [hv _ key.1, hu _ _ key.1 key.1, key.2]
  exact ⟨rfl, rfl⟩

/-! ### queries read the same cells when the info and the cells moved together -/

theorem clockRaw_congr {s s' : Est α} {j : Nat} (f : ClockInfo α → ClockInfo α)
    (hfind : s'.clocks.find? (fun c => c.id == j) = (s.clocks.find? (fun c => c.id == j)).map f)
    (hcells : ∀ c, s.clocks.find? (fun c => c.id == j) = some c →
      s'.state.get (f c).base 0 = s.state.get c.base 0 ∧
      s'.unc.get (f c).base (f c).base = s.unc.get c.base c.base ∧
      s'.state.get ((f c).base + 1) 0 = s.state.get (c.base + 1) 0 ∧
      s'.unc.get ((f c).base + 1) ((f c).base + 1) = s.unc.get (c.base + 1) (c.base + 1)) :
    clockOffsetRaw s' j = clockOffsetRaw s j ∧ clockFrequencyRaw s' j = clockFrequencyRaw s j := by
  cases hfj : s.clocks.find? (fun c => c.id == j) with
  | none =>
    rw [hfj] at hfind
    simp only [Option.map_none] at hfind
    simp only [clockOffsetRaw, clockFrequencyRaw, getClock, hfind, hfj, bind, Except.bind, and_self]
  | some c =>
    rw [hfj] at hfind
    simp only [Option.map_some] at hfind
    obtain ⟨h1, h2, h3, h4⟩ := hcells c hfj
    simp only [clockOffsetRaw, clockFrequencyRaw, getClock, hfind, hfj, bind, Except.bind,
      ClockInfo.offsetIndex, ClockInfo.frequencyIndex, h1, h2, h3, h4, and_self]

theorem linkRaw_congr {s s' : Est α} {lid : LinkId} (f : LinkInfo α → LinkInfo α)
    (hfind : s'.links.find? (fun l => l.id == lid) = (s.links.find? (fun l => l.id == lid)).map f)
    (hcells : ∀ l, s.links.find? (fun l => l.id == lid) = some l →
      s'.state.get (f l).index 0 = s.state.get l.index 0 ∧
      s'.unc.get (f l).index (f l).index = s.unc.get l.index l.index) :
    linkDelayRaw s' lid = linkDelayRaw s lid := by
  cases hfj : s.links.find? (fun l => l.id == lid) with
  | none =>
    rw [hfj] at hfind
    simp only [Option.map_none] at hfind
    simp only [linkDelayRaw, getLink, hfind, hfj, bind, Except.bind]
  | some l =>
    rw [hfj] at hfind
    simp only [Option.map_some] at hfind
    obtain ⟨h1, h2⟩ := hcells l hfj
    simp only [linkDelayRaw, getLink, hfind, hfj, bind, Except.bind, h1, h2]

theorem shiftBase_succ {start len i : Nat} (h : i + 1 < start ∨ start + len ≤ i) (hlen : 1 ≤ len) :
    shiftBase start len i + 1 = shiftBase start len (i + 1) := by
  unfold shiftBase
  split <;> split <;> omega

theorem removeClock_others {s s' : Est α} (h : WF s) {id : Nat} (hs : removeClock s id = .ok s') :
    (∀ j, j ≠ id → clockOffsetRaw s' j = clockOffsetRaw s j ∧
      clockFrequencyRaw s' j = clockFrequencyRaw s j) ∧
    (∀ lid, linkDelayRaw s' lid = linkDelayRaw s lid) := by
  cases hf : s.clocks.find? (fun c => c.id == id) with
  | none => rw [removeClock_unknown hf] at hs; cases hs
  | some rem =>
    obtain ⟨st', unc', heq, r1, r2, r3, r4, r5, r6, r7, r8⟩ := removeClock_spec h hf
    rw [heq] at hs
    cases hs
    have hmem := List.mem_of_find?_eq_some hf
    have hid : rem.id = id := by simpa using List.find?_some hf
    have hrange := h.layout.clk_range rem hmem
    constructor
    · intro j hne
      apply clockRaw_congr (shiftC rem.base 2) (find_clock_after_removeClock rem hne)
      intro c hc
      have hcm := List.mem_of_find?_eq_some hc
      have hcid : c.id = j := by simpa using List.find?_some hc
      have hdis := h.layout.clk_clk c hcm rem hmem (by rw [hid, hcid]; exact hne)
      have hcr := h.layout.clk_range c hcm
      have A := read_shifted (s := s) r7 r8 hrange (i := c.base) (by omega) (by omega) (by omega)
      have B := read_shifted (s := s) r7 r8 hrange (i := c.base + 1) (by omega) (by omega) (by omega)
      have e := shiftBase_succ (start := rem.base) (len := 2) (i := c.base) (by omega) (by omega)
      simp only [shiftC]
      rw [e]
      exact ⟨A.1, A.2, B.1, B.2⟩
    · intro lid
      apply linkRaw_congr (shiftL rem.base 2) (find_link_map_shift _ _ _)
      intro l hl
      have hlm := List.mem_of_find?_eq_some hl
      have hdis := h.layout.clk_lnk rem hmem l hlm
      have hlr := h.layout.lnk_range l hlm
      have A := read_shifted (s := s) r7 r8 hrange (i := l.index) (by omega) (by omega) (by omega)
      simp only [shiftL]
      exact ⟨A.1, A.2⟩

/-! ### remove_link -/

theorem removeLink_spec {s : Est α} (h : WF s) {id : LinkId} {rem : LinkInfo α}
    (hf : s.links.find? (fun l => l.id == id) = some rem) :
    ∃ st' unc', removeLink s id = .ok { s with
        clocks := s.clocks.map (shiftC rem.index 1),
        links := (s.links.eraseP fun l => l.id == id).map (shiftL rem.index 1),
        state := st', unc := unc' } ∧
      st'.rows = s.state.rows - 1 ∧ st'.cols = 1 ∧ st'.WFm ∧
      unc'.rows = s.state.rows - 1 ∧ unc'.cols = s.state.rows - 1 ∧ unc'.WFm ∧
      (∀ r, r < s.state.rows - 1 → st'.get r 0 = s.state.get (unshift rem.index 1 r) 0) ∧
      (∀ r c, r < s.state.rows - 1 → c < s.state.rows - 1 →
        unc'.get r c = s.unc.get (unshift rem.index 1 r) (unshift rem.index 1 c)) := by
  have hmem := List.mem_of_find?_eq_some hf
  have hrange := h.layout.lnk_range rem hmem
  obtain ⟨st', unc', hs, hu, rest⟩ := splice_spec h.dims (start := rem.index) (len := 1) (by omega)
  have hL := updateLinkIndices_eq (s.links.eraseP fun l => l.id == id) rem.index 1 (by
    intro l hl hgt; omega)
  have hC := updateClockIndices_eq s.clocks rem.index 1 (by
    intro c hc hgt; omega)
  refine ⟨st', unc', ?_, rest⟩
  simp only [removeLink, hf, hC, hL, hs, hu, orPanic, bind, Except.bind, pure, Except.pure]

theorem removeLink_unknown {s : Est α} {id : LinkId}
    (hf : s.links.find? (fun l => l.id == id) = none) : removeLink s id = .error .UnknownLink := by
  simp only [removeLink, hf]

theorem mem_erase_link {s : Est α} (h : WF s) {id : LinkId} {l : LinkInfo α} :
    l ∈ (s.links.eraseP fun l => l.id == id) ↔ l ∈ s.links ∧ l.id ≠ id := by
  have hpw : s.links.Pairwise (fun a b => ¬ ((a.id == id) = true ∧ (b.id == id) = true)) :=
    h.ids.lnk.imp (by
      intro a b hab hboth
      simp only [beq_iff_eq] at hboth
      exact hab (hboth.1.trans hboth.2.symm))
  constructor
  · intro hc
    have hne : (l.id == id) = false := not_p_of_mem_eraseP _ _ hpw l hc
    exact ⟨List.mem_of_mem_eraseP hc, by simpa using hne⟩
  · intro ⟨hc, hne⟩
    exact (List.mem_eraseP_of_neg (by simpa using hne)).mpr hc

theorem removeLink_wf {s s' : Est α} (h : WF s) {id : LinkId} (hs : removeLink s id = .ok s') : WF s' := by
  cases hf : s.links.find? (fun l => l.id == id) with
  | none => rw [removeLink_unknown hf] at hs; cases hs
  | some rem =>
    obtain ⟨st', unc', heq, r1, r2, r3, r4, r5, r6, r7, r8⟩ := removeLink_spec h hf
    rw [heq] at hs
    cases hs
    have hmem := List.mem_of_find?_eq_some hf
    have hid : rem.id = id := by simpa using List.find?_some hf
    have hrange := h.layout.lnk_range rem hmem
    refine ⟨⟨r2, r3, by simp [r1, r4], by simp [r1, r5], r6⟩, ⟨?_, ?_, ?_⟩, ?_⟩
    · simp only
      rw [List.pairwise_map]
      exact h.ids.clk.imp (by intro a b hab; simpa [shiftC] using hab)
    · simp only
      rw [List.pairwise_map]
      exact (h.ids.lnk.sublist List.eraseP_sublist).imp (by intro a b hab; simpa [shiftL] using hab)
    · intro c' hc'
      obtain ⟨c, hc, rfl⟩ := List.mem_map.mp hc'
      exact h.ids.clk_ext c hc
    · simp only [r1]
      apply layout_shift h.layout (by omega) (by omega : rem.index + 1 ≤ s.state.rows)
      · intro c hc; exact hc
      · intro l hl; exact List.mem_of_mem_eraseP hl
      · intro c hc
        have := h.layout.clk_lnk c hc rem hmem
        omega
      · intro l hl
        have ⟨hl1, hl2⟩ := (mem_erase_link h).mp hl
        have := h.layout.lnk_lnk l hl1 rem hmem (by rw [hid]; exact hl2)
        omega
      · intro k hk hout
        rcases h.layout.cover k hk with hc | ⟨l, hl, h1⟩
        · left; exact hc
        · right
          refine ⟨l, (mem_erase_link h).mpr ⟨hl, ?_⟩, h1⟩
          intro hlid
          have : l = rem := eq_of_mem_of_key_eq (fun l : LinkInfo α => l.id) _ h.ids.lnk l hl rem hmem
            (by rw [hid]; exact hlid)
          subst this
          omega

theorem find_link_after_removeLink {s : Est α} {id j : LinkId} (rem : LinkInfo α) (hne : j ≠ id) :
    ((s.links.eraseP fun l => l.id == id).map (shiftL rem.index 1)).find? (fun l => l.id == j) =
      (s.links.find? (fun l => l.id == j)).map (shiftL rem.index 1) := by
  rw [List.find?_map]
  have : ((fun l : LinkInfo α => l.id == j) ∘ shiftL rem.index 1) = fun l => l.id == j := by
    funext l; rfl
  rw [this, find?_eraseP_of_disjoint _ _ (link_pred_disjoint id j hne)]

theorem removeLink_others {s s' : Est α} (h : WF s) {id : LinkId} (hs : removeLink s id = .ok s') :
    (∀ j, clockOffsetRaw s' j = clockOffsetRaw s j ∧ clockFrequencyRaw s' j = clockFrequencyRaw s j) ∧
    (∀ lid, lid ≠ id → linkDelayRaw s' lid = linkDelayRaw s lid) := by
  cases hf : s.links.find? (fun l => l.id == id) with
  | none => rw [removeLink_unknown hf] at hs; cases hs
  | some rem =>
    obtain ⟨st', unc', heq, r1, r2, r3, r4, r5, r6, r7, r8⟩ := removeLink_spec h hf
    rw [heq] at hs
    cases hs
    have hmem := List.mem_of_find?_eq_some hf
    have hid : rem.id = id := by simpa using List.find?_some hf
    have hrange := h.layout.lnk_range rem hmem
    constructor
    · intro j
      apply clockRaw_congr (shiftC rem.index 1) (find_clock_map_shift _ _ _)
      intro c hc
      have hcm := List.mem_of_find?_eq_some hc
      have hdis := h.layout.clk_lnk c hcm rem hmem
      have hcr := h.layout.clk_range c hcm
      have A := read_shifted (s := s) r7 r8 (by omega : rem.index + 1 ≤ s.state.rows) (i := c.base) (by omega) (by omega) (by omega)
      have B := read_shifted (s := s) r7 r8 (by omega : rem.index + 1 ≤ s.state.rows) (i := c.base + 1) (by omega) (by omega) (by omega)
      have e := shiftBase_succ (start := rem.index) (len := 1) (i := c.base) (by omega) (by omega)
      simp only [shiftC]
      rw [e]
      exact ⟨A.1, A.2, B.1, B.2⟩
    · intro lid hne
      apply linkRaw_congr (shiftL rem.index 1) (find_link_after_removeLink rem hne)
      intro l hl
      have hlm := List.mem_of_find?_eq_some hl
      have hlid : l.id = lid := by simpa using List.find?_some hl
      have hdis := h.layout.lnk_lnk l hlm rem hmem (by rw [hid, hlid]; exact hne)
      have hlr := h.layout.lnk_range l hlm
      have A := read_shifted (s := s) r7 r8 (by omega : rem.index + 1 ≤ s.state.rows) (i := l.index) (by omega) (by omega) (by omega)
      simp only [shiftL]
      exact ⟨A.1, A.2⟩

end NtpVerif.Estimator
