/-
Exact-arithmetic facts about the generic Kalman kernel `NtpVerif.Model.Kalman2` (DESIGN §2.5, kind 2):
the carrier is ANY linearly ordered field.  These theorems say the ALGORITHM keeps covariances
symmetric positive semidefinite; they do not bound binary64 rounding.
-/
import Mathlib.Tactic.Ring
import Mathlib.Tactic.Linarith
import Mathlib.Tactic.Positivity
import Mathlib.Tactic.FieldSimp
import Mathlib.Algebra.Order.Field.Basic
import NtpVerif.Model.Kalman2

set_option linter.unusedSectionVars false
set_option linter.unusedVariables false

namespace NtpVerif.Kalman2
variable {α : Type} [Field α] [LinearOrder α] [IsStrictOrderedRing α]

/-- symmetric positive semidefinite 2×2 matrix (Sylvester-type characterisation; equivalent to the
    quadratic form being non-negative: `psd_iff_quadForm`) -/
def PSD (P : Mat2 α) : Prop :=
  P.a01 = P.a10 ∧ 0 ≤ P.a00 ∧ 0 ≤ P.a11 ∧ P.a01 * P.a01 ≤ P.a00 * P.a11

/-- the quadratic form `(u v) P (u v)ᵀ` -/
def quadForm (P : Mat2 α) (u v : α) : α := u * u * P.a00 + u * v * P.a01 + v * u * P.a10 + v * v * P.a11

theorem quadForm_nonneg {P : Mat2 α} (h : PSD P) (u v : α) : 0 ≤ quadForm P u v := by
  obtain ⟨hs, ha, hc, hd⟩ := h
  unfold quadForm
  rw [← hs]
  rcases ha.lt_or_eq with hpos | hz
  · have key : P.a00 * (u * u * P.a00 + u * v * P.a01 + v * u * P.a01 + v * v * P.a11)
        = (P.a00 * u + P.a01 * v) ^ 2 + (P.a00 * P.a11 - P.a01 * P.a01) * (v * v) := by ring
    have h1 : 0 ≤ P.a00 * (u * u * P.a00 + u * v * P.a01 + v * u * P.a01 + v * v * P.a11) := by
      rw [key]
      have : 0 ≤ (P.a00 * P.a11 - P.a01 * P.a01) * (v * v) :=
        mul_nonneg (by linarith) (mul_self_nonneg v)
      have := sq_nonneg (P.a00 * u + P.a01 * v)
      linarith
    exact nonneg_of_mul_nonneg_right h1 hpos
  · have hb : P.a01 = 0 := by
      have : P.a01 * P.a01 ≤ 0 := by rw [← hz] at hd; simpa using hd
      have h2 := mul_self_nonneg P.a01
      exact mul_self_eq_zero.mp (le_antisymm this h2)
    rw [← hz, hb]
    have := mul_nonneg (mul_self_nonneg v) hc
    simpa using this

theorem psd_of_quadForm {P : Mat2 α} (hs : P.a01 = P.a10) (h : ∀ u v, 0 ≤ quadForm P u v) : PSD P := by
  have ha : 0 ≤ P.a00 := by simpa [quadForm] using h 1 0
  have hc : 0 ≤ P.a11 := by simpa [quadForm] using h 0 1
  refine ⟨hs, ha, hc, ?_⟩
  have := h (-P.a01) P.a00
  unfold quadForm at this
  rw [← hs] at this
  have key : -P.a01 * -P.a01 * P.a00 + -P.a01 * P.a00 * P.a01 + P.a00 * -P.a01 * P.a01
      + P.a00 * P.a00 * P.a11 = P.a00 * (P.a00 * P.a11 - P.a01 * P.a01) := by ring
  rw [key] at this
  rcases ha.lt_or_eq with hpos | hz
  · have := nonneg_of_mul_nonneg_right this hpos
    linarith
  · -- a00 = 0: use the form at (1, t) to force a01 = 0
    have hb : P.a01 = 0 := by
      by_contra hne
      have h1 := h (P.a11 + 1) (-P.a01)
      unfold quadForm at h1
      rw [← hs, ← hz] at h1
      have : (P.a11 + 1) * (P.a11 + 1) * 0 + (P.a11 + 1) * -P.a01 * P.a01 + -P.a01 * (P.a11 + 1) * P.a01
          + -P.a01 * -P.a01 * P.a11 = -(P.a01 * P.a01) * (P.a11 + 2) := by ring
      rw [this] at h1
      have hp : 0 < P.a01 * P.a01 := mul_self_pos.mpr hne
      have : 0 < (P.a01 * P.a01) * (P.a11 + 2) := mul_pos hp (by linarith)
      linarith
    rw [hb, ← hz]; simp

/-- the definition of `PSD` is the usual one -/
theorem psd_iff_quadForm (P : Mat2 α) : PSD P ↔ P.a01 = P.a10 ∧ ∀ u v, 0 ≤ quadForm P u v :=
  ⟨fun h => ⟨h.1, quadForm_nonneg h⟩, fun h => psd_of_quadForm h.1 h.2⟩

/-- mixed term of two PSD matrices (`tr (M · adj N) ≥ 0`) -/
theorem mixed_nonneg {M N : Mat2 α} (hM : PSD M) (hN : PSD N) :
    0 ≤ M.a00 * N.a11 + M.a11 * N.a00 - 2 * M.a01 * N.a01 := by
  have hq := quadForm_nonneg hN (-M.a01) M.a00
  unfold quadForm at hq
  rw [← hN.1] at hq
  obtain ⟨_, ha, hc, hd⟩ := hM
  rcases ha.lt_or_eq with hpos | hz
  · have key : M.a00 * (M.a00 * N.a11 + M.a11 * N.a00 - 2 * M.a01 * N.a01)
        = (-M.a01 * -M.a01 * N.a00 + -M.a01 * M.a00 * N.a01 + M.a00 * -M.a01 * N.a01
            + M.a00 * M.a00 * N.a11) + N.a00 * (M.a00 * M.a11 - M.a01 * M.a01) := by ring
    have h1 : 0 ≤ M.a00 * (M.a00 * N.a11 + M.a11 * N.a00 - 2 * M.a01 * N.a01) := by
      rw [key]
      have := mul_nonneg hN.2.1 (by linarith : 0 ≤ M.a00 * M.a11 - M.a01 * M.a01)
      linarith
    exact nonneg_of_mul_nonneg_right h1 hpos
  · have hb : M.a01 = 0 := by
      have : M.a01 * M.a01 ≤ 0 := by rw [← hz] at hd; simpa using hd
      exact mul_self_eq_zero.mp (le_antisymm this (mul_self_nonneg _))
    rw [← hz, hb]
    have := mul_nonneg hc hN.2.1
    simpa using this

/-- the sum of two PSD matrices is PSD -/
theorem psd_add {M N : Mat2 α} (hM : PSD M) (hN : PSD N) : PSD (M.add N) := by
  have hmix := mixed_nonneg hM hN
  obtain ⟨ms, ma, mc, md⟩ := hM
  obtain ⟨ns, na, nc, nd⟩ := hN
  refine ⟨?_, ?_, ?_, ?_⟩
  · simp only [Mat2.add, ms, ns]
  · simp only [Mat2.add]; linarith
  · simp only [Mat2.add]; linarith
  · simp only [Mat2.add]
    have : (M.a00 + N.a00) * (M.a11 + N.a11) - (M.a01 + N.a01) * (M.a01 + N.a01)
        = (M.a00 * M.a11 - M.a01 * M.a01) + (N.a00 * N.a11 - N.a01 * N.a01)
          + (M.a00 * N.a11 + M.a11 * N.a00 - 2 * M.a01 * N.a01) := by ring
    linarith

/-! ### `progress_time` -/

/-- closed form of the covariance after `progress_time` (exact arithmetic) -/
theorem progressCore_P (s : KState α) (dt w : α) :
    (progressCore s dt w).P =
      { a00 := s.P.a00 + dt * s.P.a10 + (s.P.a01 + dt * s.P.a11) * dt + w * dt * dt * dt / 3
        a01 := s.P.a01 + dt * s.P.a11 + w * dt * dt / 2
        a10 := s.P.a10 + s.P.a11 * dt + w * dt * dt / 2
        a11 := s.P.a11 + w * dt } := by
  simp only [progressCore, Mat2.mul, Mat2.add, Mat2.transpose, processNoise, sum2]
  congr 1 <;> ring

theorem processNoise_psd {dt w : α} (hdt : 0 ≤ dt) (hw : 0 ≤ w) : PSD (processNoise dt w) := by
  refine ⟨rfl, ?_, ?_, ?_⟩
  · simp only [processNoise]; positivity
  · simp only [processNoise]; positivity
  · simp only [processNoise]
    have : w * dt * dt * dt / 3 * (w * dt) - w * dt * dt / 2 * (w * dt * dt / 2)
        = (w * dt * dt) ^ 2 / 12 := by ring
    have h2 : 0 ≤ (w * dt * dt) ^ 2 / 12 := by positivity
    linarith

/-- **progress_time keeps symmetric PSD covariances symmetric PSD** (`Δt ≥ 0`, `wander ≥ 0`) -/
theorem progress_psd (s : KState α) (dt w : α) (hP : PSD s.P) (hdt : 0 ≤ dt) (hw : 0 ≤ w) :
    PSD (progressCore s dt w).P := by
  -- F P Fᵀ
  let M : Mat2 α :=
    { a00 := s.P.a00 + dt * s.P.a10 + (s.P.a01 + dt * s.P.a11) * dt
      a01 := s.P.a01 + dt * s.P.a11, a10 := s.P.a10 + s.P.a11 * dt, a11 := s.P.a11 }
  have hM : PSD M := by
    have hq := quadForm_nonneg hP 1 dt
    obtain ⟨hs, ha, hc, hd⟩ := hP
    refine ⟨?_, ?_, hc, ?_⟩
    · show s.P.a01 + dt * s.P.a11 = s.P.a10 + s.P.a11 * dt
      rw [hs]; ring
    · show 0 ≤ s.P.a00 + dt * s.P.a10 + (s.P.a01 + dt * s.P.a11) * dt
      unfold quadForm at hq
      have : s.P.a00 + dt * s.P.a10 + (s.P.a01 + dt * s.P.a11) * dt
          = 1 * 1 * s.P.a00 + 1 * dt * s.P.a01 + dt * 1 * s.P.a10 + dt * dt * s.P.a11 := by ring
      rw [this]; exact hq
    · show (s.P.a01 + dt * s.P.a11) * (s.P.a01 + dt * s.P.a11)
          ≤ (s.P.a00 + dt * s.P.a10 + (s.P.a01 + dt * s.P.a11) * dt) * s.P.a11
      rw [← hs]
      have : (s.P.a00 + dt * s.P.a01 + (s.P.a01 + dt * s.P.a11) * dt) * s.P.a11
          - (s.P.a01 + dt * s.P.a11) * (s.P.a01 + dt * s.P.a11)
          = s.P.a00 * s.P.a11 - s.P.a01 * s.P.a01 := by ring
      linarith
  have hsum := psd_add hM (processNoise_psd hdt hw)
  have : (progressCore s dt w).P = M.add (processNoise dt w) := by
    rw [progressCore_P]
    simp only [Mat2.add, processNoise, M]
  rw [this]; exact hsum

/-- **innovation variance is positive**: after `progress_time` with `Δt > 0` and `wander > 0` the offset
    variance `P₀₀` is strictly positive -/
theorem progress_var_pos (s : KState α) (dt w : α) (hP : PSD s.P) (hdt : 0 < dt) (hw : 0 < w) :
    0 < (progressCore s dt w).P.a00 := by
  rw [progressCore_P]
  show 0 < s.P.a00 + dt * s.P.a10 + (s.P.a01 + dt * s.P.a11) * dt + w * dt * dt * dt / 3
  have hq := quadForm_nonneg hP 1 dt
  unfold quadForm at hq
  have e : s.P.a00 + dt * s.P.a10 + (s.P.a01 + dt * s.P.a11) * dt
      = 1 * 1 * s.P.a00 + 1 * dt * s.P.a01 + dt * 1 * s.P.a10 + dt * dt * s.P.a11 := by ring
  have : 0 < w * dt * dt * dt / 3 := by positivity
  linarith

/-! ### `absorb_measurement` with the measurement row `(1 0)` used by `SourceFilter` -/

/-- closed form of `absorb_measurement` for `h = (1 0)` -/
theorem absorbCore_10 (s : KState α) (z r : α) :
    (absorbCore s 1 0 z r).innov = s.P.a00 + r ∧
    (absorbCore s 1 0 z r).weight = 1 - r / (s.P.a00 + r) ∧
    (absorbCore s 1 0 z r).st.P =
      (let S := s.P.a00 + r
       let k0 := s.P.a00 * (1 / S)
       let k1 := s.P.a10 * (1 / S)
       let m01 := (1 - k0) * s.P.a01
       let m10 := -k1 * s.P.a00 + s.P.a10
       { a00 := (1 - k0) * s.P.a00, a01 := (m01 + m10) / 2, a10 := (m10 + m01) / 2
         a11 := -k1 * s.P.a01 + s.P.a11 }) := by
  refine ⟨?_, ?_, ?_⟩
  · simp only [absorbCore, sum2, sum1]; ring
  · simp only [absorbCore, sum2, sum1]; ring
  · simp only [absorbCore, Mat2.mul, Mat2.sub, Mat2.unit, Mat2.symmetrize, sum2, sum1]
    congr 1 <;> ring

/-- whatever the input, `symmetrize` makes the absorbed covariance symmetric (exact arithmetic) -/
theorem absorb_symmetric (s : KState α) (h0 h1 z r : α) :
    (absorbCore s h0 h1 z r).st.P.a01 = (absorbCore s h0 h1 z r).st.P.a10 := by
  simp only [absorbCore, Mat2.symmetrize]
  ring

/-- **absorb_measurement keeps symmetric PSD covariances symmetric PSD** (`h = (1 0)`, noise `R ≥ 0`,
    innovation variance `S = P₀₀ + R > 0`) -/
theorem absorb_psd (s : KState α) (z r : α) (hP : PSD s.P) (hr : 0 ≤ r) (hS : 0 < s.P.a00 + r) :
    PSD (absorbCore s 1 0 z r).st.P := by
  obtain ⟨_, _, h3⟩ := absorbCore_10 s z r
  rw [h3]
  obtain ⟨hs, ha, hc, hd⟩ := hP
  have hS' : s.P.a00 + r ≠ 0 := ne_of_gt hS
  simp only
  rw [← hs]
  -- closed forms: a' = aR/S, b' = bR/S, c' = (ac - b² + cR)/S
  have e00 : (1 - s.P.a00 * (1 / (s.P.a00 + r))) * s.P.a00 = s.P.a00 * r / (s.P.a00 + r) := by
    field_simp; ring
  have e01 : ((1 - s.P.a00 * (1 / (s.P.a00 + r))) * s.P.a01
        + (-(s.P.a01 * (1 / (s.P.a00 + r))) * s.P.a00 + s.P.a01)) / 2 = s.P.a01 * r / (s.P.a00 + r) := by
    field_simp; ring
  have e10 : ((-(s.P.a01 * (1 / (s.P.a00 + r))) * s.P.a00 + s.P.a01)
        + (1 - s.P.a00 * (1 / (s.P.a00 + r))) * s.P.a01) / 2 = s.P.a01 * r / (s.P.a00 + r) := by
    field_simp; ring
  have e11 : -(s.P.a01 * (1 / (s.P.a00 + r))) * s.P.a01 + s.P.a11
      = (s.P.a00 * s.P.a11 - s.P.a01 * s.P.a01 + s.P.a11 * r) / (s.P.a00 + r) := by
    field_simp; ring
  refine ⟨?_, ?_, ?_, ?_⟩
  · show _ = _
    rw [e01, e10]
  · show 0 ≤ (1 - s.P.a00 * (1 / (s.P.a00 + r))) * s.P.a00
    rw [e00]; exact div_nonneg (mul_nonneg ha hr) hS.le
  · show 0 ≤ -(s.P.a01 * (1 / (s.P.a00 + r))) * s.P.a01 + s.P.a11
    rw [e11]
    exact div_nonneg (by have := mul_nonneg hc hr; linarith) hS.le
  · show _ * _ ≤ _ * _
    rw [e01, e00, e11]
    have hdet : 0 ≤ s.P.a00 * s.P.a11 - s.P.a01 * s.P.a01 := by linarith
    have key : s.P.a00 * r / (s.P.a00 + r)
          * ((s.P.a00 * s.P.a11 - s.P.a01 * s.P.a01 + s.P.a11 * r) / (s.P.a00 + r))
        - s.P.a01 * r / (s.P.a00 + r) * (s.P.a01 * r / (s.P.a00 + r))
        = r * (s.P.a00 * s.P.a11 - s.P.a01 * s.P.a01) / (s.P.a00 + r) := by
      field_simp; ring
    have : 0 ≤ r * (s.P.a00 * s.P.a11 - s.P.a01 * s.P.a01) / (s.P.a00 + r) :=
      div_nonneg (mul_nonneg hr hdet) hS.le
    linarith

/-- **0 ≤ weight ≤ 1** for `h = (1 0)`, PSD prior, `R ≥ 0`, `S > 0` -/
theorem absorb_weight_unit (s : KState α) (z r : α) (hP : PSD s.P) (hr : 0 ≤ r) (hS : 0 < s.P.a00 + r) :
    0 ≤ (absorbCore s 1 0 z r).weight ∧ (absorbCore s 1 0 z r).weight ≤ 1 := by
  rw [(absorbCore_10 s z r).2.1]
  have h1 : 0 ≤ r / (s.P.a00 + r) := div_nonneg hr hS.le
  have h2 : r / (s.P.a00 + r) ≤ 1 := by
    rw [div_le_one hS]; linarith [hP.2.1]
  constructor <;> linarith

/-- the state correction is the textbook one: `x' = x + K (z − x₀)` with gain `K = (P₀₀, P₁₀)/S` -/
theorem absorb_state_10 (s : KState α) (z r : α) :
    (absorbCore s 1 0 z r).st.x =
      { x0 := s.x.x0 + s.P.a00 / (s.P.a00 + r) * (z - s.x.x0)
        x1 := s.x.x1 + s.P.a10 / (s.P.a00 + r) * (z - s.x.x0) } := by
  simp only [absorbCore, sum2, sum1]
  congr 1 <;> ring

/-! ### `absorb_measurement` with a general measurement row `(h0 h1)` -/

/-- innovation variance for a general row and symmetric covariance: `h P hᵀ + R` -/
def innovGen (P : Mat2 α) (h0 h1 r : α) : α :=
  h0 * h0 * P.a00 + 2 * (h0 * h1 * P.a01) + h1 * h1 * P.a11 + r

/-- closed form of `absorb_measurement` for a general row (symmetric prior, `S ≠ 0`):
    `P' = P − u uᵀ / S` with `u = P hᵀ` -/
theorem absorbCore_general (s : KState α) (h0 h1 z r : α) (hs : s.P.a01 = s.P.a10)
    (hS : innovGen s.P h0 h1 r ≠ 0) :
    (absorbCore s h0 h1 z r).innov = innovGen s.P h0 h1 r ∧
    (absorbCore s h0 h1 z r).st.P =
      (let S := innovGen s.P h0 h1 r
       let u0 := s.P.a00 * h0 + s.P.a01 * h1
       let u1 := s.P.a01 * h0 + s.P.a11 * h1
       { a00 := s.P.a00 - u0 * u0 / S, a01 := s.P.a01 - u0 * u1 / S,
         a10 := s.P.a01 - u0 * u1 / S, a11 := s.P.a11 - u1 * u1 / S }) := by
  have hinn : (absorbCore s h0 h1 z r).innov = innovGen s.P h0 h1 r := by
    simp only [absorbCore, sum2, innovGen]; rw [← hs]; ring
  refine ⟨hinn, ?_⟩
  have hS' : sum2 (sum2 (h0 * s.P.a00) (h1 * s.P.a10) * h0) (sum2 (h0 * s.P.a01) (h1 * s.P.a11) * h1) + r
      = innovGen s.P h0 h1 r := by
    simp only [sum2, innovGen]; rw [← hs]; ring
  simp only [absorbCore, Mat2.mul, Mat2.sub, Mat2.unit, Mat2.symmetrize, hS']
  simp only [sum2, sum1]
  rw [← hs]
  congr 1 <;> (field_simp; ring)

/-- **absorb_measurement keeps symmetric PSD covariances symmetric PSD for EVERY measurement row**
    (`R ≥ 0`, innovation variance `S = h P hᵀ + R > 0`).  Key identities:
    `P'₀₀·S = P₀₀·R + h1²·det P`, `P'₁₁·S = P₁₁·R + h0²·det P`, `det P' = det P · R / S`. -/
theorem absorb_psd_general (s : KState α) (h0 h1 z r : α) (hP : PSD s.P) (hr : 0 ≤ r)
    (hS : 0 < innovGen s.P h0 h1 r) : PSD (absorbCore s h0 h1 z r).st.P := by
  obtain ⟨hs, ha, hc, hd⟩ := hP
  rw [(absorbCore_general s h0 h1 z r hs (ne_of_gt hS)).2]
  simp only
  have hS' := ne_of_gt hS
  have hdet : 0 ≤ s.P.a00 * s.P.a11 - s.P.a01 * s.P.a01 := by linarith
  have e00 : s.P.a00 - (s.P.a00 * h0 + s.P.a01 * h1) * (s.P.a00 * h0 + s.P.a01 * h1) / innovGen s.P h0 h1 r
      = (s.P.a00 * r + h1 * h1 * (s.P.a00 * s.P.a11 - s.P.a01 * s.P.a01)) / innovGen s.P h0 h1 r := by
    field_simp; simp only [innovGen]; ring
  have e11 : s.P.a11 - (s.P.a01 * h0 + s.P.a11 * h1) * (s.P.a01 * h0 + s.P.a11 * h1) / innovGen s.P h0 h1 r
      = (s.P.a11 * r + h0 * h0 * (s.P.a00 * s.P.a11 - s.P.a01 * s.P.a01)) / innovGen s.P h0 h1 r := by
    field_simp; simp only [innovGen]; ring
  refine ⟨rfl, ?_, ?_, ?_⟩
  · show 0 ≤ _ - _ / _
    rw [e00]
    exact div_nonneg (by have := mul_nonneg ha hr; have := mul_nonneg (mul_self_nonneg h1) hdet; linarith) hS.le
  · show 0 ≤ _ - _ / _
    rw [e11]
    exact div_nonneg (by have := mul_nonneg hc hr; have := mul_nonneg (mul_self_nonneg h0) hdet; linarith) hS.le
  · show _ * _ ≤ _ * _
    have key : (s.P.a00 - (s.P.a00 * h0 + s.P.a01 * h1) * (s.P.a00 * h0 + s.P.a01 * h1) / innovGen s.P h0 h1 r)
          * (s.P.a11 - (s.P.a01 * h0 + s.P.a11 * h1) * (s.P.a01 * h0 + s.P.a11 * h1) / innovGen s.P h0 h1 r)
        - (s.P.a01 - (s.P.a00 * h0 + s.P.a01 * h1) * (s.P.a01 * h0 + s.P.a11 * h1) / innovGen s.P h0 h1 r)
          * (s.P.a01 - (s.P.a00 * h0 + s.P.a01 * h1) * (s.P.a01 * h0 + s.P.a11 * h1) / innovGen s.P h0 h1 r)
        = (s.P.a00 * s.P.a11 - s.P.a01 * s.P.a01) * r / innovGen s.P h0 h1 r := by
      field_simp; simp only [innovGen]; ring
    have : 0 ≤ (s.P.a00 * s.P.a11 - s.P.a01 * s.P.a01) * r / innovGen s.P h0 h1 r :=
      div_nonneg (mul_nonneg hdet hr) hS.le
    linarith

/-! ### `add_server_dispersion`, `merge`, root dispersion -/

theorem addServerDispersion_psd (s : KState α) (d : α) (hP : PSD s.P) :
    PSD (addServerDispersion s d).P := by
  have : PSD ({ a00 := d * d, a01 := 0, a10 := 0, a11 := 0 } : Mat2 α) :=
    ⟨rfl, mul_self_nonneg d, le_refl _, by simp⟩
  exact psd_add hP this

/-- closed form of `merge`: `P₁ (P₁+P₂)⁻¹ P₂ = (det P₂ · P₁ + det P₁ · P₂) / det (P₁+P₂)` -/
theorem merge_P (s o : KState α) (hs : s.P.a01 = s.P.a10) (ho : o.P.a01 = o.P.a10)
    (hD : (s.P.add o.P).det ≠ 0) :
    (merge s o).P =
      { a00 := (o.P.det * s.P.a00 + s.P.det * o.P.a00) / (s.P.add o.P).det
        a01 := (o.P.det * s.P.a01 + s.P.det * o.P.a01) / (s.P.add o.P).det
        a10 := (o.P.det * s.P.a10 + s.P.det * o.P.a10) / (s.P.add o.P).det
        a11 := (o.P.det * s.P.a11 + s.P.det * o.P.a11) / (s.P.add o.P).det } := by
  simp only [Mat2.det, Mat2.add] at hD
  simp only [merge, Mat2.mul, Mat2.inverse, Mat2.add, Mat2.det, sum2]
  rw [← hs, ← ho] at *
  congr 1 <;> (field_simp; ring)

/-- **merge keeps PSD** when the sum of the two covariances is invertible with positive determinant
    (in particular for positive definite inputs) -/
theorem merge_psd (s o : KState α) (hs : PSD s.P) (ho : PSD o.P) (hD : 0 < (s.P.add o.P).det) :
    PSD (merge s o).P := by
  rw [merge_P s o hs.1 ho.1 (ne_of_gt hD)]
  have hds : 0 ≤ s.P.det := by simp only [Mat2.det]; rw [← hs.1]; linarith [hs.2.2.2]
  have hdo : 0 ≤ o.P.det := by simp only [Mat2.det]; rw [← ho.1]; linarith [ho.2.2.2]
  -- numerator matrix is a non-negative combination of PSD matrices
  let N : Mat2 α :=
    { a00 := o.P.det * s.P.a00 + s.P.det * o.P.a00, a01 := o.P.det * s.P.a01 + s.P.det * o.P.a01
      a10 := o.P.det * s.P.a10 + s.P.det * o.P.a10, a11 := o.P.det * s.P.a11 + s.P.det * o.P.a11 }
  have scale : ∀ (c : α) (M : Mat2 α), 0 ≤ c → PSD M →
      PSD ({ a00 := c * M.a00, a01 := c * M.a01, a10 := c * M.a10, a11 := c * M.a11 } : Mat2 α) := by
    intro c M hc hM
    obtain ⟨m1, m2, m3, m4⟩ := hM
    refine ⟨by simp only [m1], mul_nonneg hc m2, mul_nonneg hc m3, ?_⟩
    show c * M.a01 * (c * M.a01) ≤ c * M.a00 * (c * M.a11)
    have : c * M.a00 * (c * M.a11) - c * M.a01 * (c * M.a01) = c * c * (M.a00 * M.a11 - M.a01 * M.a01) := by
      ring
    have h2 : 0 ≤ c * c * (M.a00 * M.a11 - M.a01 * M.a01) := mul_nonneg (mul_self_nonneg c) (by linarith)
    linarith
  have hN : PSD N := psd_add (scale _ _ hdo hs) (scale _ _ hds ho)
  have hinv : 0 ≤ 1 / (s.P.add o.P).det := by positivity
  have := scale _ _ hinv hN
  obtain ⟨q1, q2, q3, q4⟩ := this
  refine ⟨?_, ?_, ?_, ?_⟩
  · show _ / _ = _ / _
    have := q1; simp only [N] at this
    rw [div_eq_mul_one_div, div_eq_mul_one_div (o.P.det * s.P.a10 + s.P.det * o.P.a10)]
    rw [mul_comm, mul_comm (o.P.det * s.P.a10 + s.P.det * o.P.a10)]; exact this
  · show 0 ≤ _ / _
    exact div_nonneg hN.2.1 hD.le
  · show 0 ≤ _ / _
    exact div_nonneg hN.2.2.1 hD.le
  · show _ / _ * (_ / _) ≤ _ / _ * (_ / _)
    have h4 := hN.2.2.2
    simp only [N] at h4
    rw [div_mul_div_comm, div_mul_div_comm]
    exact div_le_div_of_nonneg_right h4 (mul_self_nonneg _)

/-- **root-dispersion polynomial is non-negative**: `P₀₀ + t·P₀₁ + t²·P₁₁ + t³·w ≥ 0` for PSD `P`,
    `t ≥ 0`, `w ≥ 0` (the argument of the square root in `TimeSnapshot::root_dispersion`) -/
theorem dispersionPoly_nonneg (P : Mat2 α) (w t : α) (hP : PSD P) (ht : 0 ≤ t) (hw : 0 ≤ w) :
    0 ≤ dispersionPoly P w t := by
  obtain ⟨hs, ha, hc, hd⟩ := hP
  unfold dispersionPoly
  have h3 : 0 ≤ t * t * t * w := by positivity
  suffices h : 0 ≤ P.a00 + t * P.a01 + t * t * P.a11 by linarith
  rcases ha.lt_or_eq with hpos | hz
  · have key : 4 * P.a00 * (P.a00 + t * P.a01 + t * t * P.a11)
        = (2 * P.a00 + t * P.a01) ^ 2 + t * t * (4 * (P.a00 * P.a11) - P.a01 * P.a01) := by ring
    have h1 : 0 ≤ 4 * P.a00 * (P.a00 + t * P.a01 + t * t * P.a11) := by
      rw [key]
      have h2 : 0 ≤ P.a00 * P.a11 := mul_nonneg ha hc
      have : 0 ≤ t * t * (4 * (P.a00 * P.a11) - P.a01 * P.a01) :=
        mul_nonneg (mul_self_nonneg t) (by linarith)
      have := sq_nonneg (2 * P.a00 + t * P.a01)
      linarith
    exact nonneg_of_mul_nonneg_right h1 (by linarith)
  · have hb : P.a01 = 0 := by
      have : P.a01 * P.a01 ≤ 0 := by rw [← hz] at hd; simpa using hd
      exact mul_self_eq_zero.mp (le_antisymm this (mul_self_nonneg _))
    rw [← hz, hb]
    have := mul_nonneg (mul_self_nonneg t) hc
    simpa using this

end NtpVerif.Kalman2
