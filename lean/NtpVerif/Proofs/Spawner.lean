/- Helper lemmas for C36: one iteration of `spawner_task`, and invariants over the whole run. -/
import NtpVerif.Model.Spawner

namespace NtpVerif.Spawner

variable {σ : Type}

/-- relation between consecutive elements of a list -/
def Consec {α : Type} (R : α → α → Prop) : List α → Prop
  | a :: b :: l => R a b ∧ Consec R (b :: l)
  | _ => True

theorem Consec.imp {α : Type} {R S : α → α → Prop} (h : ∀ a b, R a b → S a b) :
    ∀ {l : List α}, Consec R l → Consec S l
  | [], _ => trivial
  | [_], _ => trivial
  | a :: b :: l, ⟨h1, h2⟩ => ⟨h a b h1, Consec.imp h (l := b :: l) h2⟩

theorem Consec.and {α : Type} {R S : α → α → Prop} :
    ∀ {l : List α}, Consec R l → Consec S l → Consec (fun a b => R a b ∧ S a b) l
  | [], _, _ => trivial
  | [_], _, _ => trivial
  | _ :: b :: l, ⟨h1, h2⟩, ⟨g1, g2⟩ => ⟨⟨h1, g1⟩, Consec.and (l := b :: l) h2 g2⟩

/-- a relation that needs a per-element fact on both sides -/
theorem Consec.of_forall {α : Type} {R : α → α → Prop} {p : α → Prop} :
    ∀ {l : List α}, (∀ a ∈ l, p a) → Consec (fun a b => p a → p b → R a b) l → Consec R l
  | [], _, _ => trivial
  | [_], _, _ => trivial
  | a :: b :: l, hp, ⟨h1, h2⟩ =>
    ⟨h1 (hp a (by simp)) (hp b (by simp)),
     Consec.of_forall (l := b :: l) (fun x hx => hp x (List.mem_cons_of_mem _ hx)) h2⟩

/-! #### the wait -/

theorem wakeOf_time_ge (P : Nat) (tie : Bool) (now last : Nat) (ticket : Bool) (tArr : Nat)
    (item : Option Ev) : now ≤ (wakeOf P tie now last ticket tArr item).time := by
  unfold wakeOf
  cases item <;> simp only [] <;> (repeat' split) <;> simp only [Wake.time] <;> omega

/-- without a ticket, and with less than a period elapsed, the wait ends at `last + P` at the latest -/
theorem wakeOf_deadline (P : Nat) (tie : Bool) (now last : Nat) (tArr : Nat) (item : Option Ev)
    (h : now - last < P) (hl : last ≤ now) : (wakeOf P tie now last false tArr item).time ≤ last + P := by
  unfold wakeOf
  simp only [Bool.false_eq_true, if_false]
  split
  · rename_i hc
    cases item <;> simp only [Wake.time] <;> (rcases hc with hc | ⟨hc, _⟩ <;> omega)
  · simp only [Wake.time]; omega

theorem wakeQ_time_ge (P : Nat) (tie : Bool) (tClose : Nat) (L : Loop σ) (q : List (Nat × Ev)) :
    L.now ≤ (wakeQ P tie tClose L q).time := by
  unfold wakeQ
  split <;> exact wakeOf_time_ge ..

theorem wakeQ_deadline (P : Nat) (tie : Bool) (tClose : Nat) (L : Loop σ) (q : List (Nat × Ev))
    (ht : L.ticket = false) (h : L.now - L.last < P) (hl : L.last ≤ L.now) :
    (wakeQ P tie tClose L q).time ≤ L.last + P := by
  unfold wakeQ
  split <;> (rw [ht]; exact wakeOf_deadline _ _ _ _ _ _ h hl)

/-- `wakeOf` never produces `.error` -/
theorem wakeOf_ne_error (P : Nat) (tie : Bool) (now last : Nat) (ticket : Bool) (tArr : Nat)
    (item : Option Ev) (t : Nat) : wakeOf P tie now last ticket tArr item ≠ .error t := by
  unfold wakeOf
  cases item <;> simp only [] <;> (repeat' split) <;> simp

theorem wakeQ_ne_error (P : Nat) (tie : Bool) (tClose : Nat) (L : Loop σ) (q : List (Nat × Ev)) (t : Nat) :
    wakeQ P tie tClose L q ≠ .error t := by
  unfold wakeQ
  split <;> exact wakeOf_ne_error _ _ _ _ _ _ _ _

/-- what `waitPart` returns, field by field -/
theorem waitPart_spec (P : Nat) (tie : Bool) (I : Iface σ) (tClose : Nat) (top lastTop : Nat)
    (tk inc : Bool) (att : Option (Nat × Nat)) (L : Loop σ) (q : List (Nat × Ev)) :
    let r := waitPart P tie I tClose top lastTop tk inc att L q
    r.1 = { top := top, lastTop := lastTop, ticket := tk, incomplete := inc, attempt := att, last := L.last,
            ticketW := L.ticket, incompleteW := !I.isComplete L.sp, wake := wakeQ P tie tClose L q } ∧
    r.2.1.now = (wakeQ P tie tClose L q).time ∧ r.2.1.last = L.last ∧ r.2.1.ticket = L.ticket ∧
    (∀ t e, wakeQ P tie tClose L q = .event t e → r.2.1.sp = I.handle L.sp e ∧ r.2.2 = some q.tail) ∧
    (∀ t, wakeQ P tie tClose L q = .timeout t → r.2.1.sp = L.sp ∧ r.2.2 = some q) ∧
    (∀ t, wakeQ P tie tClose L q = .closed t → r.2.2 = none) := by
  intro r
  have hr : r = waitPart P tie I tClose top lastTop tk inc att L q := rfl
  clear_value r
  unfold waitPart at hr
  cases hw : wakeQ P tie tClose L q with
  | event t e => simp only [hw] at hr; subst hr; simp [Wake.time]
  | timeout t => simp only [hw] at hr; subst hr; simp [Wake.time]
  | closed t => simp only [hw] at hr; subst hr; simp [Wake.time]
  | error t => exact absurd hw (wakeQ_ne_error _ _ _ _ _ _)

/-! #### one iteration -/

/-- the refreshed ticket -/
def ticketAt (P : Nat) (L : Loop σ) : Bool := L.ticket || decide (P ≤ L.now - L.last)

/-- loop variables when the wait begins, and the call made (if any and if it did not fail) -/
def afterCall (P : Nat) (I : Iface σ) (L : Loop σ) : Loop σ × Option (Nat × Nat) :=
  if (ticketAt P L && !I.isComplete L.sp) = true then
    match (I.trySpawn L.sp).2 with
    | some sp' =>
      ({ now := L.now + (I.trySpawn L.sp).1, ticket := false, last := L.now + (I.trySpawn L.sp).1, sp := sp' },
       some (L.now, L.now + (I.trySpawn L.sp).1))
    | none => (L, none)
  else ({ L with ticket := ticketAt P L }, none)

/-- does the iteration end the task with an error? -/
def callFails (P : Nat) (I : Iface σ) (L : Loop σ) : Prop :=
  (ticketAt P L && !I.isComplete L.sp) = true ∧ (I.trySpawn L.sp).2 = none

/-- an iteration whose call does not fail is `waitPart` after `afterCall` -/
theorem iterOf_eq (P : Nat) (tie : Bool) (I : Iface σ) (tClose : Nat) (L : Loop σ)
    (q : List (Nat × Ev)) (h : ¬ callFails P I L) :
    iterOf P tie I tClose L q =
      waitPart P tie I tClose L.now L.last (ticketAt P L) (!I.isComplete L.sp) (afterCall P I L).2
        (afterCall P I L).1 q := by
  unfold iterOf afterCall
  simp only [callFails, ticketAt] at h ⊢
  by_cases hc : ((L.ticket || decide (P ≤ L.now - L.last)) && !I.isComplete L.sp) = true
  · cases hs : (I.trySpawn L.sp).2 with
    | none => exact absurd ⟨hc, hs⟩ h
    | some sp' => simp only [hc, if_true]
  · simp [hc]

/-- iteration whose `try_spawn` call returns `Err` -/
theorem iterOf_err (P : Nat) (tie : Bool) (I : Iface σ) (tClose : Nat) (L : Loop σ)
    (q : List (Nat × Ev)) (h : callFails P I L) :
    iterOf P tie I tClose L q =
      ({ top := L.now, lastTop := L.last, ticket := ticketAt P L, incomplete := !I.isComplete L.sp,
         attempt := some (L.now, L.now + (I.trySpawn L.sp).1), last := L.now + (I.trySpawn L.sp).1,
         ticketW := false, incompleteW := !I.isComplete L.sp,
         wake := .error (L.now + (I.trySpawn L.sp).1) },
       { L with now := L.now + (I.trySpawn L.sp).1 }, none) := by
  obtain ⟨h1, h2⟩ := h
  unfold iterOf
  simp only [ticketAt] at h1 ⊢
  simp [h1, h2]

/-- facts about `afterCall` -/
theorem afterCall_spec (P : Nat) (I : Iface σ) (L : Loop σ) (hl : L.last ≤ L.now)
    (hf : ¬ callFails P I L) :
    let a := afterCall P I L
    a.1.last ≤ a.1.now ∧ L.now ≤ a.1.now ∧
    (a.2 = none → a.1 = { L with ticket := ticketAt P L } ∧ ¬ (ticketAt P L = true ∧ I.isComplete L.sp = false)) ∧
    (∀ s e, a.2 = some (s, e) → s = L.now ∧ L.now ≤ e ∧ a.1.now = e ∧ a.1.last = e ∧ a.1.ticket = false ∧
      ticketAt P L = true ∧ I.isComplete L.sp = false) := by
  intro a
  have ha : a = afterCall P I L := rfl
  clear_value a
  unfold afterCall at ha
  cases hc : (ticketAt P L && !I.isComplete L.sp) with
  | false =>
    simp only [hc, Bool.false_eq_true, if_false] at ha
    subst ha
    refine ⟨hl, Nat.le_refl _, fun _ => ⟨rfl, ?_⟩, fun s e h => by cases h⟩
    intro ⟨h1, h2⟩; simp [h1, h2] at hc
  | true =>
    have htk : ticketAt P L = true ∧ I.isComplete L.sp = false := by
      cases ht : ticketAt P L <;> cases hi : I.isComplete L.sp <;> simp_all
    cases hs : (I.trySpawn L.sp).2 with
    | none => exact absurd ⟨hc, hs⟩ hf
    | some sp' =>
      simp only [hc, if_true, hs] at ha
      subst ha
      refine ⟨Nat.le_refl _, Nat.le_add_right _ _, (fun h => by cases h), ?_⟩
      intro s e h
      simp only [Option.some.injEq, Prod.mk.injEq] at h
      obtain ⟨rfl, rfl⟩ := h
      exact ⟨rfl, Nat.le_add_right _ _, rfl, rfl, rfl, htk.1, htk.2⟩

/-- local facts about the record of one iteration -/
structure IterOK (P : Nat) (it : Iter) : Prop where
  /-- the ticket is refreshed when a period has elapsed since `last_ticket_time` -/
  ticket_when_elapsed : P ≤ it.top - it.lastTop → it.ticket = true
  /-- without a ticket, less than a period has elapsed -/
  no_ticket_early : it.ticket = false → it.top < it.lastTop + P
  /-- `try_spawn` is called iff a ticket is held and the spawner is incomplete, and then at once -/
  attempt_iff : (∃ e, it.attempt = some (it.top, e) ∧ it.top ≤ e) ↔ (it.ticket = true ∧ it.incomplete = true)
  attempt_none : it.attempt = none ↔ ¬ (it.ticket = true ∧ it.incomplete = true)
  /-- an incomplete spawner waits without a ticket … -/
  incomplete_waits_without_ticket : it.incompleteW = true → it.ticketW = false
  /-- … and a wait without a ticket ends one period after `last_ticket_time` at the latest -/
  wait_bounded : it.ticketW = false → it.wake.time ≤ it.last + P
  /-- a call consumes the ticket and restarts the period at its end -/
  attempt_resets : ∀ s e, it.attempt = some (s, e) → it.ticketW = false ∧ it.last = e
  /-- no call: ticket and period start are carried over -/
  idle_keeps : it.attempt = none → it.ticketW = it.ticket ∧ it.last = it.lastTop ∧ it.incompleteW = it.incomplete
  time_mono : it.top ≤ it.wake.time

theorem iterOf_ok_facts (P : Nat) (hP : 0 < P) (tie : Bool) (I : Iface σ) (tClose : Nat) (L : Loop σ)
    (q : List (Nat × Ev)) (hl : L.last ≤ L.now) : IterOK P (iterOf P tie I tClose L q).1 := by
  by_cases hf : callFails P I L
  · have htk : ticketAt P L = true ∧ I.isComplete L.sp = false := by
      have := hf.1
      cases ht : ticketAt P L <;> cases hi : I.isComplete L.sp <;> simp_all
    rw [iterOf_err P tie I tClose L q hf]
    refine ⟨fun _ => htk.1, ?_, ?_, ?_, ?_, ?_, ?_, ?_, ?_⟩
    · intro ht; simp only [htk.1] at ht; cases ht
    · simp only [htk.1, htk.2, Bool.not_false, and_self, iff_true]
      exact ⟨_, rfl, Nat.le_add_right _ _⟩
    · simp [htk.1, htk.2]
    · intro _; rfl
    · intro _; show L.now + (I.trySpawn L.sp).1 ≤ L.now + (I.trySpawn L.sp).1 + P; omega
    · intro s e he
      simp only [Option.some.injEq, Prod.mk.injEq] at he
      exact ⟨rfl, he.2⟩
    · intro he; cases he
    · show L.now ≤ L.now + (I.trySpawn L.sp).1; omega
  · rw [iterOf_eq P tie I tClose L q hf]
    obtain ⟨h1, _⟩ := waitPart_spec P tie I tClose L.now L.last (ticketAt P L) (!I.isComplete L.sp)
      (afterCall P I L).2 (afterCall P I L).1 q
    rw [h1]
    obtain ⟨a1, a2, a3, a4⟩ := afterCall_spec P I L hl hf
    have hge := wakeQ_time_ge P tie tClose (afterCall P I L).1 q
    refine ⟨?_, ?_, ?_, ?_, ?_, ?_, ?_, ?_, ?_⟩
    · intro hp; show ticketAt P L = true
      simp only [ticketAt, Bool.or_eq_true, decide_eq_true_eq]; exact Or.inr hp
    · intro ht
      have ht' : ticketAt P L = false := ht
      simp only [ticketAt, Bool.or_eq_false_iff, decide_eq_false_iff_not] at ht'
      show L.now < L.last + P; omega
    · show (∃ e, (afterCall P I L).2 = some (L.now, e) ∧ L.now ≤ e) ↔
        (ticketAt P L = true ∧ (!I.isComplete L.sp) = true)
      constructor
      · rintro ⟨e, he, _⟩
        have := a4 _ _ he
        simp [this.2.2.2.2.2.1, this.2.2.2.2.2.2]
      · intro ⟨ht, hi⟩
        cases ha : (afterCall P I L).2 with
        | none =>
          have := (a3 ha).2
          exact absurd ⟨ht, by simpa using hi⟩ this
        | some se =>
          obtain ⟨s, e⟩ := se
          have := a4 s e ha
          exact ⟨e, by rw [this.1], this.2.1⟩
    · show (afterCall P I L).2 = none ↔ ¬ (ticketAt P L = true ∧ (!I.isComplete L.sp) = true)
      constructor
      · intro ha ⟨ht, hi⟩
        exact (a3 ha).2 ⟨ht, by simpa using hi⟩
      · intro hn
        cases ha : (afterCall P I L).2 with
        | none => rfl
        | some se =>
          obtain ⟨s, e⟩ := se
          have := a4 s e ha
          exact absurd ⟨this.2.2.2.2.2.1, by simp [this.2.2.2.2.2.2]⟩ hn
    · show (!I.isComplete (afterCall P I L).1.sp) = true → (afterCall P I L).1.ticket = false
      intro hi
      cases ha : (afterCall P I L).2 with
      | none =>
        obtain ⟨e1, e2⟩ := a3 ha
        rw [e1] at hi ⊢
        simp only at hi ⊢
        cases ht : ticketAt P L with
        | false => rfl
        | true => exact absurd ⟨ht, by simpa using hi⟩ e2
      | some se =>
        obtain ⟨s, e⟩ := se
        exact (a4 s e ha).2.2.2.2.1
    · show (afterCall P I L).1.ticket = false → (wakeQ P tie tClose (afterCall P I L).1 q).time ≤
        (afterCall P I L).1.last + P
      intro ht
      apply wakeQ_deadline P tie tClose _ q ht _ a1
      cases ha : (afterCall P I L).2 with
      | none =>
        obtain ⟨e1, _⟩ := a3 ha
        rw [e1] at ht ⊢
        have ht' : ticketAt P L = false := ht
        simp only [ticketAt, Bool.or_eq_false_iff, decide_eq_false_iff_not] at ht'
        show L.now - L.last < P; omega
      | some se =>
        obtain ⟨s, e⟩ := se
        have := a4 s e ha
        rw [this.2.2.1, this.2.2.2.1]; omega
    · intro s e he
      have := a4 s e he
      exact ⟨this.2.2.2.2.1, this.2.2.2.1⟩
    · intro ha
      have ha' : (afterCall P I L).2 = none := ha
      obtain ⟨e1, _⟩ := a3 ha'
      show (afterCall P I L).1.ticket = ticketAt P L ∧ (afterCall P I L).1.last = L.last ∧
        (!I.isComplete (afterCall P I L).1.sp) = !I.isComplete L.sp
      rw [e1]; exact ⟨rfl, rfl, rfl⟩
    · show L.now ≤ (wakeQ P tie tClose (afterCall P I L).1 q).time; omega

/-- how the loop variables of the next iteration relate to the record of this one -/
theorem iterOf_next (P : Nat) (tie : Bool) (I : Iface σ) (tClose : Nat) (L : Loop σ)
    (q : List (Nat × Ev)) :
    let r := iterOf P tie I tClose L q
    r.1.top = L.now ∧ r.1.lastTop = L.last ∧ r.1.ticket = ticketAt P L ∧
    r.1.incomplete = (!I.isComplete L.sp) ∧
    r.2.1.now = r.1.wake.time ∧ (r.2.2.isSome → r.2.1.last = r.1.last ∧ r.2.1.ticket = r.1.ticketW) := by
  intro r
  have hr : r = iterOf P tie I tClose L q := rfl
  clear_value r
  by_cases hf : callFails P I L
  · rw [iterOf_err P tie I tClose L q hf] at hr
    subst hr
    exact ⟨rfl, rfl, rfl, rfl, rfl, fun hh => by cases hh⟩
  · rw [iterOf_eq P tie I tClose L q hf] at hr
    obtain ⟨h1, h2, h3, h4, _⟩ := waitPart_spec P tie I tClose L.now L.last (ticketAt P L)
      (!I.isComplete L.sp) (afterCall P I L).2 (afterCall P I L).1 q
    rw [← hr] at h1 h2 h3 h4
    rw [h1]
    exact ⟨rfl, rfl, rfl, rfl, h2, fun _ => ⟨h3, h4⟩⟩

/-- `last ≤ now` is kept -/
theorem iterOf_last_le (P : Nat) (tie : Bool) (I : Iface σ) (tClose : Nat) (L : Loop σ)
    (q : List (Nat × Ev)) (hl : L.last ≤ L.now) :
    (iterOf P tie I tClose L q).2.1.last ≤ (iterOf P tie I tClose L q).2.1.now := by
  by_cases hf : callFails P I L
  · rw [iterOf_err P tie I tClose L q hf]
    show L.last ≤ L.now + (I.trySpawn L.sp).1; omega
  · rw [iterOf_eq P tie I tClose L q hf]
    obtain ⟨_, h2, h3, _⟩ := waitPart_spec P tie I tClose L.now L.last (ticketAt P L)
      (!I.isComplete L.sp) (afterCall P I L).2 (afterCall P I L).1 q
    rw [h2, h3]
    have := wakeQ_time_ge P tie tClose (afterCall P I L).1 q
    have := (afterCall_spec P I L hl hf).1
    omega

/-! #### the whole run -/

theorem run_succ (P : Nat) (tie : Bool) (I : Iface σ) (tClose : Nat) (n : Nat) (L : Loop σ)
    (q : List (Nat × Ev)) :
    run P tie I tClose (n + 1) L q =
      (iterOf P tie I tClose L q).1 ::
        (match (iterOf P tie I tClose L q).2.2 with
         | none => []
         | some q' => run P tie I tClose n (iterOf P tie I tClose L q).2.1 q') := by
  rw [run]
  rcases iterOf P tie I tClose L q with ⟨it, L', c⟩
  cases c <;> rfl

/-- a per-iteration property that follows from a loop invariant holds for every record of a run -/
theorem run_forall (P : Nat) (tie : Bool) (I : Iface σ) (tClose : Nat) (Inv : Loop σ → Prop)
    (hpres : ∀ L q, Inv L → Inv (iterOf P tie I tClose L q).2.1)
    (p : Iter → Prop) (hp : ∀ L q, Inv L → p (iterOf P tie I tClose L q).1)
    (fuel : Nat) (L : Loop σ) (q : List (Nat × Ev)) (h : Inv L) :
    ∀ it ∈ run P tie I tClose fuel L q, p it := by
  induction fuel generalizing L q with
  | zero => intro it hit; cases hit
  | succ n ih =>
    intro it hit
    rw [run_succ] at hit
    simp only [List.mem_cons] at hit
    rcases hit with rfl | hit
    · exact hp L q h
    · cases hc : (iterOf P tie I tClose L q).2.2 with
      | none => rw [hc] at hit; cases hit
      | some q' =>
        rw [hc] at hit
        exact ih _ q' (hpres L q h) it hit

/-- a relation between consecutive iterations that follows from a loop invariant holds along a run -/
theorem run_consec (P : Nat) (tie : Bool) (I : Iface σ) (tClose : Nat) (Inv : Loop σ → Prop)
    (hpres : ∀ L q, Inv L → Inv (iterOf P tie I tClose L q).2.1)
    (R : Iter → Iter → Prop)
    (hR : ∀ L q q', Inv L → (iterOf P tie I tClose L q).2.2 = some q' →
      R (iterOf P tie I tClose L q).1 (iterOf P tie I tClose (iterOf P tie I tClose L q).2.1 q').1)
    (fuel : Nat) (L : Loop σ) (q : List (Nat × Ev)) (h : Inv L) :
    Consec R (run P tie I tClose fuel L q) := by
  induction fuel generalizing L q with
  | zero => trivial
  | succ n ih =>
    rw [run_succ]
    cases hc : (iterOf P tie I tClose L q).2.2 with
    | none => trivial
    | some q' =>
      simp only
      cases n with
      | zero => simp only [run]; trivial
      | succ m =>
        have := ih (iterOf P tie I tClose L q).2.1 q' (hpres L q h)
        rw [run_succ] at this ⊢
        exact ⟨hR L q q' h hc, this⟩

theorem run_all_ok (P : Nat) (hP : 0 < P) (tie : Bool) (I : Iface σ) (tClose : Nat) (fuel : Nat)
    (L : Loop σ) (q : List (Nat × Ev)) (hl : L.last ≤ L.now) :
    ∀ it ∈ run P tie I tClose fuel L q, IterOK P it :=
  run_forall P tie I tClose (fun L => L.last ≤ L.now)
    (fun L q h => iterOf_last_le P tie I tClose L q h) (IterOK P)
    (fun L q h => iterOf_ok_facts P hP tie I tClose L q h) fuel L q hl

/-- consecutive iteration records fit together: the next one starts when this wait ended, with the
    period start and ticket this one left behind -/
def Linked (P : Nat) (a b : Iter) : Prop :=
  b.top = a.wake.time ∧ b.lastTop = a.last ∧ (a.ticketW = true → b.ticket = true) ∧
  (b.ticket = true → a.ticketW = true ∨ P ≤ b.top - b.lastTop)

theorem run_linked (P : Nat) (tie : Bool) (I : Iface σ) (tClose : Nat) (fuel : Nat) (L : Loop σ)
    (q : List (Nat × Ev)) : Consec (Linked P) (run P tie I tClose fuel L q) := by
  apply run_consec P tie I tClose (fun _ => True) (fun _ _ _ => trivial) (Linked P) _ fuel L q trivial
  intro L q q' _ hc
  obtain ⟨_, _, _, _, h5, h6⟩ := iterOf_next P tie I tClose L q
  have h6' := h6 (by rw [hc]; rfl)
  obtain ⟨g1, g2, g3, _⟩ := iterOf_next P tie I tClose (iterOf P tie I tClose L q).2.1 q'
  refine ⟨by rw [g1, h5], by rw [g2, h6'.1], ?_, ?_⟩
  · intro ht
    rw [g3]; simp only [ticketAt, h6'.2, ht, Bool.true_or]
  · intro ht
    rw [g3] at ht
    simp only [ticketAt, Bool.or_eq_true, decide_eq_true_eq] at ht
    rcases ht with ht | ht
    · exact Or.inl (h6'.2 ▸ ht)
    · exact Or.inr (by rw [g1, g2]; exact ht)

/-- Lower bound for the start of the next `try_spawn` call. -/
def Safe (P : Nat) (L : Loop σ) (lb : Nat) : Prop :=
  (L.ticket = true → lb ≤ L.now) ∧ lb ≤ L.last + P ∧ L.last ≤ L.now

theorem iterOf_safe (P : Nat) (hP : 0 < P) (tie : Bool) (I : Iface σ) (tClose : Nat) (L : Loop σ)
    (q : List (Nat × Ev)) (lb : Nat) (h : Safe P L lb) :
    (∀ a, (iterOf P tie I tClose L q).1.attempt = some a → lb ≤ a.1 ∧ a.1 ≤ a.2) ∧
    (∀ q', (iterOf P tie I tClose L q).2.2 = some q' →
      Safe P (iterOf P tie I tClose L q).2.1
        (match (iterOf P tie I tClose L q).1.attempt with | some a => a.2 + P | none => lb)) := by
  obtain ⟨h1, h2, h3⟩ := h
  have ok := iterOf_ok_facts P hP tie I tClose L q h3
  obtain ⟨n1, n2, n3, n4, n5, n6⟩ := iterOf_next P tie I tClose L q
  have hle := iterOf_last_le P tie I tClose L q h3
  generalize iterOf P tie I tClose L q = r at *
  constructor
  · intro a ha
    obtain ⟨s, e⟩ := a
    have hex : ¬ r.1.attempt = none := by rw [ha]; simp
    have hte := Classical.not_not.mp (fun hn => hex (ok.attempt_none.mpr hn))
    obtain ⟨e', he', hle'⟩ := ok.attempt_iff.mpr hte
    rw [ha] at he'
    simp only [Option.some.injEq, Prod.mk.injEq] at he'
    obtain ⟨rfl, rfl⟩ := he'
    refine ⟨?_, hle'⟩
    show lb ≤ r.1.top
    rw [n1]
    have : ticketAt P L = true := by rw [← n3]; exact hte.1
    simp only [ticketAt, Bool.or_eq_true, decide_eq_true_eq] at this
    rcases this with ht | ht
    · exact h1 ht
    · omega
  · intro q' hq'
    have hn6 := n6 (by rw [hq']; rfl)
    have hmono := ok.time_mono
    refine ⟨?_, ?_, hle⟩
    · intro ht
      rw [hn6.2] at ht
      cases ha : r.1.attempt with
      | some a =>
        obtain ⟨s, e⟩ := a
        have := (ok.attempt_resets s e ha).1
        rw [this] at ht; cases ht
      | none =>
        obtain ⟨k1, k2, _⟩ := ok.idle_keeps ha
        rw [k1, n3] at ht
        rw [n5]
        simp only [ticketAt, Bool.or_eq_true, decide_eq_true_eq] at ht
        rw [n1] at hmono
        show lb ≤ r.1.wake.time
        rcases ht with ht | ht
        · have := h1 ht; omega
        · omega
    · rw [hn6.1]
      cases ha : r.1.attempt with
      | some a =>
        obtain ⟨s, e⟩ := a
        have := (ok.attempt_resets s e ha).2
        show e + P ≤ r.1.last + P; omega
      | none =>
        have := (ok.idle_keeps ha).2.1
        show lb ≤ r.1.last + P
        rw [this, n2]; exact h2

theorem attempts_cons (it : Iter) (l : List Iter) :
    attempts (it :: l) = (match it.attempt with | some a => a :: attempts l | none => attempts l) := by
  unfold attempts
  cases h : it.attempt <;> simp [List.filterMap_cons, h]

/-- all calls start at or after `lb`, and each call starts at least one period after the previous
    call ENDED -/
theorem run_paced (P : Nat) (hP : 0 < P) (tie : Bool) (I : Iface σ) (tClose : Nat) (fuel : Nat)
    (L : Loop σ) (q : List (Nat × Ev)) (lb : Nat) (h : Safe P L lb) :
    (∀ a ∈ attempts (run P tie I tClose fuel L q), lb ≤ a.1 ∧ a.1 ≤ a.2) ∧
    (attempts (run P tie I tClose fuel L q)).Pairwise (fun a b => a.2 + P ≤ b.1) := by
  induction fuel generalizing L q lb with
  | zero => simp [run, attempts]
  | succ n ih =>
    obtain ⟨s1, s2⟩ := iterOf_safe P hP tie I tClose L q lb h
    rw [run_succ, attempts_cons]
    cases hc : (iterOf P tie I tClose L q).2.2 with
    | none =>
      cases ha : (iterOf P tie I tClose L q).1.attempt with
      | none => simp [attempts]
      | some a =>
        simp only [attempts, List.filterMap_nil, List.mem_singleton, forall_eq, List.pairwise_cons,
          List.not_mem_nil, false_implies, implies_true, List.Pairwise.nil, and_self, and_true]
        exact s1 a ha
    | some q' =>
      have hs := s2 q' hc
      cases ha : (iterOf P tie I tClose L q).1.attempt with
      | none =>
        rw [ha] at hs
        exact ih _ q' lb hs
      | some a =>
        rw [ha] at hs
        obtain ⟨i1, i2⟩ := ih _ q' (a.2 + P) hs
        have ha' := s1 a ha
        refine ⟨?_, ?_⟩
        · intro b hb
          simp only [List.mem_cons] at hb
          rcases hb with rfl | hb
          · exact ha'
          · have := i1 b hb; omega
        · simp only [List.pairwise_cons]
          exact ⟨fun b hb => (i1 b hb).1, i2⟩

theorem safe_start (P : Nat) (t0 : Nat) (s : σ) : Safe P (Loop.start t0 s) t0 :=
  ⟨fun _ => Nat.le_refl _, Nat.le_add_right _ _, Nat.le_refl _⟩

/-! #### completeness is only lost through events that lose it -/

/-- the event received by a wait is the head of the channel content -/
theorem wakeQ_event_head (P : Nat) (tie : Bool) (tClose : Nat) (L : Loop σ) (q : List (Nat × Ev))
    (t : Nat) (e : Ev) (h : wakeQ P tie tClose L q = .event t e) : ∃ t0 rest, q = (t0, e) :: rest := by
  unfold wakeQ at h
  cases q with
  | nil =>
    unfold wakeOf at h
    simp only at h
    (repeat' split at h) <;> cases h
  | cons x rest =>
    obtain ⟨t0, e0⟩ := x
    unfold wakeOf at h
    simp only at h
    refine ⟨t0, rest, ?_⟩
    (repeat' split at h) <;> first | (cases h; rfl) | cases h

/-- the spawner state of the next iteration is the one after the call with the received event handled -/
theorem iterOf_sp (P : Nat) (tie : Bool) (I : Iface σ) (tClose : Nat) (L : Loop σ)
    (q q' : List (Nat × Ev)) (hc : (iterOf P tie I tClose L q).2.2 = some q') :
    ¬ callFails P I L ∧
    (iterOf P tie I tClose L q).1.incompleteW = (!I.isComplete (afterCall P I L).1.sp) ∧
    (iterOf P tie I tClose L q).1.attempt = (afterCall P I L).2 ∧
    ((∃ t e t0, (iterOf P tie I tClose L q).1.wake = .event t e ∧ q = (t0, e) :: q' ∧
        (iterOf P tie I tClose L q).2.1.sp = I.handle (afterCall P I L).1.sp e) ∨
     (∃ t, (iterOf P tie I tClose L q).1.wake = .timeout t ∧ q' = q ∧
        (iterOf P tie I tClose L q).2.1.sp = (afterCall P I L).1.sp)) := by
  by_cases hf : callFails P I L
  · rw [iterOf_err P tie I tClose L q hf] at hc; cases hc
  · refine ⟨hf, ?_⟩
    rw [iterOf_eq P tie I tClose L q hf] at hc ⊢
    obtain ⟨h1, _, _, _, h5, h6, h7⟩ := waitPart_spec P tie I tClose L.now L.last (ticketAt P L)
      (!I.isComplete L.sp) (afterCall P I L).2 (afterCall P I L).1 q
    rw [h1]
    refine ⟨rfl, rfl, ?_⟩
    cases hw : wakeQ P tie tClose (afterCall P I L).1 q with
    | event t e =>
      obtain ⟨g1, g2⟩ := h5 t e hw
      rw [hc] at g2
      obtain ⟨t0, rest, rfl⟩ := wakeQ_event_head P tie tClose _ q t e hw
      simp only [List.tail_cons, Option.some.injEq] at g2
      exact Or.inl ⟨t, e, t0, rfl, by rw [g2], g1⟩
    | timeout t =>
      obtain ⟨g1, g2⟩ := h6 t hw
      rw [hc] at g2
      simp only [Option.some.injEq] at g2
      exact Or.inr ⟨t, rfl, g2, g1⟩
    | closed t => have := h7 t hw; rw [hc] at this; cases this
    | error t => exact absurd hw (wakeQ_ne_error _ _ _ _ _ _)

/-- While the spawner is complete and only events that keep it complete arrive, there is no call. -/
theorem run_no_attempt_while_complete (P : Nat) (tie : Bool) (I : Iface σ) (tClose : Nat)
    (keeps : Ev → Prop) (hk : ∀ s e, keeps e → I.isComplete s = true → I.isComplete (I.handle s e) = true)
    (fuel : Nat) (L : Loop σ) (q : List (Nat × Ev)) (hq : ∀ x ∈ q, keeps x.2)
    (hc : I.isComplete L.sp = true) : attempts (run P tie I tClose fuel L q) = [] := by
  induction fuel generalizing L q with
  | zero => rfl
  | succ n ih =>
    have hidle : (ticketAt P L && !I.isComplete L.sp) = false := by simp [hc]
    have hf : ¬ callFails P I L := by intro ⟨h1, _⟩; rw [hidle] at h1; cases h1
    have hac : afterCall P I L = ({ L with ticket := ticketAt P L }, none) := by
      unfold afterCall; simp [hidle]
    rw [run_succ, attempts_cons]
    cases hcn : (iterOf P tie I tClose L q).2.2 with
    | none =>
      rw [iterOf_eq P tie I tClose L q hf]
      obtain ⟨h1, _⟩ := waitPart_spec P tie I tClose L.now L.last (ticketAt P L)
        (!I.isComplete L.sp) (afterCall P I L).2 (afterCall P I L).1 q
      rw [h1, hac]; rfl
    | some q' =>
      obtain ⟨_, _, s3, s4⟩ := iterOf_sp P tie I tClose L q q' hcn
      rw [s3, hac]
      simp only
      rcases s4 with ⟨t, e, t0, _, rfl, hsp⟩ | ⟨t, _, rfl, hsp⟩
      · apply ih
        · intro x hx; exact hq x (List.mem_cons_of_mem _ hx)
        · rw [hsp, hac]; exact hk _ _ (hq (t0, e) (by simp)) hc
      · apply ih _ _ hq
        rw [hsp, hac]; exact hc

/-! #### fuel sufficiency -/

/-- earliest time at which the next timeout can fire -/
def nextTimeout (P : Nat) (L : Loop σ) : Nat := if ticketAt P L = true then L.now + P else L.last + P

theorem nt_cases (P : Nat) (L : Loop σ) :
    (nextTimeout P L = L.now + P ∧ (L.ticket = true ∨ P ≤ L.now - L.last)) ∨
    (nextTimeout P L = L.last + P ∧ L.ticket = false ∧ L.now - L.last < P) := by
  unfold nextTimeout ticketAt
  cases ht : L.ticket <;> by_cases hp : P ≤ L.now - L.last <;> simp [hp] <;> omega

/-- iterations still needed at most -/
def budget (P H : Nat) (L : Loop σ) (q : List (Nat × Ev)) : Nat :=
  q.length + (H + 1 - min (nextTimeout P L) (H + 1)) + 1

theorem wakeQ_timeout (P : Nat) (tie : Bool) (tClose : Nat) (L : Loop σ) (q : List (Nat × Ev)) (t : Nat)
    (h : wakeQ P tie tClose L q = .timeout t) :
    L.ticket = false ∧ t = L.now + (P - (L.now - L.last)) ∧
    t ≤ max L.now (match q with | [] => tClose | (t0, _) :: _ => t0) := by
  unfold wakeQ at h
  cases q with
  | nil =>
    unfold wakeOf at h
    simp only at h
    split at h
    · cases h
    · rename_i ht
      split at h
      · cases h
      · rename_i hc
        simp only [Wake.timeout.injEq] at h
        have := fun h' => hc (Or.inl h')
        refine ⟨by simpa using ht, h.symm, ?_⟩
        simp only; omega
  | cons x rest =>
    obtain ⟨t0, e0⟩ := x
    unfold wakeOf at h
    simp only at h
    split at h
    · cases h
    · rename_i ht
      split at h
      · cases h
      · rename_i hc
        simp only [Wake.timeout.injEq] at h
        have := fun h' => hc (Or.inl h')
        refine ⟨by simpa using ht, h.symm, ?_⟩
        simp only; omega

theorem ended_cons (a : Iter) (l : List Iter) (h : l ≠ []) : ended (a :: l) = ended l := by
  unfold ended
  rw [List.getLast?_cons_of_ne_nil h]

/-- `fuelFor` iterations are enough: the run ends by the close of the channel (or an error) -/
theorem budget_suffices (P : Nat) (hP : 0 < P) (tie : Bool) (I : Iface σ) (tClose H : Nat) (hcl : tClose ≤ H) :
    ∀ (fuel : Nat) (L : Loop σ) (q : List (Nat × Ev)), L.last ≤ L.now → (∀ x ∈ q, x.1 ≤ H) →
      budget P H L q ≤ fuel → ended (run P tie I tClose fuel L q) = true := by
  intro fuel
  induction fuel with
  | zero => intro L q _ _ hb; unfold budget at hb; omega
  | succ n ih =>
    intro L q hl hq hb
    rw [run_succ]
    by_cases hf : callFails P I L
    · rw [iterOf_err P tie I tClose L q hf]
      simp [ended]
    · have hle := iterOf_last_le P tie I tClose L q hl
      rw [iterOf_eq P tie I tClose L q hf] at hle ⊢
      obtain ⟨h1, h2, h3, h4, h5, h6, h7⟩ := waitPart_spec P tie I tClose L.now L.last (ticketAt P L)
        (!I.isComplete L.sp) (afterCall P I L).2 (afterCall P I L).1 q
      obtain ⟨a1, a2, a3, a4⟩ := afterCall_spec P I L hl hf
      have hge := wakeQ_time_ge P tie tClose (afterCall P I L).1 q
      generalize hr : waitPart P tie I tClose L.now L.last (ticketAt P L) (!I.isComplete L.sp)
        (afterCall P I L).2 (afterCall P I L).1 q = r at *
      -- facts about the loop variables when the wait begins, as numbers
      have hL1 : (nextTimeout P L ≤ (afterCall P I L).1.last + P ∨
            ((afterCall P I L).1.ticket = true ∧ nextTimeout P L ≤ (afterCall P I L).1.now + P)) ∧
          ((afterCall P I L).1.ticket = false →
            nextTimeout P L ≤ (afterCall P I L).1.now + (P - ((afterCall P I L).1.now - (afterCall P I L).1.last))) := by
        cases ha : (afterCall P I L).2 with
        | none =>
          obtain ⟨e1, _⟩ := a3 ha
          rw [e1]
          rcases nt_cases P L with ⟨n1, n2⟩ | ⟨n1, n2, n3⟩
          · have : ticketAt P L = true := by
              simp only [ticketAt, Bool.or_eq_true, decide_eq_true_eq]; exact n2
            refine ⟨Or.inr ⟨this, ?_⟩, fun h => ?_⟩
            · show nextTimeout P L ≤ L.now + P; omega
            · exact absurd (show ticketAt P L = false from h) (by rw [this]; simp)
          · exact ⟨Or.inl (by simp only; omega), fun _ => by simp only; omega⟩
        | some se =>
          obtain ⟨s, e⟩ := se
          obtain ⟨b1, b2, b3, b4, b5, b6, b7⟩ := a4 s e ha
          have : nextTimeout P L = L.now + P := by simp [nextTimeout, b6]
          exact ⟨Or.inl (by omega), fun _ => by omega⟩
      cases hw : wakeQ P tie tClose (afterCall P I L).1 q with
      | error t => exact absurd hw (wakeQ_ne_error _ _ _ _ _ _)
      | closed t =>
        rw [h7 t hw, h1, hw]
        simp [ended]
      | event t e =>
        obtain ⟨g1, g2⟩ := h5 t e hw
        obtain ⟨t0, rest, rfl⟩ := wakeQ_event_head P tie tClose _ _ t e hw
        rw [g2]
        simp only [List.tail_cons]
        have hnt : nextTimeout P L ≤ nextTimeout P r.2.1 := by
          rw [hw] at h2 hge
          simp only [Wake.time] at h2 hge
          rcases nt_cases P r.2.1 with ⟨n1, n2⟩ | ⟨n1, n2, n3⟩
          · rw [n1, h2]
            rcases hL1.1 with c | ⟨_, c⟩
            · rcases n2 with n2 | n2
              · rw [h4] at n2
                have := hL1.2
                cases hk : (afterCall P I L).1.ticket with
                | true => omega
                | false => rw [hk] at n2; cases n2
              · rw [h2, h3] at n2; omega
            · omega
          · rw [n1, h3]
            rcases hL1.1 with c | ⟨c0, _⟩
            · exact c
            · rw [h4, c0] at n2; cases n2
        have hb' : budget P H r.2.1 rest ≤ n := by
          unfold budget at hb ⊢
          simp only [List.length_cons] at hb
          omega
        have hne : run P tie I tClose n r.2.1 rest ≠ [] := by
          cases n with
          | zero => unfold budget at hb'; omega
          | succ m => rw [run_succ]; simp
        rw [ended_cons _ _ hne]
        exact ih r.2.1 rest hle (fun x hx => hq x (List.mem_cons_of_mem _ hx)) hb'
      | timeout t =>
        obtain ⟨g1, g2⟩ := h6 t hw
        obtain ⟨w1, w2, w3⟩ := wakeQ_timeout P tie tClose _ _ t hw
        rw [g2]
        simp only
        rw [hw] at h2
        simp only [Wake.time] at h2
        have htH : t ≤ H ∨ t ≤ (afterCall P I L).1.now := by
          cases q with
          | nil => simp only at w3; omega
          | cons x rest => have := hq x (by simp); simp only at w3; omega
        have hlt : (afterCall P I L).1.now < t := by
          -- no ticket when the wait begins: less than a period has elapsed there
          cases ha : (afterCall P I L).2 with
          | none =>
            obtain ⟨e1, e2⟩ := a3 ha
            rw [e1] at w1 w2
            have : ticketAt P L = false := w1
            simp only [ticketAt, Bool.or_eq_false_iff, decide_eq_false_iff_not] at this
            rw [e1]; simp only at w2 ⊢; omega
          | some se =>
            obtain ⟨s, e⟩ := se
            obtain ⟨b1, b2, b3, b4, b5, b6, b7⟩ := a4 s e ha
            omega
        have hntL : nextTimeout P L ≤ t := by rw [w2]; exact hL1.2 w1
        have hnt : nextTimeout P L + P ≤ nextTimeout P r.2.1 := by
          rcases nt_cases P r.2.1 with ⟨n1, _⟩ | ⟨_, _, n3⟩
          · rw [n1, h2]; omega
          · -- impossible: at the deadline a full period has elapsed
            rw [h2, h3] at n3
            have : (afterCall P I L).1.last ≤ (afterCall P I L).1.now := a1
            omega
        have hb' : budget P H r.2.1 q ≤ n := by
          unfold budget at hb ⊢
          omega
        have hne : run P tie I tClose n r.2.1 q ≠ [] := by
          cases n with
          | zero => unfold budget at hb'; omega
          | succ m => rw [run_succ]; simp
        rw [ended_cons _ _ hne]
        exact ih r.2.1 q hle hq hb'

theorem horizon_ge_close (tClose : Nat) (q : List (Nat × Ev)) : tClose ≤ horizon tClose q := by
  unfold horizon
  induction q generalizing tClose with
  | nil => exact Nat.le_refl _
  | cons x rest ih =>
    simp only [List.foldl_cons]
    exact Nat.le_trans (Nat.le_max_left _ _) (ih _)

theorem horizon_ge_mem (tClose : Nat) (q : List (Nat × Ev)) : ∀ x ∈ q, x.1 ≤ horizon tClose q := by
  unfold horizon
  induction q generalizing tClose with
  | nil => intro x hx; cases hx
  | cons y rest ih =>
    intro x hx
    simp only [List.foldl_cons]
    simp only [List.mem_cons] at hx
    rcases hx with rfl | hx
    · exact Nat.le_trans (Nat.le_max_right _ _) (horizon_ge_close _ rest)
    · exact ih _ x hx

/-- the driver's fuel is enough for a run from the start state -/
theorem fuelFor_suffices (P : Nat) (hP : 0 < P) (tie : Bool) (I : Iface σ) (tClose t0 : Nat) (s : σ)
    (q : List (Nat × Ev)) :
    ended (run P tie I tClose (fuelFor t0 tClose q) (Loop.start t0 s) q) = true := by
  apply budget_suffices P hP tie I tClose (horizon tClose q) (horizon_ge_close _ _) _ _ _ (Nat.le_refl _)
    (horizon_ge_mem _ _)
  have : nextTimeout P (Loop.start t0 s) = t0 + P := by simp [nextTimeout, ticketAt, Loop.start]
  unfold budget fuelFor
  rw [this]
  omega

/-! #### `StandardSpawner` -/

theorem std_removed_demobilized (s : Std) : s.removed .demobilized = s := by
  cases s; simp [Std.removed]

theorem std_removed_unreachable (s : Std) :
    s.removed .unreachable = { resolved := none, hasSpawned := false } := by
  simp [Std.removed]

theorem std_removed_networkIssue (s : Std) :
    s.removed .networkIssue = { resolved := s.resolved, hasSpawned := false } := by
  simp [Std.removed]

end NtpVerif.Spawner
