/-
Size lemmas for the server model: what `serialize` writes (C16, C17).
-/
import NtpVerif.Proofs.Server

namespace NtpVerif.Server
open NtpVerif.RespSize

theorem padded_ok_le {v body buf : Nat} {d : Option Nat} {n : Nat} (h : padded v body buf d = .ok n) :
    n ≤ buf ∧ body ≤ n := by
  unfold padded at h
  have := next4_ge
  repeat' split at h
  all_goals first
    | (simp at h; done)
    | (simp only [Ser.ok.injEq] at h; omega)

/-- what `serialize` does when it neither panics nor fails -/
theorem serialize_ok {r : Response} {buf n : Nat} (h : serialize r buf = .ok n) :
    48 ≤ buf ∧ encodable r = true ∧ padded r.hdr.version (48 + efSize r) buf r.desired = .ok n := by
  unfold serialize at h
  repeat' split at h
  all_goals first
    | (simp at h; done)
    | skip
  rename_i h1 h2
  exact ⟨by omega, by simpa using h2, h⟩

/-- whatever is written fits the buffer handed in -/
theorem serialize_ok_le {r : Response} {buf n : Nat} (h : serialize r buf = .ok n) : n ≤ buf :=
  (padded_ok_le (serialize_ok h).2.2).1

/-- … and is at least a header -/
theorem serialize_ok_ge {r : Response} {buf n : Nat} (h : serialize r buf = .ok n) : 48 ≤ n := by
  have := (padded_ok_le (serialize_ok h).2.2).2
  omega

theorem RField.wire_mod (m : Nat) (f : RField) : f.wire m % 4 = 0 := by
  cases f <;> simp [RField.wire, next4_mod, fieldWire_mod]

theorem sum_wire_mod (m : Nat) (fs : List RField) : ((fs.map (RField.wire m)).sum) % 4 = 0 := by
  induction fs with
  | nil => rfl
  | cons f fs ih =>
    have := RField.wire_mod m f
    simp only [List.map_cons, List.sum_cons]
    omega

theorem untrustedSize_mod (ev : EV) (fs : List RField) : untrustedSize ev fs % 4 = 0 := by
  induction fs with
  | nil => rfl
  | cons f rest ih =>
    cases rest with
    | nil => exact RField.wire_mod _ _
    | cons g r =>
      have := RField.wire_mod (untrustedMin ev false) f
      simp only [untrustedSize] at ih ⊢
      omega

/-- the extension-field area is a whole number of 32-bit words -/
theorem efSize_mod (r : Response) : efSize r % 4 = 0 := by
  unfold efSize
  have h1 := sum_wire_mod authMin r.auth
  have h2 := sum_wire_mod 0 r.enc
  have h3 := untrustedSize_mod (evOf r.hdr.version) r.untrusted
  simp only [authSize, encInnerSize, encOverhead]
  split
  · rfl
  · split <;> omega

/-- NTPv5 padding brings the answer up to the request's size and not beyond: with a request length that is
    a multiple of four and an unpadded answer no longer than the request, exactly `desired` octets are written -/
theorem serialize_padded {r : Response} {buf n d : Nat} (h : serialize r buf = .ok n)
    (hd : r.desired = some d) (h4 : d % 4 = 0) (hb : 48 + efSize r ≤ d) : n ≤ d := by
  have hm := efSize_mod r
  have hp := (serialize_ok h).2.2
  simp only [padded, hd] at hp
  have hid := next4_id (d - (48 + efSize r)) (by omega)
  repeat' split at hp
  all_goals first
    | (simp at hp; done)
    | (simp only [Ser.ok.injEq] at hp; omega)

end NtpVerif.Server
