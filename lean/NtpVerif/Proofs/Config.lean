/- Lemmas about the step-threshold visitors (C39). -/
import NtpVerif.Model.Config
import NtpVerif.Proofs.GlueTime

namespace NtpVerif.Config
open NtpVerif NtpVerif.Wrap NtpVerif.GlueTime

/-- the number is neither NaN, nor infinite, nor negative (`v < 0.0` is false) -/
def ValidNumber (x : F64) : Prop := x.isNaN = false ∧ x.isInf = false ∧ F64.lt x F64.zero = false

/-- a stored direction is "unlimited" or the duration of a valid number -/
def SaneDir (o : Option Int) : Prop :=
  o = none ∨ ∃ x d, o = some d ∧ ValidNumber x ∧ fromSeconds x = .ok d

theorem badNumber_false_iff (x : F64) : badNumber x = false ↔ ValidNumber x := by
  unfold badNumber ValidNumber
  simp only [Bool.or_eq_false_iff, and_assoc]

theorem valid_finite {x : F64} (h : ValidNumber x) : x.isFinite = true := by
  obtain ⟨h1, h2, _⟩ := h
  simp only [F64.isFinite, F64.isNaN, F64.isInf, decide_eq_true_eq, decide_eq_false_iff_not,
    beq_eq_false_iff_ne] at *
  omega

theorem fromSec_ok {x : F64} {d : Int} : fromSec x = .ok d ↔ fromSeconds x = .ok d := by
  unfold fromSec
  cases h : fromSeconds x <;> simp

theorem fromSec_valid_ne_panic {x : F64} (h : ValidNumber x) : fromSec x ≠ .panic := by
  obtain ⟨d, hd, _⟩ := fromSeconds_finite (valid_finite h)
  unfold fromSec; rw [hd]; simp

theorem checkedDuration_ok {x : F64} {d : Int} (h : checkedDuration x = .ok d) :
    ValidNumber x ∧ fromSeconds x = .ok d := by
  unfold checkedDuration at h
  cases hb : badNumber x
  · rw [hb] at h
    simp only [Bool.false_eq_true, if_false] at h
    exact ⟨(badNumber_false_iff x).1 hb, fromSec_ok.1 h⟩
  · rw [hb] at h; simp at h

theorem checkedDuration_ne_panic (x : F64) : checkedDuration x ≠ .panic := by
  unfold checkedDuration
  cases hb : badNumber x
  · simp only [Bool.false_eq_true, if_false]
    exact fromSec_valid_ne_panic ((badNumber_false_iff x).1 hb)
  · simp

theorem bind_ok {α β : Type} {r : Res α} {f : α → Res β} {b : β} (h : r.bind f = .ok b) :
    ∃ a, r = .ok a ∧ f a = .ok b := by
  cases r with
  | ok a => exact ⟨a, rfl, h⟩
  | err e => simp [Res.bind] at h
  | panic => simp [Res.bind] at h

theorem bind_ne_panic {α β : Type} {r : Res α} {f : α → Res β} (hr : r ≠ .panic)
    (hf : ∀ a, r = .ok a → f a ≠ .panic) : r.bind f ≠ .panic := by
  cases r with
  | ok a => exact hf a rfl
  | err e => simp [Res.bind]
  | panic => exact absurd rfl hr

theorem partNum_sane {x : F64} {o : Option Int}
    (h : ((checkedDuration x).bind fun d => Res.ok (some d)) = .ok o) : SaneDir o := by
  obtain ⟨d, hd, ho⟩ := bind_ok h
  obtain ⟨hv, hf⟩ := checkedDuration_ok hd
  cases ho
  exact Or.inr ⟨x, d, rfl, hv, hf⟩

theorem partNum_ne_panic (x : F64) :
    ((checkedDuration x).bind fun d => Res.ok (some d)) ≠ (.panic : Res (Option Int)) :=
  bind_ne_panic (checkedDuration_ne_panic x) (fun _ _ => by simp)

/-- a direction accepted by `ThresholdPart` is sane -/
theorem partOf_sane {sc : Scalar} {o : Option Int} (h : partOf sc = .ok o) : SaneDir o := by
  cases sc with
  | float f => exact partNum_sane (x := f) h
  | int i => exact partNum_sane (x := F64.ofI64 i) h
  | uint u => exact partNum_sane (x := F64.ofU64 u) h
  | str s =>
    simp only [partOf] at h
    split at h
    · cases h; exact Or.inl rfl
    · cases h
  | other => simp [partOf] at h

theorem partOf_ne_panic (sc : Scalar) : partOf sc ≠ .panic := by
  cases sc with
  | float f => exact partNum_ne_panic f
  | int i => exact partNum_ne_panic (F64.ofI64 i)
  | uint u => exact partNum_ne_panic (F64.ofU64 u)
  | str s => simp only [partOf]; split <;> simp
  | other => simp [partOf]

def SaneOO (f : Option (Option Int)) : Prop := ∀ o, f = some o → SaneDir o

theorem saneOO_join {f : Option (Option Int)} (h : SaneOO f) : SaneDir f.join := by
  cases f with
  | none => exact Or.inl rfl
  | some o => exact h o rfl

theorem visitMap_sane (kvs : List (String × Scalar)) :
    ∀ (f b : Option (Option Int)) (t : Threshold), SaneOO f → SaneOO b →
      visitMap partOf kvs f b = .ok t → SaneDir t.forward ∧ SaneDir t.backward := by
  induction kvs with
  | nil =>
    intro f b t hf hb h
    simp only [visitMap, Res.ok.injEq] at h
    subst h
    exact ⟨saneOO_join hf, saneOO_join hb⟩
  | cons kv rest ih =>
    intro f b t hf hb h
    obtain ⟨k, v⟩ := kv
    simp only [visitMap] at h
    split at h
    · split at h
      · cases h
      · obtain ⟨p, hp, hrest⟩ := bind_ok h
        exact ih (some p) b t (fun o ho => by cases ho; exact partOf_sane hp) hb hrest
    · split at h
      · split at h
        · cases h
        · obtain ⟨p, hp, hrest⟩ := bind_ok h
          exact ih f (some p) t hf (fun o ho => by cases ho; exact partOf_sane hp) hrest
      · cases h

theorem visitMap_ne_panic (kvs : List (String × Scalar)) :
    ∀ (f b : Option (Option Int)), visitMap partOf kvs f b ≠ .panic := by
  induction kvs with
  | nil => intro f b; simp [visitMap]
  | cons kv rest ih =>
    intro f b
    obtain ⟨k, v⟩ := kv
    simp only [visitMap]
    split
    · split
      · simp
      · exact bind_ne_panic (partOf_ne_panic v) (fun p _ => ih (some p) b)
    · split
      · split
        · simp
        · exact bind_ne_panic (partOf_ne_panic v) (fun p _ => ih f (some p))
      · simp

theorem singleNum_sane {x : F64} {t : Threshold}
    (h : ((checkedDuration x).bind fun d => Res.ok (⟨some d, some d⟩ : Threshold)) = .ok t) :
    SaneDir t.forward ∧ SaneDir t.backward := by
  obtain ⟨d, hd, ht⟩ := bind_ok h
  obtain ⟨hv, hf⟩ := checkedDuration_ok hd
  cases ht
  exact ⟨Or.inr ⟨x, d, rfl, hv, hf⟩, Or.inr ⟨x, d, rfl, hv, hf⟩⟩

theorem singleNum_ne_panic (x : F64) :
    ((checkedDuration x).bind fun d => Res.ok (⟨some d, some d⟩ : Threshold)) ≠ .panic :=
  bind_ne_panic (checkedDuration_ne_panic x) (fun _ _ => by simp)

/-! #### non-negativity, under the standard-model facts about `floor` and `as i64` -/

/-- standard-model hypothesis (IEEE-754 / Rust cast semantics, not proved here): for a finite number that is
    not negative, `floor(x) as i64` and `((x - floor(x)) * u32::MAX) as i64` are not negative -/
def HwNonneg : Prop :=
  ∀ x : F64, ValidNumber x → 0 ≤ x.floor.toI64Sat ∧ 0 ≤ ((x - x.floor) * U32_MAX_F).toI64Sat

theorem or64_nonneg {a b : Int} (ha : 0 ≤ a) (ha' : a < 2 ^ 63) (hb : 0 ≤ b) (hb' : b < 2 ^ 63) :
    0 ≤ or64 a b := by
  unfold or64
  have hx : 0 ≤ (Int64.ofInt a).toInt := by rw [Int64.toInt_ofInt_of_le (by omega) ha']; exact ha
  have hy : 0 ≤ (Int64.ofInt b).toInt := by rw [Int64.toInt_ofInt_of_le (by omega) hb']; exact hb
  generalize Int64.ofInt a = x at *
  generalize Int64.ofInt b = y at *
  rw [← Int64.toInt_toBitVec] at *
  rw [Int64.toBitVec_or]
  have h := BitVec.msb_or (x := x.toBitVec) (y := y.toBitVec)
  rw [BitVec.msb_eq_toInt, BitVec.msb_eq_toInt, BitVec.msb_eq_toInt] at h
  have h1 : decide (x.toBitVec.toInt < 0) = false := decide_eq_false (by omega)
  have h2 : decide (y.toBitVec.toInt < 0) = false := decide_eq_false (by omega)
  rw [h1, h2] at h
  have h3 : ¬ ((x.toBitVec ||| y.toBitVec).toInt < 0) := of_decide_eq_false h
  omega

theorem fromSeconds_nonneg (hw : HwNonneg) {x : F64} {d : Int} (hv : ValidNumber x)
    (h : fromSeconds x = .ok d) : 0 ≤ d := by
  obtain ⟨hi, hf⟩ := hw x hv
  unfold fromSeconds at h
  rw [finite_not_nan_inf (valid_finite hv)] at h
  simp only [Bool.false_eq_true, if_false] at h
  have hfr := Int64.toInt_lt ((x - x.floor) * U32_MAX_F).toFloat.toInt64
  split at h
  · rename_i hr
    cases h
    unfold I32_MAX at hr
    exact or64_nonneg (by omega) (by omega) hf (by unfold F64.toI64Sat; omega)
  · split at h
    · rename_i hlt; unfold I32_MIN at hlt; omega
    · split at h
      · cases h; unfold I64_MAX; omega
      · cases h

end NtpVerif.Config
