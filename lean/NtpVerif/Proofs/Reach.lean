/-
Facts about the 8-bit reach register (`Reach` in source.rs) as modelled in `NtpVerif.Model.SourceSM`:
finite facts over the 256 register values by `decide +kernel`, lifted to `Nat` by a lemma.
-/
import NtpVerif.Model.SourceSM

namespace NtpVerif.SourceSM

theorem tz8_poll_fin : ∀ r : Fin 256, tz8 (reachPoll r.val) = min 8 (tz8 r.val + 1) := by decide +kernel
theorem tz8_recv_fin : ∀ r : Fin 256, tz8 (reachRecv r.val) = 0 := by decide +kernel
theorem recv_lt_fin : ∀ r : Fin 256, reachRecv r.val < 256 ∧ reachRecv r.val % 2 = 1 := by decide +kernel
theorem poll_odd_fin : ∀ r : Fin 256, r.val % 2 = 1 → reachPoll r.val ≠ 0 := by decide +kernel
theorem tz8_zero_fin : ∀ r : Fin 256, (tz8 r.val = 8 ↔ r.val = 0) := by decide +kernel

/-! lifting: a statement checked for all 256 register values holds for every `Nat` below 256
    (instantiate the `Fin 256` fact at `⟨r, hr⟩`) -/

theorem tz8_poll (r : Nat) (hr : r < 256) : tz8 (reachPoll r) = min 8 (tz8 r + 1) := tz8_poll_fin ⟨r, hr⟩
theorem tz8_recv (r : Nat) (hr : r < 256) : tz8 (reachRecv r) = 0 := tz8_recv_fin ⟨r, hr⟩
theorem recv_lt (r : Nat) (hr : r < 256) : reachRecv r < 256 ∧ reachRecv r % 2 = 1 := recv_lt_fin ⟨r, hr⟩
theorem poll_odd (r : Nat) (hr : r < 256) (ho : r % 2 = 1) : reachPoll r ≠ 0 :=
  poll_odd_fin ⟨r, hr⟩ ho
theorem tz8_eight (r : Nat) (hr : r < 256) : tz8 r = 8 ↔ r = 0 := tz8_zero_fin ⟨r, hr⟩

theorem poll_lt (r : Nat) : reachPoll r < 256 := by unfold reachPoll; omega

theorem poll_iter (r k : Nat) : reachPoll ((r * 2 ^ k) % 256) = (r * 2 ^ (k + 1)) % 256 := by
  unfold reachPoll
  rw [Nat.pow_succ, ← Nat.mul_assoc]
  generalize r * 2 ^ k = x
  omega

theorem shifted_out (r k : Nat) (hk : 8 ≤ k) : (r * 2 ^ k) % 256 = 0 := by
  obtain ⟨j, rfl⟩ : ∃ j, k = 8 + j := ⟨k - 8, by omega⟩
  rw [Nat.pow_add]
  have : r * (2 ^ 8 * 2 ^ j) = 256 * (r * 2 ^ j) := by
    rw [show (2:Nat) ^ 8 = 256 from rfl, ← Nat.mul_assoc, Nat.mul_comm r 256, Nat.mul_assoc]
  rw [this, Nat.mul_mod_right]

end NtpVerif.SourceSM
