/-
NTS answers over the ideal AEAD (C19): the encrypted part of a time answer — a sequence of cookie fields —
is recovered exactly by the receiving side's field parser, and the sealing entry makes the client's decryption
succeed.  Wire-level model: `NtpVerif.Model.ExtField` (wire cluster).
-/
import NtpVerif.Proofs.Wire
import NtpVerif.Proofs.KeySet

namespace NtpVerif.Wire

/-- octets of one cookie field inside the encrypted part (no minimum size there) -/
def cookieField (b : Bytes) : Bytes := toBE 2 tyCookie ++ toBE 2 (b.length + 4) ++ b

/-- a cookie the field codec carries unchanged: whole words, 16-bit length -/
def CookieOk (b : Bytes) : Prop := b.length % 4 = 0 ∧ b.length ≤ 65531

theorem toBE2 (n : Nat) : toBE 2 n = [UInt8.ofNat (n / 256 % 256), UInt8.ofNat (n % 256)] := by
  simp [toBE]

theorem cookieField_length (b : Bytes) : (cookieField b).length = 4 + b.length := by
  simp [cookieField, toBE2]; omega

theorem serialize_cookie (b : Bytes) (ver : Ver) (h : CookieOk b) :
    (EF.cookie b).serialize 0 ver = .ok (cookieField b) := by
  obtain ⟨h4, hl⟩ := h
  have hmax : max (b.length + 4) 0 = b.length + 4 := by omega
  have hn : nm4 (b.length + 4) = b.length + 4 := nm4_of_mod (by omega)
  have hnu : nm4u16 (b.length + 4) = b.length + 4 := by
    unfold nm4u16; rw [if_pos (by omega)]
  simp only [EF.serialize, encodeGeneric, framing, padding, bind, Except.bind, pure, Except.pure]
  rw [if_neg (by omega)]
  simp only [hmax, hn, hnu, ite_self, Nat.sub_self, Nat.add_sub_cancel_left, zeros]
  have hnot : ¬ 65531 < b.length := by omega
  simp [cookieField, hnot]

theorem serializeFields_cookies (ver : Ver) : ∀ cs : List Bytes, (∀ b ∈ cs, CookieOk b) →
    serializeFields 0 ver (cs.map .cookie) = .ok (cs.map cookieField).flatten := by
  intro cs
  induction cs with
  | nil => intro _; rfl
  | cons b rest ih =>
    intro h
    simp only [List.map_cons, serializeFields, bind, Except.bind, pure, Except.pure]
    rw [serialize_cookie b ver (h b (by simp)), ih (fun x hx => h x (by simp [hx]))]
    simp

theorem u8n (x : Nat) : (UInt8.ofNat x).toNat = x % 256 := NtpVerif.KeySet.u8_ofNat_toNat x

theorem rawDeserialize_cookieField (b rest : Bytes) (ver : Ver) (h : CookieOk b) :
    rawDeserialize (cookieField b ++ rest) 4 ver = .ok (tyCookie, b) := by
  obtain ⟨h4, hl⟩ := h
  have hty : be16 (UInt8.ofNat (tyCookie / 256 % 256)) (UInt8.ofNat (tyCookie % 256)) = tyCookie := by decide
  have hfl : be16 (UInt8.ofNat ((b.length + 4) / 256 % 256)) (UInt8.ofNat ((b.length + 4) % 256)) = b.length + 4 := by
    simp only [be16, u8n]; omega
  have hn : nm4 (b.length + 4) = b.length + 4 := nm4_of_mod (by omega)
  simp only [cookieField, toBE2, List.cons_append, List.nil_append, List.append_assoc, rawDeserialize, hty, hfl, hn]
  rw [if_neg (by omega), if_neg (by omega)]
  have hs : slice? (UInt8.ofNat (tyCookie / 256 % 256) :: UInt8.ofNat (tyCookie % 256) ::
      UInt8.ofNat ((b.length + 4) / 256 % 256) :: UInt8.ofNat ((b.length + 4) % 256) :: (b ++ rest)) 4 (b.length + 4)
      = some b := by
    unfold slice?
    rw [if_pos (by simp)]
    simp
  rw [hs]

theorem decode_cookie (b : Bytes) (ver : Ver) : decode tyCookie b ver = .ok (.cookie b) := by
  simp [decode, tyCookie, tyUniqueId, NtpVerif.Gen.EF_NTS_COOKIE, NtpVerif.Gen.EF_UNIQUE_IDENTIFIER]

/-- the receiving side's parser recovers exactly the cookie fields from the plaintext of the encrypted part -/
theorem decode_stream_cookies (ver : Ver) : ∀ cs : List Bytes, (∀ b ∈ cs, CookieOk b) → ∀ fuel off : Nat,
    (cs.map cookieField).flatten.length < fuel →
    decodeEncItems ver (streamAux ver 0 4 fuel (cs.map cookieField).flatten off) = .ok (cs.map .cookie) := by
  intro cs
  induction cs with
  | nil =>
    intro _ fuel off hf
    cases fuel with
    | zero => simp at hf
    | succ n => simp [streamAux, decodeEncItems]
  | cons b rest ih =>
    intro h fuel off hf
    have hb := h b (by simp)
    cases fuel with
    | zero => simp at hf
    | succ n =>
      simp only [List.map_cons, List.flatten_cons] at hf ⊢
      have hlen := cookieField_length b
      unfold streamAux
      rw [if_neg (by simp only [List.length_append]; omega)]
      rw [rawDeserialize_cookieField b _ ver hb]
      have hwl : wireLength b ver = some (4 + b.length) := by
        rw [wireLength_of (by intro _; have := hb.1; omega)]
        congr 1; exact nm4_of_mod (by have := hb.1; omega)
      simp only [hwl]
      have hdrop : (cookieField b ++ (rest.map cookieField).flatten).drop (4 + b.length)
          = (rest.map cookieField).flatten := by
        rw [← hlen]; simp
      rw [hdrop]
      simp only [decodeEncItems]
      rw [if_neg (by decide), decode_cookie]
      simp only [bind, Except.bind, pure, Except.pure]
      rw [ih (fun x hx => h x (by simp [hx])) n (off + (4 + b.length))
        (by simp only [List.length_append] at hf; omega)]

/-- the table entry an encryption adds -/
def sealEntry (key nonce aad ct pt : Bytes) : Entry := ⟨key, nonce, aad, ct, pt⟩

/-- **client-side decryption of a sealed cookie list**: when the table records that `pt`, the serialisation of
    the cookie fields, was sealed under `key` with nonce `nonce` and associated data `aad` into `ct`, then
    `RawEncryptedField::decrypt` with that key over those data returns exactly the cookie fields. -/
theorem decryptFields_sealed (t : Table) (key nonce ct aad : Bytes) (ver : Ver) (cs : List Bytes)
    (hcs : ∀ b ∈ cs, CookieOk b) :
    decryptFields (Table.decrypt (sealEntry key nonce aad ct (cs.map cookieField).flatten :: t))
      key nonce ct aad ver = some (.ok (cs.map .cookie)) := by
  have hd : Table.decrypt (sealEntry key nonce aad ct (cs.map cookieField).flatten :: t) key nonce ct aad
      = some (cs.map cookieField).flatten := by
    simp [Table.decrypt, Entry.matches, sealEntry]
  simp only [decryptFields, hd]
  congr 1
  exact decode_stream_cookies ver cs hcs _ 0 (by simp [stream])

/-- message bytes of the encrypted field `encode_encrypted` writes (after the 4-octet field header) -/
def encMsg (nonce ct : Bytes) : Bytes :=
  toBE 2 nonce.length ++ toBE 2 ct.length ++ nonce ++ zeros (nm4 nonce.length - nonce.length) ++ ct

theorem fromMessageBytes_encMsg (nonce ct : Bytes) (hn : nonce.length = 16) (hc : ct.length ≤ 65535) :
    fromMessageBytes (encMsg nonce ct) = .ok (nonce, ct) := by
  have h16 : be16 (UInt8.ofNat (16 / 256 % 256)) (UInt8.ofNat (16 % 256)) = 16 := by decide
  have hcl : be16 (UInt8.ofNat (ct.length / 256 % 256)) (UInt8.ofNat (ct.length % 256)) = ct.length := by
    simp only [be16, u8n]; omega
  have hz : nm4 16 - 16 = 0 := by decide
  simp only [encMsg, toBE2, hn, hz, zeros, List.replicate_zero, List.append_nil, List.cons_append,
    List.nil_append, List.append_assoc, fromMessageBytes, h16, hcl]
  have hs1 : slice? (nonce ++ ct) 0 16 = some nonce := by
    unfold slice?
    rw [if_pos (by simp; omega)]
    simp [← hn]
  rw [hs1]
  have hnu : nm4u16 16 = 16 := by decide
  simp only [hnu]
  have hs2 : slice? (UInt8.ofNat (16 / 256 % 256) :: UInt8.ofNat (16 % 256) :: UInt8.ofNat (ct.length / 256 % 256) ::
      UInt8.ofNat (ct.length % 256) :: (nonce ++ ct)) (4 + 16) (4 + 16 + ct.length) = some ct := by
    unfold slice?
    rw [if_pos (by simp; omega)]
    have : List.drop 16 (nonce ++ ct) = ct := by rw [← hn]; simp
    simp [this]
  rw [hs2]

/-- **the client's step over the encrypted field of a sealed answer.**  `data` is the answer datagram, whose
    first `hs + off` octets (header and authenticated fields — everything before the encrypted field) are the
    associated data `aad` the server sealed with.  With the table entry of that sealing present, the client's
    cipher (`Ctx.key s2c`) authenticates the datagram and the cookie fields appear in the encrypted list; the
    fields seen so far become authenticated. -/
theorem client_step_recovers_cookies (t : Table) (s2c nonce ct aad data : Bytes) (ver : Ver) (cs : List Bytes)
    (hs off wl : Nat) (st : EFState)
    (hcs : ∀ b ∈ cs, CookieOk b) (hn : nonce.length = 16) (hc : ct.length ≤ 65535)
    (haad : slice? data 0 (hs + off) = some aad) :
    efStep (Table.decrypt (sealEntry s2c nonce aad ct (cs.map cookieField).flatten :: t)) (.key s2c) data hs ver st
        off tyEncrypted (encMsg nonce ct) wl
      = .ok { ef := { authenticated := st.ef.authenticated ++ st.ef.untrusted,
                      encrypted := st.ef.encrypted ++ cs.map .cookie, untrusted := [] },
              size := off + wl, valid := st.valid, cookie := none } := by
  unfold efStep
  simp only [↓reduceIte, fromMessageBytes_encMsg nonce ct hn hc, Ctx.get, sliceP, haad,
    decryptFields_sealed t s2c nonce ct aad ver cs hcs]

end NtpVerif.Wire
