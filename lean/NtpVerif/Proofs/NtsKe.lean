/- Helper lemmas for `Model/NtsKe` (C28, C29). -/
import NtpVerif.Model.NtsKe

namespace NtpVerif.NtsKe

open NtpVerif.NtsRecord NtpVerif.NtsMsg

/-- `x` is the first element of `l` satisfying `P` -/
def FirstSuch {α : Type} (P : α → Prop) (l : List α) (x : α) : Prop :=
  ∃ pre post, l = pre ++ x :: post ∧ P x ∧ ∀ y ∈ pre, ¬ P y

theorem find?_of_firstSuch {α : Type} (p : α → Bool) (l : List α) (x : α)
    (h : FirstSuch (fun y => p y = true) l x) : l.find? p = some x := by
  obtain ⟨pre, post, rfl, hx, hpre⟩ := h
  rw [List.find?_eq_some_iff_append]
  exact ⟨hx, pre, post, rfl, fun a ha => by simpa using hpre a ha⟩

theorem firstSuch_of_find? {α : Type} (p : α → Bool) (l : List α) (x : α)
    (h : l.find? p = some x) : FirstSuch (fun y => p y = true) l x := by
  rw [List.find?_eq_some_iff_append] at h
  obtain ⟨hx, pre, post, rfl, hpre⟩ := h
  exact ⟨pre, post, rfl, hx, fun a ha => by simpa using hpre a ha⟩

def Item.isCookie : Item → Bool
  | .cookie _ _ _ => true
  | .record _ => false

theorem filter_cookie_recItems (rs : List Record) : (recItems rs).filter Item.isCookie = [] := by
  induction rs with
  | nil => rfl
  | cons r rs ih => simp [recItems, Item.isCookie]

theorem filter_cookie_cookies (a : Aead) (k : Keys) :
    (cookies a k).filter Item.isCookie = cookies a k := by
  unfold cookies
  rw [List.filter_eq_self]
  intro x hx
  rw [List.mem_replicate] at hx
  rw [hx.2]; rfl

theorem keepAlive_mem_recItems (rs : List Record) :
    Item.record .keepAlive ∈ recItems rs ↔ Record.keepAlive ∈ rs := by
  simp [recItems]

theorem keepAlive_not_mem_cookies (a : Aead) (k : Keys) : Item.record .keepAlive ∉ cookies a k := by
  unfold cookies
  intro h
  rw [List.mem_replicate] at h
  exact absurd h.2 (by simp)

end NtpVerif.NtsKe
