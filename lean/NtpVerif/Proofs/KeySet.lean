/- Helper lemmas for C26 / C27 (model `NtpVerif.Model.KeySet`): big-endian words, cookie fields, the ideal
   AEAD table, `decode` characterisation, the state after n rotations, `readKeys`. -/
import NtpVerif.Model.KeySet

namespace NtpVerif.KeySet

/-! ### big-endian words -/

theorem be16_length (n : Nat) : (be16 n).length = 2 := rfl
theorem be32_length (n : Nat) : (be32 n).length = 4 := rfl
theorem be64_length (n : Nat) : (be64 n).length = 8 := rfl

theorem u8_ofNat_toNat (n : Nat) : (UInt8.ofNat n).toNat = n % 256 := by
  simp [UInt8.toNat_ofNat']

theorem u8_eq_of (x : Nat) (a : UInt8) (h : x % 256 = a.toNat) : UInt8.ofNat x = a := by
  apply UInt8.toNat_inj.mp
  rw [u8_ofNat_toNat, h]

theorem beNat_be16 (n : Nat) : beNat (be16 n) = n % 65536 := by
  simp only [beNat, be16, List.foldl_cons, List.foldl_nil, u8_ofNat_toNat]
  omega

theorem beNat_be32 (n : Nat) : beNat (be32 n) = n % 4294967296 := by
  simp only [beNat, be32, List.foldl_cons, List.foldl_nil, u8_ofNat_toNat]
  omega

theorem beNat_be64 (n : Nat) : beNat (be64 n) = n % 18446744073709551616 := by
  simp only [beNat, be64, be32, List.cons_append, List.nil_append, List.foldl_cons, List.foldl_nil,
    u8_ofNat_toNat]
  omega

theorem be32_beNat (l : Bytes) (h : l.length = 4) : be32 (beNat l) = l := by
  match l, h with
  | [a, b, c, d], _ =>
    have ha := a.toNat_lt; have hb := b.toNat_lt; have hc := c.toNat_lt; have hd := d.toNat_lt
    simp only [beNat, be32, List.foldl_cons, List.foldl_nil]
    rw [u8_eq_of _ a (by omega), u8_eq_of _ b (by omega), u8_eq_of _ c (by omega), u8_eq_of _ d (by omega)]

theorem be16_beNat (l : Bytes) (h : l.length = 2) : be16 (beNat l) = l := by
  match l, h with
  | [a, b], _ =>
    have ha := a.toNat_lt; have hb := b.toNat_lt
    simp only [beNat, be16, List.foldl_cons, List.foldl_nil]
    rw [u8_eq_of _ a (by omega), u8_eq_of _ b (by omega)]

theorem beNat_lt4 (l : Bytes) (h : l.length = 4) : beNat l < 4294967296 := by
  match l, h with
  | [a, b, c, d], _ =>
    have ha := a.toNat_lt; have hb := b.toNat_lt; have hc := c.toNat_lt; have hd := d.toNat_lt
    simp only [beNat, List.foldl_cons, List.foldl_nil]
    omega

theorem beNat_lt2 (l : Bytes) (h : l.length = 2) : beNat l < 65536 := by
  match l, h with
  | [a, b], _ =>
    have ha := a.toNat_lt; have hb := b.toNat_lt
    simp only [beNat, List.foldl_cons, List.foldl_nil]
    omega

/-! ### fields of an assembled cookie -/

/-- the byte string `encode_cookie` assembles -/
def mkCookie (id len : Nat) (nonce ct : Bytes) : Bytes := be32 id ++ be16 len ++ nonce ++ ct

theorem mkCookie_fields (id len : Nat) (nonce ct : Bytes) (hn : nonce.length = 16) :
    cookieId (mkCookie id len nonce ct) = id % 4294967296 ∧
    cookieLen (mkCookie id len nonce ct) = len % 65536 ∧
    cookieNonce (mkCookie id len nonce ct) = nonce ∧
    (mkCookie id len nonce ct).drop 22 = ct ∧
    (mkCookie id len nonce ct).length = 22 + ct.length := by
  have e : mkCookie id len nonce ct = be32 id ++ (be16 len ++ (nonce ++ ct)) := by
    simp [mkCookie, List.append_assoc]
  refine ⟨?_, ?_, ?_, ?_, ?_⟩
  · rw [cookieId, e, List.take_left' (be32_length id), beNat_be32]
  · rw [cookieLen, e, List.drop_left' (be32_length id), List.take_left' (be16_length len), beNat_be16]
  · have : (mkCookie id len nonce ct).drop 6 = nonce ++ ct := by
      rw [e, ← List.append_assoc]
      exact List.drop_left' (by simp [be32_length, be16_length])
    rw [cookieNonce, this, List.take_left' hn]
  · have : mkCookie id len nonce ct = (be32 id ++ be16 len ++ nonce) ++ ct := by simp [mkCookie]
    rw [this]
    exact List.drop_left' (by simp [be32_length, be16_length, hn])
  · simp [mkCookie, be32_length, be16_length, hn]; omega

/-- every byte string of at least 22 bytes is a cookie of its own fields followed by whatever follows -/
theorem cookie_split (b : Bytes) (h : 22 ≤ b.length) :
    b = mkCookie (cookieId b) (cookieLen b) (cookieNonce b) (b.drop 22) := by
  have h4 : (b.take 4).length = 4 := by simp; omega
  have h2 : ((b.drop 4).take 2).length = 2 := by simp; omega
  rw [mkCookie, cookieId, cookieLen, cookieNonce, be32_beNat _ h4, be16_beNat _ h2]
  have e1 : b.drop 22 = ((b.drop 4).drop 2).drop 16 := by simp
  have e2 : b.drop 6 = (b.drop 4).drop 2 := by simp
  rw [e1, e2, List.append_assoc, List.append_assoc, List.take_append_drop, List.take_append_drop,
    List.take_append_drop]

/-! ### ideal AEAD table -/

variable {κ : Type} [DecidableEq κ]

theorem decrypt_cons_self (t : Table κ) (e : Enc κ) : decrypt (e :: t) e.key e.nonce e.ct = some e.pt := by
  simp [decrypt]

theorem decrypt_some {t : Table κ} {k : κ} {n c pt : Bytes} (h : decrypt t k n c = some pt) :
    ∃ e ∈ t, e.key = k ∧ e.nonce = n ∧ e.ct = c ∧ e.pt = pt := by
  simp only [decrypt, Option.map_eq_some_iff] at h
  obtain ⟨e, hf, hp⟩ := h
  have hm := List.mem_of_find?_eq_some hf
  have hq := List.find?_some hf
  simp only [decide_eq_true_eq] at hq
  exact ⟨e, hm, hq.1, hq.2.1, hq.2.2, hp⟩

theorem decrypt_none_of {t : Table κ} {k : κ} {n c : Bytes}
    (h : ∀ e ∈ t, ¬ (e.key = k ∧ e.nonce = n ∧ e.ct = c)) : decrypt t k n c = none := by
  cases hd : decrypt t k n c with
  | none => rfl
  | some pt =>
    obtain ⟨e, hm, h1, h2, h3, _⟩ := decrypt_some hd
    exact absurd ⟨h1, h2, h3⟩ (h e hm)

/-- in a fresh table, decrypting what an entry records gives its plaintext -/
theorem decrypt_fresh_mem {t : Table κ} (hf : Fresh t) {e : Enc κ} (he : e ∈ t) :
    decrypt t e.key e.nonce e.ct = some e.pt := by
  cases hd : decrypt t e.key e.nonce e.ct with
  | none =>
    simp only [decrypt, Option.map_eq_none_iff, List.find?_eq_none] at hd
    have := hd e he
    simp at this
  | some pt =>
    obtain ⟨e', hm, _, h2, _, h4⟩ := decrypt_some hd
    have : e' = e := hf e' hm e he (Or.inl h2)
    rw [← h4, this]

/-- in a fresh table, the nonce (or the ciphertext) of an entry decrypts under no other key -/
theorem decrypt_fresh_other_key {t : Table κ} (hf : Fresh t) {e : Enc κ} (he : e ∈ t) {k : κ}
    (hk : k ≠ e.key) (n c : Bytes) (hnc : n = e.nonce ∨ c = e.ct) : decrypt t k n c = none := by
  apply decrypt_none_of
  intro e' hm ⟨h1, h2, h3⟩
  have : e' = e := hf e' hm e he (by rcases hnc with h | h; exact Or.inl (h2.trans h); exact Or.inr (h3.trans h))
  exact hk (by rw [← h1, this])

/-! ### decode -/

theorem decode_some {t : Table κ} {ks : KeySet κ} {b : Bytes} {c : Cookie} (h : decode t ks b = some c) :
    22 ≤ b.length ∧ cookieLen b ≤ (b.drop 22).length ∧
    ∃ e ∈ t, ks.keys[keyIndex ks b]? = some e.key ∧ e.nonce = cookieNonce b ∧ e.ct = cookieCt b ∧
      parsePlain e.pt = some c := by
  unfold decode at h
  split at h
  · cases h
  · rename_i h22
    split at h
    · cases h
    · rename_i key hk
      split at h
      · cases h
      · rename_i hl
        split at h
        · cases h
        · rename_i pt hd
          obtain ⟨e, hm, h1, h2, h3, h4⟩ := decrypt_some hd
          exact ⟨by omega, by omega, e, hm, by rw [hk, h1], h2, h3, by rw [h4]; exact h⟩

theorem decode_eq {t : Table κ} {ks : KeySet κ} {b : Bytes} (h22 : 22 ≤ b.length) {key : κ}
    (hk : ks.keys[keyIndex ks b]? = some key) (hl : cookieLen b ≤ (b.drop 22).length) :
    decode t ks b = (decrypt t key (cookieNonce b) (cookieCt b)).bind parsePlain := by
  unfold decode
  rw [if_neg (by omega), hk]
  simp only
  rw [if_neg (by omega)]
  cases decrypt t key (cookieNonce b) (cookieCt b) <;> rfl

theorem parsePlain_plaintext (c : Cookie) (h : c.WF) : parsePlain c.plaintext = some c := by
  obtain ⟨alg, s2c, c2s⟩ := c
  rcases h with ⟨h1, h2, h3⟩ | ⟨h1, h2, h3⟩ <;> simp only at h1 h2 h3 <;> subst h1
  · simp [Cookie.plaintext, be16, parsePlain, h2, h3, List.take_left' h2, List.drop_left' h2]
  · simp [Cookie.plaintext, be16, parsePlain, h2, h3, List.take_left' h2, List.drop_left' h2]

theorem plaintext_length (c : Cookie) : c.plaintext.length = 2 + c.s2c.length + c.c2s.length := by
  simp [Cookie.plaintext, be16]; omega

omit [DecidableEq κ] in
theorem encode_some {ks : KeySet κ} {c : Cookie} {nonce ct b : Bytes} {e : Enc κ}
    (h : encode ks c nonce ct = some (b, e)) :
    ∃ k, ks.keys[ks.primary]? = some k ∧ nonce.length = 16 ∧ ct.length = c.plaintext.length + 16 ∧
      b = mkCookie ((ks.primary + ks.idOffset) % M32) ct.length nonce ct ∧
      e = { key := k, nonce := nonce, ct := ct, pt := c.plaintext } := by
  unfold encode at h
  split at h
  · cases h
  · rename_i k hk
    simp only at h
    split at h
    · cases h
    · rename_i hc
      simp only [Option.some.injEq, Prod.mk.injEq] at h
      exact ⟨k, hk, by omega, by omega, h.1.symm, h.2.symm⟩

theorem decode_none_of_forall {t : Table κ} {ks : KeySet κ} {b : Bytes}
    (h : ∀ c, decode t ks b ≠ some c) : decode t ks b = none := by
  cases hd : decode t ks b with
  | none => rfl
  | some c => exact absurd hd (h c)

/-! ### the provider after `n` rotations -/

/-- `KeySetProvider::new(h)` followed by `n` calls of `rotate`, the random keys being
    `key 0, key 1, key 2, …` (global sequence numbers) -/
def rotations (key : Nat → κ) (h : Nat) : Nat → Provider κ
  | 0 => Provider.new h (key 0)
  | n + 1 => (rotations key h n).rotate (key (n + 1))

omit [DecidableEq κ] in
/-- invariant: the key set holds the keys with sequence numbers `n - min n h … n`, in order, and the
    id offset is the sequence number of the first one (mod 2^32) -/
theorem rotations_state (key : Nat → κ) (h n : Nat) :
    (rotations key h n).history = h ∧
    (rotations key h n).current.keys = (List.range' (n - min n h) (min n h + 1)).map key ∧
    (rotations key h n).current.idOffset = (n - min n h) % M32 ∧
    (rotations key h n).current.primary = (min n h + 1) % M32 - 1 := by
  induction n with
  | zero => simp [rotations, Provider.new, M32]
  | succ n ih =>
    obtain ⟨ih1, ih2, ih3, ih4⟩ := ih
    have hl : (rotations key h n).current.keys.length = min n h + 1 := by simp [ih2]
    simp only [rotations, Provider.rotate, ih1, hl, ih3]
    refine ⟨trivial, ?_, ?_, ?_⟩
    · rw [ih2]
      by_cases hc : n < h
      · have e1 : min n h = n := by omega
        have e2 : min (n + 1) h = n + 1 := by omega
        have e3 : n + 1 - h = 0 := by omega
        simp only [e1, e2, e3, Nat.sub_self, List.drop_zero]
        rw [List.range'_concat (s := 0) (n := n + 1)]
        simp
      · have e1 : min n h = h := by omega
        have e2 : min (n + 1) h = h := by omega
        have e3 : h + 1 - h = 1 := by omega
        simp only [e1, e2, e3]
        rw [← List.map_drop, List.drop_range', List.range'_concat]
        have e4 : n - h + 1 * 1 = n + 1 - h := by omega
        have e5 : n + 1 - h + 1 * h = n + 1 := by omega
        simp only [e4, e5, Nat.add_sub_cancel, List.map_append, List.map_cons, List.map_nil]
    · simp only [M32]; omega
    · simp only [List.length_append, List.length_drop, hl, List.length_cons, List.length_nil]
      have : min n h + 1 - (min n h + 1 - h) + (0 + 1) = min (n + 1) h + 1 := by omega
      rw [this]

omit [DecidableEq κ] in
theorem rotations_key (key : Nat → κ) (h n i : Nat) :
    (rotations key h n).current.keys[i]? =
      if i < min n h + 1 then some (key (n - min n h + i)) else none := by
  rw [(rotations_state key h n).2.1, List.getElem?_map]
  split
  · rename_i hi
    rw [List.getElem?_range' hi]
    simp
  · rename_i hi
    rw [List.getElem?_eq_none (by simp; omega)]
    rfl

/-! ### decoding an issued cookie -/

omit [DecidableEq κ] in
theorem wf_ct_length (c : Cookie) (hwf : c.WF) : c.plaintext.length + 16 < 65536 := by
  rw [plaintext_length]
  rcases hwf with ⟨_, h2, h3⟩ | ⟨_, h2, h3⟩ <;> omega

/-- core lemma: the cookie assembled from a table entry decodes under every key set that maps its id to
    the entry's key, provided the table answers for the entry -/
theorem decode_issued {t : Table κ} {ks : KeySet κ} (e : Enc κ) (c : Cookie) (hwf : c.WF) (id : Nat)
    (hn : e.nonce.length = 16) (hct : e.ct.length = c.plaintext.length + 16) (hpt : e.pt = c.plaintext)
    (hk : ks.keys[(id % M32 + M32 - ks.idOffset % M32) % M32]? = some e.key)
    (hd : decrypt t e.key e.nonce e.ct = some e.pt) :
    decode t ks (mkCookie id e.ct.length e.nonce e.ct) = some c := by
  obtain ⟨f1, f2, f3, f4, f5⟩ := mkCookie_fields id e.ct.length e.nonce e.ct hn
  have hlt := wf_ct_length c hwf
  have hlen : cookieLen (mkCookie id e.ct.length e.nonce e.ct) = e.ct.length := by
    rw [f2]; omega
  have hidx : keyIndex ks (mkCookie id e.ct.length e.nonce e.ct) =
      (id % M32 + M32 - ks.idOffset % M32) % M32 := by
    rw [keyIndex, f1]; rfl
  have hctf : cookieCt (mkCookie id e.ct.length e.nonce e.ct) = e.ct := by
    rw [cookieCt, f4, hlen, List.take_length]
  rw [decode_eq (by omega) (by rw [hidx]; exact hk) (by rw [hlen, f4]; exact Nat.le_refl _), f3, hctf, hd, hpt]
  exact parsePlain_plaintext c hwf

/-- `decode ∘ encode = id` on the key set that issued the cookie (table: the encryption just made first) -/
theorem decode_encode (t : Table κ) (ks : KeySet κ) (c : Cookie) (hwf : c.WF) (nonce ct b : Bytes)
    (e : Enc κ) (hp : ks.primary < M32) (ho : ks.idOffset < M32)
    (henc : encode ks c nonce ct = some (b, e)) : decode (e :: t) ks b = some c := by
  obtain ⟨k, hk, hn, hct, hb, he⟩ := encode_some henc
  subst he
  rw [hb]
  refine decode_issued (ks := ks) ⟨k, nonce, ct, c.plaintext⟩ c hwf _ hn hct rfl ?_ (decrypt_cons_self _ _)
  have : ((ks.primary + ks.idOffset) % M32 % M32 + M32 - ks.idOffset % M32) % M32 = ks.primary := by
    simp only [M32] at *; omega
  rw [this]; exact hk

/-! ### key files -/

theorem readKeys_flatten (ks : List Bytes) (rest : Bytes) (h : ∀ k ∈ ks, k.length = 64) :
    readKeys ks.length (ks.flatten ++ rest) = some ks := by
  induction ks with
  | nil => rfl
  | cons k ks ih =>
    have hk : k.length = 64 := h k (by simp)
    have e : (k :: ks).flatten ++ rest = k ++ (ks.flatten ++ rest) := by simp
    rw [List.length_cons, readKeys, e, if_neg (by simp [hk]), List.drop_left' hk, List.take_left' hk,
      ih (fun k' hk' => h k' (by simp [hk']))]
    rfl

theorem readKeys_short (n : Nat) (b : Bytes) (h : b.length < 64 * n) : readKeys n b = none := by
  induction n generalizing b with
  | zero => omega
  | succ n ih =>
    rw [readKeys]
    split
    · rfl
    · rw [ih (b.drop 64) (by simp; omega)]; rfl

theorem readKeys_length {n : Nat} {b : Bytes} {ks : List Bytes} (h : readKeys n b = some ks) :
    ks.length = n ∧ ∀ k ∈ ks, k.length = 64 := by
  induction n generalizing b ks with
  | zero => simp [readKeys] at h; subst h; simp
  | succ n ih =>
    rw [readKeys] at h
    split at h
    · cases h
    · rename_i hb
      cases hr : readKeys n (b.drop 64) with
      | none => rw [hr] at h; cases h
      | some ks' =>
        rw [hr] at h
        simp only [Option.map_some, Option.some.injEq] at h
        subst h
        obtain ⟨h1, h2⟩ := ih hr
        refine ⟨by simp [h1], ?_⟩
        intro k hk
        rcases List.mem_cons.mp hk with rfl | hk
        · simp; omega
        · exact h2 k hk

/-- the bytes `store` writes -/
def mkFile (time off prim len : Nat) (body : Bytes) : Bytes :=
  be64 time ++ be32 off ++ be32 prim ++ be32 len ++ body

theorem mkFile_fields (time off prim len : Nat) (body : Bytes) :
    (mkFile time off prim len body).length = 20 + body.length ∧
    (mkFile time off prim len body).take 8 = be64 time ∧
    ((mkFile time off prim len body).drop 8).take 4 = be32 off ∧
    ((mkFile time off prim len body).drop 12).take 4 = be32 prim ∧
    ((mkFile time off prim len body).drop 16).take 4 = be32 len ∧
    (mkFile time off prim len body).drop 20 = body := by
  refine ⟨?_, rfl, rfl, rfl, rfl, rfl⟩
  simp [mkFile, be64_length, be32_length]; omega

theorem mkFile_take (time off prim len : Nat) (body : Bytes) (n : Nat) (hn : 20 ≤ n) :
    (mkFile time off prim len body).take n = mkFile time off prim len (body.take (n - 20)) := by
  have hl : (be64 time ++ be32 off ++ be32 prim ++ be32 len).length = 20 := rfl
  rw [mkFile, List.take_append, hl, List.take_of_length_le (by omega)]
  rfl

theorem load_mkFile (time off prim len : Nat) (body : Bytes) (h : Nat) :
    load (mkFile time off prim len body) h =
      if time % 18446744073709551616 ≥ 9223372036854775808 then .err .other
      else if prim % 4294967296 ≥ len % 4294967296 then .err .other
      else match readKeys (len % 4294967296) body with
        | none => .err .eof
        | some keys => .ok { current := { keys := keys, idOffset := off % 4294967296,
                                           primary := prim % 4294967296 }, history := h }
                           (time % 18446744073709551616) := by
  obtain ⟨f0, f1, f2, f3, f4, f5⟩ := mkFile_fields time off prim len body
  unfold load
  rw [if_neg (by omega)]
  simp only [f1, f2, f3, f4, f5, beNat_be64, beNat_be32]
  split
  · rfl
  · split
    · rfl
    · rfl

/-! ### single-byte changes -/

theorem nonce_set (b : Bytes) (i : Nat) (v : UInt8) (hi : i < 6 ∨ 22 ≤ i) :
    cookieNonce (b.set i v) = cookieNonce b := by
  unfold cookieNonce
  rw [List.drop_set]
  split
  · rfl
  · rw [List.take_set, List.set_eq_of_length_le (by simp; omega)]

theorem ct_set (b : Bytes) (i : Nat) (v : UInt8) (hi : 6 ≤ i ∧ i < 22) :
    cookieCt (b.set i v) = cookieCt b := by
  have hl : cookieLen (b.set i v) = cookieLen b := by
    unfold cookieLen
    rw [List.drop_set, if_neg (by omega), List.take_set, List.set_eq_of_length_le (by simp; omega)]
  unfold cookieCt
  rw [hl, List.drop_set, if_pos (by omega)]


end NtpVerif.KeySet

namespace NtpVerif.KeySet
variable {κ : Type}

/-! ### a (re)loaded provider rotated further -/

/-- a provider (e.g. one just loaded from a key file) rotated `r` more times, the random keys being
    `fresh 0, fresh 1, …` -/
def rotFrom (p : Provider κ) (fresh : Nat → κ) : Nat → Provider κ
  | 0 => p
  | r + 1 => (rotFrom p fresh r).rotate (fresh r)

/-- all keys in order of becoming primary: the keys the provider started with, then the new ones -/
def lineage (p : Provider κ) (fresh : Nat → κ) (r : Nat) : List κ :=
  p.current.keys ++ (List.range r).map fresh

theorem lineage_length (p : Provider κ) (fresh : Nat → κ) (r : Nat) :
    (lineage p fresh r).length = p.current.keys.length + r := by simp [lineage]

theorem lineage_succ (p : Provider κ) (fresh : Nat → κ) (r : Nat) :
    lineage p fresh (r + 1) = lineage p fresh r ++ [fresh r] := by
  simp [lineage, List.range_succ, List.append_assoc]

/-- from the first rotation on, the key set is the newest `history + 1` keys of the lineage (all of them
    while there are fewer), and the id offset has advanced by the number of keys dropped -/
theorem rotFrom_state (p : Provider κ) (fresh : Nat → κ) (r : Nat) (hr : 1 ≤ r) :
    (rotFrom p fresh r).history = p.history ∧
    (rotFrom p fresh r).current.keys =
      (lineage p fresh r).drop (p.current.keys.length + r - (p.history + 1)) ∧
    (rotFrom p fresh r).current.idOffset =
      (p.current.idOffset + (p.current.keys.length + r - (p.history + 1))) % M32 := by
  induction r with
  | zero => omega
  | succ r ih =>
    by_cases h0 : r = 0
    · subst h0
      simp only [rotFrom, Provider.rotate, lineage_succ]
      refine ⟨trivial, ?_, ?_⟩
      · have : lineage p fresh 0 = p.current.keys := by simp [lineage]
        rw [this, List.drop_append_of_le_length (by omega)]
        congr 2; omega
      · have : p.current.keys.length + (0 + 1) - (p.history + 1) = p.current.keys.length - p.history := by omega
        rw [this]; simp only [M32]; omega
    · obtain ⟨i1, i2, i3⟩ := ih (by omega)
      have hl : (rotFrom p fresh r).current.keys.length =
          p.current.keys.length + r - (p.current.keys.length + r - (p.history + 1)) := by
        rw [i2, List.length_drop, lineage_length]
      simp only [rotFrom, Provider.rotate, i1, hl, i3, lineage_succ]
      refine ⟨trivial, ?_, ?_⟩
      · rw [i2, List.drop_drop, List.drop_append_of_le_length (by rw [lineage_length]; omega)]
        congr 2; omega
      · simp only [M32]; omega


theorem rotFrom_primary (p : Provider κ) (fresh : Nat → κ) (r : Nat) (hr : 1 ≤ r) :
    (rotFrom p fresh r).current.primary = (rotFrom p fresh r).current.keys.length % M32 - 1 := by
  cases r with
  | zero => omega
  | succ r => rfl

end NtpVerif.KeySet
