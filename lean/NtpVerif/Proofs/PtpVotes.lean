/- C43: `leap_vote` and `local_root_delay` of the link filter, as functions of the agreeing links. -/
import NtpVerif.Proofs.PtpFilter
import NtpVerif.Proofs.F64

set_option linter.unusedSimpArgs false
set_option linter.unusedVariables false

namespace NtpVerif.PtpFilter
open NtpVerif.Estimator NtpVerif.PtpCtrl

/-- number of agreeing links whose remote announced leap status `y` -/
def leapCount (ls : List FLink) (y : Leap) : Nat :=
  (ls.filter fun l => (l.ext.bind (·.leap)) == some y).length

def leapTotal (ls : List FLink) : Nat := leapCount ls .none + leapCount ls .leap59 + leapCount ls .leap61

/-- `root_delay + delay` of a link that has both -/
def rootCandidate (l : FLink) : Option F64 :=
  match l.ext, l.estimates with
  | some e, some (delay, _) => some (F64.add e.rootDelay delay)
  | _, _ => none

def rdStep (best : F64) (l : FLink) : F64 :=
  match l.ext, l.estimates with
  | some e, some (delay, _) => F64.min best (F64.add e.rootDelay delay)
  | _, _ => best

theorem min_cases (a b : F64) : F64.min a b = a ∨ F64.min a b = b := by
  unfold F64.min
  split
  · right; rfl
  · split
    · left; rfl
    · split
      · right; rfl
      · left; rfl

theorem rdStep_spec (best : F64) (l : FLink) (hb : best.isNaN = false) :
    (rdStep best l).isNaN = false ∧ F64.le (rdStep best l) best = true ∧
    (∀ s, rootCandidate l = some s → s.isNaN = false → F64.le (rdStep best l) s = true) ∧
    (rdStep best l = best ∨ rootCandidate l = some (rdStep best l)) := by
  unfold rdStep rootCandidate
  split
  · rename_i e delay noise he hest
    by_cases hs : (F64.add e.rootDelay delay).isNaN = true
    · have : F64.min best (F64.add e.rootDelay delay) = best := by
        unfold F64.min; simp [hb, hs]
      rw [this]
      refine ⟨hb, F64.le_refl_of_not_nan hb, ?_, Or.inl rfl⟩
      intro s h1 h2
      simp only [Option.some.injEq] at h1
      rw [← h1] at h2
      rw [hs] at h2; cases h2
    · have hs' : (F64.add e.rootDelay delay).isNaN = false := by simpa using hs
      refine ⟨F64.min_not_nan hb hs', F64.min_le_left hb hs', ?_, ?_⟩
      · intro s h1 _
        simp only [Option.some.injEq] at h1
        rw [← h1]
        exact F64.min_le_right hb hs'
      · rcases min_cases best (F64.add e.rootDelay delay) with h | h
        · left; exact h
        · right; rw [h]
  · refine ⟨hb, F64.le_refl_of_not_nan hb, ?_, Or.inl rfl⟩
    intro s h1 _
    cases h1

theorem rdFold_spec : ∀ (ls : List FLink) (best : F64), best.isNaN = false →
    (ls.foldl rdStep best).isNaN = false ∧ F64.le (ls.foldl rdStep best) best = true ∧
    (∀ l ∈ ls, ∀ s, rootCandidate l = some s → s.isNaN = false → F64.le (ls.foldl rdStep best) s = true) ∧
    (ls.foldl rdStep best = best ∨ ∃ l ∈ ls, rootCandidate l = some (ls.foldl rdStep best))
  | [], best, hb => ⟨hb, F64.le_refl_of_not_nan hb, (by intro l hl; cases hl), Or.inl rfl⟩
  | l :: rest, best, hb => by
    obtain ⟨n1, l1, c1, a1⟩ := rdStep_spec best l hb
    obtain ⟨n2, l2, c2, a2⟩ := rdFold_spec rest (rdStep best l) n1
    simp only [List.foldl_cons]
    refine ⟨n2, F64.le_trans l2 l1, ?_, ?_⟩
    · intro x hx s hs hn
      simp only [List.mem_cons] at hx
      rcases hx with rfl | hx
      · exact F64.le_trans l2 (c1 s hs hn)
      · exact c2 x hx s hs hn
    · rcases a2 with h | ⟨x, hx, hx2⟩
      · rw [h]
        rcases a1 with h' | h'
        · left; exact h'
        · right; exact ⟨l, List.mem_cons_self, h'⟩
      · right; exact ⟨x, List.mem_cons_of_mem _ hx, hx2⟩

theorem localRootDelay_spec {f : Filter} {cfg : Cfg} :
    (consensus f cfg = .ok none → f.localRootDelay cfg = .ok none) ∧
    (∀ cw ls, consensus f cfg = .ok (some cw) → agreeing f cfg cw = .ok ls →
      f.localRootDelay cfg = .ok (some (ls.foldl rdStep F64_MAX))) := by
  constructor
  · intro h
    unfold Filter.localRootDelay
    simp only [h, bind, Except.bind]
    rfl
  · intro cw ls h1 h2
    unfold Filter.localRootDelay
    simp only [h1, h2, bind, Except.bind]
    rfl

theorem leapVote_spec {f : Filter} {cfg : Cfg} :
    (consensus f cfg = .ok none → f.leapVote cfg = .ok none) ∧
    (∀ cw ls, consensus f cfg = .ok (some cw) → agreeing f cfg cw = .ok ls →
      f.leapVote cfg = .ok
        (if leapCount ls .none * 2 > leapTotal ls then some .none
         else if leapCount ls .leap59 * 2 > leapTotal ls then some .leap59
         else if leapCount ls .leap61 * 2 > leapTotal ls then some .leap61
         else none)) := by
  constructor
  · intro h
    unfold Filter.leapVote
    simp only [h, bind, Except.bind]
    rfl
  · intro cw ls h1 h2
    unfold Filter.leapVote
    simp only [h1, h2, bind, Except.bind, leapCount, leapTotal]
    split <;> (try split) <;> (try split) <;> simp_all [pure, Except.pure] <;> (repeat' split) <;>
      first | rfl | (exfalso; omega)

end NtpVerif.PtpFilter
