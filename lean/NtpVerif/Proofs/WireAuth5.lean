/-
Helper lemmas for C25, fifth part: the lock-step lemma lifted to whole packets.
-/
import NtpVerif.Proofs.WireAuth4

namespace NtpVerif.Wire

/-- the authentic content of two results is related: one of them has none, or they agree (a cookie may be
    withheld on one side when a later field failed to decrypt) -/
def Related (a₁ e₁ : List EF) (c₁ : Option Cookie) (a₂ e₂ : List EF) (c₂ : Option Cookie) : Prop :=
  (a₁ = [] ∧ e₁ = [] ∧ c₁ = none) ∨ (a₂ = [] ∧ e₂ = [] ∧ c₂ = none) ∨
  (a₁ = a₂ ∧ e₁ = e₂ ∧ (c₁ = c₂ ∨ c₁ = none ∨ c₂ = none))

section
variable {T : Table} {P N C : Bytes} {o : Nat}

theorem take_drop_prefix {data : Bytes} {hs : Nat} (hd : data.take o = P) :
    (data.drop hs).take (o - hs) = P.drop hs := by
  rw [← hd, List.drop_take]

theorem length_ge_of_take {data : Bytes} (hd : data.take o = P) (hP : P.length = o) : o ≤ data.length := by
  have := congrArg List.length hd
  simp only [List.length_take] at this
  omega

theorem efDeserialize_related (hF : Fresh T P N C) (hP : P.length = o) {ctx : Ctx} {data₁ data₂ : Bytes}
    {hs : Nat} {ver : Ver} (hhs : 48 ≤ hs) (hso : hs ≤ o) (hd1 : data₁.take o = P) (hd2 : data₂.take o = P)
    {r₁ r₂ : EFResult} (h1 : efDeserialize T.decrypt ctx data₁ hs ver = .ok r₁)
    (h2 : efDeserialize T.decrypt ctx data₂ hs ver = .ok r₂) :
    Related r₁.ef.authenticated r₁.ef.encrypted r₁.cookie r₂.ef.authenticated r₂.ef.encrypted r₂.cookie := by
  unfold efDeserialize at h1 h2
  split at h1
  · cases h1
  rename_i body₁ hb1
  split at h2
  · cases h2
  rename_i body₂ hb2
  have e1 := sliceP_tail hb1
  have e2 := sliceP_tail hb2
  split at h1
  · cases h1
  rename_i st₁ hst1
  split at h2
  · cases h2
  rename_i st₂ hst2
  split at h1
  · cases h1
  split at h2
  · cases h2
  cases h1; cases h2
  have l1 := length_ge_of_take hd1 hP
  have l2 := length_ge_of_take hd2 hP
  have := lockstep hF hP (ctx := ctx) (ver := ver) (cutoff := macCutoff ver) (minSize := minEF) hhs hd1 hd2
    (body₁.length + 1) (body₂.length + 1) body₁ body₂ 0 .init .init st₁ st₂ (by omega)
    (by rw [e1, e2]; simp only [Nat.sub_zero]; rw [take_drop_prefix hd1, take_drop_prefix hd2])
    (by rw [e1]; simp only [List.length_drop]; omega) (by rw [e2]; simp only [List.length_drop]; omega)
    rfl rfl rfl hst1 hst2
  simp only [EFState.view, nothingView, Prod.mk.injEq] at this
  unfold Related
  rcases this with ⟨a, b, c⟩ | ⟨a, b, c⟩ | ⟨a, b, c⟩
  · exact .inl ⟨a, b, by simp [c]⟩
  · exact .inr (.inl ⟨a, b, by simp [c]⟩)
  · refine .inr (.inr ⟨a, b, ?_⟩)
    simp only
    cases st₁.valid <;> cases st₂.valid <;> simp [c]

theorem parseEF_related (hF : Fresh T P N C) (hP : P.length = o) {ctx : Ctx} {data₁ data₂ : Bytes}
    {hdr₁ hdr₂ : Header} {hs : Nat} {ver : Ver} (hhs : 48 ≤ hs) (hso : hs ≤ o)
    (hd1 : data₁.take o = P) (hd2 : data₂.take o = P)
    {p₁ p₂ : Packet} {c₁ c₂ : Option Cookie} {v₁ v₂ : Bool}
    (h1 : parseEF T.decrypt ctx data₁ hdr₁ hs ver = .ok (p₁, c₁, v₁))
    (h2 : parseEF T.decrypt ctx data₂ hdr₂ hs ver = .ok (p₂, c₂, v₂)) :
    Related p₁.ef.authenticated p₁.ef.encrypted c₁ p₂.ef.authenticated p₂.ef.encrypted c₂ := by
  unfold parseEF at h1 h2
  simp only [bind, Except.bind, pure, Except.pure] at h1 h2
  split at h1
  · cases h1
  rename_i r₁ hr1
  split at h2
  · cases h2
  rename_i r₂ hr2
  split at h1
  · cases h1
  rename_i q₁ hq1
  split at h2
  · cases h2
  rename_i q₂ hq2
  simp only [Except.ok.injEq, Prod.mk.injEq] at h1 h2
  obtain ⟨a1, b1, _⟩ := h1
  obtain ⟨a2, b2, _⟩ := h2
  subst a1 a2 b1 b2
  rw [constructPacket_ef hq1, constructPacket_ef hq2]
  exact efDeserialize_related hF hP hhs hso hd1 hd2 hr1 hr2


theorem related_nothing_left (a₂ e₂ : List EF) (c₂ : Option Cookie) : Related [] [] none a₂ e₂ c₂ :=
  .inl ⟨rfl, rfl, rfl⟩
theorem related_nothing_right (a₁ e₁ : List EF) (c₁ : Option Cookie) : Related a₁ e₁ c₁ [] [] none :=
  .inr (.inl ⟨rfl, rfl, rfl⟩)

theorem parseR_related (hF : Fresh T P N C) (hP : P.length = o) (ho : 48 ≤ o) {ctx : Ctx}
    {data₁ data₂ : Bytes} (hd1 : data₁.take o = P) (hd2 : data₂.take o = P)
    {p₁ p₂ : Packet} {c₁ c₂ : Option Cookie} {v₁ v₂ : Bool}
    (h1 : parseR T.decrypt ctx data₁ = .ok (p₁, c₁, v₁)) (h2 : parseR T.decrypt ctx data₂ = .ok (p₂, c₂, v₂)) :
    Related p₁.ef.authenticated p₁.ef.encrypted c₁ p₂.ef.authenticated p₂.ef.encrypted c₂ := by
  rcases data₁ with _ | ⟨b0, t₁⟩
  · simp [parseR, perr] at h1
  rcases data₂ with _ | ⟨b0', t₂⟩
  · simp [parseR, perr] at h2
  have hb : b0' = b0 := by
    have := hd2.trans hd1.symm
    have e : o = (o - 1) + 1 := by omega
    rw [e] at this
    simp only [List.take_succ_cons, List.cons.injEq] at this
    exact this.1
  subst hb
  unfold parseR at h1 h2
  simp only at h1 h2
  split at h1
  · -- v3: no extension fields at all
    rename_i hv
    simp only [bind, Except.bind, pure, Except.pure] at h1
    split at h1
    · cases h1
    · rename_i x hx
      obtain ⟨hdr, hs⟩ := x
      simp only at h1
      split at h1
      · split at h1
        · cases h1
        · split at h1
          · cases h1
          · cases h1; exact related_nothing_left _ _ _
      · cases h1; exact related_nothing_left _ _ _
  · rename_i hv3
    split at h1
    · -- v4
      rename_i hv4
      split at h2
      · rename_i h; exact absurd h hv3
      simp only [bind, Except.bind, pure, Except.pure] at h1 h2
      split at h1
      · cases h1
      rename_i x₁ hx1
      obtain ⟨hdr₁, hs₁⟩ := x₁
      split at h2
      · cases h2
      rename_i x₂ hx2
      obtain ⟨hdr₂, hs₂⟩ := x₂
      obtain ⟨e1, _⟩ := headerV34_size hx1
      obtain ⟨e2, _⟩ := headerV34_size hx2
      subst e1 e2
      simp only at h1 h2
      exact parseEF_related hF hP (by omega) ho hd1 hd2 h1 h2
    · rename_i hv4
      split at h1
      · -- v5
        rename_i hv5
        split at h2
        · rename_i h; exact absurd h hv3
        simp only [bind, Except.bind, pure, Except.pure] at h1 h2
        split at h1
        · cases h1
        rename_i x₁ hx1
        obtain ⟨hdr₁, hs₁⟩ := x₁
        split at h2
        · cases h2
        rename_i x₂ hx2
        obtain ⟨hdr₂, hs₂⟩ := x₂
        obtain ⟨e1, _⟩ := headerV5_size hx1
        obtain ⟨e2, _⟩ := headerV5_size hx2
        subst e1 e2
        simp only at h1 h2
        split at h1
        · cases h1
        rename_i y₁ hy1
        obtain ⟨q₁, d₁, w₁⟩ := y₁
        split at h2
        · cases h2
        rename_i y₂ hy2
        obtain ⟨q₂, d₂, w₂⟩ := y₂
        have key := parseEF_related hF hP (by omega) ho hd1 hd2 hy1 hy2
        simp only at h1 h2
        have r1 : q₁ = p₁ ∧ d₁ = c₁ := by
          split at h1
          · cases h1; exact ⟨rfl, rfl⟩
          · split at h1
            · cases h1; exact ⟨rfl, rfl⟩
            · cases h1
        have r2 : q₂ = p₂ ∧ d₂ = c₂ := by
          split at h2
          · cases h2; exact ⟨rfl, rfl⟩
          · split at h2
            · cases h2; exact ⟨rfl, rfl⟩
            · cases h2
        rw [← r1.1, ← r1.2, ← r2.1, ← r2.2]
        exact key
      · cases h1

/-- what a decode reports as authentic -/
def ParseOut.authLists : ParseOut → List EF × List EF
  | .ok p _ => (p.ef.authenticated, p.ef.encrypted)
  | .decryptErr p => (p.ef.authenticated, p.ef.encrypted)
  | _ => ([], [])

def ParseOut.authCookie : ParseOut → Option Cookie
  | .ok _ c => c
  | _ => none

theorem parse_related (hF : Fresh T P N C) (hP : P.length = o) (ho : 48 ≤ o) (ctx : Ctx)
    {data₁ data₂ : Bytes} (hd1 : data₁.take o = P) (hd2 : data₂.take o = P) :
    Related (parse T.decrypt ctx data₁).authLists.1 (parse T.decrypt ctx data₁).authLists.2
      (parse T.decrypt ctx data₁).authCookie
      (parse T.decrypt ctx data₂).authLists.1 (parse T.decrypt ctx data₂).authLists.2
      (parse T.decrypt ctx data₂).authCookie := by
  cases h1 : parseR T.decrypt ctx data₁ with
  | error e₁ =>
    have : (parse T.decrypt ctx data₁).authLists = ([], []) ∧ (parse T.decrypt ctx data₁).authCookie = none := by
      unfold parse; rw [h1]; cases e₁ <;> exact ⟨rfl, rfl⟩
    rw [this.1, this.2]; exact related_nothing_left _ _ _
  | ok x₁ =>
    cases h2 : parseR T.decrypt ctx data₂ with
    | error e₂ =>
      have : (parse T.decrypt ctx data₂).authLists = ([], []) ∧ (parse T.decrypt ctx data₂).authCookie = none := by
        unfold parse; rw [h2]; cases e₂ <;> exact ⟨rfl, rfl⟩
      rw [this.1, this.2]; exact related_nothing_right _ _ _
    | ok x₂ =>
      obtain ⟨p₁, c₁, v₁⟩ := x₁
      obtain ⟨p₂, c₂, v₂⟩ := x₂
      have key := parseR_related hF hP ho hd1 hd2 h1 h2
      have o1 : (parse T.decrypt ctx data₁).authLists = (p₁.ef.authenticated, p₁.ef.encrypted) ∧
          ((parse T.decrypt ctx data₁).authCookie = c₁ ∨ (parse T.decrypt ctx data₁).authCookie = none) := by
        unfold parse; rw [h1]; cases v₁ <;> simp [ParseOut.authLists, ParseOut.authCookie]
      have o2 : (parse T.decrypt ctx data₂).authLists = (p₂.ef.authenticated, p₂.ef.encrypted) ∧
          ((parse T.decrypt ctx data₂).authCookie = c₂ ∨ (parse T.decrypt ctx data₂).authCookie = none) := by
        unfold parse; rw [h2]; cases v₂ <;> simp [ParseOut.authLists, ParseOut.authCookie]
      rw [o1.1, o2.1]
      simp only
      unfold Related at key ⊢
      rcases key with ⟨a, b, c⟩ | ⟨a, b, c⟩ | ⟨a, b, c⟩
      · refine .inl ⟨a, b, ?_⟩
        rcases o1.2 with h | h
        · rw [h, c]
        · exact h
      · refine .inr (.inl ⟨a, b, ?_⟩)
        rcases o2.2 with h | h
        · rw [h, c]
        · exact h
      · refine .inr (.inr ⟨a, b, ?_⟩)
        rcases o1.2 with h | h
        · rcases o2.2 with h' | h'
          · rw [h, h']; exact c
          · exact .inr (.inr h')
        · exact .inr (.inl h)

end

end NtpVerif.Wire
