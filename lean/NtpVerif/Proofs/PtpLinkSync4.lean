/- C43: with the synchronisation invariant, entering / leaving the estimator never fails for the reasons
   "link already there" / "link not there". -/
import NtpVerif.Proofs.PtpLinkSync3

set_option linter.unusedSimpArgs false
set_option linter.unusedVariables false

namespace NtpVerif.PtpFilter
open NtpVerif.Estimator NtpVerif.PtpCtrl

theorem liftE_err' {β : Type} {x : R β} {e : FErr} (h : liftE x = .error e) :
    ∃ e', x = .error e' ∧ e = .est e' := by
  cases x with
  | error e' => simp [liftE] at h; exact ⟨e', rfl, h.symm⟩
  | ok a => simp [liftE] at h

theorem hasLink_iff_any (s : E) (id : LinkId) : HasLink s id ↔ s.links.any (fun l => l.id == id) = true := by
  unfold HasLink
  simp only [List.any_eq_true, beq_iff_eq]

/-- with the invariant, the only way `syncEst` can fail is an end point of the link that the estimator no
    longer knows (an external clock removed while links still use it: the FIXME in `remove_external_clock`) -/
theorem syncEst_errors {f : Filter} (hs : LinkSync f) (hw : WF f.est) {l : FLink} (hl : l ∈ f.links)
    (delay noise : F64) (active' : Bool) {e : FErr} (he : f.syncEst l delay noise active' = .error e) :
    e = .est .UnknownClock := by
  unfold Filter.syncEst at he
  split at he
  · rename_i hc
    simp only [Bool.and_eq_true, Bool.not_eq_true'] at hc
    have hno : ¬ HasLink f.est l.id := fun hh => by
      have := (hs.sync l hl hc.1.1).mpr hh
      rw [hc.1.2] at this; cases this
    rw [hasLink_iff_any] at hno
    have hany : f.est.links.any (fun x => x.id == l.id) = false := by simpa using hno
    obtain ⟨e', h1, rfl⟩ := liftE_err' he
    cases ha : isKnown f.est l.id.a with
    | false => simp [addLink, ha] at h1; rw [h1]
    | true =>
      cases hb : isKnown f.est l.id.b with
      | false => simp [addLink, ha, hb] at h1; rw [h1]
      | true =>
        obtain ⟨st', unc', heq, _⟩ := addLink_spec hw delay noise l.decay ha hb hany
        rw [heq] at h1; cases h1
  · split at he
    · rename_i hc
      simp only [Bool.and_eq_true, Bool.not_eq_true'] at hc
      obtain ⟨el, hel, heid⟩ := (hs.sync l hl hc.1.1).mp hc.1.2
      obtain ⟨e', h1, rfl⟩ := liftE_err' he
      cases hf : f.est.links.find? (fun x => x.id == l.id) with
      | none =>
        rw [List.find?_eq_none] at hf
        exact absurd (by simpa using heid) (by simpa using hf el hel)
      | some rem =>
        obtain ⟨st', unc', heq, _⟩ := removeLink_spec hw hf
        rw [heq] at h1; cases h1
    · cases he

end NtpVerif.PtpFilter
