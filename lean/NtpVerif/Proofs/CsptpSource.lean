/- Helper lemmas for the CSPTP source model (C44). Core Lean only. -/
import NtpVerif.Model.CsptpSource
import NtpVerif.Proofs.PtpWire

namespace NtpVerif.CsptpSource
open NtpVerif.PtpWire NtpVerif.Csptp

/-! ### no panic below `collect_response` -/

theorem Csptp.deserialize_ne_panic (b : Bytes) : Csptp.deserialize b ≠ .error .panic := by
  unfold Csptp.deserialize
  cases hm : Message.deserialize b with
  | error e => simp only [bind, Except.bind]; intro h; cases h; exact Message.deserialize_ne_panic b hm
  | ok m =>
    simp only [bind, Except.bind]
    split
    · simp
    · split
      · -- Sync: the suffix was validated by `TlvSet::deserialize`, so iterating it cannot panic
        have hs : ∃ ts, TlvSet.iter m.suffix = .ok ts :=
          TlvSet.iter_of_deserialize _ _ (Message.deserialize_suffix b m hm)
        obtain ⟨ts, hts⟩ := hs
        rw [hts]
        simp only []
        split <;> simp [pure, Except.pure]
      · simp [pure, Except.pure]
      · simp

theorem satAdd64_comm (a b : Int) : satAdd64 a b = satAdd64 b a := by
  unfold satAdd64; rw [Int.add_comm]

/-! ### `add_correction`, `convert_to_ntp` -/

theorem addCorrection_ok (ts : Timestamp) (c : Int) : ∃ r, addCorrection ts c = .ok r := by
  unfold addCorrection
  simp only []
  split
  · rename_i h; exfalso; omega
  · split
    · exact ⟨_, rfl⟩
    · split
      · exact ⟨_, rfl⟩
      · split <;> exact ⟨_, rfl⟩

theorem Timestamp.new_WF (s n : Nat) (t : Timestamp) (h : Timestamp.new s n = .ok t) : t.WF := by
  unfold Timestamp.new at h
  split at h
  · cases h
  · cases h; rename_i hn; simp only [Timestamp.WF]; omega

theorem addCorrection_WF (ts : Timestamp) (c : Int) (t : Timestamp) (h : addCorrection ts c = .ok (some t)) :
    t.WF := by
  unfold addCorrection at h
  simp only [] at h
  split at h
  · cases h
  · split at h
    · cases h
    · split at h
      · cases h
      · split at h
        · rename_i t' ht'
          cases h
          exact Timestamp.new_WF _ _ _ ht'
        · cases h

theorem convertToNtp_ok (ts : Timestamp) (h : ts.nanos < 1000000000) : ∃ n, convertToNtp ts = .ok n := by
  unfold convertToNtp
  rw [if_neg (by omega)]
  simp only []
  rw [if_neg]
  · exact ⟨_, rfl⟩
  · have h1 : ((EPOCH_OFFSET + ts.seconds % 4294967296) % 4294967296 + 4294967296 - UTC_OFFSET) % 4294967296
        < 4294967296 := Nat.mod_lt _ (by omega)
    have h2 : ts.nanos * 4294967296 / 1000000000 < 4294967296 := by omega
    omega

/-- what `finish` needs of a raw measurement: the two timestamps that go to `convert_to_ntp`
    uncorrected are well-formed -/
def Raw.WF (r : Raw) : Prop := r.reqRecv.WF ∧ r.respRecv.WF

theorem finish_ok (raw : Raw) (hw : raw.WF) : ∃ r, finish raw = .ok r := by
  unfold finish
  obtain ⟨a, ha⟩ := addCorrection_ok raw.reqSend raw.reqCorr
  obtain ⟨b, hb⟩ := addCorrection_ok raw.respSend raw.respCorr
  rw [ha, hb]
  simp only [bind, Except.bind]
  cases a with
  | none => exact ⟨_, rfl⟩
  | some a =>
    cases b with
    | none => exact ⟨_, rfl⟩
    | some b =>
      simp only []
      obtain ⟨n1, h1⟩ := convertToNtp_ok a (addCorrection_WF _ _ _ ha).2
      obtain ⟨n2, h2⟩ := convertToNtp_ok raw.reqRecv hw.1.2
      obtain ⟨n3, h3⟩ := convertToNtp_ok b (addCorrection_WF _ _ _ hb).2
      obtain ⟨n4, h4⟩ := convertToNtp_ok raw.respRecv hw.2.2
      rw [h1, h2, h3, h4]
      exact ⟨_, rfl⟩

/-! ### what a request state / a raw measurement stems from -/

/-- `e` is a received CSPTP Sync with the request's domain and sequence id that carries a (first valid)
    response TLV `r` and came with receive timestamp `rx` -/
def SyncFor (domain reqId : Nat) (e : Ev) (m : Message) (tlvs : List Tlv) (r : ResponseTlv) (rx origin : Timestamp) :
    Prop :=
  ∃ pkt, e = .dg pkt (some rx) ∧ Csptp.deserialize (pkt.take MAX_MESSAGE_SIZE) = .ok (m, tlvs) ∧
    m.body = .sync origin ∧ m.header.domain = domain ∧ m.header.seqId = reqId ∧
    tlvs.findSome? ResponseTlv.tryFrom = some r

/-- `e` is a received CSPTP Follow_Up with the request's domain and sequence id -/
def FuFor (domain reqId : Nat) (e : Ev) (m : Message) (precise : Timestamp) : Prop :=
  ∃ pkt rx tlvs, e = .dg pkt rx ∧ Csptp.deserialize (pkt.take MAX_MESSAGE_SIZE) = .ok (m, tlvs) ∧
    m.body = .followUp precise ∧ m.header.domain = domain ∧ m.header.seqId = reqId

/-- the request state is explained by the datagrams received for this request so far -/
def J (domain reqId : Nat) (hist : List Ev) : ReqState → Prop
  | .waitingForResponse => True
  | .waitingForFollowUp p =>
    ∃ e ∈ hist, ∃ m tlvs r rx origin, SyncFor domain reqId e m tlvs r rx origin ∧ m.header.twoStep = true ∧
      p.reqRecv = r.ingress ∧ p.respRecv = rx ∧ p.reqCorr = r.correction ∧ p.respCorr = m.header.correction ∧
      p.leap = leapOf m.header
  | .haveFollowUp remoteSend respCorr =>
    ∃ e ∈ hist, ∃ m, FuFor domain reqId e m remoteSend ∧ respCorr = m.header.correction

/-- the raw measurement stems from a matching Sync (+ a matching Follow_Up iff that Sync is two-step) -/
def JR (domain reqId : Nat) (sendTs : Timestamp) (hist : List Ev) (raw : Raw) : Prop :=
  ∃ e ∈ hist, ∃ m tlvs r rx origin, SyncFor domain reqId e m tlvs r rx origin ∧
    raw.reqSend = sendTs ∧ raw.reqRecv = r.ingress ∧ raw.reqCorr = r.correction ∧ raw.respRecv = rx ∧
    raw.leap = leapOf m.header ∧
    (m.header.twoStep = false → raw.respSend = origin ∧ raw.respCorr = m.header.correction) ∧
    (m.header.twoStep = true → ∃ e2 ∈ hist, ∃ m2, FuFor domain reqId e2 m2 raw.respSend ∧
       raw.respCorr = satAdd64 m.header.correction m2.header.correction)

def ReqState.WF : ReqState → Prop
  | .waitingForFollowUp p => p.reqRecv.WF ∧ p.respRecv.WF
  | _ => True

/-- receive timestamps are `statime_wire::Timestamp`s, whose constructor enforces the ranges -/
def Ev.WF : Ev → Prop
  | .dg _ (some rx) => rx.WF
  | _ => True

theorem ResponseTlv.tryFrom_WF (t : Tlv) (r : ResponseTlv) (h : ResponseTlv.tryFrom t = some r) : r.ingress.WF := by
  unfold ResponseTlv.tryFrom at h
  split at h
  · split at h
    · cases h
    · split at h
      · rename_i ts _ _ _ _ _ _ _ _ _ hts _
        cases h
        exact Timestamp.deserialize_WF _ _ hts
      · cases h
  · cases h

theorem findSome_tryFrom_WF (tlvs : List Tlv) (r : ResponseTlv)
    (h : tlvs.findSome? ResponseTlv.tryFrom = some r) : r.ingress.WF := by
  obtain ⟨t, _, ht⟩ := List.exists_of_findSome?_eq_some h
  exact ResponseTlv.tryFrom_WF t r ht

theorem J_mono (domain reqId : Nat) (hist : List Ev) (e : Ev) (st : ReqState) (h : J domain reqId hist st) :
    J domain reqId (e :: hist) st := by
  cases st with
  | waitingForResponse => trivial
  | waitingForFollowUp p =>
    obtain ⟨e', he', rest⟩ := h
    exact ⟨e', List.mem_cons_of_mem _ he', rest⟩
  | haveFollowUp a b =>
    obtain ⟨e', he', rest⟩ := h
    exact ⟨e', List.mem_cons_of_mem _ he', rest⟩

/-- one iteration of `collect_response`: never panics, keeps the state explained and well-formed, and a
    returned raw measurement is explained by matching datagrams of this request -/
theorem collectStep_spec (domain reqId : Nat) (sendTs : Timestamp) (st : ReqState) (e : Ev) (hist : List Ev)
    (hw : st.WF) (he : e.WF) (hj : J domain reqId hist st) :
    (∃ st', collectStep domain reqId sendTs st e = .ok (.cont st') ∧ st'.WF ∧ J domain reqId (e :: hist) st') ∨
    (∃ raw, collectStep domain reqId sendTs st e = .ok (.done raw) ∧ raw.WF ∧
       JR domain reqId sendTs (e :: hist) raw) := by
  have keep : st.WF ∧ J domain reqId (e :: hist) st := ⟨hw, J_mono _ _ _ _ _ hj⟩
  cases e with
  | rxErr => exact .inl ⟨st, rfl, keep⟩
  | dg pkt rx =>
    simp only [collectStep]
    cases hd : Csptp.deserialize (pkt.take MAX_MESSAGE_SIZE) with
    | error f =>
      cases f with
      | panic => exact absurd hd (Csptp.deserialize_ne_panic _)
      | tooShort => exact .inl ⟨st, rfl, keep⟩
      | invalid => exact .inl ⟨st, rfl, keep⟩
    | ok mt =>
      obtain ⟨m, tlvs⟩ := mt
      simp only []
      by_cases hid : m.header.domain ≠ domain ∨ m.header.seqId ≠ reqId
      · rw [if_pos hid]; exact .inl ⟨st, rfl, keep⟩
      · rw [if_neg hid]
        have hdom : m.header.domain = domain := by
          apply Classical.byContradiction; intro h; exact hid (.inl h)
        have hseq : m.header.seqId = reqId := by
          apply Classical.byContradiction; intro h; exact hid (.inr h)
        cases hb : m.body with
        | sync origin =>
          simp only []
          cases hr : tlvs.findSome? ResponseTlv.tryFrom with
          | none => exact .inl ⟨st, rfl, keep⟩
          | some r =>
            simp only []
            cases rx with
            | none => exact .inl ⟨st, rfl, keep⟩
            | some rxTs =>
              simp only []
              have hsync : SyncFor domain reqId (.dg pkt (some rxTs)) m tlvs r rxTs origin :=
                ⟨pkt, rfl, hd, hb, hdom, hseq, hr⟩
              have hrw := findSome_tryFrom_WF tlvs r hr
              by_cases h2 : m.header.twoStep = true
              · rw [if_pos h2]
                cases st with
                | waitingForResponse =>
                  refine .inl ⟨_, rfl, ⟨hrw, he⟩, ?_⟩
                  exact ⟨_, List.mem_cons_self, m, tlvs, r, rxTs, origin, hsync, h2, rfl, rfl, rfl, rfl, rfl⟩
                | waitingForFollowUp p => exact .inl ⟨_, rfl, keep⟩
                | haveFollowUp remoteSend respCorr =>
                  refine .inr ⟨_, rfl, ⟨hrw, he⟩, ?_⟩
                  obtain ⟨e2, he2, m2, hfu, hc⟩ := hj
                  refine ⟨_, List.mem_cons_self, m, tlvs, r, rxTs, origin, hsync, rfl, rfl, rfl, rfl, rfl, ?_, ?_⟩
                  · intro hf; rw [h2] at hf; cases hf
                  · intro _
                    refine ⟨e2, List.mem_cons_of_mem _ he2, m2, hfu, ?_⟩
                    simp only []; rw [hc, satAdd64_comm]
              · rw [if_neg h2]
                refine .inr ⟨_, rfl, ⟨hrw, he⟩, ?_⟩
                refine ⟨_, List.mem_cons_self, m, tlvs, r, rxTs, origin, hsync, rfl, rfl, rfl, rfl, rfl, ?_, ?_⟩
                · intro _; exact ⟨rfl, rfl⟩
                · intro hf; exact absurd hf h2
        | followUp precise =>
          simp only []
          have hfu : FuFor domain reqId (.dg pkt rx) m precise := ⟨pkt, rx, tlvs, rfl, hd, hb, hdom, hseq⟩
          cases st with
          | waitingForResponse =>
            refine .inl ⟨_, rfl, trivial, ?_⟩
            exact ⟨_, List.mem_cons_self, m, hfu, rfl⟩
          | waitingForFollowUp p =>
            refine .inr ⟨_, rfl, hw, ?_⟩
            obtain ⟨e1, he1, m1, tlvs1, r1, rx1, o1, hs1, h21, a1, a2, a3, a4, a5⟩ := hj
            refine ⟨e1, List.mem_cons_of_mem _ he1, m1, tlvs1, r1, rx1, o1, hs1, rfl, a1, a3, a2, a5, ?_, ?_⟩
            · intro hf; rw [h21] at hf; cases hf
            · intro _
              refine ⟨_, List.mem_cons_self, m, hfu, ?_⟩
              simp only []; rw [a4]
          | haveFollowUp a b => exact .inl ⟨_, rfl, keep⟩
        | delayReq _ => exact .inl ⟨st, rfl, keep⟩
        | pDelayReq _ => exact .inl ⟨st, rfl, keep⟩
        | pDelayResp _ _ => exact .inl ⟨st, rfl, keep⟩
        | delayResp _ _ => exact .inl ⟨st, rfl, keep⟩
        | pDelayRespFollowUp _ _ => exact .inl ⟨st, rfl, keep⟩
        | announce _ => exact .inl ⟨st, rfl, keep⟩
        | signaling _ => exact .inl ⟨st, rfl, keep⟩
        | management _ => exact .inl ⟨st, rfl, keep⟩

/-! ### the poll loop -/

def St.Inv (s : St) : Prop :=
  match s.phase with
  | .idle => True
  | .collecting reqId _ st hist => st.WF ∧ J s.domain reqId hist st

def Op.WF : Op → Prop
  | .ev e => e.WF
  | .req _ => True

def reqMsg (d i : Nat) : Message :=
  { header := csptpHeader d i, body := .sync ⟨0, 0⟩,
    suffix := beBytes 2 TLV_REQUEST ++ beBytes 2 4 ++ [UInt8.ofNat 1, 0, 0, 0] }

theorem reqMsg_serialize (d i : Nat) : ∀ buf : Bytes, buf.length = 512 → ∃ b, Message.serialize (reqMsg d i) buf = .ok b := by
    intro buf hl
    simp [reqMsg, Message.serialize, hl, Body.wireSize, TlvSet.wireSize, beBytes, Header.serialize, Body.type,
      Body.serialize, bind, Except.bind, pure, Except.pure]

theorem newRequest_eq (d i : Nat) : newRequest d i = .ok (reqMsg d i) := by
    simp [reqMsg, newRequest, TlvBuilder.add, TlvBuilder.new, Tlv.serialize, RequestTlv.toTlv, bind, Except.bind,
      pure, Except.pure, TlvBuilder.build, b2n]

theorem requestBytes_ok (d i : Nat) : ∃ b, requestBytes d i = .ok b := by
  obtain ⟨b, hb⟩ := reqMsg_serialize d i (List.replicate MAX_MESSAGE_SIZE 0) (by rw [List.length_replicate]; rfl)
  refine ⟨b, ?_⟩
  unfold requestBytes
  rw [newRequest_eq]; simp only []; rw [hb]

/-- one op of the poll loop: never fails, keeps the invariant; a measurement comes only out of a
    completed `collect_response` whose raw measurement is explained by matching datagrams -/
theorem step_spec (s : St) (op : Op) (hi : s.Inv) (hw : op.WF) :
    ∃ s' o, step s op = .ok (s', o) ∧ s'.Inv ∧ s'.domain = s.domain ∧
      ∀ m gm, o = .meas m gm →
        ∃ e reqId sendTs st hist raw, op = .ev e ∧ s.phase = .collecting reqId sendTs st hist ∧
          JR s.domain reqId sendTs (e :: hist) raw ∧ finish raw = .ok (some m) ∧ s'.phase = .idle := by
  cases op with
  | req send =>
    obtain ⟨b, hb⟩ := requestBytes_ok s.domain s.nextId
    cases send with
    | none =>
      refine ⟨{ s with nextId := (s.nextId + 1) % 65536, phase := .idle }, .sent b,
        by simp [step, hb, bind, Except.bind, pure, Except.pure], by simp [St.Inv], rfl, ?_⟩
      intro m gm h; cases h
    | some ts =>
      refine ⟨{ s with nextId := (s.nextId + 1) % 65536,
                       phase := .collecting s.nextId ts .waitingForResponse [] }, .sent b,
        by simp [step, hb, bind, Except.bind, pure, Except.pure], by simp [St.Inv, ReqState.WF, J], rfl, ?_⟩
      intro m gm h; cases h
  | ev e =>
    cases hp : s.phase with
    | idle =>
      refine ⟨s, .unread, by simp [step, hp, pure, Except.pure], hi, rfl, ?_⟩
      intro m gm h; cases h
    | collecting reqId sendTs st hist =>
      have hi' : st.WF ∧ J s.domain reqId hist st := by simpa [St.Inv, hp] using hi
      rcases collectStep_spec s.domain reqId sendTs st e hist hi'.1 hw hi'.2 with
        ⟨st', hc, hw', hj'⟩ | ⟨raw, hc, hrw, hjr⟩
      · refine ⟨{ s with phase := .collecting reqId sendTs st' (e :: hist) }, .none,
          by simp [step, hp, hc, bind, Except.bind, pure, Except.pure], ?_, rfl, ?_⟩
        · simp only [St.Inv]; exact ⟨hw', hj'⟩
        · intro m gm h; cases h
      · obtain ⟨r, hf⟩ := finish_ok raw hrw
        cases r with
        | none =>
          refine ⟨{ s with phase := .idle }, .none,
            by simp [step, hp, hc, hf, bind, Except.bind, pure, Except.pure], by simp [St.Inv], rfl, ?_⟩
          intro m gm h; cases h
        | some m =>
          refine ⟨{ s with phase := .idle, gm := updateState s.active raw s.gm },
            .meas m (updateState s.active raw s.gm),
            by simp [step, hp, hc, hf, bind, Except.bind, pure, Except.pure], by simp [St.Inv], rfl, ?_⟩
          intro m' gm' h
          cases h
          exact ⟨e, reqId, sendTs, st, hist, raw, rfl, rfl, hjr, hf, rfl⟩

/-! ### whole scripts -/

/-- the state after a script prefix -/
def stateAfter (s : St) : List Op → Except Fail St
  | [] => .ok s
  | op :: ops => do
    let (s', _) ← step s op
    stateAfter s' ops

def Obs.isMeas : Obs → Bool
  | .meas _ _ => true
  | _ => false

theorem run_cons (s s' : St) (o : Obs) (op : Op) (ops : List Op) (h : step s op = .ok (s', o)) :
    run s (op :: ops) = (run s' ops).map (o :: ·) := by
  simp only [run, h, bind, Except.bind]
  cases run s' ops <;> rfl

theorem stateAfter_cons (s s' : St) (o : Obs) (op : Op) (ops : List Op) (h : step s op = .ok (s', o)) :
    stateAfter s (op :: ops) = stateAfter s' ops := by
  simp only [stateAfter, h, bind, Except.bind]

/-- no datagram sequence makes the poll loop fail (in particular: panic) -/
theorem run_ok (s : St) (ops : List Op) (hi : s.Inv) (hw : ∀ op ∈ ops, op.WF) :
    ∃ obs, run s ops = .ok obs ∧ obs.length = ops.length := by
  induction ops generalizing s with
  | nil => exact ⟨[], rfl, rfl⟩
  | cons op ops ih =>
    obtain ⟨s', o, hs, hi', _, _⟩ := step_spec s op hi (hw op (by simp))
    obtain ⟨obs, ho, hl⟩ := ih s' hi' (fun op' h => hw op' (by simp [h]))
    exact ⟨o :: obs, by rw [run_cons _ _ _ _ _ hs, ho]; rfl, by simp [hl]⟩

theorem stateAfter_ok (s : St) (ops : List Op) (hi : s.Inv) (hw : ∀ op ∈ ops, op.WF) :
    ∃ s', stateAfter s ops = .ok s' ∧ s'.Inv ∧ s'.domain = s.domain := by
  induction ops generalizing s with
  | nil => exact ⟨s, rfl, hi, rfl⟩
  | cons op ops ih =>
    obtain ⟨s1, o, hs, hi', hd, _⟩ := step_spec s op hi (hw op (by simp))
    obtain ⟨s2, h2, hi2, hd2⟩ := ih s1 hi' (fun op' h => hw op' (by simp [h]))
    exact ⟨s2, by rw [stateAfter_cons _ _ _ _ _ hs, h2], hi2, by rw [hd2, hd]⟩

theorem idle_no_meas (s : St) (evs : List Ev) (hp : s.phase = .idle) :
    run s (evs.map .ev) = .ok (evs.map fun _ => Obs.unread) := by
  induction evs with
  | nil => rfl
  | cons e evs ih =>
    have hs : step s (.ev e) = .ok (s, .unread) := by simp [step, hp, pure, Except.pure]
    simp only [List.map_cons]
    rw [run_cons _ _ _ _ _ hs, ih]; rfl

/-- while no new request is sent, at most one measurement comes out -/
theorem meas_at_most_once (s : St) (evs : List Ev) (obs : List Obs) (hi : s.Inv) (hw : ∀ e ∈ evs, e.WF)
    (h : run s (evs.map .ev) = .ok obs) : (obs.filter Obs.isMeas).length ≤ 1 := by
  induction evs generalizing s obs with
  | nil => simp [run] at h; subst h; simp
  | cons e evs ih =>
    obtain ⟨s', o, hs, hi', _, hm⟩ := step_spec s (.ev e) hi (hw e (by simp))
    simp only [List.map_cons] at h
    rw [run_cons _ _ _ _ _ hs] at h
    cases hr : run s' (evs.map .ev) with
    | error f => rw [hr] at h; cases h
    | ok obs' =>
      rw [hr] at h
      simp only [Except.map, Except.ok.injEq] at h
      subst h
      cases o with
      | meas m gm =>
        obtain ⟨_, _, _, _, _, _, _, _, _, _, hidle⟩ := hm m gm rfl
        rw [idle_no_meas s' evs hidle] at hr
        cases hr
        have hz : ∀ l : List Ev, (l.map fun _ => Obs.unread).filter Obs.isMeas = [] := by
          intro l; induction l with
          | nil => rfl
          | cons _ _ ih => simp [Obs.isMeas]
        rw [List.filter_cons, hz]
        simp [Obs.isMeas]
      | sent b => simpa [Obs.isMeas] using ih s' obs' hi' (fun e' h' => hw e' (by simp [h'])) hr
      | none => simpa [Obs.isMeas] using ih s' obs' hi' (fun e' h' => hw e' (by simp [h'])) hr
      | unread => simpa [Obs.isMeas] using ih s' obs' hi' (fun e' h' => hw e' (by simp [h'])) hr

/-- the ghost history is exactly the datagrams consumed since the request was sent, and request id /
    send timestamp are those of that request -/
theorem collecting_hist (s s' : St) (evs : List Ev) (id : Nat) (ts : Timestamp) (st0 : ReqState) (h0 : List Ev)
    (id' : Nat) (ts' : Timestamp) (st' : ReqState) (h' : List Ev)
    (hp : s.phase = .collecting id ts st0 h0) (hi : s.Inv) (hw : ∀ e ∈ evs, e.WF)
    (h : stateAfter s (evs.map .ev) = .ok s') (hp' : s'.phase = .collecting id' ts' st' h') :
    h' = evs.reverse ++ h0 ∧ id' = id ∧ ts' = ts := by
  induction evs generalizing s st0 h0 with
  | nil =>
    simp [stateAfter] at h; subst h
    rw [hp] at hp'; cases hp'; simp
  | cons e evs ih =>
    have hi0 : st0.WF ∧ J s.domain id h0 st0 := by simpa [St.Inv, hp] using hi
    simp only [List.map_cons] at h
    rcases collectStep_spec s.domain id ts st0 e h0 hi0.1 (hw e (by simp)) hi0.2 with
      ⟨st1, hc, hw1, hj1⟩ | ⟨raw, hc, hrw, _⟩
    · have hs : step s (.ev e) = .ok ({ s with phase := .collecting id ts st1 (e :: h0) }, .none) := by
        simp [step, hp, hc, bind, Except.bind, pure, Except.pure]
      rw [stateAfter_cons _ _ _ _ _ hs] at h
      have := ih { s with phase := .collecting id ts st1 (e :: h0) } st1 (e :: h0) rfl
        (by simp only [St.Inv]; exact ⟨hw1, hj1⟩) (fun e' h'' => hw e' (by simp [h''])) h
      simpa using this
    · -- the request completed: the phase is idle from here on, contradiction with `hp'`
      obtain ⟨r, hf⟩ := finish_ok raw hrw
      have hidle : ∃ s1 o, step s (.ev e) = .ok (s1, o) ∧ s1.phase = .idle := by
        cases r with
        | none => exact ⟨{ s with phase := .idle }, .none,
            by simp [step, hp, hc, hf, bind, Except.bind, pure, Except.pure], rfl⟩
        | some m => exact ⟨{ s with phase := .idle, gm := updateState s.active raw s.gm },
            .meas m (updateState s.active raw s.gm),
            by simp [step, hp, hc, hf, bind, Except.bind, pure, Except.pure], rfl⟩
      obtain ⟨s1, o, hs, hid⟩ := hidle
      rw [stateAfter_cons _ _ _ _ _ hs] at h
      exfalso
      have stay : ∀ (evs : List Ev) (s1 : St), s1.phase = .idle → stateAfter s1 (evs.map .ev) = .ok s' →
          s'.phase = .idle := by
        intro evs
        induction evs with
        | nil => intro s1 h1 h2; simp [stateAfter] at h2; subst h2; exact h1
        | cons e evs ih2 =>
          intro s1 h1 h2
          have hs1 : step s1 (.ev e) = .ok (s1, .unread) := by simp [step, h1, pure, Except.pure]
          simp only [List.map_cons] at h2
          rw [stateAfter_cons _ _ _ _ _ hs1] at h2
          exact ih2 s1 h1 h2
      have := stay evs s1 hid h
      rw [this] at hp'; cases hp'

end NtpVerif.CsptpSource
