/-
Facts about the periodicity wrap of one-way (PPS/sock) sources: `KalmanState::correct_periodicity` and the
measurement-correction closure of `SourceFilter::absorb_measurement` (`Kalman2.wrapVec`, `wrapValue`,
built on the budgeted loop `Kalman2.iterWhile`).

* loop-exit facts for ANY carrier and ANY comparison functions (so they hold for the executable F64 model
  with its arithmetic uninterpreted);
* exact arithmetic over a linearly ordered field: the wrapped innovation lies in [-p/2, p/2], the budget
  `n` suffices whenever the distance to cover is at most `n` periods.
-/
import Mathlib.Tactic.Ring
import Mathlib.Tactic.Linarith
import Mathlib.Algebra.Order.Field.Basic
import NtpVerif.Model.Kalman2

set_option linter.unusedSectionVars false
set_option linter.unusedVariables false

namespace NtpVerif.Kalman2

/-! ### any carrier, any comparison (order-only) -/
section anycarrier
variable {α : Type} [Add α] [Sub α] [Div α] [Neg α] [OfNat α 0] [OfNat α 2]

/-- exit facts of the measurement correction: the lower test of the second loop is false on the result;
    the upper test of the first loop was false on the intermediate value `mid`, and if the second loop did
    not have to move `mid`, the result is `mid` (both tests false on it) -/
theorem wrapValue_exit (gt lt : α → α → Bool) (fuel : Nat) (v pred p v' : α)
    (h : wrapValue gt lt fuel v pred p = some v') :
    lt (v' - pred) (-p / 2) = false ∧
    ∃ mid, gt (mid - pred) (p / 2) = false ∧ (lt (mid - pred) (-p / 2) = false → v' = mid) := by
  unfold wrapValue at h
  obtain ⟨mid, h1, h2⟩ := Option.bind_eq_some_iff.mp h
  have e2 := iterWhile_exit (fun v => lt (v - pred) (-p / 2)) _ _ _ _ h2
  have e1 := iterWhile_exit (fun v => gt (v - pred) (p / 2)) _ _ _ _ h1
  refine ⟨e2, mid, e1, ?_⟩
  intro hl
  rw [iterWhile_skip (fun v => lt (v - pred) (-p / 2)) _ _ _ hl] at h2
  exact (Option.some.inj h2).symm

/-- same for the state vector: `correct_periodicity` -/
theorem wrapVec_exit (gt lt : α → α → Bool) (fuel : Nat) (x x' : Vec2 α) (p : α)
    (h : wrapVec gt lt fuel x p = some x') :
    lt x'.x0 (-p / 2) = false ∧
    ∃ mid : Vec2 α, gt mid.x0 (p / 2) = false ∧ (lt mid.x0 (-p / 2) = false → x' = mid) := by
  unfold wrapVec at h
  obtain ⟨mid, h1, h2⟩ := Option.bind_eq_some_iff.mp h
  have e2 := iterWhile_exit (fun (v : Vec2 α) => lt v.x0 (-p / 2)) _ _ _ _ h2
  have e1 := iterWhile_exit (fun (v : Vec2 α) => gt v.x0 (p / 2)) _ _ _ _ h1
  refine ⟨e2, mid, e1, ?_⟩
  intro hl
  rw [iterWhile_skip (fun (v : Vec2 α) => lt v.x0 (-p / 2)) _ _ _ hl] at h2
  exact (Option.some.inj h2).symm

/-- a state whose offset makes both tests false (e.g. NaN under IEEE comparison) is returned unchanged,
    whatever the budget: the loops terminate at once -/
theorem wrapVec_noop (gt lt : α → α → Bool) (fuel : Nat) (x : Vec2 α) (p : α)
    (h1 : gt x.x0 (p / 2) = false) (h2 : lt x.x0 (-p / 2) = false) :
    wrapVec gt lt fuel x p = some x := by
  unfold wrapVec
  rw [iterWhile_skip (fun (v : Vec2 α) => gt v.x0 (p / 2)) _ _ _ h1]
  simp only [Option.bind_some]
  exact iterWhile_skip (fun (v : Vec2 α) => lt v.x0 (-p / 2)) _ _ _ h2

end anycarrier

/-! ### exact arithmetic -/
section exact
variable {α : Type} [Field α] [LinearOrder α] [IsStrictOrderedRing α]

/-- the comparisons of an ordered field as Boolean functions -/
def fieldGt (a b : α) : Bool := decide (a > b)
def fieldLt (a b : α) : Bool := decide (a < b)

/-- downward loop: result is `≤ c + p/2`, and either unchanged or still `> c - p/2`; it needs at most `n`
    iterations when `x ≤ c + p/2 + n·p` -/
theorem down_loop (c p : α) (hp : 0 < p) (n : Nat) (x : α) (hx : x - c ≤ p / 2 + n * p) :
    ∃ r, iterWhile (fun v => fieldGt (v - c) (p / 2)) (fun v => v - p) n x = some r ∧
      r - c ≤ p / 2 ∧ (r = x ∨ -p / 2 < r - c) ∧ r ≤ x := by
  induction n generalizing x with
  | zero =>
    have : ¬ (x - c > p / 2) := by simp at hx; linarith
    exact ⟨x, by simp [iterWhile, fieldGt, this], by simp at hx; linarith, Or.inl rfl, le_refl _⟩
  | succ n ih =>
    by_cases hc : x - c > p / 2
    · have hx' : (x - p) - c ≤ p / 2 + n * p := by
        push_cast at hx; linarith
      obtain ⟨r, hr, h1, h2, h3⟩ := ih (x - p) hx'
      have hcb : fieldGt (x - c) (p / 2) = true := by simp [fieldGt, hc]
      refine ⟨r, by simp only [iterWhile]; rw [if_pos hcb]; exact hr, h1, Or.inr ?_, by linarith⟩
      rcases h2 with rfl | h2
      · have : -p / 2 = -(p / 2) := by ring
        rw [this]; linarith
      · exact h2
    · exact ⟨x, by simp [iterWhile, fieldGt, hc], by linarith, Or.inl rfl, le_refl _⟩

/-- upward loop, started from a value `≤ c + p/2`: the result is within `[c - p/2, c + p/2]`; it needs at
    most `n` iterations when `x ≥ c - p/2 - n·p` -/
theorem up_loop (c p : α) (hp : 0 < p) (n : Nat) (x : α) (hx : -(p / 2) - n * p ≤ x - c)
    (hub : x - c ≤ p / 2) :
    ∃ r, iterWhile (fun v => fieldLt (v - c) (-p / 2)) (fun v => v + p) n x = some r ∧
      -p / 2 ≤ r - c ∧ r - c ≤ p / 2 := by
  have hneg : -p / 2 = -(p / 2) := by ring
  induction n generalizing x with
  | zero =>
    have : ¬ (x - c < -p / 2) := by rw [hneg]; simp at hx; linarith
    exact ⟨x, by simp [iterWhile, fieldLt, this], by rw [hneg]; simp at hx; linarith, hub⟩
  | succ n ih =>
    by_cases hc : x - c < -p / 2
    · have hx' : -(p / 2) - n * p ≤ (x + p) - c := by push_cast at hx; linarith
      have hub' : (x + p) - c ≤ p / 2 := by rw [hneg] at hc; linarith
      obtain ⟨r, hr, h1, h2⟩ := ih (x + p) hx' hub'
      have hcb : fieldLt (x - c) (-p / 2) = true := by simp [fieldLt, hc]
      exact ⟨r, by simp only [iterWhile]; rw [if_pos hcb]; exact hr, h1, h2⟩
    · exact ⟨x, by simp [iterWhile, fieldLt, hc], by linarith, hub⟩

/-- **fuel sufficiency + range of the wrapped innovation (exact arithmetic)**: for a period `p > 0` and a
    budget of `n` iterations per loop, whenever the measured value is at most `n` periods (plus half a
    period) away from the prediction, the correction returns, and the wrapped innovation `v' - prediction`
    lies in `[-p/2, p/2]`. -/
theorem wrapValue_exact (p : α) (hp : 0 < p) (n : Nat) (v pred : α)
    (hdist : |v - pred| ≤ p / 2 + n * p) :
    ∃ v', wrapValue fieldGt fieldLt n v pred p = some v' ∧ -p / 2 ≤ v' - pred ∧ v' - pred ≤ p / 2 := by
  have hab := abs_le.mp hdist
  obtain ⟨mid, hmid, h1, h2, h3⟩ := down_loop pred p hp n v hab.2
  have hlow : -(p / 2) - n * p ≤ mid - pred := by
    have hneg : -p / 2 = -(p / 2) := by ring
    rcases h2 with rfl | h2
    · linarith [hab.1]
    · rw [hneg] at h2
      have : 0 ≤ (n : α) * p := mul_nonneg (Nat.cast_nonneg n) hp.le
      linarith
  obtain ⟨r, hr, h4, h5⟩ := up_loop pred p hp n mid hlow h1
  exact ⟨r, by simp [wrapValue, hmid, hr], h4, h5⟩

/-- whenever the exact correction returns, the wrapped innovation lies in `[-p/2, p/2]` (`p > 0`) -/
theorem wrapValue_range (p : α) (hp : 0 < p) (n : Nat) (v pred v' : α)
    (h : wrapValue fieldGt fieldLt n v pred p = some v') : -p / 2 ≤ v' - pred ∧ v' - pred ≤ p / 2 := by
  unfold wrapValue at h
  obtain ⟨mid, h1, h2⟩ := Option.bind_eq_some_iff.mp h
  have hneg : -p / 2 = -(p / 2) := by ring
  have e1 := iterWhile_exit (fun v => fieldGt (v - pred) (p / 2)) _ _ _ _ h1
  have e2 := iterWhile_exit (fun v => fieldLt (v - pred) (-p / 2)) _ _ _ _ h2
  simp only [fieldGt, fieldLt, decide_eq_false_iff_not, not_lt, gt_iff_lt] at e1 e2
  refine ⟨e2, ?_⟩
  -- invariant of the second loop: value - pred ≤ p/2
  refine iterWhile_inv (fun v => fieldLt (v - pred) (-p / 2)) _ (fun x => x - pred ≤ p / 2) ?_ n mid v' e1 h2
  intro s hs hc
  simp only [fieldLt, decide_eq_true_eq] at hc
  show s + p - pred ≤ p / 2
  rw [hneg] at hc; linarith

/-- the covariance produced by `absorb_measurement` does not depend on the measured value: the wrap
    changes only the mean -/
theorem absorb_cov_indep (s : KState α) (h0 h1 z z' r : α) :
    (absorbCore s h0 h1 z r).st.P = (absorbCore s h0 h1 z' r).st.P := rfl

end exact
end NtpVerif.Kalman2
