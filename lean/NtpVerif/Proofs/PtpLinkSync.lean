/- C43: the estimator holds a link's delay state exactly while the (tracked) link is active — preserved by
   `LinkFilter::measurement`, the only place where both change. -/
import NtpVerif.Proofs.PtpCtrlInv

set_option linter.unusedSimpArgs false
set_option linter.unusedVariables false

namespace NtpVerif.PtpFilter
open NtpVerif.Estimator NtpVerif.PtpCtrl

def HasLink (s : E) (id : LinkId) : Prop := ∃ el ∈ s.links, el.id = id

theorem hasLink_addLink {s s' : E} (h : WF s) {id : LinkId} {d du dec : F64}
    (hs : addLink s id d du dec = .ok s') (x : LinkId) : HasLink s' x ↔ HasLink s x ∨ x = id := by
  obtain ⟨ha, hb, hl⟩ := addLink_ok_form hs
  obtain ⟨st', unc', heq, _⟩ := addLink_spec h d du dec ha hb hl
  rw [heq] at hs
  cases hs
  unfold HasLink
  simp only [List.mem_append, List.mem_singleton]
  constructor
  · rintro ⟨el, hel | rfl, rfl⟩
    · left; exact ⟨el, hel, rfl⟩
    · right; rfl
  · rintro (⟨el, hel, rfl⟩ | rfl)
    · exact ⟨el, Or.inl hel, rfl⟩
    · exact ⟨_, Or.inr rfl, rfl⟩

theorem hasLink_removeLink {s s' : E} (h : WF s) {id : LinkId}
    (hs : removeLink s id = .ok s') (x : LinkId) : HasLink s' x ↔ HasLink s x ∧ x ≠ id := by
  cases hf : s.links.find? (fun l => l.id == id) with
  | none => rw [removeLink_unknown hf] at hs; cases hs
  | some rem =>
    obtain ⟨st', unc', heq, _⟩ := removeLink_spec h hf
    rw [heq] at hs
    cases hs
    unfold HasLink
    simp only [List.mem_map]
    constructor
    · rintro ⟨el, ⟨l, hl, rfl⟩, rfl⟩
      obtain ⟨h1, h2⟩ := (mem_erase_link h).mp hl
      exact ⟨⟨l, h1, rfl⟩, h2⟩
    · rintro ⟨⟨el, hel, rfl⟩, hne⟩
      exact ⟨shiftL rem.index 1 el, ⟨el, (mem_erase_link h).mpr ⟨hel, hne⟩, rfl⟩, rfl⟩

theorem measurement_links {s s' : E} {link : LinkId} {fwd dl : Bool} {v u : F64}
    (hs : Estimator.measurement s link fwd v u dl = .ok s') : s'.links = s.links := by
  unfold Estimator.measurement at hs
  split at hs
  · cases hs
  · split at hs
    · cases hs
    · split at hs
      · cases hs
      · cases hs; rfl

/-- the estimator holds exactly the delay states of the active tracked links; link ids are unique -/
structure LinkSync (f : Filter) : Prop where
  sync : ∀ l ∈ f.links, l.tracked.isSome = true → (l.active = true ↔ HasLink f.est l.id)
  owned : ∀ id, HasLink f.est id → ∃ l ∈ f.links, l.id = id ∧ l.tracked.isSome = true
  nodup : (f.links.map (·.id)).Nodup

theorem ids_set {xs : List FLink} {i : Nat} {l0 y : FLink} (hi : xs[i]? = some l0) (hy : y.id = l0.id) :
    (xs.set i y).map (·.id) = xs.map (·.id) := by
  rw [List.map_set]
  apply List.ext_getElem?
  intro k
  by_cases hk : k = i
  · subst hk
    rw [List.getElem?_set]
    have hlen : k < xs.length := by
      rcases Nat.lt_or_ge k xs.length with h | h
      · exact h
      · rw [List.getElem?_eq_none (by omega)] at hi; cases hi
    simp only [List.length_map, hlen, if_true, List.getElem?_map, hi, Option.map_some, hy]
  · rw [List.getElem?_set_ne (by omega)]

/-- members of the updated list: the new element, or old elements with another id -/
theorem mem_set_cases {xs : List FLink} {i : Nat} {l0 y : FLink} (hi : xs[i]? = some l0) (hy : y.id = l0.id)
    (hnd : (xs.map (·.id)).Nodup) {z : FLink} (hz : z ∈ xs.set i y) :
    z = y ∨ (z ∈ xs ∧ z.id ≠ l0.id) := by
  have hlen : i < xs.length := by
    rcases Nat.lt_or_ge i xs.length with h | h
    · exact h
    · rw [List.getElem?_eq_none (by omega)] at hi; cases hi
  have hymem : y ∈ xs.set i y := List.mem_set hlen y
  have hnd' : ((xs.set i y).map (·.id)).Nodup := by rw [ids_set hi hy]; exact hnd
  by_cases hzy : z.id = l0.id
  · left
    have hpw : (xs.set i y).Pairwise (fun a b => a.id ≠ b.id) := by
      have := hnd'
      unfold List.Nodup at this
      rwa [List.pairwise_map] at this
    exact eq_of_mem_of_key_eq (fun l : FLink => l.id) _ hpw z hz y hymem (by rw [hzy, hy])
  · right
    rcases List.mem_or_eq_of_mem_set hz with h | h
    · exact ⟨h, hzy⟩
    · exact absurd (by rw [h, hy]) hzy

theorem mem_set_of_other {xs : List FLink} {i : Nat} {l0 y z : FLink} (hi : xs[i]? = some l0)
    (hz : z ∈ xs) (hne : z.id ≠ l0.id) : z ∈ xs.set i y := by
  obtain ⟨k, hk, hkz⟩ := List.getElem_of_mem hz
  have hki : k ≠ i := by
    intro e
    subst e
    rw [List.getElem?_eq_getElem hk] at hi
    simp only [Option.some.injEq] at hi
    rw [hkz] at hi
    exact hne (by rw [hi])
  have : (xs.set i y)[k]? = some z := by
    rw [List.getElem?_set_ne (by omega), List.getElem?_eq_getElem hk, hkz]
  exact List.mem_of_getElem? this

/-- replacing the link at the position of id `l0.id` and adjusting the estimator's link set consistently -/
theorem sync_set {f : Filter} (hs : LinkSync f) {i : Nat} {l0 y : FLink} (hi : f.links[i]? = some l0)
    (hl0 : l0 ∈ f.links) (hyid : y.id = l0.id) (hytr : y.tracked.isSome = l0.tracked.isSome) (est' : E)
    (hself : y.tracked.isSome = true → (y.active = true ↔ HasLink est' l0.id))
    (hown : HasLink est' l0.id → l0.tracked.isSome = true)
    (hother : ∀ x, x ≠ l0.id → (HasLink est' x ↔ HasLink f.est x)) :
    LinkSync { links := f.links.set i y, est := est' } := by
  refine ⟨?_, ?_, ?_⟩
  · intro z hz htr
    rcases mem_set_cases hi hyid hs.nodup hz with rfl | ⟨hzm, hzne⟩
    · rw [hyid]; exact hself htr
    · rw [hother z.id hzne]; exact hs.sync z hzm htr
  · intro x hx
    by_cases hxe : x = l0.id
    · subst hxe
      have hlen : i < f.links.length := by
        rcases Nat.lt_or_ge i f.links.length with h | h
        · exact h
        · rw [List.getElem?_eq_none (by omega)] at hi; cases hi
      exact ⟨y, List.mem_set hlen y, hyid, by rw [hytr]; exact hown hx⟩
    · obtain ⟨l, hl, hlid, hltr⟩ := hs.owned x ((hother x hxe).mp hx)
      exact ⟨l, mem_set_of_other hi hl (by rw [hlid]; exact hxe), hlid, hltr⟩
  · simp only
    rw [ids_set hi hyid]
    exact hs.nodup

/-- **the invariant is preserved by `LinkFilter::measurement`** -/
theorem measurement_keeps_sync {f f' : Filter} {cfg : Cfg} {id : LinkId} {fwd : Bool} {v u : F64}
    (hs : LinkSync f) (hw : WF f.est) (hm : f.measurement cfg id fwd v u = .ok f') : LinkSync f' := by
  unfold Filter.measurement at hm
  split at hm
  · cases hm
  · rename_i i l g hn
    obtain ⟨l0, hl0, hi, hg, hl⟩ := note_spec hn
    have hspec := noteLink_spec f.est l0 fwd v u
    rw [← hl] at hspec
    obtain ⟨hid, hact, htr, _, _⟩ := hspec
    obtain ⟨x0, hx0, hix⟩ := find?_of_findIdx _ _ _ hi
    rw [hl0] at hx0
    cases hx0
    have hl0m := List.mem_of_find?_eq_some hl0
    have hl0id : l0.id = id := by simpa using List.find?_some hl0
    have htr' : l.tracked.isSome = l0.tracked.isSome := by
      cases h1 : l.tracked <;> cases h2 : l0.tracked <;> simp_all
    have hge : g.est = f.est := by rw [hg]; rfl
    have hbase : l0.tracked.isSome = true → (l0.active = true ↔ HasLink f.est l0.id) := hs.sync l0 hl0m
    have hownbase : HasLink f.est l0.id → l0.tracked.isSome = true := by
      intro hh
      obtain ⟨z, hz, hzid, hztr⟩ := hs.owned _ hh
      have hpw : f.links.Pairwise (fun a b => a.id ≠ b.id) := by
        have := hs.nodup
        unfold List.Nodup at this
        rwa [List.pairwise_map] at this
      have := eq_of_mem_of_key_eq (fun l : FLink => l.id) _ hpw z hz l0 hl0m hzid
      rw [← this]; exact hztr
    split at hm
    · -- no estimates: only the bookkeeping
      cases hm
      rw [hg]
      exact sync_set hs hix hl0m hid htr' f.est
        (by intro h1; rw [hact]; exact hbase (by rw [← htr']; exact h1)) hownbase (fun _ _ => Iff.rfl)
    · rename_i delay noise he
      obtain ⟨verd, hv, hm⟩ := bindE hm
      obtain ⟨est1, h1, hm⟩ := bindE hm
      obtain ⟨est2, h2, hm⟩ := bindE hm
      simp only [pure, Except.pure, Except.ok.injEq] at hm
      subst hm
      have hlinks2 : est2.links = est1.links := by
        unfold useMeasurement at h2
        split at h2
        · exact measurement_links (liftE_ok h2)
        · cases h2; rfl
      have h2l : ∀ x, HasLink est2 x ↔ HasLink est1 x := by
        intro x; unfold HasLink; rw [hlinks2]
      have hset : g.links.set i { l with active := verd.flag l.active } =
          f.links.set i { l with active := verd.flag l.active } := by
        rw [hg]; unfold setLink; simp only [List.set_set]
      rw [hset]
      have wg : WF g.est := by rw [hge]; exact hw
      unfold Filter.syncEst at h1
      split at h1
      · -- becomes active: add_link
        rename_i hc
        simp only [Bool.and_eq_true, Bool.not_eq_true'] at hc
        have hadd := hasLink_addLink wg (liftE_ok h1)
        apply sync_set hs hix hl0m (by simp only; exact hid) (by simp only; exact htr') est2
        · intro _
          simp only [hc.2, true_iff]
          rw [h2l, hadd]; right; rw [hid]
        · intro _; rw [← htr']; exact hc.1.1
        · intro x hx
          rw [h2l, hadd, hge]
          constructor
          · rintro (h | h)
            · exact h
            · exact absurd (by rw [h, hid]) hx
          · intro h; left; exact h
      · split at h1
        · -- becomes inactive: remove_link
          rename_i hc
          simp only [Bool.and_eq_true, Bool.not_eq_true'] at hc
          have hrm := hasLink_removeLink wg (liftE_ok h1)
          apply sync_set hs hix hl0m (by simp only; exact hid) (by simp only; exact htr') est2
          · intro _
            simp only [hc.2]
            constructor
            · intro h; cases h
            · intro h
              rw [h2l, hrm] at h
              exact absurd (by rw [hid]) h.2
          · intro h
            rw [h2l, hrm] at h
            exact absurd (by rw [hid]) h.2
          · intro x hx
            rw [h2l, hrm, hge]
            constructor
            · intro h; exact h.1
            · intro h; exact ⟨h, by rw [hid]; exact hx⟩
        · -- unchanged estimator link set
          rename_i hc1 hc2
          cases h1
          apply sync_set hs hix hl0m (by simp only; exact hid) (by simp only; exact htr') est2
          · intro htrk
            simp only at htrk ⊢
            rw [h2l, hge]
            have ht0 : l0.tracked.isSome = true := by rw [← htr']; exact htrk
            have hb := hbase ht0
            rw [← hact] at hb
            -- with tracking on, neither transition happened: the flag is the old one
            have hflag : verd.flag l.active = l.active := by
              cases hla : l.active <;> cases hfa : verd.flag l.active <;> simp_all
            rw [hflag]; exact hb
          · intro h
            rw [h2l, hge] at h
            exact hownbase h
          · intro x _; rw [h2l, hge]

end NtpVerif.PtpFilter
