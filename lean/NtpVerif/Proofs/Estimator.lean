/- Helper lemmas for C42 / C43: matrices as row-major lists, the index bookkeeping of the estimator. -/
import NtpVerif.Model.Estimator

set_option linter.unusedSimpArgs false
set_option linter.unusedVariables false

namespace NtpVerif.Estimator

variable {α : Type}

/-! ### `mapM` in `Option` -/

theorem mapM_some {β γ : Type} (f : β → Option γ) :
    ∀ (l : List β) (d : List γ), l.mapM f = some d →
      d.length = l.length ∧ ∀ i (h : i < l.length), d[i]? = f l[i]
  | [], d, h => by
    simp only [List.mapM_nil] at h
    cases h
    exact ⟨rfl, fun i h => absurd h (Nat.not_lt_zero _)⟩
  | x :: xs, d, h => by
    simp only [List.mapM_cons] at h
    cases hx : f x with
    | none => simp [hx] at h
    | some y =>
      cases hxs : xs.mapM f with
      | none => simp [hx, hxs] at h
      | some ys =>
        simp [hx, hxs] at h
        subst h
        obtain ⟨hl, hg⟩ := mapM_some f xs ys hxs
        refine ⟨by simp [hl], ?_⟩
        intro i hi
        cases i with
        | zero => simp [hx]
        | succ j =>
          simp only [List.length_cons] at hi
          simpa using hg j (by omega)

theorem mapM_exists {β γ : Type} (f : β → Option γ) :
    ∀ (l : List β), (∀ x ∈ l, (f x).isSome) → ∃ d, l.mapM f = some d
  | [], _ => ⟨[], by simp⟩
  | x :: xs, h => by
    obtain ⟨ys, hys⟩ := mapM_exists f xs (fun y hy => h y (List.mem_cons_of_mem _ hy))
    have hx := h x (List.mem_cons_self)
    cases hfx : f x with
    | none => simp [hfx] at hx
    | some y => exact ⟨y :: ys, by simp [List.mapM_cons, hfx, hys]⟩

theorem mapM_eq_map {β γ : Type} (f : β → Option γ) (g : β → γ) :
    ∀ (l : List β), (∀ x ∈ l, f x = some (g x)) → l.mapM f = some (l.map g)
  | [], _ => by simp
  | x :: xs, h => by
    have := mapM_eq_map f g xs (fun y hy => h y (List.mem_cons_of_mem _ hy))
    simp [List.mapM_cons, h x (List.mem_cons_self), this]

/-! ### index arithmetic -/

theorem idx_lt {r c R C : Nat} (hr : r < R) (hc : c < C) : r * C + c < R * C := by
  have h1 : r * C + c < (r + 1) * C := by rw [Nat.add_mul]; omega
  have h2 : (r + 1) * C ≤ R * C := Nat.mul_le_mul_right C hr
  omega

theorem idx_div {r c C : Nat} (hc : c < C) : (r * C + c) / C = r := by
  rw [Nat.mul_comm, Nat.mul_add_div (by omega), Nat.div_eq_of_lt hc]; rfl

theorem idx_mod {r c C : Nat} (hc : c < C) : (r * C + c) % C = c := by
  rw [Nat.mul_comm, Nat.mul_add_mod, Nat.mod_eq_of_lt hc]

/-! ### matrices -/

namespace Mat

/-- storage has exactly `rows * cols` cells -/
def WFm (m : Mat α) : Prop := m.data.length = m.rows * m.cols

theorem newM_some {R C : Nat} {f : Nat → Nat → Option α} {m : Mat α} (h : newM R C f = some m) :
    m.rows = R ∧ m.cols = C ∧ WFm m ∧ ∀ r c, r < R → c < C → m.get r c = f r c := by
  unfold newM at h
  cases hd : (List.range (R * C)).mapM (fun k => f (k / C) (k % C)) with
  | none => simp [hd] at h
  | some d =>
    simp only [hd, Option.map_some, Option.some.injEq] at h
    subst h
    obtain ⟨hl, hg⟩ := mapM_some _ _ d hd
    simp only [List.length_range] at hl hg
    refine ⟨rfl, rfl, by simp [WFm, hl], ?_⟩
    intro r c hr hc
    have hi := idx_lt hr hc
    simp only [get, hr, hc, and_self, if_true]
    rw [hg _ hi]
    simp [idx_div hc, idx_mod hc]

theorem newM_exists {R C : Nat} {f : Nat → Nat → Option α}
    (h : ∀ r c, r < R → c < C → (f r c).isSome) : ∃ m, newM R C f = some m := by
  unfold newM
  obtain ⟨d, hd⟩ := mapM_exists (fun k => f (k / C) (k % C)) (List.range (R * C)) (by
    intro k hk
    simp only [List.mem_range] at hk
    have hC : 0 < C := by
      rcases Nat.eq_zero_or_pos C with h0 | h0
      · subst h0; simp at hk
      · exact h0
    apply h
    · exact (Nat.div_lt_iff_lt_mul hC).mpr hk
    · exact Nat.mod_lt _ hC)
  exact ⟨⟨R, C, d⟩, by simp [hd]⟩

theorem get_isSome {m : Mat α} (h : WFm m) {r c : Nat} (hr : r < m.rows) (hc : c < m.cols) :
    (m.get r c).isSome := by
  have hi := idx_lt hr hc
  simp only [get, hr, hc, and_self, if_true]
  rw [← h] at hi
  simp [hi]

theorem get_none_of_ge {m : Mat α} {r c : Nat} (h : ¬ (r < m.rows ∧ c < m.cols)) : m.get r c = none := by
  simp [get, h]

end Mat

/-! ### lists of clock / link infos -/

theorem find?_eraseP_of_disjoint {β : Type} (p q : β → Bool) (hpq : ∀ x, q x = true → p x = false) :
    ∀ l : List β, (l.eraseP p).find? q = l.find? q
  | [] => rfl
  | x :: xs => by
    by_cases hp : p x = true
    · have hq : q x = false := by
        cases hqx : q x with
        | false => rfl
        | true => have := hpq x hqx; simp [hp] at this
      simp [List.eraseP_cons, hp, List.find?_cons, hq]
    · have hp' : p x = false := by simpa using hp
      simp only [List.eraseP_cons, hp', cond_false, List.find?_cons]
      rw [find?_eraseP_of_disjoint p q hpq xs]

theorem not_p_of_mem_eraseP {β : Type} (p : β → Bool) :
    ∀ l : List β, l.Pairwise (fun a b => ¬ (p a = true ∧ p b = true)) → ∀ x ∈ l.eraseP p, p x = false
  | [], _, x, hx => by simp at hx
  | a :: as, hpw, x, hx => by
    rw [List.pairwise_cons] at hpw
    by_cases hp : p a = true
    · simp only [List.eraseP_cons, hp, cond_true] at hx
      have := hpw.1 x hx
      cases hpx : p x with
      | false => rfl
      | true => exact absurd ⟨hp, hpx⟩ this
    · have hp' : p a = false := by simpa using hp
      simp only [List.eraseP_cons, hp', cond_false, List.mem_cons] at hx
      rcases hx with rfl | hx
      · exact hp'
      · exact not_p_of_mem_eraseP p as hpw.2 x hx

def shiftBase (frm delta b : Nat) : Nat := if b > frm then b - delta else b
def shiftC (frm delta : Nat) (c : ClockInfo α) : ClockInfo α := { c with base := shiftBase frm delta c.base }
def shiftL (frm delta : Nat) (l : LinkInfo α) : LinkInfo α := { l with index := shiftBase frm delta l.index }

theorem updateClockIndices_eq (cs : List (ClockInfo α)) (frm delta : Nat)
    (h : ∀ c ∈ cs, c.base > frm → delta ≤ c.base) :
    updateClockIndices cs frm delta = some (cs.map (shiftC frm delta)) := by
  unfold updateClockIndices
  apply mapM_eq_map
  intro c hc
  have := h c hc
  unfold shiftIndex shiftC shiftBase
  by_cases hgt : c.base > frm
  · have hd := this hgt
    have : ¬ c.base < delta := by omega
    simp [hgt, this]
  · simp [hgt]

theorem updateLinkIndices_eq (ls : List (LinkInfo α)) (frm delta : Nat)
    (h : ∀ l ∈ ls, l.index > frm → delta ≤ l.index) :
    updateLinkIndices ls frm delta = some (ls.map (shiftL frm delta)) := by
  unfold updateLinkIndices
  apply mapM_eq_map
  intro l hl
  have := h l hl
  unfold shiftIndex shiftL shiftBase
  by_cases hgt : l.index > frm
  · have hd := this hgt
    have : ¬ l.index < delta := by omega
    simp [hgt, this]
  · simp [hgt]

/-! ### the layout invariant -/

/-- The blocks `[base, base+2)` of the clocks and `{index}` of the links partition `[0, n)`:
    every block lies inside, blocks of different ids are disjoint, every position is owned. -/
structure LayoutL (n : Nat) (cs : List (ClockInfo α)) (ls : List (LinkInfo α)) : Prop where
  clk_range : ∀ c ∈ cs, c.base + 2 ≤ n
  lnk_range : ∀ l ∈ ls, l.index < n
  clk_clk : ∀ c ∈ cs, ∀ d ∈ cs, c.id ≠ d.id → c.base + 2 ≤ d.base ∨ d.base + 2 ≤ c.base
  lnk_lnk : ∀ l ∈ ls, ∀ m ∈ ls, l.id ≠ m.id → l.index ≠ m.index
  clk_lnk : ∀ c ∈ cs, ∀ l ∈ ls, l.index < c.base ∨ c.base + 2 ≤ l.index
  cover : ∀ k, k < n → (∃ c ∈ cs, c.base ≤ k ∧ k < c.base + 2) ∨ (∃ l ∈ ls, l.index = k)

/-- removing the block `[start, start+len)` and shifting what lies behind it keeps a partition -/
theorem layout_shift {n start len : Nat} {cs cs0 : List (ClockInfo α)} {ls ls0 : List (LinkInfo α)}
    (h : LayoutL n cs0 ls0) (hlen : 1 ≤ len) (hb : start + len ≤ n)
    (hcs : ∀ c ∈ cs, c ∈ cs0) (hls : ∀ l ∈ ls, l ∈ ls0)
    (hcd : ∀ c ∈ cs, c.base + 2 ≤ start ∨ start + len ≤ c.base)
    (hld : ∀ l ∈ ls, l.index < start ∨ start + len ≤ l.index)
    (hcov : ∀ k, k < n → (k < start ∨ start + len ≤ k) →
      (∃ c ∈ cs, c.base ≤ k ∧ k < c.base + 2) ∨ (∃ l ∈ ls, l.index = k)) :
    LayoutL (n - len) (cs.map (shiftC start len)) (ls.map (shiftL start len)) := by
  constructor
  · intro c' hc'
    obtain ⟨c, hc, rfl⟩ := List.mem_map.mp hc'
    have h1 := h.clk_range c (hcs c hc)
    have h2 := hcd c hc
    simp only [shiftC, shiftBase]
    split <;> omega
  · intro l' hl'
    obtain ⟨l, hl, rfl⟩ := List.mem_map.mp hl'
    have h1 := h.lnk_range l (hls l hl)
    have h2 := hld l hl
    simp only [shiftL, shiftBase]
    split <;> omega
  · intro c' hc' d' hd' hne
    obtain ⟨c, hc, rfl⟩ := List.mem_map.mp hc'
    obtain ⟨d, hd, rfl⟩ := List.mem_map.mp hd'
    have h1 := h.clk_clk c (hcs c hc) d (hcs d hd) (by simpa [shiftC] using hne)
    have h2 := hcd c hc
    have h3 := hcd d hd
    simp only [shiftC, shiftBase]
    split <;> split <;> omega
  · intro l' hl' m' hm' hne
    obtain ⟨l, hl, rfl⟩ := List.mem_map.mp hl'
    obtain ⟨m, hm, rfl⟩ := List.mem_map.mp hm'
    have h1 := h.lnk_lnk l (hls l hl) m (hls m hm) (by simpa [shiftL] using hne)
    have h2 := hld l hl
    have h3 := hld m hm
    simp only [shiftL, shiftBase]
    split <;> split <;> omega
  · intro c' hc' l' hl'
    obtain ⟨c, hc, rfl⟩ := List.mem_map.mp hc'
    obtain ⟨l, hl, rfl⟩ := List.mem_map.mp hl'
    have h1 := h.clk_lnk c (hcs c hc) l (hls l hl)
    have h2 := hcd c hc
    have h3 := hld l hl
    simp only [shiftC, shiftL, shiftBase]
    split <;> split <;> omega
  · intro k hk
    by_cases hks : k < start
    · rcases hcov k (by omega) (Or.inl hks) with ⟨c, hc, h1, h2⟩ | ⟨l, hl, h1⟩
      · left
        refine ⟨shiftC start len c, List.mem_map_of_mem hc, ?_⟩
        have := hcd c hc
        simp only [shiftC, shiftBase]
        split <;> omega
      · right
        refine ⟨shiftL start len l, List.mem_map_of_mem hl, ?_⟩
        simp only [shiftL, shiftBase]
        split <;> omega
    · rcases hcov (k + len) (by omega) (Or.inr (by omega)) with ⟨c, hc, h1, h2⟩ | ⟨l, hl, h1⟩
      · left
        refine ⟨shiftC start len c, List.mem_map_of_mem hc, ?_⟩
        have := hcd c hc
        simp only [shiftC, shiftBase]
        split <;> omega
      · right
        refine ⟨shiftL start len l, List.mem_map_of_mem hl, ?_⟩
        simp only [shiftL, shiftBase]
        split <;> omega

theorem eq_of_mem_of_key_eq {β κ : Type} (key : β → κ) :
    ∀ l : List β, l.Pairwise (fun a b => key a ≠ key b) → ∀ a ∈ l, ∀ b ∈ l, key a = key b → a = b
  | [], _, a, ha, _, _, _ => by simp at ha
  | x :: xs, hpw, a, ha, b, hb, hk => by
    rw [List.pairwise_cons] at hpw
    simp only [List.mem_cons] at ha hb
    rcases ha with rfl | ha <;> rcases hb with rfl | hb
    · rfl
    · exact absurd hk (hpw.1 b hb)
    · exact absurd hk.symm (hpw.1 a ha)
    · exact eq_of_mem_of_key_eq key xs hpw.2 a ha b hb hk

/-! ### well-formed estimator states -/

/-- shapes: the state is an `n`-vector, the covariance `n × n`, storages have the right length -/
structure Dims (s : Est α) : Prop where
  vcols : s.state.cols = 1
  vwf : s.state.WFm
  urows : s.unc.rows = s.state.rows
  ucols : s.unc.cols = s.state.rows
  uwf : s.unc.WFm

structure Ids (s : Est α) : Prop where
  clk : s.clocks.Pairwise (fun c d => c.id ≠ d.id)
  lnk : s.links.Pairwise (fun l m => l.id ≠ m.id)
  clk_ext : ∀ c ∈ s.clocks, c.id ∉ s.ext

structure WF (s : Est α) : Prop where
  dims : Dims s
  ids : Ids s
  layout : LayoutL s.state.rows s.clocks s.links

def unshift (start len r : Nat) : Nat := if r < start then r else r + len

theorem splice_spec {s : Est α} (h : Dims s) {start len : Nat} (hb : start + len ≤ s.state.rows) :
    ∃ st' unc', s.state.spliceVec start len = .ok st' ∧ s.unc.spliceSquare start len = .ok unc' ∧
      st'.rows = s.state.rows - len ∧ st'.cols = 1 ∧ st'.WFm ∧
      unc'.rows = s.state.rows - len ∧ unc'.cols = s.state.rows - len ∧ unc'.WFm ∧
      (∀ r, r < s.state.rows - len → st'.get r 0 = s.state.get (unshift start len r) 0) ∧
      (∀ r c, r < s.state.rows - len → c < s.state.rows - len →
        unc'.get r c = s.unc.get (unshift start len r) (unshift start len c)) := by
  have hv : ∃ st', Mat.newM (s.state.rows - len) 1 (fun row _ =>
      if row < start then s.state.get row 0 else s.state.get (row + len) 0) = some st' := by
    apply Mat.newM_exists
    intro r c hr hc
    split
    · exact Mat.get_isSome h.vwf (by omega) (by rw [h.vcols]; omega)
    · exact Mat.get_isSome h.vwf (by omega) (by rw [h.vcols]; omega)
  have hu : ∃ unc', Mat.newM (s.unc.rows - len) (s.unc.cols - len) (fun row col =>
      s.unc.get (if row < start then row else row + len) (if col < start then col else col + len))
        = some unc' := by
    apply Mat.newM_exists
    intro r c hr hc
    rw [h.urows] at hr
    rw [h.ucols] at hc
    apply Mat.get_isSome h.uwf
    · rw [h.urows]; split <;> omega
    · rw [h.ucols]; split <;> omega
  obtain ⟨st', hst⟩ := hv
  obtain ⟨unc', hunc⟩ := hu
  obtain ⟨a1, a2, a3, a4⟩ := Mat.newM_some hst
  obtain ⟨b1, b2, b3, b4⟩ := Mat.newM_some hunc
  refine ⟨st', unc', ?_, ?_, a1, a2, a3, by rw [b1, h.urows], by rw [b2, h.ucols], b3, ?_, ?_⟩
  · have : ¬ (start + len > s.state.rows) := by omega
    simp [Mat.spliceVec, h.vcols, this, hst, orPanic]
  · have e : s.unc.rows = s.unc.cols := by rw [h.urows, h.ucols]
    have hlt : ¬ (start + len > s.unc.rows) := by rw [h.urows]; omega
    unfold Mat.spliceSquare
    rw [if_neg (fun hne => hne e), if_neg hlt, hunc]; rfl
  · intro r hr
    rw [a4 r 0 hr (by omega)]
    unfold unshift
    split <;> rfl
  · intro r c hr hc
    rw [b4 r c (by rw [h.urows]; exact hr) (by rw [h.ucols]; exact hc)]
    rfl

end NtpVerif.Estimator
