/-
Helper lemmas about the NtpSource state-machine model (`NtpVerif.Model.SourceSM`).
-/
import NtpVerif.Model.SourceSM

set_option linter.unusedSimpArgs false

namespace NtpVerif.SourceSM
open NtpVerif.CookieStash

/-! ### processMessage -/

theorem processMessage_pending (s : State) (p : Pkt) (a b : Nat) (bl : Option Bool) :
    (processMessage s p a b bl).1.pending = none := by
  unfold processMessage
  cases s.nts with
  | none => rfl
  | some st =>
    simp only
    split <;> rfl

theorem processMessage_fields (s : State) (p : Pkt) (a b : Nat) (bl : Option Bool) :
    let s' := (processMessage s p a b bl).1
    s'.reach = reachRecv s.reach ∧ s'.tries = s.tries ∧ s'.haveDeny = false ∧ s'.cfg = s.cfg ∧
    s'.nts.isSome = s.nts.isSome ∧ s'.proto = s.proto ∧ s'.lastPoll = s.lastPoll ∧ s'.stratum = p.stratum ∧
    s'.refid = p.refid ∧
    s'.remoteMinPoll = (if p.version = 5 ∧ p.poll > s.remoteMinPoll then p.poll else s.remoteMinPoll) := by
  unfold processMessage
  cases s.nts with
  | none => simp
  | some st =>
    simp only
    split <;> simp

/-- everything `handle_incoming` requires before it hands a packet to `process_message` -/
structure Accepts (s : State) (now : Nat) (p : Pkt) (id : ReqId) (deadline : Nat) : Prop where
  pending : s.pending = some (id, deadline)
  inWindow : now ≤ deadline
  version : s.proto.expects p.version = true
  valid : p.validResponse id s.nts.isSome = true
  notKiss : p.stratum ≠ 0
  stratum : p.stratum ≤ 16
  mode : p.mode = 4

/-- characterisation of the accepting path of `handleIncomingG` -/
theorem accepted_iff_aux (f : Bool) (s : State) (now : Nat) (parsed : Option Pkt) (a b : Nat) (bl : Option Bool)
    (u : Bool) (m : Meas) (k : Nat) (s' : State)
    (h : handleIncomingG f s now parsed a b bl = (s', .accepted u m k)) :
    ∃ p id dl, parsed = some p ∧ Accepts s now p id dl ∧
      (s', InOut.accepted u m k) =
        processMessage { s with proto := protoOnValid s.proto p.isUpgrade } p a b bl := by
  unfold handleIncomingG at h
  cases parsed with
  | none => simp at h
  | some p =>
    simp only at h
    split at h
    · simp at h
    · rename_i hv
      split at h
      · simp at h
      · rename_i id dl hp
        split at h
        · simp at h
        · rename_i hw
          split at h
          · simp at h
          · rename_i hvalid
            split at h
            · simp at h
            · split at h
              · split at h <;> simp at h
              · split at h
                · split at h <;> simp at h
                · split at h
                  · simp at h
                  · split at h
                    · simp at h
                    · rename_i hk
                      split at h
                      · simp at h
                      · rename_i hs
                        split at h
                        · simp at h
                        · rename_i hm
                          refine ⟨p, id, dl, rfl, ⟨hp, by omega, by simpa using hv, by simpa using hvalid, ?_, ?_, ?_⟩, h.symm⟩
                          · intro h0; apply hk; simp [Pkt.isKiss, h0]
                          · simp only [Gen.MAX_STRATUM] at hs; omega
                          · simpa using hm


theorem processMessage_out (s : State) (p : Pkt) (a b : Nat) (bl : Option Bool) :
    (∃ u m k, (processMessage s p a b bl).2 = .accepted u m k) ∨ (processMessage s p a b bl).2 = .panic := by
  unfold processMessage
  cases s.nts with
  | none => left; exact ⟨_, _, _, rfl⟩
  | some st =>
    simp only
    split
    · right; rfl
    · left; exact ⟨_, _, _, rfl⟩

/-- a datagram that is not a matching answer (no parse, unexpected version, nothing pending, too late, or not a
    valid response) is ignored and changes nothing -/
theorem incoming_not_matching (f : Bool) (s : State) (now : Nat) (parsed : Option Pkt) (a b : Nat) (bl : Option Bool)
    (h : ∀ p id dl, parsed = some p → s.pending = some (id, dl) →
      ¬ (now ≤ dl ∧ s.proto.expects p.version = true ∧ p.validResponse id s.nts.isSome = true)) :
    handleIncomingG f s now parsed a b bl = (s, .ignore) := by
  cases parsed with
  | none => rfl
  | some p =>
    by_cases hvn : s.proto.expects p.version = false
    · simp [handleIncomingG, hvn]
    have hv : s.proto.expects p.version = true := by simpa using hvn
    cases hp : s.pending with
    | none => simp [handleIncomingG, hv, hp]
    | some pr =>
      obtain ⟨id, dl⟩ := pr
      by_cases hw : dl < now
      · simp [handleIncomingG, hv, hp, hw]
      by_cases hvalidn : p.validResponse id s.nts.isSome = false
      · simp [handleIncomingG, hv, hp, hw, hvalidn]
      have hvalid : p.validResponse id s.nts.isSome = true := by simpa using hvalidn
      exact absurd ⟨by omega, hv, hvalid⟩ (h p id dl rfl hp)

/-- the arms of `handle_incoming` for a matching answer, as a disjunction of equations -/
theorem incoming_matching_cases (f : Bool) (s : State) (now : Nat) (p : Pkt) (id : ReqId) (dl : Nat) (a b : Nat)
    (bl : Option Bool) (hp : s.pending = some (id, dl)) (hw' : now ≤ dl) (hv : s.proto.expects p.version = true)
    (hvalid : p.validResponse id s.nts.isSome = true) :
      let s1 : State := { s with proto := protoOnValid s.proto p.isUpgrade }
      let r := handleIncomingG f s now (some p) a b bl
      -- NTS-NAK, unknown KISS, excessive stratum, wrong mode: inert
      ((p.isKiss = true ∨ p.stratum > 16 ∨ p.mode ≠ 4) ∧
        ((f && p.isKissNtsn) = true ∨
          ((f && p.isKissNtsn) = false ∧ p.isKissRate s.lastPoll = false ∧ (p.isKissRstr || p.isKissDeny) = false)) ∧
        r = (s1, .ignore)) ∨
      -- RATE
      (p.isKissRate s.lastPoll = true ∧ (f && p.isKissNtsn) = false ∧
        ((pollInc s.remoteMinPoll s.cfg.limits = none ∧ r = (s1, .panic)) ∨
         ∃ rr, pollInc s.remoteMinPoll s.cfg.limits = some rr ∧
           r = ({ s1 with remoteMinPoll := max rr s.lastPoll }, .ignore))) ∨
      -- DENY / RSTR
      ((p.isKissRstr || p.isKissDeny) = true ∧ (f && p.isKissNtsn) = false ∧ p.isKissRate s.lastPoll = false ∧
        ((s.nts.isSome = true ∧ r = (s1, .demobilize)) ∨
         (s.nts.isSome = false ∧ r = ({ s1 with haveDeny := true }, .ignore)))) ∨
      -- accepted for processing
      (p.isKiss = false ∧ p.stratum ≤ 16 ∧ p.mode = 4 ∧ r = processMessage s1 p a b bl) := by
      have hw : ¬ dl < now := by omega
      simp only [handleIncomingG, hv, hp, hw, hvalid, Bool.not_true, Bool.false_eq_true, if_false]
      by_cases h1 : (f && p.isKissNtsn) = true
      · left
        refine ⟨Or.inl ?_, Or.inl h1, by simp [h1]⟩
        simp only [Bool.and_eq_true] at h1
        have := h1.2
        simp only [Pkt.isKissNtsn, Bool.and_eq_true] at this
        exact this.1
      have h1' : (f && p.isKissNtsn) = false := by simpa using h1
      by_cases h2 : p.isKissRate s.lastPoll = true
      · right; left
        refine ⟨h2, h1', ?_⟩
        cases hi : pollInc s.remoteMinPoll s.cfg.limits with
        | none => left; simp [h1', h2, hi]
        | some rr => right; exact ⟨rr, rfl, by simp [h1', h2, hi]⟩
      have h2' : p.isKissRate s.lastPoll = false := by simpa using h2
      by_cases h3 : (p.isKissRstr || p.isKissDeny) = true
      · right; right; left
        refine ⟨h3, h1', h2', ?_⟩
        cases hn : s.nts.isSome with
        | true => left; simp [h1', h2', h3, hn]
        | false => right; simp [h1', h2', h3, hn]
      have h3' : (p.isKissRstr || p.isKissDeny) = false := by simpa using h3
      by_cases h4 : p.isKissNtsn = true
      · left
        refine ⟨Or.inl ?_, Or.inr ⟨h1', h2', h3'⟩, by simp [h1', h2', h3', h4]⟩
        simp only [Pkt.isKissNtsn, Bool.and_eq_true] at h4
        exact h4.1
      have h4' : p.isKissNtsn = false := by simpa using h4
      by_cases h5 : p.isKiss = true
      · left; exact ⟨Or.inl h5, Or.inr ⟨h1', h2', h3'⟩, by simp [h1', h2', h3', h4', h5]⟩
      have h5' : p.isKiss = false := by simpa using h5
      by_cases h6 : p.stratum > 16
      · left; exact ⟨Or.inr (Or.inl h6), Or.inr ⟨h1', h2', h3'⟩, by simp [h1', h2', h3', h4', h5', Gen.MAX_STRATUM, h6]⟩
      by_cases h7 : p.mode = 4
      · right; right; right
        exact ⟨h5', by omega, h7, by simp [h1', h2', h3', h4', h5', Gen.MAX_STRATUM, h6, h7]⟩
      · left; exact ⟨Or.inr (Or.inr h7), Or.inr ⟨h1', h2', h3'⟩, by simp [h1', h2', h3', h4', h5', Gen.MAX_STRATUM, h6, h7]⟩

/-- the arms of `handle_incoming` after the request-matching prefix, as a disjunction of equations -/
theorem incoming_cases (f : Bool) (s : State) (now : Nat) (parsed : Option Pkt) (a b : Nat) (bl : Option Bool) :
    handleIncomingG f s now parsed a b bl = (s, .ignore) ∨
    ∃ p id dl, parsed = some p ∧ s.pending = some (id, dl) ∧ now ≤ dl ∧ s.proto.expects p.version = true ∧
      p.validResponse id s.nts.isSome = true ∧
      let s1 : State := { s with proto := protoOnValid s.proto p.isUpgrade }
      let r := handleIncomingG f s now parsed a b bl
      ((p.isKiss = true ∨ p.stratum > 16 ∨ p.mode ≠ 4) ∧
        ((f && p.isKissNtsn) = true ∨
          ((f && p.isKissNtsn) = false ∧ p.isKissRate s.lastPoll = false ∧ (p.isKissRstr || p.isKissDeny) = false)) ∧
        r = (s1, .ignore)) ∨
      (p.isKissRate s.lastPoll = true ∧ (f && p.isKissNtsn) = false ∧
        ((pollInc s.remoteMinPoll s.cfg.limits = none ∧ r = (s1, .panic)) ∨
         ∃ rr, pollInc s.remoteMinPoll s.cfg.limits = some rr ∧
           r = ({ s1 with remoteMinPoll := max rr s.lastPoll }, .ignore))) ∨
      ((p.isKissRstr || p.isKissDeny) = true ∧ (f && p.isKissNtsn) = false ∧ p.isKissRate s.lastPoll = false ∧
        ((s.nts.isSome = true ∧ r = (s1, .demobilize)) ∨
         (s.nts.isSome = false ∧ r = ({ s1 with haveDeny := true }, .ignore)))) ∨
      (p.isKiss = false ∧ p.stratum ≤ 16 ∧ p.mode = 4 ∧ r = processMessage s1 p a b bl) := by
  by_cases h : ∃ p id dl, parsed = some p ∧ s.pending = some (id, dl) ∧
      (now ≤ dl ∧ s.proto.expects p.version = true ∧ p.validResponse id s.nts.isSome = true)
  · obtain ⟨p, id, dl, rfl, hp, hw, hv, hvalid⟩ := h
    right
    exact ⟨p, id, dl, rfl, hp, hw, hv, hvalid, incoming_matching_cases f s now p id dl a b bl hp hw hv hvalid⟩
  · left
    apply incoming_not_matching
    intro p id dl h1 h2 h3
    exact h ⟨p, id, dl, h1, h2, h3⟩

/-- what `handle_incoming` leaves untouched unless it accepts the packet (or aborts) -/
theorem incoming_frame (f : Bool) (s : State) (now : Nat) (parsed : Option Pkt) (a b : Nat) (bl : Option Bool)
    (r : State × InOut) (hr : handleIncomingG f s now parsed a b bl = r)
    (h : r.2 = .ignore ∨ r.2 = .demobilize) :
    r.1.pending = s.pending ∧ r.1.reach = s.reach ∧ r.1.stratum = s.stratum ∧ r.1.refid = s.refid ∧ r.1.nts = s.nts ∧
    r.1.cfg = s.cfg ∧ r.1.lastPoll = s.lastPoll ∧ r.1.tries = s.tries ∧ r.1.bloom = s.bloom := by
  rcases incoming_cases f s now parsed a b bl with e | ⟨p, id, dl, _, _, _, _, _, hc⟩
  · rw [hr] at e; subst e; simp
  · rw [hr] at hc
    rcases hc with ⟨_, _, e⟩ | ⟨_, _, ⟨_, e⟩ | ⟨rr, _, e⟩⟩ | ⟨_, _, _, ⟨_, e⟩ | ⟨_, e⟩⟩ | ⟨_, _, _, e⟩
    · subst e; simp
    · subst e; simp at h
    · subst e; simp
    · subst e; simp
    · subst e; simp
    · subst e
      rcases processMessage_out { s with proto := protoOnValid s.proto p.isUpgrade } p a b bl with ⟨u, m, k, e'⟩ | e' <;>
        rw [e'] at h <;> simp at h

/-- without a pending request nothing is accepted and nothing changes -/
theorem incoming_no_pending (f : Bool) (s : State) (now : Nat) (parsed : Option Pkt) (a b : Nat) (bl : Option Bool)
    (h : s.pending = none) : handleIncomingG f s now parsed a b bl = (s, .ignore) := by
  unfold handleIncomingG
  cases parsed with
  | none => rfl
  | some p =>
    simp only
    split
    · rfl
    · simp [h]

/-! ### handleTimer -/

theorem plain_fits (b : Bool) : ¬ (requestSize b none > Gen.SOURCE_BUFFER_LEN) := by
  cases b <;> decide

/-- the arms of `handle_timer` as a disjunction of equations -/
theorem timer_cases (s : State) (now : Nat) (d : Int) (o : Nat) (u : List UInt8) (t : Nat) :
    let r := handleTimer s now d o u t
    let pr := timerProto s
    let poll := max d s.remoteMinPoll
    -- unreachable: reset / demobilise, nothing else happens
    ((s.reach = 0 ∧ s.tries ≥ 3) ∧ r = (s, if s.haveDeny then .demobilize else .reset)) ∨
    (¬ (s.reach = 0 ∧ s.tries ≥ 3) ∧
      (-- plain request
       (s.nts = none ∧
          r = (timerSent s none ⟨o, none⟩ now poll,
               .send { version := if plainV5 pr then 5 else 4, poll := poll, upgrade := isUpgrading pr,
                       cookie := none, nCookies := 0, len := requestSize (plainV5 pr) none,
                       usable := (timerSent s none ⟨o, none⟩ now poll).usable, jitterOk := jitterOk poll t })) ∨
       -- NTS: no cookie / cookie too large
       (∃ st st', s.nts = some st ∧ timerCookies st = (st', .reset) ∧
          r = ({ timerBase s with nts := some st' }, .reset)) ∨
       -- NTS: stash index out of bounds
       (∃ st st', s.nts = some st ∧ timerCookies st = (st', .panic) ∧
          r = ({ timerBase s with nts := some st' }, .panic)) ∨
       -- NTS request
       (∃ st st' c n, s.nts = some st ∧ timerCookies st = (st', .send c n) ∧
          ((requestSize (ntsV5 pr) (some (c.length, n)) > Gen.SOURCE_BUFFER_LEN ∧
              r = (timerSent s (some st') ⟨o, some u⟩ now poll, .panic)) ∨
           (requestSize (ntsV5 pr) (some (c.length, n)) ≤ Gen.SOURCE_BUFFER_LEN ∧
              r = (timerSent s (some st') ⟨o, some u⟩ now poll,
                   .send { version := if ntsV5 pr then 5 else 4, poll := poll, upgrade := false,
                           cookie := some c, nCookies := n, len := requestSize (ntsV5 pr) (some (c.length, n)),
                           usable := (timerSent s (some st') ⟨o, some u⟩ now poll).usable,
                           jitterOk := jitterOk poll t })))))) := by
  intro r pr poll
  by_cases h0 : s.reach = 0 ∧ s.tries ≥ 3
  · left; refine ⟨h0, ?_⟩
    simp only [r, handleTimer, Gen.STARTUP_TRIES_THRESHOLD, h0, and_self, if_true]
  · right; refine ⟨h0, ?_⟩
    cases hn : s.nts with
    | none =>
      left; refine ⟨rfl, ?_⟩
      simp only [r, handleTimer, Gen.STARTUP_TRIES_THRESHOLD, h0, if_false, hn, plain_fits]
      rfl
    | some st =>
      right
      rcases htc : timerCookies st with ⟨st', o'⟩
      cases o' with
      | reset =>
        left; refine ⟨st, st', rfl, htc, ?_⟩
        simp only [r, handleTimer, Gen.STARTUP_TRIES_THRESHOLD, h0, if_false, hn, htc]
      | panic =>
        right; left; refine ⟨st, st', rfl, htc, ?_⟩
        simp only [r, handleTimer, Gen.STARTUP_TRIES_THRESHOLD, h0, if_false, hn, htc]
      | send c n =>
        right; right; refine ⟨st, st', c, n, rfl, htc, ?_⟩
        by_cases hl : requestSize (ntsV5 pr) (some (c.length, n)) > Gen.SOURCE_BUFFER_LEN
        · left; refine ⟨hl, ?_⟩
          simp only [r, handleTimer, Gen.STARTUP_TRIES_THRESHOLD, h0, if_false, hn, htc]
          simp only [pr] at hl
          simp only [hl, if_true]
          rfl
        · right; refine ⟨by omega, ?_⟩
          simp only [r, handleTimer, Gen.STARTUP_TRIES_THRESHOLD, h0, if_false, hn, htc]
          simp only [pr] at hl
          simp only [hl, if_false]
          rfl

theorem timer_pending (s : State) (now : Nat) (d : Int) (o : Nat) (u : List UInt8) (t : Nat) :
    (∃ i, (handleTimer s now d o u t).2 = .send i ∧ (handleTimer s now d o u t).1.pending ≠ none) ∨
    ((∀ i, (handleTimer s now d o u t).2 ≠ .send i) ∧
      ((handleTimer s now d o u t).1.pending = s.pending ∨ (handleTimer s now d o u t).2 = .panic)) := by
  rcases timer_cases s now d o u t with ⟨_, e⟩ | ⟨_, ⟨_, e⟩ | ⟨st, st', _, _, e⟩ | ⟨st, st', _, _, e⟩ |
      ⟨st, st', c, n, _, _, ⟨_, e⟩ | ⟨_, e⟩⟩⟩
  · right; rw [e]; refine ⟨?_, Or.inl rfl⟩
    intro i; cases s.haveDeny <;> simp
  · left; rw [e]; exact ⟨_, rfl, by simp [timerSent]⟩
  · right; rw [e]; exact ⟨by simp, Or.inl (by simp [timerBase])⟩
  · right; rw [e]; exact ⟨by simp, Or.inr rfl⟩
  · right; rw [e]; exact ⟨by simp, Or.inr rfl⟩
  · left; rw [e]; exact ⟨_, rfl, by simp [timerSent]⟩

end NtpVerif.SourceSM
