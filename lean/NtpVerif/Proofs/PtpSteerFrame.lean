/- C43: within one `steer_clocks` call the absorptions for different clocks do not interfere: each one
   changes exactly its own clock's entry (frame lemmas on top of the C42 layout invariant). -/
import NtpVerif.Proofs.PtpFilterInv

set_option linter.unusedSimpArgs false
set_option linter.unusedVariables false

namespace NtpVerif.PtpFilter
open NtpVerif.Estimator NtpVerif.PtpCtrl

theorem bumpCell_frame {m m' : Mat F64} {r r' : Nat} {d : F64} (hc : m.cols = 1)
    (h : bumpCell m r d = some m') (hne : r' ≠ r) : m'.get r' 0 = m.get r' 0 := by
  unfold bumpCell at h
  obtain ⟨v, _, h⟩ := obind h
  unfold Mat.set at h
  split at h
  · cases h
    simp only [Mat.get, hc]
    split
    · rw [List.getElem?_set_ne (by omega)]
    · rfl
  · cases h

/-- the two queries of a clock depend only on the clock list, its two state cells and the covariance -/
theorem queries_congr {s s' : E} {id : Nat} (hcl : s'.clocks = s.clocks) (hu : s'.unc = s.unc)
    (hst : ∀ c, getClock s id = .ok c → s'.state.get c.base 0 = s.state.get c.base 0 ∧
      s'.state.get (c.base + 1) 0 = s.state.get (c.base + 1) 0) :
    clockOffset s' id = clockOffset s id ∧ clockFrequency s' id = clockFrequency s id := by
  have hg : getClock s' id = getClock s id := by unfold getClock; rw [hcl]
  unfold clockOffset clockFrequency clockOffsetRaw clockFrequencyRaw
  rw [hg, hu]
  cases hc : getClock s id with
  | error e => exact ⟨rfl, rfl⟩
  | ok c =>
    obtain ⟨h1, h2⟩ := hst c hc
    simp only [bind, Except.bind, ClockInfo.offsetIndex, ClockInfo.frequencyIndex, h1, h2, and_self]

/-- replacing the state vector by one that differs only in one cell of ANOTHER clock's block -/
theorem frame_of_bump {s : E} (h : WF s) {id id' : Nat} (hne : id ≠ id') {c' : ClockInfo F64}
    (hc' : getClock s id' = .ok c') {k : Nat} (hk : k = c'.base ∨ k = c'.base + 1) {d : F64} {st : Mat F64}
    (hb : bumpCell s.state k d = some st) (t : Nat) :
    clockOffset ({ s with state := st, time := t } : E) id = clockOffset s id ∧
    clockFrequency ({ s with state := st, time := t } : E) id = clockFrequency s id := by
  apply queries_congr (s := s) (s' := { s with state := st, time := t }) rfl rfl
  intro c hc
  obtain ⟨hm, hid⟩ := getClock_mem hc
  obtain ⟨hm', hid'⟩ := getClock_mem hc'
  have hdis := h.layout.clk_clk c hm c' hm' (by rw [hid, hid']; exact hne)
  exact ⟨bumpCell_frame h.dims.vcols hb (by omega), bumpCell_frame h.dims.vcols hb (by omega)⟩

theorem absorbFrequency_frame {f f' : Filter} (h : WF f.est) {id id' : Nat} (hne : id ≠ id') {d : F64}
    (ha : f.absorbFrequency id' d = .ok f') :
    WF f'.est ∧ clockOffset f'.est id = clockOffset f.est id ∧
      clockFrequency f'.est id = clockFrequency f.est id := by
  unfold Filter.absorbFrequency at ha
  obtain ⟨est, he, ha⟩ := bindE ha
  cases ha
  have he := liftE_ok he
  refine ⟨absorbFrequencySteer_wf h he, ?_⟩
  unfold absorbFrequencySteer at he
  obtain ⟨c', hc', he⟩ := bindE he
  obtain ⟨st, hst, he⟩ := bindE he
  cases he
  cases hb : bumpCell f.est.state c'.frequencyIndex d with
  | none => rw [hb] at hst; cases hst
  | some m' =>
    rw [hb] at hst; cases hst
    exact frame_of_bump h hne hc' (Or.inr rfl) hb f.est.time

theorem absorbOffset_frame {f f' : Filter} (h : WF f.est) {id id' : Nat} (hne : id ≠ id') {d : F64}
    (ha : f.absorbOffset id' d = .ok f') :
    WF f'.est ∧ clockOffset f'.est id = clockOffset f.est id ∧
      clockFrequency f'.est id = clockFrequency f.est id := by
  unfold Filter.absorbOffset at ha
  obtain ⟨est, he, ha⟩ := bindE ha
  cases ha
  have he := liftE_ok he
  refine ⟨absorbOffsetChange_wf h he, ?_⟩
  unfold absorbOffsetChange at he
  obtain ⟨c', hc', he⟩ := bindE he
  obtain ⟨st, hst, he⟩ := bindE he
  cases he
  cases hb : bumpCell f.est.state c'.offsetIndex d with
  | none => rw [hb] at hst; cases hst
  | some m' =>
    rw [hb] at hst; cases hst
    exact frame_of_bump h hne hc' (Or.inl rfl) hb f.est.time

theorem absorbSystem_frame {f f' : Filter} (h : WF f.est) {id id' : Nat} (hne : id ≠ id') {d : Int}
    (ha : f.absorbSystem id' d = .ok f') :
    WF f'.est ∧ clockOffset f'.est id = clockOffset f.est id ∧
      clockFrequency f'.est id = clockFrequency f.est id := by
  unfold Filter.absorbSystem at ha
  obtain ⟨est, he, ha⟩ := bindE ha
  cases ha
  have he := liftE_ok he
  refine ⟨absorbSystemClockOffsetChange_wf h he, ?_⟩
  unfold absorbSystemClockOffsetChange at he
  obtain ⟨c', hc', he⟩ := bindE he
  obtain ⟨st, hst, he⟩ := bindE he
  cases he
  cases hb : bumpCell f.est.state c'.offsetIndex (Num.ofDur d) with
  | none => rw [hb] at hst; cases hst
  | some m' =>
    rw [hb] at hst; cases hst
    exact frame_of_bump h hne hc' (Or.inl rfl) hb (tsAdd f.est.time d)

/-- one loop iteration for clock `id'` leaves every other clock's estimate alone -/
theorem steerClock_frame (read : Filter) (leap : Option Leap) (rd : Int) (acc : SteerAcc)
    (index id' : Nat) (m : Mock) (h : WF acc.filter.est) {id : Nat} (hne : id ≠ id') :
    WF (steerClock read leap rd acc index id' m).filter.est ∧
    clockOffset (steerClock read leap rd acc index id' m).filter.est id = clockOffset acc.filter.est id ∧
    clockFrequency (steerClock read leap rd acc index id' m).filter.est id =
      clockFrequency acc.filter.est id := by
  unfold steerClock
  cases herr : acc.err with
  | some e => exact ⟨h, rfl, rfl⟩
  | none =>
    simp only
    cases hoff : liftE (clockOffset read.est id') with
    | error e => exact ⟨h, rfl, rfl⟩
    | ok ou =>
      obtain ⟨offset, unc⟩ := ou
      simp only
      cases hfr : (if wantsFreq offset unc = true then
          Except.map (fun x => x.fst) (liftE (clockFrequency read.est id')) else Except.ok F64.zero) with
      | error e => exact ⟨h, rfl, rfl⟩
      | ok freq =>
        simp only
        cases hact : steerOne (index == 0) offset unc freq m.freq m.max with
        | panic => exact ⟨h, rfl, rfl⟩
        | setFreq actual change =>
          simp only
          cases habs : acc.filter.absorbFrequency id' change with
          | error e => exact ⟨h, rfl, rfl⟩
          | ok filter => exact absorbFrequency_frame h hne habs
        | step dur absorbed =>
          simp only
          cases habs : (if (index == 0) = true then acc.filter.absorbSystem id' dur
              else acc.filter.absorbOffset id' offset.neg) with
          | error e => exact ⟨h, rfl, rfl⟩
          | ok filter =>
            simp only
            by_cases h0 : (index == 0) = true
            · rw [if_pos h0] at habs; exact absorbSystem_frame h hne habs
            · rw [if_neg h0] at habs; exact absorbOffset_frame h hne habs

theorem steerClock_wf (read : Filter) (leap : Option Leap) (rd : Int) (acc : SteerAcc)
    (index id' : Nat) (m : Mock) (h : WF acc.filter.est) :
    WF (steerClock read leap rd acc index id' m).filter.est :=
  (steerClock_frame read leap rd acc index id' m h (id := id' + 1) (by omega)).1

/-- the iterations for a list of clocks not containing `id` leave `id`'s estimate alone -/
theorem steerLoop_frame (read : Filter) (leap : Option Leap) (rd : Int) {id : Nat} :
    ∀ (cs : List (Nat × Mock)) (acc : SteerAcc) (i : Nat), WF acc.filter.est →
      (∀ x ∈ cs, x.1 ≠ id) →
      WF (steerLoop read leap rd acc i cs).filter.est ∧
      clockOffset (steerLoop read leap rd acc i cs).filter.est id = clockOffset acc.filter.est id ∧
      clockFrequency (steerLoop read leap rd acc i cs).filter.est id = clockFrequency acc.filter.est id
  | [], acc, i, h, _ => by simpa [steerLoop] using h
  | (id', m) :: rest, acc, i, h, hn => by
    simp only [steerLoop]
    have hne : id ≠ id' := fun e => hn (id', m) List.mem_cons_self e.symm
    obtain ⟨w1, o1, f1⟩ := steerClock_frame read leap rd acc i id' m h hne
    obtain ⟨w2, o2, f2⟩ := steerLoop_frame read leap rd rest _ (i + 1) w1
      (fun x hx => hn x (List.mem_cons_of_mem _ hx))
    exact ⟨w2, o2.trans o1, f2.trans f1⟩

theorem steerLoop_split (read : Filter) (leap : Option Leap) (rd : Int) :
    ∀ (pre : List (Nat × Mock)) (x : Nat × Mock) (post : List (Nat × Mock)) (acc : SteerAcc) (i : Nat),
      steerLoop read leap rd acc i (pre ++ x :: post) =
        steerLoop read leap rd
          (steerClock read leap rd (steerLoop read leap rd acc i pre) (i + pre.length) x.1 x.2)
          (i + pre.length + 1) post
  | [], x, post, acc, i => by simp [steerLoop]
  | (id', m) :: pre, x, post, acc, i => by
    simp only [List.cons_append, steerLoop, List.length_cons]
    rw [steerLoop_split read leap rd pre x post _ (i + 1)]
    have e1 : i + 1 + pre.length = i + (pre.length + 1) := by omega
    rw [e1]

end NtpVerif.PtpFilter
