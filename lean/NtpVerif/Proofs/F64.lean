/- Order laws of the bit-level IEEE comparison (`F64.lt`, `le`, `min`, `max`, `clamp`). -/
import NtpVerif.Basic.F64

namespace NtpVerif.F64

theorem lt_irrefl (a : F64) : lt a a = false := by simp [lt]

theorem lt_trans {a b c : F64} (h1 : lt a b = true) (h2 : lt b c = true) : lt a c = true := by
  simp only [lt, Bool.and_eq_true, Bool.not_eq_true', decide_eq_true_eq] at *
  exact ⟨⟨h1.1.1, h2.1.2⟩, by omega⟩

theorem le_trans {a b c : F64} (h1 : le a b = true) (h2 : le b c = true) : le a c = true := by
  simp only [le, Bool.and_eq_true, Bool.not_eq_true', decide_eq_true_eq] at *
  exact ⟨⟨h1.1.1, h2.1.2⟩, by omega⟩

theorem le_of_lt {a b : F64} (h : lt a b = true) : le a b = true := by
  simp only [lt, le, Bool.and_eq_true, Bool.not_eq_true', decide_eq_true_eq] at *
  exact ⟨h.1, by omega⟩

theorem le_refl_of_not_nan {a : F64} (h : a.isNaN = false) : le a a = true := by
  simp [le, h]

theorem not_lt_iff_le {a b : F64} (ha : a.isNaN = false) (hb : b.isNaN = false) :
    lt a b = false ↔ le b a = true := by
  simp only [lt, le, ha, hb, Bool.not_false, Bool.true_and, decide_eq_false_iff_not, decide_eq_true_eq]
  omega

theorem le_total {a b : F64} (ha : a.isNaN = false) (hb : b.isNaN = false) :
    le a b = true ∨ le b a = true := by
  simp only [le, ha, hb, Bool.not_false, Bool.true_and, decide_eq_true_eq]; omega

/-- a clamped non-NaN value lies within the bounds -/
theorem clamp_within {x lo hi r : F64} (hx : x.isNaN = false) (h : clamp x lo hi = some r) :
    le lo r = true ∧ le r hi = true := by
  unfold clamp at h
  split at h
  · cases h
  · rename_i hle'
    have hle : le lo hi = true := by
      cases hc : le lo hi
      · simp [hc] at hle'
      · rfl
    have hlo : lo.isNaN = false := by
      simp only [le, Bool.and_eq_true, Bool.not_eq_true'] at hle; exact hle.1.1
    have hhi : hi.isNaN = false := by
      simp only [le, Bool.and_eq_true, Bool.not_eq_true'] at hle; exact hle.1.2
    simp only [Option.some.injEq] at h
    split at h
    · subst h; exact ⟨le_refl_of_not_nan hlo, hle⟩
    · split at h
      · subst h; exact ⟨hle, le_refl_of_not_nan hhi⟩
      · subst h
        rename_i h1 h2
        simp only [Bool.not_eq_true] at h1 h2
        exact ⟨(not_lt_iff_le hx hlo).mp h1, (not_lt_iff_le hhi hx).mp h2⟩

/-- `clamp` of NaN is NaN (it is passed through) when it does not panic -/
theorem clamp_nan {x lo hi r : F64} (hx : x.isNaN = true) (h : clamp x lo hi = some r) : r = x := by
  unfold clamp at h
  split at h
  · cases h
  · simp only [Option.some.injEq] at h
    have h1 : lt x lo = false := by simp [lt, hx]
    have h2 : lt hi x = false := by simp [lt, hx]
    simp only [h1, h2, Bool.false_eq_true, if_false] at h
    exact h.symm

theorem min_le_left {a b : F64} (ha : a.isNaN = false) (hb : b.isNaN = false) :
    le (min a b) a = true := by
  unfold min; simp only [ha, hb, Bool.false_eq_true, if_false]
  split
  · rename_i h; exact le_of_lt h
  · exact le_refl_of_not_nan ha

theorem min_le_right {a b : F64} (ha : a.isNaN = false) (hb : b.isNaN = false) :
    le (min a b) b = true := by
  unfold min; simp only [ha, hb, Bool.false_eq_true, if_false]
  split
  · exact le_refl_of_not_nan hb
  · rename_i h; simp only [Bool.not_eq_true] at h; exact (not_lt_iff_le hb ha).mp h

theorem max_ge_left {a b : F64} (ha : a.isNaN = false) (hb : b.isNaN = false) :
    le a (max a b) = true := by
  unfold max; simp only [ha, hb, Bool.false_eq_true, if_false]
  split
  · rename_i h; exact le_of_lt h
  · exact le_refl_of_not_nan ha

theorem max_ge_right {a b : F64} (ha : a.isNaN = false) (hb : b.isNaN = false) :
    le b (max a b) = true := by
  unfold max; simp only [ha, hb, Bool.false_eq_true, if_false]
  split
  · exact le_refl_of_not_nan hb
  · rename_i h; simp only [Bool.not_eq_true] at h; exact (not_lt_iff_le ha hb).mp h

theorem min_not_nan {a b : F64} (ha : a.isNaN = false) (hb : b.isNaN = false) : (min a b).isNaN = false := by
  unfold min; simp only [ha, hb, Bool.false_eq_true, if_false]; split <;> assumption

theorem max_not_nan {a b : F64} (ha : a.isNaN = false) (hb : b.isNaN = false) : (max a b).isNaN = false := by
  unfold max; simp only [ha, hb, Bool.false_eq_true, if_false]; split <;> assumption

theorem totalLe_trans {a b c : F64} (h1 : totalLe a b = true) (h2 : totalLe b c = true) :
    totalLe a c = true := by
  simp only [totalLe, decide_eq_true_eq] at *; omega

theorem totalLe_total (a b : F64) : totalLe a b = true ∨ totalLe b a = true := by
  simp only [totalLe, decide_eq_true_eq]; omega

end NtpVerif.F64
