/-
Helper lemmas for C24, third part: decoding a header or MAC and encoding it again reproduces the bytes.
-/
import NtpVerif.Proofs.WireRT2

namespace NtpVerif.Wire

theorem leap_bits {n : Nat} {l : Leap} (h : Leap.fromBits n = .ok l) : l.toBits = n ∧ l ≠ .unknown := by
  unfold Leap.fromBits at h
  split at h <;> first | (cases h; exact ⟨rfl, by simp⟩) | cases h

theorem take_take_drop (l : Bytes) (a n m : Nat) :
    (l.drop a).take n ++ (l.drop (a + n)).take m = (l.drop a).take (n + m) := by
  rw [List.take_add, List.drop_drop]

theorem durShort_roundtrip {bs : Bytes} (h : bs.length = 4) : durToShort (durFromShort bs) = .ok bs := by
  have hlt := beNat_lt bs
  rw [h] at hlt
  have h4 : (256 : Nat) ^ 4 = 4294967296 := by decide
  rw [h4] at hlt
  unfold durToShort durFromShort
  have h1 : ¬ ((beNat bs : Int) * 65536 < 0) := by omega
  have h2 : ¬ ((beNat bs : Int) * 65536 > 0x0000FFFFFFFFFFFF) := by omega
  simp only [h1, h2, if_false]
  have e : ((beNat bs : Int) * 65536).toNat / 65536 % 4294967296 = beNat bs := by
    have : ((beNat bs : Int) * 65536).toNat = beNat bs * 65536 := by omega
    rw [this, Nat.mul_div_cancel _ (by decide), Nat.mod_eq_of_lt hlt]
  rw [e, toBE_beNat' h]

/-- `NtpHeaderV3V4`: decoding 48 bytes and encoding the result under the same version number gives the bytes back -/
theorem headerV34_reencode {data : Bytes} {h : HeaderV34} {hs : Nat}
    (e : HeaderV34.deserialize data = .ok (h, hs)) :
    ∃ b0 t, data = b0 :: t ∧ h.serialize (b0.toNat / 8 % 8) = .ok (data.take 48) := by
  unfold HeaderV34.deserialize at e
  have hc : Gen.HEADER_V3V4_WIRE_LENGTH = 48 := rfl
  rw [hc] at e
  split at e
  · cases e
  rename_i hl
  rcases data with _ | ⟨b0, _ | ⟨b1, _ | ⟨b2, _ | ⟨b3, t⟩⟩⟩⟩
  · simp at hl
  · simp at hl
  · simp at hl
  · simp at hl
  simp only [List.length_cons] at hl
  have ht : 44 ≤ t.length := by omega
  refine ⟨b0, _, rfl, ?_⟩
  have s1 : sliceP (b0 :: b1 :: b2 :: b3 :: t) 4 8 = .ok ((t.drop 0).take 4) := by
    rw [sliceP_of_le (by omega) (by simp; omega)]; rfl
  have s2 : sliceP (b0 :: b1 :: b2 :: b3 :: t) 8 12 = .ok ((t.drop 4).take 4) := by
    rw [sliceP_of_le (by omega) (by simp; omega)]; rfl
  have s3 : sliceP (b0 :: b1 :: b2 :: b3 :: t) 12 16 = .ok ((t.drop 8).take 4) := by
    rw [sliceP_of_le (by omega) (by simp; omega)]; rfl
  have s4 : sliceP (b0 :: b1 :: b2 :: b3 :: t) 16 24 = .ok ((t.drop 12).take 8) := by
    rw [sliceP_of_le (by omega) (by simp; omega)]; rfl
  have s5 : sliceP (b0 :: b1 :: b2 :: b3 :: t) 24 32 = .ok ((t.drop 20).take 8) := by
    rw [sliceP_of_le (by omega) (by simp; omega)]; rfl
  have s6 : sliceP (b0 :: b1 :: b2 :: b3 :: t) 32 40 = .ok ((t.drop 28).take 8) := by
    rw [sliceP_of_le (by omega) (by simp; omega)]; rfl
  have s7 : sliceP (b0 :: b1 :: b2 :: b3 :: t) 40 48 = .ok ((t.drop 36).take 8) := by
    rw [sliceP_of_le (by omega) (by simp; omega)]; rfl
  simp only [idxP, List.getElem?_cons_zero, List.getElem?_cons_succ, s1, s2, s3, s4, s5, s6, s7,
    bind, Except.bind, pure, Except.pure] at e
  split at e
  · cases e
  rename_i leap hleap
  unfold modeFromBits at e
  have hm : b0.toNat % 8 < 8 := by omega
  simp only [hm, if_true] at e
  cases e
  obtain ⟨hlb, _⟩ := leap_bits hleap
  have l4 : ∀ a, a + 4 ≤ t.length → ((t.drop a).take 4).length = 4 := by
    intro a ha; simp [List.length_take, List.length_drop]; omega
  have l8 : ∀ a, a + 8 ≤ t.length → ((t.drop a).take 8).length = 8 := by
    intro a ha; simp [List.length_take, List.length_drop]; omega
  unfold HeaderV34.serialize
  simp only [durShort_roundtrip (l4 0 (by omega)), durShort_roundtrip (l4 4 (by omega)),
    toBE_beNat' (l4 8 (by omega)), toBE_beNat' (l8 12 (by omega)), toBE_beNat' (l8 20 (by omega)),
    toBE_beNat' (l8 28 (by omega)), toBE_beNat' (l8 36 (by omega)), bind, Except.bind, pure, Except.pure, hlb]
  have hb0 : UInt8.ofNat (b0.toNat / 64 * 64 + b0.toNat / 8 % 8 * 8 + b0.toNat % 8) = b0 := by
    have : b0.toNat / 64 * 64 + b0.toNat / 8 % 8 * 8 + b0.toNat % 8 = b0.toNat := by
      have := b0.toNat_lt; omega
    rw [this]; simp
  have htake : List.take 48 (b0 :: b1 :: b2 :: b3 :: t) = b0 :: b1 :: b2 :: b3 :: (t.drop 0).take 44 := by
    simp [List.take_succ_cons]
  rw [htake, hb0]
  have e44 : (t.drop 0).take 44 = (t.drop 0).take 4 ++ (t.drop 4).take 4 ++ (t.drop 8).take 4 ++
      (t.drop 12).take 8 ++ (t.drop 20).take 8 ++ (t.drop 28).take 8 ++ (t.drop 36).take 8 := by
    rw [take_take_drop t 0 4 4, take_take_drop t 0 8 4, take_take_drop t 0 12 8, take_take_drop t 0 20 8,
      take_take_drop t 0 28 8, take_take_drop t 0 36 8]
  rw [e44]
  simp [List.append_assoc]

/-- a decoded MAC encodes to the bytes it was decoded from -/
theorem mac_reencode {data : Bytes} {m : Mac} (h : Mac.deserialize data = .ok m) : m.serialize = data := by
  unfold Mac.deserialize at h
  split at h
  · cases h
  rename_i hl
  have h4 : 4 ≤ data.length := by omega
  rw [sliceP_of_le (Nat.zero_le _) h4, sliceP_of_le h4 (Nat.le_refl _)] at h
  simp only [bind, Except.bind, pure, Except.pure] at h
  cases h
  unfold Mac.serialize
  simp only [List.drop_zero, Nat.sub_zero]
  rw [toBE_beNat' (by simp [List.length_take]; omega)]
  have : (data.drop 4).take (data.length - 4) = data.drop 4 := by
    apply List.take_of_length_le; simp
  rw [this, List.take_append_drop]

end NtpVerif.Wire
