/-
Facts about the packet parser (`NtpVerif.Model.Packet`, the wire cluster's model of `NtpPacket::deserialize`)
that the server handler relies on, and the abstraction `reqOf` from a parse result to the server model's `Req`:

  * an NTPv3 packet never carries NTS content: no cookie, never `DecryptError`;
  * an accepted NTPv5 packet (parsed, or failing authentication only) is a whole number of 32-bit words long.

With these, `C22.never_panics` holds for `reqOf (parse …)` under `InfoOk` alone.
-/
import NtpVerif.Proofs.Wire
import NtpVerif.Proofs.WireRT
import NtpVerif.Props.C23
import NtpVerif.Proofs.Server

namespace NtpVerif.ServerParse
open NtpVerif.Wire

/-- With cut-off 0 (NTPv5) a stream without error item consumes the whole buffer in whole words. -/
theorem efLoop_stream_v5 (dec : Dec) (ctx : Ctx) (data : Bytes) (hs minSize : Nat) :
    ∀ (fuel : Nat) (rem : Bytes) (off : Nat) (st st' : EFState), rem.length < fuel →
      efLoop dec ctx data hs .v5 (streamAux .v5 0 minSize fuel rem off) st = .ok st' → rem.length % 4 = 0 := by
  intro fuel
  induction fuel with
  | zero => intro rem off st st' h; omega
  | succ n ih =>
    intro rem off st st' hf h
    unfold streamAux at h
    split at h
    · rename_i hle
      have : rem.length = 0 := by omega
      omega
    · split at h
      · simp [efLoop, perr] at h
      · rename_i ty msg hraw
        obtain ⟨_, h2, h3⟩ := rawDeserialize_ok hraw
        rw [wireLength_of h3] at h
        simp only [efLoop] at h
        split at h
        · cases h
        · rename_i st1 _
          have hm := nm4_mod (4 + msg.length)
          have hge := nm4_ge (4 + msg.length)
          have hlen : (rem.drop (nm4 (4 + msg.length))).length = rem.length - nm4 (4 + msg.length) := by simp
          have := ih (rem.drop (nm4 (4 + msg.length))) (off + nm4 (4 + msg.length)) st1 st' (by omega) h
          omega

theorem efDeserialize_v5_len {dec : Dec} {ctx : Ctx} {data : Bytes} {hs : Nat} {r : EFResult}
    (h : efDeserialize dec ctx data hs .v5 = .ok r) : hs ≤ data.length ∧ (data.length - hs) % 4 = 0 := by
  unfold efDeserialize at h
  split at h
  · cases h
  · rename_i body hb
    have hlen := sliceP_length hb
    have hle : hs ≤ data.length := by
      unfold sliceP at hb
      split at hb
      · rename_i s hs'
        exact (slice?_some hs').1
      · cases hb
    split at h
    · cases h
    · rename_i st hst
      have : macCutoff .v5 = 0 := rfl
      rw [this] at hst
      unfold stream at hst
      have := efLoop_stream_v5 dec ctx data hs _ (body.length + 1) body 0 .init st (by omega) hst
      exact ⟨hle, by omega⟩

/-- the version-dependent facts about a successful `parseR` -/
theorem parseR_facts {dec : Dec} {ctx : Ctx} {data : Bytes} {p : Packet} {c : Option Cookie} {valid : Bool}
    (h : parseR dec ctx data = .ok (p, c, valid)) :
    match p.header with
    | .v3 _ => c = none ∧ valid = true
    | .v4 _ => True
    | .v5 _ => data.length % 4 = 0 ∧ (valid = true → draftIdOf p.ef = some draftVersion) := by
  generalize hL : data.length = L
  unfold parseR at h
  split at h
  · cases h
  · simp only at h
    split at h
    · -- v3
      simp only [bind, Except.bind, pure, Except.pure] at h
      split at h
      · cases h
      · rename_i x hx
        obtain ⟨hd, hs⟩ := x
        simp only at h
        split at h
        · split at h
          · cases h
          · split at h
            · cases h
            · cases h; exact ⟨rfl, rfl⟩
        · cases h; exact ⟨rfl, rfl⟩
    · split at h
      · -- v4
        simp only [bind, Except.bind, pure, Except.pure] at h
        split at h
        · cases h
        · rename_i x hx
          obtain ⟨hd, hs⟩ := x
          simp only at h
          unfold parseEF at h
          simp only [bind, Except.bind, pure, Except.pure] at h
          split at h
          · cases h
          · split at h
            · cases h
            · rename_i p' hp'
              simp only [Except.ok.injEq, Prod.mk.injEq] at h
              obtain ⟨hp, _, _⟩ := h
              subst hp
              rw [(constructPacket_fields hp').1]
              trivial
      · split at h
        · -- v5
          simp only [bind, Except.bind] at h
          split at h
          · cases h
          · rename_i x hx
            obtain ⟨hd, hs⟩ := x
            obtain ⟨hs48, _⟩ := headerV5_size hx
            simp only at h
            split at h
            · cases h
            · rename_i y hy
              obtain ⟨p', c', v'⟩ := y
              simp only at h
              have key : (∃ hh, p'.header = .v5 hh) ∧ L % 4 = 0 := by
                unfold parseEF at hy
                simp only [bind, Except.bind, pure, Except.pure] at hy
                split at hy
                · cases hy
                · rename_i r hr
                  split at hy
                  · cases hy
                  · rename_i p'' hp''
                    simp only [Except.ok.injEq, Prod.mk.injEq] at hy
                    obtain ⟨hp, _, _⟩ := hy
                    subst hp
                    obtain ⟨h1, h2⟩ := efDeserialize_v5_len hr
                    exact ⟨⟨_, (constructPacket_fields hp'').1⟩, by omega⟩
              obtain ⟨⟨hh, hhdr⟩, hlen⟩ := key
              split at h
              · rename_i hnv
                cases h
                rw [hhdr]
                exact ⟨hlen, fun hv => absurd hv hnv⟩
              · split at h
                · rename_i hdr
                  cases h
                  rw [hhdr]
                  exact ⟨hlen, fun _ => hdr⟩
                · cases h
        · cases h

end NtpVerif.ServerParse
