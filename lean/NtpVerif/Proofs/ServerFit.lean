/-
Size accounting between a request and its answer (C17): every field of an answer is charged to a distinct field
of the request that is at least as long, provided re-encoding does not lengthen an echoed field, the request
nonce is at least as long as the answer's, and (NTPv5) the request carries the draft identification.
-/
import NtpVerif.Proofs.ServerSize

namespace NtpVerif.Server
open NtpVerif.RespSize

/-- octets a field occupies in the request (header + body, padded to a word); the undecryptable encrypted field
    is accounted separately (`Req.encw`) -/
def Field.wire : Field → Nat
  | .uid b => next4 (4 + b.length)
  | .cookie n => next4 (4 + n)
  | .placeholder n => next4 (4 + n)
  | .invalid => 0
  | .draft n => next4 (4 + n)
  | .padding n => next4 (4 + n)
  | .refReq _ l => next4 (4 + l)
  | .refResp n => next4 (4 + n)
  | .unknown _ n => next4 (4 + n)

def wireSum (fs : List Field) : Nat := (fs.map Field.wire).sum

/-- part of a request field an echoed identifier / answered reference-id request is charged to -/
def echoCharge : Field → Nat
  | .uid b => next4 (4 + b.length)
  | .refReq _ l => next4 (4 + l)
  | _ => 0

/-- part of a request field a fresh cookie is charged to -/
def cookieCharge : Field → Nat
  | .cookie n => next4 (4 + n)
  | .placeholder n => next4 (4 + n)
  | _ => 0

/-- part of a request field the answer's draft identification is charged to -/
def draftCharge : Field → Nat
  | .draft n => next4 (4 + n)
  | _ => 0

def echoSum (fs : List Field) : Nat := (fs.map echoCharge).sum
def cookieSum (fs : List Field) : Nat := (fs.map cookieCharge).sum
def draftSum (fs : List Field) : Nat := (fs.map draftCharge).sum

/-- own (unforced) length of an answer field: header + payload, padded to a word -/
def ownSum (fs : List RField) : Nat := (fs.map (RField.wire 0)).sum

theorem charges_le (f : Field) : echoCharge f + cookieCharge f + draftCharge f ≤ f.wire := by
  cases f <;> simp [echoCharge, cookieCharge, draftCharge, Field.wire]

theorem sums_le (fs : List Field) : echoSum fs + cookieSum fs + draftSum fs ≤ wireSum fs := by
  induction fs with
  | nil => simp [echoSum, cookieSum, draftSum, wireSum]
  | cons f rest ih =>
    have := charges_le f
    simp only [echoSum, cookieSum, draftSum, wireSum, List.map_cons, List.sum_cons] at ih ⊢
    omega

theorem echoSum_append (a b : List Field) : echoSum (a ++ b) = echoSum a + echoSum b := by
  simp [echoSum, List.sum_append]
theorem cookieSum_append (a b : List Field) : cookieSum (a ++ b) = cookieSum a + cookieSum b := by
  simp [cookieSum, List.sum_append]
theorem ownSum_append (a b : List RField) : ownSum (a ++ b) = ownSum a + ownSum b := by
  simp [ownSum, List.sum_append]

theorem cookieSum_take (k : Nat) (fs : List Field) : cookieSum (fs.take k) ≤ cookieSum fs := by
  induction fs generalizing k with
  | nil => simp
  | cons f rest ih =>
    cases k with
    | zero => simp [cookieSum]
    | succ k =>
      have := ih k
      simp only [cookieSum, List.take_succ_cons, List.map_cons, List.sum_cons] at this ⊢
      omega

theorem ownSum_take (k : Nat) (fs : List RField) : ownSum (fs.take k) ≤ ownSum fs := by
  induction fs generalizing k with
  | nil => simp
  | cons f rest ih =>
    cases k with
    | zero => simp [ownSum]
    | succ k =>
      have := ih k
      simp only [ownSum, List.take_succ_cons, List.map_cons, List.sum_cons] at this ⊢
      omega

theorem own_uid (b : Bytes) : (RField.uid b).wire 0 = next4 (4 + b.length) := by
  simp only [RField.wire, RField.dataLen, fieldWire]
  congr 1; omega

theorem ownSum_uids (fs : List Field) : ownSum (fs.filterMap uidOf) ≤ echoSum fs := by
  induction fs with
  | nil => simp [ownSum, echoSum]
  | cons f rest ih =>
    cases f <;> simp only [List.filterMap_cons, uidOf, ownSum, echoSum, List.map_cons, List.sum_cons, echoCharge,
      own_uid] at ih ⊢ <;> omega

theorem ownSum_echoV5 (bloom : Bytes) (fs : List Field) : ownSum (fs.filterMap (echoV5 bloom)) ≤ echoSum fs := by
  induction fs with
  | nil => simp [ownSum, echoSum]
  | cons f rest ih =>
    cases f with
    | refReq o l =>
      by_cases hc : o ≤ bloom.length ∧ l ≤ bloom.length - o
      · have h1 : echoV5 bloom (.refReq o l) = some (.refResp ((bloom.drop o).take l)) := by
          simp [echoV5, refResponse, hc]
        rw [List.filterMap_cons_some h1]
        simp only [ownSum, echoSum, List.map_cons, List.sum_cons, echoCharge, RField.wire] at ih ⊢
        have : ((bloom.drop o).take l).length = l := by
          simp only [List.length_take, List.length_drop]; omega
        rw [this, Nat.add_comm l 4]
        omega
      · have h1 : echoV5 bloom (.refReq o l) = none := by
          simp [echoV5, refResponse, hc]
        rw [List.filterMap_cons_none h1]
        simp only [ownSum, echoSum, List.map_cons, List.sum_cons, echoCharge] at ih ⊢; omega
    | uid b =>
      simp only [List.filterMap_cons, echoV5, ownSum, echoSum, List.map_cons, List.sum_cons, echoCharge,
        own_uid] at ih ⊢
      omega
    | _ => simp only [List.filterMap_cons, echoV5, ownSum, echoSum, List.map_cons, List.sum_cons, echoCharge] at ih ⊢ <;> omega

theorem ownSum_cookies (alg : Nat) (fs : List Field) : ownSum (fs.filterMap (cookieFor alg)) ≤ cookieSum fs := by
  induction fs with
  | nil => simp [ownSum, cookieSum]
  | cons f rest ih =>
    have hslot : ∀ n, (f = .cookie n ∨ f = .placeholder n) →
        ownSum ((f :: rest).filterMap (cookieFor alg)) ≤ cookieSum (f :: rest) := by
      intro n hf
      have hc : cookieCharge f = next4 (4 + n) := by rcases hf with h | h <;> subst h <;> rfl
      by_cases hn : freshCookieLen alg ≤ n
      · have h1 : cookieFor alg f = some (.cookie (freshCookieLen alg)) := by
          rcases hf with h | h <;> subst h <;> simp [cookieFor] <;> omega
        rw [List.filterMap_cons_some h1]
        simp only [ownSum, cookieSum, List.map_cons, List.sum_cons, hc] at ih ⊢
        have : (RField.cookie (freshCookieLen alg)).wire 0 ≤ next4 (4 + n) := by
          simp only [RField.wire, RField.dataLen, fieldWire]
          apply next4_mono; omega
        omega
      · have h1 : cookieFor alg f = none := by
          rcases hf with h | h <;> subst h <;> simp [cookieFor] <;> omega
        rw [List.filterMap_cons_none h1]
        simp only [ownSum, cookieSum, List.map_cons, List.sum_cons] at ih ⊢
        omega
    cases f with
    | cookie n => exact hslot n (.inl rfl)
    | placeholder n => exact hslot n (.inr rfl)
    | _ => simp only [List.filterMap_cons, cookieFor, ownSum, cookieSum, List.map_cons, List.sum_cons, cookieCharge] at ih ⊢ <;> omega

theorem draftSum_ge (fs : List Field) (h : ∃ n, 23 ≤ n ∧ Field.draft n ∈ fs) : 28 ≤ draftSum fs := by
  obtain ⟨n, hn, hm⟩ := h
  induction fs with
  | nil => simp at hm
  | cons f rest ih =>
    simp only [List.mem_cons] at hm
    rcases hm with hm | hm
    · subst hm
      have := next4_ge (4 + n)
      have := next4_mod (4 + n)
      simp only [draftSum, List.map_cons, List.sum_cons, draftCharge]
      omega
    · have := ih hm
      simp only [draftSum, List.map_cons, List.sum_cons] at this ⊢
      omega

theorem own_draft : (RField.draft).wire 0 = 28 := by decide

theorem ownSum_draftTail (req : Req) : ownSum (draftTail req) = if req.version = 5 then 28 else 0 := by
  unfold draftTail; split <;> simp [ownSum, own_draft]

/-- what a built answer consists of, in terms of the request it answers -/
theorem built_budget {info env req c a r} (h : build info env req c a = .ok r) (h3 : req.version ≠ 3) :
    r.hdr.version = req.version ∧
    ownSum r.untrusted + ownSum r.auth ≤ echoSum (req.untrusted ++ req.auth) + (if req.version = 5 then 28 else 0) ∧
    ownSum r.enc ≤ cookieSum (req.auth ++ req.enc) ∧
    (c = none → r.auth = [] ∧ r.enc = []) ∧
    (r.cipher = true ∨ (r.auth = [] ∧ r.enc = [])) ∧
    (r.desired = none ∨ r.desired = some req.len) ∧
    (∀ f ∈ r.untrusted ++ r.auth ++ r.enc,
      (∃ b, f = .uid b ∧ Field.uid b ∈ req.untrusted ++ req.auth) ∨ f.frameOk = true) := by
  have hU := ownSum_uids (req.untrusted ++ req.auth)
  have hE := ownSum_echoV5 info.bloom (req.untrusted ++ req.auth)
  have hUa := ownSum_uids req.auth
  have hEa := ownSum_echoV5 info.bloom req.auth
  have hT := ownSum_draftTail req
  have happ := echoSum_append req.untrusted req.auth
  have memU : ∀ (fs : List Field) f, f ∈ fs.filterMap uidOf → ∃ b, f = .uid b ∧ Field.uid b ∈ fs := by
    intro fs f hf
    simp only [List.mem_filterMap] at hf
    obtain ⟨x, hx, hxf⟩ := hf
    cases x <;> simp [uidOf] at hxf
    exact ⟨_, hxf.symm, hx⟩
  have memE : ∀ (fs : List Field) f, f ∈ fs.filterMap (echoV5 info.bloom) →
      (∃ b, f = .uid b ∧ Field.uid b ∈ fs) ∨ f.frameOk = true := by
    intro fs f hf
    simp only [List.mem_filterMap] at hf
    obtain ⟨x, hx, hxf⟩ := hf
    cases x <;> simp [echoV5, refResponse] at hxf
    · exact .inl ⟨_, hxf.symm, hx⟩
    · right; rw [← hxf.2]; rfl
  have memT : ∀ f, f ∈ draftTail req → f.frameOk = true := by
    intro f hf; unfold draftTail at hf; split at hf <;> simp at hf; subst hf; decide
  have memC : ∀ alg f, f ∈ freshCookies alg req → f.frameOk = true := by
    intro alg f hf
    have := mem_freshCookies hf
    subst this
    simp only [RField.frameOk, RField.dataLen, RespSize.frameOk, freshCookieLen]
    split <;> decide
  have inl_auth : ∀ b, Field.uid b ∈ req.auth → Field.uid b ∈ req.untrusted ++ req.auth := by
    intro b hb; simp [hb]
  cases a with
  | ignore => simp [build] at h
  | nak =>
    simp only [build, nakResponse] at h
    split at h
    · simp at h
    · simp only [Built.ok.injEq] at h
      subst h
      refine ⟨by simp [plainKiss, kissHeader], ?_, by simp [plainKiss, ownSum], fun _ => by simp [plainKiss],
        .inr (by simp [plainKiss]), .inl (by simp [plainKiss]), ?_⟩
      · simp only [plainKiss, if_neg h3, ownSum_append, hT]
        simp only [ownSum, List.map_nil, List.sum_nil] at hU ⊢; omega
      · intro f hf
        simp only [plainKiss, if_neg h3, List.append_nil, List.mem_append] at hf
        rcases hf with hf | hf
        · exact .inl (memU _ f hf)
        · exact .inr (memT f hf)
  | deny =>
    cases c with
    | none =>
      simp only [build, Built.ok.injEq] at h
      subst h
      refine ⟨by simp [denyResponse, plainKiss, kissHeader], ?_, by simp [denyResponse, plainKiss, ownSum],
        fun _ => by simp [denyResponse, plainKiss], .inr (by simp [denyResponse, plainKiss]),
        .inl (by simp [denyResponse, plainKiss]), ?_⟩
      · simp only [denyResponse, plainKiss, if_neg h3, ownSum_append, hT]
        simp only [ownSum, List.map_nil, List.sum_nil] at hU ⊢; omega
      · intro f hf
        simp only [denyResponse, plainKiss, if_neg h3, List.append_nil, List.mem_append] at hf
        rcases hf with hf | hf
        · exact .inl (memU _ f hf)
        · exact .inr (memT f hf)
    | some alg =>
      simp only [build, ntsDenyResponse] at h
      split at h
      · simp at h
      · simp only [Built.ok.injEq] at h
        subst h
        refine ⟨by simp [kissHeader], ?_, by simp [ownSum], by simp, .inl rfl, .inl rfl, ?_⟩
        · simp only [ownSum_append, hT]
          simp only [ownSum, List.map_nil, List.sum_nil] at hUa ⊢; omega
        · intro f hf
          simp only [List.nil_append, List.append_nil, List.mem_append] at hf
          rcases hf with hf | hf
          · obtain ⟨b, hb, hm⟩ := memU _ f hf
            exact .inl ⟨b, hb, inl_auth b hm⟩
          · exact .inr (memT f hf)
  | time =>
    cases c with
    | none =>
      simp only [build, timestampResponse] at h
      split at h
      · simp at h
      · simp only [Built.ok.injEq] at h
        subst h
        refine ⟨by simp [timeHeader], ?_, by simp [ownSum], fun _ => ⟨rfl, rfl⟩, .inr ⟨rfl, rfl⟩, .inr rfl, ?_⟩
        · simp only [if_neg h3]
          split
          · rename_i h5
            simp only [ownSum_append]
            simp only [ownSum, List.map_nil, List.sum_nil, List.map_cons, List.sum_cons, own_draft] at hE ⊢; omega
          · simp only [ownSum, List.map_nil, List.sum_nil] at hU ⊢; omega
        · intro f hf
          simp only [List.append_nil, if_neg h3] at hf
          split at hf
          · simp only [List.mem_append, List.mem_singleton] at hf
            rcases hf with hf | hf
            · exact memE _ f hf
            · subst hf; exact .inr (by decide)
          · exact .inl (memU _ f hf)
    | some alg =>
      simp only [build, ntsTimestampResponse] at h
      split at h
      · simp at h
      · split at h
        · simp at h
        · split at h
          · simp at h
          · simp only [Built.ok.injEq] at h
            subst h
            have hck : ownSum (freshCookies alg req) ≤ cookieSum (req.auth ++ req.enc) := by
              unfold freshCookies
              exact Nat.le_trans (ownSum_take _ _) (ownSum_cookies alg _)
            refine ⟨by simp [timeHeader], ?_, hck, by simp, .inl rfl, .inr rfl, ?_⟩
            · simp only []
              split
              · rename_i h5
                simp only [ownSum_append]
                simp only [ownSum, List.map_nil, List.sum_nil, List.map_cons, List.sum_cons, own_draft] at hEa ⊢; omega
              · simp only [ownSum, List.map_nil, List.sum_nil] at hUa ⊢; omega
            · intro f hf
              simp only [List.nil_append, List.mem_append] at hf
              rcases hf with hf | hf
              · split at hf
                · simp only [List.mem_append, List.mem_singleton] at hf
                  rcases hf with hf | hf
                  · rcases memE _ f hf with ⟨b, hb, hm⟩ | hok
                    · exact .inl ⟨b, hb, inl_auth b hm⟩
                    · exact .inr hok
                  · subst hf; exact .inr (by decide)
                · obtain ⟨b, hb, hm⟩ := memU _ f hf
                  exact .inl ⟨b, hb, inl_auth b hm⟩
              · exact .inr (memC alg f hf)

/-- NTPv3 answers carry no extension fields -/
theorem built_v3 {info env req c a r} (h : build info env req c a = .ok r) (h3 : req.version = 3) :
    r.hdr.version = 3 ∧ r.untrusted = [] ∧ r.auth = [] ∧ r.enc = [] := by
  cases a with
  | ignore => simp [build] at h
  | nak => simp [build, nakResponse, h3] at h
  | deny =>
    cases c with
    | none =>
      simp only [build, Built.ok.injEq] at h
      subst h
      simp [denyResponse, plainKiss, kissHeader, h3]
    | some alg => simp [build, ntsDenyResponse, h3] at h
  | time =>
    cases c with
    | none =>
      simp only [build, timestampResponse] at h
      split at h
      · simp at h
      · simp only [Built.ok.injEq] at h
        subst h
        simp [timeHeader, h3]
    | some alg => simp [build, ntsTimestampResponse, h3] at h

end NtpVerif.Server
