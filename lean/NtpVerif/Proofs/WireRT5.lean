/-
Helper lemmas for C24, fifth part: framing of an encoded field is read back (per-field decode∘encode).
-/
import NtpVerif.Proofs.WireRT4

namespace NtpVerif.Wire

theorem toBE2 (x : Nat) : toBE 2 x = [UInt8.ofNat (x / 256 % 256), UInt8.ofNat (x % 256)] := by
  simp [toBE]

theorem be16_toBE2 {x : Nat} (h : x < 65536) :
    be16 (UInt8.ofNat (x / 256 % 256)) (UInt8.ofNat (x % 256)) = x := by
  unfold be16
  simp only [UInt8.toNat_ofNat']
  omega

/-- the framing written by every field encoder is read back by `RawExtensionField::deserialize`: type id, and the
    `a - 4` message bytes that follow the two length bytes -/
theorem raw_of_framed (minEF : Nat) (ty a : Nat) (body rest : Bytes) (ver : Ver) (hty : ty < 65536)
    (ha : a < 65536) (h4 : 4 ≤ a) (hmin : minEF ≤ a) (hv4 : ver = .v4 → a % 4 = 0) (hbody : body.length = nm4 a - 4) :
    rawDeserialize (toBE 2 ty ++ toBE 2 a ++ body ++ rest) minEF ver = .ok (ty, body.take (a - 4)) := by
  rw [toBE2, toBE2]
  simp only [List.cons_append, List.nil_append, List.append_assoc]
  unfold rawDeserialize
  simp only [be16_toBE2 hty, be16_toBE2 ha]
  have h1 : ¬ a < minEF := by omega
  have h2 : ¬ (ver = .v4 ∧ a % 4 ≠ 0) := by
    intro ⟨hv, hm⟩; exact hm (hv4 hv)
  simp only [h1, h2, if_false]
  have hge := nm4_ge a
  have hlen : (UInt8.ofNat (ty / 256 % 256) :: UInt8.ofNat (ty % 256) :: UInt8.ofNat (a / 256 % 256) ::
      UInt8.ofNat (a % 256) :: (body ++ rest)).length = 4 + body.length + rest.length := by
    simp [List.length_append]; omega
  rw [slice?_of_le (by omega) (by rw [hlen]; omega), slice?_of_le (by omega) (by rw [hlen]; omega)]
  simp only [List.drop_succ_cons, List.drop_zero]
  congr 2
  rw [List.take_append_of_le_length (by omega)]

theorem nm4u16_eq {n : Nat} (h : nm4 n < 65536) : nm4u16 n = nm4 n := by
  unfold nm4u16 nm4 at *
  split
  · rfl
  · rename_i hm; simp only [hm, if_false] at h; exact Nat.mod_eq_of_lt h

theorem zeros_append (a b : Nat) : zeros a ++ zeros b = zeros (a + b) := by
  simp [zeros, List.replicate_append_replicate]

theorem zeros_length (a : Nat) : (zeros a).length = a := by simp [zeros]

/-- the field length word written by `encode_framing` -/
def framedLen (dataLen minSize : Nat) (ver : Ver) : Nat :=
  if ver = .v4 then nm4 (max (dataLen + 4) minSize) else max (dataLen + 4) minSize

theorem encodeGeneric_eq (ty : Nat) (data : Bytes) (m : Nat) (ver : Ver)
    (hlen : nm4 (max (data.length + 4) m) < 65536) :
    encodeGeneric ty data m ver =
      .ok (toBE 2 ty ++ toBE 2 (framedLen data.length m ver) ++
            (data ++ zeros (nm4 (max (data.length + 4) m) - data.length - 4))) := by
  have hge := nm4_ge (max (data.length + 4) m)
  have h1 : ¬ data.length > 65535 - 4 := by omega
  unfold encodeGeneric framing padding framedLen
  simp only [h1, if_false, bind, Except.bind, pure, Except.pure]
  cases ver with
  | v4 => simp [nm4u16_eq hlen, List.append_assoc]
  | v5 => simp [List.append_assoc]

/-- PER-FIELD LEMMA for the six kinds encoded by `encode_framing`/`encode_padding` (unique identifier, cookie,
    cookie placeholder, draft identification, padding, unknown): the encoding is framed back as the same type id
    with the data followed by its zero padding (`msg'`), and encoding `msg'` again (same position, hence same
    minimum size) gives the same bytes. -/
theorem generic_field_roundtrip (minEF : Nat) (hms : minEF ≤ 4) (ty : Nat) (data rest : Bytes) (m : Nat)
    (ver : Ver) (hty : ty < 65536) (hlen : nm4 (max (data.length + 4) m) < 65536) :
    ∃ enc msg', encodeGeneric ty data m ver = .ok enc ∧
      rawDeserialize (enc ++ rest) minEF ver = .ok (ty, msg') ∧
      msg' = data ++ zeros (msg'.length - data.length) ∧
      encodeGeneric ty msg' m ver = .ok enc := by
  have hE := encodeGeneric_eq ty data m ver hlen
  have hge := nm4_ge (max (data.length + 4) m)
  have hmod := nm4_mod (max (data.length + 4) m)
  have hmax : data.length + 4 ≤ max (data.length + 4) m ∧ m ≤ max (data.length + 4) m := by omega
  generalize ha0 : max (data.length + 4) m = a0 at *
  have hfl : framedLen data.length m ver = if ver = .v4 then nm4 a0 else a0 := by
    unfold framedLen; rw [ha0]
  generalize ha : framedLen data.length m ver = a at *
  have ha_le : a ≤ nm4 a0 := by rw [hfl]; split <;> omega
  have ha_ge : a0 ≤ a := by rw [hfl]; split <;> omega
  have hnm : nm4 a = nm4 a0 := by
    rw [hfl]; split
    · exact nm4_of_mod hmod
    · rfl
  have hv4 : ver = .v4 → a % 4 = 0 := by
    intro hv; rw [hfl]; simp only [hv, if_true]; exact hmod
  generalize hb : data ++ zeros (nm4 a0 - data.length - 4) = body at *
  have hbody : body.length = nm4 a - 4 := by
    rw [← hb, List.length_append, zeros_length, hnm]; omega
  have htake : body.take (a - 4) = data ++ zeros (a - 4 - data.length) := by
    rw [← hb, List.take_append, List.take_of_length_le (by omega)]
    congr 1
    simp only [zeros, List.take_replicate]
    congr 1
    omega
  have hl : (body.take (a - 4)).length = a - 4 := by
    rw [List.length_take, hbody]; omega
  refine ⟨_, body.take (a - 4), hE, ?_, ?_, ?_⟩
  · have := raw_of_framed minEF ty a body rest ver hty (by omega) (by omega) (by omega) hv4 hbody
    simpa [List.append_assoc] using this
  · rw [hl]; exact htake
  · have hmax' : max ((body.take (a - 4)).length + 4) m = a := by rw [hl]; omega
    have hfl' : framedLen (body.take (a - 4)).length m ver = a := by
      unfold framedLen
      rw [hmax']
      split
      · rename_i hv; exact nm4_of_mod (hv4 hv)
      · rfl
    rw [encodeGeneric_eq ty _ m ver (by rw [hmax', hnm]; exact hlen), hfl', hmax', hl, hnm, htake, ← hb]
    have e : data ++ zeros (a - 4 - data.length) ++ zeros (nm4 a0 - (a - 4) - 4) =
        data ++ zeros (nm4 a0 - data.length - 4) := by
      rw [List.append_assoc, zeros_append]
      congr 2
      omega
    rw [e]

end NtpVerif.Wire
