/- Helper lemmas for C34: bit-level facts for `u8`, monotonicity of the Bloom filter operations, slice
   algebra for the chunk transfer. -/
import NtpVerif.Model.Bloom

namespace NtpVerif.Bloom

theorem Filter.new_length : Filter.new.length = 512 := by
  show (List.replicate Gen.BLOOM_BYTES (0 : UInt8)).length = 512
  rw [List.length_replicate]; rfl

theorem advance_eq (r : Remote) :
    advance r = { r with next := (r.next + r.chunk) % 512,
                         filled := if (r.next + r.chunk) % 512 = 0 then true else r.filled } := rfl

/-! ### `u8` bit facts -/

theorem and_or_distrib (b c m : UInt8) : (b ||| c) &&& m = (b &&& m) ||| (c &&& m) := by
  apply UInt8.eq_of_toBitVec_eq
  simp only [UInt8.toBitVec_and, UInt8.toBitVec_or]
  ext i hi
  simp only [BitVec.getElem_and, BitVec.getElem_or]
  cases b.toBitVec[i] <;> cases c.toBitVec[i] <;> cases m.toBitVec[i] <;> rfl

theorem and_ne_zero_or_left (b c m : UInt8) (h : (b &&& m) ≠ 0) : ((b ||| c) &&& m) ≠ 0 := by
  intro h2
  rw [and_or_distrib] at h2
  exact h (UInt8.or_eq_zero_iff.mp h2).1

theorem and_ne_zero_or_right (b c m : UInt8) (h : (c &&& m) ≠ 0) : ((b ||| c) &&& m) ≠ 0 := by
  intro h2
  rw [and_or_distrib] at h2
  exact h (UInt8.or_eq_zero_iff.mp h2).2

theorem or_self_and_ne_zero (b m : UInt8) (h : m ≠ 0) : ((b ||| m) &&& m) ≠ 0 :=
  and_ne_zero_or_right b m m (by simpa using h)

theorem mask_ne_zero (idx : Nat) : (byteAndMask idx).2 ≠ 0 := by
  have h : ∀ k : Fin 8, ((1 : UInt8) <<< k.val.toUInt8) ≠ 0 := by decide
  exact h ⟨idx % 8, Nat.mod_lt _ (by omega)⟩

/-! ### membership is monotone -/

/-- the bit `idx` is set in `f` -/
def Has (f : Filter) (idx : Nat) : Prop := isSet f idx = some true

theorem has_iff (f : Filter) (idx : Nat) :
    Has f idx ↔ ∃ b, f[idx / 8]? = some b ∧ (b &&& (byteAndMask idx).2) ≠ 0 := by
  unfold Has isSet
  simp only [byteAndMask]
  cases f[idx / 8]? with
  | none => simp
  | some b => simp

/-- every bit of `f` is a bit of `g` (same length) -/
def Le (f g : Filter) : Prop := f.length = g.length ∧ ∀ idx, Has f idx → Has g idx

theorem Le.refl (f : Filter) : Le f f := ⟨rfl, fun _ h => h⟩

theorem Le.trans {f g h : Filter} (a : Le f g) (b : Le g h) : Le f h :=
  ⟨a.1.trans b.1, fun i x => b.2 i (a.2 i x)⟩

theorem setBit_some (f : Filter) (idx : Nat) (h : idx / 8 < f.length) :
    ∃ f', setBit f idx = some f' ∧ Le f f' ∧ Has f' idx := by
  unfold setBit
  simp only [byteAndMask]
  rw [List.getElem?_eq_getElem h]
  refine ⟨_, rfl, ⟨by simp, ?_⟩, ?_⟩
  · intro j hj
    rw [has_iff] at hj ⊢
    obtain ⟨b, hb, hm⟩ := hj
    by_cases hij : idx / 8 = j / 8
    · rw [← hij] at hb ⊢
      rw [List.getElem?_eq_getElem h] at hb
      rw [List.getElem?_set_self h]
      cases hb
      exact ⟨_, rfl, and_ne_zero_or_left _ _ _ hm⟩
    · rw [List.getElem?_set_ne hij]
      exact ⟨b, hb, hm⟩
  · rw [has_iff]
    rw [List.getElem?_set_self h]
    exact ⟨_, rfl, or_self_and_ne_zero _ _ (mask_ne_zero idx)⟩

theorem containsId_true_iff (f : Filter) (id : ServerId) :
    containsId f id = some true ↔ ∀ idx ∈ id, Has f idx := by
  induction id with
  | nil => simp [containsId]
  | cons i rest ih =>
    simp only [containsId, List.mem_cons, forall_eq_or_imp]
    unfold Has
    cases h : isSet f i with
    | none => simp
    | some b =>
      cases b
      · simp
      · simp only [true_and]
        exact ih

theorem addId_some (f : Filter) (id : ServerId) (h : ∀ idx ∈ id, idx / 8 < f.length) :
    ∃ f', addId f id = some f' ∧ Le f f' ∧ ∀ idx ∈ id, Has f' idx := by
  induction id generalizing f with
  | nil => exact ⟨f, rfl, Le.refl f, by simp⟩
  | cons i rest ih =>
    obtain ⟨f1, h1, hle1, hhas1⟩ := setBit_some f i (h i (by simp))
    have hlen : ∀ idx ∈ rest, idx / 8 < f1.length := by
      intro idx hidx
      rw [← hle1.1]
      exact h idx (by simp [hidx])
    obtain ⟨f2, h2, hle2, hhas2⟩ := ih f1 hlen
    refine ⟨f2, by simp [addId, h1, h2], hle1.trans hle2, ?_⟩
    intro idx hidx
    simp only [List.mem_cons] at hidx
    rcases hidx with rfl | hidx
    · exact hle2.2 _ hhas1
    · exact hhas2 idx hidx

theorem add_length (f g : Filter) (h : f.length = g.length) : (add f g).length = f.length := by
  simp [add, h]

theorem le_add_left (f g : Filter) (h : f.length = g.length) : Le f (add f g) := by
  refine ⟨(add_length f g h).symm, ?_⟩
  intro idx hi
  rw [has_iff] at hi ⊢
  obtain ⟨b, hb, hm⟩ := hi
  have hlt : idx / 8 < f.length := by
    rcases Nat.lt_or_ge (idx / 8) f.length with h' | h'
    · exact h'
    · rw [List.getElem?_eq_none h'] at hb; cases hb
  have hlg : idx / 8 < g.length := h ▸ hlt
  refine ⟨b ||| g[idx / 8], ?_, and_ne_zero_or_left _ _ _ hm⟩
  rw [List.getElem?_eq_getElem hlt] at hb
  cases hb
  simp [add, List.getElem?_zipWith, List.getElem?_eq_getElem hlt, List.getElem?_eq_getElem hlg]

theorem le_add_right (f g : Filter) (h : f.length = g.length) : Le g (add f g) := by
  refine ⟨by rw [add_length f g h, h], ?_⟩
  intro idx hi
  rw [has_iff] at hi ⊢
  obtain ⟨b, hb, hm⟩ := hi
  have hlg : idx / 8 < g.length := by
    rcases Nat.lt_or_ge (idx / 8) g.length with h' | h'
    · exact h'
    · rw [List.getElem?_eq_none h'] at hb; cases hb
  have hlt : idx / 8 < f.length := h ▸ hlg
  refine ⟨f[idx / 8] ||| b, ?_, and_ne_zero_or_right _ _ _ hm⟩
  rw [List.getElem?_eq_getElem hlg] at hb
  cases hb
  simp [add, List.getElem?_zipWith, List.getElem?_eq_getElem hlt, List.getElem?_eq_getElem hlg]

theorem foldl_add_le (acc : Filter) (gs : List Filter) (h : ∀ g ∈ gs, g.length = acc.length) :
    Le acc (gs.foldl add acc) ∧ ∀ g ∈ gs, Le g (gs.foldl add acc) := by
  induction gs generalizing acc with
  | nil => exact ⟨Le.refl _, by simp⟩
  | cons g gs ih =>
    have hg : acc.length = g.length := (h g (by simp)).symm
    have hl : (add acc g).length = acc.length := add_length acc g hg
    obtain ⟨i1, i2⟩ := ih (add acc g) (by
      intro g' hg'
      rw [hl]
      exact h g' (by simp [hg']))
    refine ⟨(le_add_left acc g hg).trans i1, ?_⟩
    intro g' hg'
    simp only [List.mem_cons] at hg'
    rcases hg' with rfl | hg'
    · exact (le_add_right acc g' hg).trans i1
    · exact i2 g' hg'

/-! ### slices -/

theorem splice_self (F : List UInt8) (n c : Nat) :
    F.take n ++ (F.drop n).take c ++ F.drop (n + c) = F := by
  rw [List.append_assoc, ← List.drop_drop, List.take_append_drop, List.take_append_drop]

theorem take_splice (f F b : List UInt8) (n c : Nat) (hn : n ≤ f.length) (hb : b = (F.drop n).take c)
    (hpre : f.take n = F.take n) (hc : n + c ≤ F.length) :
    (f.take n ++ b ++ f.drop (n + c)).take (n + c) = F.take (n + c) := by
  have hbl : b.length = c := by
    rw [hb, List.length_take, List.length_drop]; omega
  have h1 : (f.take n ++ b).length = n + c := by
    rw [List.length_append, List.length_take, hbl]; omega
  rw [List.take_append_of_le_length (by omega), List.take_of_length_le (by omega), hpre, hb]
  rw [List.take_add]

end NtpVerif.Bloom
