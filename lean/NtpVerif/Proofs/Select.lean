/- Lemmas about the interval sweep of `select` (model `NtpVerif.Model.Select`). -/
import NtpVerif.Model.Select
import NtpVerif.Proofs.F64

namespace NtpVerif.Select
open NtpVerif.Leap

/-! ### the comparison used by the sort is a total preorder -/

theorem boundLe_trans (a b c : Bound) (h1 : boundLe a b = true) (h2 : boundLe b c = true) :
    boundLe a c = true := F64.totalLe_trans h1 h2

theorem boundLe_total (a b : Bound) : (boundLe a b || boundLe b a) = true := by
  rcases F64.totalLe_total a.1 b.1 with h | h <;> simp [boundLe, h]

theorem totalLe_refl (a : F64) : F64.totalLe a a = true := by simp [F64.totalLe]

/-- on non-NaN values the total order implies the IEEE order (they differ only on `-0.0` vs `+0.0`) -/
theorem le_of_totalLe {a b : F64} (h : F64.totalLe a b = true) (ha : a.isNaN = false) (hb : b.isNaN = false) :
    F64.le a b = true := by
  have h' : a.totalKey ≤ b.totalKey := of_decide_eq_true h
  have goal : a.key ≤ b.key := by
    unfold F64.totalKey at h'
    unfold F64.key
    by_cases hsa : a.signBit = true <;> by_cases hsb : b.signBit = true <;>
      simp only [hsa, hsb, if_true, if_false, Bool.false_eq_true] at h' ⊢ <;> omega
  simp [F64.le, ha, hb, goal]

theorem sortedBounds_pairwise (cfg : Cfg) (cs : List Cand) :
    (sortedBounds cfg cs).Pairwise (fun a b => boundLe a b = true) :=
  List.pairwise_mergeSort boundLe_trans boundLe_total _

theorem sortedBounds_perm (cfg : Cfg) (cs : List Cand) : (sortedBounds cfg cs).Perm (bounds cfg cs) :=
  List.mergeSort_perm _ _

/-! ### shape of a successful `select` -/

theorem select_sel_cases {cfg : Cfg} {cs out : List Cand} (h : select cfg cs = .sel out) :
    ∃ s, sweep (sortedBounds cfg cs) Sweep.init = some s ∧ s.maxlow = s.maxhigh ∧
      ((s.maxlow ≥ cfg.minAgree ∧ s.maxlow * 4 > (sortedBounds cfg cs).length ∧
          out = cs.filter (inFinal cfg s)) ∨ out = []) := by
  unfold select at h
  simp only at h
  split at h
  · cases h
  · rename_i s hs
    refine ⟨s, hs, ?_⟩
    split at h
    · cases h
    · rename_i heq
      simp only [ne_eq, Decidable.not_not] at heq
      refine ⟨heq, ?_⟩
      split at h
      · rename_i hc
        cases h
        exact Or.inl ⟨hc.1, hc.2, rfl⟩
      · cases h; exact Or.inr rfl

/-! ### counting starts and ends -/

def isStart (b : Bound) : Bool := b.2 == .start
def isStop (b : Bound) : Bool := b.2 == .stop

def nS (l : List Bound) : Nat := l.countP isStart
def nE (l : List Bound) : Nat := l.countP isStop

theorem nS_append (a b : List Bound) : nS (a ++ b) = nS a + nS b := List.countP_append
theorem nE_append (a b : List Bound) : nE (a ++ b) = nE a + nE b := List.countP_append

/-- invariant of the sweep after the prefix `done`: `cur` is (#starts − #ends), and `maxlow` is that
    difference right after some Start bound whose time is `maxtlow` -/
structure Inv (done : List Bound) (s : Sweep) : Prop where
  bal : s.cur + nE done = nS done
  wit : s.maxlow = 0 ∨ ∃ pre suf t, done = pre ++ (t, BT.start) :: suf ∧ s.maxtlow = t ∧
          s.maxlow + nE pre = nS pre + 1

theorem inv_init : Inv [] Sweep.init := ⟨rfl, Or.inl rfl⟩

theorem inv_step {done : List Bound} {s s1 : Sweep} {b : Bound} (hi : Inv done s)
    (h : sweepStep s b = some s1) : Inv (done ++ [b]) s1 := by
  obtain ⟨t, k⟩ := b
  cases k with
  | start =>
    simp only [sweepStep] at h
    have hS : nS (done ++ [(t, BT.start)]) = nS done + 1 := by simp [nS, isStart]
    have hE : nE (done ++ [(t, BT.start)]) = nE done := by simp [nE, isStop]
    split at h
    · cases h
      refine ⟨by simp only [hS, hE]; have := hi.bal; omega, Or.inr ⟨done, [], t, rfl, rfl, ?_⟩⟩
      have := hi.bal; simp only; omega
    · cases h
      refine ⟨by simp only [hS, hE]; have := hi.bal; omega, ?_⟩
      rcases hi.wit with h0 | ⟨pre, suf, t0, e, e2, e3⟩
      · exact Or.inl h0
      · exact Or.inr ⟨pre, suf ++ [(t, BT.start)], t0, by simp [e], e2, e3⟩
  | stop =>
    simp only [sweepStep] at h
    have hS : nS (done ++ [(t, BT.stop)]) = nS done := by simp [nS, isStart]
    have hE : nE (done ++ [(t, BT.stop)]) = nE done + 1 := by simp [nE, isStop]
    split at h
    · cases h
    · rename_i hc
      cases h
      have hw : (if s.cur > s.maxhigh then { s with maxhigh := s.cur, maxthigh := t } else s).maxlow = s.maxlow
          ∧ (if s.cur > s.maxhigh then { s with maxhigh := s.cur, maxthigh := t } else s).maxtlow = s.maxtlow := by
        split <;> exact ⟨rfl, rfl⟩
      refine ⟨by simp only [hS, hE]; have := hi.bal; omega, ?_⟩
      simp only [hw.1, hw.2]
      rcases hi.wit with h0 | ⟨pre, suf, t0, e, e2, e3⟩
      · exact Or.inl h0
      · exact Or.inr ⟨pre, suf ++ [(t, BT.stop)], t0, by simp [e], e2, e3⟩

theorem sweep_inv {rest done : List Bound} {s s' : Sweep} (hi : Inv done s)
    (h : sweep rest s = some s') : Inv (done ++ rest) s' := by
  induction rest generalizing done s with
  | nil => simp only [sweep, Option.some.injEq] at h; subst h; simpa using hi
  | cons b bs ih =>
    simp only [sweep] at h
    split at h
    · cases h
    · rename_i s1 hs1
      have := ih (inv_step hi hs1) h
      simpa using this

/-! ### from bounds back to candidates -/

def elig (cfg : Cfg) (cs : List Cand) : List Cand := cs.filter (eligible cfg)

theorem countP_bounds (cfg : Cfg) (cs : List Cand) (p : Bound → Bool) :
    (bounds cfg cs).countP p =
      (elig cfg cs).countP (fun c => p (lo cfg c, .start)) + (elig cfg cs).countP (fun c => p (hi cfg c, .stop)) := by
  induction cs with
  | nil => rfl
  | cons c cs ih =>
    unfold bounds elig
    by_cases he : eligible cfg c = true
    · simp only [he, if_true, List.filter_cons_of_pos, List.countP_cons]
      unfold elig at ih
      rw [ih]; omega
    · simp only [he, if_false, Bool.false_eq_true]
      rw [List.filter_cons_of_neg he]
      exact ih

theorem length_bounds (cfg : Cfg) (cs : List Cand) : (bounds cfg cs).length = 2 * (elig cfg cs).length := by
  induction cs with
  | nil => rfl
  | cons c cs ih =>
    unfold bounds elig
    by_cases he : eligible cfg c = true
    · simp only [he, if_true, List.filter_cons_of_pos, List.length_cons]
      unfold elig at ih; omega
    · simp only [he, if_false, Bool.false_eq_true]
      rw [List.filter_cons_of_neg he]
      exact ih

theorem countP_and_ge {α : Type} (p q : α → Bool) (l : List α) :
    l.countP p ≤ l.countP (fun a => p a && q a) + l.countP (fun a => !q a) := by
  induction l with
  | nil => simp
  | cons a l ih =>
    simp only [List.countP_cons]
    cases hp : p a <;> cases hq : q a <;> simp <;> omega

/-- the candidates (among the eligible ones) whose computed interval contains `x` in the total order -/
def agreeing (cfg : Cfg) (cs : List Cand) (x : F64) : List Cand :=
  (elig cfg cs).filter (fun c => F64.totalLe (lo cfg c) x && F64.totalLe x (hi cfg c))

/-- **the counting step**: if the sorted bound list splits as `pre ++ (t, Start) :: suf`, at least
    (#starts − #ends) of `pre ++ [(t, Start)]` eligible candidates have `lo ≤ t ≤ hi`. -/
theorem agreeing_ge (cfg : Cfg) (cs : List Cand) (pre suf : List Bound) (t : F64)
    (hsplit : sortedBounds cfg cs = pre ++ (t, BT.start) :: suf) :
    nS pre + 1 ≤ (agreeing cfg cs t).length + nE pre := by
  have hpw := sortedBounds_pairwise cfg cs
  rw [hsplit] at hpw
  obtain ⟨_, hp2, hp3⟩ := List.pairwise_append.mp hpw
  have hpre : ∀ x ∈ pre, F64.totalLe x.1 t = true := fun x hx => hp3 x hx _ (List.mem_cons_self ..)
  have hsuf : ∀ y ∈ suf, F64.totalLe t y.1 = true := fun y hy => (List.pairwise_cons.mp hp2).1 y hy
  let pS : Bound → Bool := fun b => isStart b && F64.totalLe b.1 t
  let pE : Bound → Bool := fun b => isStop b && !F64.totalLe t b.1
  -- starts in the prefix are counted by pS over the whole list
  have h1 : nS pre + 1 ≤ (sortedBounds cfg cs).countP pS := by
    rw [hsplit, List.countP_append, List.countP_cons]
    have : nS pre ≤ pre.countP pS := by
      apply List.countP_mono_left
      intro x hx hs
      simp only [pS, hs, hpre x hx, Bool.and_self]
    have ht : pS (t, BT.start) = true := by simp [pS, isStart, totalLe_refl]
    simp only [ht, if_true]
    omega
  -- ends strictly before t all lie in the prefix
  have h2 : (sortedBounds cfg cs).countP pE ≤ nE pre := by
    rw [hsplit, List.countP_append, List.countP_cons]
    have hz : suf.countP pE = 0 := by
      apply List.countP_eq_zero.mpr
      intro y hy
      simp [pE, hsuf y hy]
    have ht : pE (t, BT.start) = false := by simp [pE, isStop]
    have : pre.countP pE ≤ nE pre := by
      apply List.countP_mono_left
      intro x _ hs
      simp only [pE, Bool.and_eq_true] at hs
      exact hs.1
    simp only [ht, hz]
    simp only [Bool.false_eq_true, if_false]
    omega
  rw [(sortedBounds_perm cfg cs).countP_eq, countP_bounds] at h1 h2
  have e1 : (elig cfg cs).countP (fun c => pS (hi cfg c, BT.stop)) = 0 := by
    apply List.countP_eq_zero.mpr; intro c _; simp [pS, isStart]
  have e2 : (elig cfg cs).countP (fun c => pE (lo cfg c, BT.start)) = 0 := by
    apply List.countP_eq_zero.mpr; intro c _; simp [pE, isStop]
  rw [e1] at h1
  rw [e2] at h2
  have e3 : (elig cfg cs).countP (fun c => pS (lo cfg c, BT.start)) =
      (elig cfg cs).countP (fun c => F64.totalLe (lo cfg c) t) := by
    congr 1
  have e4 : (elig cfg cs).countP (fun c => pE (hi cfg c, BT.stop)) =
      (elig cfg cs).countP (fun c => !F64.totalLe t (hi cfg c)) := by
    congr 1
  have e3' : ∀ c, pS (lo cfg c, BT.start) = F64.totalLe (lo cfg c) t := by
    intro c; simp [pS, isStart]
  have e4' : ∀ c, pE (hi cfg c, BT.stop) = !F64.totalLe t (hi cfg c) := by
    intro c; simp [pE, isStop]
  simp only [e3'] at h1
  simp only [e4'] at h2
  have h3 := countP_and_ge (fun c => F64.totalLe (lo cfg c) t) (fun c => F64.totalLe t (hi cfg c)) (elig cfg cs)
  have h4 : (agreeing cfg cs t).length =
      (elig cfg cs).countP (fun c => F64.totalLe (lo cfg c) t && F64.totalLe t (hi cfg c)) := by
    unfold agreeing; rw [List.countP_eq_length_filter]
  omega

/-! ### second sweep invariant (uses the sortedness of the bound list) -/

/-- invariant of the sweep after the prefix `done` of a sorted list -/
structure Inv2 (done : List Bound) (s : Sweep) : Prop where
  hl : s.maxhigh ≤ s.maxlow
  cl : s.cur ≤ s.maxlow
  peak : s.cur = s.maxlow ∨ s.maxhigh = s.maxlow
  tlow : 0 < s.maxlow → (s.maxtlow, BT.start) ∈ done
  thigh : 0 < s.maxhigh → (s.maxthigh, BT.stop) ∈ done
  ord : s.maxhigh = s.maxlow → 0 < s.maxlow → F64.totalLe s.maxtlow s.maxthigh = true

theorem inv2_init : Inv2 [] Sweep.init :=
  ⟨Nat.le_refl _, Nat.le_refl _, Or.inl rfl, fun h => absurd h (by decide), fun h => absurd h (by decide),
   fun _ h => absurd h (by decide)⟩

theorem inv2_step {done : List Bound} {s s1 : Sweep} {b : Bound} (hi : Inv2 done s)
    (hle : ∀ x ∈ done, boundLe x b = true) (h : sweepStep s b = some s1) : Inv2 (done ++ [b]) s1 := by
  obtain ⟨t, k⟩ := b
  obtain ⟨hl, cl, peak, tlow, thigh, ord⟩ := hi
  cases k with
  | start =>
    simp only [sweepStep] at h
    split at h
    · rename_i hgt
      cases h
      refine ⟨by simp only; omega, by simp only; omega, Or.inl rfl, ?_, ?_, ?_⟩
      · intro _; simp
      · intro h0; simp only at h0 ⊢; exact List.mem_append_left _ (thigh h0)
      · intro he; simp only at he; omega
    · rename_i hgt
      cases h
      refine ⟨hl, by simp only; omega, ?_, ?_, ?_, ?_⟩
      · simp only; rcases peak with p | p
        · omega
        · exact Or.inr p
      · intro h0; exact List.mem_append_left _ (tlow h0)
      · intro h0; exact List.mem_append_left _ (thigh h0)
      · exact ord
  | stop =>
    simp only [sweepStep] at h
    split at h
    · cases h
    · rename_i hc
      cases h
      by_cases hgt : s.cur > s.maxhigh
      · simp only [hgt, if_true]
        refine ⟨cl, by simp only; omega, ?_, ?_, ?_, ?_⟩
        · simp only
          rcases peak with p | p
          · exact Or.inr p
          · omega
        · intro h0; exact List.mem_append_left _ (tlow h0)
        · intro _; simp
        · intro _ h0
          have hm := tlow h0
          have := hle _ hm
          simpa [boundLe] using this
      · simp only [hgt, if_false]
        refine ⟨hl, by simp only; omega, ?_, ?_, ?_, ?_⟩
        · simp only
          rcases peak with p | p
          · right; omega
          · exact Or.inr p
        · intro h0; exact List.mem_append_left _ (tlow h0)
        · intro h0; exact List.mem_append_left _ (thigh h0)
        · exact ord

theorem sweep_inv2 {rest done : List Bound} {s s' : Sweep} (hi : Inv2 done s)
    (hpw : (done ++ rest).Pairwise (fun a b => boundLe a b = true))
    (h : sweep rest s = some s') : Inv2 (done ++ rest) s' := by
  induction rest generalizing done s with
  | nil => simp only [sweep, Option.some.injEq] at h; subst h; simpa using hi
  | cons b bs ih =>
    simp only [sweep] at h
    split at h
    · cases h
    · rename_i s1 hs1
      have hle : ∀ x ∈ done, boundLe x b = true := by
        intro x hx
        exact (List.pairwise_append.mp hpw).2.2 x hx b (List.mem_cons_self ..)
      have hpw' : ((done ++ [b]) ++ bs).Pairwise (fun a b => boundLe a b = true) := by
        simpa using hpw
      have := ih (inv2_step hi hle hs1) hpw' h
      simpa using this

/-! ### where the bounds come from -/

theorem mem_bounds_start {cfg : Cfg} {cs : List Cand} {t : F64} (h : (t, BT.start) ∈ bounds cfg cs) :
    ∃ c ∈ elig cfg cs, t = lo cfg c := by
  induction cs with
  | nil => simp [bounds] at h
  | cons c cs ih =>
    unfold bounds at h
    unfold elig
    by_cases he : eligible cfg c = true
    · simp only [he, if_true, List.mem_cons, Prod.mk.injEq, reduceCtorEq, and_false, false_or] at h
      rw [List.filter_cons_of_pos he]
      rcases h with ⟨h1, _⟩ | h
      · exact ⟨c, List.mem_cons_self .., h1⟩
      · obtain ⟨c', hc', e⟩ := ih h
        exact ⟨c', List.mem_cons_of_mem _ hc', e⟩
    · simp only [he, if_false, Bool.false_eq_true] at h
      rw [List.filter_cons_of_neg he]
      exact ih h

theorem mem_bounds_stop {cfg : Cfg} {cs : List Cand} {t : F64} (h : (t, BT.stop) ∈ bounds cfg cs) :
    ∃ c ∈ elig cfg cs, t = hi cfg c := by
  induction cs with
  | nil => simp [bounds] at h
  | cons c cs ih =>
    unfold bounds at h
    unfold elig
    by_cases he : eligible cfg c = true
    · simp only [he, if_true, List.mem_cons, Prod.mk.injEq, reduceCtorEq, and_false, false_or] at h
      rw [List.filter_cons_of_pos he]
      rcases h with ⟨h1, _⟩ | h
      · exact ⟨c, List.mem_cons_self .., h1⟩
      · obtain ⟨c', hc', e⟩ := ih h
        exact ⟨c', List.mem_cons_of_mem _ hc', e⟩
    · simp only [he, if_false, Bool.false_eq_true] at h
      rw [List.filter_cons_of_neg he]
      exact ih h

/-! ### the running counter, and why a stable sort keeps it from underflowing -/

/-- `cur` alone: `none` = underflow -/
def runCur : Nat → List Bound → Option Nat
  | k, [] => some k
  | k, (_, .start) :: r => runCur (k + 1) r
  | k, (_, .stop) :: r => if k = 0 then none else runCur (k - 1) r

theorem sweep_cur (l : List Bound) (s : Sweep) : (sweep l s).map (·.cur) = runCur s.cur l := by
  induction l generalizing s with
  | nil => rfl
  | cons b bs ih =>
    obtain ⟨t, k⟩ := b
    cases k with
    | start =>
      simp only [sweep, sweepStep, runCur]
      split
      · rename_i h; split at h <;> cases h
      · rename_i s1 h
        rw [ih]
        split at h <;> (cases h; rfl)
    | stop =>
      simp only [sweep, sweepStep, runCur]
      by_cases hc : s.cur = 0
      · simp [hc]
      · simp only [hc, if_false]
        rw [ih]

theorem runCur_append (k : Nat) (a b : List Bound) :
    runCur k (a ++ b) = (runCur k a).bind (fun k' => runCur k' b) := by
  induction a generalizing k with
  | nil => rfl
  | cons x xs ih =>
    obtain ⟨t, kd⟩ := x
    cases kd with
    | start => simp only [List.cons_append, runCur, ih]
    | stop =>
      simp only [List.cons_append, runCur]
      by_cases hk : k = 0
      · simp [hk]
      · simp only [hk, if_false, ih]

theorem runCur_shift {k k' : Nat} {a : List Bound} (h : runCur k a = some k') :
    runCur (k + 1) a = some (k' + 1) := by
  induction a generalizing k with
  | nil => simp only [runCur, Option.some.injEq] at h ⊢; omega
  | cons x xs ih =>
    obtain ⟨t, kd⟩ := x
    cases kd with
    | start => simp only [runCur] at h ⊢; exact ih h
    | stop =>
      simp only [runCur] at h ⊢
      by_cases hk : k = 0
      · simp [hk] at h
      · simp only [hk, if_false] at h
        have : k + 1 ≠ 0 := by omega
        simp only [this, if_false, Nat.add_sub_cancel]
        have h2 := ih h
        have e : k - 1 + 1 = k := by omega
        rw [e] at h2
        exact h2

/-- a list over which the counter, started anywhere, never underflows and returns to where it started -/
def Balanced (l : List Bound) : Prop := ∀ k, runCur k l = some k

/-- inserting a Start and, not before it, an End into a balanced list keeps it balanced -/
theorem balanced_insert {m a l2 : List Bound} {ts te : F64} (h : Balanced (m ++ a ++ l2)) :
    Balanced (m ++ (ts, BT.start) :: a ++ (te, BT.stop) :: l2) := by
  intro k
  have hk := h k
  rw [runCur_append, runCur_append] at hk
  cases h1 : runCur k m with
  | none => simp [h1] at hk
  | some k1 =>
    simp only [h1, Option.bind_some] at hk
    cases h2 : runCur k1 a with
    | none => simp [h2] at hk
    | some k2 =>
      simp only [h2, Option.bind_some] at hk
      have e : m ++ (ts, BT.start) :: a ++ (te, BT.stop) :: l2 =
          m ++ ((ts, BT.start) :: (a ++ (te, BT.stop) :: l2)) := by simp
      rw [e, runCur_append, h1]
      simp only [Option.bind_some, runCur]
      rw [runCur_append, runCur_shift h2]
      simp only [Option.bind_some, runCur]
      have : k2 + 1 ≠ 0 := by omega
      simp only [this, if_false, Nat.add_sub_cancel]
      exact hk

theorem balanced_sorted (cfg : Cfg) (cs : List Cand)
    (H : ∀ c ∈ elig cfg cs, F64.totalLe (lo cfg c) (hi cfg c) = true) : Balanced (sortedBounds cfg cs) := by
  induction cs with
  | nil => intro k; simp [sortedBounds, bounds, runCur]
  | cons c cs ih =>
    unfold sortedBounds bounds
    by_cases he : eligible cfg c = true
    · simp only [he, if_true]
      have Hc : F64.totalLe (lo cfg c) (hi cfg c) = true := by
        apply H; unfold elig; rw [List.filter_cons_of_pos he]; exact List.mem_cons_self ..
      have Ht : ∀ c' ∈ elig cfg cs, F64.totalLe (lo cfg c') (hi cfg c') = true := by
        intro c' hc'; apply H; unfold elig; rw [List.filter_cons_of_pos he]
        exact List.mem_cons_of_mem _ hc'
      have ihb := ih Ht
      unfold sortedBounds at ihb
      obtain ⟨l1, l2, e1, e2, e3⟩ :=
        List.mergeSort_cons boundLe_trans boundLe_total (hi cfg c, BT.stop) (bounds cfg cs)
      obtain ⟨m1, m2, f1, f2, f3⟩ :=
        List.mergeSort_cons boundLe_trans boundLe_total (lo cfg c, BT.start) ((hi cfg c, BT.stop) :: bounds cfg cs)
      rw [f1]
      rw [e1] at f2
      -- the End is not in m1 (Start ≤ End), so m1 is a prefix of l1
      have hE : (hi cfg c, BT.stop) ∉ m1 := by
        intro hm
        have := f3 _ hm
        simp [boundLe, Hc] at this
      have hE1 : (hi cfg c, BT.stop) ∉ l1 := by
        intro hm
        have := e3 _ hm
        simp [boundLe, totalLe_refl] at this
      rcases List.append_eq_append_iff.mp f2 with ⟨a', ha1, ha2⟩ | ⟨c', hc1, hc2⟩
      · -- m1 = l1 ++ a', E :: l2 = a' ++ m2
        cases a' with
        | nil =>
          simp only [List.append_nil] at ha1
          simp only [List.nil_append] at ha2
          rw [← ha2, ha1]
          rw [e2] at ihb
          have := balanced_insert (m := l1) (a := []) (ts := lo cfg c) (te := hi cfg c) (by simpa using ihb)
          simpa using this
        | cons x xs =>
          simp only [List.cons_append, List.cons.injEq] at ha2
          exfalso
          apply hE
          rw [ha1, ← ha2.1]
          simp
      · -- l1 = m1 ++ c', m2 = c' ++ E :: l2
        rw [hc2]
        rw [e2, hc1] at ihb
        have := balanced_insert (ts := lo cfg c) (te := hi cfg c) ihb
        simpa using this
    · simp only [he, if_false, Bool.false_eq_true]
      have Ht : ∀ c' ∈ elig cfg cs, F64.totalLe (lo cfg c') (hi cfg c') = true := by
        intro c' hc'; apply H; unfold elig; rw [List.filter_cons_of_neg he]; exact hc'
      exact ih Ht

/-- the IEEE order implies the total order except for the pair (+0.0, −0.0) -/
theorem totalLe_of_le {a b : F64} (h : F64.le a b = true)
    (hz : ¬ (a.signBit = false ∧ a.mag = 0 ∧ b.signBit = true ∧ b.mag = 0)) : F64.totalLe a b = true := by
  simp only [F64.le, Bool.and_eq_true, decide_eq_true_eq] at h
  have hk := h.2
  unfold F64.key at hk
  simp only [F64.totalLe, decide_eq_true_eq]
  unfold F64.totalKey
  by_cases hsa : a.signBit = true <;> by_cases hsb : b.signBit = true <;>
    simp only [hsa, hsb, if_true, if_false, Bool.false_eq_true] at hk ⊢ <;> try omega
  -- a positive, b negative: both magnitudes are 0, excluded
  have ha : a.signBit = false := by simpa using hsa
  exfalso; apply hz
  exact ⟨ha, by omega, hsb, by omega⟩

end NtpVerif.Select
