/- Lemmas about the interval sweep of `select` (model `NtpVerif.Model.Select`). -/
import NtpVerif.Model.Select
import NtpVerif.Proofs.F64

namespace NtpVerif.Select
open NtpVerif.Leap

/-! ### the comparison used by the sort is a total preorder -/

theorem boundLe_trans (a b c : Bound) (h1 : boundLe a b = true) (h2 : boundLe b c = true) :
    boundLe a c = true := F64.totalLe_trans h1 h2

theorem boundLe_total (a b : Bound) : (boundLe a b || boundLe b a) = true := by
  rcases F64.totalLe_total a.1 b.1 with h | h <;> simp [boundLe, h]

theorem totalLe_refl (a : F64) : F64.totalLe a a = true := by simp [F64.totalLe]

/-- on non-NaN values the total order implies the IEEE order (they differ only on `-0.0` vs `+0.0`) -/
theorem le_of_totalLe {a b : F64} (h : F64.totalLe a b = true) (ha : a.isNaN = false) (hb : b.isNaN = false) :
    F64.le a b = true := by
  have h' : a.totalKey ≤ b.totalKey := of_decide_eq_true h
  have goal : a.key ≤ b.key := by
    unfold F64.totalKey at h'
    unfold F64.key
    by_cases hsa : a.signBit = true <;> by_cases hsb : b.signBit = true <;>
      simp only [hsa, hsb, if_true, if_false, Bool.false_eq_true] at h' ⊢ <;> omega
  simp [F64.le, ha, hb, goal]

theorem sortedBounds_pairwise (cfg : Cfg) (cs : List Cand) :
    (sortedBounds cfg cs).Pairwise (fun a b => boundLe a b = true) :=
  List.pairwise_mergeSort boundLe_trans boundLe_total _

theorem sortedBounds_perm (cfg : Cfg) (cs : List Cand) : (sortedBounds cfg cs).Perm (bounds cfg cs) :=
  List.mergeSort_perm _ _

/-! ### shape of a successful `select` -/

theorem select_sel_cases {cfg : Cfg} {cs out : List Cand} (h : select cfg cs = .sel out) :
    ∃ s, sweep (sortedBounds cfg cs) Sweep.init = some s ∧ s.maxlow = s.maxhigh ∧
      ((s.maxlow ≥ cfg.minAgree ∧ s.maxlow * 4 > (sortedBounds cfg cs).length ∧
          out = cs.filter (inFinal cfg s)) ∨ out = []) := by
  unfold select at h
  simp only at h
  split at h
  · cases h
  · rename_i s hs
    refine ⟨s, hs, ?_⟩
    split at h
    · cases h
    · rename_i heq
      simp only [ne_eq, Decidable.not_not] at heq
      refine ⟨heq, ?_⟩
      split at h
      · rename_i hc
        cases h
        exact Or.inl ⟨hc.1, hc.2, rfl⟩
      · cases h; exact Or.inr rfl

/-! ### counting starts and ends -/

def isStart (b : Bound) : Bool := b.2 == .start
def isStop (b : Bound) : Bool := b.2 == .stop

def nS (l : List Bound) : Nat := l.countP isStart
def nE (l : List Bound) : Nat := l.countP isStop

theorem nS_append (a b : List Bound) : nS (a ++ b) = nS a + nS b := List.countP_append
theorem nE_append (a b : List Bound) : nE (a ++ b) = nE a + nE b := List.countP_append

/-- invariant of the sweep after the prefix `done`: `cur` is (#starts − #ends), and `maxlow` is that
    difference right after some Start bound whose time is `maxtlow` -/
structure Inv (done : List Bound) (s : Sweep) : Prop where
  bal : s.cur + nE done = nS done
  wit : s.maxlow = 0 ∨ ∃ pre suf t, done = pre ++ (t, BT.start) :: suf ∧ s.maxtlow = t ∧
          s.maxlow + nE pre = nS pre + 1

theorem inv_init : Inv [] Sweep.init := ⟨rfl, Or.inl rfl⟩

theorem inv_step {done : List Bound} {s s1 : Sweep} {b : Bound} (hi : Inv done s)
    (h : sweepStep s b = some s1) : Inv (done ++ [b]) s1 := by
  obtain ⟨t, k⟩ := b
  cases k with
  | start =>
    simp only [sweepStep] at h
    have hS : nS (done ++ [(t, BT.start)]) = nS done + 1 := by simp [nS, isStart]
    have hE : nE (done ++ [(t, BT.start)]) = nE done := by simp [nE, isStop]
    split at h
    · cases h
      refine ⟨by simp only [hS, hE]; have := hi.bal; omega, Or.inr ⟨done, [], t, rfl, rfl, ?_⟩⟩
      have := hi.bal; simp only; omega
    · cases h
      refine ⟨by simp only [hS, hE]; have := hi.bal; omega, ?_⟩
      rcases hi.wit with h0 | ⟨pre, suf, t0, e, e2, e3⟩
      · exact Or.inl h0
      · exact Or.inr ⟨pre, suf ++ [(t, BT.start)], t0, by simp [e], e2, e3⟩
  | stop =>
    simp only [sweepStep] at h
    have hS : nS (done ++ [(t, BT.stop)]) = nS done := by simp [nS, isStart]
    have hE : nE (done ++ [(t, BT.stop)]) = nE done + 1 := by simp [nE, isStop]
    split at h
    · cases h
    · rename_i hc
      cases h
      have hw : (if s.cur > s.maxhigh then { s with maxhigh := s.cur, maxthigh := t } else s).maxlow = s.maxlow
          ∧ (if s.cur > s.maxhigh then { s with maxhigh := s.cur, maxthigh := t } else s).maxtlow = s.maxtlow := by
        split <;> exact ⟨rfl, rfl⟩
      refine ⟨by simp only [hS, hE]; have := hi.bal; omega, ?_⟩
      simp only [hw.1, hw.2]
      rcases hi.wit with h0 | ⟨pre, suf, t0, e, e2, e3⟩
      · exact Or.inl h0
      · exact Or.inr ⟨pre, suf ++ [(t, BT.stop)], t0, by simp [e], e2, e3⟩

theorem sweep_inv {rest done : List Bound} {s s' : Sweep} (hi : Inv done s)
    (h : sweep rest s = some s') : Inv (done ++ rest) s' := by
  induction rest generalizing done s with
  | nil => simp only [sweep, Option.some.injEq] at h; subst h; simpa using hi
  | cons b bs ih =>
    simp only [sweep] at h
    split at h
    · cases h
    · rename_i s1 hs1
      have := ih (inv_step hi hs1) h
      simpa using this

/-! ### from bounds back to candidates -/

def elig (cfg : Cfg) (cs : List Cand) : List Cand := cs.filter (eligible cfg)

theorem countP_bounds (cfg : Cfg) (cs : List Cand) (p : Bound → Bool) :
    (bounds cfg cs).countP p =
      (elig cfg cs).countP (fun c => p (lo cfg c, .start)) + (elig cfg cs).countP (fun c => p (hi cfg c, .stop)) := by
  induction cs with
  | nil => rfl
  | cons c cs ih =>
    unfold bounds elig
    by_cases he : eligible cfg c = true
    · simp only [he, if_true, List.filter_cons_of_pos, List.countP_cons]
      unfold elig at ih
      rw [ih]; omega
    · simp only [he, if_false, Bool.false_eq_true]
      rw [List.filter_cons_of_neg he]
      exact ih

theorem length_bounds (cfg : Cfg) (cs : List Cand) : (bounds cfg cs).length = 2 * (elig cfg cs).length := by
  induction cs with
  | nil => rfl
  | cons c cs ih =>
    unfold bounds elig
    by_cases he : eligible cfg c = true
    · simp only [he, if_true, List.filter_cons_of_pos, List.length_cons]
      unfold elig at ih; omega
    · simp only [he, if_false, Bool.false_eq_true]
      rw [List.filter_cons_of_neg he]
      exact ih

theorem countP_and_ge {α : Type} (p q : α → Bool) (l : List α) :
    l.countP p ≤ l.countP (fun a => p a && q a) + l.countP (fun a => !q a) := by
  induction l with
  | nil => simp
  | cons a l ih =>
    simp only [List.countP_cons]
    cases hp : p a <;> cases hq : q a <;> simp <;> omega

/-- the candidates (among the eligible ones) whose computed interval contains `x` in the total order -/
def agreeing (cfg : Cfg) (cs : List Cand) (x : F64) : List Cand :=
  (elig cfg cs).filter (fun c => F64.totalLe (lo cfg c) x && F64.totalLe x (hi cfg c))

/-- **the counting step**: if the sorted bound list splits as `pre ++ (t, Start) :: suf`, at least
    (#starts − #ends) of `pre ++ [(t, Start)]` eligible candidates have `lo ≤ t ≤ hi`. -/
theorem agreeing_ge (cfg : Cfg) (cs : List Cand) (pre suf : List Bound) (t : F64)
    (hsplit : sortedBounds cfg cs = pre ++ (t, BT.start) :: suf) :
    nS pre + 1 ≤ (agreeing cfg cs t).length + nE pre := by
  have hpw := sortedBounds_pairwise cfg cs
  rw [hsplit] at hpw
  obtain ⟨_, hp2, hp3⟩ := List.pairwise_append.mp hpw
  have hpre : ∀ x ∈ pre, F64.totalLe x.1 t = true := fun x hx => hp3 x hx _ (List.mem_cons_self ..)
  have hsuf : ∀ y ∈ suf, F64.totalLe t y.1 = true := fun y hy => (List.pairwise_cons.mp hp2).1 y hy
  let pS : Bound → Bool := fun b => isStart b && F64.totalLe b.1 t
  let pE : Bound → Bool := fun b => isStop b && !F64.totalLe t b.1
  -- starts in the prefix are counted by pS over the whole list
  have h1 : nS pre + 1 ≤ (sortedBounds cfg cs).countP pS := by
    rw [hsplit, List.countP_append, List.countP_cons]
    have : nS pre ≤ pre.countP pS := by
      apply List.countP_mono_left
      intro x hx hs
      simp only [pS, hs, hpre x hx, Bool.and_self]
    have ht : pS (t, BT.start) = true := by simp [pS, isStart, totalLe_refl]
    simp only [ht, if_true]
    omega
  -- ends strictly before t all lie in the prefix
  have h2 : (sortedBounds cfg cs).countP pE ≤ nE pre := by
    rw [hsplit, List.countP_append, List.countP_cons]
    have hz : suf.countP pE = 0 := by
      apply List.countP_eq_zero.mpr
      intro y hy
      simp [pE, hsuf y hy]
    have ht : pE (t, BT.start) = false := by simp [pE, isStop]
    have : pre.countP pE ≤ nE pre := by
      apply List.countP_mono_left
      intro x _ hs
      simp only [pE, Bool.and_eq_true] at hs
      exact hs.1
    simp only [ht, hz]
    simp only [Bool.false_eq_true, if_false]
    omega
  rw [(sortedBounds_perm cfg cs).countP_eq, countP_bounds] at h1 h2
  have e1 : (elig cfg cs).countP (fun c => pS (hi cfg c, BT.stop)) = 0 := by
    apply List.countP_eq_zero.mpr; intro c _; simp [pS, isStart]
  have e2 : (elig cfg cs).countP (fun c => pE (lo cfg c, BT.start)) = 0 := by
    apply List.countP_eq_zero.mpr; intro c _; simp [pE, isStop]
  rw [e1] at h1
  rw [e2] at h2
  have e3 : (elig cfg cs).countP (fun c => pS (lo cfg c, BT.start)) =
      (elig cfg cs).countP (fun c => F64.totalLe (lo cfg c) t) := by
    congr 1
  have e4 : (elig cfg cs).countP (fun c => pE (hi cfg c, BT.stop)) =
      (elig cfg cs).countP (fun c => !F64.totalLe t (hi cfg c)) := by
    congr 1
  have e3' : ∀ c, pS (lo cfg c, BT.start) = F64.totalLe (lo cfg c) t := by
    intro c; simp [pS, isStart]
  have e4' : ∀ c, pE (hi cfg c, BT.stop) = !F64.totalLe t (hi cfg c) := by
    intro c; simp [pE, isStop]
  simp only [e3'] at h1
  simp only [e4'] at h2
  have h3 := countP_and_ge (fun c => F64.totalLe (lo cfg c) t) (fun c => F64.totalLe t (hi cfg c)) (elig cfg cs)
  have h4 : (agreeing cfg cs t).length =
      (elig cfg cs).countP (fun c => F64.totalLe (lo cfg c) t && F64.totalLe t (hi cfg c)) := by
    unfold agreeing; rw [List.countP_eq_length_filter]
  omega

end NtpVerif.Select
