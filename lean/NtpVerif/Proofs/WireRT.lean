/-
Helper lemmas for C24: a packet accepted without keys can be encoded again.  Core Lean only.
-/
import NtpVerif.Proofs.Wire

namespace NtpVerif.Wire

/-! ### what the encoder needs of a field -/

/-- the field can be encoded: its data fits a 16-bit field length and it is not the marker of an
    undecryptable field -/
def EF.Enc : EF → Prop
  | .uniqueId b => b.length ≤ 65531
  | .cookie b => b.length ≤ 65531
  | .draftId b => b.length ≤ 65531
  | .unknown _ b => b.length ≤ 65531
  | .placeholder n => n ≤ 65531
  | .invalidEnc => False
  | .padding n => 4 ≤ n ∧ n - 4 ≤ 65531
  | .refIdReq pl _ => pl + 4 ≤ 65535
  | .refIdResp b => b.length + 4 ≤ 65535

theorem encodeGeneric_ok (ty : Nat) (d : Bytes) (m : Nat) (ver : Ver) (h : d.length ≤ 65531) :
    ∃ bs, encodeGeneric ty d m ver = .ok bs := by
  unfold encodeGeneric framing padding
  have : ¬ d.length > 65535 - 4 := by omega
  simp [this, bind, Except.bind, pure, Except.pure]

theorem EF.serialize_ok {f : EF} (h : f.Enc) (m : Nat) (ver : Ver) : ∃ bs, f.serialize m ver = .ok bs := by
  cases f with
  | uniqueId b => exact encodeGeneric_ok _ _ _ _ h
  | cookie b => exact encodeGeneric_ok _ _ _ _ h
  | draftId b => exact encodeGeneric_ok _ _ _ _ h
  | unknown t b => exact encodeGeneric_ok _ _ _ _ h
  | placeholder n =>
    have h' : n ≤ 65531 := h
    exact encodeGeneric_ok _ _ _ _ (by simpa [zeros] using h')
  | invalidEnc => exact absurd h (by simp [EF.Enc])
  | padding n =>
    obtain ⟨h1, h2⟩ := h
    unfold EF.serialize
    have : ¬ n < 4 := by omega
    simp only [this, if_false]
    exact encodeGeneric_ok _ _ _ _ (by simpa [zeros] using h2)
  | refIdReq pl off =>
    unfold EF.serialize
    have h' : pl + 4 ≤ 65535 := h
    have : ¬ pl + 4 > 65535 := by omega
    simp [this]
  | refIdResp b =>
    unfold EF.serialize
    have h' : b.length + 4 ≤ 65535 := h
    have : ¬ b.length + 4 > 65535 := by omega
    simp [this]

theorem decode_enc {ty : Nat} {msg : Bytes} {ver : Ver} {f : EF} (h : decode ty msg ver = .ok f)
    (hl : msg.length ≤ 65531) : f.Enc := by
  unfold decode at h
  repeat' split at h
  all_goals first
    | (cases h; done)
    | (cases h; simp only [EF.Enc]; omega)

theorem serializeUntrusted_ok (ver : Ver) : ∀ fs : List EF, (∀ f ∈ fs, f.Enc) →
    ∃ bs, serializeUntrusted ver fs = .ok bs := by
  intro fs
  induction fs with
  | nil => intro _; exact ⟨[], rfl⟩
  | cons f rest ih =>
    intro h
    have hf := h f List.mem_cons_self
    have hr : ∀ g ∈ rest, g.Enc := fun g hg => h g (List.mem_cons_of_mem _ hg)
    cases rest with
    | nil =>
      unfold serializeUntrusted
      exact EF.serialize_ok hf _ _
    | cons g rest' =>
      unfold serializeUntrusted
      obtain ⟨b, hb⟩ := ih hr
      cases ver with
      | v4 =>
        obtain ⟨a, ha⟩ := EF.serialize_ok hf 16 .v4
        simp [ha, hb, bind, Except.bind, pure, Except.pure]
      | v5 =>
        obtain ⟨a, ha⟩ := EF.serialize_ok hf 4 .v5
        simp [ha, hb, bind, Except.bind, pure, Except.pure]

/-! ### without keys nothing is authenticated, and an accepted packet has encodable fields only -/

def EFState.Plain (st : EFState) : Prop :=
  st.ef.authenticated = [] ∧ st.ef.encrypted = [] ∧ (st.valid = true → ∀ f ∈ st.ef.untrusted, f.Enc)

theorem efStep_plain {dec : Dec} {data : Bytes} {hs : Nat} {ver : Ver} {st st' : EFState} {off ty : Nat}
    {msg : Bytes} {wl : Nat} (hst : st.Plain) (hm : msg.length ≤ 65531)
    (h : efStep dec .noCipher data hs ver st off ty msg wl = .ok st') : st'.Plain := by
  unfold efStep at h
  simp only at h
  split at h
  · split at h
    · cases h
    · simp only [Ctx.get] at h
      cases h
      exact ⟨hst.1, hst.2.1, by intro hv; simp [EFState.pushInvalid] at hv⟩
  · split at h
    · cases h
    · rename_i f hf
      cases h
      refine ⟨hst.1, hst.2.1, ?_⟩
      intro hv g hg
      simp only [List.mem_append, List.mem_singleton] at hg
      cases hg with
      | inl hg => exact hst.2.2 hv g hg
      | inr hg => subst hg; exact decode_enc hf hm

theorem efLoop_plain {dec : Dec} {data : Bytes} {hs : Nat} {ver : Ver} (lim : Nat) :
    ∀ (items : List Item) (st st' : EFState), (∀ it ∈ items, ItemOK ver lim it) → st.Plain →
      efLoop dec .noCipher data hs ver items st = .ok st' → st'.Plain := by
  intro items
  induction items with
  | nil => intro st st' _ hp h; unfold efLoop at h; cases h; exact hp
  | cons it rest ih =>
    intro st st' hok hp h
    have hit := hok it List.mem_cons_self
    have hrest : ∀ it ∈ rest, ItemOK ver lim it := fun x hx => hok x (List.mem_cons_of_mem _ hx)
    cases it with
    | err e => unfold efLoop at h; cases h
    | panic => unfold efLoop at h; cases h
    | fuel => unfold efLoop at h; cases h
    | field off ty msg wl =>
      unfold efLoop at h
      split at h
      · cases h
      · rename_i st1 h1
        exact ih st1 st' hrest (efStep_plain hp hit.2.2 h1) h

theorem efDeserialize_plain {dec : Dec} {data : Bytes} {hs : Nat} {ver : Ver} {r : EFResult}
    (h : efDeserialize dec .noCipher data hs ver = .ok r) :
    r.ef.authenticated = [] ∧ r.ef.encrypted = [] ∧ (r.valid = true → ∀ f ∈ r.ef.untrusted, f.Enc) := by
  unfold efDeserialize at h
  split at h
  · cases h
  · rename_i body _
    split at h
    · cases h
    · rename_i st hst
      split at h
      · cases h
      · cases h
        have := efLoop_plain (dec := dec) (data := data) (hs := hs) (ver := ver) body.length _ .init st
          (stream_ok body _ _ ver) (by simp [EFState.Plain, EFState.init, EFData.empty]) hst
        exact this

/-! ### header encoders never fail on decoded headers -/

theorem beNat_aux : ∀ (bs : Bytes) (acc k : Nat), acc < 256 ^ k →
    bs.foldl (fun a b => a * 256 + b.toNat) acc < 256 ^ (k + bs.length) := by
  intro bs
  induction bs with
  | nil => intro acc k h; simpa using h
  | cons b rest ih =>
    intro acc k h
    have hb := b.toNat_lt
    have : acc * 256 + b.toNat < 256 ^ (k + 1) := by
      rw [Nat.pow_succ]; omega
    have := ih (acc * 256 + b.toNat) (k + 1) this
    have e : k + 1 + rest.length = k + (rest.length + 1) := by omega
    rw [List.length_cons, List.foldl_cons, ← e]
    exact this

theorem beNat_lt (bs : Bytes) : beNat bs < 256 ^ bs.length := by
  have := beNat_aux bs 0 0 (by decide)
  rw [Nat.zero_add] at this
  exact this

theorem durToShort_ok {bs : Bytes} (h : bs.length = 4) : ∃ o, durToShort (durFromShort bs) = .ok o := by
  have := beNat_lt bs
  rw [h] at this
  have h4 : (256 : Nat) ^ 4 = 4294967296 := by decide
  rw [h4] at this
  unfold durToShort durFromShort
  have h1 : ¬ ((beNat bs : Int) * 65536 < 0) := by omega
  have h2 : ¬ ((beNat bs : Int) * 65536 > 0x0000FFFFFFFFFFFF) := by omega
  simp [h1, h2]

theorem durToTime32_ok (bs : Bytes) : ∃ o, durToTime32 (durFromTime32 bs) = .ok o := by
  unfold durToTime32 durFromTime32
  have h1 : ¬ ((beNat bs : Int) * 16 < 0) := by omega
  simp [h1]

theorem durToTime32_eq (bs : Bytes) : durToTime32 (durFromTime32 bs) =
    .ok (toBE 4 (if (durFromTime32 bs).toNat / 16 > 4294967295 then 4294967295
                 else (durFromTime32 bs).toNat / 16)) := by
  unfold durToTime32
  have h1 : ¬ (durFromTime32 bs < 0) := by unfold durFromTime32; omega
  simp [h1]

theorem take_drop_length (data : Bytes) (a n : Nat) (h : a + n ≤ data.length) :
    ((data.drop a).take n).length = n := by
  simp [List.length_take, List.length_drop]; omega

theorem headerV34_serialize_ok {data : Bytes} {h : HeaderV34} {hs : Nat}
    (e : HeaderV34.deserialize data = .ok (h, hs)) (v : Nat) : ∃ o, h.serialize v = .ok o := by
  unfold HeaderV34.deserialize at e
  have hc : Gen.HEADER_V3V4_WIRE_LENGTH = 48 := rfl
  rw [hc] at e
  split at e
  · cases e
  · rename_i hl
    have e1 := sliceP_of_le (bs := data) (a := 4) (b := 8) (by omega) (by omega)
    have e2 := sliceP_of_le (bs := data) (a := 8) (b := 12) (by omega) (by omega)
    simp only [bind, Except.bind, pure, Except.pure, e1, e2] at e
    repeat' split at e
    all_goals first
      | (cases e; done)
      | (cases e
         obtain ⟨a, ha⟩ := durToShort_ok (take_drop_length data 4 (8 - 4) (by omega))
         obtain ⟨b, hb⟩ := durToShort_ok (take_drop_length data 8 (12 - 8) (by omega))
         simp [HeaderV34.serialize, ha, hb, bind, Except.bind, pure, Except.pure])

theorem fixLeap_durs (h : HeaderV5) :
    h.fixLeap.rootDelay = h.rootDelay ∧ h.fixLeap.rootDispersion = h.rootDispersion := by
  unfold HeaderV5.fixLeap
  split
  · exact ⟨rfl, rfl⟩
  · split <;> exact ⟨rfl, rfl⟩

theorem headerV5_serialize_ok {data : Bytes} {h : HeaderV5} {hs : Nat}
    (e : HeaderV5.deserialize data = .ok (h, hs)) : ∃ o, h.serialize = .ok o := by
  unfold HeaderV5.deserialize at e
  split at e
  · cases e
  · simp only [bind, Except.bind, pure, Except.pure] at e
    repeat' split at e
    all_goals first
      | (cases e; done)
      | (cases e
         simp [HeaderV5.serialize, fixLeap_durs, durToTime32_eq, bind, Except.bind, pure, Except.pure])

/-! ### the whole packet -/

def Packet.Encodable (p : Packet) : Prop :=
  (match p.header with
    | .v3 h => ∃ o, h.serialize 3 = .ok o
    | .v4 h => ∃ o, h.serialize 4 = .ok o
    | .v5 h => ∃ o, h.serialize = .ok o) ∧
  p.ef.authenticated = [] ∧ p.ef.encrypted = [] ∧ ∀ f ∈ p.ef.untrusted, f.Enc

theorem constructPacket_fields {header : Header} {remaining : Bytes} {ef : EFData} {p : Packet}
    (h : constructPacket header remaining ef = .ok p) : p.header = header ∧ p.ef = ef := by
  unfold constructPacket at h
  split at h
  · simp only [bind, Except.bind, pure, Except.pure] at h
    split at h
    · cases h
    · cases h; exact ⟨rfl, rfl⟩
  · cases h; exact ⟨rfl, rfl⟩

theorem parseEF_plain {dec : Dec} {data : Bytes} {header : Header} {hs : Nat} {ver : Ver} {p : Packet}
    {c : Option Cookie} (h : parseEF dec .noCipher data header hs ver = .ok (p, c, true)) :
    p.header = header ∧ p.ef.authenticated = [] ∧ p.ef.encrypted = [] ∧ ∀ f ∈ p.ef.untrusted, f.Enc := by
  unfold parseEF at h
  simp only [bind, Except.bind, pure, Except.pure] at h
  split at h
  · cases h
  · rename_i r hr
    split at h
    · cases h
    · rename_i p' hp'
      simp only [Except.ok.injEq, Prod.mk.injEq] at h
      obtain ⟨hp, _, hv⟩ := h
      subst hp
      obtain ⟨h1, h2⟩ := constructPacket_fields hp'
      obtain ⟨a, b, c⟩ := efDeserialize_plain hr
      rw [h2]
      exact ⟨h1, a, b, c hv⟩

theorem parseR_encodable {dec : Dec} {data : Bytes} {p : Packet} {c : Option Cookie}
    (h : parseR dec .noCipher data = .ok (p, c, true)) : p.Encodable := by
  unfold parseR at h
  split at h
  · cases h
  · simp only at h
    split at h
    · -- v3
      simp only [bind, Except.bind, pure, Except.pure] at h
      split at h
      · cases h
      · rename_i x hx
        obtain ⟨hd, hs⟩ := x
        have hser := headerV34_serialize_ok hx 3
        simp only at h
        split at h
        · split at h
          · cases h
          · split at h
            · cases h
            · cases h
              exact ⟨hser, rfl, rfl, by intro f hf; cases hf⟩
        · cases h
          exact ⟨hser, rfl, rfl, by intro f hf; cases hf⟩
    · split at h
      · -- v4
        simp only [bind, Except.bind, pure, Except.pure] at h
        split at h
        · cases h
        · rename_i x hx
          obtain ⟨hd, hs⟩ := x
          have hser := headerV34_serialize_ok hx 4
          simp only at h
          obtain ⟨h1, h2, h3, h4⟩ := parseEF_plain h
          refine ⟨?_, h2, h3, h4⟩
          rw [h1]; exact hser
      · split at h
        · -- v5
          simp only [bind, Except.bind, pure, Except.pure] at h
          split at h
          · cases h
          · rename_i x hx
            obtain ⟨hd, hs⟩ := x
            have hser := headerV5_serialize_ok hx
            simp only at h
            split at h
            · cases h
            · rename_i y hy
              obtain ⟨p', c', v'⟩ := y
              simp only at h
              have key : v' = true → p'.Encodable := by
                intro hv; subst hv
                obtain ⟨h1, h2, h3, h4⟩ := parseEF_plain hy
                refine ⟨?_, h2, h3, h4⟩
                rw [h1]; exact hser
              split at h
              · cases h; rename_i hv; exact absurd rfl hv
              · split at h
                · cases h; exact key rfl
                · cases h
        · cases h

theorem Packet.serialize_ok {p : Packet} (h : p.Encodable) : ∃ r, p.serialize none none = .ok r := by
  obtain ⟨hh, ha, he, hu⟩ := h
  have hef : ∀ ver, ∃ u, p.ef.serialize ver none = .ok (u, none) := by
    intro ver
    obtain ⟨u, hu'⟩ := serializeUntrusted_ok ver _ hu
    refine ⟨u, ?_⟩
    unfold EFData.serialize
    simp [ha, he, hu', bind, Except.bind, pure, Except.pure]
  unfold Packet.serialize
  cases hp : p.header with
  | v3 h =>
    rw [hp] at hh
    obtain ⟨o, ho⟩ := hh
    simp [ho, bind, Except.bind, pure, Except.pure]
  | v4 h =>
    rw [hp] at hh
    obtain ⟨o, ho⟩ := hh
    obtain ⟨u, hu'⟩ := hef .v4
    simp [ho, hu', bind, Except.bind, pure, Except.pure]
  | v5 h =>
    rw [hp] at hh
    obtain ⟨o, ho⟩ := hh
    obtain ⟨u, hu'⟩ := hef .v5
    simp [ho, hu', bind, Except.bind, pure, Except.pure]

end NtpVerif.Wire
