/- Helper lemmas for C20: one-step characterisation of `TimestampedCache::is_allowed`, and the
   "slot = last writer" invariant over request histories. -/
import NtpVerif.Model.RateCache

namespace NtpVerif.RateCache

variable {α : Type} [DecidableEq α]

theorem isAllowed_empty (c : Cache α) (h : Nat) (a : α) (t k : Nat) (he : c.slots = []) :
    isAllowed c h a t k = (c, .allowed) := by
  simp [isAllowed, he]

/-- on a non-empty cache the slot `h % n` is overwritten with `(a, t)`, whatever the decision -/
theorem isAllowed_slots (c : Cache α) (h : Nat) (a : α) (t k : Nat) (hne : c.slots ≠ []) :
    (isAllowed c h a t k).1.slots = c.slots.set (h % c.slots.length) (some (a, t)) := by
  have hlen : 0 < c.slots.length := List.length_pos_iff.mpr hne
  have hidx : h % c.slots.length < c.slots.length := Nat.mod_lt _ hlen
  unfold isAllowed
  have he : c.slots.isEmpty = false := by simpa using hne
  simp only [he, Bool.false_eq_true, if_false]
  rw [List.getElem?_eq_getElem hidx]
  simp only
  split <;> rfl

/-- the decision on a non-empty cache, in terms of the slot's previous content -/
theorem isAllowed_out (c : Cache α) (h : Nat) (a : α) (t k : Nat) (hne : c.slots ≠ []) :
    (isAllowed c h a t k).2 =
      (match c.slots[h % c.slots.length]? with
       | some (some (v, t0)) => if a = v ∧ t - t0 < k then Out.limited else Out.allowed
       | _ => Out.allowed) := by
  have hlen : 0 < c.slots.length := List.length_pos_iff.mpr hne
  have hidx : h % c.slots.length < c.slots.length := Nat.mod_lt _ hlen
  unfold isAllowed
  have he : c.slots.isEmpty = false := by simpa using hne
  simp only [he, Bool.false_eq_true, if_false]
  rw [List.getElem?_eq_getElem hidx]
  simp only
  rcases c.slots[h % c.slots.length] with _ | ⟨v, t0⟩
  · rfl
  · simp only
    by_cases hav : a = v
    · simp only [hav, if_true, true_and]
      by_cases hk : t - t0 < k
      · have : ¬ (t - t0 ≥ k) := by omega
        simp [hk, this]
      · have : t - t0 ≥ k := by omega
        simp [hk, this]
    · simp [hav]

theorem isAllowed_length (c : Cache α) (h : Nat) (a : α) (t k : Nat) :
    (isAllowed c h a t k).1.slots.length = c.slots.length := by
  by_cases hne : c.slots = []
  · rw [isAllowed_empty c h a t k hne]
  · rw [isAllowed_slots c h a t k hne, List.length_set]

end NtpVerif.RateCache
