/- C43: the "no sleeping internal untracked link" invariant over whole controller histories. -/
import NtpVerif.Proofs.PtpFilter

set_option linter.unusedSimpArgs false
set_option linter.unusedVariables false

namespace NtpVerif.PtpFilter
open NtpVerif.Estimator NtpVerif.PtpCtrl

theorem progress_links {f f' : Filter} {t : Nat} (h : f.progress t = .ok f') : f'.links = f.links := by
  rw [Filter.progress_eq] at h
  cases hx : liftE (progressTime f.est t) with
  | error e => rw [hx] at h; cases h
  | ok est => rw [hx] at h; cases h; rfl

theorem absorbFrequency_links {f f' : Filter} {c : Nat} {d : F64} (h : f.absorbFrequency c d = .ok f') :
    f'.links = f.links := by
  unfold Filter.absorbFrequency at h
  obtain ⟨est, _, h⟩ := bindE h
  cases h; rfl

theorem steerOffsets_spec (l : FLink) (clock : Nat) (ch : F64) :
    (l.steerOffsets clock ch).active = l.active ∧ (l.steerOffsets clock ch).tracked = l.tracked ∧
    ((l.steerOffsets clock ch).ext = none ↔ l.ext = none) := by
  unfold FLink.steerOffsets
  cases hx : l.ext with
  | none => simp [hx]
  | some e =>
    by_cases hh : linkHas l.id clock = true
    · simp [hh, hx]
    · simp [hh, hx]

theorem noSleeper_map {f : Filter} (hf : NoSleeper f) (g : FLink → FLink)
    (hg : ∀ l, (g l).active = l.active ∧ ((g l).tracked = none ↔ l.tracked = none) ∧
      ((g l).ext = none ↔ l.ext = none)) (est : E) : NoSleeper { links := f.links.map g, est } := by
  intro l' hl' h1 h2
  obtain ⟨l, hl, rfl⟩ := List.mem_map.mp hl'
  obtain ⟨a, b, c⟩ := hg l
  rw [a]
  exact hf l hl (b.mp h1) (c.mp h2)

theorem noSleeper_absorbOffset {f f' : Filter} {c : Nat} {d : F64} (hf : NoSleeper f)
    (h : f.absorbOffset c d = .ok f') : NoSleeper f' := by
  unfold Filter.absorbOffset at h
  obtain ⟨est, _, h⟩ := bindE h
  cases h
  apply noSleeper_map hf
  intro l
  obtain ⟨a, b, c'⟩ := steerOffsets_spec
    { l with tracked := l.tracked.map fun (nz, d) => (nz.absorbOffset l.id c, d) } c d
  refine ⟨a, ?_, c'⟩
  rw [b]
  simp

theorem noSleeper_absorbSystem {f f' : Filter} {c : Nat} {d : Int} (hf : NoSleeper f)
    (h : f.absorbSystem c d = .ok f') : NoSleeper f' := by
  unfold Filter.absorbSystem at h
  obtain ⟨est, _, h⟩ := bindE h
  cases h
  apply noSleeper_map hf
  intro l
  obtain ⟨a, b, c'⟩ := steerOffsets_spec
    { l with tracked := l.tracked.map fun (nz, d') => (nz.absorbSystem l.id c d, d') } c (durAsSeconds d)
  refine ⟨a, ?_, c'⟩
  rw [b]
  simp

theorem noSleeper_steerClock (read : Filter) (leap : Option Leap) (rd : Int) (acc : SteerAcc)
    (index id : Nat) (m : Mock) (h : NoSleeper acc.filter) :
    NoSleeper (steerClock read leap rd acc index id m).filter := by
  unfold steerClock
  cases herr : acc.err with
  | some e => exact h
  | none =>
    simp only
    cases hoff : liftE (clockOffset read.est id) with
    | error e => exact h
    | ok ou =>
      obtain ⟨offset, unc⟩ := ou
      simp only
      cases hfr : (if wantsFreq offset unc = true then
          Except.map (fun x => x.fst) (liftE (clockFrequency read.est id)) else Except.ok F64.zero) with
      | error e => exact h
      | ok freq =>
        simp only
        cases hact : steerOne (index == 0) offset unc freq m.freq m.max with
        | panic => exact h
        | setFreq actual change =>
          simp only
          cases habs : acc.filter.absorbFrequency id change with
          | error e => exact h
          | ok filter => exact noSleeper_of_links (absorbFrequency_links habs) h
        | step dur absorbed =>
          simp only
          cases habs : (if (index == 0) = true then acc.filter.absorbSystem id dur
              else acc.filter.absorbOffset id offset.neg) with
          | error e => exact h
          | ok filter =>
            simp only
            by_cases h0 : (index == 0) = true
            · rw [if_pos h0] at habs; exact noSleeper_absorbSystem h habs
            · rw [if_neg h0] at habs; exact noSleeper_absorbOffset h habs

theorem noSleeper_steerLoop (read : Filter) (leap : Option Leap) (rd : Int) :
    ∀ (cs : List (Nat × Mock)) (acc : SteerAcc) (i : Nat), NoSleeper acc.filter →
      NoSleeper (steerLoop read leap rd acc i cs).filter
  | [], acc, i, h => by simpa [steerLoop] using h
  | (id, m) :: rest, acc, i, h => by
    simp only [steerLoop]
    exact noSleeper_steerLoop read leap rd rest _ (i + 1) (noSleeper_steerClock read leap rd acc i id m h)

theorem noSleeper_steerClocks {c c' : Ctrl} {r : RF (List SteerLog)} (hf : NoSleeper c.filter)
    (h : c.steerClocks = (c', r)) : NoSleeper c'.filter := by
  unfold Ctrl.steerClocks at h
  cases hs : c.steerAcc with
  | error e => simp only [hs] at h; cases h; exact hf
  | ok p =>
    obtain ⟨rd, acc⟩ := p
    simp only [hs] at h
    have hacc : NoSleeper acc.filter := by
      unfold Ctrl.steerAcc at hs
      split at hs
      · cases hs
      · obtain ⟨progressed, hp, hs⟩ := bindE hs
        obtain ⟨leap, _, hs⟩ := bindE hs
        obtain ⟨r', _, hs⟩ := bindE hs
        simp only [pure, Except.pure, Except.ok.injEq, Prod.mk.injEq] at hs
        obtain ⟨_, rfl⟩ := hs
        apply noSleeper_steerLoop
        exact noSleeper_of_links (progress_links hp) hf
    cases herr : acc.err with
    | some e => simp only [herr] at h; cases h; exact hf
    | none => simp only [herr] at h; cases h; exact hacc

theorem noSleeper_ctrl_measurement {c c' : Ctrl} {id : LinkId} {fwd : Bool} {d u : Int}
    {r : RF (List SteerLog)} (hf : NoSleeper c.filter) (h : c.measurement id fwd d u = (c', r)) :
    NoSleeper c'.filter := by
  unfold Ctrl.measurement at h
  split at h
  · cases h; exact hf
  · cases hp : c.filter.progress c.now with
    | error e => simp only [hp] at h; cases h; exact hf
    | ok f1 =>
      simp only [hp] at h
      have h1 : NoSleeper f1 := noSleeper_of_links (progress_links hp) hf
      cases hm : f1.measurement c.cfg id fwd (durAsSeconds d) (durAsSeconds u) with
      | error e => simp only [hm] at h; cases h; exact h1
      | ok f2 =>
        simp only [hm] at h
        exact noSleeper_steerClocks (c := { c with filter := f2 }) (noSleeper_measurement h1 hm) h

theorem est_only_links {f f' : Filter} {x : R E} (h : (do let est ← liftE x; pure ({ f with est } : Filter)) = .ok f') :
    f'.links = f.links := by
  obtain ⟨est, _, h⟩ := bindE h
  cases h; rfl

theorem noSleeper_apply {c : Ctrl} (hf : NoSleeper c.filter) (op : COp) : NoSleeper (c.apply op).1.filter := by
  cases op with
  | tick d => exact hf
  | addClock m w =>
    simp only [Ctrl.apply, Ctrl.addClock]
    split
    · rename_i filter hx
      exact noSleeper_of_links (est_only_links hx) hf
    · exact hf
  | addExt =>
    simp only [Ctrl.apply, Ctrl.addExternalClock]
    split
    · rename_i filter hx
      exact noSleeper_of_links (est_only_links hx) hf
    · exact hf
  | rmExt id =>
    simp only [Ctrl.apply, Ctrl.removeExternalClock]
    split
    · rename_i filter hx
      exact noSleeper_of_links (est_only_links hx) hf
    · exact hf
  | rmClock id =>
    simp only [Ctrl.apply, Ctrl.removeClock]
    split
    · exact hf
    · split
      · exact hf
      · split
        · exact hf
        · split
          · rename_i filter hx
            unfold Filter.removeClock at hx
            split at hx
            · cases hx
            · exact noSleeper_of_links (est_only_links hx) hf
          · exact hf
  | link a b decay =>
    simp only [Ctrl.apply, Ctrl.createLink]
    split
    · rename_i filter lid hx
      unfold Filter.addLinkF at hx
      simp only at hx
      split at hx
      · cases hx
      · split at hx
        · cases hx
        · split at hx
          · cases hx
          · split at hx
            · cases hx
            · rename_i h1 h2 h3 h4
              simp only [Except.ok.injEq, Prod.mk.injEq] at hx
              obtain ⟨rfl, _⟩ := hx
              intro l hl t1 t2
              simp only [List.mem_append, List.mem_singleton] at hl
              rcases hl with hl | rfl
              · exact hf l hl t1 t2
              · simp only at t1 t2 ⊢
                have hd : decay = none := by simpa using t1
                subst hd
                by_cases hi : (isInternal c.filter.est a && isInternal c.filter.est b) = true
                · simp [hi]
                · simp [hi] at t2
    · exact hf
  | drop id =>
    simp only [Ctrl.apply, Ctrl.dropLink]
    split
    · rename_i filter hx
      unfold Filter.removeLinkF at hx
      split at hx
      · cases hx
      · rename_i l hl
        have hsub : ∀ x ∈ (c.filter.links.eraseP fun l => l.id == id), x ∈ c.filter.links :=
          fun x hx => List.mem_of_mem_eraseP hx
        split at hx
        · obtain ⟨est, _, hx⟩ := bindE hx
          cases hx
          intro x hx t1 t2
          exact hf x (hsub x hx) t1 t2
        · cases hx
          intro x hx t1 t2
          exact hf x (hsub x hx) t1 t2
    · exact hf
  | extUpdate id rd leap usable =>
    simp only [Ctrl.apply, Ctrl.externalDataUpdate]
    split
    · rename_i filter hx
      unfold Filter.externalDataUpdate at hx
      split at hx
      · rename_i i l hi hl
        split at hx
        · cases hx
          exact noSleeper_set hf i _ (by intro _ t2; simp at t2) _
        · cases hx
      · cases hx
    · exact hf
  | measure id fwd d u =>
    simp only [Ctrl.apply]
    cases hm : c.measurement id fwd d u with
    | mk c' r => exact noSleeper_ctrl_measurement hf hm

theorem noSleeper_run : ∀ (ops : List COp) (c : Ctrl), NoSleeper c.filter → NoSleeper (c.run ops).1.filter
  | [], c, h => h
  | op :: ops, c, h => by
    simp only [Ctrl.run]
    exact noSleeper_run ops _ (noSleeper_apply h op)

theorem noSleeper_new {now : Nat} {max w : F64} {cfg : Cfg} {c : Ctrl} (h : Ctrl.new now max w cfg = .ok c) :
    NoSleeper c.filter := by
  unfold Ctrl.new at h
  obtain ⟨filter, hf, h⟩ := bindE h
  cases h
  have : filter.links = (Filter.empty now).links := est_only_links hf
  intro l hl
  rw [this] at hl
  cases hl

end NtpVerif.PtpFilter
