/- Simulation of the whole-controller model (`Model/Controller`) by the steering model (`Model/Steer`). -/
import NtpVerif.Model.Controller
import NtpVerif.Proofs.Steer

namespace NtpVerif.Controller
open NtpVerif.Steer (End)

/-- the steering events of a run, each tagged with the `in_startup` flag of its call -/
def steerTrace (outs : List (Bool × Out)) : List (Bool × Steer.Ev) :=
  outs.flatMap (fun p => p.2.evs.map (fun e => (p.1, e)))

/-- the inputs of the steering model a run amounts to -/
def inputsOf (outs : List (Bool × Out)) : List Steer.Input := outs.filterMap (·.2.inp)

/-- what one call of the whole model has to do with one call of the steering model -/
def Sim (cfg : Cfg) (st : Steer.St) (o : Out) : Prop :=
  (∀ c ∈ o.calls, c ∈ evCalls o.evs ∨
    (∃ d r td now, c = .errorEstimate d r ∧ rootDispersion td now = some d) ∨ (∃ l, c = .status l)) ∧
  match o.inp with
  | none => o.evs = [] ∧ o.fin = .panic
  | some i =>
    let r := Steer.ctrlStep cfg.steer st i
    o.evs = r.evs ∧ (o.fin = .ok → r.fin = .ok ∧ o.ctrl.st = r.st) ∧ (r.fin ≠ .ok → o.fin = r.fin) ∧
      (o.fin = .exit → r.fin = .exit)

theorem sim_noop (cfg : Cfg) (c c' : Ctrl) (p : Pub) (h : c'.st = c.st) :
    Sim cfg c.st ⟨c', [], [], .ok, p, some .noConsensus⟩ := by
  refine ⟨by simp, ?_⟩
  simp [Steer.ctrlStep, h]

theorem updateClock_sim (cfg : Cfg) (c : Ctrl) (time ft : Nat) :
    Sim cfg c.st (updateClock cfg c time ft) := by
  unfold updateClock
  split
  · exact sim_noop cfg c c _ rfl
  · simp only []
    split
    · exact ⟨by simp, by simp⟩
    · split
      · exact ⟨by simp, by simp⟩
      · exact sim_noop cfg c _ _ rfl
      · rename_i comb _
        generalize hr : Steer.ctrlUpdate cfg.steer c.st comb.est.x.x0 comb.est.x.x1 comb.est.P.a00 comb.est.P.a11 = r
        split
        · rename_i hfin
          split
          · refine ⟨fun _ hc => Or.inl hc, ?_⟩
            simp [Steer.ctrlStep, hr, hfin]
          · split
            · refine ⟨fun _ hc => Or.inl hc, ?_⟩
              simp [Steer.ctrlStep, hr, hfin]
            · refine ⟨?_, ?_⟩
              · intro call hc
                simp only [List.mem_append, List.mem_singleton] at hc
                rcases hc with (hc | hc) | hc
                · exact Or.inl hc
                · rename_i hrd
                  exact Or.inr (Or.inl ⟨_, _, _, _, hc, hrd⟩)
                · split at hc
                  · simp only [List.mem_singleton] at hc
                    exact Or.inr (Or.inr ⟨_, hc⟩)
                  · simp at hc
              · simp [Steer.ctrlStep, hr, hfin]
        · rename_i e hne
          refine ⟨fun _ hc => Or.inl hc, ?_⟩
          simp only [Steer.ctrlStep, hr, true_and]
          exact ⟨fun h => absurd h (by intro h'; exact hne h'), fun _ => trivial, fun h => h⟩

theorem step_sim (cfg : Cfg) (c : Ctrl) (m : Msg) : Sim cfg c.st (step cfg c m) := by
  cases m with
  | add id order => exact sim_noop cfg c _ _ rfl
  | remove id order => exact sim_noop cfg c _ _ rfl
  | usable id b => exact sim_noop cfg c _ _ rfl
  | source id snap ft =>
    simp only [step]
    split
    · exact updateClock_sim cfg { c with srcs := _ } snap.lastUpdate ft
    · exact sim_noop cfg c c _ rfl
  | timeUpdate ft =>
    simp only [step]
    generalize hr : Steer.ctrlStep cfg.steer c.st .timeUpdate = r
    split
    · rename_i hfin
      split
      · exact ⟨fun _ hc => Or.inl hc, by simp [hr, hfin]⟩
      · exact ⟨fun _ hc => Or.inl hc, by simp [hr, hfin]⟩
    · rename_i e hne
      refine ⟨fun _ hc => Or.inl hc, ?_⟩
      simp only [hr, true_and]
      exact ⟨fun h => absurd h (by intro h'; exact hne h'), fun _ => trivial, fun h => h⟩

theorem steer_run_single (cfg : Steer.Cfg) (st : Steer.St) (i : Steer.Input) :
    (Steer.run cfg st [i]).1 = (Steer.ctrlStep cfg st i).evs.map (fun ev => (st.inStartup, ev)) := by
  simp only [Steer.run]
  cases (Steer.ctrlStep cfg st i).fin <;> simp

/-- a call that does not end `ok` ends the run; its events are those of the steering call -/
theorem run_sim_stop (cfg : Cfg) (c : Ctrl) (o : Out)
    (hs : match o.inp with
      | none => o.evs = [] ∧ o.fin = .panic
      | some i =>
        let r := Steer.ctrlStep cfg.steer c.st i
        o.evs = r.evs ∧ (o.fin = .ok → r.fin = .ok ∧ o.ctrl.st = r.st) ∧ (r.fin ≠ .ok → o.fin = r.fin) ∧
      (o.fin = .exit → r.fin = .exit)) :
    steerTrace [(c.st.inStartup, o)] =
    (Steer.run cfg.steer c.st (inputsOf [(c.st.inStartup, o)])).1 := by
  cases hinp : o.inp with
  | none =>
    rw [hinp] at hs
    simp [steerTrace, inputsOf, hinp, hs.1, Steer.run]
  | some i =>
    rw [hinp] at hs
    simp only [steerTrace, inputsOf, List.flatMap_cons, List.flatMap_nil, List.append_nil,
      List.filterMap_cons, List.filterMap_nil, hinp]
    rw [steer_run_single, hs.1]

/-- **simulation**: the steering events of a run of the whole controller are exactly the trace of the
    steering model run on the inputs (`combine`d estimates) the whole model computed. -/
theorem run_sim (cfg : Cfg) (c : Ctrl) (msgs : List Msg) :
    steerTrace (run cfg c msgs) = (Steer.run cfg.steer c.st (inputsOf (run cfg c msgs))).1 := by
  induction msgs generalizing c with
  | nil => simp [run, steerTrace, inputsOf, Steer.run]
  | cons m ms ih =>
    have hs := (step_sim cfg c m).2
    simp only [run]
    generalize ho : step cfg c m = o at hs
    cases hfin : o.fin with
    | ok =>
      simp only []
      cases hinp : o.inp with
      | none => rw [hinp] at hs; simp [hfin] at hs
      | some i =>
        rw [hinp] at hs
        obtain ⟨hev, hok, _⟩ := hs
        obtain ⟨hrfin, hst⟩ := hok hfin
        have ih' := ih o.ctrl
        simp only [steerTrace, inputsOf, List.flatMap_cons, List.filterMap_cons, hinp] at ih' ⊢
        simp only [Steer.run, hrfin]
        rw [ih', hev, hst]
    | exit => exact run_sim_stop cfg c o hs
    | panic => exact run_sim_stop cfg c o hs

/-! ### provenance of the values handed to the clock -/

open NtpVerif.Steer in
theorem steerFrequency_mem {cfg : Steer.Cfg} {st : Steer.St} {c : F64} {ev : Ev}
    (h : ev ∈ (steerFrequency cfg st c).evs) :
    ∃ f, ev = .setFreq f ∧
      F64.clamp ((F64.one + st.freqOffset) * (F64.one + c) - F64.one) (F64.neg cfg.maxSteer) cfg.maxSteer
        = some f := by
  simp only [steerFrequency] at h
  split at h
  · simp at h
  · rename_i f' hf
    simp only [List.mem_singleton] at h
    exact ⟨f', h, hf⟩

/-- "is a `set_frequency` of the clamp of `(1 + freq_offset) * (1 + change) - 1`" -/
def IsClamp (cfg : Steer.Cfg) (st : Steer.St) (ev : Steer.Ev) : Prop :=
  ∃ (f : F64) (st' : Steer.St) (ch : F64), ev = .setFreq f ∧ st'.freqOffset = st.freqOffset ∧
    F64.clamp ((F64.one + st'.freqOffset) * (F64.one + ch) - F64.one) (F64.neg cfg.maxSteer) cfg.maxSteer = some f

open NtpVerif.Steer in
theorem steerOffset_evs {cfg : Steer.Cfg} {st : Steer.St} {c fd : F64} {ev : Ev}
    (h : ev ∈ (steerOffset cfg st c fd).evs) :
    (∃ d, ev = .step d ∧ fromSeconds c = some d) ∨ (∃ fr de, ev = .slew fr de) ∨ IsClamp cfg st ev := by
  unfold steerOffset at h
  split at h
  · split at h
    · rename_i st' d hc
      simp only [List.mem_singleton] at h
      exact Or.inl ⟨d, h, (checkOffsetSteer_ok hc).1⟩
    · simp at h
    · simp at h
  · simp only [] at h
    split at h
    · simp at h
    · simp only [List.mem_cons] at h
      rcases h with h | h
      · exact Or.inr (Or.inl ⟨_, _, h⟩)
      · unfold changeDesiredFrequency at h
        obtain ⟨f, hf, hcl⟩ := steerFrequency_mem h
        exact Or.inr (Or.inr ⟨f, _, _, hf, rfl, hcl⟩)

open NtpVerif.Steer in
/-- every event of a steering call is a `disable`, a step by `from_seconds` of some value, a slew, or a
    `set_frequency` of the clamp of `(1 + freq_offset) * (1 + change) - 1` -/
theorem ctrlStep_evs {cfg : Steer.Cfg} {st : Steer.St} {i : Input} {ev : Ev}
    (h : ev ∈ (ctrlStep cfg st i).evs) :
    ev = .disable ∨ (∃ d c, ev = .step d ∧ fromSeconds c = some d) ∨ (∃ fr de, ev = .slew fr de) ∨
    IsClamp cfg st ev := by
  cases i with
  | noConsensus => simp [ctrlStep] at h
  | timeUpdate =>
    simp only [ctrlStep, changeDesiredFrequency] at h
    obtain ⟨f, hf, hcl⟩ := steerFrequency_mem h
    exact Or.inr (Or.inr (Or.inr ⟨f, _, _, hf, rfl, hcl⟩))
  | estimate off freq ovar fvar =>
    simp only [ctrlStep, ctrlUpdate] at h
    have hdec : ∀ ev ∈ (steerDecision cfg st off freq ovar fvar).evs,
        (∃ d c, ev = .step d ∧ fromSeconds c = some d) ∨ (∃ fr de, ev = .slew fr de) ∨ IsClamp cfg st ev := by
      intro ev hev
      unfold steerDecision at hev
      simp only [] at hev
      split at hev
      · rcases steerOffset_evs hev with ⟨d, h1, h2⟩ | h2 | h2
        · exact Or.inl ⟨d, _, h1, h2⟩
        · exact Or.inr (Or.inl h2)
        · exact Or.inr (Or.inr h2)
      · split at hev
        · obtain ⟨f, hf, hcl⟩ := steerFrequency_mem hev
          exact Or.inr (Or.inr ⟨f, st, _, hf, rfl, hcl⟩)
        · simp at hev
    have hmem : ev = .disable ∨ ev ∈ (steerDecision cfg st off freq ovar fvar).evs := by
      split at h
      all_goals
        simp only [List.mem_append] at h
        rcases h with h | h
        · left
          split at h <;> simp at h
          exact h
        · right; exact h
    rcases hmem with h | h
    · exact Or.inl h
    · exact Or.inr (hdec ev h)

theorem fromSeconds_finite {x : F64} {d : Int} (h : Steer.fromSeconds x = some d) :
    x.isNaN = false ∧ x.isInf = false := by
  unfold Steer.fromSeconds at h
  split at h
  · cases h
  · rename_i hn
    simp only [Bool.or_eq_true, not_or, Bool.not_eq_true] at hn
    exact hn

theorem mem_evCalls {c : Call} {evs : List Steer.Ev} (h : c ∈ evCalls evs) :
    (c = .disable ∧ Steer.Ev.disable ∈ evs) ∨ (∃ d, c = .step d ∧ Steer.Ev.step d ∈ evs) ∨
    (∃ f, c = .setFreq f ∧ Steer.Ev.setFreq f ∈ evs) := by
  simp only [evCalls, List.mem_filterMap] at h
  obtain ⟨ev, hev, hc⟩ := h
  cases ev with
  | disable => simp only [evCall, Option.some.injEq] at hc; exact Or.inl ⟨hc.symm, hev⟩
  | step d => simp only [evCall, Option.some.injEq] at hc; exact Or.inr (Or.inl ⟨d, hc.symm, hev⟩)
  | setFreq f => simp only [evCall, Option.some.injEq] at hc; exact Or.inr (Or.inr ⟨f, hc.symm, hev⟩)
  | slew a b => simp [evCall] at hc

/-- every element of a run is the output of a call made in some controller state -/
theorem run_mem_step {cfg : Cfg} {c : Ctrl} {msgs : List Msg} {b : Bool} {o : Out}
    (h : (b, o) ∈ run cfg c msgs) : ∃ c' m, o = step cfg c' m ∧ b = c'.st.inStartup := by
  induction msgs generalizing c with
  | nil => simp [run] at h
  | cons m ms ih =>
    simp only [run] at h
    split at h
    · simp only [List.mem_cons, Prod.mk.injEq] at h
      rcases h with ⟨hb, ho⟩ | h
      · exact ⟨c, m, ho, hb⟩
      · exact ih h
    · simp only [List.mem_singleton, Prod.mk.injEq] at h
      exact ⟨c, m, h.2, h.1⟩

theorem mem_steerTrace {outs : List (Bool × Out)} {b : Bool} {o : Out} {e : Steer.Ev}
    (ho : (b, o) ∈ outs) (he : e ∈ o.evs) : (b, e) ∈ steerTrace outs := by
  simp only [steerTrace, List.mem_flatMap, List.mem_map]
  exact ⟨(b, o), ho, e, he, rfl⟩

/-- a call on the clock that stems from a steering event -/
theorem call_ev {cfg : Cfg} {c : Ctrl} {msgs : List Msg} {b : Bool} {o : Out} {call : Call}
    (ho : (b, o) ∈ run cfg c msgs) (hc : call ∈ o.calls)
    (hne : (∀ d r, call ≠ .errorEstimate d r) ∧ (∀ l, call ≠ .status l)) :
    call ∈ evCalls o.evs := by
  obtain ⟨c', m, rfl, _⟩ := run_mem_step ho
  rcases (step_sim cfg c' m).1 call hc with h | ⟨d, r, _, _, h, _⟩ | ⟨l, h⟩
  · exact h
  · exact absurd h (hne.1 d r)
  · exact absurd h (hne.2 l)

theorem step_call_in_trace {cfg : Cfg} {c : Ctrl} {msgs : List Msg} {b : Bool} {o : Out} {d : Int}
    (ho : (b, o) ∈ run cfg c msgs) (hc : Call.step d ∈ o.calls) :
    (b, Steer.Ev.step d) ∈ (Steer.run cfg.steer c.st (inputsOf (run cfg c msgs))).1 := by
  rw [← run_sim]
  have := call_ev ho hc ⟨(by intro _ _ h; cases h), (by intro _ h; cases h)⟩
  rcases mem_evCalls this with ⟨h, _⟩ | ⟨d', h, hev⟩ | ⟨f, h, _⟩
  · cases h
  · cases h; exact mem_steerTrace ho hev
  · cases h

theorem setFreq_call_in_trace {cfg : Cfg} {c : Ctrl} {msgs : List Msg} {b : Bool} {o : Out} {f : F64}
    (ho : (b, o) ∈ run cfg c msgs) (hc : Call.setFreq f ∈ o.calls) :
    (b, Steer.Ev.setFreq f) ∈ (Steer.run cfg.steer c.st (inputsOf (run cfg c msgs))).1 := by
  rw [← run_sim]
  have := call_ev ho hc ⟨(by intro _ _ h; cases h), (by intro _ h; cases h)⟩
  rcases mem_evCalls this with ⟨h, _⟩ | ⟨d', h, _⟩ | ⟨f', h, hev⟩
  · cases h
  · cases h
  · cases h; exact mem_steerTrace ho hev

/-! ### a handled measurement is always stored (C37, over the whole model) -/

/-- everything of a snapshot except its Kalman state (which `progress_time` and steering adjust) -/
def snapMeta (s : Snap) : Nat × Nat × F64 × F64 × Option F64 × Int × Int × Leap.LI :=
  (s.idx, s.lastUpdate, s.wander, s.delay, s.period, s.srcUnc, s.srcDelay, s.leap)

def entryMeta (p : Nat × Entry) :=
  (p.1, p.2.usable, p.2.snap.map snapMeta)

/-- key, usable flag and snapshot identity of every entry, in map order -/
def metaOf (m : List (Nat × Entry)) := m.map entryMeta

theorem metaOf_mapSnaps (m : List (Nat × Entry)) (f : Snap → Snap) (hf : ∀ s, snapMeta (f s) = snapMeta s) :
    metaOf (mapSnaps m f) = metaOf m := by
  simp only [metaOf, mapSnaps, List.map_map]
  apply List.map_congr_left
  intro p _
  obtain ⟨k, e⟩ := p
  cases hs : e.snap <;> simp [entryMeta, hs, hf]

theorem offsetSteerAll_meta {m m' : List (Nat × Entry)} {ch : F64} (h : offsetSteerAll m ch = some m') :
    metaOf m' = metaOf m := by
  unfold offsetSteerAll at h
  split at h
  · split at h
    · cases h; rfl
    · cases h
  · cases h
    apply metaOf_mapSnaps
    intro s
    split <;> rfl

theorem bookkeep_meta {m m' : List (Nat × Entry)} {ch fo : F64} {ft : Nat} {evs : List Steer.Ev}
    {sm : Option SrcMsg} {nu : Option Nat} (h : bookkeep m ch fo ft evs = some (m', sm, nu)) :
    metaOf m' = metaOf m := by
  induction evs generalizing m m' sm nu with
  | nil => simp only [bookkeep, Option.some.injEq, Prod.mk.injEq] at h; rw [← h.1]
  | cons ev r ih =>
    cases ev with
    | disable => exact ih h
    | step d =>
      simp only [bookkeep] at h
      split at h
      · cases h
      · rename_i m1 h1
        split at h
        · cases h
        · rename_i m2 sm2 nu2 h2
          simp only [Option.some.injEq, Prod.mk.injEq] at h
          rw [← h.1, ih h2, offsetSteerAll_meta h1]
    | setFreq f =>
      simp only [bookkeep] at h
      split at h
      · cases h
      · rename_i m2 sm2 nu2 h2
        simp only [Option.some.injEq, Prod.mk.injEq] at h
        rw [← h.1, ih h2]
        exact metaOf_mapSnaps _ _ (fun _ => rfl)
    | slew a b =>
      simp only [bookkeep] at h
      split at h
      · cases h
      · rename_i m2 sm2 nu2 h2
        simp only [Option.some.injEq, Prod.mk.injEq] at h
        rw [← h.1, ih h2]

/-- `update_clock` never changes which measurement is stored for which source, nor the usable flags -/
theorem updateClock_meta (cfg : Cfg) (c : Ctrl) (time ft : Nat) :
    metaOf (updateClock cfg c time ft).ctrl.srcs = metaOf c.srcs := by
  have hp : metaOf (mapSnaps c.srcs fun s => { s with k := progressTimeP s.k time s.wander s.period })
      = metaOf c.srcs := metaOf_mapSnaps _ _ (fun _ => rfl)
  unfold updateClock
  split
  · rfl
  · simp only []
    split
    · exact hp
    · split
      · exact hp
      · exact hp
      · split
        · split
          · exact hp
          · rename_i hb
            split
            · simp only []; rw [bookkeep_meta hb, hp]
            · simp only []; rw [bookkeep_meta hb, hp]
        · exact hp

/-- `update_clock`'s first test on a map: some stored snapshot is ahead of `time` -/
def ahead (m : List (Nat × Entry)) (time : Nat) : Bool :=
  (snaps m).any (fun s => SourceFilter.tsSub time s.k.time < 0)

/-- the map after `source.0 = Some(message.inner)` -/
def storeMsg (m : List (Nat × Entry)) (id : Nat) (snap : Snap) : List (Nat × Entry) :=
  modify m id (fun e => { e with snap := some snap })

/-- **a handled measurement is always stored**: for a registered id, after `source_message` the map holds, entry
    by entry, the same measurements (everything but the Kalman state) and usable flags as the map with the
    message stored — whatever the other sources' time stamps are; and if another stored snapshot is ahead
    of the message's time (early return of `update_clock`) the map is EXACTLY that one, nothing reaches the
    clock and no `used_sources` is published. -/
theorem message_always_stored (cfg : Cfg) (c : Ctrl) (id : Nat) (snap : Snap) (ft : Nat)
    (hk : hasKey c.srcs id = true) :
    let o := step cfg c (.source id snap ft)
    metaOf o.ctrl.srcs = metaOf (storeMsg c.srcs id snap) ∧
    (ahead (storeMsg c.srcs id snap) snap.lastUpdate = true →
      o.ctrl.srcs = storeMsg c.srcs id snap ∧ o.calls = [] ∧ o.fin = .ok ∧ o.pub.used = none ∧
      o.pub.srcMsg = none) := by
  simp only [step, hk, if_true]
  refine ⟨updateClock_meta cfg _ _ _, ?_⟩
  intro ha
  unfold updateClock
  simp only [ahead, storeMsg] at ha
  simp [ha, storeMsg, Pub.none]

/-- the stored entry of the source itself: the message's identity and stamp, usable flag untouched -/
theorem message_entry_stored (cfg : Cfg) (c : Ctrl) (id : Nat) (snap : Snap) (ft : Nat) (e : Entry)
    (he : (id, e) ∈ c.srcs) :
    (id, e.usable, some (snapMeta snap)) ∈ metaOf (step cfg c (.source id snap ft)).ctrl.srcs := by
  have hk : hasKey c.srcs id = true := by
    simp only [hasKey, List.any_eq_true]
    exact ⟨(id, e), he, by simp⟩
  rw [(message_always_stored cfg c id snap ft hk).1]
  simp only [metaOf, storeMsg, modify, List.map_map, List.mem_map]
  exact ⟨(id, e), he, by simp [entryMeta]⟩

end NtpVerif.Controller
