/-
Helper lemmas for C24, ninth part: the encoding of a decoded field list is a sequence of frames that the decoder
reads back (sequence lemma, encoder side); the parse-origin invariant of `ExtensionFieldData::deserialize`
(every collected field is well formed, the bytes left over fit the MAC cut-off).
-/
import NtpVerif.Proofs.WireRT8

namespace NtpVerif.Wire

def midMin (ver : Ver) : Nat := match ver with | .v4 => 16 | .v5 => 4
def lastMin (ver : Ver) : Nat := match ver with | .v4 => 28 | .v5 => 4

theorem serU_one (ver : Ver) (f : EF) : serializeUntrusted ver [f] = f.serialize (lastMin ver) ver := by
  unfold serializeUntrusted lastMin; rfl

theorem serU_cons (ver : Ver) (f g : EF) (r : List EF) :
    serializeUntrusted ver (f :: g :: r) =
      (f.serialize (midMin ver) ver >>= fun a => serializeUntrusted ver (g :: r) >>= fun b => pure (a ++ b)) := by
  conv => lhs; unfold serializeUntrusted
  rfl

/-- SEQUENCE LEMMA (encoder side): the untrusted-field encoder writes a sequence of frames; every non-empty suffix
    of it is longer than the MAC cut-off (the last field is padded to 28 bytes under v4 rules, the cut-off is 24);
    the fields read back from the frames encode to the same bytes; under v5 rules they are the same fields. -/
theorem seq_frames (ver : Ver) (tail : Bytes) : ∀ fs : List EF, (∀ f ∈ fs, f.FWF ver) →
    ∃ frs : List Frame, frs.length = fs.length ∧ serializeUntrusted ver fs = .ok (flat frs) ∧
      serializeUntrusted ver (frs.map (·.f)) = .ok (flat frs) ∧ (∀ fr ∈ frs, fr.OK ver) ∧
      SufBig (macCutoff ver) tail frs ∧ (ver = .v5 → frs.map (·.f) = fs) := by
  have m1 : ver = .v4 → midMin ver % 4 = 0 := by intro h; subst h; rfl
  have m2 : midMin ver ≤ 28 := by cases ver <;> decide
  have m3 : ver = .v5 → midMin ver ≤ 4 := by intro h; subst h; decide
  have l1 : ver = .v4 → lastMin ver % 4 = 0 := by intro h; subst h; rfl
  have l2 : lastMin ver ≤ 28 := by cases ver <;> decide
  have l3 : ver = .v5 → lastMin ver ≤ 4 := by intro h; subst h; decide
  have l4 : macCutoff ver < lastMin ver := by cases ver <;> decide
  intro fs
  induction fs with
  | nil => intro _; exact ⟨[], rfl, rfl, rfl, (by intro fr h; cases h), trivial, fun _ => rfl⟩
  | cons f rest ih =>
    intro hall
    have hf := hall f List.mem_cons_self
    have hrest : ∀ g ∈ rest, g.FWF ver := fun g hg => hall g (List.mem_cons_of_mem _ hg)
    cases rest with
    | nil =>
      obtain ⟨fr, h1, h2, h3, h4, h5⟩ := field_rt ver (lastMin ver) f hf l1 l2 l3
      refine ⟨[fr], rfl, ?_, ?_, ?_, ?_, ?_⟩
      · rw [serU_one, h1]; simp [flat]
      · show serializeUntrusted ver [fr.f] = _
        rw [serU_one, h3]; simp [flat]
      · intro x hx
        simp only [List.mem_singleton] at hx
        subst hx; exact h2
      · refine ⟨?_, trivial⟩
        simp only [flat, List.append_nil]
        omega
      · intro hv
        show [fr.f] = [f]
        rw [h5 hv]
    | cons g rest' =>
      obtain ⟨frs, hlen, s1, s2, hok, hbig, h6⟩ := ih hrest
      obtain ⟨fr, h1, h2, h3, h4, h5⟩ := field_rt ver (midMin ver) f hf m1 m2 m3
      cases frs with
      | nil => simp at hlen
      | cons fr2 frs' =>
        refine ⟨fr :: fr2 :: frs', by simp only [List.length_cons] at hlen ⊢; omega, ?_, ?_, ?_, ?_, ?_⟩
        · rw [serU_cons, h1, s1]; rfl
        · simp only [List.map_cons] at s2 ⊢
          rw [serU_cons, h3, s2]; rfl
        · intro x hx
          cases hx with
          | head => exact h2
          | tail _ hx' => exact hok x hx'
        · refine ⟨?_, hbig⟩
          have := hbig.1
          simp only [flat, List.length_append] at this ⊢
          omega
        · intro hv
          have := h6 hv
          simp only [List.map_cons] at this ⊢
          rw [h5 hv, this]

/-! ### parse-origin invariant -/

theorem rawDeserialize_ty {data : Bytes} {minSize : Nat} {ver : Ver} {ty : Nat} {msg : Bytes}
    (h : rawDeserialize data minSize ver = .ok (ty, msg)) : ty < 65536 := by
  unfold rawDeserialize at h
  split at h
  · simp only at h
    repeat' split at h
    all_goals first
      | (cases h; done)
      | (cases h; exact be16_lt _ _)
  · cases h

theorem streamAux_succ (ver : Ver) (cutoff minSize fuel : Nat) (rem : Bytes) (off : Nat) :
    streamAux ver cutoff minSize (fuel + 1) rem off =
      if rem.length ≤ cutoff then []
      else
        match rawDeserialize rem minSize ver with
        | .error e => [.err e]
        | .ok (ty, msg) =>
          match wireLength msg ver with
          | none => [.panic]
          | some wl => .field off ty msg wl :: streamAux ver cutoff minSize fuel (rem.drop wl) (off + wl) := by
  rfl

def ItemTy : Item → Prop
  | .field _ ty _ _ => ty < 65536
  | _ => True

def Item.isField : Item → Prop
  | .field _ _ _ _ => True
  | _ => False

/-- where the last yielded field ends (`size` of the decoder loop) -/
def endOff : List Item → Nat → Nat
  | [], o => o
  | .field off _ _ wl :: r, _ => endOff r (off + wl)
  | _ :: r, o => endOff r o

theorem streamAux_ty (ver : Ver) (cutoff minSize : Nat) :
    ∀ (fuel : Nat) (rem : Bytes) (off : Nat), ∀ it ∈ streamAux ver cutoff minSize fuel rem off, ItemTy it := by
  intro fuel
  induction fuel with
  | zero =>
    intro rem off it hit
    unfold streamAux at hit
    simp only [List.mem_singleton] at hit
    subst hit; trivial
  | succ n ih =>
    intro rem off it hit
    rw [streamAux_succ] at hit
    by_cases hc : rem.length ≤ cutoff
    · simp only [hc, if_true] at hit; cases hit
    · simp only [hc, if_false] at hit
      cases hr : rawDeserialize rem minSize ver with
      | error e =>
        simp only [hr, List.mem_singleton] at hit
        subst hit; trivial
      | ok x =>
        obtain ⟨ty, msg⟩ := x
        simp only [hr] at hit
        cases hw : wireLength msg ver with
        | none =>
          simp only [hw, List.mem_singleton] at hit
          subst hit; trivial
        | some wl =>
          simp only [hw, List.mem_cons] at hit
          cases hit with
          | inl h => subst h; exact rawDeserialize_ty hr
          | inr h => exact ih _ _ it h

/-- a stream without error items ends within `cutoff` bytes of the end of the buffer -/
theorem streamAux_end (ver : Ver) (cutoff minSize : Nat) :
    ∀ (fuel : Nat) (rem : Bytes) (off : Nat), rem.length < fuel →
      (∀ it ∈ streamAux ver cutoff minSize fuel rem off, it.isField) →
      off + rem.length ≤ endOff (streamAux ver cutoff minSize fuel rem off) off + cutoff := by
  intro fuel
  induction fuel with
  | zero => intro rem off h; omega
  | succ n ih =>
    intro rem off hf hall
    rw [streamAux_succ] at hall ⊢
    by_cases hc : rem.length ≤ cutoff
    · simp only [hc, if_true, endOff]; omega
    · simp only [hc, if_false] at hall ⊢
      cases hr : rawDeserialize rem minSize ver with
      | error e =>
        simp only [hr] at hall
        exact absurd (hall _ List.mem_cons_self) (by simp [Item.isField])
      | ok x =>
        obtain ⟨ty, msg⟩ := x
        simp only [hr] at hall ⊢
        obtain ⟨_, _, h3⟩ := rawDeserialize_ok hr
        have hw := wireLength_of h3
        simp only [hw] at hall ⊢
        have hge := nm4_ge (4 + msg.length)
        have := ih (rem.drop (nm4 (4 + msg.length))) (off + nm4 (4 + msg.length))
          (by rw [List.length_drop]; omega)
          (fun it hit => hall it (List.mem_cons_of_mem _ hit))
        simp only [endOff]
        rw [List.length_drop] at this
        omega

theorem efLoop_end {dec : Dec} {ctx : Ctx} {data : Bytes} {hs : Nat} {ver : Ver} :
    ∀ (items : List Item) (st st' : EFState), efLoop dec ctx data hs ver items st = .ok st' →
      (∀ it ∈ items, it.isField) ∧ st'.size = endOff items st.size := by
  intro items
  induction items with
  | nil =>
    intro st st' h
    unfold efLoop at h
    cases h
    exact ⟨(by intro it hit; cases hit), rfl⟩
  | cons it rest ih =>
    intro st st' h
    cases it with
    | err e => unfold efLoop at h; cases h
    | panic => unfold efLoop at h; cases h
    | fuel => unfold efLoop at h; cases h
    | field off ty msg wl =>
      unfold efLoop at h
      split at h
      · cases h
      · rename_i st1 h1
        have hsz := efStep_size h1
        obtain ⟨a, b⟩ := ih st1 st' h
        refine ⟨?_, ?_⟩
        · intro it hit
          cases hit with
          | head => trivial
          | tail _ hx => exact a it hx
        · simp only [endOff]
          rw [b, hsz]

theorem wireLength_v4 {msg : Bytes} {ver : Ver} {wl : Nat} (h : wireLength msg ver = some wl) :
    ver = .v4 → msg.length % 4 = 0 := by
  intro hv
  unfold wireLength at h
  simp only at h
  split at h
  · cases h
  · rename_i hc
    by_cases hm : (2 + 2 + msg.length) % 4 = 0
    · omega
    · exact absurd ⟨hv, hm⟩ hc

/-- while the NTS state is valid every collected field satisfies the parse-origin invariant -/
def EFState.FW (ver : Ver) (st : EFState) : Prop := st.valid = true → ∀ f ∈ st.ef.untrusted, f.FWF ver

theorem efStep_fwf {dec : Dec} {data : Bytes} {hs : Nat} {ver : Ver} {st st' : EFState} {off ty : Nat}
    {msg : Bytes} {wl lim : Nat} (hst : st.FW ver) (hit : ItemOK ver lim (.field off ty msg wl)) (hty : ty < 65536)
    (h : efStep dec .noCipher data hs ver st off ty msg wl = .ok st') : st'.FW ver := by
  unfold efStep at h
  simp only at h
  split at h
  · split at h
    · cases h
    · simp only [Ctx.get] at h
      cases h
      intro hv; simp [EFState.pushInvalid] at hv
  · rename_i hne
    split at h
    · cases h
    · rename_i f hf
      cases h
      intro hv g hg
      simp only [List.mem_append, List.mem_singleton] at hg
      cases hg with
      | inl hg => exact hst hv g hg
      | inr hg =>
        subst hg
        exact decode_fwf hf hty hne ⟨hit.2.2, wireLength_v4 hit.1⟩

theorem efLoop_fwf {dec : Dec} {data : Bytes} {hs : Nat} {ver : Ver} (lim : Nat) :
    ∀ (items : List Item) (st st' : EFState), (∀ it ∈ items, ItemOK ver lim it) → (∀ it ∈ items, ItemTy it) →
      st.FW ver → efLoop dec .noCipher data hs ver items st = .ok st' → st'.FW ver := by
  intro items
  induction items with
  | nil => intro st st' _ _ hp h; unfold efLoop at h; cases h; exact hp
  | cons it rest ih =>
    intro st st' hok hty hp h
    have hit := hok it List.mem_cons_self
    have hit2 := hty it List.mem_cons_self
    have hrest : ∀ it ∈ rest, ItemOK ver lim it := fun x hx => hok x (List.mem_cons_of_mem _ hx)
    have hrest2 : ∀ it ∈ rest, ItemTy it := fun x hx => hty x (List.mem_cons_of_mem _ hx)
    cases it with
    | err e => unfold efLoop at h; cases h
    | panic => unfold efLoop at h; cases h
    | fuel => unfold efLoop at h; cases h
    | field off ty msg wl =>
      unfold efLoop at h
      split at h
      · cases h
      · rename_i st1 h1
        exact ih st1 st' hrest hrest2 (efStep_fwf hp hit hit2 h1) h

/-- PARSE-ORIGIN INVARIANT of `ExtensionFieldData::deserialize` without keys -/
theorem efDeserialize_origin {dec : Dec} {data : Bytes} {hs : Nat} {ver : Ver} {r : EFResult}
    (h : efDeserialize dec .noCipher data hs ver = .ok r) :
    (r.valid = true → ∀ f ∈ r.ef.untrusted, f.FWF ver) ∧ r.remaining.length ≤ macCutoff ver := by
  unfold efDeserialize at h
  split at h
  · cases h
  · rename_i body hbody
    split at h
    · cases h
    · rename_i st hst
      split at h
      · cases h
      · rename_i remaining hrem
        cases h
        have hb := sliceP_rest hbody
        have hbl := sliceP_length hbody
        have hrl := sliceP_length hrem
        refine ⟨?_, ?_⟩
        · exact efLoop_fwf (dec := dec) (data := data) (hs := hs) (ver := ver) body.length _ .init st
            (stream_ok body _ _ ver) (streamAux_ty ver _ _ _ body 0)
            (by intro _ f hf; simp [EFState.init, EFData.empty] at hf) hst
        · obtain ⟨hall, hsz⟩ := efLoop_end _ _ _ hst
          have := streamAux_end ver (macCutoff ver) Gen.EF_V4_UNENCRYPTED_MINIMUM_SIZE (body.length + 1) body 0
            (by omega) hall
          unfold stream at hsz
          simp only [EFState.init] at hsz
          simp only
          omega

end NtpVerif.Wire
